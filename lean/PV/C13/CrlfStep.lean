import PV.C05.Thm
/-
  C13 — `CrlfClear` for the lexer model, part 1: one `step` never stops between a CR and the LF that follows it.

  `Split l p`: position `p` (a character index) of `l` lies between a CR and its LF.  Per arm of `consume_character`
  (PV/Lexer/Model.lean): numbers, names and operators consume no CR at all (`lexNumber_noCR`, `scanFold_noCR`,
  `lexOp_noCR`); a string token ends behind its closing quote (C05's `lexString_spells`); a comment and a run of
  blanks end behind a character that is no line break; the line-break arm and the backslash continuation go through
  `nextChar`, which takes CR LF together (`nextChar_not_split`).  Result: `consumeNormal_clear`.
  `eat_indentation` (loop invariant `EatInv`: the current position and the start of the current run of spaces / tabs —
  where an INDENT token starts — are not between a CR and its LF; a comment is skipped up to a character that is no
  CR) gives `handleIndentations_clear`; both together `step_clear`.
-/
set_option linter.unusedVariables false
namespace PV.C13.Crlf
open PV.Lexer PV.C05

/-- position `p` of the character list `l` lies between a CR and the LF that follows it -/
def Split (l : List Nat) (p : Nat) : Prop := 0 < p ∧ l[p - 1]? = some 13 ∧ l[p]? = some 10

instance (l : List Nat) (p : Nat) : Decidable (Split l p) := by unfold Split; exact inferInstance

theorem not_split_zero (l : List Nat) : ¬ Split l 0 := by simp [Split]

theorem split_drop (l : List Nat) (p n : Nat) (hn : 0 < n) : Split l (p + n) ↔ Split (l.drop p) n := by
  unfold Split
  have e : p + n - 1 = p + (n - 1) := by omega
  simp only [List.getElem?_drop, e]
  constructor <;> (intro h; exact ⟨by omega, h.2⟩)

theorem split_cons (c : Nat) (l : List Nat) (n : Nat) (hn : 0 < n) : Split (c :: l) (1 + n) ↔ Split l n := by
  have := split_drop (c :: l) 1 n hn
  simpa using this

/-- the last character in front of `n` is no CR -/
theorem not_split_of_last {l : List Nat} {n : Nat} (h : l[n - 1]? ≠ some 13) : ¬ Split l n := fun hs => h hs.2.1

def NoCR (l : List Nat) : Prop := ∀ x ∈ l, x ≠ 13

theorem last_of_noCR {l : List Nat} {n : Nat} (h1 : 1 ≤ n) (h : NoCR (l.take n)) : l[n - 1]? ≠ some 13 := by
  intro h13
  have : (l.take n)[n - 1]? = some 13 := by rw [List.getElem?_take]; simp [h13]; omega
  have : 13 ∈ l.take n := List.mem_of_getElem? this
  exact h 13 this rfl

theorem not_split_of_noCR {l : List Nat} {n : Nat} (h1 : 1 ≤ n) (h : NoCR (l.take n)) : ¬ Split l n :=
  not_split_of_last (last_of_noCR h1 h)

theorem last_of_take_eq {l A : List Nat} {n q : Nat} (h : l.take n = A ++ [q]) (hq : q ≠ 13) : l[n - 1]? ≠ some 13 := by
  intro h13
  have hlen := congrArg List.length h
  simp at hlen
  have hlt : n - 1 < l.length := by
    rcases Nat.lt_or_ge (n - 1) l.length with h | h
    · exact h
    · rw [List.getElem?_eq_none h] at h13; cases h13
  have hn : n = A.length + 1 := by omega
  have : (l.take n)[n - 1]? = some 13 := by rw [List.getElem?_take]; simp [h13]; omega
  rw [h, hn] at this
  simp at this
  exact hq this

theorem noCR_take_add {l : List Nat} {n k : Nat} (h1 : NoCR (l.take n)) (h2 : NoCR ((l.drop n).take k)) :
    NoCR (l.take (n + k)) := by
  rw [List.take_add]
  intro x hx
  rcases List.mem_append.mp hx with hx | hx
  · exact h1 x hx
  · exact h2 x hx


/-! ### numbers: every character a number token consumes is no CR -/

theorem isDigitOf_cr (r : Nat) : isDigitOf r 13 = false := by
  unfold isDigitOf; split <;> simp [isDigit]

theorem radixRun_noCR (r : Nat) (l : List Nat) : NoCR (l.take (radixRun r l).2) := by
  fun_induction radixRun r l
  · simp [NoCR]
  · rename_i c cs hc ih
    intro x hx
    simp only [List.take_succ_cons, List.mem_cons] at hx
    rcases hx with rfl | hx
    · intro h; subst h; simp [isDigitOf_cr] at hc
    · exact ih x hx
  · rename_i ih
    intro x hx
    simp only [List.take_succ_cons, List.mem_cons] at hx
    rcases hx with rfl | hx
    · decide
    · exact ih x hx
  · simp [NoCR]
  · simp [NoCR]
  · simp [NoCR]

theorem fracPart_noCR {inp v : List Nat} {n : Nat} {v' : List Nat} {n' : Nat}
    (hv : NoCR (inp.take n)) (h : fracPart v n (inp.drop n) = .ok (v', n')) : NoCR (inp.take n') := by
  unfold fracPart at h
  split at h
  · rename_i rest hdrop
    split at h
    · simp at h
    · simp at h; obtain ⟨rfl, rfl⟩ := h
      have e : n + 1 + (radixRun 10 rest).2 = n + ((radixRun 10 rest).2 + 1) := by omega
      rw [e]
      refine noCR_take_add hv ?_
      rw [hdrop]
      intro x hx
      simp only [List.take_succ_cons, List.mem_cons] at hx
      rcases hx with rfl | hx
      · decide
      · exact radixRun_noCR 10 rest x hx
  · simp at h; obtain ⟨rfl, rfl⟩ := h; exact hv

theorem expPartBody_noCR {inp v : List Nat} {n : Nat} {v' : List Nat} {n' : Nat}
    (hv : NoCR (inp.take n)) (h : expPartBody v n (inp.drop n) = .ok (v', n')) : NoCR (inp.take n') := by
  unfold expPartBody at h
  split at h
  · rename_i e rest hdrop
    split at h
    · rename_i he
      have he : e = 101 ∨ e = 69 := by simpa using he
      split at h
      · simp at h
      · split at h
        · rename_i s rest2 hrest
          split at h
          · rename_i hs
            have hs : s = 45 ∨ s = 43 := by simpa using hs
            split at h
            · simp at h
            · simp at h; obtain ⟨rfl, rfl⟩ := h
              have e2 : n + 2 + (radixRun 10 rest2).2 = n + ((radixRun 10 rest2).2 + 2) := by omega
              rw [e2]
              refine noCR_take_add hv ?_
              rw [hdrop]
              intro x hx
              simp only [List.take_succ_cons, List.mem_cons] at hx
              rcases hx with rfl | rfl | hx
              · omega
              · omega
              · exact radixRun_noCR 10 rest2 x hx
          · simp at h; obtain ⟨rfl, rfl⟩ := h
            have e2 : n + 1 + (radixRun 10 (s :: rest2)).2 = n + ((radixRun 10 (s :: rest2)).2 + 1) := by omega
            rw [e2]
            refine noCR_take_add hv ?_
            rw [hdrop]
            intro x hx
            simp only [List.take_succ_cons, List.mem_cons] at hx
            rcases hx with rfl | hx
            · omega
            · exact radixRun_noCR 10 (s :: rest2) x hx
        · simp at h; obtain ⟨rfl, rfl⟩ := h
          refine noCR_take_add hv ?_
          rw [hdrop]
          intro x hx
          simp at hx
          omega
    · simp at h; obtain ⟨rfl, rfl⟩ := h; exact hv
  · simp at h; obtain ⟨rfl, rfl⟩ := h; exact hv

theorem expPart_noCR {inp v : List Nat} {n : Nat} {v' : List Nat} {n' : Nat}
    (hv : NoCR (inp.take n)) (h : expPart v n (inp.drop n) = .ok (v', n')) : NoCR (inp.take n') := by
  unfold expPart at h
  split at h
  · exact expPartBody_noCR hv h
  · simp at h; obtain ⟨rfl, rfl⟩ := h; exact hv

theorem noCR_take_succ {inp : List Nat} {n c : Nat} {r : List Nat} (hv : NoCR (inp.take n))
    (hd : inp.drop n = c :: r) (hc : c ≠ 13) : NoCR (inp.take (n + 1)) := by
  rw [take_succ_of_drop hd]
  intro x hx
  rcases List.mem_append.mp hx with hx | hx
  · exact hv x hx
  · simp at hx; omega

theorem floatTail_noCR {inp : List Nat} {tok : Tok} {m : Nat}
    (h : floatTail inp (radixRun 10 inp).1 (radixRun 10 inp).2 = .ok (tok, m)) : NoCR (inp.take m) := by
  have h0 := radixRun_noCR 10 inp
  unfold floatTail at h
  split at h
  · simp at h
  · rename_i v2 n2 h2
    have c2 := fracPart_noCR h0 h2
    split at h
    · simp at h
    · rename_i v3 n3 h3
      have c3 := expPart_noCR c2 h3
      split at h
      · simp at h
      · split at h
        · rename_i c r hdrop
          split at h
          · rename_i hj
            simp at h; obtain ⟨rfl, rfl⟩ := h
            have hj : c = 106 ∨ c = 74 := by simpa [isJ] using hj
            exact noCR_take_succ c3 hdrop (by omega)
          · simp at h; obtain ⟨rfl, rfl⟩ := h
            exact c3
        · simp at h; obtain ⟨rfl, rfl⟩ := h
          exact c3

theorem intTok_n {z : Bool} {ds : List Nat} {n : Nat} {tok : Tok} {m : Nat}
    (h : intTok z ds n = .ok (tok, m)) : m = n := by
  unfold intTok at h
  split at h
  · simp at h
  · split at h
    · simp at h
    · simp at h; exact h.2.symm

theorem intTail_noCR {inp : List Nat} {z : Bool} {tok : Tok} {m : Nat}
    (h : intTail inp z (radixRun 10 inp).1 (radixRun 10 inp).2 = .ok (tok, m)) : NoCR (inp.take m) := by
  have h0 := radixRun_noCR 10 inp
  unfold intTail at h
  split at h
  · rename_i c r hdrop
    split at h
    · rename_i hj
      split at h
      · simp at h; obtain ⟨rfl, rfl⟩ := h
        have hj : c = 106 ∨ c = 74 := by simpa [isJ] using hj
        exact noCR_take_succ h0 hdrop (by omega)
      · simp at h
    · rw [intTok_n h]; exact h0
  · rw [intTok_n h]; exact h0

theorem lexNumberRadix_noCR (radix x : Nat) (rest : List Nat) (hx : x ≠ 13) {tok : Tok} {n : Nat}
    (h : lexNumberRadix radix rest = .ok (tok, n)) : NoCR ((48 :: x :: rest).take n) := by
  simp only [lexNumberRadix] at h
  split at h
  · simp at h; obtain ⟨rfl, rfl⟩ := h
    have e : (2 + (radixRun radix rest).2) = (radixRun radix rest).2 + 2 := by omega
    rw [e]
    intro y hy
    simp only [List.take_succ_cons, List.mem_cons] at hy
    rcases hy with rfl | rfl | hy
    · decide
    · exact hx
    · exact radixRun_noCR radix rest y hy
  · simp at h

theorem lexNumber_noCR {inp : List Nat} {tok : Tok} {n : Nat} (h : lexNumber inp = .ok (tok, n)) :
    NoCR (inp.take n) := by
  have normal : lexNormalNumber inp = .ok (tok, n) → NoCR (inp.take n) := by
    intro h
    simp only [lexNormalNumber] at h
    split at h
    · exact floatTail_noCR h
    · exact intTail_noCR h
  unfold lexNumber at h
  split at h
  · rename_i x rest
    split at h
    · rename_i hx; exact lexNumberRadix_noCR 16 x rest (by intro h13; subst h13; simp at hx) h
    · split at h
      · rename_i hx; exact lexNumberRadix_noCR 8 x rest (by intro h13; subst h13; simp at hx) h
      · split at h
        · rename_i hx; exact lexNumberRadix_noCR 2 x rest (by intro h13; subst h13; simp at hx) h
        · exact normal h
  · exact normal h


/-! ### the other arms of `consume_character` -/

theorem spells_string_last {inp : List Nat} {n : Nat} {v : List Nat} {k : StringKind} {tr : Bool}
    (h : Spells (.string v k tr) (inp.take n)) : inp[n - 1]? ≠ some 13 := by
  obtain ⟨pre, q, body, hq, _, ht, _⟩ := h
  have hq13 : q ≠ 13 := by omega
  cases tr with
  | true =>
    refine last_of_take_eq (A := pre ++ [q, q, q] ++ body ++ [q, q]) ?_ hq13
    rw [ht]; simp
  | false =>
    refine last_of_take_eq (A := pre ++ [q] ++ body) ?_ hq13
    rw [ht]; simp

theorem lexOp_noCR {inp : List Nat} {o : Op} {n : Nat} (h : lexOp inp = some (o, n)) : NoCR (inp.take n) := by
  unfold lexOp at h
  split at h <;> simp at h <;> obtain ⟨rfl, rfl⟩ := h <;> simp [NoCR]

theorem nextChar_not_split {l : List Nat} {ch n : Nat} {r : List Nat} (h : nextChar l = some (ch, n, r)) :
    ¬ Split l n := by
  unfold nextChar at h
  split at h <;> simp at h
  · obtain ⟨rfl, rfl, rfl⟩ := h; simp [Split]
  · rename_i r' hne
    obtain ⟨rfl, rfl, rfl⟩ := h
    intro hs
    simp [Split] at hs
    cases r' with
    | nil => simp at hs
    | cons x xs => simp at hs; subst hs; exact hne xs rfl
  · rename_i c r' hne1 hne2
    obtain ⟨rfl, rfl, rfl⟩ := h
    intro hs
    simp [Split] at hs
    exact hne2 hs.1

/-- what one `consume_normal` guarantees: every token it pushes spans exactly what it consumed, and the position behind
    what it consumed is not between a CR and its LF -/
def CNClear (inp : List Nat) (o : StepOut) : Prop :=
  ¬ Split inp o.consumed ∧ ∀ t ∈ o.toks, t.s = 0 ∧ t.e = o.consumed

theorem cnclear_one {inp : List Nat} {n : Nat} (h : ¬ Split inp n) (tok : Tok) (st : LexState) :
    CNClear inp (one tok n st) := by simp [CNClear, one, h]

theorem cnclear_skip {inp : List Nat} {n : Nat} (h : ¬ Split inp n) (st : LexState) :
    CNClear inp (skip n st) := by simp [CNClear, skip, h]

theorem cnclear_ofSub {inp : List Nat} {st : LexState} {r : Sub}
    (hr : ∀ tok n, r = .ok (tok, n) → ¬ Split inp n) {o : StepOut} (h : ofSub st r = .ok o) : CNClear inp o := by
  cases r with
  | error e => simp [ofSub] at h
  | ok p =>
    obtain ⟨tok, n⟩ := p
    simp [ofSub] at h; subst h
    exact cnclear_one (hr tok n rfl) tok st

theorem consumeCharacter_clear {cfg : Cfg} {st : LexState} {c : Nat} {cs : List Nat} {o : StepOut}
    (h : consumeCharacter cfg st c cs = .ok o) : CNClear (c :: cs) o := by
  have num : ∀ (hc : isDigit c = true ∨ (c = 46 ∧ ∃ d r, cs = d :: r ∧ isDigit d = true)),
      ofSub st (lexNumber (c :: cs)) = .ok o → CNClear (c :: cs) o := by
    intro hc h
    refine cnclear_ofSub ?_ h
    intro tok n hr
    have hb := lexNumber_ok c cs hc
    rw [hr] at hb
    exact not_split_of_noCR hb.1 (lexNumber_noCR hr)
  unfold consumeCharacter at h
  split at h
  · rename_i hd; exact num (Or.inl hd) h
  split at h
  · rename_i hc; subst hc
    have h2 : 1 ≤ commentLen (35 :: cs) := by simp [commentLen, spanLen, isLineBreak]
    have hall := spanLen_take_all (fun c => !isLineBreak c) (35 :: cs)
    have hall' : NoCR ((35 :: cs).take (commentLen (35 :: cs))) := by
      intro x hx; have := hall x hx; simp [isLineBreak] at this; exact this.2
    have := not_split_of_noCR h2 hall'
    split at h <;> (simp at h; subst h)
    · exact cnclear_one this _ _
    · exact cnclear_skip this _
  split at h
  · rename_i hq
    refine cnclear_ofSub ?_ h
    intro tok n hr
    obtain ⟨sp, v, tr, rfl⟩ := lexString_spells (kind := .string) (q := c) (r := cs)
      (by simp [StringKind.prefixLen, prefixKind]) (by simp [StringKind.prefixLen])
      (by simpa [isQuote] using hq) hr
    exact not_split_of_last (spells_string_last sp)
  split at h
  · rename_i hc; subst hc
    split at h
    · simp at h; subst h
      exact cnclear_one (by simp [Split]) _ _
    · simp at h
  split at h
  · rename_i hd
    simp at hd
    obtain ⟨rfl, hd⟩ := hd
    exact num (Or.inr ⟨rfl, headIsDigit_cons hd⟩) h
  split at h
  · rename_i o' n ho
    simp at h; subst h
    exact cnclear_one (not_split_of_noCR (lexOp_ok ho).1 (lexOp_noCR ho)) _ _
  split at h
  · rename_i ob hob
    simp at h; subst h
    refine cnclear_one (not_split_of_last ?_) _ _
    unfold openBracket at hob
    split at hob <;> simp at hob <;> simp
  split at h
  · rename_i cb hcb
    split at h
    · simp at h
    · simp at h; subst h
      refine cnclear_one (not_split_of_last ?_) _ _
      unfold closeBracket at hcb
      split at hcb <;> simp at hcb <;> simp
  split at h
  · rename_i hlb
    split at h
    · simp at h
    · rename_i ch n r hn
      have N := nextChar_not_split hn
      split at h
      · simp at h; subst h
        exact cnclear_one N _ _
      · split at h <;> (simp at h; subst h)
        · exact cnclear_one N _ _
        · exact cnclear_skip N _
  split at h
  · rename_i hb
    simp at h; subst h
    refine cnclear_skip (not_split_of_noCR (spanLen_pos _ _ _ hb) ?_) _
    intro x hx
    have := spanLen_take_all isBlank (c :: cs) x hx
    simp [isBlank] at this; omega
  split at h
  · rename_i hc; subst hc
    cases cs with
    | nil => simp at h
    | cons d tl =>
      simp only [] at h
      split at h
      · split at h
        · simp at h
        · rename_i ch n r hn
          have N := nextChar_not_split hn
          have B := nextChar_ok hn
          split at h
          · simp at h
          · simp at h; subst h
            refine cnclear_skip ?_ _
            rw [split_cons _ _ _ B.1]
            exact N
      · simp at h
  split at h
  · rename_i hnlb _ _ _
    simp at h; subst h
    refine cnclear_one (not_split_of_last ?_) _ _
    simp [isLineBreak] at hnlb
    simp; omega
  · simp at h

/-! ### `lex_identifier`, `consume_normal` -/

theorem lexIdentifier_cases {up : UParams} {inp : List Nat} {tok : Tok} {n : Nat}
    (h : lexIdentifier up inp = .ok (tok, n)) :
    (∃ kind, lexString kind inp = .ok (tok, n)) ∨ lexName up inp = (tok, n) := by
  unfold lexIdentifier at h
  split at h
  · split at h
    · split at h
      · exact Or.inl ⟨_, h⟩
      · simp at h; exact Or.inr (by simpa using congrArg id h)
    · split at h
      · split at h
        · split at h
          · exact Or.inl ⟨_, h⟩
          · simp at h; exact Or.inr (by simpa using congrArg id h)
        · simp at h; exact Or.inr (by simpa using congrArg id h)
      · simp at h; exact Or.inr (by simpa using congrArg id h)
  · simp at h; exact Or.inr (by simpa using congrArg id h)

theorem lexString_tok {kind : StringKind} {inp : List Nat} {tok : Tok} {n : Nat}
    (h : lexString kind inp = .ok (tok, n)) : ∃ v tr, tok = .string v kind tr := by
  unfold lexString at h
  split at h
  · simp at h
  · split at h
    · split at h
      · simp at h; exact ⟨_, _, h.1.symm⟩
      · simp at h
    · split at h
      · simp at h; exact ⟨_, _, h.1.symm⟩
      · simp at h

theorem lexName_noCR {up : UParams} (hs : up.Sane) (inp : List Nat) : NoCR (inp.take (lexName up inp).2) := by
  have hcr : isIdCont up 13 = false := by simp [isIdCont, isAsciiLetter, isDigit, hs.cr]
  have S := scanFold_noCR (isIdCont up) hcr inp
  have e : (lexName up inp).2 = (scanFold (isIdCont up) inp).2 := by
    unfold lexName; simp only []; split <;> rfl
  rw [e, ← S.1]
  intro x hx h13
  subst h13
  have := S.2 13 hx
  rw [hcr] at this; cases this

theorem lexIdentifier_clear {up : UParams} (hs : up.Sane) {c : Nat} {cs : List Nat} (hc : isIdStart up c = true)
    {tok : Tok} {n : Nat} (h : lexIdentifier up (c :: cs) = .ok (tok, n)) : ¬ Split (c :: cs) n := by
  have hb := lexIdentifier_ok up hs c cs hc
  rw [h] at hb
  rcases lexIdentifier_cases h with ⟨kind, hk⟩ | hn
  · obtain ⟨v, tr, rfl⟩ := lexString_tok hk
    exact not_split_of_last (spells_string_last (lexIdentifier_spells hs h).1)
  · have := lexName_noCR hs (c :: cs)
    rw [hn] at this
    exact not_split_of_noCR hb.1 this

/-- one `consume_normal` stops at a position that is not between a CR and its LF -/
theorem consumeNormal_clear {cfg : Cfg} (hs : cfg.up.Sane) {st : LexState} {inp : List Nat} {o : StepOut}
    (h : consumeNormal cfg st inp = .ok o) : CNClear inp o := by
  unfold consumeNormal at h
  split at h
  · unfold consumeEof at h
    split at h
    · simp at h
    · simp at h; subst h
      refine ⟨not_split_zero _, ?_⟩
      intro t ht
      simp only [List.mem_append, List.mem_replicate] at ht
      rcases ht with ht | ht
      · split at ht <;> simp at ht; subst ht; simp
      · rw [ht.2]; simp
  · rename_i c cs
    split at h
    · rename_i hc
      exact cnclear_ofSub (fun tok n hr => lexIdentifier_clear hs hc hr) h
    · exact consumeCharacter_clear h


/-! ### `eat_indentation` / `handle_indentations` -/

/-- positions of `whole` behind `pos`, seen from the rest `l = whole.drop pos` -/
theorem split_at {whole l : List Nat} {pos : Nat} (hw : whole.drop pos = l) (k : Nat) (hk : 0 < k) :
    Split whole (pos + k) ↔ Split l k := by
  rw [split_drop whole pos k hk, hw]

theorem drop_tail {whole : List Nat} {pos c : Nat} {cs : List Nat} (hw : whole.drop pos = c :: cs) (k : Nat) :
    whole.drop (pos + (k + 1)) = cs.drop k := by
  rw [← List.drop_drop, hw]; simp

theorem not_split_of_drop_nil {whole : List Nat} {pos : Nat} (hw : whole.drop pos = []) : ¬ Split whole pos := by
  intro hs
  have := hs.2.2
  rw [← Nat.add_zero pos, ← List.getElem?_drop, hw] at this
  simp at this

/-- the invariant of the `eat_indentation` loop -/
def EatInv (whole l : List Nat) (skip pos s t : Nat) : Prop :=
  if skip = 0 then ¬ Split whole pos ∧ ¬ Split whole (pos - s - t) else l[skip - 1]? ≠ some 13 ∧ s = 0 ∧ t = 0

def EatClear (whole : List Nat) (o : EatOut) : Prop :=
  ¬ Split whole o.pos ∧ ¬ Split whole (o.pos - o.spaces - o.tabs) ∧
  ∀ tk ∈ o.toks, ¬ Split whole tk.s ∧ ¬ Split whole tk.e

theorem eatClear_addTok {whole : List Nat} {full : Bool} {tk : RelTok} {r : Except ErrRel EatOut} {o : EatOut}
    (h : EatOut.addTok full tk r = .ok o) (ih : ∀ o', r = .ok o' → EatClear whole o')
    (h1 : ¬ Split whole tk.s) (h2 : ¬ Split whole tk.e) : EatClear whole o := by
  obtain ⟨o', hr, e1, e2, e3, e4, e5⟩ := addTok_ok h
  have I := ih o' hr
  unfold EatClear
  rw [e1, e2, e3, e5]
  refine ⟨I.1, I.2.1, ?_⟩
  intro t ht
  split at ht
  · rcases List.mem_cons.mp ht with rfl | ht
    · exact ⟨h1, h2⟩
    · exact I.2.2 t ht
  · exact I.2.2 t ht

theorem eatIndent_clear {full : Bool} {l : List Nat} {skip pos s t : Nat} {o : EatOut} (whole : List Nat)
    (h : eatIndent full l skip pos s t = .ok o) (hw : whole.drop pos = l) (hinv : EatInv whole l skip pos s t) :
    EatClear whole o := by
  fun_induction eatIndent full l skip pos s t generalizing o
  case case1 =>
    simp at h; subst h
    have := not_split_of_drop_nil hw
    exact ⟨this, by simpa using this, by simp⟩
  case case2 c cs k pos s t ih =>
    refine ih h (by simpa using drop_tail hw 0) ?_
    unfold EatInv at hinv ⊢
    simp only [Nat.add_one_ne_zero, if_false] at hinv
    obtain ⟨h13, rfl, rfl⟩ := hinv
    split
    · rename_i hk; subst hk
      have : ¬ Split whole (pos + 1) := by
        rw [split_at hw 1 (by omega)]
        simp at h13
        simp [Split, h13]
      exact ⟨this, this⟩
    · rename_i hk
      refine ⟨?_, rfl, rfl⟩
      have e : k = (k - 1) + 1 := by omega
      rw [e] at h13
      simpa using h13
  case case3 cs pos s t ih =>
    refine ih h (by simpa using drop_tail hw 0) ?_
    unfold EatInv at hinv ⊢
    simp only [if_true] at hinv ⊢
    have e : pos + 1 - (s + 1) - t = pos - s - t := by omega
    rw [e]
    exact ⟨by rw [split_at hw 1 (by omega)]; simp [Split], hinv.2⟩
  case case4 => simp at h
  case case5 cs pos s t hs ih =>
    refine ih h (by simpa using drop_tail hw 0) ?_
    unfold EatInv at hinv ⊢
    simp only [if_true] at hinv ⊢
    have e : pos + 1 - s - (t + 1) = pos - s - t := by omega
    rw [e]
    exact ⟨by rw [split_at hw 1 (by omega)]; simp [Split], hinv.2⟩
  case case6 s t cs pos m ih =>
    unfold EatInv at hinv
    simp only [if_true] at hinv
    have hall : NoCR (cs.take m) := by
      intro x hx
      have := spanLen_take_all (fun c => !isLineBreak c) cs x hx
      simp [isLineBreak] at this; exact this.2
    have hend : ¬ Split whole (pos + 1 + m) := by
      rw [Nat.add_assoc, split_at hw (1 + m) (by omega)]
      by_cases hm : m = 0
      · rw [hm]; simp [Split]
      · rw [split_cons _ _ _ (by omega)]
        exact not_split_of_noCR (by omega) hall
    refine eatClear_addTok h (fun o' hr => ih hr (by simpa using drop_tail hw 0) ?_) hinv.1 hend
    unfold EatInv
    split
    · rename_i hm
      rw [hm] at hend
      exact ⟨hend, hend⟩
    · rename_i hm
      exact ⟨last_of_noCR (by omega) hall, rfl, rfl⟩
  case case7 s t cs pos ih =>
    refine ih h (by simpa using drop_tail hw 0) ?_
    unfold EatInv
    simp only [if_true]
    have : ¬ Split whole (pos + 1) := by rw [split_at hw 1 (by omega)]; simp [Split]
    exact ⟨this, this⟩
  case case8 s t cs pos ih =>
    unfold EatInv at hinv
    simp only [if_true] at hinv
    have hend : ¬ Split whole (pos + 2) := by rw [split_at hw 2 (by omega)]; simp [Split]
    refine eatClear_addTok h (fun o' hr => ih hr ?_ ?_) hinv.1 hend
    · have := drop_tail hw 1
      rw [this]; simp
    · unfold EatInv
      simp only [if_true]
      exact ⟨hend, hend⟩
  case case9 s t cs pos hne ih =>
    unfold EatInv at hinv
    simp only [if_true] at hinv
    have hend : ¬ Split whole (pos + 1) := by
      rw [split_at hw 1 (by omega)]
      intro hs
      simp [Split] at hs
      cases cs with
      | nil => simp at hs
      | cons x xs => simp at hs; subst hs; exact hne xs rfl
    refine eatClear_addTok h (fun o' hr => ih hr (by simpa using drop_tail hw 0) ?_) hinv.1 hend
    unfold EatInv
    simp only [if_true]
    exact ⟨hend, hend⟩
  case case10 s t cs pos ih =>
    unfold EatInv at hinv
    simp only [if_true] at hinv
    have hend : ¬ Split whole (pos + 1) := by rw [split_at hw 1 (by omega)]; simp [Split]
    refine eatClear_addTok h (fun o' hr => ih hr (by simpa using drop_tail hw 0) ?_) hinv.1 hend
    unfold EatInv
    simp only [if_true]
    exact ⟨hend, hend⟩
  case case11 =>
    simp at h; subst h
    unfold EatInv at hinv
    simp only [if_true] at hinv
    exact ⟨hinv.1, hinv.2, by simp⟩


/-- no token of the list starts or ends between a CR and its LF (relative spans) -/
def ToksClear (inp : List Nat) (toks : List RelTok) : Prop := ∀ tk ∈ toks, ¬ Split inp tk.s ∧ ¬ Split inp tk.e

theorem toksClear_append {inp : List Nat} {a b : List RelTok} (ha : ToksClear inp a) (hb : ToksClear inp b) :
    ToksClear inp (a ++ b) := by
  intro tk htk
  rcases List.mem_append.mp htk with h | h
  · exact ha tk h
  · exact hb tk h

theorem handleIndentations_clear {cfg : Cfg} {st : LexState} {inp : List Nat} {toks : List RelTok} {p : Nat}
    {st1 : LexState} (h : handleIndentations cfg st inp = .ok (toks, p, st1)) :
    ¬ Split inp p ∧ ToksClear inp toks := by
  unfold handleIndentations at h
  cases ho : eatIndent cfg.fullLexer inp 0 0 0 0 with
  | error e => rw [ho] at h; simp at h
  | ok o =>
    rw [ho] at h; simp only [] at h
    have E : EatClear inp o := eatIndent_clear inp ho (by simp) (by simp [EatInv, not_split_zero])
    by_cases hn : st.nesting ≠ 0
    · rw [if_pos hn] at h
      simp at h; obtain ⟨rfl, rfl, rfl⟩ := h
      exact ⟨E.1, E.2.2⟩
    rw [if_neg hn] at h
    cases hst : st.indents with
    | nil => rw [hst] at h; simp at h
    | cons cur rest =>
      rw [hst] at h; simp only [] at h
      cases hc : compareStrict ⟨o.tabs, o.spaces⟩ cur with
      | none => rw [hc] at h; simp at h
      | some ord =>
        rw [hc] at h
        cases ord with
        | eq =>
          simp at h; obtain ⟨rfl, rfl, rfl⟩ := h
          exact ⟨E.1, E.2.2⟩
        | gt =>
          simp only [] at h
          split at h
          · simp at h; obtain ⟨rfl, rfl, rfl⟩ := h
            refine ⟨E.1, toksClear_append E.2.2 ?_⟩
            intro tk htk
            simp at htk; subst htk
            exact ⟨E.2.1, E.1⟩
          · simp at h
        | lt =>
          simp only [] at h
          cases hd : dedentLoop ⟨o.tabs, o.spaces⟩ o.pos (cur :: rest) with
          | error e => rw [hd] at h; simp at h
          | ok r =>
            obtain ⟨n, stack⟩ := r
            rw [hd] at h
            simp at h; obtain ⟨rfl, rfl, rfl⟩ := h
            refine ⟨E.1, toksClear_append E.2.2 ?_⟩
            intro tk htk
            rw [(List.mem_replicate.mp htk).2]
            exact ⟨E.1, E.1⟩

/-- **One step of the lexer model**: neither the position it stops at nor the start or end of any token it pushes lies
    between a CR and the LF that follows it (positions relative to the step's input; position 0 — where the previous
    step stopped — is the caller's business). -/
theorem step_clear {cfg : Cfg} (hs : cfg.up.Sane) {st : LexState} {inp : List Nat} {o : StepOut}
    (h : step cfg st inp = .ok o) : ¬ Split inp o.consumed ∧ ToksClear inp o.toks := by
  unfold step at h
  split at h
  · split at h
    · simp at h
    · rename_i toks1 p st1 hh
      have H := handleIndentations_clear hh
      split at h
      · simp at h
      · rename_i o' hc
        simp at h; subst h
        have N := consumeNormal_clear hs hc
        have hend : ¬ Split inp (p + o'.consumed) := by
          by_cases h0 : o'.consumed = 0
          · rw [h0]; exact H.1
          · rw [split_drop _ _ _ (by omega)]; exact N.1
        refine ⟨hend, toksClear_append H.2 ?_⟩
        intro tk htk
        obtain ⟨r, hr, rfl⟩ := List.mem_map.mp htk
        have := N.2 r hr
        simp only [RelTok.shift, this.1, this.2]
        rw [Nat.add_comm o'.consumed p]
        exact ⟨by simpa using H.1, hend⟩
  · have N := consumeNormal_clear hs h
    refine ⟨N.1, ?_⟩
    intro tk htk
    have := N.2 tk htk
    rw [this.1, this.2]
    exact ⟨not_split_zero _, N.1⟩

end PV.C13.Crlf
