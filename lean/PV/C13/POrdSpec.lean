import PV.C02.SoundSteps
import PV.C13.POrd
/-
  C13 — what the induction over the ranged EXPRESSION parser (`PV.C02.RParse`) has to establish about `ordE`:
  one field per parser function, mirroring `PV.C02.SoundAt` (same preconditions, so that C02's window facts
  `soundAt T f` are available for every call): the returned node(s), when `plain`, are laid out in fold order.
  Proved in `POrdExpr.lean` (`ordAt`), used by the induction over the program parser (`POrdProg.lean`).
-/
namespace PV.C13
open PV.Expr PV.C11
open PV.C02

/-- parameters collected so far are ordered -/
def ordParams (ps : RParams) : Prop :=
  (plainParams ps.posonly = true → ordPs ps.posonly = true) ∧ (plainParams ps.args = true → ordPs ps.args = true) ∧
  ordArgO ps.vararg = true ∧ (plainParams ps.kwonly = true → ordPs ps.kwonly = true) ∧ ordArgO ps.kwarg = true

structure OrdAt (src : List Nat) (σ : SpanTab) (N : Nat) (f : Nat) : Prop where
  test : ∀ ts e rest, ts.length ≤ N → parseRTest σ f ts = some (e, rest) → plain e = true → ordE e = true
  lambda : ∀ ts e rest, ts.length + 1 ≤ N → parseRLambda σ f ts = some (e, rest) → plain e = true → ordE e = true
  params : ∀ ts ps ph ps' rest j0, PInv src σ j0 (ts.length + 1) ph ps → ts.length ≤ j0 → j0 + 1 ≤ N →
    parseRParams σ f ts ps ph = some (ps', rest) → ordParams ps → ordParams ps'
  namedTest : ∀ ts e rest, ts.length ≤ N → parseRNamedTest σ f ts = some (e, rest) → plain e = true → ordE e = true
  starOrNamed : ∀ ts e rest, ts.length ≤ N → parseRStarOrNamed σ f ts = some (e, rest) → plain e = true → ordE e = true
  testOrStar : ∀ ts e rest, ts.length ≤ N → parseRTestOrStar σ f ts = some (e, rest) → plain e = true → ordE e = true
  orTest : ∀ ts e rest, ts.length ≤ N → parseROrTest σ f ts = some (e, rest) → plain e = true → ordE e = true
  orRest : ∀ ts es rest, ts.length ≤ N → parseROrRest σ f ts = some (es, rest) → plainL es = true → ordL es = true
  andTest : ∀ ts e rest, ts.length ≤ N → parseRAndTest σ f ts = some (e, rest) → plain e = true → ordE e = true
  andRest : ∀ ts es rest, ts.length ≤ N → parseRAndRest σ f ts = some (es, rest) → plainL es = true → ordL es = true
  notTest : ∀ ts e rest, ts.length ≤ N → parseRNotTest σ f ts = some (e, rest) → plain e = true → ordE e = true
  cmp : ∀ ts e rest, ts.length ≤ N → parseRCmp σ f ts = some (e, rest) → plain e = true → ordE e = true
  cmpRest : ∀ ts ops cs rest, ts.length ≤ N → parseRCmpRest σ f ts = some ((ops, cs), rest) →
    plainL cs = true → ordL cs = true
  bin : ∀ lvl ts e rest, ts.length ≤ N → parseRBin σ lvl f ts = some (e, rest) → plain e = true → ordE e = true
  binLoop : ∀ lvl st j0 acc ts e rest, st = S σ j0 → ts.length < j0 → j0 ≤ N → Win src σ j0 (ts.length + 1) acc →
    (plain acc = true → ordE acc = true) → parseRBinLoop σ lvl f st acc ts = some (e, rest) →
    plain e = true → ordE e = true
  factor : ∀ ts e rest, ts.length ≤ N → parseRFactor σ f ts = some (e, rest) → plain e = true → ordE e = true
  power : ∀ ts e rest, ts.length ≤ N → parseRPower σ f ts = some (e, rest) → plain e = true → ordE e = true
  atomExpr : ∀ ts e rest, ts.length ≤ N → parseRAtomExpr σ f ts = some (e, rest) → plain e = true → ordE e = true
  atomExpr2 : ∀ ts e rest, ts.length ≤ N → parseRAtomExpr2 σ f ts = some (e, rest) → plain e = true → ordE e = true
  trailers : ∀ st j0 acc ts e rest, st = S σ j0 → ts.length < j0 → j0 ≤ N → Win src σ j0 (ts.length + 1) acc →
    (plain acc = true → ordE acc = true) → parseRTrailers σ f st acc ts = some (e, rest) →
    plain e = true → ordE e = true
  args : ∀ ts as ks d as' ks' rest jl, SeqI src σ jl (ts.length + 1) as → SeqK src σ jl (ts.length + 1) ks →
    ts.length + 1 ≤ jl → jl ≤ N → parseRArgs σ f ts as ks d = some ((as', ks'), rest) →
    (plainL as = true → ordL as = true) → (plainKws ks = true → ordKws 0 ks = true) →
    (plainL as' = true → ordL as' = true) ∧ (plainKws ks' = true → ordKws 0 ks' = true)
  arg : ∀ ts as ks d as' ks' d' rest jl, SeqI src σ jl (ts.length + 1) as → SeqK src σ jl (ts.length + 1) ks →
    ts.length + 1 ≤ jl → jl ≤ N → parseRArg σ f ts as ks d = some (as', ks', d', rest) →
    (plainL as = true → ordL as = true) → (plainKws ks = true → ordKws 0 ks = true) →
    (plainL as' = true → ordL as' = true) ∧ (plainKws ks' = true → ordKws 0 ks' = true)
  args0 : ∀ ts as' ks' rest, ts.length + 1 ≤ N → parseRArgs σ f ts [] [] false = some ((as', ks'), rest) →
    (plainL as' = true → ordL as' = true) ∧ (plainKws ks' = true → ordKws 0 ks' = true)
  subscriptList : ∀ ts e rest, ts.length ≤ N → parseRSubscriptList σ f ts = some (e, rest) → plain e = true → ordE e = true
  subscripts : ∀ ts es rest, ts.length ≤ N → parseRSubscripts σ f ts = some (es, rest) → plainL es = true → ordL es = true
  subscript : ∀ ts e rest, ts.length ≤ N → parseRSubscript σ f ts = some (e, rest) → plain e = true → ordE e = true
  sliceRest : ∀ st j0 lower ts e rest, st = S σ j0 → ts.length ≤ j0 → j0 ≤ N → (lower = none → j0 = ts.length) →
    (∀ l, lower = some l → ts.length < j0 ∧ Win src σ j0 (ts.length + 1) l) →
    (∀ l, lower = some l → plain l = true → ordE l = true) →
    parseRSliceRest σ f st lower ts = some (e, rest) → plain e = true → ordE e = true
  atom : ∀ ts e rest, ts.length ≤ N → parseRAtom σ f ts = some (e, rest) → plain e = true → ordE e = true
  listAtom : ∀ ts e rest, ts.length + 1 ≤ N → parseRListAtom σ f ts = some (e, rest) → plain e = true → ordE e = true
  parenAtom : ∀ ts e rest, ts.length + 1 ≤ N → parseRParenAtom σ f ts = some (e, rest) → plain e = true → ordE e = true
  yieldAtom : ∀ ts e rest, ts.length + 2 ≤ N → parseRYieldAtom σ f ts = some (e, rest) → plain e = true → ordE e = true
  braceAtom : ∀ ts e rest, ts.length + 1 ≤ N → parseRBraceAtom σ f ts = some (e, rest) → plain e = true → ordE e = true
  braceFirst : ∀ ts e b rest, ts.length ≤ N → parseRBraceFirst σ f ts = some (e, b, rest) → plain e = true → ordE e = true
  elems : ∀ close ts es tc rest, ts.length + 1 ≤ N → parseRElems σ f close ts = some ((es, tc), rest) →
    plainL es = true → ordL es = true
  dictRest : ∀ ts is rest, ts.length + 1 ≤ N → parseRDictRest σ f ts = some (is, rest) →
    plainItems is = true → ordItems is = true
  compFor : ∀ ts gs rest, ts.length ≤ N → parseRCompFor σ f ts = some (gs, rest) →
    plainComps gs = true → ordComps gs = true
  compIfs : ∀ ts cs rest, ts.length ≤ N → parseRCompIfs σ f ts = some (cs, rest) → plainL cs = true → ordL cs = true
  exprOrStar : ∀ ts e rest, ts.length ≤ N → parseRExprOrStar σ f ts = some (e, rest) → plain e = true → ordE e = true
  targetList : ∀ ts e rest, ts.length ≤ N → parseRTargetList σ f ts = some (e, rest) → plain e = true → ordE e = true
  targetRest : ∀ ts es rest, ts.length ≤ N → parseRTargetRest σ f ts = some (es, rest) → plainL es = true → ordL es = true
  testList : ∀ ts e rest, ts.length ≤ N → parseRTestList σ f ts = some (e, rest) → plain e = true → ordE e = true
  testListRest : ∀ ts es rest, ts.length ≤ N → parseRTestListRest σ f ts = some (es, rest) →
    plainL es = true → ordL es = true
  strings : ∀ t r e rest, (t :: r).length ≤ N → isStringTok t = true →
    parseRStrings σ f (t :: r) = some (e, rest) → plain e = true → ordE e = true

end PV.C13
