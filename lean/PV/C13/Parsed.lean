import PV.C02.RProg
import PV.C13.POrd
import PV.C13.Fold
import PV.C13.Overrides
/-
  C13 — from the RANGED syntax the program parser model returns (`PV.C02.RMod`, the value of
  `PV.C02.parseRProgram`) to the schema-generic tree the located fold consumes (`PV.C12.Tree`: kind ids and field
  order of the regenerated schema `PV.C12.Gen.schema`).

  `ar` = feature `all-nodes-with-ranges`: the kinds whose `range` is an `OptionalRange` (`Mod*`, `Arguments`,
  `ArgWithDefault`, `Comprehension`, `WithItem`, `MatchCase`; `rangeMode = 2` in the schema) carry their range iff
  `ar` (`optR`).  `ar = false` is the default build — the tree `rustpython_parser::parse` hands to the fold in the
  C13 streams.

  Leaf payloads (identifiers, constants, operators, flags) are not represented: the located fold never looks at
  them (`foldLoc … (.leaf a) = some (.leaf a, s)`).  Every leaf field is `.leaf []`, every `Option<leaf>` field
  `.none`, every `Vec<leaf>` field `.list []` — `skel` maps any tree to this normal form, and the driver checks on
  every request that `skel (toTree false m)` is `skel` of the tree the real parser produced (kinds, ranges, field
  positions, list lengths, options: everything the fold and the theorems depend on).

  Kind ids are guarded by the `example`s at the end (against the regenerated schema).  Core Lean only.
-/
namespace PV.C13
open PV.Expr PV.C11 PV.Prog
open PV.C02 hiding Tree
open PV.C12 (Tree)

def lf : Tree := .leaf []

/-- the range of a node whose `range` field is an `OptionalRange` -/
def optR (ar : Bool) (rg : Rg) : Option (Nat × Nat) := if ar then some rg else none

/-- an `Arg` of a lambda (name only) -/
def cLamArg (v : Rg × Ident) : Tree := .node 61 (some v.1) [lf, .none, .none]

def cLamArgO : Option (Rg × Ident) → Tree
  | none => .none
  | some v => .some (cLamArg v)

mutual
def cE (ar : Bool) : RExpr → Tree
  | .name rg _ => .node 55 (some rg) [lf, lf]
  | .const rg _ => .node 51 (some rg) [lf, .none]
  | .boolOp rg _ vs => .node 32 (some rg) [lf, .list (cL ar vs)]
  | .namedExpr rg t v => .node 33 (some rg) [cE ar t, cE ar v]
  | .binOp rg l _ r => .node 34 (some rg) [cE ar l, lf, cE ar r]
  | .unaryOp rg _ e => .node 35 (some rg) [lf, cE ar e]
  | .lambda rg argsRg po a va ko kw b =>
    .node 36 (some rg) [.node 78 (optR ar argsRg) [.list (cPs ar po), .list (cPs ar a), cLamArgO va, .list (cPs ar ko),
      cLamArgO kw], cE ar b]
  | .ifExp rg t b o => .node 37 (some rg) [cE ar t, cE ar b, cE ar o]
  | .dict rg items => .node 38 (some rg) [.list (cKeys ar items), .list (cVals ar items)]
  | .set rg es => .node 39 (some rg) [.list (cL ar es)]
  | .listComp rg e gs => .node 40 (some rg) [cE ar e, .list (cComps ar gs)]
  | .setComp rg e gs => .node 41 (some rg) [cE ar e, .list (cComps ar gs)]
  | .dictComp rg k v gs => .node 42 (some rg) [cE ar k, cE ar v, .list (cComps ar gs)]
  | .genExp rg e gs => .node 43 (some rg) [cE ar e, .list (cComps ar gs)]
  | .await rg e => .node 44 (some rg) [cE ar e]
  | .yield rg e => .node 45 (some rg) [cO ar e]
  | .yieldFrom rg e => .node 46 (some rg) [cE ar e]
  | .compare rg l _ cs => .node 47 (some rg) [cE ar l, .list [], .list (cL ar cs)]
  | .call rg f as ks => .node 48 (some rg) [cE ar f, .list (cL ar as), .list (cKws ar ks)]
  | .formattedValue rg v _ spec => .node 49 (some rg) [cE ar v, lf, cO ar spec]
  | .joinedStr rg vs => .node 50 (some rg) [.list (cL ar vs)]
  | .attribute rg e _ => .node 52 (some rg) [cE ar e, lf, lf]
  | .subscript rg e s => .node 53 (some rg) [cE ar e, cE ar s, lf]
  | .starred rg e => .node 54 (some rg) [cE ar e, lf]
  | .list rg es => .node 56 (some rg) [.list (cL ar es), lf]
  | .tuple rg es => .node 57 (some rg) [.list (cL ar es), lf]
  | .slice rg a b c => .node 58 (some rg) [cO ar a, cO ar b, cO ar c]
def cL (ar : Bool) : List RExpr → List Tree
  | [] => []
  | e :: es => cE ar e :: cL ar es
def cO (ar : Bool) : Option RExpr → Tree
  | none => .none
  | some e => .some (cE ar e)
def cComps (ar : Bool) : List RComp → List Tree
  | [] => []
  | .mk rg t i ifs _ :: gs => .node 59 (optR ar rg) [cE ar t, cE ar i, .list (cL ar ifs), lf] :: cComps ar gs
def cPs (ar : Bool) : List RParam → List Tree
  | [] => []
  | .mk rg drg _ d :: ps => .node 79 (optR ar rg) [.node 61 (some drg) [lf, .none, .none], cO ar d] :: cPs ar ps
def cKws (ar : Bool) : List RKeyword → List Tree
  | [] => []
  | .mk rg _ v :: ks => .node 62 (some rg) [.none, cE ar v] :: cKws ar ks
def cKeys (ar : Bool) : List RDictItem → List Tree
  | [] => []
  | .mk k _ :: is => cO ar k :: cKeys ar is
def cVals (ar : Bool) : List RDictItem → List Tree
  | [] => []
  | .mk _ v :: is => cE ar v :: cVals ar is
end

/-! ### parameters of a `def`, aliases, with-items, type parameters -/

def cArg (ar : Bool) (a : RArg) : Tree := .node 61 (some a.rg) [lf, cO ar a.annotation, .none]
def cArgD (ar : Bool) (p : RArgD) : Tree := .node 79 (optR ar p.rg) [cArg ar p.arg, cO ar p.default]
def cArgO (ar : Bool) : Option RArg → Tree
  | none => .none
  | some a => .some (cArg ar a)
def cArgs (ar : Bool) (a : RArguments) : Tree :=
  .node 78 (optR ar a.rg) [.list (a.posonly.map (cArgD ar)), .list (a.args.map (cArgD ar)), cArgO ar a.vararg,
    .list (a.kwonly.map (cArgD ar)), cArgO ar a.kwarg]

def cAlias (a : RAlias) : Tree := .node 63 (some a.rg) [lf, .none]
def cWI (ar : Bool) (w : RWithItem) : Tree := .node 64 (optR ar w.rg) [cE ar w.contextExpr, cO ar w.optionalVars]
def cTP (ar : Bool) : RTypeParam → Tree
  | .typeVar rg _ b => .node 75 (some rg) [lf, cO ar b]
  | .paramSpec rg _ => .node 76 (some rg) [lf]
  | .typeVarTuple rg _ => .node 77 (some rg) [lf]

mutual
def cP (ar : Bool) : RPattern → Tree
  | .matchValue rg v => .node 66 (some rg) [cE ar v]
  | .matchSingleton rg _ => .node 67 (some rg) [lf]
  | .matchSequence rg ps => .node 68 (some rg) [.list (cPats ar ps)]
  | .matchMapping rg ks ps _ => .node 69 (some rg) [.list (cL ar ks), .list (cPats ar ps), .none]
  | .matchClass rg c ps _ kps => .node 70 (some rg) [cE ar c, .list (cPats ar ps), .list [], .list (cPats ar kps)]
  | .matchStar rg _ => .node 71 (some rg) [.none]
  | .matchAs rg p _ => .node 72 (some rg) [cPatO ar p, .none]
  | .matchOr rg ps => .node 73 (some rg) [.list (cPats ar ps)]
def cPats (ar : Bool) : List RPattern → List Tree
  | [] => []
  | p :: ps => cP ar p :: cPats ar ps
def cPatO (ar : Bool) : Option RPattern → Tree
  | none => .none
  | some p => .some (cP ar p)
end

mutual
def cS (ar : Bool) : RStmt → Tree
  | .functionDef rg _ a b d r tp =>
    .node 4 (some rg) [lf, cArgs ar a, .list (cSs ar b), .list (cL ar d), cO ar r, .none, .list (tp.map (cTP ar))]
  | .asyncFunctionDef rg _ a b d r tp =>
    .node 5 (some rg) [lf, cArgs ar a, .list (cSs ar b), .list (cL ar d), cO ar r, .none, .list (tp.map (cTP ar))]
  | .classDef rg _ bs ks b d tp =>
    .node 6 (some rg) [lf, .list (cL ar bs), .list (cKws ar ks), .list (cSs ar b), .list (cL ar d), .list (tp.map (cTP ar))]
  | .return rg v => .node 7 (some rg) [cO ar v]
  | .delete rg ts => .node 8 (some rg) [.list (cL ar ts)]
  | .assign rg ts v => .node 9 (some rg) [.list (cL ar ts), cE ar v, .none]
  | .typeAlias rg n tp v => .node 10 (some rg) [cE ar n, .list (tp.map (cTP ar)), cE ar v]
  | .augAssign rg t _ v => .node 11 (some rg) [cE ar t, lf, cE ar v]
  | .annAssign rg t a v _ => .node 12 (some rg) [cE ar t, cE ar a, cO ar v, lf]
  | .for rg t i b o => .node 13 (some rg) [cE ar t, cE ar i, .list (cSs ar b), .list (cSs ar o), .none]
  | .asyncFor rg t i b o => .node 14 (some rg) [cE ar t, cE ar i, .list (cSs ar b), .list (cSs ar o), .none]
  | .while rg t b o => .node 15 (some rg) [cE ar t, .list (cSs ar b), .list (cSs ar o)]
  | .if rg t b o => .node 16 (some rg) [cE ar t, .list (cSs ar b), .list (cSs ar o)]
  | .with rg items b => .node 17 (some rg) [.list (items.map (cWI ar)), .list (cSs ar b), .none]
  | .asyncWith rg items b => .node 18 (some rg) [.list (items.map (cWI ar)), .list (cSs ar b), .none]
  | .match rg s cs => .node 19 (some rg) [cE ar s, .list (cCs ar cs)]
  | .raise rg e c => .node 20 (some rg) [cO ar e, cO ar c]
  | .try rg b hs o f => .node 21 (some rg) [.list (cSs ar b), .list (cHs ar hs), .list (cSs ar o), .list (cSs ar f)]
  | .tryStar rg b hs o f => .node 22 (some rg) [.list (cSs ar b), .list (cHs ar hs), .list (cSs ar o), .list (cSs ar f)]
  | .assert rg t m => .node 23 (some rg) [cE ar t, cO ar m]
  | .import rg ns => .node 24 (some rg) [.list (ns.map cAlias)]
  | .importFrom rg _ ns _ => .node 25 (some rg) [.none, .list (ns.map cAlias), .none]
  | .global rg _ => .node 26 (some rg) [.list []]
  | .nonlocal rg _ => .node 27 (some rg) [.list []]
  | .expr rg e => .node 28 (some rg) [cE ar e]
  | .pass rg => .node 29 (some rg) []
  | .break rg => .node 30 (some rg) []
  | .continue rg => .node 31 (some rg) []
def cSs (ar : Bool) : List RStmt → List Tree
  | [] => []
  | s :: ss => cS ar s :: cSs ar ss
def cHs (ar : Bool) : List RHandler → List Tree
  | [] => []
  | .mk rg ty _ b :: hs => .node 60 (some rg) [cO ar ty, .none, .list (cSs ar b)] :: cHs ar hs
def cCs (ar : Bool) : List RCase → List Tree
  | [] => []
  | .mk rg p g b :: cs => .node 65 (optR ar rg) [cP ar p, cO ar g, .list (cSs ar b)] :: cCs ar cs
end

/-- **the tree of a parse** as the located fold sees it (`ar`: built with `all-nodes-with-ranges`) -/
def toTree (ar : Bool) : RMod → Tree
  | .module rg b => .node 0 (optR ar rg) [.list (cSs ar b), .list []]
  | .interactive rg b => .node 1 (optR ar rg) [.list (cSs ar b)]
  | .expression rg e => .node 2 (optR ar rg) [cE ar e]

/-! ### the normal form in which two trees are compared: leaf payloads dropped -/

mutual
/-- no node anywhere inside -/
def nodeFree : Tree → Bool
  | .leaf _ => true
  | .none => true
  | .some t => nodeFree t
  | .list xs => nodeFreeL xs
  | .node _ _ _ => false
def nodeFreeL : List Tree → Bool
  | [] => true
  | t :: ts => nodeFree t && nodeFreeL ts
end

mutual
/-- every maximal subtree without a node (a leaf value, an optional leaf, a list of leaves) becomes `.leaf []` -/
def skel : Tree → Tree
  | .leaf _ => .leaf []
  | .none => .leaf []
  | .some t => if nodeFree t then .leaf [] else .some (skel t)
  | .list xs => if nodeFreeL xs then .leaf [] else .list (skelL xs)
  | .node k r fs => .node k r (skelL fs)
def skelL : List Tree → List Tree
  | [] => []
  | t :: ts => skel t :: skelL ts
end

/-- every offset of the tree is a position the `LinearLocator` accepts: a character boundary, not between a CR and its
    LF (`InDomain`), not inside a leading BOM -/
def OffsOk (src : List Nat) (t : Tree) : Prop := ∀ o ∈ offsT t, InDomain src o ∧ initCursor src ≤ o

instance (src : List Nat) (t : Tree) : Decidable (OffsOk src t) := by unfold OffsOk; exact inferInstance

/-! ### the kind ids used above are those of the regenerated schema -/

section guard
open PV.C12.Gen
private def kn (k : Nat) : Option String := kindNames[k]?
example : [kn 0, kn 1, kn 2, kn 4, kn 5, kn 6, kn 7, kn 8, kn 9, kn 10, kn 11, kn 12, kn 13, kn 14, kn 15, kn 16] =
    [some "ModModule", some "ModInteractive", some "ModExpression", some "StmtFunctionDef", some "StmtAsyncFunctionDef",
     some "StmtClassDef", some "StmtReturn", some "StmtDelete", some "StmtAssign", some "StmtTypeAlias", some "StmtAugAssign",
     some "StmtAnnAssign", some "StmtFor", some "StmtAsyncFor", some "StmtWhile", some "StmtIf"] := by decide
example : [kn 17, kn 18, kn 19, kn 20, kn 21, kn 22, kn 23, kn 24, kn 25, kn 26, kn 27, kn 28, kn 29, kn 30, kn 31] =
    [some "StmtWith", some "StmtAsyncWith", some "StmtMatch", some "StmtRaise", some "StmtTry", some "StmtTryStar",
     some "StmtAssert", some "StmtImport", some "StmtImportFrom", some "StmtGlobal", some "StmtNonlocal", some "StmtExpr",
     some "StmtPass", some "StmtBreak", some "StmtContinue"] := by decide
example : [kn 32, kn 33, kn 34, kn 35, kn 36, kn 37, kn 38, kn 39, kn 40, kn 41, kn 42, kn 43, kn 44, kn 45, kn 46] =
    [some "ExprBoolOp", some "ExprNamedExpr", some "ExprBinOp", some "ExprUnaryOp", some "ExprLambda", some "ExprIfExp",
     some "ExprDict", some "ExprSet", some "ExprListComp", some "ExprSetComp", some "ExprDictComp", some "ExprGeneratorExp",
     some "ExprAwait", some "ExprYield", some "ExprYieldFrom"] := by decide
example : [kn 47, kn 48, kn 49, kn 50, kn 51, kn 52, kn 53, kn 54, kn 55, kn 56, kn 57, kn 58, kn 59, kn 60, kn 61] =
    [some "ExprCompare", some "ExprCall", some "ExprFormattedValue", some "ExprJoinedStr", some "ExprConstant",
     some "ExprAttribute", some "ExprSubscript", some "ExprStarred", some "ExprName", some "ExprList", some "ExprTuple",
     some "ExprSlice", some "Comprehension", some "ExceptHandlerExceptHandler", some "Arg"] := by decide
example : [kn 62, kn 63, kn 64, kn 65, kn 66, kn 67, kn 68, kn 69, kn 70, kn 71, kn 72, kn 73, kn 75, kn 76, kn 77, kn 78, kn 79] =
    [some "Keyword", some "Alias", some "WithItem", some "MatchCase", some "PatternMatchValue", some "PatternMatchSingleton",
     some "PatternMatchSequence", some "PatternMatchMapping", some "PatternMatchClass", some "PatternMatchStar",
     some "PatternMatchAs", some "PatternMatchOr", some "TypeParamTypeVar", some "TypeParamParamSpec",
     some "TypeParamTypeVarTuple", some "Arguments", some "ArgWithDefault"] := by decide
/-- field order of the kinds whose fields are not all of one sort -/
example : [fieldNames[4]?, fieldNames[6]?, fieldNames[36]?, fieldNames[37]?, fieldNames[38]?, fieldNames[48]?, fieldNames[59]?,
      fieldNames[69]?, fieldNames[70]?, fieldNames[78]?, fieldNames[79]?, fieldNames[12]?, fieldNames[13]?, fieldNames[21]?,
      fieldNames[60]?, fieldNames[65]?, fieldNames[64]?, fieldNames[10]?, fieldNames[47]?, fieldNames[42]?] =
    [some ["name", "args", "body", "decorator_list", "returns", "type_comment", "type_params"],
     some ["name", "bases", "keywords", "body", "decorator_list", "type_params"],
     some ["args", "body"], some ["test", "body", "orelse"], some ["keys", "values"], some ["func", "args", "keywords"],
     some ["target", "iter", "ifs", "is_async"], some ["keys", "patterns", "rest"],
     some ["cls", "patterns", "kwd_attrs", "kwd_patterns"],
     some ["posonlyargs", "args", "vararg", "kwonlyargs", "kwarg"], some ["def", "default"],
     some ["target", "annotation", "value", "simple"], some ["target", "iter", "body", "orelse", "type_comment"],
     some ["body", "handlers", "orelse", "finalbody"], some ["type_", "name", "body"], some ["pattern", "guard", "body"],
     some ["context_expr", "optional_vars"], some ["name", "type_params", "value"], some ["left", "ops", "comparators"],
     some ["key", "value", "generators"]] := by decide
end guard

end PV.C13
