import PV.C13.WOrdSpec
/-
  C13 — GENERATED from POrdBase.lean (namespace `PV.C13.W`, C02's tied induction).
-/
set_option linter.defProp false
set_option linter.unusedSimpArgs false
set_option linter.unusedVariables false
namespace PV.C13.W
open PV.Expr PV.C11
open PV.C02.F
open PV.C02 hiding BelowS PInv PItem PItem.plain PItem.range PItem.tree PostE RS RS.mono RSC RSD RSI RSK Res.intro' SeqC SeqD SeqI SeqK SeqP SoundAt TiledTab.SE' Win Win.mono WinC WinD WinK allSlot_compTrees allSlot_keyTrees allSlot_kwTrees allSlot_valueTrees argChildren_eq argItems argItems_kwarg argItems_nil argItems_snoc_args argItems_snoc_kwonly argItems_vararg binOpAt_len cmpOpAt_len comp_node_ok dropWhile_len idx itemR_spec item_ok item_range keyTrees_eq keysOf kw_node_ok okList_compTrees okList_items okList_kwTrees okList_optTree own_attribute own_await own_binOp own_boolOp own_call own_compare own_const own_const' own_dict own_dictComp own_dict_nil own_genExp own_ifExp own_lambda own_lambda_empty own_list own_listComp own_list_nil own_name own_namedExpr own_rsd_none own_set own_setComp own_slice own_starred own_subscript own_tuple own_tuple_nil own_unaryOp own_yieldFrom own_yield_none own_yield_some paramTrees_eq pinv_empty pinv_mono plain plainComps plainItems plainKws plainL plainO plainParams plainParams_items plain_argItems rgOk_le rs_attribute rs_await rs_binOp rs_boolOp rs_call rs_compLike rs_compare rs_const rs_dict rs_dictComp rs_genExp rs_ifExp rs_lambda rs_list rs_listComp rs_listLike rs_name rs_namedExpr rs_not_plain rs_set rs_setComp rs_slice rs_starred rs_subscript rs_tuple rs_unaryOp rs_yieldFrom rs_yield_none rs_yield_some rsc_idx rsc_mk rsd_idx_none rsd_idx_some rsd_mk_none rsd_mk_some rsi_arg rsi_param rsi_param_default rsi_relabel rsk_idx rsk_mk seqC_cons seqC_mono seqC_single seqD_cons seqD_mono seqD_nil seqD_single seqI_cons seqI_mono seqI_nil seqI_single seqI_snoc seqI_snoc' seqK_mono seqK_nil seqK_snoc seqK_snoc' seqP_mono seqP_snoc seqP_snoc_to seq_keys seq_plain seq_relabel seq_values seqrs_cons seqrs_mono seqrs_nil seqrs_single seqrs_snoc seqrsc_cons seqrsc_mono seqrsc_single seqrsd_cons seqrsd_mono seqrsd_nil seqrsk_mono seqrsk_nil seqrsk_snoc sibsOk_compTrees sibsOk_items sibsOk_kwTrees sliceRest_unfold sliceTail sliceUp sliceUp_spec soundAt soundAt_of_below sstep_andRest sstep_andTest sstep_arg sstep_args sstep_args0 sstep_atom sstep_atomExpr sstep_atomExpr2 sstep_bin sstep_binLoop sstep_braceAtom sstep_braceFirst sstep_cmp sstep_cmpRest sstep_compFor sstep_compIfs sstep_dictRest sstep_elems sstep_exprOrStar sstep_factor sstep_lambda sstep_listAtom sstep_namedTest sstep_notTest sstep_orRest sstep_orTest sstep_params sstep_parenAtom sstep_power sstep_sliceRest sstep_starOrNamed sstep_strings sstep_subscript sstep_subscriptList sstep_subscripts sstep_targetList sstep_targetRest sstep_test sstep_testList sstep_testListRest sstep_testOrStar sstep_trailers sstep_yieldAtom unaryOpAt_len valueTrees_eq valuesOf win_attribute win_await win_binOp win_boolOp win_call win_compare win_const win_const' win_dict win_dictComp win_dict_nil win_genExp win_ifExp win_lambda win_list win_listComp win_list_nil win_name win_namedExpr win_set win_setComp win_slice win_starred win_subscript win_tuple win_tuple_nil win_unaryOp win_yieldFrom win_yield_none win_yield_some windowed_rs windowed_rsc windowed_rsd windowed_rsi windowed_rsk

variable {src : List Nat} {σ : SpanTab} {N : Nat}

/-- what a window says about a plain node: numbers only -/
theorem win_rg {j k : Nat} {e : RExpr} (h : Win src σ j k e) (hp : plain e = true) :
    S σ j ≤ e.range.1 ∧ e.range.1 ≤ e.range.2 ∧ e.range.2 ≤ E σ k := by
  obtain ⟨g1, g2, g3, _⟩ := h.2 hp
  have := rgOk_le (show rgOk src (e.range.1, e.range.2) from g1)
  exact ⟨g2, this, g3⟩

theorem chain_cons (a : Nat) (s : Rg) (ss : List Rg) (b : Nat) :
    chain a (s :: ss) b = (decide (a ≤ s.1) && chain s.2 ss b) := rfl
theorem chain_nil (a b : Nat) : chain a [] b = decide (a ≤ b) := rfl

/-- items in consecutive windows: the chain of their ranges -/
theorem chain_seq : ∀ {es : List RExpr} {lo hi a b : Nat}, SeqG (RS src) lo hi es → plainL es = true → a ≤ lo → hi ≤ b → lo ≤ hi →
    chain a (es.map RExpr.range) b = true
  | [], lo, hi, a, b, _, _, h1, h2, h3 => by simp [chain]; omega
  | e :: es, lo, hi, a, b, ⟨m, g1, g2, g3⟩, hp, h1, h2, h3 => by
    simp only [plainL, Bool.and_eq_true] at hp
    obtain ⟨r1, r2, r3, _⟩ := g1.2 hp.1
    have hle := rgOk_le (show rgOk src (e.range.1, e.range.2) from r1)
    simp only [List.map_cons, chain, Bool.and_eq_true, decide_eq_true_eq]
    refine ⟨by omega, chain_seq g3 hp.2 r3 h2 g2⟩

section idx
variable (T : TiledTab src σ N)
include T

theorem ord_ifExp {j k jt kt jb kb jo ko : Nat} {t b o : RExpr}
    (ht : Win src σ jt kt t) (hb : Win src σ jb kb b) (ho : Win src σ jo ko o)
    (pt : plain t = true) (pb : plain b = true) (po : plain o = true)
    (ot : ordE t = true) (ob : ordE b = true) (oo : ordE o = true)
    (c0 : 1 ≤ jo) (c1 : jb ≤ j) (c1' : j ≤ N) (c2 : jt < kb) (c2' : kb ≤ N) (c3 : jo < kt) (c3' : kt ≤ N) (c4 : k ≤ ko) (c5 : 1 ≤ k) (c6 : ko ≤ N)
    (c7 : 1 ≤ jb) (c8 : 1 ≤ jt) :
    ordE (.ifExp (S σ j, E σ k) t b o) = true := by
  obtain ⟨t1, t2, t3⟩ := win_rg ht pt
  obtain ⟨b1, b2, b3⟩ := win_rg hb pb
  obtain ⟨o1, o2, o3⟩ := win_rg ho po
  have e1 := T.SS c7 c1 c1'
  have e2 := T.ES c8 c2 c2'
  have e3 := T.ES c0 c3 c3'
  have e4 := T.EE c5 c4 c6
  simp only [ordE, chain, Bool.and_eq_true, decide_eq_true_eq, ot, ob, oo, and_true]
  simp only [S, E] at *
  omega

end idx

grind_pattern ord_ifExp => TiledTab src σ N, Win src σ jt kt t, Win src σ jb kb b, Win src σ jo ko o,
  ordE (RExpr.ifExp (S σ j, E σ k) t b o)

def c02_test (T : TiledTab src σ N) (f : Nat) := (soundAt T f).test
def c02_lambda (T : TiledTab src σ N) (f : Nat) := (soundAt T f).lambda
def c02_params (T : TiledTab src σ N) (f : Nat) := (soundAt T f).params
def c02_namedTest (T : TiledTab src σ N) (f : Nat) := (soundAt T f).namedTest
def c02_starOrNamed (T : TiledTab src σ N) (f : Nat) := (soundAt T f).starOrNamed
def c02_testOrStar (T : TiledTab src σ N) (f : Nat) := (soundAt T f).testOrStar
def c02_orTest (T : TiledTab src σ N) (f : Nat) := (soundAt T f).orTest
def c02_orRest (T : TiledTab src σ N) (f : Nat) := (soundAt T f).orRest
def c02_andTest (T : TiledTab src σ N) (f : Nat) := (soundAt T f).andTest
def c02_andRest (T : TiledTab src σ N) (f : Nat) := (soundAt T f).andRest
def c02_notTest (T : TiledTab src σ N) (f : Nat) := (soundAt T f).notTest
def c02_cmp (T : TiledTab src σ N) (f : Nat) := (soundAt T f).cmp
def c02_cmpRest (T : TiledTab src σ N) (f : Nat) := (soundAt T f).cmpRest
def c02_bin (T : TiledTab src σ N) (f : Nat) := (soundAt T f).bin
def c02_binLoop (T : TiledTab src σ N) (f : Nat) := (soundAt T f).binLoop
def c02_factor (T : TiledTab src σ N) (f : Nat) := (soundAt T f).factor
def c02_power (T : TiledTab src σ N) (f : Nat) := (soundAt T f).power
def c02_atomExpr (T : TiledTab src σ N) (f : Nat) := (soundAt T f).atomExpr
def c02_atomExpr2 (T : TiledTab src σ N) (f : Nat) := (soundAt T f).atomExpr2
def c02_trailers (T : TiledTab src σ N) (f : Nat) := (soundAt T f).trailers
def c02_args (T : TiledTab src σ N) (f : Nat) := (soundAt T f).args
def c02_arg (T : TiledTab src σ N) (f : Nat) := (soundAt T f).arg
def c02_args0 (T : TiledTab src σ N) (f : Nat) := (soundAt T f).args0
def c02_subscriptList (T : TiledTab src σ N) (f : Nat) := (soundAt T f).subscriptList
def c02_subscripts (T : TiledTab src σ N) (f : Nat) := (soundAt T f).subscripts
def c02_subscript (T : TiledTab src σ N) (f : Nat) := (soundAt T f).subscript
def c02_sliceRest (T : TiledTab src σ N) (f : Nat) := (soundAt T f).sliceRest
def c02_atom (T : TiledTab src σ N) (f : Nat) := (soundAt T f).atom
def c02_listAtom (T : TiledTab src σ N) (f : Nat) := (soundAt T f).listAtom
def c02_parenAtom (T : TiledTab src σ N) (f : Nat) := (soundAt T f).parenAtom
def c02_yieldAtom (T : TiledTab src σ N) (f : Nat) := (soundAt T f).yieldAtom
def c02_braceAtom (T : TiledTab src σ N) (f : Nat) := (soundAt T f).braceAtom
def c02_braceFirst (T : TiledTab src σ N) (f : Nat) := (soundAt T f).braceFirst
def c02_elems (T : TiledTab src σ N) (f : Nat) := (soundAt T f).elems
def c02_dictRest (T : TiledTab src σ N) (f : Nat) := (soundAt T f).dictRest
def c02_compFor (T : TiledTab src σ N) (f : Nat) := (soundAt T f).compFor
def c02_compIfs (T : TiledTab src σ N) (f : Nat) := (soundAt T f).compIfs
def c02_exprOrStar (T : TiledTab src σ N) (f : Nat) := (soundAt T f).exprOrStar
def c02_targetList (T : TiledTab src σ N) (f : Nat) := (soundAt T f).targetList
def c02_targetRest (T : TiledTab src σ N) (f : Nat) := (soundAt T f).targetRest
def c02_testList (T : TiledTab src σ N) (f : Nat) := (soundAt T f).testList
def c02_testListRest (T : TiledTab src σ N) (f : Nat) := (soundAt T f).testListRest
def c02_strings (T : TiledTab src σ N) (f : Nat) := (soundAt T f).strings

def BelowO (src : List Nat) (σ : SpanTab) (N : Nat) (n : Nat) : Prop := ∀ f, n = f + 1 → OrdAt src σ N f

/-- boolOp / list-like nodes: children in consecutive windows -/
theorem ord_boolOp (T : TiledTab src σ N) {j k jl kl : Nat} {op} {es : List RExpr} (hs : SeqI src σ jl kl es) (hp : plainL es = true)
    (ho : ordL es = true) (c1 : jl ≤ j) (c2 : j ≤ N) (c3 : 1 ≤ jl) (c4 : k ≤ kl) (c5 : 1 ≤ k) (c6 : kl ≤ N) (c7 : kl ≤ jl) :
    ordE (.boolOp (S σ j, E σ k) op es) = true := by
  have e1 := T.SS c3 c1 c2
  have e4 := T.EE c5 c4 c6
  have e5 := T.SE' (j := jl) (k := kl) (by omega) c7 (by omega)
  simp only [ordE, Bool.and_eq_true, ho, and_true]
  exact chain_seq hs hp e1 e4 e5
grind_pattern ord_boolOp => TiledTab src σ N, SeqI src σ jl kl es, ordE (RExpr.boolOp (S σ j, E σ k) op es)

theorem ord_binOp (T : TiledTab src σ N) {j k jl kl jr kr : Nat} {l r : RExpr} {op}
    (hl : Win src σ jl kl l) (hr : Win src σ jr kr r) (pl : plain l = true) (pr : plain r = true)
    (ol : ordE l = true) (or_ : ordE r = true)
    (c1 : jl ≤ j) (c1' : j ≤ N) (c7 : 1 ≤ jl) (c2 : jr < kl) (c2' : kl ≤ N) (c8 : 1 ≤ jr) (c4 : k ≤ kr) (c5 : 1 ≤ k) (c6 : kr ≤ N) :
    ordE (.binOp (S σ j, E σ k) l op r) = true := by
  obtain ⟨l1, l2, l3⟩ := win_rg hl pl
  obtain ⟨r1, r2, r3⟩ := win_rg hr pr
  have e1 := T.SS c7 c1 c1'
  have e2 := T.ES c8 c2 c2'
  have e4 := T.EE c5 c4 c6
  simp only [ordE, chain, Bool.and_eq_true, decide_eq_true_eq, ol, or_, and_true]
  simp only [S, E] at *
  omega
grind_pattern ord_binOp => TiledTab src σ N, Win src σ jl kl l, Win src σ jr kr r, ordE (RExpr.binOp (S σ j, E σ k) l op r)

@[grind =] theorem plainL_cons' (e : RExpr) (es : List RExpr) : plainL (e :: es) = (plain e && plainL es) := rfl
@[grind =] theorem plainL_nil' : plainL [] = true := rfl
@[grind =] theorem ordL_cons' (e : RExpr) (es : List RExpr) : ordL (e :: es) = (ordE e && ordL es) := rfl
@[grind =] theorem ordL_nil' : ordL [] = true := rfl
@[grind =] theorem plain_ifExp' (rg t b o) : plain (.ifExp rg t b o) = (plain t && plain b && plain o) := rfl
@[grind =] theorem plain_boolOp' (rg op vs) : plain (.boolOp rg op vs) = plainL vs := rfl
@[grind =] theorem plain_binOp' (rg l op r) : plain (.binOp rg l op r) = (plain l && plain r) := rfl

end PV.C13.W
