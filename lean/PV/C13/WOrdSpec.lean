import PV.C02.FSoundSteps
import PV.C13.WPOrd
/-
  C13 — GENERATED from POrdSpec.lean: `OrdAt` over C02's tied induction (`PV.C02.F`), for `W.ordE`.
-/
set_option linter.unusedVariables false
namespace PV.C13.W
open PV.Expr PV.C11
open PV.C02.F
open PV.C02 hiding BelowS PInv PItem PItem.plain PItem.range PItem.tree PostE RS RS.mono RSC RSD RSI RSK Res.intro' SeqC SeqD SeqI SeqK SeqP SoundAt TiledTab.SE' Win Win.mono WinC WinD WinK allSlot_compTrees allSlot_keyTrees allSlot_kwTrees allSlot_valueTrees argChildren_eq argItems argItems_kwarg argItems_nil argItems_snoc_args argItems_snoc_kwonly argItems_vararg binOpAt_len cmpOpAt_len comp_node_ok dropWhile_len idx itemR_spec item_ok item_range keyTrees_eq keysOf kw_node_ok okList_compTrees okList_items okList_kwTrees okList_optTree own_attribute own_await own_binOp own_boolOp own_call own_compare own_const own_const' own_dict own_dictComp own_dict_nil own_genExp own_ifExp own_lambda own_lambda_empty own_list own_listComp own_list_nil own_name own_namedExpr own_rsd_none own_set own_setComp own_slice own_starred own_subscript own_tuple own_tuple_nil own_unaryOp own_yieldFrom own_yield_none own_yield_some paramTrees_eq pinv_empty pinv_mono plain plainComps plainItems plainKws plainL plainO plainParams plainParams_items plain_argItems rgOk_le rs_attribute rs_await rs_binOp rs_boolOp rs_call rs_compLike rs_compare rs_const rs_dict rs_dictComp rs_genExp rs_ifExp rs_lambda rs_list rs_listComp rs_listLike rs_name rs_namedExpr rs_not_plain rs_set rs_setComp rs_slice rs_starred rs_subscript rs_tuple rs_unaryOp rs_yieldFrom rs_yield_none rs_yield_some rsc_idx rsc_mk rsd_idx_none rsd_idx_some rsd_mk_none rsd_mk_some rsi_arg rsi_param rsi_param_default rsi_relabel rsk_idx rsk_mk seqC_cons seqC_mono seqC_single seqD_cons seqD_mono seqD_nil seqD_single seqI_cons seqI_mono seqI_nil seqI_single seqI_snoc seqI_snoc' seqK_mono seqK_nil seqK_snoc seqK_snoc' seqP_mono seqP_snoc seqP_snoc_to seq_keys seq_plain seq_relabel seq_values seqrs_cons seqrs_mono seqrs_nil seqrs_single seqrs_snoc seqrsc_cons seqrsc_mono seqrsc_single seqrsd_cons seqrsd_mono seqrsd_nil seqrsk_mono seqrsk_nil seqrsk_snoc sibsOk_compTrees sibsOk_items sibsOk_kwTrees sliceRest_unfold sliceTail sliceUp sliceUp_spec soundAt soundAt_of_below sstep_andRest sstep_andTest sstep_arg sstep_args sstep_args0 sstep_atom sstep_atomExpr sstep_atomExpr2 sstep_bin sstep_binLoop sstep_braceAtom sstep_braceFirst sstep_cmp sstep_cmpRest sstep_compFor sstep_compIfs sstep_dictRest sstep_elems sstep_exprOrStar sstep_factor sstep_lambda sstep_listAtom sstep_namedTest sstep_notTest sstep_orRest sstep_orTest sstep_params sstep_parenAtom sstep_power sstep_sliceRest sstep_starOrNamed sstep_strings sstep_subscript sstep_subscriptList sstep_subscripts sstep_targetList sstep_targetRest sstep_test sstep_testList sstep_testListRest sstep_testOrStar sstep_trailers sstep_yieldAtom unaryOpAt_len valueTrees_eq valuesOf win_attribute win_await win_binOp win_boolOp win_call win_compare win_const win_const' win_dict win_dictComp win_dict_nil win_genExp win_ifExp win_lambda win_list win_listComp win_list_nil win_name win_namedExpr win_set win_setComp win_slice win_starred win_subscript win_tuple win_tuple_nil win_unaryOp win_yieldFrom win_yield_none win_yield_some windowed_rs windowed_rsc windowed_rsd windowed_rsi windowed_rsk

/-- parameters collected so far are ordered -/
def ordParams (ps : RParams) : Prop :=
  (plainParams ps.posonly = true → ordPs ps.posonly = true) ∧ (plainParams ps.args = true → ordPs ps.args = true) ∧
  ordArgO ps.vararg = true ∧ (plainParams ps.kwonly = true → ordPs ps.kwonly = true) ∧ ordArgO ps.kwarg = true

structure OrdAt (src : List Nat) (σ : SpanTab) (N : Nat) (f : Nat) : Prop where
  test : ∀ ts e rest, ts.length ≤ N → parseRTest σ f ts = some (e, rest) → FTie src σ ts → plain e = true → ordE e = true
  lambda : ∀ ts e rest, ts.length + 1 ≤ N → parseRLambda σ f ts = some (e, rest) → FTie src σ ts → plain e = true → ordE e = true
  params : ∀ ts ps ph ps' rest j0, PInv src σ j0 (ts.length + 1) ph ps → ts.length ≤ j0 → j0 + 1 ≤ N →
    parseRParams σ f ts ps ph = some (ps', rest) → FTie src σ ts → ordParams ps → ordParams ps'
  namedTest : ∀ ts e rest, ts.length ≤ N → parseRNamedTest σ f ts = some (e, rest) → FTie src σ ts → plain e = true → ordE e = true
  starOrNamed : ∀ ts e rest, ts.length ≤ N → parseRStarOrNamed σ f ts = some (e, rest) → FTie src σ ts → plain e = true → ordE e = true
  testOrStar : ∀ ts e rest, ts.length ≤ N → parseRTestOrStar σ f ts = some (e, rest) → FTie src σ ts → plain e = true → ordE e = true
  orTest : ∀ ts e rest, ts.length ≤ N → parseROrTest σ f ts = some (e, rest) → FTie src σ ts → plain e = true → ordE e = true
  orRest : ∀ ts es rest, ts.length ≤ N → parseROrRest σ f ts = some (es, rest) → FTie src σ ts → plainL es = true → ordL es = true
  andTest : ∀ ts e rest, ts.length ≤ N → parseRAndTest σ f ts = some (e, rest) → FTie src σ ts → plain e = true → ordE e = true
  andRest : ∀ ts es rest, ts.length ≤ N → parseRAndRest σ f ts = some (es, rest) → FTie src σ ts → plainL es = true → ordL es = true
  notTest : ∀ ts e rest, ts.length ≤ N → parseRNotTest σ f ts = some (e, rest) → FTie src σ ts → plain e = true → ordE e = true
  cmp : ∀ ts e rest, ts.length ≤ N → parseRCmp σ f ts = some (e, rest) → FTie src σ ts → plain e = true → ordE e = true
  cmpRest : ∀ ts ops cs rest, ts.length ≤ N → parseRCmpRest σ f ts = some ((ops, cs), rest) → FTie src σ ts →
    plainL cs = true → ordL cs = true
  bin : ∀ lvl ts e rest, ts.length ≤ N → parseRBin σ lvl f ts = some (e, rest) → FTie src σ ts → plain e = true → ordE e = true
  binLoop : ∀ lvl st j0 acc ts e rest, st = S σ j0 → ts.length < j0 → j0 ≤ N → Win src σ j0 (ts.length + 1) acc →
    (plain acc = true → ordE acc = true) → parseRBinLoop σ lvl f st acc ts = some (e, rest) → FTie src σ ts →
    plain e = true → ordE e = true
  factor : ∀ ts e rest, ts.length ≤ N → parseRFactor σ f ts = some (e, rest) → FTie src σ ts → plain e = true → ordE e = true
  power : ∀ ts e rest, ts.length ≤ N → parseRPower σ f ts = some (e, rest) → FTie src σ ts → plain e = true → ordE e = true
  atomExpr : ∀ ts e rest, ts.length ≤ N → parseRAtomExpr σ f ts = some (e, rest) → FTie src σ ts → plain e = true → ordE e = true
  atomExpr2 : ∀ ts e rest, ts.length ≤ N → parseRAtomExpr2 σ f ts = some (e, rest) → FTie src σ ts → plain e = true → ordE e = true
  trailers : ∀ st j0 acc ts e rest, st = S σ j0 → ts.length < j0 → j0 ≤ N → Win src σ j0 (ts.length + 1) acc →
    (plain acc = true → ordE acc = true) → parseRTrailers σ f st acc ts = some (e, rest) → FTie src σ ts →
    plain e = true → ordE e = true
  args : ∀ ts as ks d as' ks' rest jl, SeqI src σ jl (ts.length + 1) as → SeqK src σ jl (ts.length + 1) ks →
    ts.length + 1 ≤ jl → jl ≤ N → parseRArgs σ f ts as ks d = some ((as', ks'), rest) → FTie src σ ts →
    (plainL as = true → ordL as = true) → (plainKws ks = true → ordKws 0 ks = true) →
    (plainL as' = true → ordL as' = true) ∧ (plainKws ks' = true → ordKws 0 ks' = true)
  arg : ∀ ts as ks d as' ks' d' rest jl, SeqI src σ jl (ts.length + 1) as → SeqK src σ jl (ts.length + 1) ks →
    ts.length + 1 ≤ jl → jl ≤ N → parseRArg σ f ts as ks d = some (as', ks', d', rest) → FTie src σ ts →
    (plainL as = true → ordL as = true) → (plainKws ks = true → ordKws 0 ks = true) →
    (plainL as' = true → ordL as' = true) ∧ (plainKws ks' = true → ordKws 0 ks' = true)
  args0 : ∀ ts as' ks' rest, ts.length + 1 ≤ N → parseRArgs σ f ts [] [] false = some ((as', ks'), rest) → FTie src σ ts →
    (plainL as' = true → ordL as' = true) ∧ (plainKws ks' = true → ordKws 0 ks' = true)
  subscriptList : ∀ ts e rest, ts.length ≤ N → parseRSubscriptList σ f ts = some (e, rest) → FTie src σ ts → plain e = true → ordE e = true
  subscripts : ∀ ts es rest, ts.length ≤ N → parseRSubscripts σ f ts = some (es, rest) → FTie src σ ts → plainL es = true → ordL es = true
  subscript : ∀ ts e rest, ts.length ≤ N → parseRSubscript σ f ts = some (e, rest) → FTie src σ ts → plain e = true → ordE e = true
  sliceRest : ∀ st j0 lower ts e rest, st = S σ j0 → ts.length ≤ j0 → j0 ≤ N → (lower = none → j0 = ts.length) →
    (∀ l, lower = some l → ts.length < j0 ∧ Win src σ j0 (ts.length + 1) l) →
    (∀ l, lower = some l → plain l = true → ordE l = true) →
    parseRSliceRest σ f st lower ts = some (e, rest) → FTie src σ ts → plain e = true → ordE e = true
  atom : ∀ ts e rest, ts.length ≤ N → parseRAtom σ f ts = some (e, rest) → FTie src σ ts → plain e = true → ordE e = true
  listAtom : ∀ ts e rest, ts.length + 1 ≤ N → parseRListAtom σ f ts = some (e, rest) → FTie src σ ts → plain e = true → ordE e = true
  parenAtom : ∀ ts e rest, ts.length + 1 ≤ N → parseRParenAtom σ f ts = some (e, rest) → FTie src σ ts → plain e = true → ordE e = true
  yieldAtom : ∀ ts e rest, ts.length + 2 ≤ N → parseRYieldAtom σ f ts = some (e, rest) → FTie src σ ts → plain e = true → ordE e = true
  braceAtom : ∀ ts e rest, ts.length + 1 ≤ N → parseRBraceAtom σ f ts = some (e, rest) → FTie src σ ts → plain e = true → ordE e = true
  braceFirst : ∀ ts e b rest, ts.length ≤ N → parseRBraceFirst σ f ts = some (e, b, rest) → FTie src σ ts → plain e = true → ordE e = true
  elems : ∀ close ts es tc rest, ts.length + 1 ≤ N → parseRElems σ f close ts = some ((es, tc), rest) → FTie src σ ts →
    plainL es = true → ordL es = true
  dictRest : ∀ ts is rest, ts.length + 1 ≤ N → parseRDictRest σ f ts = some (is, rest) → FTie src σ ts →
    plainItems is = true → ordItems is = true
  compFor : ∀ ts gs rest, ts.length ≤ N → parseRCompFor σ f ts = some (gs, rest) → FTie src σ ts →
    plainComps gs = true → ordComps gs = true
  compIfs : ∀ ts cs rest, ts.length ≤ N → parseRCompIfs σ f ts = some (cs, rest) → FTie src σ ts → plainL cs = true → ordL cs = true
  exprOrStar : ∀ ts e rest, ts.length ≤ N → parseRExprOrStar σ f ts = some (e, rest) → FTie src σ ts → plain e = true → ordE e = true
  targetList : ∀ ts e rest, ts.length ≤ N → parseRTargetList σ f ts = some (e, rest) → FTie src σ ts → plain e = true → ordE e = true
  targetRest : ∀ ts es rest, ts.length ≤ N → parseRTargetRest σ f ts = some (es, rest) → FTie src σ ts → plainL es = true → ordL es = true
  testList : ∀ ts e rest, ts.length ≤ N → parseRTestList σ f ts = some (e, rest) → FTie src σ ts → plain e = true → ordE e = true
  testListRest : ∀ ts es rest, ts.length ≤ N → parseRTestListRest σ f ts = some (es, rest) → FTie src σ ts →
    plainL es = true → ordL es = true
  strings : ∀ t r e rest, (t :: r).length ≤ N → isStringTok t = true →
    parseRStrings σ f (t :: r) = some (e, rest) → FTie src σ (t :: r) → plain e = true → ordE e = true

end PV.C13.W
