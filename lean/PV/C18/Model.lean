import PV.C17.Model
/-
  C18 — executable model of the format-spec half of `format/src/format.rs` (RustPython/Parser):

    FormatSpec::parse, FormatConversion/FormatAlign/FormatSign/FormatGrouping/FormatType::parse,
    parse_fill_and_align, get_num_digits, parse_number, parse_alternate_form, parse_zero,
    parse_precision, compute_fill_string, add_magnitude_separators(_for_char), separate_integer,
    insert_separator, validate_format, get_separator_interval, format_bool, format_float,
    format_int_radix, format_int, format_string, format_sign_and_align.

  Text is `List Nat` of Unicode scalar values (what `str::chars()` yields); where the Rust code
  measures or indexes in *bytes* (`str::len`, `String::truncate`, `String::insert`) the model
  computes UTF-8 lengths explicitly (`utf8Len`).  Everything that reaches `insert_separator` and
  `AsciiStr` is ASCII in the real code except the result of the `c` presentation type, whose byte
  length is used as its width (kept here).

  Results are `Res`: `panic` for every Rust panic (`String::insert` out of range, `i32` overflow in
  a build with overflow checks), `err e` for `Err(FormatSpecError)`, `ok`.  (A float precision above
  `u16::MAX` used to panic inside `format!`; `float.rs` now clamps the digits it asks for, see
  `PV.C17.maxFloatDigits`.)

  The float helpers of `literal/src/float.rs` (`format_fixed`, `format_exponent`,
  `format_general`, `to_string`) are `PV.C17.*` on top of the exact decimal arithmetic `PV.Dec`;
  `BigInt::to_str_radix`, `BigInt::to_f64` (malachite, round to nearest, `None` above `f64::MAX`)
  and `f64 * 100.0` are modelled by their contract.
  Core Lean only.
-/
namespace PV.C18

/-! ## result type -/

inductive Err where
  | decimalDigitsTooMany | precisionTooBig | invalidFormatSpecifier | unspecifiedFormat
  | unknownFormatCode | precisionNotAllowed | notAllowed | unableToConvert | codeNotInRange
deriving Repr, DecidableEq

inductive Res (α : Type) where
  | panic : Res α
  | err (e : Err) : Res α
  | ok (a : α) : Res α
deriving Repr, DecidableEq

def Res.bind {α β} (r : Res α) (f : α → Res β) : Res β :=
  match r with
  | .panic => .panic
  | .err e => .err e
  | .ok a => f a

def Res.map {α β} (f : α → β) (r : Res α) : Res β := r.bind (fun a => .ok (f a))

def Res.ofOption {α} : Option α → Res α
  | none => .panic
  | some a => .ok a

/-! ## the parsed specification -/

inductive Conv where | str | repr | ascii | bytes
deriving Repr, DecidableEq

inductive Align where | left | right | afterSign | center
deriving Repr, DecidableEq

inductive Sign where | plus | minus | minusOrSpace
deriving Repr, DecidableEq

inductive Grouping where | comma | underscore
deriving Repr, DecidableEq

/-- `FormatType`; the `Bool` is `Case::Upper`. -/
inductive FType where
  | string | binary | character | decimal | octal
  | number (upper : Bool) | hex (upper : Bool) | exponent (upper : Bool)
  | general (upper : Bool) | fixed (upper : Bool) | percentage
deriving Repr, DecidableEq

structure FormatSpec where
  conversion : Option Conv
  fill : Option Nat
  align : Option Align
  sign : Option Sign
  alt : Bool
  width : Option Nat
  grouping : Option Grouping
  precision : Option Nat
  ftype : Option FType
deriving Repr, DecidableEq

/-! ## machine integers and UTF-8 lengths -/

def usizeMax : Nat := 2 ^ 64 - 1
def i32Max : Nat := 2 ^ 31 - 1
def isizeMax : Nat := 2 ^ 63 - 1

/-- `n as i32` for a `usize` -/
def wrapI32 (n : Nat) : Int :=
  let m : Nat := n % 2 ^ 32
  if m < 2 ^ 31 then (m : Int) else (m : Int) - 2 ^ 32

/-- the value of an `i32` operation in a build with overflow checks -/
def chkI32 (i : Int) : Option Int := if -(2 ^ 31 : Int) ≤ i ∧ i < 2 ^ 31 then some i else none

/-- `char::len_utf8` -/
def utf8Len1 (c : Nat) : Nat := if c < 0x80 then 1 else if c < 0x800 then 2 else if c < 0x10000 then 3 else 4

/-- `str::len` of a text given by its scalar values -/
def utf8Len : List Nat → Nat
  | [] => 0
  | c :: cs => utf8Len1 c + utf8Len cs

/-! ## field parsers -/

def isDigit (c : Nat) : Bool := 48 ≤ c && c ≤ 57

/-- `FormatConversion::from_char` -/
def Conv.fromChar : Nat → Option Conv
  | 115 => some .str | 114 => some .repr | 97 => some .ascii | 98 => some .bytes | _ => none

/-- `FormatConversion::parse` -/
def parseConversion : List Nat → Option Conv × List Nat
  | 33 :: c :: rest => match Conv.fromChar c with
    | some k => (some k, rest)
    | none => (none, 33 :: c :: rest)
  | t => (none, t)

/-- `FormatAlign::from_char` -/
def Align.fromChar : Nat → Option Align
  | 60 => some .left | 62 => some .right | 61 => some .afterSign | 94 => some .center | _ => none

/-- `FormatAlign::parse` -/
def parseAlign : List Nat → Option Align × List Nat
  | [] => (none, [])
  | c :: rest => match Align.fromChar c with
    | some a => (some a, rest)
    | none => (none, c :: rest)

/-- `parse_fill_and_align`: with two or more characters, a fill is taken iff the second one is an
    alignment character. -/
def parseFillAndAlign : List Nat → Option Nat × Option Align × List Nat
  | [] => (none, none, [])
  | [c] => let (a, r) := parseAlign [c]; (none, a, r)
  | c0 :: c1 :: rest =>
    match parseAlign (c1 :: rest) with
    | (some a, r) => (some c0, some a, r)
    | (none, _) => let (a, r) := parseAlign (c0 :: c1 :: rest); (none, a, r)

/-- `FormatSign::parse` -/
def parseSign : List Nat → Option Sign × List Nat
  | 45 :: r => (some .minus, r)
  | 43 :: r => (some .plus, r)
  | 32 :: r => (some .minusOrSpace, r)
  | t => (none, t)

/-- `parse_alternate_form` -/
def parseAlternateForm : List Nat → Bool × List Nat
  | 35 :: r => (true, r)
  | t => (false, t)

/-- `parse_zero` -/
def parseZero : List Nat → Bool × List Nat
  | 48 :: r => (true, r)
  | t => (false, t)

/-- the leading ASCII digits (`get_num_digits` + the two slices) -/
def spanDigits : List Nat → List Nat × List Nat
  | [] => ([], [])
  | c :: rest => if isDigit c then let (a, r) := spanDigits rest; (c :: a, r) else ([], c :: rest)

/-- value of a list of ASCII digits -/
def digitsVal (ds : List Nat) : Nat := ds.foldl (fun a d => 10 * a + (d - 48)) 0

/-- `parse_number`: `str::parse::<usize>` fails exactly on overflow here. -/
def parseNumber (t : List Nat) : Except Err (Option Nat × List Nat) :=
  let (ds, rest) := spanDigits t
  if ds.isEmpty then .ok (none, t)
  else
    let v := digitsVal ds
    if v ≤ usizeMax then .ok (some v, rest) else .error .decimalDigitsTooMany

/-- `parse_precision`: a `.` without digits is left in place (and rejected later). -/
def parsePrecision : List Nat → Except Err (Option Nat × List Nat)
  | 46 :: r =>
    match parseNumber r with
    | .error e => .error e
    -- 45bc6fb: the limit is `isize::MAX` (CPython's `Py_ssize_t`); floats check `i32::MAX` later
    | .ok (some size, rest) => if size > isizeMax then .error .precisionTooBig else .ok (some size, rest)
    | .ok (none, _) => .ok (none, 46 :: r)
  | t => .ok (none, t)

/-- `FormatGrouping::parse` -/
def parseGrouping : List Nat → Option Grouping × List Nat
  | 95 :: r => (some .underscore, r)
  | 44 :: r => (some .comma, r)
  | t => (none, t)

/-- `FormatType::parse` -/
def parseType : List Nat → Option FType × List Nat
  | 115 :: r => (some .string, r)
  | 98 :: r => (some .binary, r)
  | 99 :: r => (some .character, r)
  | 100 :: r => (some .decimal, r)
  | 111 :: r => (some .octal, r)
  | 110 :: r => (some (.number false), r)
  | 78 :: r => (some (.number true), r)
  | 120 :: r => (some (.hex false), r)
  | 88 :: r => (some (.hex true), r)
  | 101 :: r => (some (.exponent false), r)
  | 69 :: r => (some (.exponent true), r)
  | 102 :: r => (some (.fixed false), r)
  | 70 :: r => (some (.fixed true), r)
  | 103 :: r => (some (.general false), r)
  | 71 :: r => (some (.general true), r)
  | 37 :: r => (some .percentage, r)
  | t => (none, t)

/-- `width.is_some_and(|w| w > i32::MAX as usize)` -/
def widthTooBig : Option Nat → Bool
  | some w => decide (w > i32Max)
  | none => false

/-- `FormatSpec::parse` -/
def parseSpec (text : List Nat) : Except Err FormatSpec :=
  -- `let conversion = None;` (fix e5c4721: a conversion belongs to the replacement field)
  let conversion : Option Conv := none
  let (fill, align, text) := parseFillAndAlign text
  let (sign, text) := parseSign text
  let (alt, text) := parseAlternateForm text
  let (zero, text) := parseZero text
  match parseNumber text with
  | .error e => .error e
  | .ok (width, text) =>
    -- fix b59d482: the padding arithmetic is done in `i32`
    if widthTooBig width then .error .decimalDigitsTooMany else
    let (grouping, text) := parseGrouping text
    match parsePrecision text with
    | .error e => .error e
    | .ok (precision, text) =>
      let (ftype, text) := parseType text
      if !text.isEmpty then .error .invalidFormatSpecifier
      else
        -- 9bdbe36: the `0` flag only sets the fill; the alignment it implies depends on the value
        -- (`=` for numbers, see `numberAlign`; the usual `<` for strings)
        let fill := if zero ∧ fill.isNone then some 48 else fill
        .ok { conversion, fill, align, sign, alt, width, grouping, precision, ftype }

/-! ## grouping -/

/-- `String::insert(idx, sep)` on ASCII text: panics when `idx` is past the end (an `i32` that went
    negative becomes a huge `usize`). -/
def insertAt (s : List Nat) (idx : Int) (sep : Nat) : Option (List Nat) :=
  if 0 ≤ idx ∧ idx.toNat ≤ s.length then some (s.take idx.toNat ++ sep :: s.drop idx.toNat) else none

/-- the `for i in 1..sep_cnt + 1` loop of `insert_separator`; `len` is the length before the loop,
    `i` the current index, `n` the number of iterations left. -/
def insertSepLoop (len inter : Int) (sep : Nat) : Nat → Int → List Nat → Option (List Nat)
  | 0, _, s => some s
  | n + 1, i, s =>
    match insertAt s (len - inter * i) sep with
    | none => none
    | some s' => insertSepLoop len inter sep n (i + 1) s'

/-- `insert_separator` -/
def insertSeparator (s : List Nat) (inter : Int) (sep : Nat) (sepCnt : Int) : Option (List Nat) :=
  insertSepLoop s.length inter sep sepCnt.toNat 1 s

/-- `separate_integer` (all `i32`; the sizes that occur cannot overflow, see `Thm`) -/
def separateInteger (s : List Nat) (inter : Int) (sep : Nat) (dispDigitCnt : Int) : Option (List Nat) :=
  let magnitudeLen : Int := s.length
  let offset : Int := if dispDigitCnt % (inter + 1) = 0 then 1 else 0
  let disp := dispDigitCnt + offset
  let padCnt := disp - magnitudeLen
  let sepCnt := disp / (inter + 1)
  let diff := padCnt - sepCnt
  if padCnt > 0 ∧ diff > 0 then
    insertSeparator (List.replicate diff.toNat 48 ++ s) inter sep sepCnt
  else
    insertSeparator s inter sep ((magnitudeLen - 1) / inter)

/-- `magnitude_str.split_at(int_len)`: all of the text for interval 4, else the leading digits -/
def splitIntPart (inter : Int) (s : List Nat) : List Nat × List Nat :=
  if inter = 4 then (s, []) else spanDigits s

/-- `add_magnitude_separators_for_char` (fix a6de50b): only the leading integer digits are grouped —
    all of the text for interval 4 (binary/octal/hex), otherwise up to the first non-digit; a text
    without leading digits (`inf`, `nan`) is zero-padded without separators.  The text is ASCII. -/
def addSepForChar (s : List Nat) (inter : Int) (sep : Nat) (dispDigitCnt : Int) : Option (List Nat) :=
  let (intPart, rest) := splitIntPart inter s
  let intDigitCnt := dispDigitCnt - (rest.length : Int)
  let r : Option (List Nat) :=
    if intPart.isEmpty then some (List.replicate (max intDigitCnt 0).toNat 48)
    else separateInteger intPart inter sep intDigitCnt
  match r with
  | none => none
  | some r => some (r ++ rest)

/-- `number_align` (9bdbe36): the explicit alignment, else `=` under the `0` flag (a fill of `0` without
    an alignment can only come from that flag), else right -/
def numberAlign (spec : FormatSpec) : Align :=
  spec.align.getD (if spec.fill = some 48 then .afterSign else .right)

/-- `get_separator_interval` (fix a6de50b: no `panic!` arm any more) -/
def getSeparatorInterval (spec : FormatSpec) : Nat :=
  match spec.ftype with
  | some .binary | some .octal | some (.hex _) => 4
  | _ => 3

/-- `add_magnitude_separators`; `s` and `prefix` are ASCII -/
def addMagnitudeSeparators (spec : FormatSpec) (s : List Nat) (pfx : List Nat) : Option (List Nat) :=
  match spec.grouping with
  | none => some s
  | some g =>
    let sep := match g with | .comma => 44 | .underscore => 95
    let inter := getSeparatorInterval spec
    let magnitudeLen := s.length
    -- the width drives zero padding only under sign-aware zero padding (`0` flag / `0=`)
    let zeroPadded := spec.fill = some 48 ∧ numberAlign spec = .afterSign
    let width : Option Int :=
      if zeroPadded then chkI32 (wrapI32 (spec.width.getD magnitudeLen) - wrapI32 pfx.length) else some 0
    match width with
    | none => none
    | some width =>
      let disp := max width (wrapI32 magnitudeLen)
      addSepForChar s inter sep disp

/-- `validate_format(default_format_type)` -/
def validateFormat (spec : FormatSpec) (dflt : FType) : Except Err Unit :=
  let ft := spec.ftype.getD dflt
  match spec.grouping, ft with
  | some .comma, .string | some .comma, .character | some .comma, .binary | some .comma, .octal
  | some .comma, .hex _ | some .comma, .number _ => .error .unspecifiedFormat
  | some .underscore, .string | some .underscore, .character | some .underscore, .number _ =>
    .error .unspecifiedFormat
  | _, _ => .ok ()

/-! ## sign, fill and alignment -/

/-- `compute_fill_string` -/
def computeFillString (fill : Nat) (n : Int) : List Nat := List.replicate n.toNat fill

/-- `format_sign_and_align`; `numChars` is `magnitude_str.char_len()` (characters for a Python
    `str`, **bytes** for the `AsciiStr` wrapper used by the numeric paths), `sign` is ASCII. -/
def formatSignAndAlign (spec : FormatSpec) (mag : List Nat) (numChars : Nat) (sign : List Nat)
    (dflt : Align) : Option (List Nat) :=
  let align := spec.align.getD dflt
  let fillChar := spec.fill.getD 32
  let need : Option Int := match spec.width with
    | none => some 0
    | some w =>
      match chkI32 (wrapI32 w - wrapI32 numChars) with
      | none => none
      | some d => match chkI32 (d - wrapI32 sign.length) with
        | none => none
        | some d => some (max 0 d)
  match need with
  | none => none
  | some n =>
    some (match align with
    | .left => sign ++ mag ++ computeFillString fillChar n
    | .right => computeFillString fillChar n ++ sign ++ mag
    | .afterSign => sign ++ computeFillString fillChar n ++ mag
    | .center =>
      let l := n / 2
      let r := n - l
      computeFillString fillChar l ++ sign ++ mag ++ computeFillString fillChar r)

/-! ## integers -/

def digitChar (d : Nat) (upper : Bool) : Nat :=
  if d < 10 then 48 + d else if upper then 55 + d else 87 + d

def radixGo (radix : Nat) (upper : Bool) : Nat → Nat → List Nat → List Nat
  | 0, _, acc => acc
  | fuel + 1, n, acc =>
    if n < radix then digitChar n upper :: acc
    else radixGo radix upper fuel (n / radix) (digitChar (n % radix) upper :: acc)

/-- contract of `BigInt::to_str_radix` on a magnitude (`make_ascii_uppercase` folded in) -/
def toStrRadix (n radix : Nat) (upper : Bool := false) : List Nat :=
  radixGo radix upper (Nat.log2 n + 1) n []

/-- largest finite double, as an integer -/
def f64MaxInt : Nat := (2 ^ 53 - 1) * 2 ^ 971

/-- contract of malachite's `BigInt::to_f64`: nearest double, ties to even; `None` when the value
    lies beyond `±f64::MAX`. -/
def bigToF64 (n : Int) : Option Nat :=
  if n.natAbs > f64MaxInt then none else some (PV.Dec.ofRat (n < 0) n.natAbs 1)

def sSign (negative : Bool) (sign : Option Sign) : List Nat :=
  if negative then [45] else
  match sign.getD .minus with
  | .plus => [43]
  | .minus => []
  | .minusOrSpace => [32]

/-! ## floats -/

/-- `num.abs()` -/
def absBits (bits : Nat) : Nat := bits % 2 ^ 63

/-- `magnitude * 100.0`, correctly rounded (finite non-negative argument) -/
def mul100 (bits : Nat) : Nat :=
  let (_, m, e) := PV.Dec.decompose bits
  let (num, den) := PV.Dec.ratOf m e
  PV.Dec.ofRat false (num * 100) den

def sNanPct : List Nat := [110, 97, 110, 37]
def sInfPct : List Nat := [105, 110, 102, 37]
def sNan : List Nat := [110, 97, 110]
def sInf : List Nat := [105, 110, 102]

/-- `repr.replacen('e', ".e", 1)` -/
def pointBeforeE : List Nat → List Nat
  | [] => []
  | 101 :: rest => 46 :: 101 :: rest
  | c :: rest => c :: pointBeforeE rest

/-- the `raw_magnitude_str` match of `format_float` -/
def floatMagnitude (spec : FormatSpec) (mag : Nat) : Res (List Nat) :=
  let precision := spec.precision.getD 6
  match spec.ftype with
  | some (.fixed up) => .ok (PV.C17.formatFixed precision mag up spec.alt)
  | some .decimal | some .binary | some .octal | some (.hex _) | some .string | some .character
  | some (.number true) => .err .unknownFormatCode
  | some (.general up) | some (.number up) =>
    let precision := if precision = 0 then 1 else precision
    .ok (PV.C17.formatGeneral precision mag up spec.alt false)
  | some (.exponent up) => .ok (PV.C17.formatExponent precision mag up spec.alt)
  | some .percentage =>
    if PV.Dec.isNan mag then .ok sNanPct
    else if PV.Dec.isInf mag then .ok sInfPct
    else
      -- `float::format_fixed(precision, magnitude * 100.0, Case::Lower, alternate_form)`, then `{result}%`
      -- (ca95121: an overflowing product prints `inf%`, no decimal point)
      .ok (PV.C17.formatFixed precision (mul100 mag) false spec.alt ++ [37])
  | none =>
    if PV.Dec.isNan mag then .ok sNan
    else if PV.Dec.isInf mag then .ok sInf
    else match spec.precision with
      | some p => .ok (PV.C17.formatGeneral p mag false spec.alt true)
      | none =>
        -- dabde2e: `#` asks for a decimal point; only exponent notation can lack one
        let repr := PV.C17.toString mag
        .ok (if spec.alt ∧ !repr.contains 46 then pointBeforeE repr else repr)

/-- `format_float` -/
def formatFloat (spec : FormatSpec) (bits : Nat) : Res (List Nat) :=
  match validateFormat spec (.fixed false) with
  | .error e => .err e
  | .ok () =>
    -- 45bc6fb: `if precision > i32::MAX as usize { return Err(PrecisionTooBig) }`
    if spec.precision.getD 6 > i32Max then .err .precisionTooBig else
    (floatMagnitude spec (absBits bits)).bind fun raw =>
    let signStr := sSign (PV.Dec.isNeg bits && !PV.Dec.isNan bits) spec.sign
    (Res.ofOption (addMagnitudeSeparators spec raw signStr)).bind fun mag =>
    Res.ofOption (formatSignAndAlign spec mag mag.length signStr (numberAlign spec))

/-! ## `format_int`, `format_string`, `format_bool` -/

/-- `format_int_radix` (and the `Hex(Upper)` arm) -/
def formatIntRadix (spec : FormatSpec) (magnitude radix : Nat) (upper : Bool := false) : Res (List Nat) :=
  match spec.precision with
  | some _ => .err .precisionNotAllowed
  | none => .ok (toStrRadix magnitude radix upper)

def isSurrogate (n : Nat) : Bool := 0xD800 ≤ n && n ≤ 0xDFFF

/-- the `raw_magnitude_str` match of `format_int`; `Sum.inr` is the early `return format_float(..)` -/
def intMagnitude (spec : FormatSpec) (num : Int) : Res (List Nat ⊕ List Nat) :=
  let magnitude := num.natAbs
  let l (r : Res (List Nat)) : Res (List Nat ⊕ List Nat) := r.map Sum.inl
  match spec.ftype with
  | some .binary => l (formatIntRadix spec magnitude 2)
  | some .decimal => l (formatIntRadix spec magnitude 10)
  | some .octal => l (formatIntRadix spec magnitude 8)
  | some (.hex false) => l (formatIntRadix spec magnitude 16)
  | some (.hex true) => l (formatIntRadix spec magnitude 16 true)
  | some (.number false) => l (formatIntRadix spec magnitude 10)
  | some (.number true) => .err .unknownFormatCode
  | some .string => .err .unknownFormatCode
  | some .character =>
    if spec.sign.isSome then .err .notAllowed
    else if spec.alt then .err .notAllowed
    else if spec.precision.isSome then .err .precisionNotAllowed
    -- `num.to_u32().and_then(char::from_u32)` (fix b3fed62): no `char` for surrogates / > 0x10ffff
    else if 0 ≤ num ∧ num.toNat ≤ 0x10ffff ∧ isSurrogate num.toNat = false then .ok (.inl [num.toNat])
    else .err .codeNotInRange
  | some (.general _) | some (.fixed _) | some (.exponent _) | some .percentage =>
    match bigToF64 num with
    | some bits => (formatFloat spec bits).map Sum.inr
    | none => .err .unableToConvert
  | none => l (formatIntRadix spec magnitude 10)

def intPrefix (spec : FormatSpec) : List Nat :=
  if spec.alt then
    match spec.ftype with
    | some .binary => [48, 98]
    | some .octal => [48, 111]
    | some (.hex false) => [48, 120]
    | some (.hex true) => [48, 88]
    | _ => []
  else []

/-- `format_int` -/
def formatInt (spec : FormatSpec) (num : Int) : Res (List Nat) :=
  match validateFormat spec .decimal with
  | .error e => .err e
  | .ok () =>
    (intMagnitude spec num).bind fun
    | .inr done => .ok done
    | .inl raw =>
      let signPrefix := sSign (num < 0) spec.sign ++ intPrefix spec
      (Res.ofOption (addMagnitudeSeparators spec raw signPrefix)).bind fun mag =>
      -- `AsciiStr::char_len` counts characters (fix b3fed62)
      Res.ofOption (formatSignAndAlign spec mag mag.length signPrefix (numberAlign spec))

/-- `s.chars().take(precision).collect()` -/
def truncateChars : Option Nat → List Nat → List Nat
  | some p, s => s.take p
  | none, s => s

/-- `format_string` for a Python `str` (fix 19885fd: sign and `#` rejected, precision counts
    characters and is applied before padding; 9bdbe36: `=` alignment rejected, and the `0` flag no longer
    implies it) -/
def formatString (spec : FormatSpec) (s : List Nat) : Res (List Nat) :=
  match validateFormat spec .string with
  | .error e => .err e
  | .ok () =>
    match spec.ftype with
    | some .string | none =>
      if spec.sign.isSome then .err .notAllowed
      else if spec.alt then .err .notAllowed
      else if spec.align = some .afterSign then .err .notAllowed      -- 9bdbe36
      else
        let truncated := truncateChars spec.precision s
        Res.ofOption (formatSignAndAlign spec truncated truncated.length [] .left)
    | _ => .err .unknownFormatCode

def sTrue : List Nat := [84, 114, 117, 101]
def sFalse : List Nat := [70, 97, 108, 115, 101]

/-- bit patterns of `0.0` and `1.0` -/
def boolBits (b : Bool) : Nat := if b then 0x3FF0000000000000 else 0

/-- `format_bool` -/
def formatBool (spec : FormatSpec) (b : Bool) : Res (List Nat) :=
  match spec.ftype with
  | some .binary | some .decimal | some .octal | some (.number false) | some (.hex _)
  | some (.general _) | some .character => formatInt spec (if b then 1 else 0)
  | some (.exponent _) | some (.fixed _) | some .percentage => formatFloat spec (boolBits b)
  | none =>
    -- fix 54c4118: only the empty spec is `str(bool)`; any other spec formats the integer 0 / 1
    if spec.fill.isNone ∧ spec.align.isNone ∧ spec.sign.isNone ∧ spec.alt = false ∧ spec.width.isNone ∧
        spec.grouping.isNone ∧ spec.precision.isNone then .ok (if b then sTrue else sFalse)
    else formatInt spec (if b then 1 else 0)
  | _ => .err .invalidFormatSpecifier

/-! ## end to end -/

inductive Value where
  | int (n : Int) | float (bits : Nat) | str (s : List Nat) | bool (b : Bool)
deriving Repr, DecidableEq

def formatValue (spec : FormatSpec) : Value → Res (List Nat)
  | .int n => formatInt spec n
  | .float b => formatFloat spec b
  | .str s => formatString spec s
  | .bool b => formatBool spec b

/-- `FormatSpec::parse(spec)?.format_*(value)` -/
def format (spec : List Nat) (v : Value) : Res (List Nat) :=
  match parseSpec spec with
  | .error e => .err e
  | .ok r => formatValue r v

end PV.C18
