import PV.C18.Model
import PV.C18.Spec
namespace PV.C18
open Spec

/-- the positions of `insert_separator` as a running subtraction -/
def loopSub (k : Int) (sep : Nat) : Nat → Int → List Nat → Option (List Nat)
  | 0, _, s => some s
  | n + 1, pos, s =>
    match insertAt s pos sep with
    | none => none
    | some s' => loopSub k sep n (pos - k) s'

theorem loop_eq_sub (len k : Int) (sep : Nat) (n : Nat) (i : Int) (s : List Nat) :
    insertSepLoop len k sep n i s = loopSub k sep n (len - k * i) s := by
  induction n generalizing i s with
  | zero => simp [insertSepLoop, loopSub]
  | succ n ih =>
    simp only [insertSepLoop, loopSub]
    cases h : insertAt s (len - k * i) sep with
    | none => rfl
    | some s' =>
      simp only
      rw [ih]
      congr 1
      rw [Int.mul_add, Int.mul_one]; omega

theorem insertAt_append (X Y : List Nat) (pos : Int) (sep : Nat) (h : pos ≤ X.length) :
    insertAt (X ++ Y) pos sep = (insertAt X pos sep).map (· ++ Y) := by
  unfold insertAt
  by_cases h0 : 0 ≤ pos
  · have h1 : pos.toNat ≤ X.length := by omega
    have h2 : pos.toNat ≤ (X ++ Y).length := by simp; omega
    simp [h0, h1, List.take_append_of_le_length h1, List.drop_append_of_le_length h1]
    omega
  · simp [h0]

theorem insertAt_length {s s' : List Nat} {pos : Int} {sep : Nat} (h : insertAt s pos sep = some s') :
    s'.length = s.length + 1 := by
  unfold insertAt at h
  split at h
  · cases h; simp; omega
  · cases h

theorem loopSub_append (k : Int) (hk : 0 ≤ k) (sep : Nat) (n : Nat) (pos : Int) (X Y : List Nat)
    (h : pos ≤ X.length) :
    loopSub k sep n pos (X ++ Y) = (loopSub k sep n pos X).map (· ++ Y) := by
  induction n generalizing pos X with
  | zero => simp [loopSub]
  | succ n ih =>
    simp only [loopSub]
    rw [insertAt_append X Y pos sep h]
    cases hx : insertAt X pos sep with
    | none => simp
    | some X' =>
      simp only [Option.map_some]
      have := insertAt_length hx
      exact ih (pos - k) X' (by omega)

theorem groupRev_short (k sep : Nat) (X Y : List Nat) (i : Nat) (h : i + X.length ≤ k) :
    groupRev k sep i (X ++ Y) = X ++ groupRev k sep (i + X.length) Y := by
  induction X generalizing i with
  | nil => simp
  | cons d X ih =>
    have hlen : i + (X.length + 1) ≤ k := by simpa using h
    have : i ≠ k := by omega
    simp only [List.cons_append, groupRev, this, if_false, List.length_cons]
    rw [ih (i + 1) (by omega)]
    have e : i + 1 + X.length = i + (X.length + 1) := by omega
    rw [e]

theorem groupRight_short (k sep : Nat) (s : List Nat) (h : s.length ≤ k) : groupRight k sep s = s := by
  unfold groupRight
  have := groupRev_short k sep s.reverse [] 0 (by simpa using h)
  simp only [List.append_nil] at this
  rw [this]; simp [groupRev]

theorem groupRight_append (k sep : Nat) (hk : 1 ≤ k) (A B : List Nat) (hA : A ≠ []) (hB : B.length = k) :
    groupRight k sep (A ++ B) = groupRight k sep A ++ sep :: B := by
  unfold groupRight
  rw [List.reverse_append, groupRev_short k sep B.reverse A.reverse 0 (by simp [hB])]
  simp only [Nat.zero_add, List.length_reverse, hB]
  cases hr : A.reverse with
  | nil => simp at hr; exact absurd hr hA
  | cons d Y =>
    have h0 : (0 : Nat) ≠ k := by omega
    simp [groupRev, h0]

/-- the number of separators, given abstractly by its recursion (`(L - 1) / k`) -/
structure IsCnt (k : Nat) (cnt : Nat → Nat) : Prop where
  small : ∀ L, L ≤ k → cnt L = 0
  step : ∀ L, k < L → cnt L = cnt (L - k) + 1

theorem loopSub_groupRight (k : Nat) (hk : 1 ≤ k) (cnt : Nat → Nat) (hc : IsCnt k cnt) (sep : Nat) :
    ∀ (L : Nat) (s : List Nat), s.length = L →
      loopSub k sep (cnt L) ((L : Int) - k) s = some (groupRight k sep s) := by
  intro L
  induction L using Nat.strongRecOn with
  | _ L ih =>
    intro s hs
    by_cases hL : L ≤ k
    · rw [hc.small L hL, groupRight_short k sep s (by omega)]; rfl
    · have hL : k < L := by omega
      rw [hc.step L hL]
      have hsplit : s = s.take (L - k) ++ s.drop (L - k) := (List.take_append_drop _ _).symm
      have hA : (s.take (L - k)).length = L - k := by simp; omega
      have hB : (s.drop (L - k)).length = k := by simp; omega
      have hAne : s.take (L - k) ≠ [] := by
        intro h; rw [h] at hA; simp at hA; omega
      have hins : insertAt s ((L : Int) - k) sep = some (s.take (L - k) ++ sep :: s.drop (L - k)) := by
        unfold insertAt
        have : ((L : Int) - k).toNat = L - k := by omega
        rw [this]
        have h1 : (0 : Int) ≤ (L : Int) - k := by omega
        have h2 : L - k ≤ s.length := by omega
        simp [h2]
        omega
      simp only [loopSub, hins]
      rw [loopSub_append k (by omega) sep _ _ _ _ (by rw [hA]; omega)]
      have := ih (L - k) (by omega) (s.take (L - k)) hA
      have hcast : ((L - k : Nat) : Int) - k = (L : Int) - k - k := by omega
      rw [hcast] at this
      rw [this]
      simp only [Option.map_some]
      congr 1
      conv => rhs; rw [hsplit]
      exact (groupRight_append k sep hk _ _ hAne hB).symm

theorem groupRight_length (k : Nat) (hk : 1 ≤ k) (cnt : Nat → Nat) (hc : IsCnt k cnt) (sep : Nat) :
    ∀ (L : Nat) (s : List Nat), s.length = L → (groupRight k sep s).length = L + cnt L := by
  intro L
  induction L using Nat.strongRecOn with
  | _ L ih =>
    intro s hs
    by_cases hL : L ≤ k
    · rw [hc.small L hL, groupRight_short k sep s (by omega)]; omega
    · have hL : k < L := by omega
      have hsplit : s = s.take (L - k) ++ s.drop (L - k) := (List.take_append_drop _ _).symm
      have hA : (s.take (L - k)).length = L - k := by simp; omega
      have hB : (s.drop (L - k)).length = k := by simp; omega
      have hAne : s.take (L - k) ≠ [] := by
        intro h; rw [h] at hA; simp at hA; omega
      rw [hsplit, groupRight_append k sep hk _ _ hAne hB, hc.step L hL]
      simp only [List.length_append, List.length_cons]
      rw [ih (L - k) (by omega) _ hA, hB]; omega

theorem isCnt3 : IsCnt 3 (fun L => (L - 1) / 3) :=
  ⟨by intro L h; show (L - 1) / 3 = 0; omega, by intro L h; show (L - 1) / 3 = (L - 3 - 1) / 3 + 1; omega⟩
theorem isCnt4 : IsCnt 4 (fun L => (L - 1) / 4) :=
  ⟨by intro L h; show (L - 1) / 4 = 0; omega, by intro L h; show (L - 1) / 4 = (L - 4 - 1) / 4 + 1; omega⟩

theorem replicate_snoc_append (z a : Nat) (l : List Nat) :
    List.replicate z a ++ a :: l = List.replicate (z + 1) a ++ l := by
  induction z with
  | zero => rfl
  | succ z ih => simp only [List.replicate_succ, List.cons_append, ih]

theorem padSearch_spec (k : Nat) (hk : 1 ≤ k) (cnt : Nat → Nat) (hc : IsCnt k cnt) (sep w : Nat) :
    ∀ (z fuel : Nat) (ds : List Nat), z ≤ fuel →
      w ≤ ds.length + z + cnt (ds.length + z) →
      (∀ j, j < z → ds.length + j + cnt (ds.length + j) < w) →
      padSearch k sep w fuel ds = groupRight k sep (List.replicate z 48 ++ ds) := by
  intro z
  induction z with
  | zero =>
    intro fuel ds _ hw _
    have hl := groupRight_length k hk cnt hc sep ds.length ds rfl
    cases fuel with
    | zero => simp [padSearch]
    | succ f =>
      simp only [padSearch, List.replicate_zero, List.nil_append]
      rw [if_pos (by rw [hl]; simpa using hw)]
  | succ z ih =>
    intro fuel ds hf hw hlt
    have hl := groupRight_length k hk cnt hc sep ds.length ds rfl
    cases fuel with
    | zero => omega
    | succ f =>
      simp only [padSearch]
      have h0 := hlt 0 (by omega)
      rw [if_neg (by rw [hl]; simpa using h0)]
      rw [ih f (48 :: ds) (by omega)
        (by simp only [List.length_cons]; have e : ds.length + 1 + z = ds.length + (z + 1) := by omega
            rw [e]; exact hw)
        (by intro j hj; simp only [List.length_cons]
            have e : ds.length + 1 + j = ds.length + (j + 1) := by omega
            rw [e]; exact hlt (j + 1) (by omega))]
      rw [replicate_snoc_append]

/-- `insert_separator` with the count the Rust code passes equals plain grouping -/
theorem insertSeparator_groupRight (k : Nat) (hk : 1 ≤ k) (cnt : Nat → Nat) (hc : IsCnt k cnt)
    (sep : Nat) (s : List Nat) (c : Int) (h : c.toNat = cnt s.length) :
    insertSeparator s k sep c = some (groupRight k sep s) := by
  unfold insertSeparator
  rw [loop_eq_sub, h, Int.mul_one]
  exact loopSub_groupRight k hk cnt hc sep s.length s rfl

/-! ### the `i32` arithmetic of `separate_integer` (group sizes 3 and 4) -/

theorem arith3_pad (w n z : Nat) (disp off : Int) (hn : 1 ≤ n)
    (hdisp : (disp = w ∧ (n : Int) ≤ w) ∨ (disp = n ∧ (w : Int) ≤ n))
    (hoff : (disp % 4 = 0 ∧ off = 1) ∨ (disp % 4 ≠ 0 ∧ off = 0))
    (hz : disp + off - n - (disp + off) / 4 = z) (hpos : disp + off - n > 0 ∧ (z : Int) > 0) :
    ((disp + off) / 4).toNat = (z + n - 1) / 3 ∧ z ≤ w ∧ w ≤ n + z + (n + z - 1) / 3 ∧
      ∀ j, j < z → n + j + (n + j - 1) / 3 < w := by
  obtain ⟨q, r, h1, h2, h3, h4⟩ : ∃ q r : Int, disp + off = 4 * q + r ∧ 1 ≤ r ∧ r ≤ 3 ∧ (disp + off) / 4 = q :=
    ⟨(disp + off) / 4, (disp + off) % 4, by omega, by omega, by omega, rfl⟩
  rw [h4] at hz ⊢
  have h5 : (n : Int) + z = 3 * q + r := by omega
  have h6 : ((n + z - 1) / 3 : Nat) = q := by omega
  have h7 : (z + n - 1) / 3 = (n + z - 1) / 3 := by rw [Nat.add_comm]
  refine ⟨by omega, by omega, by omega, ?_⟩
  intro j hj
  have hw : (w : Int) = disp := by omega
  by_cases hr : r = 1
  · have h9 : (((n + j - 1) / 3 : Nat) : Int) ≤ q - 1 := by omega
    omega
  · have h9 : (((n + j - 1) / 3 : Nat) : Int) ≤ q := by omega
    omega

theorem arith3_nopad (w n : Nat) (disp off diff : Int) (hn : 1 ≤ n)
    (hdisp : (disp = w ∧ (n : Int) ≤ w) ∨ (disp = n ∧ (w : Int) ≤ n))
    (hoff : (disp % 4 = 0 ∧ off = 1) ∨ (disp % 4 ≠ 0 ∧ off = 0))
    (hz : disp + off - n - (disp + off) / 4 = diff) (hneg : ¬ (disp + off - n > 0 ∧ diff > 0)) :
    (((n : Int) - 1) / 3).toNat = (n - 1) / 3 ∧ w ≤ n + 0 + (n + 0 - 1) / 3 := by
  obtain ⟨q, r, h1, h2, h3, h4⟩ : ∃ q r : Int, disp + off = 4 * q + r ∧ 1 ≤ r ∧ r ≤ 3 ∧ (disp + off) / 4 = q :=
    ⟨(disp + off) / 4, (disp + off) % 4, by omega, by omega, by omega, rfl⟩
  rw [h4] at hz
  refine ⟨by omega, ?_⟩
  by_cases hp : disp + off - n > 0
  · have h5 : (n : Int) ≥ 3 * q + r := by omega
    have h6 : (((n + 0 - 1) / 3 : Nat) : Int) ≥ q := by omega
    omega
  · omega

theorem arith4_pad (w n z : Nat) (disp off : Int) (hn : 1 ≤ n)
    (hdisp : (disp = w ∧ (n : Int) ≤ w) ∨ (disp = n ∧ (w : Int) ≤ n))
    (hoff : (disp % 5 = 0 ∧ off = 1) ∨ (disp % 5 ≠ 0 ∧ off = 0))
    (hz : disp + off - n - (disp + off) / 5 = z) (hpos : disp + off - n > 0 ∧ (z : Int) > 0) :
    ((disp + off) / 5).toNat = (z + n - 1) / 4 ∧ z ≤ w ∧ w ≤ n + z + (n + z - 1) / 4 ∧
      ∀ j, j < z → n + j + (n + j - 1) / 4 < w := by
  obtain ⟨q, r, h1, h2, h3, h4⟩ : ∃ q r : Int, disp + off = 5 * q + r ∧ 1 ≤ r ∧ r ≤ 4 ∧ (disp + off) / 5 = q :=
    ⟨(disp + off) / 5, (disp + off) % 5, by omega, by omega, by omega, rfl⟩
  rw [h4] at hz ⊢
  have h5 : (n : Int) + z = 4 * q + r := by omega
  have h6 : ((n + z - 1) / 4 : Nat) = q := by omega
  have h7 : (z + n - 1) / 4 = (n + z - 1) / 4 := by rw [Nat.add_comm]
  refine ⟨by omega, by omega, by omega, ?_⟩
  intro j hj
  have hw : (w : Int) = disp := by omega
  by_cases hr : r = 1
  · have h9 : (((n + j - 1) / 4 : Nat) : Int) ≤ q - 1 := by omega
    omega
  · have h9 : (((n + j - 1) / 4 : Nat) : Int) ≤ q := by omega
    omega

theorem arith4_nopad (w n : Nat) (disp off diff : Int) (hn : 1 ≤ n)
    (hdisp : (disp = w ∧ (n : Int) ≤ w) ∨ (disp = n ∧ (w : Int) ≤ n))
    (hoff : (disp % 5 = 0 ∧ off = 1) ∨ (disp % 5 ≠ 0 ∧ off = 0))
    (hz : disp + off - n - (disp + off) / 5 = diff) (hneg : ¬ (disp + off - n > 0 ∧ diff > 0)) :
    (((n : Int) - 1) / 4).toNat = (n - 1) / 4 ∧ w ≤ n + 0 + (n + 0 - 1) / 4 := by
  obtain ⟨q, r, h1, h2, h3, h4⟩ : ∃ q r : Int, disp + off = 5 * q + r ∧ 1 ≤ r ∧ r ≤ 4 ∧ (disp + off) / 5 = q :=
    ⟨(disp + off) / 5, (disp + off) % 5, by omega, by omega, by omega, rfl⟩
  rw [h4] at hz
  refine ⟨by omega, ?_⟩
  by_cases hp : disp + off - n > 0
  · have h5 : (n : Int) ≥ 4 * q + r := by omega
    have h6 : (((n + 0 - 1) / 4 : Nat) : Int) ≥ q := by omega
    omega
  · omega

theorem insertSeparator_groupRight3 (sep : Nat) (s : List Nat) (c : Int) (h : c.toNat = (s.length - 1) / 3) :
    insertSeparator s 3 sep c = some (groupRight 3 sep s) :=
  insertSeparator_groupRight 3 (by omega) _ isCnt3 sep s c h

theorem insertSeparator_groupRight4 (sep : Nat) (s : List Nat) (c : Int) (h : c.toNat = (s.length - 1) / 4) :
    insertSeparator s 4 sep c = some (groupRight 4 sep s) :=
  insertSeparator_groupRight 4 (by omega) _ isCnt4 sep s c h

theorem length_pos_of_ne_nil {ds : List Nat} (hn : ds ≠ []) : 1 ≤ ds.length := by
  cases ds with
  | nil => exact absurd rfl hn
  | cons a l => simp

theorem max_cases (w n : Nat) (disp : Int) (hd : disp = max (w : Int) n) :
    (disp = w ∧ (n : Int) ≤ w) ∨ (disp = n ∧ (w : Int) ≤ n) := by
  rw [Int.max_def] at hd; split at hd <;> omega

theorem separateInteger_spec3 (sep w : Nat) (ds : List Nat) (hn : ds ≠ []) (disp : Int)
    (hd : disp = max (w : Int) ds.length) :
    separateInteger ds 3 sep disp = some (pyGroupPad 3 sep w ds) := by
  have hn' := length_pos_of_ne_nil hn
  have hdisp := max_cases w ds.length disp hd
  unfold separateInteger pyGroupPad
  simp only []
  generalize hoff : (if disp % (3 + 1) = 0 then (1 : Int) else 0) = off
  have hoff' : (disp % 4 = 0 ∧ off = 1) ∨ (disp % 4 ≠ 0 ∧ off = 0) := by
    split at hoff <;> omega
  simp only [Int.reduceAdd]
  generalize hdiff : disp + off - ↑ds.length - (disp + off) / 4 = diff
  split
  · rename_i hc
    obtain ⟨z, hz⟩ : ∃ z : Nat, diff = z := ⟨diff.toNat, by omega⟩
    subst hz
    simp only [Int.toNat_natCast]
    obtain ⟨a1, a2, a3, a4⟩ := arith3_pad w ds.length z disp off hn' hdisp hoff' hdiff hc
    rw [insertSeparator_groupRight3 sep _ _ (by
      simp only [List.length_append, List.length_replicate]; exact a1)]
    rw [padSearch_spec 3 (by omega) _ isCnt3 sep w z w ds a2 a3 a4]
  · rename_i hc
    obtain ⟨a1, a2⟩ := arith3_nopad w ds.length disp off diff hn' hdisp hoff' hdiff hc
    rw [insertSeparator_groupRight3 sep _ _ a1]
    rw [padSearch_spec 3 (by omega) _ isCnt3 sep w 0 w ds (by omega) a2 (by intro j hj; omega)]
    simp

theorem separateInteger_spec4 (sep w : Nat) (ds : List Nat) (hn : ds ≠ []) (disp : Int)
    (hd : disp = max (w : Int) ds.length) :
    separateInteger ds 4 sep disp = some (pyGroupPad 4 sep w ds) := by
  have hn' := length_pos_of_ne_nil hn
  have hdisp := max_cases w ds.length disp hd
  unfold separateInteger pyGroupPad
  simp only []
  generalize hoff : (if disp % (4 + 1) = 0 then (1 : Int) else 0) = off
  have hoff' : (disp % 5 = 0 ∧ off = 1) ∨ (disp % 5 ≠ 0 ∧ off = 0) := by
    split at hoff <;> omega
  simp only [Int.reduceAdd]
  generalize hdiff : disp + off - ↑ds.length - (disp + off) / 5 = diff
  split
  · rename_i hc
    obtain ⟨z, hz⟩ : ∃ z : Nat, diff = z := ⟨diff.toNat, by omega⟩
    subst hz
    simp only [Int.toNat_natCast]
    obtain ⟨a1, a2, a3, a4⟩ := arith4_pad w ds.length z disp off hn' hdisp hoff' hdiff hc
    rw [insertSeparator_groupRight4 sep _ _ (by
      simp only [List.length_append, List.length_replicate]; exact a1)]
    rw [padSearch_spec 4 (by omega) _ isCnt4 sep w z w ds a2 a3 a4]
  · rename_i hc
    obtain ⟨a1, a2⟩ := arith4_nopad w ds.length disp off diff hn' hdisp hoff' hdiff hc
    rw [insertSeparator_groupRight4 sep _ _ a1]
    rw [padSearch_spec 4 (by omega) _ isCnt4 sep w 0 w ds (by omega) a2 (by intro j hj; omega)]
    simp


/-! ### fill / align -/

def alignChar : Align → Nat
  | .left => 60 | .right => 62 | .afterSign => 61 | .center => 94

theorem wrapI32_small (n : Nat) (h : n < 2 ^ 31) : wrapI32 n = n := by
  unfold wrapI32
  have : n % 2 ^ 32 = n := Nat.mod_eq_of_lt (by omega)
  simp only [this]
  rw [if_pos h]

theorem chkI32_ok (i : Int) (h1 : -(2 ^ 31 : Int) ≤ i) (h2 : i < 2 ^ 31) : chkI32 i = some i := by
  unfold chkI32; rw [if_pos ⟨h1, h2⟩]

theorem formatSignAndAlign_eq (spec : FormatSpec) (mag sign : List Nat) (n : Nat) (dflt : Align)
    (hw : ∀ w, spec.width = some w → w < 2 ^ 31) (hm : n < 2 ^ 30) (hs : sign.length < 2 ^ 30)
    (hn : n = mag.length) :
    formatSignAndAlign spec mag n sign dflt =
      some (pyPad (spec.fill.getD 32) (alignChar (spec.align.getD dflt)) (spec.width.getD 0) sign mag) := by
  subst hn
  unfold formatSignAndAlign pyPad computeFillString
  cases hwd : spec.width with
  | none =>
    simp only [Option.getD_none, Nat.zero_sub]
    cases spec.align.getD dflt <;> simp [alignChar]
  | some w =>
    have hw' := hw w hwd
    simp only [Option.getD_some]
    rw [wrapI32_small w hw', wrapI32_small mag.length (by omega), wrapI32_small sign.length (by omega)]
    rw [chkI32_ok _ (by omega) (by omega)]
    simp only []
    rw [chkI32_ok _ (by omega) (by omega)]
    simp only []
    have e1 : (max 0 ((w : Int) - mag.length - sign.length)).toNat = w - (sign.length + mag.length) := by omega
    have e2 : (max 0 ((w : Int) - mag.length - sign.length) / 2).toNat = (w - (sign.length + mag.length)) / 2 := by omega
    have e3 : (max 0 ((w : Int) - mag.length - sign.length) - max 0 ((w : Int) - mag.length - sign.length) / 2).toNat
        = (w - (sign.length + mag.length)) - (w - (sign.length + mag.length)) / 2 := by omega
    cases spec.align.getD dflt <;> simp [alignChar, e1, e2, e3]


/-! ### the spec parser, stage by stage -/

def signOfChar : Nat → Option Sign
  | 43 => some .plus | 45 => some .minus | 32 => some .minusOrSpace | _ => none

def groupingOfChar : Nat → Option Grouping
  | 44 => some .comma | 95 => some .underscore | _ => none

/-- the presentation types of the reference grammar -/
def typeOfChar : Nat → Option FType
  | 115 => some .string | 98 => some .binary | 99 => some .character | 100 => some .decimal
  | 111 => some .octal | 110 => some (.number false)
  | 120 => some (.hex false) | 88 => some (.hex true)
  | 101 => some (.exponent false) | 69 => some (.exponent true)
  | 102 => some (.fixed false) | 70 => some (.fixed true)
  | 103 => some (.general false) | 71 => some (.general true)
  | 37 => some .percentage | _ => none

theorem parseAlign_eq (t : List Nat) :
    parseAlign t = ((pyOpt isAlign t).1.bind Align.fromChar, (pyOpt isAlign t).2) := by
  cases t with
  | nil => rfl
  | cons c r =>
    simp only [parseAlign, pyOpt, isAlign]
    by_cases h1 : c = 60
    · subst h1; rfl
    by_cases h2 : c = 62
    · subst h2; rfl
    by_cases h3 : c = 61
    · subst h3; rfl
    by_cases h4 : c = 94
    · subst h4; rfl
    have : Align.fromChar c = none := by
      unfold Align.fromChar; split <;> first | rfl | omega
    simp [this, h1, h2, h3, h4]


theorem alignFromChar_none (c : Nat) (h : isAlign c = false) : Align.fromChar c = none := by
  simp only [isAlign, Bool.or_eq_false_iff, decide_eq_false_iff_not] at h
  unfold Align.fromChar; split <;> first | rfl | omega

theorem alignFromChar_some (c : Nat) (h : isAlign c = true) : ∃ a, Align.fromChar c = some a := by
  simp only [isAlign, Bool.or_eq_true, decide_eq_true_eq] at h
  rcases h with ((h | h) | h) | h <;> subst h <;> exact ⟨_, rfl⟩

theorem parseAlign_cons_some (c : Nat) (r : List Nat) (a : Align) (h : Align.fromChar c = some a) :
    parseAlign (c :: r) = (some a, r) := by simp [parseAlign, h]

theorem parseAlign_cons_none (c : Nat) (r : List Nat) (h : Align.fromChar c = none) :
    parseAlign (c :: r) = (none, c :: r) := by simp [parseAlign, h]

theorem parseFillAndAlign_eq (s : List Nat) (fill align : Option Nat) (t : List Nat)
    (h : pyFillAlign s = (fill, align, t)) :
    parseFillAndAlign s = (fill, align.bind Align.fromChar, t) := by
  match s, h with
  | [], h => simp [pyFillAlign] at h; obtain ⟨rfl, rfl, rfl⟩ := h; rfl
  | [a], h =>
    simp only [pyFillAlign] at h
    by_cases ha : isAlign a = true
    · obtain ⟨al, hal⟩ := alignFromChar_some a ha
      simp [ha] at h; obtain ⟨rfl, rfl, rfl⟩ := h
      simp [parseFillAndAlign, parseAlign_cons_some a [] al hal, hal]
    · have ha' : isAlign a = false := by simpa using ha
      simp [ha'] at h; obtain ⟨rfl, rfl, rfl⟩ := h
      simp [parseFillAndAlign, parseAlign_cons_none a [] (alignFromChar_none a ha')]
  | f :: a :: rest, h =>
    simp only [pyFillAlign] at h
    by_cases ha : isAlign a = true
    · obtain ⟨al, hal⟩ := alignFromChar_some a ha
      simp [ha] at h; obtain ⟨rfl, rfl, rfl⟩ := h
      simp [parseFillAndAlign, parseAlign_cons_some a rest al hal, hal]
    · have ha' : isAlign a = false := by simpa using ha
      have hna := alignFromChar_none a ha'
      by_cases hf : isAlign f = true
      · obtain ⟨fl, hfl⟩ := alignFromChar_some f hf
        simp [ha', hf] at h; obtain ⟨rfl, rfl, rfl⟩ := h
        simp [parseFillAndAlign, parseAlign_cons_none a rest hna, parseAlign_cons_some f (a :: rest) fl hfl, hfl]
      · have hf' : isAlign f = false := by simpa using hf
        simp [ha', hf'] at h; obtain ⟨rfl, rfl, rfl⟩ := h
        simp [parseFillAndAlign, parseAlign_cons_none a rest hna,
          parseAlign_cons_none f (a :: rest) (alignFromChar_none f hf')]

theorem parseSign_eq (t : List Nat) (sg : Option Nat) (r : List Nat) (h : pyOpt isSign t = (sg, r)) :
    parseSign t = (sg.bind signOfChar, r) := by
  cases t with
  | nil => simp [pyOpt] at h; obtain ⟨rfl, rfl⟩ := h; rfl
  | cons c t =>
    simp only [pyOpt, isSign] at h
    by_cases h1 : c = 43
    · subst h1; simp at h; obtain ⟨rfl, rfl⟩ := h; rfl
    by_cases h2 : c = 45
    · subst h2; simp at h; obtain ⟨rfl, rfl⟩ := h; rfl
    by_cases h3 : c = 32
    · subst h3; simp at h; obtain ⟨rfl, rfl⟩ := h; rfl
    simp [h1, h2, h3] at h; obtain ⟨rfl, rfl⟩ := h
    unfold parseSign; split <;> first | omega | rfl | simp_all

theorem parseGrouping_eq (t : List Nat) (g : Option Nat) (r : List Nat) (h : pyOpt isGrouping t = (g, r)) :
    parseGrouping t = (g.bind groupingOfChar, r) := by
  cases t with
  | nil => simp [pyOpt] at h; obtain ⟨rfl, rfl⟩ := h; rfl
  | cons c t =>
    simp only [pyOpt, isGrouping] at h
    by_cases h1 : c = 44
    · subst h1; simp at h; obtain ⟨rfl, rfl⟩ := h; rfl
    by_cases h2 : c = 95
    · subst h2; simp at h; obtain ⟨rfl, rfl⟩ := h; rfl
    simp [h1, h2] at h; obtain ⟨rfl, rfl⟩ := h
    unfold parseGrouping; split <;> first | omega | rfl | simp_all

theorem parseAlternateForm_eq (t : List Nat) : parseAlternateForm t = pyFlag 35 t := by
  cases t with
  | nil => rfl
  | cons c t =>
    by_cases h : c = 35
    · subst h; rfl
    · simp only [pyFlag, h, if_false]; unfold parseAlternateForm; split <;> first | omega | rfl | simp_all

theorem parseZero_eq (t : List Nat) : parseZero t = pyFlag 48 t := by
  cases t with
  | nil => rfl
  | cons c t =>
    by_cases h : c = 48
    · subst h; rfl
    · simp only [pyFlag, h, if_false]; unfold parseZero; split <;> first | omega | rfl | simp_all

theorem spanDigits_eq (t : List Nat) : spanDigits t = (t.takeWhile Spec.isDigit, t.dropWhile Spec.isDigit) := by
  induction t with
  | nil => rfl
  | cons c t ih =>
    have e : PV.C18.isDigit c = Spec.isDigit c := rfl
    simp only [spanDigits, List.takeWhile_cons, List.dropWhile_cons, e]
    cases Spec.isDigit c <;> simp [ih]

theorem digitsVal_eq (ds : List Nat) : digitsVal ds = decVal ds := rfl

theorem parseNumber_eq (t : List Nat) (w : Option Nat) (r : List Nat) (h : pyNumber t = (w, r)) :
    parseNumber t = match w with
      | none => .ok (none, r)
      | some v => if v ≤ usizeMax then .ok (some v, r) else .error .decimalDigitsTooMany := by
  unfold parseNumber
  unfold pyNumber at h
  rw [spanDigits_eq]
  simp only [] at h ⊢
  split at h
  · rename_i he; obtain ⟨rfl, rfl⟩ := h; simp [he]
  · rename_i he; obtain ⟨rfl, rfl⟩ := h; simp only [he, digitsVal_eq]; rfl


theorem pyPrecision_cons46 (rest : List Nat) :
    pyPrecision (46 :: rest) = match pyNumber rest with
      | (some n, r) => some (some n, r)
      | (none, _) => none := rfl

theorem pyPrecision_other (t : List Nat) (h : t.head? ≠ some 46) : pyPrecision t = some (none, t) := by
  unfold pyPrecision
  split
  · simp at h
  · rfl

theorem parsePrecision_other (t : List Nat) (h : t.head? ≠ some 46) : parsePrecision t = .ok (none, t) := by
  unfold parsePrecision
  split
  · simp at h
  · rfl

theorem parsePrecision_eq (t : List Nat) (pr : Option Nat) (r : List Nat)
    (h : pyPrecision t = some (pr, r)) :
    parsePrecision t = match pr with
      | none => .ok (none, r)
      | some n => if n ≤ usizeMax then (if n > i32Max then .error .precisionTooBig else .ok (some n, r))
                  else .error .decimalDigitsTooMany := by
  by_cases h46 : t.head? = some 46
  · obtain ⟨rest, rfl⟩ : ∃ rest, t = 46 :: rest := by
      cases t with
      | nil => simp at h46
      | cons c t => simp at h46; exact ⟨t, by rw [h46]⟩
    rw [pyPrecision_cons46] at h
    rcases hn : pyNumber rest with ⟨w, r'⟩
    rw [hn] at h
    cases w with
    | none => simp at h
    | some n =>
      simp only [Option.some.injEq, Prod.mk.injEq] at h
      obtain ⟨rfl, rfl⟩ := h
      simp only [parsePrecision, parseNumber_eq rest (some n) r' hn]
      by_cases hu : n ≤ usizeMax
      · simp only [hu, if_true]
      · simp only [hu, if_false]
  · rw [pyPrecision_other t h46] at h
    simp only [Option.some.injEq, Prod.mk.injEq] at h
    obtain ⟨rfl, rfl⟩ := h
    exact parsePrecision_other t h46

theorem parsePrecision_of_none (t : List Nat) (h : pyPrecision t = none) :
    ∃ r, t = 46 :: r ∧ parsePrecision t = .ok (none, t) := by
  by_cases h46 : t.head? = some 46
  · obtain ⟨rest, rfl⟩ : ∃ rest, t = 46 :: rest := by
      cases t with
      | nil => simp at h46
      | cons c t => simp at h46; exact ⟨t, by rw [h46]⟩
    rw [pyPrecision_cons46] at h
    rcases hn : pyNumber rest with ⟨w, r'⟩
    rw [hn] at h
    cases w with
    | some n => simp at h
    | none =>
      refine ⟨rest, rfl, ?_⟩
      simp only [parsePrecision, parseNumber_eq rest none r' hn]
  · rw [pyPrecision_other t h46] at h; simp at h

theorem isType_cases (c : Nat) (h : isType c = true) :
    c = 98 ∨ c = 99 ∨ c = 100 ∨ c = 101 ∨ c = 69 ∨ c = 102 ∨ c = 70 ∨ c = 103 ∨ c = 71 ∨
    c = 110 ∨ c = 111 ∨ c = 115 ∨ c = 120 ∨ c = 88 ∨ c = 37 := by
  simp only [isType, Bool.or_eq_true, decide_eq_true_eq] at h
  omega

theorem parseType_eq (t : List Nat) (ty : Option Nat) (r : List Nat) (h : pyOpt isType t = (ty, r))
    (hN : t.head? ≠ some 78) : parseType t = (ty.bind typeOfChar, r) := by
  cases t with
  | nil => simp [pyOpt] at h; obtain ⟨rfl, rfl⟩ := h; rfl
  | cons c t =>
    simp only [pyOpt] at h
    by_cases hc : isType c = true
    · simp [hc] at h; obtain ⟨rfl, rfl⟩ := h
      rcases isType_cases c hc with h | h | h | h | h | h | h | h | h | h | h | h | h | h | h <;> subst h <;> rfl
    · have hc' : isType c = false := by simpa using hc
      simp [hc'] at h; obtain ⟨rfl, rfl⟩ := h
      have hN' : c ≠ 78 := by simpa using hN
      simp only [isType, Bool.or_eq_false_iff, decide_eq_false_iff_not] at hc'
      unfold parseType; split <;> first | omega | rfl | simp_all

theorem typeOfChar_isSome (c : Nat) (h : isType c = true) : ∃ ft, typeOfChar c = some ft ∧ ft ≠ .number true := by
  rcases isType_cases c h with h | h | h | h | h | h | h | h | h | h | h | h | h | h | h <;> subst h <;>
    exact ⟨_, rfl, by simp⟩


end PV.C18
