import PV.C18.Model
import PV.C18.Spec
/-
  C18 — helper lemmas for `PV/C18/Thm.lean` (grouping arithmetic, padding, the stage-by-stage
  comparison of the two spec parsers, and the per-type comparison of `format_int` /
  `format_string` with the reference).
-/
namespace PV.C18
open Spec

/-- the positions of `insert_separator` as a running subtraction -/
def loopSub (k : Int) (sep : Nat) : Nat → Int → List Nat → Option (List Nat)
  | 0, _, s => some s
  | n + 1, pos, s =>
    match insertAt s pos sep with
    | none => none
    | some s' => loopSub k sep n (pos - k) s'

theorem loop_eq_sub (len k : Int) (sep : Nat) (n : Nat) (i : Int) (s : List Nat) :
    insertSepLoop len k sep n i s = loopSub k sep n (len - k * i) s := by
  induction n generalizing i s with
  | zero => simp [insertSepLoop, loopSub]
  | succ n ih =>
    simp only [insertSepLoop, loopSub]
    cases h : insertAt s (len - k * i) sep with
    | none => rfl
    | some s' =>
      simp only
      rw [ih]
      congr 1
      rw [Int.mul_add, Int.mul_one]; omega

theorem insertAt_append (X Y : List Nat) (pos : Int) (sep : Nat) (h : pos ≤ X.length) :
    insertAt (X ++ Y) pos sep = (insertAt X pos sep).map (· ++ Y) := by
  unfold insertAt
  by_cases h0 : 0 ≤ pos
  · have h1 : pos.toNat ≤ X.length := by omega
    have h2 : pos.toNat ≤ (X ++ Y).length := by simp; omega
    simp [h0, h1, List.take_append_of_le_length h1, List.drop_append_of_le_length h1]
    omega
  · simp [h0]

theorem insertAt_length {s s' : List Nat} {pos : Int} {sep : Nat} (h : insertAt s pos sep = some s') :
    s'.length = s.length + 1 := by
  unfold insertAt at h
  split at h
  · cases h; simp; omega
  · cases h

theorem loopSub_append (k : Int) (hk : 0 ≤ k) (sep : Nat) (n : Nat) (pos : Int) (X Y : List Nat)
    (h : pos ≤ X.length) :
    loopSub k sep n pos (X ++ Y) = (loopSub k sep n pos X).map (· ++ Y) := by
  induction n generalizing pos X with
  | zero => simp [loopSub]
  | succ n ih =>
    simp only [loopSub]
    rw [insertAt_append X Y pos sep h]
    cases hx : insertAt X pos sep with
    | none => simp
    | some X' =>
      simp only [Option.map_some]
      have := insertAt_length hx
      exact ih (pos - k) X' (by omega)

theorem groupRev_short (k sep : Nat) (X Y : List Nat) (i : Nat) (h : i + X.length ≤ k) :
    groupRev k sep i (X ++ Y) = X ++ groupRev k sep (i + X.length) Y := by
  induction X generalizing i with
  | nil => simp
  | cons d X ih =>
    have hlen : i + (X.length + 1) ≤ k := by simpa using h
    have : i ≠ k := by omega
    simp only [List.cons_append, groupRev, this, if_false, List.length_cons]
    rw [ih (i + 1) (by omega)]
    have e : i + 1 + X.length = i + (X.length + 1) := by omega
    rw [e]

theorem groupRight_short (k sep : Nat) (s : List Nat) (h : s.length ≤ k) : groupRight k sep s = s := by
  unfold groupRight
  have := groupRev_short k sep s.reverse [] 0 (by simpa using h)
  simp only [List.append_nil] at this
  rw [this]; simp [groupRev]

theorem groupRight_append (k sep : Nat) (hk : 1 ≤ k) (A B : List Nat) (hA : A ≠ []) (hB : B.length = k) :
    groupRight k sep (A ++ B) = groupRight k sep A ++ sep :: B := by
  unfold groupRight
  rw [List.reverse_append, groupRev_short k sep B.reverse A.reverse 0 (by simp [hB])]
  simp only [Nat.zero_add, List.length_reverse, hB]
  cases hr : A.reverse with
  | nil => simp at hr; exact absurd hr hA
  | cons d Y =>
    have h0 : (0 : Nat) ≠ k := by omega
    simp [groupRev, h0]

/-- the number of separators, given abstractly by its recursion (`(L - 1) / k`) -/
structure IsCnt (k : Nat) (cnt : Nat → Nat) : Prop where
  small : ∀ L, L ≤ k → cnt L = 0
  step : ∀ L, k < L → cnt L = cnt (L - k) + 1

theorem loopSub_groupRight (k : Nat) (hk : 1 ≤ k) (cnt : Nat → Nat) (hc : IsCnt k cnt) (sep : Nat) :
    ∀ (L : Nat) (s : List Nat), s.length = L →
      loopSub k sep (cnt L) ((L : Int) - k) s = some (groupRight k sep s) := by
  intro L
  induction L using Nat.strongRecOn with
  | _ L ih =>
    intro s hs
    by_cases hL : L ≤ k
    · rw [hc.small L hL, groupRight_short k sep s (by omega)]; rfl
    · have hL : k < L := by omega
      rw [hc.step L hL]
      have hsplit : s = s.take (L - k) ++ s.drop (L - k) := (List.take_append_drop _ _).symm
      have hA : (s.take (L - k)).length = L - k := by simp; omega
      have hB : (s.drop (L - k)).length = k := by simp; omega
      have hAne : s.take (L - k) ≠ [] := by
        intro h; rw [h] at hA; simp at hA; omega
      have hins : insertAt s ((L : Int) - k) sep = some (s.take (L - k) ++ sep :: s.drop (L - k)) := by
        unfold insertAt
        have : ((L : Int) - k).toNat = L - k := by omega
        rw [this]
        have h1 : (0 : Int) ≤ (L : Int) - k := by omega
        have h2 : L - k ≤ s.length := by omega
        simp [h2]
        omega
      simp only [loopSub, hins]
      rw [loopSub_append k (by omega) sep _ _ _ _ (by rw [hA]; omega)]
      have := ih (L - k) (by omega) (s.take (L - k)) hA
      have hcast : ((L - k : Nat) : Int) - k = (L : Int) - k - k := by omega
      rw [hcast] at this
      rw [this]
      simp only [Option.map_some]
      congr 1
      conv => rhs; rw [hsplit]
      exact (groupRight_append k sep hk _ _ hAne hB).symm

theorem groupRight_length (k : Nat) (hk : 1 ≤ k) (cnt : Nat → Nat) (hc : IsCnt k cnt) (sep : Nat) :
    ∀ (L : Nat) (s : List Nat), s.length = L → (groupRight k sep s).length = L + cnt L := by
  intro L
  induction L using Nat.strongRecOn with
  | _ L ih =>
    intro s hs
    by_cases hL : L ≤ k
    · rw [hc.small L hL, groupRight_short k sep s (by omega)]; omega
    · have hL : k < L := by omega
      have hsplit : s = s.take (L - k) ++ s.drop (L - k) := (List.take_append_drop _ _).symm
      have hA : (s.take (L - k)).length = L - k := by simp; omega
      have hB : (s.drop (L - k)).length = k := by simp; omega
      have hAne : s.take (L - k) ≠ [] := by
        intro h; rw [h] at hA; simp at hA; omega
      rw [hsplit, groupRight_append k sep hk _ _ hAne hB, hc.step L hL]
      simp only [List.length_append, List.length_cons]
      rw [ih (L - k) (by omega) _ hA, hB]; omega

theorem isCnt3 : IsCnt 3 (fun L => (L - 1) / 3) :=
  ⟨by intro L h; show (L - 1) / 3 = 0; omega, by intro L h; show (L - 1) / 3 = (L - 3 - 1) / 3 + 1; omega⟩
theorem isCnt4 : IsCnt 4 (fun L => (L - 1) / 4) :=
  ⟨by intro L h; show (L - 1) / 4 = 0; omega, by intro L h; show (L - 1) / 4 = (L - 4 - 1) / 4 + 1; omega⟩

theorem replicate_snoc_append (z a : Nat) (l : List Nat) :
    List.replicate z a ++ a :: l = List.replicate (z + 1) a ++ l := by
  induction z with
  | zero => rfl
  | succ z ih => simp only [List.replicate_succ, List.cons_append, ih]

theorem padSearch_spec (k : Nat) (hk : 1 ≤ k) (cnt : Nat → Nat) (hc : IsCnt k cnt) (sep w : Nat) :
    ∀ (z fuel : Nat) (ds : List Nat), z ≤ fuel →
      w ≤ ds.length + z + cnt (ds.length + z) →
      (∀ j, j < z → ds.length + j + cnt (ds.length + j) < w) →
      padSearch k sep w fuel ds = groupRight k sep (List.replicate z 48 ++ ds) := by
  intro z
  induction z with
  | zero =>
    intro fuel ds _ hw _
    have hl := groupRight_length k hk cnt hc sep ds.length ds rfl
    cases fuel with
    | zero => simp [padSearch]
    | succ f =>
      simp only [padSearch, List.replicate_zero, List.nil_append]
      rw [if_pos (by rw [hl]; simpa using hw)]
  | succ z ih =>
    intro fuel ds hf hw hlt
    have hl := groupRight_length k hk cnt hc sep ds.length ds rfl
    cases fuel with
    | zero => omega
    | succ f =>
      simp only [padSearch]
      have h0 := hlt 0 (by omega)
      rw [if_neg (by rw [hl]; simpa using h0)]
      rw [ih f (48 :: ds) (by omega)
        (by simp only [List.length_cons]; have e : ds.length + 1 + z = ds.length + (z + 1) := by omega
            rw [e]; exact hw)
        (by intro j hj; simp only [List.length_cons]
            have e : ds.length + 1 + j = ds.length + (j + 1) := by omega
            rw [e]; exact hlt (j + 1) (by omega))]
      rw [replicate_snoc_append]

/-- `insert_separator` with the count the Rust code passes equals plain grouping -/
theorem insertSeparator_groupRight (k : Nat) (hk : 1 ≤ k) (cnt : Nat → Nat) (hc : IsCnt k cnt)
    (sep : Nat) (s : List Nat) (c : Int) (h : c.toNat = cnt s.length) :
    insertSeparator s k sep c = some (groupRight k sep s) := by
  unfold insertSeparator
  rw [loop_eq_sub, h, Int.mul_one]
  exact loopSub_groupRight k hk cnt hc sep s.length s rfl

/-! ### the `i32` arithmetic of `separate_integer` (group sizes 3 and 4) -/

theorem arith3_pad (w n z : Nat) (disp off : Int) (hn : 1 ≤ n)
    (hdisp : (disp = w ∧ (n : Int) ≤ w) ∨ (disp = n ∧ (w : Int) ≤ n))
    (hoff : (disp % 4 = 0 ∧ off = 1) ∨ (disp % 4 ≠ 0 ∧ off = 0))
    (hz : disp + off - n - (disp + off) / 4 = z) (hpos : disp + off - n > 0 ∧ (z : Int) > 0) :
    ((disp + off) / 4).toNat = (z + n - 1) / 3 ∧ z ≤ w ∧ w ≤ n + z + (n + z - 1) / 3 ∧
      ∀ j, j < z → n + j + (n + j - 1) / 3 < w := by
  obtain ⟨q, r, h1, h2, h3, h4⟩ : ∃ q r : Int, disp + off = 4 * q + r ∧ 1 ≤ r ∧ r ≤ 3 ∧ (disp + off) / 4 = q :=
    ⟨(disp + off) / 4, (disp + off) % 4, by omega, by omega, by omega, rfl⟩
  rw [h4] at hz ⊢
  have h5 : (n : Int) + z = 3 * q + r := by omega
  have h6 : ((n + z - 1) / 3 : Nat) = q := by omega
  have h7 : (z + n - 1) / 3 = (n + z - 1) / 3 := by rw [Nat.add_comm]
  refine ⟨by omega, by omega, by omega, ?_⟩
  intro j hj
  have hw : (w : Int) = disp := by omega
  by_cases hr : r = 1
  · have h9 : (((n + j - 1) / 3 : Nat) : Int) ≤ q - 1 := by omega
    omega
  · have h9 : (((n + j - 1) / 3 : Nat) : Int) ≤ q := by omega
    omega

theorem arith3_nopad (w n : Nat) (disp off diff : Int) (hn : 1 ≤ n)
    (hdisp : (disp = w ∧ (n : Int) ≤ w) ∨ (disp = n ∧ (w : Int) ≤ n))
    (hoff : (disp % 4 = 0 ∧ off = 1) ∨ (disp % 4 ≠ 0 ∧ off = 0))
    (hz : disp + off - n - (disp + off) / 4 = diff) (hneg : ¬ (disp + off - n > 0 ∧ diff > 0)) :
    (((n : Int) - 1) / 3).toNat = (n - 1) / 3 ∧ w ≤ n + 0 + (n + 0 - 1) / 3 := by
  obtain ⟨q, r, h1, h2, h3, h4⟩ : ∃ q r : Int, disp + off = 4 * q + r ∧ 1 ≤ r ∧ r ≤ 3 ∧ (disp + off) / 4 = q :=
    ⟨(disp + off) / 4, (disp + off) % 4, by omega, by omega, by omega, rfl⟩
  rw [h4] at hz
  refine ⟨by omega, ?_⟩
  by_cases hp : disp + off - n > 0
  · have h5 : (n : Int) ≥ 3 * q + r := by omega
    have h6 : (((n + 0 - 1) / 3 : Nat) : Int) ≥ q := by omega
    omega
  · omega

theorem arith4_pad (w n z : Nat) (disp off : Int) (hn : 1 ≤ n)
    (hdisp : (disp = w ∧ (n : Int) ≤ w) ∨ (disp = n ∧ (w : Int) ≤ n))
    (hoff : (disp % 5 = 0 ∧ off = 1) ∨ (disp % 5 ≠ 0 ∧ off = 0))
    (hz : disp + off - n - (disp + off) / 5 = z) (hpos : disp + off - n > 0 ∧ (z : Int) > 0) :
    ((disp + off) / 5).toNat = (z + n - 1) / 4 ∧ z ≤ w ∧ w ≤ n + z + (n + z - 1) / 4 ∧
      ∀ j, j < z → n + j + (n + j - 1) / 4 < w := by
  obtain ⟨q, r, h1, h2, h3, h4⟩ : ∃ q r : Int, disp + off = 5 * q + r ∧ 1 ≤ r ∧ r ≤ 4 ∧ (disp + off) / 5 = q :=
    ⟨(disp + off) / 5, (disp + off) % 5, by omega, by omega, by omega, rfl⟩
  rw [h4] at hz ⊢
  have h5 : (n : Int) + z = 4 * q + r := by omega
  have h6 : ((n + z - 1) / 4 : Nat) = q := by omega
  have h7 : (z + n - 1) / 4 = (n + z - 1) / 4 := by rw [Nat.add_comm]
  refine ⟨by omega, by omega, by omega, ?_⟩
  intro j hj
  have hw : (w : Int) = disp := by omega
  by_cases hr : r = 1
  · have h9 : (((n + j - 1) / 4 : Nat) : Int) ≤ q - 1 := by omega
    omega
  · have h9 : (((n + j - 1) / 4 : Nat) : Int) ≤ q := by omega
    omega

theorem arith4_nopad (w n : Nat) (disp off diff : Int) (hn : 1 ≤ n)
    (hdisp : (disp = w ∧ (n : Int) ≤ w) ∨ (disp = n ∧ (w : Int) ≤ n))
    (hoff : (disp % 5 = 0 ∧ off = 1) ∨ (disp % 5 ≠ 0 ∧ off = 0))
    (hz : disp + off - n - (disp + off) / 5 = diff) (hneg : ¬ (disp + off - n > 0 ∧ diff > 0)) :
    (((n : Int) - 1) / 4).toNat = (n - 1) / 4 ∧ w ≤ n + 0 + (n + 0 - 1) / 4 := by
  obtain ⟨q, r, h1, h2, h3, h4⟩ : ∃ q r : Int, disp + off = 5 * q + r ∧ 1 ≤ r ∧ r ≤ 4 ∧ (disp + off) / 5 = q :=
    ⟨(disp + off) / 5, (disp + off) % 5, by omega, by omega, by omega, rfl⟩
  rw [h4] at hz
  refine ⟨by omega, ?_⟩
  by_cases hp : disp + off - n > 0
  · have h5 : (n : Int) ≥ 4 * q + r := by omega
    have h6 : (((n + 0 - 1) / 4 : Nat) : Int) ≥ q := by omega
    omega
  · omega

theorem insertSeparator_groupRight3 (sep : Nat) (s : List Nat) (c : Int) (h : c.toNat = (s.length - 1) / 3) :
    insertSeparator s 3 sep c = some (groupRight 3 sep s) :=
  insertSeparator_groupRight 3 (by omega) _ isCnt3 sep s c h

theorem insertSeparator_groupRight4 (sep : Nat) (s : List Nat) (c : Int) (h : c.toNat = (s.length - 1) / 4) :
    insertSeparator s 4 sep c = some (groupRight 4 sep s) :=
  insertSeparator_groupRight 4 (by omega) _ isCnt4 sep s c h

theorem length_pos_of_ne_nil {ds : List Nat} (hn : ds ≠ []) : 1 ≤ ds.length := by
  cases ds with
  | nil => exact absurd rfl hn
  | cons a l => simp

theorem max_cases (w n : Nat) (disp : Int) (hd : disp = max (w : Int) n) :
    (disp = w ∧ (n : Int) ≤ w) ∨ (disp = n ∧ (w : Int) ≤ n) := by
  rw [Int.max_def] at hd; split at hd <;> omega

theorem separateInteger_spec3 (sep w : Nat) (ds : List Nat) (hn : ds ≠ []) (disp : Int)
    (hd : disp = max (w : Int) ds.length) :
    separateInteger ds 3 sep disp = some (pyGroupPad 3 sep w ds) := by
  have hn' := length_pos_of_ne_nil hn
  have hdisp := max_cases w ds.length disp hd
  unfold separateInteger pyGroupPad
  simp only []
  generalize hoff : (if disp % (3 + 1) = 0 then (1 : Int) else 0) = off
  have hoff' : (disp % 4 = 0 ∧ off = 1) ∨ (disp % 4 ≠ 0 ∧ off = 0) := by
    split at hoff <;> omega
  simp only [Int.reduceAdd]
  generalize hdiff : disp + off - ↑ds.length - (disp + off) / 4 = diff
  split
  · rename_i hc
    obtain ⟨z, hz⟩ : ∃ z : Nat, diff = z := ⟨diff.toNat, by omega⟩
    subst hz
    simp only [Int.toNat_natCast]
    obtain ⟨a1, a2, a3, a4⟩ := arith3_pad w ds.length z disp off hn' hdisp hoff' hdiff hc
    rw [insertSeparator_groupRight3 sep _ _ (by
      simp only [List.length_append, List.length_replicate]; exact a1)]
    rw [padSearch_spec 3 (by omega) _ isCnt3 sep w z w ds a2 a3 a4]
  · rename_i hc
    obtain ⟨a1, a2⟩ := arith3_nopad w ds.length disp off diff hn' hdisp hoff' hdiff hc
    rw [insertSeparator_groupRight3 sep _ _ a1]
    rw [padSearch_spec 3 (by omega) _ isCnt3 sep w 0 w ds (by omega) a2 (by intro j hj; omega)]
    simp

theorem separateInteger_spec4 (sep w : Nat) (ds : List Nat) (hn : ds ≠ []) (disp : Int)
    (hd : disp = max (w : Int) ds.length) :
    separateInteger ds 4 sep disp = some (pyGroupPad 4 sep w ds) := by
  have hn' := length_pos_of_ne_nil hn
  have hdisp := max_cases w ds.length disp hd
  unfold separateInteger pyGroupPad
  simp only []
  generalize hoff : (if disp % (4 + 1) = 0 then (1 : Int) else 0) = off
  have hoff' : (disp % 5 = 0 ∧ off = 1) ∨ (disp % 5 ≠ 0 ∧ off = 0) := by
    split at hoff <;> omega
  simp only [Int.reduceAdd]
  generalize hdiff : disp + off - ↑ds.length - (disp + off) / 5 = diff
  split
  · rename_i hc
    obtain ⟨z, hz⟩ : ∃ z : Nat, diff = z := ⟨diff.toNat, by omega⟩
    subst hz
    simp only [Int.toNat_natCast]
    obtain ⟨a1, a2, a3, a4⟩ := arith4_pad w ds.length z disp off hn' hdisp hoff' hdiff hc
    rw [insertSeparator_groupRight4 sep _ _ (by
      simp only [List.length_append, List.length_replicate]; exact a1)]
    rw [padSearch_spec 4 (by omega) _ isCnt4 sep w z w ds a2 a3 a4]
  · rename_i hc
    obtain ⟨a1, a2⟩ := arith4_nopad w ds.length disp off diff hn' hdisp hoff' hdiff hc
    rw [insertSeparator_groupRight4 sep _ _ a1]
    rw [padSearch_spec 4 (by omega) _ isCnt4 sep w 0 w ds (by omega) a2 (by intro j hj; omega)]
    simp


/-! ### fill / align -/

def alignChar : Align → Nat
  | .left => 60 | .right => 62 | .afterSign => 61 | .center => 94

theorem wrapI32_small (n : Nat) (h : n < 2 ^ 31) : wrapI32 n = n := by
  unfold wrapI32
  have : n % 2 ^ 32 = n := Nat.mod_eq_of_lt (by omega)
  simp only [this]
  rw [if_pos h]

theorem chkI32_ok (i : Int) (h1 : -(2 ^ 31 : Int) ≤ i) (h2 : i < 2 ^ 31) : chkI32 i = some i := by
  unfold chkI32; rw [if_pos ⟨h1, h2⟩]

theorem formatSignAndAlign_eq (spec : FormatSpec) (mag sign : List Nat) (n : Nat) (dflt : Align)
    (hw : ∀ w, spec.width = some w → w < 2 ^ 31) (hm : n + sign.length < 2 ^ 31)
    (hn : n = mag.length) :
    formatSignAndAlign spec mag n sign dflt =
      some (pyPad (spec.fill.getD 32) (alignChar (spec.align.getD dflt)) (spec.width.getD 0) sign mag) := by
  subst hn
  unfold formatSignAndAlign pyPad computeFillString
  cases hwd : spec.width with
  | none =>
    simp only [Option.getD_none, Nat.zero_sub]
    cases spec.align.getD dflt <;> simp [alignChar]
  | some w =>
    have hw' := hw w hwd
    simp only [Option.getD_some]
    rw [wrapI32_small w hw', wrapI32_small mag.length (by omega), wrapI32_small sign.length (by omega)]
    rw [chkI32_ok _ (by omega) (by omega)]
    simp only []
    rw [chkI32_ok _ (by omega) (by omega)]
    simp only []
    have e1 : (max 0 ((w : Int) - mag.length - sign.length)).toNat = w - (sign.length + mag.length) := by omega
    have e2 : (max 0 ((w : Int) - mag.length - sign.length) / 2).toNat = (w - (sign.length + mag.length)) / 2 := by omega
    have e3 : (max 0 ((w : Int) - mag.length - sign.length) - max 0 ((w : Int) - mag.length - sign.length) / 2).toNat
        = (w - (sign.length + mag.length)) - (w - (sign.length + mag.length)) / 2 := by omega
    cases spec.align.getD dflt <;> simp [alignChar, e1, e2, e3]


/-! ### the spec parser, stage by stage -/

def signOfChar : Nat → Option Sign
  | 43 => some .plus | 45 => some .minus | 32 => some .minusOrSpace | _ => none

def groupingOfChar : Nat → Option Grouping
  | 44 => some .comma | 95 => some .underscore | _ => none

/-- the presentation types of the reference grammar -/
def typeOfChar : Nat → Option FType
  | 115 => some .string | 98 => some .binary | 99 => some .character | 100 => some .decimal
  | 111 => some .octal | 110 => some (.number false)
  | 120 => some (.hex false) | 88 => some (.hex true)
  | 101 => some (.exponent false) | 69 => some (.exponent true)
  | 102 => some (.fixed false) | 70 => some (.fixed true)
  | 103 => some (.general false) | 71 => some (.general true)
  | 37 => some .percentage | _ => none

theorem parseAlign_eq (t : List Nat) :
    parseAlign t = ((pyOpt isAlign t).1.bind Align.fromChar, (pyOpt isAlign t).2) := by
  cases t with
  | nil => rfl
  | cons c r =>
    simp only [parseAlign, pyOpt, isAlign]
    by_cases h1 : c = 60
    · subst h1; rfl
    by_cases h2 : c = 62
    · subst h2; rfl
    by_cases h3 : c = 61
    · subst h3; rfl
    by_cases h4 : c = 94
    · subst h4; rfl
    have : Align.fromChar c = none := by
      unfold Align.fromChar; split <;> first | rfl | omega
    simp [this, h1, h2, h3, h4]


theorem alignFromChar_none (c : Nat) (h : isAlign c = false) : Align.fromChar c = none := by
  simp only [isAlign, Bool.or_eq_false_iff, decide_eq_false_iff_not] at h
  unfold Align.fromChar; split <;> first | rfl | omega

theorem alignFromChar_some (c : Nat) (h : isAlign c = true) : ∃ a, Align.fromChar c = some a := by
  simp only [isAlign, Bool.or_eq_true, decide_eq_true_eq] at h
  rcases h with ((h | h) | h) | h <;> subst h <;> exact ⟨_, rfl⟩

theorem parseAlign_cons_some (c : Nat) (r : List Nat) (a : Align) (h : Align.fromChar c = some a) :
    parseAlign (c :: r) = (some a, r) := by simp [parseAlign, h]

theorem parseAlign_cons_none (c : Nat) (r : List Nat) (h : Align.fromChar c = none) :
    parseAlign (c :: r) = (none, c :: r) := by simp [parseAlign, h]

theorem parseFillAndAlign_eq (s : List Nat) (fill align : Option Nat) (t : List Nat)
    (h : pyFillAlign s = (fill, align, t)) :
    parseFillAndAlign s = (fill, align.bind Align.fromChar, t) := by
  match s, h with
  | [], h => simp [pyFillAlign] at h; obtain ⟨rfl, rfl, rfl⟩ := h; rfl
  | [a], h =>
    simp only [pyFillAlign] at h
    by_cases ha : isAlign a = true
    · obtain ⟨al, hal⟩ := alignFromChar_some a ha
      simp [ha] at h; obtain ⟨rfl, rfl, rfl⟩ := h
      simp [parseFillAndAlign, parseAlign_cons_some a [] al hal, hal]
    · have ha' : isAlign a = false := by simpa using ha
      simp [ha'] at h; obtain ⟨rfl, rfl, rfl⟩ := h
      simp [parseFillAndAlign, parseAlign_cons_none a [] (alignFromChar_none a ha')]
  | f :: a :: rest, h =>
    simp only [pyFillAlign] at h
    by_cases ha : isAlign a = true
    · obtain ⟨al, hal⟩ := alignFromChar_some a ha
      simp [ha] at h; obtain ⟨rfl, rfl, rfl⟩ := h
      simp [parseFillAndAlign, parseAlign_cons_some a rest al hal, hal]
    · have ha' : isAlign a = false := by simpa using ha
      have hna := alignFromChar_none a ha'
      by_cases hf : isAlign f = true
      · obtain ⟨fl, hfl⟩ := alignFromChar_some f hf
        simp [ha', hf] at h; obtain ⟨rfl, rfl, rfl⟩ := h
        simp [parseFillAndAlign, parseAlign_cons_none a rest hna, parseAlign_cons_some f (a :: rest) fl hfl, hfl]
      · have hf' : isAlign f = false := by simpa using hf
        simp [ha', hf'] at h; obtain ⟨rfl, rfl, rfl⟩ := h
        simp [parseFillAndAlign, parseAlign_cons_none a rest hna,
          parseAlign_cons_none f (a :: rest) (alignFromChar_none f hf')]

theorem parseSign_eq (t : List Nat) (sg : Option Nat) (r : List Nat) (h : pyOpt isSign t = (sg, r)) :
    parseSign t = (sg.bind signOfChar, r) := by
  cases t with
  | nil => simp [pyOpt] at h; obtain ⟨rfl, rfl⟩ := h; rfl
  | cons c t =>
    simp only [pyOpt, isSign] at h
    by_cases h1 : c = 43
    · subst h1; simp at h; obtain ⟨rfl, rfl⟩ := h; rfl
    by_cases h2 : c = 45
    · subst h2; simp at h; obtain ⟨rfl, rfl⟩ := h; rfl
    by_cases h3 : c = 32
    · subst h3; simp at h; obtain ⟨rfl, rfl⟩ := h; rfl
    simp [h1, h2, h3] at h; obtain ⟨rfl, rfl⟩ := h
    unfold parseSign; split <;> first | omega | rfl | simp_all

theorem parseGrouping_eq (t : List Nat) (g : Option Nat) (r : List Nat) (h : pyOpt isGrouping t = (g, r)) :
    parseGrouping t = (g.bind groupingOfChar, r) := by
  cases t with
  | nil => simp [pyOpt] at h; obtain ⟨rfl, rfl⟩ := h; rfl
  | cons c t =>
    simp only [pyOpt, isGrouping] at h
    by_cases h1 : c = 44
    · subst h1; simp at h; obtain ⟨rfl, rfl⟩ := h; rfl
    by_cases h2 : c = 95
    · subst h2; simp at h; obtain ⟨rfl, rfl⟩ := h; rfl
    simp [h1, h2] at h; obtain ⟨rfl, rfl⟩ := h
    unfold parseGrouping; split <;> first | omega | rfl | simp_all

theorem parseAlternateForm_eq (t : List Nat) : parseAlternateForm t = pyFlag 35 t := by
  cases t with
  | nil => rfl
  | cons c t =>
    by_cases h : c = 35
    · subst h; rfl
    · simp only [pyFlag, h, if_false]; unfold parseAlternateForm; split <;> first | omega | rfl | simp_all

theorem parseZero_eq (t : List Nat) : parseZero t = pyFlag 48 t := by
  cases t with
  | nil => rfl
  | cons c t =>
    by_cases h : c = 48
    · subst h; rfl
    · simp only [pyFlag, h, if_false]; unfold parseZero; split <;> first | omega | rfl | simp_all

theorem spanDigits_eq (t : List Nat) : spanDigits t = (t.takeWhile Spec.isDigit, t.dropWhile Spec.isDigit) := by
  induction t with
  | nil => rfl
  | cons c t ih =>
    have e : PV.C18.isDigit c = Spec.isDigit c := rfl
    simp only [spanDigits, List.takeWhile_cons, List.dropWhile_cons, e]
    cases Spec.isDigit c <;> simp [ih]

theorem digitsVal_eq (ds : List Nat) : digitsVal ds = decVal ds := rfl

theorem parseNumber_eq (t : List Nat) (w : Option Nat) (r : List Nat) (h : pyNumber t = (w, r)) :
    parseNumber t = match w with
      | none => .ok (none, r)
      | some v => if v ≤ usizeMax then .ok (some v, r) else .error .decimalDigitsTooMany := by
  unfold parseNumber
  unfold pyNumber at h
  rw [spanDigits_eq]
  simp only [] at h ⊢
  split at h
  · rename_i he; obtain ⟨rfl, rfl⟩ := h; simp [he]
  · rename_i he; obtain ⟨rfl, rfl⟩ := h; simp only [he, digitsVal_eq]; rfl


theorem pyPrecision_cons46 (rest : List Nat) :
    pyPrecision (46 :: rest) = match pyNumber rest with
      | (some n, r) => some (some n, r)
      | (none, _) => none := rfl

theorem pyPrecision_other (t : List Nat) (h : t.head? ≠ some 46) : pyPrecision t = some (none, t) := by
  unfold pyPrecision
  split
  · simp at h
  · rfl

theorem parsePrecision_other (t : List Nat) (h : t.head? ≠ some 46) : parsePrecision t = .ok (none, t) := by
  unfold parsePrecision
  split
  · simp at h
  · rfl

theorem parsePrecision_eq (t : List Nat) (pr : Option Nat) (r : List Nat)
    (h : pyPrecision t = some (pr, r)) :
    parsePrecision t = match pr with
      | none => .ok (none, r)
      | some n => if n ≤ usizeMax then (if n > isizeMax then .error .precisionTooBig else .ok (some n, r))
                  else .error .decimalDigitsTooMany := by
  by_cases h46 : t.head? = some 46
  · obtain ⟨rest, rfl⟩ : ∃ rest, t = 46 :: rest := by
      cases t with
      | nil => simp at h46
      | cons c t => simp at h46; exact ⟨t, by rw [h46]⟩
    rw [pyPrecision_cons46] at h
    rcases hn : pyNumber rest with ⟨w, r'⟩
    rw [hn] at h
    cases w with
    | none => simp at h
    | some n =>
      simp only [Option.some.injEq, Prod.mk.injEq] at h
      obtain ⟨rfl, rfl⟩ := h
      simp only [parsePrecision, parseNumber_eq rest (some n) r' hn]
      by_cases hu : n ≤ usizeMax
      · simp only [hu, if_true]
      · simp only [hu, if_false]
  · rw [pyPrecision_other t h46] at h
    simp only [Option.some.injEq, Prod.mk.injEq] at h
    obtain ⟨rfl, rfl⟩ := h
    exact parsePrecision_other t h46

theorem parsePrecision_of_none (t : List Nat) (h : pyPrecision t = none) :
    ∃ r, t = 46 :: r ∧ parsePrecision t = .ok (none, t) := by
  by_cases h46 : t.head? = some 46
  · obtain ⟨rest, rfl⟩ : ∃ rest, t = 46 :: rest := by
      cases t with
      | nil => simp at h46
      | cons c t => simp at h46; exact ⟨t, by rw [h46]⟩
    rw [pyPrecision_cons46] at h
    rcases hn : pyNumber rest with ⟨w, r'⟩
    rw [hn] at h
    cases w with
    | some n => simp at h
    | none =>
      refine ⟨rest, rfl, ?_⟩
      simp only [parsePrecision, parseNumber_eq rest none r' hn]
  · rw [pyPrecision_other t h46] at h; simp at h

theorem isType_cases (c : Nat) (h : isType c = true) :
    c = 98 ∨ c = 99 ∨ c = 100 ∨ c = 101 ∨ c = 69 ∨ c = 102 ∨ c = 70 ∨ c = 103 ∨ c = 71 ∨
    c = 110 ∨ c = 111 ∨ c = 115 ∨ c = 120 ∨ c = 88 ∨ c = 37 := by
  simp only [isType, Bool.or_eq_true, decide_eq_true_eq] at h
  omega

theorem parseType_eq (t : List Nat) (ty : Option Nat) (r : List Nat) (h : pyOpt isType t = (ty, r))
    (hN : t.head? ≠ some 78) : parseType t = (ty.bind typeOfChar, r) := by
  cases t with
  | nil => simp [pyOpt] at h; obtain ⟨rfl, rfl⟩ := h; rfl
  | cons c t =>
    simp only [pyOpt] at h
    by_cases hc : isType c = true
    · simp [hc] at h; obtain ⟨rfl, rfl⟩ := h
      rcases isType_cases c hc with h | h | h | h | h | h | h | h | h | h | h | h | h | h | h <;> subst h <;> rfl
    · have hc' : isType c = false := by simpa using hc
      simp [hc'] at h; obtain ⟨rfl, rfl⟩ := h
      have hN' : c ≠ 78 := by simpa using hN
      simp only [isType, Bool.or_eq_false_iff, decide_eq_false_iff_not] at hc'
      unfold parseType; split <;> first | omega | rfl | simp_all

theorem typeOfChar_isSome (c : Nat) (h : isType c = true) : ∃ ft, typeOfChar c = some ft ∧ ft ≠ .number true := by
  rcases isType_cases c h with h | h | h | h | h | h | h | h | h | h | h | h | h | h | h <;> subst h <;>
    exact ⟨_, rfl, by simp⟩


/-! ### the whole parser -/

/-- the Rust `FormatSpec` that a parsed reference spec denotes (the `0` flag becomes the fill `0`; the
    alignment stays as written — what the flag implies is decided per value type, `numberAlign`) -/
def normOf (p : PySpec) : FormatSpec :=
  { conversion := none
    fill := match p.fill with
      | some f => some f
      | none => if p.zero then some 48 else none
    align := p.align.bind Align.fromChar
    sign := p.sign.bind signOfChar
    alt := p.alt
    width := p.width
    grouping := p.grouping.bind groupingOfChar
    precision := p.precision
    ftype := p.type.bind typeOfChar }

/-- the `i32` width check of `FormatSpec::parse` passes -/
theorem widthCheck_false (width : Option Nat) (h : ∀ w, width = some w → w ≤ i32Max) :
    widthTooBig width = false := by
  cases width with
  | none => rfl
  | some w => have := h w rfl; simp [widthTooBig]; omega

theorem pyFlag_false {c : Nat} {t r : List Nat} (h : pyFlag c t = (false, r)) : r = t := by
  cases t with
  | nil => simp [pyFlag] at h; exact h
  | cons d t =>
    simp only [pyFlag] at h
    split at h
    · simp at h
    · simp at h; exact h.symm

theorem parse_spec_complete (s : List Nat) (p : PySpec) (h : pyParseSpec s = some p)
    (hz : p.z = false)
    (hw : ∀ w, p.width = some w → w ≤ i32Max) (hp : ∀ n, p.precision = some n → n ≤ isizeMax) :
    parseSpec s = .ok (normOf p) := by
  unfold pyParseSpec at h
  rcases hfa : pyFillAlign s with ⟨fill, align, t1⟩
  rcases hs : pyOpt isSign t1 with ⟨sign, t2⟩
  rcases hzf : pyFlag 122 t2 with ⟨z, t3⟩
  rcases ha : pyFlag 35 t3 with ⟨alt, t4⟩
  rcases h0 : pyFlag 48 t4 with ⟨zero, t5⟩
  rcases hn : pyNumber t5 with ⟨width, t6⟩
  rcases hg : pyOpt isGrouping t6 with ⟨grouping, t7⟩
  simp only [hfa, hs, hzf, ha, h0, hn, hg] at h
  cases hpr : pyPrecision t7 with
  | none => simp [hpr] at h
  | some pr =>
    rcases pr with ⟨precision, t8⟩
    rcases ht : pyOpt isType t8 with ⟨type, t9⟩
    simp only [hpr, ht] at h
    split at h
    · rename_i hemp
      simp only [Option.some.injEq] at h
      subst h
      simp only at hz hw hp
      subst hz
      have := pyFlag_false hzf
      subst this
      have ht9 : t9 = [] := by simpa using hemp
      subst ht9
      have hN : t8.head? ≠ some 78 := by
        intro h78
        cases t8 with
        | nil => simp at h78
        | cons c r =>
          simp at h78; subst h78
          simp [pyOpt, isType] at ht
      have hnum : parseNumber t5 = .ok (width, t6) := by
        rw [parseNumber_eq t5 width t6 hn]
        cases width with
        | none => rfl
        | some v =>
          have h1 := hw v rfl
          have h2 : v ≤ usizeMax := by unfold usizeMax; unfold i32Max at h1; omega
          simp [h2]
      have hprec : parsePrecision t7 = .ok (precision, t8) := by
        rw [parsePrecision_eq t7 precision t8 hpr]
        cases precision with
        | none => rfl
        | some n =>
          have h1 := hp n rfl
          have h2 : n ≤ usizeMax := by unfold usizeMax; unfold isizeMax at h1; omega
          have h3 : ¬ n > isizeMax := by omega
          simp [h2, h3]
      unfold parseSpec
      simp only [parseFillAndAlign_eq s fill align t1 hfa,
        parseSign_eq t1 sign t3 hs, parseAlternateForm_eq, ha, parseZero_eq, h0,
        hnum, widthCheck_false width hw, Bool.false_eq_true, if_false,
        parseGrouping_eq t6 grouping t7 hg, hprec, parseType_eq t8 type [] ht hN]
      simp only [List.isEmpty_nil, Bool.not_true, Bool.false_eq_true, if_false, normOf]
      cases fill <;> cases zero <;> simp
    · simp at h


theorem pyFlag_ne {c : Nat} {t : List Nat} (h : t.head? ≠ some c) : pyFlag c t = (false, t) := by
  cases t with
  | nil => rfl
  | cons d t =>
    have : d ≠ c := by simpa using h
    simp [pyFlag, this]

theorem pyOpt_not {cls : Nat → Bool} {c : Nat} {t : List Nat} (h : cls c = false) :
    pyOpt cls (c :: t) = (none, c :: t) := by simp [pyOpt, h]

/-- a `z` in flag position makes the Rust parser fail -/
theorem parseSpec_z (s : List Nat) (fill align : Option Nat) (t1 : List Nat)
    (hfa : pyFillAlign s = (fill, align, t1)) (sign : Option Nat) (r2 : List Nat)
    (hs : pyOpt isSign t1 = (sign, 122 :: r2)) :
    parseSpec s = .error .invalidFormatSpecifier := by
  have h1 : pyFlag 35 (122 :: r2) = (false, 122 :: r2) := pyFlag_ne (by simp)
  have h2 : pyFlag 48 (122 :: r2) = (false, 122 :: r2) := pyFlag_ne (by simp)
  have h3 : pyNumber (122 :: r2) = (none, 122 :: r2) := by simp [pyNumber, Spec.isDigit]
  have h4 : pyOpt isGrouping (122 :: r2) = (none, 122 :: r2) := pyOpt_not (by simp [isGrouping])
  have h5 : parsePrecision (122 :: r2) = .ok (none, 122 :: r2) := parsePrecision_other _ (by simp)
  have h6 : parseType (122 :: r2) = (none, 122 :: r2) := by
    rw [parseType_eq (122 :: r2) none (122 :: r2) (pyOpt_not (by simp [isType])) (by simp)]; rfl
  have hnum : parseNumber (122 :: r2) = .ok (none, 122 :: r2) := by
    rw [parseNumber_eq _ none _ h3]
  unfold parseSpec
  simp only [parseFillAndAlign_eq s fill align t1 hfa,
    parseSign_eq t1 sign _ hs, parseAlternateForm_eq, h1, parseZero_eq, h2,
    hnum, parseGrouping_eq _ none _ h4, h5, h6]
  simp [widthTooBig]

theorem parse_spec_sound (s : List Nat) (r : FormatSpec) (h : parseSpec s = .ok r)
    (hN : r.ftype ≠ some (.number true)) :
    ∃ p, pyParseSpec s = some p ∧ p.z = false ∧ normOf p = r ∧
      (∀ w, p.width = some w → w ≤ i32Max) ∧ (∀ n, p.precision = some n → n ≤ isizeMax) := by
  rcases hfa : pyFillAlign s with ⟨fill, align, t1⟩
  rcases hs : pyOpt isSign t1 with ⟨sign, t2⟩
  by_cases hz : t2.head? = some 122
  · obtain ⟨r2, rfl⟩ : ∃ r2, t2 = 122 :: r2 := by
      cases t2 with
      | nil => simp at hz
      | cons c t => simp at hz; exact ⟨t, by rw [hz]⟩
    rw [parseSpec_z s fill align t1 hfa sign r2 hs] at h
    cases h
  have hzf : pyFlag 122 t2 = (false, t2) := pyFlag_ne hz
  rcases ha : pyFlag 35 t2 with ⟨alt, t4⟩
  rcases h0 : pyFlag 48 t4 with ⟨zero, t5⟩
  rcases hn : pyNumber t5 with ⟨width, t6⟩
  rcases hg : pyOpt isGrouping t6 with ⟨grouping, t7⟩
  unfold parseSpec at h
  simp only [parseFillAndAlign_eq s fill align t1 hfa,
    parseSign_eq t1 sign t2 hs, parseAlternateForm_eq, ha, parseZero_eq, h0] at h
  have hnum := parseNumber_eq t5 width t6 hn
  have hwb : ∀ w, width = some w → w ≤ usizeMax := by
    intro w hw; subst hw
    simp only at hnum
    by_cases hb : w ≤ usizeMax
    · exact hb
    · simp [hnum, hb] at h
  have hnum' : parseNumber t5 = .ok (width, t6) := by
    rw [hnum]
    cases width with
    | none => rfl
    | some v => simp [hwb v rfl]
  simp only [hnum'] at h
  have hwi : ∀ w, width = some w → w ≤ i32Max := by
    intro w hw; subst hw
    by_cases hb : w ≤ i32Max
    · exact hb
    · have : w > i32Max := by omega
      simp [widthTooBig, this] at h
  simp only [widthCheck_false width hwi, Bool.false_eq_true, if_false,
    parseGrouping_eq t6 grouping t7 hg] at h
  cases hpr : pyPrecision t7 with
  | none =>
    obtain ⟨r', rfl, hpp⟩ := parsePrecision_of_none t7 hpr
    have h6 : parseType (46 :: r') = (none, 46 :: r') := by
      rw [parseType_eq (46 :: r') none (46 :: r') (pyOpt_not (by simp [isType])) (by simp)]; rfl
    simp [hpp, h6] at h
  | some pr =>
    rcases pr with ⟨precision, t8⟩
    have hprec := parsePrecision_eq t7 precision t8 hpr
    have hpb : ∀ n, precision = some n → n ≤ isizeMax := by
      intro n hn'; subst hn'
      simp only at hprec
      by_cases hb : n ≤ usizeMax
      · by_cases hb2 : n > isizeMax
        · simp [hprec, hb, hb2] at h
        · omega
      · simp [hprec, hb] at h
    have hprec' : parsePrecision t7 = .ok (precision, t8) := by
      rw [hprec]
      cases precision with
      | none => rfl
      | some n =>
        have h1 := hpb n rfl
        have h2 : n ≤ usizeMax := by unfold usizeMax; unfold isizeMax at h1; omega
        have h3 : ¬ n > isizeMax := by omega
        simp [h2, h3]
    simp only [hprec'] at h
    rcases ht : pyOpt isType t8 with ⟨type, t9⟩
    by_cases h78 : t8.head? = some 78
    · obtain ⟨r8, rfl⟩ : ∃ r8, t8 = 78 :: r8 := by
        cases t8 with
        | nil => simp at h78
        | cons c t => simp at h78; exact ⟨t, by rw [h78]⟩
      have : parseType (78 :: r8) = (some (.number true), r8) := rfl
      simp only [this] at h
      split at h
      · cases h
      · simp only [Except.ok.injEq] at h
        subst h
        simp at hN
    · simp only [parseType_eq t8 type t9 ht h78] at h
      split at h
      · cases h
      · rename_i hemp
        have ht9 : t9 = [] := by simpa using hemp
        subst ht9
        simp only [Except.ok.injEq] at h
        refine ⟨{ fill, align, sign, z := false, alt, zero, width, grouping, precision, type }, ?_, rfl, ?_, hwi, hpb⟩
        · unfold pyParseSpec
          simp only [hfa, hs, hzf, ha, h0, hn, hg, hpr, ht]
          simp
        · rw [← h]
          simp only [normOf]
          cases fill <;> cases zero <;> simp


/-- what the grammar guarantees about a parsed spec -/
structure WfSpec (p : PySpec) : Prop where
  align : ∀ a, p.align = some a → isAlign a = true
  sign : ∀ c, p.sign = some c → isSign c = true
  grouping : ∀ g, p.grouping = some g → isGrouping g = true
  type : ∀ t, p.type = some t → isType t = true
  fill : p.fill.isSome = true → p.align.isSome = true

theorem pyOpt_wf {cls : Nat → Bool} {t r : List Nat} {o : Option Nat} (h : pyOpt cls t = (o, r)) :
    ∀ c, o = some c → cls c = true := by
  intro c hc; subst hc
  cases t with
  | nil => simp [pyOpt] at h
  | cons d t =>
    simp only [pyOpt] at h
    split at h
    · rename_i hd; simp at h; rw [← h.1]; exact hd
    · simp at h

theorem pyFillAlign_wf {s t : List Nat} {f a : Option Nat} (h : pyFillAlign s = (f, a, t)) :
    (∀ c, a = some c → isAlign c = true) ∧ (f.isSome = true → a.isSome = true) := by
  match s, h with
  | [], h => simp [pyFillAlign] at h; obtain ⟨rfl, rfl, rfl⟩ := h; simp
  | [x], h =>
    simp only [pyFillAlign] at h
    split at h
    · rename_i hx; simp at h; obtain ⟨rfl, rfl, rfl⟩ := h; simp [hx]
    · simp at h; obtain ⟨rfl, rfl, rfl⟩ := h; simp
  | x :: y :: rest, h =>
    simp only [pyFillAlign] at h
    split at h
    · rename_i hy; simp at h; obtain ⟨rfl, rfl, rfl⟩ := h; simp [hy]
    · split at h
      · rename_i hx; simp at h; obtain ⟨rfl, rfl, rfl⟩ := h; simp [hx]
      · simp at h; obtain ⟨rfl, rfl, rfl⟩ := h; simp

theorem pyParse_wf (s : List Nat) (p : PySpec) (h : pyParseSpec s = some p) : WfSpec p := by
  unfold pyParseSpec at h
  rcases hfa : pyFillAlign s with ⟨fill, align, t1⟩
  rcases hs : pyOpt isSign t1 with ⟨sign, t2⟩
  rcases hzf : pyFlag 122 t2 with ⟨z, t3⟩
  rcases ha : pyFlag 35 t3 with ⟨alt, t4⟩
  rcases h0 : pyFlag 48 t4 with ⟨zero, t5⟩
  rcases hn : pyNumber t5 with ⟨width, t6⟩
  rcases hg : pyOpt isGrouping t6 with ⟨grouping, t7⟩
  simp only [hfa, hs, hzf, ha, h0, hn, hg] at h
  cases hpr : pyPrecision t7 with
  | none => simp [hpr] at h
  | some pr =>
    rcases pr with ⟨precision, t8⟩
    rcases ht : pyOpt isType t8 with ⟨type, t9⟩
    simp only [hpr, ht] at h
    split at h
    · simp only [Option.some.injEq] at h
      subst h
      have := pyFillAlign_wf hfa
      exact ⟨this.1, pyOpt_wf hs, pyOpt_wf hg, pyOpt_wf ht, this.2⟩
    · simp at h

/-- a `z` flag makes the Rust parser fail -/
theorem parseSpec_of_z (s : List Nat) (p : PySpec) (h : pyParseSpec s = some p) (hz : p.z = true)
 : parseSpec s = .error .invalidFormatSpecifier := by
  unfold pyParseSpec at h
  rcases hfa : pyFillAlign s with ⟨fill, align, t1⟩
  rcases hs : pyOpt isSign t1 with ⟨sign, t2⟩
  rcases hzf : pyFlag 122 t2 with ⟨z, t3⟩
  rcases ha : pyFlag 35 t3 with ⟨alt, t4⟩
  rcases h0 : pyFlag 48 t4 with ⟨zero, t5⟩
  rcases hn : pyNumber t5 with ⟨width, t6⟩
  rcases hg : pyOpt isGrouping t6 with ⟨grouping, t7⟩
  simp only [hfa, hs, hzf, ha, h0, hn, hg] at h
  cases hpr : pyPrecision t7 with
  | none => simp [hpr] at h
  | some pr =>
    rcases pr with ⟨precision, t8⟩
    rcases ht : pyOpt isType t8 with ⟨type, t9⟩
    simp only [hpr, ht] at h
    split at h
    · simp only [Option.some.injEq] at h
      subst h
      simp only at hz
      subst hz
      have : t2 = 122 :: t3 := by
        cases t2 with
        | nil => simp [pyFlag] at hzf
        | cons d t =>
          simp only [pyFlag] at hzf
          split at hzf
          · rename_i hd; simp at hzf; rw [hd, hzf]
          · simp at hzf
      subst this
      exact parseSpec_z s fill align t1 hfa sign t3 hs
    · simp at h


/-- observable outcome: `none` = panic, `some none` = rejected, `some (some t)` = text -/
def Res.view : Res (List Nat) → Option (Option (List Nat))
  | .panic => none
  | .err _ => some none
  | .ok t => some (some t)

def isAscii (c : Nat) : Bool := c < 128

theorem pyPad_nopad (f a w : Nat) (lead body : List Nat) (h : w ≤ lead.length + body.length) :
    pyPad f a w lead body = lead ++ body := by
  unfold pyPad
  have : w - (lead.length + body.length) = 0 := by omega
  simp only [this]
  split
  · simp
  · split
    · simp
    · split <;> simp

theorem pyPad_length (f a w : Nat) (lead body : List Nat) :
    (pyPad f a w lead body).length = max w (lead.length + body.length) := by
  unfold pyPad
  simp only []
  split
  · simp; omega
  · split
    · simp; omega
    · split
      · simp; omega
      · simp; omega

theorem pyPad_all (f a w : Nat) (body : List Nat) (P : Nat → Bool) (hb : body.all P = true)
    (hf : body.length < w → P f = true) : (pyPad f a w [] body).all P = true := by
  unfold pyPad
  simp only [List.length_nil, Nat.zero_add, List.nil_append]
  by_cases hw : body.length < w
  · have := hf hw
    split
    · simp [hb, this]
    · split
      · simp [hb, this]
      · split <;> simp [hb, this]
  · have : w - body.length = 0 := by omega
    simp [this, hb]


/-! ### `format_string` -/

def boundsOk (p : PySpec) : Bool := p.width.getD 0 < 2 ^ 31 && p.precision.getD 0 < 2 ^ 63

/-- the characters `format_string` keeps -/
def strKept (p : PySpec) (s : List Nat) : List Nat :=
  match p.precision with
  | some n => s.take n
  | none => s

/-- every spec in the grammar (width below 2^31, precision below 2^63 — larger ones are rejected by
    both sides) and every text shorter than 2^30: no `str` shape is excluded any more -/
def InDomainStr (p : PySpec) (s : List Nat) : Bool :=
  boundsOk p && s.length < 2 ^ 30

theorem signOfChar_some' (c : Nat) (h : isSign c = true) : ∃ x, signOfChar c = some x := by
  simp only [isSign, Bool.or_eq_true, decide_eq_true_eq] at h
  rcases h with (h | h) | h <;> subst h <;> exact ⟨_, rfl⟩

theorem groupingOfChar_some (g : Nat) (h : isGrouping g = true) : ∃ x, groupingOfChar g = some x := by
  simp only [isGrouping, Bool.or_eq_true, decide_eq_true_eq] at h
  rcases h with h | h <;> subst h <;> exact ⟨_, rfl⟩

theorem formatString_grouping (r : FormatSpec) (s : List Nat) (g : Grouping) (h : r.grouping = some g) :
    ∃ e, formatString r s = .err e := by
  unfold formatString validateFormat
  rw [h]
  cases g <;> cases hft : r.ftype with
  | none => simp
  | some ft => cases ft <;> simp

theorem validateFormat_nogroup (r : FormatSpec) (d : FType) (h : r.grouping = none) :
    validateFormat r d = .ok () := by
  unfold validateFormat
  rw [h]

theorem normOf_fill (p : PySpec) : (normOf p).fill.getD 32 = effFill p := by
  unfold normOf effFill
  cases p.fill <;> cases p.zero <;> simp

theorem alignChar_fromChar (c : Nat) (h : isAlign c = true) :
    ∃ a, Align.fromChar c = some a ∧ alignChar a = c := by
  simp only [isAlign, Bool.or_eq_true, decide_eq_true_eq] at h
  rcases h with ((h | h) | h) | h <;> subst h <;> exact ⟨_, rfl, rfl⟩

theorem formatString_eq (p : PySpec) (s : List Nat) (wf : WfSpec p) (hz : p.z = false)
    (hd : InDomainStr p s = true) :
    (formatString (normOf p) s).view = some (pyFormatStr p s) := by
  simp only [InDomainStr, boundsOk, Bool.and_eq_true, decide_eq_true_eq] at hd
  obtain ⟨⟨hbw, hbp⟩, hlen⟩ := hd
  cases hg : p.grouping with
  | some g =>
    obtain ⟨x, hx⟩ := groupingOfChar_some g (wf.grouping g hg)
    obtain ⟨e, he⟩ := formatString_grouping (normOf p) s x (by simp [normOf, hg, hx])
    rw [he]
    simp [Res.view, pyFormatStr, hg]
  | none =>
    have hng : (normOf p).grouping = none := by simp [normOf, hg]
    have hsg : (normOf p).sign = p.sign.bind signOfChar := rfl
    have hal : (normOf p).alt = p.alt := rfl
    by_cases hty : p.type = none ∨ p.type = some 115
    · have hft : (normOf p).ftype = none ∨ (normOf p).ftype = some .string := by
        rcases hty with h | h
        · left; simp [normOf, h]
        · right; simp [normOf, h, typeOfChar]
      have hty2 : ¬ (p.type ≠ none ∧ p.type ≠ some 115) := by
        rcases hty with h | h <;> simp [h]
      unfold formatString
      rw [validateFormat_nogroup _ _ hng]
      cases hs : p.sign with
      | some c =>
        obtain ⟨x, hx⟩ := signOfChar_some' c (wf.sign c hs)
        have hpy : pyFormatStr p s = none := by simp [pyFormatStr, hs]
        rw [hpy]
        rcases hft with hft | hft <;> rw [hft] <;> simp [hsg, hs, hx, Res.view]
      | none =>
        cases ha : p.alt with
        | true =>
          have hpy : pyFormatStr p s = none := by simp [pyFormatStr, ha]
          rw [hpy]
          rcases hft with hft | hft <;> rw [hft] <;> simp [hsg, hs, hal, ha, Res.view]
        | false =>
          have hkl : (strKept p s).length ≤ s.length := by
            unfold strKept; split <;> simp <;> omega
          have hw : ∀ w, (normOf p).width = some w → w < 2 ^ 31 := by
            intro w hw'; simp only [normOf] at hw'; rw [hw'] at hbw; simpa using hbw
          have haln : (normOf p).align = p.align.bind Align.fromChar := rfl
          by_cases heq : p.align = some 61
          · -- `=` alignment: rejected by both
            have hpy : pyFormatStr p s = none := by simp [pyFormatStr, heq]
            rw [hpy]
            have : (normOf p).align = some .afterSign := by rw [haln, heq]; rfl
            rcases hft with hft | hft <;> rw [hft] <;> simp [hsg, hs, hal, ha, this, Res.view]
          · have hne : (normOf p).align ≠ some .afterSign := by
              rw [haln]
              cases hal' : p.align with
              | none => simp
              | some a =>
                obtain ⟨al, h1, h2⟩ := alignChar_fromChar a (wf.align a hal')
                simp only [Option.bind_some, h1, ne_eq, Option.some.injEq]
                intro h; subst h; apply heq; rw [hal', ← h2]; rfl
            have hfsa := formatSignAndAlign_eq (normOf p) (strKept p s) [] (strKept p s).length .left hw
              (by simp; omega) rfl
            rw [normOf_fill] at hfsa
            have halign : alignChar ((normOf p).align.getD .left) = p.align.getD 60 := by
              rw [haln]
              cases hal' : p.align with
              | none => rfl
              | some a =>
                obtain ⟨al, h1, h2⟩ := alignChar_fromChar a (wf.align a hal')
                simp [h1, h2]
            have hwd : (normOf p).width = p.width := rfl
            rw [halign, hwd] at hfsa
            have hpy : pyFormatStr p s = some (pyPad (effFill p) (p.align.getD 60) (p.width.getD 0) []
                (strKept p s)) := by
              unfold pyFormatStr strKept
              have h1 : ¬ (p.z = true ∨ p.sign.isSome = true ∨ p.alt = true ∨ p.grouping.isSome = true ∨
                  p.align = some 61) := by
                simp [hz, hs, ha, hg, heq]
              rw [if_neg h1, if_neg hty2]
              rfl
            rw [hpy]
            have hprn : (normOf p).precision = p.precision := rfl
            have hkept : truncateChars (normOf p).precision s = strKept p s := by
              rw [hprn]; unfold strKept truncateChars; cases p.precision <;> rfl
            rcases hft with hft | hft <;> rw [hft] <;>
              simp only [hsg, hs, hal, ha, Option.bind_none, Option.isSome_none, Bool.false_eq_true, if_false,
                hne, hkept, hfsa, Res.ofOption, Res.view]
    · have hty' : p.type ≠ none ∧ p.type ≠ some 115 := by
        constructor <;> intro h <;> exact hty (by simp [h])
      obtain ⟨t, ht⟩ : ∃ t, p.type = some t := by
        cases h : p.type with
        | none => exact absurd h hty'.1
        | some t => exact ⟨t, rfl⟩
      have hpy : pyFormatStr p s = none := by
        unfold pyFormatStr
        split <;> rfl
      rw [hpy]
      unfold formatString
      rw [validateFormat_nogroup _ _ hng]
      have : t ≠ 115 := by intro h; subst h; exact hty'.2 ht
      rcases isType_cases t (wf.type t ht) with h | h | h | h | h | h | h | h | h | h | h | h | h | h | h <;>
        subst h <;> first | omega | simp [normOf, ht, typeOfChar, Res.view]

/-! ### integers -/

theorem digitChar_eq (d : Nat) (u : Bool) : PV.C18.digitChar d u = Spec.digitChar d u := rfl

theorem radixGo_eq (radix : Nat) (u : Bool) (fuel n : Nat) (acc : List Nat) :
    PV.C18.radixGo radix u fuel n acc = Spec.radixGo radix u fuel n acc := by
  induction fuel generalizing n acc with
  | zero => rfl
  | succ f ih => simp only [PV.C18.radixGo, Spec.radixGo, ih, digitChar_eq]

theorem toStrRadix_eq (n radix : Nat) (u : Bool) : toStrRadix n radix u = toRadix n radix u := by
  unfold toStrRadix toRadix; exact radixGo_eq _ _ _ _ _

/-- a character of a rendered integer: ASCII and not `.` -/
def digitLike (c : Nat) : Bool := c < 128 && c != 46

theorem digitChar_like (d : Nat) (u : Bool) (h : d < 16) : digitLike (Spec.digitChar d u) = true := by
  unfold Spec.digitChar digitLike
  split
  · simp; omega
  · split <;> (simp; omega)

theorem radixGo_like (radix : Nat) (hr : radix ≤ 16) (hr0 : 0 < radix) (u : Bool) (fuel n : Nat) (acc : List Nat)
    (ha : acc.all digitLike = true) : (Spec.radixGo radix u fuel n acc).all digitLike = true := by
  induction fuel generalizing n acc with
  | zero => exact ha
  | succ f ih =>
    simp only [Spec.radixGo]
    by_cases hn : n < radix
    · have hn16 : n < 16 := by omega
      simp [hn, ha, digitChar_like n u hn16]
    · have hm := Nat.mod_lt n hr0
      have hm16 : n % radix < 16 := by omega
      simp only [hn, if_false]
      exact ih _ _ (by simp [ha, digitChar_like (n % radix) u hm16])

theorem radixGo_length (radix : Nat) (u : Bool) (fuel n : Nat) (acc : List Nat) :
    (Spec.radixGo radix u fuel n acc).length ≤ fuel + acc.length := by
  induction fuel generalizing n acc with
  | zero => simp [Spec.radixGo]
  | succ f ih =>
    simp only [Spec.radixGo]
    split
    · simp; omega
    · have := ih (n / radix) (Spec.digitChar (n % radix) u :: acc)
      simp at this; omega

theorem radixGo_ne_nil (radix : Nat) (u : Bool) (fuel n : Nat) (acc : List Nat)
    (h : acc ≠ [] ∨ 1 ≤ fuel) : Spec.radixGo radix u fuel n acc ≠ [] := by
  induction fuel generalizing n acc with
  | zero =>
    rcases h with h | h
    · exact h
    · omega
  | succ f ih =>
    simp only [Spec.radixGo]
    split
    · simp
    · exact ih _ _ (Or.inl (by simp))

theorem toRadix_like (n radix : Nat) (hr : radix ≤ 16) (hr0 : 0 < radix) (u : Bool) :
    (toRadix n radix u).all digitLike = true :=
  radixGo_like radix hr hr0 u _ _ [] rfl

theorem toRadix_length (n radix : Nat) (u : Bool) : (toRadix n radix u).length ≤ Nat.log2 n + 1 := by
  have := radixGo_length radix u (Nat.log2 n + 1) n []
  simpa [toRadix] using this

theorem toRadix_ne_nil (n radix : Nat) (u : Bool) : toRadix n radix u ≠ [] :=
  radixGo_ne_nil radix u _ n [] (Or.inr (by omega))

theorem digit_isDigit (d : Nat) (u : Bool) (h : d < 10) : Spec.isDigit (Spec.digitChar d u) = true := by
  unfold Spec.digitChar Spec.isDigit
  simp [h]; omega

theorem radixGo_dec (radix : Nat) (hr : radix ≤ 10) (hr0 : 0 < radix) (u : Bool) (fuel n : Nat) (acc : List Nat)
    (ha : acc.all Spec.isDigit = true) : (Spec.radixGo radix u fuel n acc).all Spec.isDigit = true := by
  induction fuel generalizing n acc with
  | zero => exact ha
  | succ f ih =>
    simp only [Spec.radixGo]
    by_cases hn : n < radix
    · have hn10 : n < 10 := by omega
      simp [hn, ha, digit_isDigit n u hn10]
    · have hm := Nat.mod_lt n hr0
      have hm10 : n % radix < 10 := by omega
      simp only [hn, if_false]
      exact ih _ _ (by simp [ha, digit_isDigit (n % radix) u hm10])

theorem toRadix_dec (n radix : Nat) (hr : radix ≤ 10) (hr0 : 0 < radix) (u : Bool) :
    (toRadix n radix u).all Spec.isDigit = true :=
  radixGo_dec radix hr hr0 u _ _ [] rfl

theorem spanDigits_all (l : List Nat) (h : l.all Spec.isDigit = true) : spanDigits l = (l, []) := by
  induction l with
  | nil => rfl
  | cons c cs ih =>
    simp only [List.all_cons, Bool.and_eq_true] at h
    have e : PV.C18.isDigit c = true := h.1
    simp [spanDigits, e, ih h.2]

theorem utf8Len_like (l : List Nat) (h : l.all (fun c => decide (c < 128)) = true) : utf8Len l = l.length := by
  induction l with
  | nil => rfl
  | cons c cs ih =>
    simp only [List.all_cons, Bool.and_eq_true, decide_eq_true_eq] at h
    simp [utf8Len, utf8Len1, h.1, ih h.2]; omega


def sepChar : Grouping → Nat
  | .comma => 44 | .underscore => 95

theorem pyGroupPad_small3 (sep w : Nat) (ds : List Nat) (h : w ≤ ds.length) :
    pyGroupPad 3 sep w ds = groupRight 3 sep ds := by
  unfold pyGroupPad
  rw [padSearch_spec 3 (by omega) _ isCnt3 sep w 0 w ds (by omega) (by omega) (by intro j hj; omega)]
  simp

theorem pyGroupPad_small4 (sep w : Nat) (ds : List Nat) (h : w ≤ ds.length) :
    pyGroupPad 4 sep w ds = groupRight 4 sep ds := by
  unfold pyGroupPad
  rw [padSearch_spec 4 (by omega) _ isCnt4 sep w 0 w ds (by omega) (by omega) (by intro j hj; omega)]
  simp

/-- the grouped magnitude `add_magnitude_separators` produces for a digit string -/
def rsBody (r : FormatSpec) (k : Nat) (raw pfx : List Nat) : List Nat :=
  match r.grouping with
  | none => raw
  | some g =>
    pyGroupPad k (sepChar g)
      (if r.fill = some 48 ∧ numberAlign r = .afterSign then r.width.getD raw.length - pfx.length else 0) raw

/-- the integer part `Spec.assemble` pads -/
def pyIntPart (p : PySpec) (k : Nat) (lead intDigits remainder : List Nat) : List Nat :=
  match p.grouping with
  | none => intDigits
  | some sep =>
    if intDigits.isEmpty then []
    else if zeroEq p then pyGroupPad k sep (p.width.getD 0 - lead.length - remainder.length) intDigits
    else groupRight k sep intDigits

theorem assemble_eq (p : PySpec) (lead ds rem : List Nat) (k : Nat) :
    assemble p lead ds rem k =
      pyPad (effFill p) (effAlignNum p) (p.width.getD 0) lead (pyIntPart p k lead ds rem ++ rem) := by
  unfold assemble pyIntPart
  cases p.grouping <;> rfl

theorem addSepForChar_digits (raw : List Nat) (k : Int) (sep : Nat) (disp : Int)
    (hsp : splitIntPart k raw = (raw, [])) (hne : raw ≠ []) :
    addSepForChar raw k sep disp = separateInteger raw k sep disp := by
  unfold addSepForChar
  rw [hsp]
  have : raw.isEmpty = false := by
    cases raw with
    | nil => exact absurd rfl hne
    | cons a l => rfl
  simp only [this, Bool.false_eq_true, if_false, List.length_nil, Int.natCast_zero, Int.sub_zero,
    List.append_nil]
  cases separateInteger raw k sep disp <;> rfl

theorem addMagnitudeSeparators_int (r : FormatSpec) (raw pfx : List Nat) (k : Nat) (hk : k = 3 ∨ k = 4)
    (hint : getSeparatorInterval r = k) (hdig : k = 4 ∨ raw.all Spec.isDigit = true) (hne : raw ≠ [])
    (hlen : raw.length < 2 ^ 30) (hpl : pfx.length < 2 ^ 30) (hw : ∀ w, r.width = some w → w < 2 ^ 31) :
    addMagnitudeSeparators r raw pfx = some (rsBody r k raw pfx) := by
  unfold addMagnitudeSeparators rsBody
  cases hg : r.grouping with
  | none => rfl
  | some g =>
    simp only [hint]
    have hsp : splitIntPart (k : Int) raw = (raw, []) := by
      unfold splitIntPart
      rcases hdig with h | h
      · subst h; rfl
      · rcases hk with h' | h'
        · subst h'; simp [spanDigits_all raw h]
        · subst h'; rfl
    have hwv : r.width.getD raw.length < 2 ^ 31 := by
      cases hwd : r.width with
      | none => simp; omega
      | some w => simpa using hw w hwd
    have h3 : ((3 : Nat) : Int) = 3 := rfl
    have h4 : ((4 : Nat) : Int) = 4 := rfl
    rw [wrapI32_small raw.length (by omega)]
    by_cases hzp : r.fill = some 48 ∧ numberAlign r = .afterSign
    · simp only [hzp, and_self, if_true]
      rw [wrapI32_small _ hwv, wrapI32_small pfx.length (by omega)]
      rw [chkI32_ok _ (by omega) (by omega)]
      simp only [addSepForChar_digits raw k _ _ hsp hne]
      cases g <;> simp only [sepChar] <;> rcases hk with rfl | rfl
      · rw [h3, separateInteger_spec3 44 (r.width.getD raw.length - pfx.length) raw hne _ (by omega)]
      · rw [h4, separateInteger_spec4 44 (r.width.getD raw.length - pfx.length) raw hne _ (by omega)]
      · rw [h3, separateInteger_spec3 95 (r.width.getD raw.length - pfx.length) raw hne _ (by omega)]
      · rw [h4, separateInteger_spec4 95 (r.width.getD raw.length - pfx.length) raw hne _ (by omega)]
    · simp only [hzp, if_false]
      simp only [addSepForChar_digits raw k _ _ hsp hne]
      cases g <;> simp only [sepChar] <;> rcases hk with rfl | rfl
      · rw [h3, separateInteger_spec3 44 0 raw hne _ (by omega)]
      · rw [h4, separateInteger_spec4 44 0 raw hne _ (by omega)]
      · rw [h3, separateInteger_spec3 95 0 raw hne _ (by omega)]
      · rw [h4, separateInteger_spec4 95 0 raw hne _ (by omega)]

theorem groupRev_all (k sep : Nat) (P : Nat → Bool) (hs : P sep = true) (i : Nat) (l : List Nat)
    (h : l.all P = true) : (groupRev k sep i l).all P = true := by
  induction l generalizing i with
  | nil => rfl
  | cons d r ih =>
    simp only [List.all_cons, Bool.and_eq_true] at h
    simp only [groupRev]
    split <;> simp [hs, h.1, ih _ h.2]

theorem groupRight_all (k sep : Nat) (P : Nat → Bool) (hs : P sep = true) (l : List Nat)
    (h : l.all P = true) : (groupRight k sep l).all P = true := by
  unfold groupRight
  rw [List.all_reverse]
  exact groupRev_all k sep P hs 0 _ (by rw [List.all_reverse]; exact h)

theorem padSearch_all (k sep w : Nat) (P : Nat → Bool) (hs : P sep = true) (h0 : P 48 = true)
    (fuel : Nat) (l : List Nat) (h : l.all P = true) : (padSearch k sep w fuel l).all P = true := by
  induction fuel generalizing l with
  | zero => exact groupRight_all k sep P hs l h
  | succ f ih =>
    simp only [padSearch]
    split
    · exact groupRight_all k sep P hs l h
    · exact ih _ (by simp [h0, h])

theorem padSearch_length3 (sep w : Nat) (fuel : Nat) (l : List Nat) :
    (padSearch 3 sep w fuel l).length ≤ max (w + 1) (l.length + (l.length - 1) / 3) := by
  induction fuel generalizing l with
  | zero =>
    simp only [padSearch]
    rw [groupRight_length 3 (by omega) _ isCnt3 sep l.length l rfl]; omega
  | succ f ih =>
    simp only [padSearch]
    have hl := groupRight_length 3 (by omega) _ isCnt3 sep l.length l rfl
    split
    · rw [hl]; omega
    · rename_i hlt
      rw [hl] at hlt
      have := ih (48 :: l)
      simp only [List.length_cons] at this
      omega

theorem padSearch_length4 (sep w : Nat) (fuel : Nat) (l : List Nat) :
    (padSearch 4 sep w fuel l).length ≤ max (w + 1) (l.length + (l.length - 1) / 4) := by
  induction fuel generalizing l with
  | zero =>
    simp only [padSearch]
    rw [groupRight_length 4 (by omega) _ isCnt4 sep l.length l rfl]; omega
  | succ f ih =>
    simp only [padSearch]
    have hl := groupRight_length 4 (by omega) _ isCnt4 sep l.length l rfl
    split
    · rw [hl]; omega
    · rename_i hlt
      rw [hl] at hlt
      have := ih (48 :: l)
      simp only [List.length_cons] at this
      omega

theorem isAscii_of_digitLike (l : List Nat) (h : l.all digitLike = true) : l.all isAscii = true := by
  induction l with
  | nil => rfl
  | cons c cs ih =>
    simp only [List.all_cons, Bool.and_eq_true] at h ⊢
    refine ⟨?_, ih h.2⟩
    have := h.1; simp [digitLike] at this; simp [isAscii, this.1]


def boundsOkInt (p : PySpec) (n : Int) : Bool :=
  p.width.getD 0 < 2 ^ 30 && p.precision.getD 0 < 2 ^ 31 && Nat.log2 n.natAbs < 2 ^ 28

theorem signOfChar_some (c : Nat) (h : isSign c = true) : ∃ x, signOfChar c = some x := by
  simp only [isSign, Bool.or_eq_true, decide_eq_true_eq] at h
  rcases h with (h | h) | h <;> subst h <;> exact ⟨_, rfl⟩

theorem sSign_eq (p : PySpec) (wf : WfSpec p) (neg : Bool) :
    sSign neg (normOf p).sign = signText p neg := by
  unfold sSign signText
  cases neg
  · simp only [Bool.false_eq_true, if_false, normOf]
    cases hs : p.sign with
    | none => rfl
    | some c =>
      have := wf.sign c hs
      simp only [isSign, Bool.or_eq_true, decide_eq_true_eq] at this
      rcases this with (h | h) | h <;> subst h <;> rfl
  · rfl

/-- the alignment a number gets (`number_align` on the parsed fields) is the reference's: explicit,
    else `=` under the `0` flag, else `>` -/
theorem normOf_alignNum (p : PySpec) (wf : WfSpec p) :
    alignChar ((normOf p).align.getD (numberAlign (normOf p))) = effAlignNum p := by
  unfold numberAlign normOf effAlignNum
  cases hal : p.align with
  | some a =>
    obtain ⟨al, h1, h2⟩ := alignChar_fromChar a (wf.align a hal)
    simp [h1, h2]
  | none =>
    have hf : p.fill = none := by
      cases hfl : p.fill with
      | none => rfl
      | some f => have := wf.fill (by simp [hfl]); simp [hal] at this
    cases hz : p.zero <;> simp [hf, alignChar]

/-- Rust's "sign-aware zero padding" test on the parsed fields is the reference's -/
theorem normOf_zeroPadded (p : PySpec) (wf : WfSpec p) :
    ((normOf p).fill = some 48 ∧ numberAlign (normOf p) = .afterSign) ↔ zeroEq p = true := by
  unfold zeroEq effFill effAlignNum numberAlign normOf
  cases hf : p.fill with
  | some f =>
    obtain ⟨a, ha⟩ : ∃ a, p.align = some a := by
      have := wf.fill (by simp [hf]); cases h : p.align with
      | none => simp [h] at this
      | some a => exact ⟨a, rfl⟩
    obtain ⟨al, h1, h2⟩ := alignChar_fromChar a (wf.align a ha)
    have h3 : al = .afterSign ↔ a = 61 := by
      constructor
      · intro h; subst h; exact h2.symm
      · intro h; subst h; simp [Align.fromChar] at h1; exact h1.symm
    simp [ha, h1, h3]
  | none =>
    cases hz : p.zero with
    | true =>
      cases ha : p.align with
      | none => simp
      | some a =>
        obtain ⟨al, h1, h2⟩ := alignChar_fromChar a (wf.align a ha)
        have h3 : al = .afterSign ↔ a = 61 := by
          constructor
          · intro h; subst h; exact h2.symm
          · intro h; subst h; simp [Align.fromChar] at h1; exact h1.symm
        simp [h1, h3]
    | false => simp

theorem radix_case (p : PySpec) (n : Int) (wf : WfSpec p) (radix : Nat) (upper : Bool) (pfx : List Nat)
    (k : Nat) (commaOk sepOk : Bool)
    (hr : 0 < radix ∧ radix ≤ 16) (hk : k = 3 ∨ k = 4) (hpfx : pfx.length ≤ 2)
    (hmag : intMagnitude (normOf p) n = (formatIntRadix (normOf p) n.natAbs radix upper).map Sum.inl)
    (hpre : intPrefix (normOf p) = if p.alt then pfx else [])
    (hval : validateFormat (normOf p) .decimal =
      if (p.grouping = some 44 ∧ commaOk = false) ∨ (p.grouping = some 95 ∧ sepOk = false)
      then .error .unspecifiedFormat else .ok ())
    (hint : getSeparatorInterval (normOf p) = k) (hdig : k = 4 ∨ radix ≤ 10)
    (hb : boundsOkInt p n = true) :
    (formatInt (normOf p) n).view = some (
      if p.precision.isSome then none
      else if (p.grouping = some 44 ∧ (!commaOk) = true) ∨ (p.grouping = some 95 ∧ (!sepOk) = true) then none
      else some (assemble p (signText p (n < 0) ++ (if p.alt then pfx else []))
        (toRadix n.natAbs radix upper) [] k)) := by
  simp only [boundsOkInt, Bool.and_eq_true, decide_eq_true_eq] at hb
  obtain ⟨⟨hbw, hbp⟩, hbl⟩ := hb
  unfold formatInt
  rw [hval]
  by_cases hbad : (p.grouping = some 44 ∧ commaOk = false) ∨ (p.grouping = some 95 ∧ sepOk = false)
  · rw [if_pos hbad]
    have hbad' : (p.grouping = some 44 ∧ (!commaOk) = true) ∨ (p.grouping = some 95 ∧ (!sepOk) = true) := by
      simpa using hbad
    rw [if_pos hbad']
    simp [Res.view]
  · rw [if_neg hbad]
    have hbad' : ¬ ((p.grouping = some 44 ∧ (!commaOk) = true) ∨ (p.grouping = some 95 ∧ (!sepOk) = true)) := by
      simpa using hbad
    rw [if_neg hbad']
    simp only [hmag, formatIntRadix]
    have hprn : (normOf p).precision = p.precision := rfl
    rw [hprn]
    cases hpr : p.precision with
    | some x => simp [Res.map, Res.bind, Res.view]
    | none =>
      simp only [Res.map, Res.bind, Option.isSome_none, Bool.false_eq_true, if_false]
      rw [toStrRadix_eq, hpre, sSign_eq p wf]
      generalize hlead : signText p (decide (n < 0)) ++ (if p.alt = true then pfx else []) = lead
      have hleadlen : lead.length ≤ 3 := by
        rw [← hlead]; simp only [List.length_append]
        have : (signText p (decide (n < 0))).length ≤ 1 := by
          unfold signText; split
          · simp
          · split <;> simp
        split <;> simp <;> omega
      have hraw := toRadix_like n.natAbs radix hr.2 hr.1 upper
      have hrawlen := toRadix_length n.natAbs radix upper
      have hrawne := toRadix_ne_nil n.natAbs radix upper
      have hrawdig : k = 4 ∨ (toRadix n.natAbs radix upper).all Spec.isDigit = true := by
        rcases hdig with h | h
        · exact Or.inl h
        · exact Or.inr (toRadix_dec n.natAbs radix h hr.1 upper)
      generalize toRadix n.natAbs radix upper = raw at *
      have hw : ∀ w, (normOf p).width = some w → w < 2 ^ 31 := by
        intro w hw'; simp only [normOf] at hw'; rw [hw'] at hbw; simp at hbw; omega
      rw [addMagnitudeSeparators_int (normOf p) raw lead k hk hint hrawdig hrawne (by omega) (by omega) hw]
      simp only [Res.ofOption]
      have hgr : (normOf p).grouping = p.grouping.bind groupingOfChar := rfl
      have hwd : (normOf p).width = p.width := rfl
      -- the grouped magnitude on both sides
      have hbody : rsBody (normOf p) k raw lead = pyIntPart p k lead raw [] := by
        unfold rsBody pyIntPart
        rw [hgr, hwd]
        cases hg : p.grouping with
        | none => rfl
        | some g =>
          have hgg := wf.grouping g hg
          have hne' : raw.isEmpty = false := by
            cases raw with
            | nil => exact absurd rfl hrawne
            | cons a l => rfl
          simp only [isGrouping, Bool.or_eq_true, decide_eq_true_eq] at hgg
          have hsc : ∃ x, groupingOfChar g = some x ∧ sepChar x = g := by
            rcases hgg with h | h <;> subst h <;> exact ⟨_, rfl, rfl⟩
          obtain ⟨x, hx1, hx2⟩ := hsc
          simp only [Option.bind_some, hx1, hx2, hne', Bool.false_eq_true, if_false, List.length_nil,
            Nat.sub_zero]
          have e2 : pyGroupPad k g 0 raw = groupRight k g raw := by
            rcases hk with rfl | rfl
            · exact pyGroupPad_small3 g _ raw (by omega)
            · exact pyGroupPad_small4 g _ raw (by omega)
          have hzp := normOf_zeroPadded p wf
          have hfl' : (normOf p).fill = (match p.fill with | some f => some f | none => if p.zero then some 48 else none) := rfl
          by_cases hz : zeroEq p = true
          · rw [if_pos (hzp.mpr hz)]
            simp only [hz, if_true]
            cases hwdt : p.width with
            | none =>
              simp only [Option.getD_none, Nat.zero_sub]
              have e1 : pyGroupPad k g (raw.length - lead.length) raw = groupRight k g raw := by
                rcases hk with rfl | rfl
                · exact pyGroupPad_small3 g _ raw (by omega)
                · exact pyGroupPad_small4 g _ raw (by omega)
              rw [e1, e2]
            | some w => simp
          · have hz' : zeroEq p = false := by simpa using hz
            rw [if_neg (fun h => hz (hzp.mp h))]
            simp only [hz', Bool.false_eq_true, if_false]
            exact e2
      rw [hbody, assemble_eq]
      -- ASCII and short
      have hmag_ascii : (pyIntPart p k lead raw []).all isAscii = true := by
        unfold pyIntPart
        have hra := isAscii_of_digitLike raw hraw
        cases hg : p.grouping with
        | none => exact hra
        | some g =>
          have hgg := wf.grouping g hg
          have hsa : isAscii g = true := by
            simp only [isGrouping, Bool.or_eq_true, decide_eq_true_eq] at hgg
            rcases hgg with h | h <;> subst h <;> rfl
          simp only []
          split
          · rfl
          · split
            · exact padSearch_all k g _ isAscii hsa rfl _ raw hra
            · exact groupRight_all k g isAscii hsa raw hra
      have hmag_len : (pyIntPart p k lead raw []).length ≤ 2 ^ 30 + 2 ^ 29 := by
        unfold pyIntPart
        cases hg : p.grouping with
        | none => simp only []; omega
        | some g =>
          simp only []
          split
          · simp
          · split
            · unfold pyGroupPad
              rcases hk with rfl | rfl
              · have := padSearch_length3 g (p.width.getD 0 - lead.length - ([] : List Nat).length)
                  (p.width.getD 0 - lead.length - ([] : List Nat).length) raw
                omega
              · have := padSearch_length4 g (p.width.getD 0 - lead.length - ([] : List Nat).length)
                  (p.width.getD 0 - lead.length - ([] : List Nat).length) raw
                omega
            · rcases hk with rfl | rfl
              · rw [groupRight_length 3 (by omega) _ isCnt3 g raw.length raw rfl]; omega
              · rw [groupRight_length 4 (by omega) _ isCnt4 g raw.length raw rfl]; omega
      generalize pyIntPart p k lead raw [] = mag at *
      rw [formatSignAndAlign_eq (normOf p) mag lead mag.length (numberAlign (normOf p)) hw (by omega) rfl]
      rw [normOf_fill, normOf_alignNum p wf, hwd]
      simp only [Res.view, List.append_nil]


def commaBad : FType → Bool
  | .string | .character | .binary | .octal | .hex _ | .number _ => true
  | _ => false

def underBad : FType → Bool
  | .string | .character | .number _ => true
  | _ => false

theorem validateFormat_eq (p : PySpec) (wf : WfSpec p) (d : FType) :
    validateFormat (normOf p) d =
      match p.grouping with
      | none => .ok ()
      | some g =>
        if g = 44 then (if commaBad ((p.type.bind typeOfChar).getD d) then .error .unspecifiedFormat else .ok ())
        else (if underBad ((p.type.bind typeOfChar).getD d) then .error .unspecifiedFormat else .ok ()) := by
  unfold validateFormat
  have hft : (normOf p).ftype = p.type.bind typeOfChar := rfl
  have hgr : (normOf p).grouping = p.grouping.bind groupingOfChar := rfl
  rw [hft, hgr]
  cases hg : p.grouping with
  | none => rfl
  | some g =>
    have hgg := wf.grouping g hg
    simp only [isGrouping, Bool.or_eq_true, decide_eq_true_eq] at hgg
    rcases hgg with h | h <;> subst h <;>
      simp only [Option.bind_some, groupingOfChar] <;>
      cases (p.type.bind typeOfChar).getD d <;> simp [commaBad, underBad]

/-- the one remaining integer deviation outside float formatting: `c` on a surrogate code point
    (CPython returns a lone surrogate, a Rust `String` cannot hold one) -/
def intShapeFree (p : PySpec) (n : Int) : Bool :=
  if p.type = some 99 then
    p.sign.isSome || p.alt || p.grouping.isSome || p.precision.isSome || !isSurrogate n.toNat
  else true

def InDomainInt (p : PySpec) (n : Int) : Bool :=
  boundsOkInt p n && !isFloatType p.type && intShapeFree p n

theorem hval_of (p : PySpec) (wf : WfSpec p) (commaOk sepOk : Bool) (ft : FType)
    (hft : (p.type.bind typeOfChar).getD .decimal = ft) (hc : commaBad ft = !commaOk)
    (hu : underBad ft = !sepOk) :
    validateFormat (normOf p) .decimal =
      if (p.grouping = some 44 ∧ commaOk = false) ∨ (p.grouping = some 95 ∧ sepOk = false)
      then .error .unspecifiedFormat else .ok () := by
  rw [validateFormat_eq p wf, hft, hc, hu]
  cases hg : p.grouping with
  | none => simp
  | some g =>
    have hgg := wf.grouping g hg
    simp only [isGrouping, Bool.or_eq_true, decide_eq_true_eq] at hgg
    rcases hgg with h | h <;> subst h <;> cases commaOk <;> cases sepOk <;> simp

theorem formatSignAndAlign_nopad (spec : FormatSpec) (mag sign : List Nat) (n : Nat) (dflt : Align)
    (hw : ∀ w, spec.width = some w → w ≤ n + sign.length) (hm : n + sign.length < 2 ^ 30) :
    formatSignAndAlign spec mag n sign dflt = some (sign ++ mag) := by
  unfold formatSignAndAlign computeFillString
  cases hwd : spec.width with
  | none =>
    simp only []
    cases spec.align.getD dflt <;> simp
  | some w =>
    have hw' := hw w hwd
    simp only []
    rw [wrapI32_small w (by omega), wrapI32_small n (by omega), wrapI32_small sign.length (by omega)]
    rw [chkI32_ok _ (by omega) (by omega)]
    simp only []
    rw [chkI32_ok _ (by omega) (by omega)]
    simp only []
    have e1 : (max 0 ((w : Int) - n - sign.length)).toNat = 0 := by omega
    have e2 : (max 0 ((w : Int) - n - sign.length) / 2).toNat = 0 := by omega
    have e3 : (max 0 ((w : Int) - n - sign.length) - max 0 ((w : Int) - n - sign.length) / 2).toNat = 0 := by omega
    cases spec.align.getD dflt <;> simp [e1, e2, e3]

theorem formatInt_eq (p : PySpec) (n : Int) (wf : WfSpec p) (hz : p.z = false)
    (hd : InDomainInt p n = true) :
    (formatInt (normOf p) n).view = some (pyFormatInt p n) := by
  simp only [InDomainInt, Bool.and_eq_true, Bool.not_eq_true'] at hd
  obtain ⟨⟨hb, hfl⟩, hsh⟩ := hd
  unfold pyFormatInt
  rw [if_neg (by simp [hfl]), if_neg (by simp [hz])]
  simp only []
  have hft : (normOf p).ftype = p.type.bind typeOfChar := rfl
  have hal : (normOf p).alt = p.alt := rfl
  cases ht : p.type with
  | none =>
    exact radix_case p n wf 10 false [] 3 true true (by omega) (by omega) (by simp)
      (by simp [intMagnitude, hft, ht]) (by simp [intPrefix, hft, ht])
      (by rw [validateFormat_eq p wf, ht]; cases hg : p.grouping <;> simp [commaBad, underBad])
      (by simp [getSeparatorInterval, hft, ht]) (by omega) hb
  | some t =>
    rcases isType_cases t (wf.type t ht) with h | h | h | h | h | h | h | h | h | h | h | h | h | h | h <;> subst h
    · -- b
      exact radix_case p n wf 2 false [48, 98] 4 false true (by omega) (by omega) (by simp)
        (by simp [intMagnitude, hft, ht, typeOfChar]) (by simp [intPrefix, hft, hal, ht, typeOfChar])
        (hval_of p wf false true .binary (by simp [ht, typeOfChar]) rfl rfl)
        (by simp [getSeparatorInterval, hft, ht, typeOfChar]) (by omega) hb
    · -- c
      have hsh' : (p.sign.isSome || p.alt || p.grouping.isSome || p.precision.isSome ||
          !isSurrogate n.toNat) = true := by
        unfold intShapeFree at hsh; rw [if_pos ht] at hsh; exact hsh
      unfold formatInt
      rw [validateFormat_eq p wf, ht]
      cases hg : p.grouping with
      | some g =>
        simp only [Option.bind_some, typeOfChar, Option.getD_some, commaBad, underBad, if_true, ite_self]
        simp [Res.view]
      | none =>
        simp only []
        have hsg : (normOf p).sign = p.sign.bind signOfChar := rfl
        have hprn : (normOf p).precision = p.precision := rfl
        cases hs : p.sign with
        | some c =>
          obtain ⟨x, hx⟩ := signOfChar_some c (wf.sign c hs)
          simp [intMagnitude, hft, ht, typeOfChar, hsg, hs, hx, Res.bind, Res.view]
        | none =>
          cases ha : p.alt with
          | true => simp [intMagnitude, hft, ht, typeOfChar, hsg, hs, hal, ha, Res.bind, Res.view]
          | false =>
            cases hpr : p.precision with
            | some x => simp [intMagnitude, hft, ht, typeOfChar, hsg, hs, hal, ha, hprn, hpr, Res.bind, Res.view]
            | none =>
              simp only [hs, ha, hg, hpr, Option.isSome_none, Bool.false_or, Bool.or_false,
                Bool.not_eq_true'] at hsh'
              by_cases hrange : 0 ≤ n ∧ n.toNat ≤ 0x10ffff
              · have hpy : ¬ (n < 0 ∨ n > 0x10ffff) := by omega
                have hcond : 0 ≤ n ∧ n.toNat ≤ 0x10ffff ∧ isSurrogate n.toNat = false := ⟨hrange.1, hrange.2, hsh'⟩
                simp only [intMagnitude, hft, ht, typeOfChar, Option.bind_some, hsg, hs, Option.bind_none,
                  Option.isSome_none, Bool.false_eq_true, if_false, hal, ha, hprn, hpr, hcond, and_self, if_true,
                  Res.bind, if_neg hpy]
                have hsp : sSign (decide (n < 0)) none ++ intPrefix (normOf p) = [] := by
                  have : ¬ n < 0 := by omega
                  simp [sSign, intPrefix, hal, ha, this]
                rw [hsp]
                have hgr : (normOf p).grouping = none := by simp [normOf, hg]
                simp only [addMagnitudeSeparators, hgr, Res.ofOption]
                have hwd : (normOf p).width = p.width := rfl
                have hbw : p.width.getD 0 < 2 ^ 30 := by
                  simp only [boundsOkInt, Bool.and_eq_true, decide_eq_true_eq] at hb; exact hb.1.1
                rw [formatSignAndAlign_eq (normOf p) [n.toNat] [] [n.toNat].length (numberAlign (normOf p))
                  (by intro w hw'; rw [hwd] at hw'; rw [hw'] at hbw; simp at hbw; omega) (by simp) rfl]
                rw [normOf_fill, normOf_alignNum p wf, hwd]
                simp [Res.view]
              · have hpy : n < 0 ∨ n > 0x10ffff := by omega
                have hr' : ¬ (0 ≤ n ∧ n ≤ 1114111 ∧ isSurrogate n.toNat = false) := by
                  intro h; exact hrange ⟨h.1, by omega⟩
                simp [intMagnitude, hft, ht, typeOfChar, hsg, hs, hal, ha, hprn, hpr, hr', Res.bind, Res.view, hpy]
    · -- d
      exact radix_case p n wf 10 false [] 3 true true (by omega) (by omega) (by simp)
        (by simp [intMagnitude, hft, ht, typeOfChar]) (by simp [intPrefix, hft, hal, ht, typeOfChar])
        (hval_of p wf true true .decimal (by simp [ht, typeOfChar]) rfl rfl)
        (by simp [getSeparatorInterval, hft, ht, typeOfChar]) (by omega) hb
    · simp [isFloatType, ht] at hfl
    · simp [isFloatType, ht] at hfl
    · simp [isFloatType, ht] at hfl
    · simp [isFloatType, ht] at hfl
    · simp [isFloatType, ht] at hfl
    · simp [isFloatType, ht] at hfl
    · -- n
      exact radix_case p n wf 10 false [] 3 false false (by omega) (by omega) (by simp)
        (by simp [intMagnitude, hft, ht, typeOfChar]) (by simp [intPrefix, hft, hal, ht, typeOfChar])
        (hval_of p wf false false (.number false) (by simp [ht, typeOfChar]) rfl rfl)
        (by simp [getSeparatorInterval, hft, ht, typeOfChar]) (by omega) hb
    · -- o
      exact radix_case p n wf 8 false [48, 111] 4 false true (by omega) (by omega) (by simp)
        (by simp [intMagnitude, hft, ht, typeOfChar]) (by simp [intPrefix, hft, hal, ht, typeOfChar])
        (hval_of p wf false true .octal (by simp [ht, typeOfChar]) rfl rfl)
        (by simp [getSeparatorInterval, hft, ht, typeOfChar]) (by omega) hb
    · -- s: rejected by both
      unfold formatInt
      rw [validateFormat_eq p wf, ht]
      cases hg : p.grouping with
      | none => simp [intMagnitude, hft, ht, typeOfChar, Res.bind, Res.view]
      | some g =>
        simp only [Option.bind_some, typeOfChar, Option.getD_some, commaBad, underBad, if_true, ite_self]
        simp [Res.view]
    · -- x
      exact radix_case p n wf 16 false [48, 120] 4 false true (by omega) (by omega) (by simp)
        (by simp [intMagnitude, hft, ht, typeOfChar]) (by simp [intPrefix, hft, hal, ht, typeOfChar])
        (hval_of p wf false true (.hex false) (by simp [ht, typeOfChar]) rfl rfl)
        (by simp [getSeparatorInterval, hft, ht, typeOfChar]) (by omega) hb
    · -- X
      exact radix_case p n wf 16 true [48, 88] 4 false true (by omega) (by omega) (by simp)
        (by simp [intMagnitude, hft, ht, typeOfChar]) (by simp [intPrefix, hft, hal, ht, typeOfChar])
        (hval_of p wf false true (.hex true) (by simp [ht, typeOfChar]) rfl rfl)
        (by simp [getSeparatorInterval, hft, ht, typeOfChar]) (by omega) hb
    · simp [isFloatType, ht] at hfl


def Value.toPy : Value → PyValue
  | .int n => .int n | .float b => .float b | .str s => .str s | .bool b => .bool b

/-- a spec the reference grammar rejects is rejected by the Rust parser, or parsed with the
    presentation type `N` (which every `format_*` rejects) -/
theorem parse_of_py_none (s : List Nat) (hp : pyParseSpec s = none) :
    (∃ e, parseSpec s = .error e) ∨ (∃ r, parseSpec s = .ok r ∧ r.ftype = some (.number true)) := by
  cases h : parseSpec s with
  | error e => exact Or.inl ⟨e, rfl⟩
  | ok r =>
    right
    refine ⟨r, rfl, ?_⟩
    apply Classical.byContradiction
    intro hN
    obtain ⟨p, hp', _⟩ := parse_spec_sound s r h hN
    rw [hp] at hp'; cases hp'

theorem formatInt_N (r : FormatSpec) (n : Int) (h : r.ftype = some (.number true)) :
    ∃ e, formatInt r n = .err e := by
  unfold formatInt validateFormat
  rw [h]
  cases r.grouping with
  | none => simp [intMagnitude, h, Res.bind]
  | some g => cases g <;> simp

theorem formatString_N (r : FormatSpec) (s : List Nat) (h : r.ftype = some (.number true)) :
    ∃ e, formatString r s = .err e := by
  unfold formatString validateFormat
  rw [h]
  cases r.grouping with
  | none => simp
  | some g => cases g <;> simp

theorem formatFloat_N (r : FormatSpec) (b : Nat) (h : r.ftype = some (.number true)) :
    ∃ e, formatFloat r b = .err e := by
  unfold formatFloat validateFormat
  rw [h]
  cases r.grouping with
  | none =>
    simp only []
    split
    · exact ⟨_, rfl⟩
    · simp [floatMagnitude, h, Res.bind]
  | some g => cases g <;> simp

theorem formatBool_N (r : FormatSpec) (b : Bool) (h : r.ftype = some (.number true)) :
    ∃ e, formatBool r b = .err e := by
  unfold formatBool
  rw [h]
  exact ⟨_, rfl⟩


theorem pyOpt_none {cls : Nat → Bool} {t r : List Nat} (h : pyOpt cls t = (none, r)) : r = t := by
  cases t with
  | nil => simp [pyOpt] at h; exact h
  | cons c t =>
    simp only [pyOpt] at h
    split at h
    · simp at h
    · simp at h; exact h.symm

theorem pyFillAlign_none {s t : List Nat} (h : pyFillAlign s = (none, none, t)) : t = s := by
  match s, h with
  | [], h => simp [pyFillAlign] at h; exact h
  | [x], h =>
    simp only [pyFillAlign] at h
    split at h
    · simp at h
    · simp at h; exact h.symm
  | x :: y :: rest, h =>
    simp only [pyFillAlign] at h
    split at h
    · simp at h
    · split at h
      · simp at h
      · simp at h; exact h.symm

theorem pyNumber_none {t r : List Nat} (h : pyNumber t = (none, r)) : r = t := by
  unfold pyNumber at h
  simp only [] at h
  split at h
  · simp at h; exact h.symm
  · simp at h

theorem pyPrecision_none {t r : List Nat} (h : pyPrecision t = some (none, r)) : r = t := by
  by_cases h46 : t.head? = some 46
  · obtain ⟨rest, rfl⟩ : ∃ rest, t = 46 :: rest := by
      cases t with
      | nil => simp at h46
      | cons c t => simp at h46; exact ⟨t, by rw [h46]⟩
    rw [pyPrecision_cons46] at h
    rcases hn : pyNumber rest with ⟨w, r'⟩
    rw [hn] at h
    cases w <;> simp at h
  · rw [pyPrecision_other t h46] at h
    simp at h; exact h.symm

/-- a parsed spec with no field at all comes from the empty text -/
theorem spec_empty_of_fields (s : List Nat) (p : PySpec) (h : pyParseSpec s = some p)
    (h1 : p.fill = none) (h2 : p.align = none) (h3 : p.sign = none) (h4 : p.z = false) (h5 : p.alt = false)
    (h6 : p.zero = false) (h7 : p.width = none) (h8 : p.grouping = none) (h9 : p.precision = none)
    (h10 : p.type = none) : s = [] := by
  unfold pyParseSpec at h
  rcases hfa : pyFillAlign s with ⟨fill, align, t1⟩
  rcases hs : pyOpt isSign t1 with ⟨sign, t2⟩
  rcases hzf : pyFlag 122 t2 with ⟨z, t3⟩
  rcases ha : pyFlag 35 t3 with ⟨alt, t4⟩
  rcases h0 : pyFlag 48 t4 with ⟨zero, t5⟩
  rcases hn : pyNumber t5 with ⟨width, t6⟩
  rcases hg : pyOpt isGrouping t6 with ⟨grouping, t7⟩
  simp only [hfa, hs, hzf, ha, h0, hn, hg] at h
  cases hpr : pyPrecision t7 with
  | none => simp [hpr] at h
  | some pr =>
    rcases pr with ⟨precision, t8⟩
    rcases ht : pyOpt isType t8 with ⟨type, t9⟩
    simp only [hpr, ht] at h
    split at h
    · rename_i hemp
      simp only [Option.some.injEq] at h
      subst h
      simp only at h1 h2 h3 h4 h5 h6 h7 h8 h9 h10
      subst h1 h2 h3 h4 h5 h6 h7 h8 h9 h10
      have e1 := pyFillAlign_none hfa
      have e2 := pyOpt_none hs
      have e3 := pyFlag_false hzf
      have e4 := pyFlag_false ha
      have e5 := pyFlag_false h0
      have e6 := pyNumber_none hn
      have e7 := pyOpt_none hg
      have e8 := pyPrecision_none hpr
      have e9 := pyOpt_none ht
      have : t9 = [] := by simpa using hemp
      subst e1 e2 e3 e4 e5 e6 e7 e8 e9
      exact this
    · simp at h

theorem bind_fromChar_none (p : PySpec) (wf : WfSpec p) (h : p.align.bind Align.fromChar = none) : p.align = none := by
  cases ha : p.align with
  | none => rfl
  | some a =>
    obtain ⟨al, h1, _⟩ := alignChar_fromChar a (wf.align a ha)
    simp [ha, h1] at h

/-- `format_bool`'s "the spec has no field" test holds only for the empty text -/
theorem formatBool_default_iff (s : List Nat) (p : PySpec) (hp : pyParseSpec s = some p) (hz : p.z = false)
    (hne : s ≠ []) (hty : p.type = none) :
    ¬ ((normOf p).fill.isNone ∧ (normOf p).align.isNone ∧ (normOf p).sign.isNone ∧ (normOf p).alt = false ∧
      (normOf p).width.isNone ∧ (normOf p).grouping.isNone ∧ (normOf p).precision.isNone) := by
  intro ⟨h1, h2, h3, h4, h5, h6, h7⟩
  have wf := pyParse_wf s p hp
  apply hne
  have hfill : p.fill = none ∧ p.zero = false := by
    simp only [normOf] at h1
    cases hf : p.fill <;> cases hz0 : p.zero <;> simp [hf, hz0] at h1 ⊢
  have halign : p.align = none := by
    simp only [normOf, hfill.1, hfill.2] at h2
    exact bind_fromChar_none p wf (by simpa using h2)
  have hsign : p.sign = none := by
    cases hs : p.sign with
    | none => rfl
    | some c =>
      obtain ⟨x, hx⟩ := signOfChar_some c (wf.sign c hs)
      simp [normOf, hs, hx] at h3
  have hgr : p.grouping = none := by
    cases hg : p.grouping with
    | none => rfl
    | some g =>
      obtain ⟨x, hx⟩ := groupingOfChar_some g (wf.grouping g hg)
      simp [normOf, hg, hx] at h6
  exact spec_empty_of_fields s p hp hfill.1 halign hsign hz (by simpa [normOf] using h4) hfill.2
    (by simpa [normOf] using h5) hgr (by simpa [normOf] using h7) hty


/-- `FormatSpec::parse` never returns a width above `i32::MAX` (fix b59d482) -/
theorem parseSpec_width (s : List Nat) (r : FormatSpec) (h : parseSpec s = .ok r) :
    ∀ w, r.width = some w → w ≤ i32Max := by
  unfold parseSpec at h
  simp only [] at h
  split at h
  · cases h
  · rename_i width text _
    split at h
    · cases h
    · rename_i hwb
      split at h
      · cases h
      · split at h
        · cases h
        · simp only [Except.ok.injEq] at h
          subst h
          intro w hw
          simp only at hw
          subst hw
          simp [widthTooBig] at hwb
          exact hwb

/-- no spec string and no text (shorter than 2^30 characters) makes `format_string` panic -/
theorem formatString_no_panic (r : FormatSpec) (s : List Nat) (hw : ∀ w, r.width = some w → w ≤ i32Max)
    (hs : s.length < 2 ^ 30) : formatString r s ≠ .panic := by
  unfold formatString
  have hk : (truncateChars r.precision s).length ≤ s.length := by
    unfold truncateChars; split <;> simp <;> omega
  have hfsa := formatSignAndAlign_eq r (truncateChars r.precision s) [] _ .left
    (by intro w h; have := hw w h; unfold i32Max at this; omega) (by simp; omega) rfl
  split
  · simp
  · split
    · split
      · simp
      · split
        · simp
        · split
          · simp
          · simp only []; rw [hfsa]; simp [Res.ofOption]
    · split
      · simp
      · split
        · simp
        · split
          · simp
          · simp only []; rw [hfsa]; simp [Res.ofOption]
    · simp


end PV.C18
