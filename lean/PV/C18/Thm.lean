import PV.C18.Model
import PV.C18.Spec
import PV.C18.Lemmas
import PV.C18.Float
/-
  C18 — property theorems: the model of `format/src/format.rs` (`PV.C18.*`, Model.lean; the code
  as repaired by e5c4721, a6de50b, 19885fd, 54c4118, b3fed62, b59d482 and, for floats and strings,
  1c70d07, ca95121, dabde2e, 6610c77, 9bdbe36, 45bc6fb) against the reference reading of Python's
  format-spec mini-language (`PV.C18.Spec.*`, Spec.lean).

  Text is a list of Unicode scalar values.  `Res.view` is the observable outcome of a Rust call:
  `none` = panic, `some none` = `Err(_)` (kinds are not observed), `some (some t)` = text.
  `Spec.pyFormat … = none` means CPython raises.

  Sections 1–3 are full statements.  The end-to-end equalities of section 5 hold on the explicit
  decidable domain `InDomain`, which excludes only the shapes the repaired code still gets wrong
  (each with a `decide`d witness in section 7) and absurd sizes; the float equality is in addition
  relative to explicit facts about the digit generator `PV.Dec` (`FloatDigitFacts`).
  Helper lemmas are in `PV/C18/Lemmas.lean` and `PV/C18/Float.lean`.
-/
namespace PV.C18
open Spec

/-! ## 1. The spec parser is the reference grammar -/

/-- Whatever `FormatSpec::parse` accepts (other than with the non-Python type letter `N`, which every
    `format_*` rejects) is in the reference grammar, without the `z` flag, and the parsed fields are
    the grammar's fields (the `0` flag is the fill `0`; the alignment stays as written); the width fits
    `i32`, the precision `isize`. -/
theorem parse_spec_eq (s : List Nat) (r : FormatSpec) (h : parseSpec s = .ok r)
    (hN : r.ftype ≠ some (.number true)) :
    ∃ p, pyParseSpec s = some p ∧ p.z = false ∧ normOf p = r ∧
      (∀ w, p.width = some w → w ≤ i32Max) ∧ (∀ n, p.precision = some n → n ≤ isizeMax) :=
  parse_spec_sound s r h hN

/-- Conversely every spec of the reference grammar without `z`, with a width that fits `i32` and a
    precision that fits `isize` (CPython's own limit: "Too many decimal digits"), is accepted with
    exactly those fields (`z` is the listed finding `z-flag-rejected`; the width limit is that of b59d482,
    where CPython could only fail with MemoryError; the precision limit was `i32` before 45bc6fb). -/
theorem parse_spec_complete_partial (s : List Nat) (p : PySpec) (h : pyParseSpec s = some p)
    (hz : p.z = false)
    (hw : ∀ w, p.width = some w → w ≤ i32Max) (hp : ∀ n, p.precision = some n → n ≤ isizeMax) :
    parseSpec s = .ok (normOf p) :=
  parse_spec_complete s p h hz hw hp

/-- A spec outside the grammar is rejected (at parse time, or — type `N` — by every formatter). -/
theorem parse_spec_rejects (s : List Nat) (hp : pyParseSpec s = none) :
    (∃ e, parseSpec s = .error e) ∨ (∃ r, parseSpec s = .ok r ∧ r.ftype = some (.number true)) :=
  parse_of_py_none s hp

example : (parseSpec [42, 94, 43, 35, 48, 49, 50, 44, 46, 51, 102]).toOption =      -- "*^+#012,.3f"
    some (normOf ⟨some 42, some 94, some 43, false, true, true, some 12, some 44, some 3, some 102⟩) := by
  decide

/-! ## 2. Grouping -/

/-- `insert_separator` with the separator count the code computes is plain right-to-left grouping,
    for every text and both group sizes the code uses. -/
theorem insertSeparator_eq_groupRight (sep : Nat) (s : List Nat) :
    insertSeparator s 3 sep (((s.length : Int) - 1) / 3) = some (groupRight 3 sep s) ∧
    insertSeparator s 4 sep (((s.length : Int) - 1) / 4) = some (groupRight 4 sep s) :=
  ⟨insertSeparator_groupRight3 sep s _ (by omega), insertSeparator_groupRight4 sep s _ (by omega)⟩

/-- `separate_integer` = Python's grouping with zero padding to a minimum width, for ALL digit
    strings and ALL widths (`disp_digit_cnt = max(width, len)` as `add_magnitude_separators` passes
    it), group sizes 3 and 4: zeros are added on the left until the grouped text is at least `w`
    long; the text never starts with a separator. -/
theorem group_spec (sep w : Nat) (ds : List Nat) (hne : ds ≠ []) :
    separateInteger ds 3 sep (max (w : Int) ds.length) = some (pyGroupPad 3 sep w ds) ∧
    separateInteger ds 4 sep (max (w : Int) ds.length) = some (pyGroupPad 4 sep w ds) :=
  ⟨separateInteger_spec3 sep w ds hne _ rfl, separateInteger_spec4 sep w ds hne _ rfl⟩

example : separateInteger [49, 50, 51, 52] 3 44 (max 8 4) = some [48, 44, 48, 48, 49, 44, 50, 51, 52] := by
  decide                                                              -- 1234, width 8 → 0,001,234

/-- `add_magnitude_separators` on the digits of an integer: the width drives zero padding exactly
    when the parsed fields say "fill `0`, align `=`", which is the reference's `zeroEq`. -/
theorem group_zero_padding_spec (p : PySpec) (wf : WfSpec p) :
    ((normOf p).fill = some 48 ∧ numberAlign (normOf p) = .afterSign) ↔ zeroEq p = true :=
  normOf_zeroPadded p wf

/-! ## 3. Fill, alignment, width -/

/-- `format_sign_and_align` is Python's padding: fill to `width` on the side the alignment names,
    between sign and digits for `=`, the odd character on the right for `^`
    (widths below 2^31 — all the parser lets through — and text shorter than 2^31). -/
theorem align_spec (spec : FormatSpec) (mag sign : List Nat) (dflt : Align)
    (hw : ∀ w, spec.width = some w → w < 2 ^ 31) (hm : mag.length + sign.length < 2 ^ 31) :
    formatSignAndAlign spec mag mag.length sign dflt =
      some (pyPad (spec.fill.getD 32) (alignChar (spec.align.getD dflt)) (spec.width.getD 0) sign mag) :=
  formatSignAndAlign_eq spec mag sign mag.length dflt hw hm rfl

/-- … and for a number the `0` flag is fill `0` with alignment `=` unless given otherwise
    (`number_align`; for a string it is fill `0` with the usual `<`, see `format_str_eq`). -/
theorem zero_flag_spec (p : PySpec) (wf : WfSpec p) :
    (normOf p).fill.getD 32 = effFill p ∧
    alignChar ((normOf p).align.getD (numberAlign (normOf p))) = effAlignNum p :=
  ⟨normOf_fill p, normOf_alignNum p wf⟩

example : formatSignAndAlign (normOf ⟨none, none, none, false, false, true, some 6, none, none, none⟩)
    [49, 50] 2 [45] (numberAlign (normOf ⟨none, none, none, false, false, true, some 6, none, none, none⟩)) =
    some [45, 48, 48, 48, 49, 50] := by decide        -- "06" on -12 → -00012

/-! ## 4. Domain of the end-to-end theorems -/

/-- Doubles: no `z` flag (finding `z-flag-rejected`), width below 2^30, a precision the parser accepts,
    and a formatted magnitude shorter than 2^30 characters (`TextShort`: the `i32` padding arithmetic).
    The digit-generation facts are NOT part of the domain: they are the explicit hypothesis
    `FloatDigitFacts` of `format_float_eq_partial`. -/
def InDomainFloat (p : PySpec) (bits : Nat) : Bool :=
  !p.z && decide (p.width.getD 0 < 2 ^ 30) && decide (p.precision.getD 0 < 2 ^ 63) && decide (TextShort p bits)

/-- The inputs on which the code is proved to agree with Python.  A spec outside the grammar is in
    the domain (both reject).  `InDomainInt`: width < 2^30, |n| < 2^(2^28), a non-float presentation
    type, not `c` on a surrogate.  `InDomainStr`: width < 2^31, precision < 2^63, text shorter than 2^30
    (no shape excluded since 9bdbe36).  `InDomainFloat`: see above. -/
def InDomain (spec : List Nat) (v : Value) : Bool :=
  match pyParseSpec spec with
  | none => true
  | some p =>
    match v with
    | .int n => InDomainInt p n
    | .str s => InDomainStr p s
    | .bool b => spec.isEmpty || InDomainInt p (if b then 1 else 0)
    | .float b => InDomainFloat p b

/-- The digit-generation hypotheses of the float theorem (facts about `PV.Dec`, the contract of Rust's
    and CPython's digit generators), per presentation type — see `FloatFacts` in `Float.lean`:
    `%`: `x · 100` is a non-negative non-NaN double; no type and no precision: `ReprDigits` (CPython's
    and Rust's shortest digits agree — they differ on exact ties —, integers have their integer
    digits, non-integers have a fraction); `e E f F g G n` and a precision without type: NOTHING
    (`genDigits_all`: rounding to P significant digits and to P-1-X decimals give the same digits,
    proved for every double).
    Decidable; evaluated by the driver (`ffacts`) on every double the check sends. -/
def FloatDigitFacts (spec : List Nat) (bits : Nat) : Prop :=
  ∀ p, pyParseSpec spec = some p → PV.Dec.isFinite bits = true → FloatFacts p (absBits bits)

instance (spec : List Nat) (bits : Nat) : Decidable (FloatDigitFacts spec bits) := by
  unfold FloatDigitFacts
  cases pyParseSpec spec with
  | none => exact isTrue (by intro p h; cases h)
  | some p =>
    by_cases hf : PV.Dec.isFinite bits = true
    · by_cases h : FloatFacts p (absBits bits)
      · exact isTrue (by intro q hq _; cases hq; exact h)
      · exact isFalse (by intro hall; exact h (hall p rfl hf))
    · exact isTrue (by intro q _ hf'; exact absurd hf' hf)

theorem domain_bounds {p : PySpec} {n : Int} (h : InDomainInt p n = true) :
    (∀ w, p.width = some w → w ≤ i32Max) ∧ (∀ m, p.precision = some m → m ≤ isizeMax) := by
  simp only [InDomainInt, boundsOkInt, Bool.and_eq_true, decide_eq_true_eq] at h
  obtain ⟨⟨⟨⟨h1, h2⟩, _⟩, _⟩, _⟩ := h
  constructor
  · intro w hw; rw [hw] at h1; simp at h1; unfold i32Max; omega
  · intro m hm; rw [hm] at h2; simp at h2; unfold isizeMax; omega

theorem domain_bounds_str {p : PySpec} {s : List Nat} (h : InDomainStr p s = true) :
    (∀ w, p.width = some w → w ≤ i32Max) ∧ (∀ m, p.precision = some m → m ≤ isizeMax) := by
  simp only [InDomainStr, boundsOk, Bool.and_eq_true, decide_eq_true_eq] at h
  obtain ⟨⟨h1, h2⟩, _⟩ := h
  constructor
  · intro w hw; rw [hw] at h1; simp at h1; unfold i32Max; omega
  · intro m hm; rw [hm] at h2; simp at h2; unfold isizeMax; omega

/-! ## 5. `format_int`, `format_string`, `format_bool` equal Python's `format` -/

/-- For every spec string and every integer in the domain (any size below 2^(2^28)):
    parsing the spec and `format_int` give exactly Python's text, fail exactly when Python raises,
    and never panic — sign, `#` prefixes, radix, `c`, zero flag, width, fill/alignment, `,`/`_`
    grouping at interval 3/4 with sign-aware zero padding, precision rejected.
    Partial only in: float presentation types, `c` on a surrogate, width ≥ 2^30. -/
theorem format_int_eq_partial (spec : List Nat) (n : Int) (h : InDomain spec (.int n) = true) :
    (format spec (.int n)).view = some (pyFormat spec (.int n)) := by
  unfold InDomain at h
  unfold format pyFormat
  cases hp : pyParseSpec spec with
  | none =>
    rcases parse_of_py_none spec hp with ⟨e, he⟩ | ⟨r, hr, hN⟩
    · rw [he]; rfl
    · rw [hr]; obtain ⟨e, he⟩ := formatInt_N r n hN; simp [formatValue, he, Res.view]
  | some p =>
    rw [hp] at h
    simp only at h
    have wf := pyParse_wf spec p hp
    cases hz : p.z with
    | true =>
      rw [parseSpec_of_z spec p hp hz]
      have hfl : isFloatType p.type = false := by
        simp only [InDomainInt, Bool.and_eq_true, Bool.not_eq_true'] at h; exact h.1.2
      simp [Res.view, pyFormatInt, hfl, hz]
    | false =>
      obtain ⟨hw, hpb⟩ := domain_bounds h
      rw [parse_spec_complete spec p hp hz hw hpb]
      exact formatInt_eq p n wf hz h

/-- For every spec string and every text (shorter than 2^30 characters) in the domain:
    `format_string` gives exactly Python's text — precision truncates by characters, then fill and
    alignment to the width — and fails exactly when Python raises (sign, `#`, grouping, a non-string
    type).  Partial only in: `=` alignment and the `0` flag (folded into `align` by the parser). -/
theorem format_str_eq_partial (spec s : List Nat) (h : InDomain spec (.str s) = true) :
    (format spec (.str s)).view = some (pyFormat spec (.str s)) := by
  unfold InDomain at h
  unfold format pyFormat
  cases hp : pyParseSpec spec with
  | none =>
    rcases parse_of_py_none spec hp with ⟨e, he⟩ | ⟨r, hr, hN⟩
    · rw [he]; rfl
    · rw [hr]; obtain ⟨e, he⟩ := formatString_N r s hN; simp [formatValue, he, Res.view]
  | some p =>
    rw [hp] at h
    simp only at h
    have wf := pyParse_wf spec p hp
    cases hz : p.z with
    | true =>
      rw [parseSpec_of_z spec p hp hz]
      simp [Res.view, pyFormatStr, hz]
    | false =>
      obtain ⟨hw, hpb⟩ := domain_bounds_str h
      rw [parse_spec_complete spec p hp hz hw hpb]
      exact formatString_eq p s wf hz h

/-- Booleans: the empty spec gives `True`/`False`; any other spec formats the integer 0/1
    (partial only where `format_int_eq_partial` is). -/
theorem format_bool_eq_partial (spec : List Nat) (b : Bool) (h : InDomain spec (.bool b) = true) :
    (format spec (.bool b)).view = some (pyFormat spec (.bool b)) := by
  unfold InDomain at h
  unfold format pyFormat
  cases hp : pyParseSpec spec with
  | none =>
    rcases parse_of_py_none spec hp with ⟨e, he⟩ | ⟨r, hr, hN⟩
    · rw [he]; rfl
    · rw [hr]; obtain ⟨e, he⟩ := formatBool_N r b hN; simp [formatValue, he, Res.view]
  | some p =>
    rw [hp] at h
    simp only [Bool.or_eq_true] at h
    by_cases hemp : spec = []
    · subst hemp
      have hp' : pyParseSpec [] = some ⟨none, none, none, false, false, false, none, none, none, none⟩ := by
        decide
      rw [hp'] at hp; cases hp
      cases b <;> decide
    · have hemp' : spec.isEmpty = false := by
        cases spec with
        | nil => exact absurd rfl hemp
        | cons a l => rfl
      rcases h with h | hd
      · rw [hemp'] at h; cases h
      · have wf := pyParse_wf spec p hp
        simp only [hemp', Bool.false_eq_true, if_false]
        have hfl : isFloatType p.type = false := by
          simp only [InDomainInt, Bool.and_eq_true, Bool.not_eq_true'] at hd; exact hd.1.2
        cases hz : p.z with
        | true =>
          rw [parseSpec_of_z spec p hp hz]
          simp [Res.view, pyFormatInt, hfl, hz]
        | false =>
          obtain ⟨hw, hpb⟩ := domain_bounds hd
          rw [parse_spec_complete spec p hp hz hw hpb]
          have key := formatInt_eq p (if b then 1 else 0) wf hz hd
          have hft : (normOf p).ftype = p.type.bind typeOfChar := rfl
          cases ht : p.type with
          | none =>
            have hnd := formatBool_default_iff spec p hp hz hemp ht
            simp only [formatValue, formatBool, hft, ht, Option.bind_none, if_neg hnd]
            exact key
          | some t =>
            -- `format_bool` dispatches every non-float presentation type but `s` to `format_int`
            rcases isType_cases t (wf.type t ht) with h | h | h | h | h | h | h | h | h | h | h | h | h | h | h <;>
              subst h <;>
              first
                | (simp [isFloatType, ht] at hfl; done)
                | (simp only [formatValue, formatBool, hft, ht, typeOfChar, Option.bind_some]; exact key)
                | (simp [formatValue, formatBool, hft, ht, typeOfChar, pyFormatInt, isFloatType, hz, Res.view])

/-- **Floats.**  For every spec string and every double in the domain, relative to the digit facts:
    parsing the spec and `format_float` give exactly Python's text and fail exactly when Python raises —
    every presentation type (`e E f F g G n %` and none, with and without precision, every precision
    the parser accepts: the `format!` clamp of 1c70d07 is exact), NaN and infinities, sign, `#`
    (also `1.e+16`, dabde2e), the `.0` of the no-type presentation (6610c77), `inf%` (ca95121), fill and
    alignment, the `0` flag, `,`/`_` grouping of the integer digits only with sign-aware zero padding
    (a6de50b); other presentation types and a precision above `i32::MAX` are rejected by both.
    Partial only in: the `z` flag, width ≥ 2^30, a magnitude of 2^30 or more characters. -/
theorem format_float_eq_partial (spec : List Nat) (bits : Nat) (h : InDomain spec (.float bits) = true)
    (hdig : FloatDigitFacts spec bits) :
    (format spec (.float bits)).view = some (pyFormat spec (.float bits)) := by
  unfold InDomain at h
  unfold format pyFormat
  cases hp : pyParseSpec spec with
  | none =>
    rcases parse_of_py_none spec hp with ⟨e, he⟩ | ⟨r, hr, hN⟩
    · rw [he]; rfl
    · rw [hr]; obtain ⟨e, he⟩ := formatFloat_N r bits hN; simp [formatValue, he, Res.view]
  | some p =>
    rw [hp] at h
    simp only [InDomainFloat, Bool.and_eq_true, Bool.not_eq_true', decide_eq_true_eq] at h
    obtain ⟨⟨⟨hz, hw⟩, hpb⟩, hts⟩ := h
    have wf := pyParse_wf spec p hp
    rw [parse_spec_complete spec p hp hz
      (by intro w hw'; rw [hw'] at hw; simp at hw; unfold i32Max; omega)
      (by intro m hm; rw [hm] at hpb; simp at hpb; unfold isizeMax; omega)]
    exact formatFloat_eq p bits wf hz hw (hdig p hp) hts

-- non-vacuity: the hypotheses hold for, and the theorem computes, e.g.
-- format(123456.789, "*^+#012,.3f"), format(1234.5, ".3g"), format(0.1, ""), format(-1e16, "#"),
-- format(0.00001234, "012.2e"), format(0.125, "08.1%"), format(1.0, ".5"), format(inf, "08,")
example : InDomain [42, 94, 43, 35, 48, 49, 52, 44, 46, 51, 102] (.float 0x40FE240C9FBE76C9) = true ∧
    FloatDigitFacts [42, 94, 43, 35, 48, 49, 52, 44, 46, 51, 102] 0x40FE240C9FBE76C9 := by decide +kernel
example : (format [42, 94, 43, 35, 48, 49, 52, 44, 46, 51, 102] (.float 0x40FE240C9FBE76C9)).view =
    some (some [42, 43, 49, 50, 51, 44, 52, 53, 54, 46, 55, 56, 57, 42]) := by decide +kernel   -- *+123,456.789*
example : InDomain [46, 51, 103] (.float 0x40934A0000000000) = true ∧
    FloatDigitFacts [46, 51, 103] 0x40934A0000000000 := by decide +kernel
example : InDomain [] (.float 0x3FB999999999999A) = true ∧ FloatDigitFacts [] 0x3FB999999999999A := by
  decide +kernel
example : InDomain [35] (.float 0xC341C37937E08000) = true ∧ FloatDigitFacts [35] 0xC341C37937E08000 := by
  decide +kernel
example : (format [35] (.float 0xC341C37937E08000)).view = some (some [45, 49, 46, 101, 43, 49, 54]) := by
  decide +kernel                                                                          -- -1.e+16
example : InDomain [48, 49, 50, 46, 50, 101] (.float 0x3EE9E0E5C4F60B0E) = true ∧
    FloatDigitFacts [48, 49, 50, 46, 50, 101] 0x3EE9E0E5C4F60B0E := by decide +kernel
example : InDomain [48, 56, 46, 49, 37] (.float 0x3FC0000000000000) = true ∧
    FloatDigitFacts [48, 56, 46, 49, 37] 0x3FC0000000000000 := by decide +kernel
example : (format [48, 56, 46, 49, 37] (.float 0x3FC0000000000000)).view =
    some (some [48, 48, 48, 49, 50, 46, 53, 37]) := by decide +kernel                     -- 00012.5%
example : InDomain [46, 53] (.float 0x3FF0000000000000) = true ∧
    FloatDigitFacts [46, 53] 0x3FF0000000000000 := by decide +kernel
example : InDomain [48, 56, 44] (.float 0x7FF0000000000000) = true ∧
    FloatDigitFacts [48, 56, 44] 0x7FF0000000000000 := by decide +kernel

/-! ## 6. No panic -/

/-- FULL for text: no spec string whatsoever and no text shorter than 2^30 characters makes
    parsing + `format_string` panic (before 19885fd `format("é", ".1")` did). -/
theorem no_panic_str (spec s : List Nat) (hs : s.length < 2 ^ 30) : format spec (.str s) ≠ .panic := by
  unfold format
  cases hp : parseSpec spec with
  | error e => simp
  | ok r => exact formatString_no_panic r s (parseSpec_width spec r hp) hs

/-- On the domain no spec and no integer, text, boolean or double (the latter relative to the digit
    facts) makes parsing + formatting panic. -/
theorem no_panic_partial (spec : List Nat) (v : Value) (h : InDomain spec v = true)
    (hdig : ∀ b, v = .float b → FloatDigitFacts spec b) :
    format spec v ≠ .panic := by
  intro hpanic
  have hview : (format spec v).view = none := by rw [hpanic]; rfl
  cases v with
  | int n => rw [format_int_eq_partial spec n h] at hview; cases hview
  | str s => rw [format_str_eq_partial spec s h] at hview; cases hview
  | bool b => rw [format_bool_eq_partial spec b h] at hview; cases hview
  | float b => rw [format_float_eq_partial spec b h (hdig b rfl)] at hview; cases hview

-- the hypotheses are satisfiable by non-trivial inputs:
example : InDomain [48, 61, 49, 50, 44] (.int 1234567) = true := by decide            -- "0=12,"
example : (format [48, 61, 49, 50, 44] (.int 1234567)).view =
    some (some [48, 44, 48, 48, 49, 44, 50, 51, 52, 44, 53, 54, 55]) := by decide       -- 0,001,234,567
example : InDomain [62, 49, 50, 44] (.int 1234567) = true := by decide                 -- ">12," (no zero padding)
example : InDomain [43, 35, 48, 49, 50, 95, 88] (.int (-48879)) = true := by decide     -- "+#012_X"
example : InDomain [53, 99] (.int 255) = true := by decide                             -- "5c" on ÿ
example : InDomain [233, 94, 55, 46, 50] (.str [26085, 26412, 35486]) = true := by decide  -- "é^7.2" on 日本語
example : InDomain [53] (.bool true) = true := by decide                               -- "5" on True

/-! ## 7. The full statement, its remaining witnessed negations, and the repaired shapes -/

/-- The property as stated: for EVERY spec and value the outcome is Python's. -/
def format_eq_full : Prop :=
  ∀ (spec : List Nat) (v : Value), (format spec v).view = some (pyFormat spec v.toPy)

/-- (no counterexample is known any more: the last one, a float precision above `u16::MAX`, was
    repaired by 1c70d07; `no_panic_partial` proves it on the domain) -/
def no_panic_full : Prop := ∀ (spec : List Nat) (v : Value), format spec v ≠ .panic

/-- still false: `format(0xD800, "c")` is rejected (CPython returns the lone surrogate) -/
theorem format_eq_fails : ¬ format_eq_full := by
  intro h
  exact absurd (h [99] (.int 55296)) (by decide)

section witnesses
/- One witness per remaining known finding (the key is the entry of known_findings.d/C18.json). -/

/-- z-flag-rejected: `z.1f` is rejected by the parser although it is in the grammar -/
theorem dev_z_flag : (∃ e, parseSpec [122, 46, 49, 102] = .error e) ∧
    (pyParseSpec [122, 46, 49, 102]).isSome = true := ⟨⟨_, rfl⟩, by decide⟩
/-- int-c-surrogate-rejected: `format(0xD800, "c")` is rejected (it panicked before b3fed62); CPython
    returns the lone surrogate, which a Rust `String` cannot hold -/
theorem dev_c_surrogate : (format [99] (.int 55296)).view = some none ∧
    pyFormat [99] (PyValue.int 55296) = some [55296] := by decide
/-- z-flag-rejected: `format(-0.0, "z.1f")` (outside `InDomain`) -/
theorem dev_z_flag_float : (format [122, 46, 49, 102] (.float 9223372036854775808)).view = some none ∧
    pyFormat [122, 46, 49, 102] (PyValue.float 9223372036854775808) = some [48, 46, 48] := by decide +kernel

/-- int-float-above-max-rejected: `format(f64::MAX + 1, "e")` -/
theorem dev_int_above_f64max : (format [101] (.int 179769313486231570814527423731704356798070567525844996598917476803157260780028538760589558632766878171540458953514382464234321326889464182768467546703537516986049910576551282076245490090389328944075868508455133942304583236903222948165808559332123348274797826204144723168738177180919299881250404026184124858369)).view = some none ∧
    pyFormat [101] (PyValue.int 179769313486231570814527423731704356798070567525844996598917476803157260780028538760589558632766878171540458953514382464234321326889464182768467546703537516986049910576551282076245490090389328944075868508455133942304583236903222948165808559332123348274797826204144723168738177180919299881250404026184124858369) = some [49, 46, 55, 57, 55, 54, 57, 51, 101, 43, 51, 48, 56] := by decide +kernel

/-- float-repr-tie-rounds-up: the double is outside the digit facts of `format_float_eq_partial`
    (CPython's and Rust's shortest digits differ) … -/
theorem dev_float_tie_not_in_facts : ¬ FloatDigitFacts [] 4828158222569046106 := by decide +kernel

/-- … and `format(600377706905611.25, "")` differs in the last digit -/
theorem dev_float_tie : (format [] (.float 4828158222569046106)).view = some (some [54, 48, 48, 51, 55, 55, 55, 48, 54, 57, 48, 53, 54, 49, 49, 46, 51]) ∧
    pyFormat [] (PyValue.float 4828158222569046106) = some [54, 48, 48, 51, 55, 55, 55, 48, 54, 57, 48, 53, 54, 49, 49, 46, 50] := by decide +kernel

end witnesses

section repaired
/- The former witnesses, now agreeing with the reference (commit in the comment). -/

/-- conv-prefix-accepted (e5c4721): `format(1, "!r")` is rejected -/
theorem repaired_conv_prefix : (format [33, 114] (.int 1)).view = some none ∧
    pyFormat [33, 114] (PyValue.int 1) = none := by decide

/-- group-exp-type-panic (a6de50b): `format(1234567, ",e")` -/
theorem repaired_group_exp : (format [44, 101] (.int 1234567)).view = some (some [49, 46, 50, 51, 52, 53, 54, 55, 101, 43, 48, 54]) ∧
    pyFormat [44, 101] (PyValue.int 1234567) = some [49, 46, 50, 51, 52, 53, 54, 55, 101, 43, 48, 54] := by decide +kernel

/-- group-exp-type-panic (a6de50b): `format(1.0, ",e")` -/
theorem repaired_group_exp_float : (format [44, 101] (.float 4607182418800017408)).view = some (some [49, 46, 48, 48, 48, 48, 48, 48, 101, 43, 48, 48]) ∧
    pyFormat [44, 101] (PyValue.float 4607182418800017408) = some [49, 46, 48, 48, 48, 48, 48, 48, 101, 43, 48, 48] := by decide +kernel

/-- group-width-zero-pads (a6de50b): `format(1234, "10,")` -/
theorem repaired_group_width : (format [49, 48, 44] (.int 1234)).view = some (some [32, 32, 32, 32, 32, 49, 44, 50, 51, 52]) ∧
    pyFormat [49, 48, 44] (PyValue.int 1234) = some [32, 32, 32, 32, 32, 49, 44, 50, 51, 52] := by decide

/-- group-nonfinite-zero-pad (a6de50b): `format(inf, "08,")` -/
theorem repaired_group_nonfinite : (format [48, 56, 44] (.float 9218868437227405312)).view = some (some [48, 48, 48, 48, 48, 105, 110, 102]) ∧
    pyFormat [48, 56, 44] (PyValue.float 9218868437227405312) = some [48, 48, 48, 48, 48, 105, 110, 102] := by decide +kernel

/-- float-group-in-exponent-text (a6de50b): `format(1e100, ",")` -/
theorem repaired_float_group_exponent : (format [44] (.float 6103021453049119613)).view = some (some [49, 101, 43, 49, 48, 48]) ∧
    pyFormat [44] (PyValue.float 6103021453049119613) = some [49, 101, 43, 49, 48, 48] := by decide +kernel

/-- str-sign-accepted (19885fd): `format("a", "+")` -/
theorem repaired_str_sign : (format [43] (.str [97])).view = some none ∧
    pyFormat [43] (PyValue.str [97]) = none := by decide

/-- str-alt-accepted (19885fd): `format("a", "#")` -/
theorem repaired_str_alt : (format [35] (.str [97])).view = some none ∧
    pyFormat [35] (PyValue.str [97]) = none := by decide

/-- str-precision-bytes (19885fd): `format("éa", ".1")` -/
theorem repaired_str_precision_bytes : (format [46, 49] (.str [233, 97])).view = some (some [233]) ∧
    pyFormat [46, 49] (PyValue.str [233, 97]) = some [233] := by decide

/-- str-precision-after-padding (19885fd): `format("abc", "5.2")` -/
theorem repaired_str_precision_after_padding : (format [53, 46, 50] (.str [97, 98, 99])).view = some (some [97, 98, 32, 32, 32]) ∧
    pyFormat [53, 46, 50] (PyValue.str [97, 98, 99]) = some [97, 98, 32, 32, 32] := by decide

/-- bool-default-type-ignores-spec (54c4118): `format(True, "5")` -/
theorem repaired_bool_default : (format [53] (.bool true)).view = some (some [32, 32, 32, 32, 49]) ∧
    pyFormat [53] (PyValue.bool true) = some [32, 32, 32, 32, 49] := by decide

/-- int-c-precision-accepted (b3fed62): `format(65, ".2c")` -/
theorem repaired_c_precision : (format [46, 50, 99] (.int 65)).view = some none ∧
    pyFormat [46, 50, 99] (PyValue.int 65) = none := by decide

/-- int-c-nonascii-width (b3fed62): `format(255, "5c")` -/
theorem repaired_c_nonascii_width : (format [53, 99] (.int 255)).view = some (some [32, 32, 32, 32, 255]) ∧
    pyFormat [53, 99] (PyValue.int 255) = some [32, 32, 32, 32, 255] := by decide

/-- int-c-surrogate-panic (b3fed62): no panic any more -/
theorem repaired_c_surrogate_no_panic : format [99] (.int 55296) ≠ .panic := by decide
/-- str-eq-align-accepted (9bdbe36): `format("a", "=5")` is rejected -/
theorem repaired_str_eq_align : (format [61, 53] (.str [97])).view = some none ∧
    pyFormat [61, 53] (PyValue.str [97]) = none := by decide

/-- str-zero-flag-pads-left (9bdbe36): `format("a", "05")` → "a0000"; `format("a", "0=5")` rejected;
    the number keeps sign-aware zero padding: `format(-1, "05")` → "-0001" -/
theorem repaired_str_zero_flag : (format [48, 53] (.str [97])).view = some (some [97, 48, 48, 48, 48]) ∧
    pyFormat [48, 53] (PyValue.str [97]) = some [97, 48, 48, 48, 48] ∧
    (format [48, 61, 53] (.str [97])).view = some none ∧ pyFormat [48, 61, 53] (PyValue.str [97]) = none ∧
    (format [48, 53] (.int (-1))).view = some (some [45, 48, 48, 48, 49]) := by decide

/-- precision-over-i32-rejected (45bc6fb): `format("a", ".2147483648")` → "a"; a float still rejects it -/
theorem repaired_precision_over_i32 : (format [46, 50, 49, 52, 55, 52, 56, 51, 54, 52, 56] (.str [97])).view = some (some [97]) ∧
    pyFormat [46, 50, 49, 52, 55, 52, 56, 51, 54, 52, 56] (PyValue.str [97]) = some [97] ∧
    (format [46, 50, 49, 52, 55, 52, 56, 51, 54, 52, 56] (.float 4607182418800017408)).view = some none := by
  decide

/-- float-percent-overflow-alt (ca95121): `format(f64::MAX, "#.0%")` -/
theorem repaired_float_percent_overflow : (format [35, 46, 48, 37] (.float 9218868437227405311)).view = some (some [105, 110, 102, 37]) ∧
    pyFormat [35, 46, 48, 37] (PyValue.float 9218868437227405311) = some [105, 110, 102, 37] := by decide +kernel

/-- float-default-type-alt-no-point (dabde2e): `format(1e100, "#")` -/
theorem repaired_float_alt_no_point : (format [35] (.float 6103021453049119613)).view = some (some [49, 46, 101, 43, 49, 48, 48]) ∧
    pyFormat [35] (PyValue.float 6103021453049119613) = some [49, 46, 101, 43, 49, 48, 48] := by decide +kernel

/-- float-default-type-precision-no-dot-zero (6610c77): `format(1.0, ".5")` -/
theorem repaired_float_no_dot_zero : (format [46, 53] (.float 4607182418800017408)).view = some (some [49, 46, 48]) ∧
    pyFormat [46, 53] (PyValue.float 4607182418800017408) = some [49, 46, 48] := by decide +kernel

/-- precision-over-65535-panic (1c70d07): `format(1.0, ".65536f")` no longer panics -/
theorem repaired_precision_over_u16 :
    format [46, 54, 53, 53, 51, 54, 102] (.float 4607182418800017408) ≠ .panic := by decide +kernel

/-- width-wraps-i32 (b59d482): widths above `i32::MAX` are rejected at parse time -/
theorem repaired_width_limit : (∃ e, parseSpec [52, 50, 57, 52, 57, 54, 55, 51, 48, 49] = .error e) ∧
    (∃ e, parseSpec [50, 49, 52, 55, 52, 56, 51, 54, 52, 56] = .error e) := ⟨⟨_, rfl⟩, ⟨_, rfl⟩⟩

end repaired

end PV.C18
