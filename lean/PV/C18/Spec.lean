import PV.C17.Dec
/-
  C18 — reference: Python's format-specification mini-language (Language Reference / Library
  Reference "Format Specification Mini-Language", CPython 3.11) and `format(value, spec)` for
  int, str, bool and float.  Written from the documentation, not from the Rust control flow;
  validated against CPython 3.11.7 on every run of the check (`tools/props/c18.py`, op `pyfmt`).

      format_spec ::= [[fill]align][sign]["z"]["#"]["0"][width][grouping]["." precision][type]
      fill ::= <any character>     align ::= "<" | ">" | "=" | "^"     sign ::= "+" | "-" | " "
      width, precision ::= digit+  grouping ::= "," | "_"
      type ::= "b"|"c"|"d"|"e"|"E"|"f"|"F"|"g"|"G"|"n"|"o"|"s"|"x"|"X"|"%"

  Text is `List Nat` of Unicode scalar values.  `none` = Python raises (ValueError/OverflowError).
  Float digits come from the exact decimal arithmetic `PV.Dec` (correct rounding, half-even).
-/
namespace PV.C18.Spec

structure PySpec where
  fill : Option Nat
  align : Option Nat
  sign : Option Nat
  z : Bool
  alt : Bool
  zero : Bool
  width : Option Nat
  grouping : Option Nat
  precision : Option Nat
  type : Option Nat
deriving Repr, DecidableEq

/-! ## the grammar, read left to right (each optional item is taken when present) -/

def isAlign (c : Nat) : Bool := c = 60 || c = 62 || c = 61 || c = 94
def isSign (c : Nat) : Bool := c = 43 || c = 45 || c = 32
def isDigit (c : Nat) : Bool := 48 ≤ c && c ≤ 57
def isGrouping (c : Nat) : Bool := c = 44 || c = 95
/-- `b c d e E f F g G n o s x X %` -/
def isType (c : Nat) : Bool :=
  c = 98 || c = 99 || c = 100 || c = 101 || c = 69 || c = 102 || c = 70 || c = 103 || c = 71 ||
  c = 110 || c = 111 || c = 115 || c = 120 || c = 88 || c = 37

/-- `[[fill]align]`: a fill character is present exactly when the *second* character is an alignment -/
def pyFillAlign : List Nat → Option Nat × Option Nat × List Nat
  | f :: a :: rest =>
    if isAlign a then (some f, some a, rest)
    else if isAlign f then (none, some f, a :: rest)
    else (none, none, f :: a :: rest)
  | [a] => if isAlign a then (none, some a, []) else (none, none, [a])
  | [] => (none, none, [])

/-- one optional character from a class -/
def pyOpt (cls : Nat → Bool) : List Nat → Option Nat × List Nat
  | c :: rest => if cls c then (some c, rest) else (none, c :: rest)
  | [] => (none, [])

/-- one optional literal character -/
def pyFlag (ch : Nat) : List Nat → Bool × List Nat
  | c :: rest => if c = ch then (true, rest) else (false, c :: rest)
  | [] => (false, [])

/-- decimal value of a digit string -/
def decVal (ds : List Nat) : Nat := ds.foldl (fun a d => 10 * a + (d - 48)) 0

/-- `digit+`, optional -/
def pyNumber (t : List Nat) : Option Nat × List Nat :=
  let ds := t.takeWhile isDigit
  if ds.isEmpty then (none, t) else (some (decVal ds), t.dropWhile isDigit)

/-- `["." precision]`; a `.` must be followed by at least one digit (outer `none`) -/
def pyPrecision : List Nat → Option (Option Nat × List Nat)
  | 46 :: rest =>
    match pyNumber rest with
    | (some n, r) => some (some n, r)
    | (none, _) => none
  | t => some (none, t)

def pyParseSpec (s : List Nat) : Option PySpec :=
  let (fill, align, t) := pyFillAlign s
  let (sign, t) := pyOpt isSign t
  let (z, t) := pyFlag 122 t
  let (alt, t) := pyFlag 35 t
  let (zero, t) := pyFlag 48 t
  let (width, t) := pyNumber t
  let (grouping, t) := pyOpt isGrouping t
  match pyPrecision t with
  | none => none
  | some (precision, t) =>
    let (type, t) := pyOpt isType t
    if t.isEmpty then some { fill, align, sign, z, alt, zero, width, grouping, precision, type }
    else none

/-! ## fill, alignment, width -/

/-- fill character in force: explicit, else `0` when the zero flag is given, else space -/
def effFill (p : PySpec) : Nat := p.fill.getD (if p.zero then 48 else 32)

/-- alignment in force for numbers: explicit, else `=` when the zero flag is given, else `>` -/
def effAlignNum (p : PySpec) : Nat := p.align.getD (if p.zero then 61 else 62)

/-- "sign-aware zero padding": fill `0` with alignment `=` -/
def zeroEq (p : PySpec) : Bool := effFill p = 48 && effAlignNum p = 61

/-- Pad `lead ++ body` (sign/prefix, then the rest) to `width` characters.
    `<` left, `>` right, `^` centred (the extra fill character goes to the right), `=` puts the
    padding between `lead` and `body`. -/
def pyPad (fill align width : Nat) (lead body : List Nat) : List Nat :=
  let n := width - (lead.length + body.length)
  if align = 60 then lead ++ body ++ List.replicate n fill
  else if align = 62 then List.replicate n fill ++ lead ++ body
  else if align = 61 then lead ++ List.replicate n fill ++ body
  else List.replicate (n / 2) fill ++ lead ++ body ++ List.replicate (n - n / 2) fill

/-! ## digit grouping -/

/-- walk the digits from the least significant one; after every `k` digits, if more follow, a
    separator (`i` = digits already emitted in the current group) -/
def groupRev (k sep : Nat) : Nat → List Nat → List Nat
  | _, [] => []
  | i, d :: rest => if i = k then sep :: d :: groupRev k sep 1 rest else d :: groupRev k sep (i + 1) rest

/-- `1234567 ↦ 1,234,567` -/
def groupRight (k sep : Nat) (ds : List Nat) : List Nat := (groupRev k sep 0 ds.reverse).reverse

def padSearch (k sep w : Nat) : Nat → List Nat → List Nat
  | 0, ds => groupRight k sep ds
  | fuel + 1, ds =>
    let g := groupRight k sep ds
    if w ≤ g.length then g else padSearch k sep w fuel (48 :: ds)

/-- grouping under sign-aware zero padding: zeros are added on the left, one at a time, until the
    grouped text has at least `w` characters (so it never starts with a separator and may come out
    one longer than `w`) -/
def pyGroupPad (k sep w : Nat) (ds : List Nat) : List Nat := padSearch k sep w w ds

/-! ## numbers: sign, prefix, integer digits, remainder -/

def signText (p : PySpec) (negative : Bool) : List Nat :=
  if negative then [45]
  else match p.sign with
    | some 43 => [43]
    | some 32 => [32]
    | _ => []

/-- Assemble a number from its sign/prefix, the digits before the point and everything after them
    (`k` = group size). -/
def assemble (p : PySpec) (lead intDigits remainder : List Nat) (k : Nat) : List Nat :=
  let w := p.width.getD 0
  let intPart :=
    match p.grouping with
    | none => intDigits
    | some sep =>
      if intDigits.isEmpty then []                       -- inf / nan: nothing to group
      else if zeroEq p then pyGroupPad k sep (w - lead.length - remainder.length) intDigits
      else groupRight k sep intDigits
  pyPad (effFill p) (effAlignNum p) w lead (intPart ++ remainder)

/-! ## float -/

open PV.Dec in
/-- `e±XX` with at least two exponent digits -/
def expText (upper : Bool) (e : Int) : List Nat :=
  let ds := natDigits e.natAbs
  (if upper then 69 else 101) :: (if e < 0 then 45 else 43) ::
    showDigits (if ds.length < 2 then 0 :: ds else ds)

def stripZeros (ds : List Nat) : List Nat :=
  match (ds.reverse.dropWhile (· == 0)).reverse with
  | [] => [0]
  | l => l

/-- `.` + fraction digits, or a bare `.` in alternate form, or nothing -/
def fracText (frac : List Nat) (alt : Bool) : List Nat :=
  if !frac.isEmpty then 46 :: PV.Dec.showDigits frac else if alt then [46] else []

/-- lay out significant digits `ds` (value `d0.d1d2… × 10^e`) either with an exponent or
    positionally; `dot0` appends `.0` to a positional result without fraction.
    Returns (digits before the point, remainder). -/
def layout (ds : List Nat) (e : Int) (useExp upper alt dot0 : Bool) : List Nat × List Nat :=
  if useExp then
    match ds with
    | [] => ([], [])
    | d :: rest => ([48 + d], fracText rest alt ++ expText upper e)
  else
    let (ip, fp) :=
      if e < 0 then ([0], List.replicate (-e - 1).toNat 0 ++ ds)
      else
        let n := e.toNat + 1
        (ds.take n ++ List.replicate (n - ds.length) 0, ds.drop n)
    let fp := if fp.isEmpty ∧ dot0 then [0] else fp
    (PV.Dec.showDigits ip, fracText fp alt)

def isUpperType (t : Option Nat) : Bool := t = some 69 || t = some 70 || t = some 71

def allZero (ds : List Nat) : Bool := ds.all (· == 0)

open PV.Dec in
/-- magnitude of a finite non-negative double under the spec: (digits before the point, remainder,
    "every printed digit is zero") -/
def floatBody (p : PySpec) (mag : Nat) : Option (List Nat × List Nat × Bool) :=
  let upper := isUpperType p.type
  let fixed (mag prec : Nat) (suffix : List Nat) : List Nat × List Nat × Bool :=
    let n := fixedInt mag prec
    let ds := natDigits n
    let ds := List.replicate (prec + 1 - ds.length) 0 ++ ds
    (showDigits (ds.take (ds.length - prec)), fracText (ds.drop (ds.length - prec)) p.alt ++ suffix, n == 0)
  let general (prec : Nat) (dot0 : Bool) : List Nat × List Nat × Bool :=
    let prec := if prec = 0 then 1 else prec
    let (ds, e) := expDigits mag (prec - 1)
    let useExp := e < -4 || e ≥ ((if dot0 then prec - 1 else prec : Nat) : Int)
    let ds' := if p.alt then ds else stripZeros ds
    let (a, b) := layout ds' e useExp upper p.alt dot0
    (a, b, allZero ds)
  match p.type with
  | some 102 | some 70 => some (fixed mag (p.precision.getD 6) [])
  | some 37 =>
    let (_, m, e) := decompose mag
    let (num, den) := ratOf m e
    let m100 := ofRat false (num * 100) den
    if isInf m100 then some ([], [105, 110, 102, 37], false)
    else some (fixed m100 (p.precision.getD 6) [37])
  | some 101 | some 69 =>
    let prec := p.precision.getD 6
    let (ds, e) := expDigits mag prec
    let (a, b) := layout ds e true upper p.alt false
    some (a, b, allZero ds)
  | some 103 | some 71 | some 110 => some (general (p.precision.getD 6) false)
  | none =>
    match p.precision with
    | some prec => some (general prec true)
    | none =>
      let (ds, e) := shortest mag true
      let (a, b) := layout ds e (e < -4 || e ≥ 16) false p.alt true
      some (a, b, allZero ds)
  | _ => none

def nonFinite (p : PySpec) (bits : Nat) : List Nat :=
  let t := if PV.Dec.isNan bits then [110, 97, 110] else [105, 110, 102]
  let t := if isUpperType p.type then t.map (· - 32) else t
  if p.type = some 37 then t ++ [37] else t

/-- `format(x, spec)` for a double given by its bit pattern -/
def pyFormatFloat (p : PySpec) (bits : Nat) : Option (List Nat) :=
  let mag := bits % 2 ^ 63
  let neg := PV.Dec.isNeg bits && !PV.Dec.isNan bits
  match p.grouping, p.type with
  | some 44, some 110 | some 95, some 110 => none                -- no grouping with `n`
  | _, _ =>
    if p.precision.getD 0 > 2147483647 then none else             -- "precision too big" (a C int)
    if !PV.Dec.isFinite bits then
      match floatBody p 0 with
      | none => none
      | some _ => some (assemble p (signText p neg) [] (nonFinite p bits) 3)
    else
      match floatBody p mag with
      | none => none
      | some (ip, rest, zero) =>
        let neg := if p.z ∧ zero then false else neg
        some (assemble p (signText p neg) ip rest 3)

/-! ## int, str, bool -/

def digitChar (d : Nat) (upper : Bool) : Nat :=
  if d < 10 then 48 + d else if upper then 55 + d else 87 + d

def radixGo (radix : Nat) (upper : Bool) : Nat → Nat → List Nat → List Nat
  | 0, _, acc => acc
  | fuel + 1, n, acc =>
    if n < radix then digitChar n upper :: acc
    else radixGo radix upper fuel (n / radix) (digitChar (n % radix) upper :: acc)

/-- positional notation of `n` in base `radix` -/
def toRadix (n radix : Nat) (upper : Bool) : List Nat := radixGo radix upper (Nat.log2 n + 1) n []

/-- `float(n)`: nearest double, half-even; `none` = OverflowError -/
def intToFloat (n : Int) : Option Nat :=
  let b := PV.Dec.ofRat (n < 0) n.natAbs 1
  if PV.Dec.isInf b then none else some b

def isFloatType (t : Option Nat) : Bool :=
  t = some 101 || t = some 69 || t = some 102 || t = some 70 || t = some 103 || t = some 71 || t = some 37

def pyFormatInt (p : PySpec) (n : Int) : Option (List Nat) :=
  if isFloatType p.type then (intToFloat n).bind (pyFormatFloat p)
  else if p.z then none
  else
    let radixCase (radix : Nat) (upper : Bool) (pfx : List Nat) (k : Nat) (commaOk sepOk : Bool) :=
      if p.precision.isSome then none
      else if (p.grouping = some 44 ∧ !commaOk) ∨ (p.grouping = some 95 ∧ !sepOk) then none
      else
        let lead := signText p (n < 0) ++ (if p.alt then pfx else [])
        some (assemble p lead (toRadix n.natAbs radix upper) [] k)
    match p.type with
    | none | some 100 => radixCase 10 false [] 3 true true
    | some 110 => radixCase 10 false [] 3 false false
    | some 98 => radixCase 2 false [48, 98] 4 false true
    | some 111 => radixCase 8 false [48, 111] 4 false true
    | some 120 => radixCase 16 false [48, 120] 4 false true
    | some 88 => radixCase 16 true [48, 88] 4 false true
    | some 99 =>
      if p.sign.isSome ∨ p.alt ∨ p.precision.isSome ∨ p.grouping.isSome then none
      else if n < 0 ∨ n > 0x10ffff then none
      else some (pyPad (effFill p) (effAlignNum p) (p.width.getD 0) [] [n.toNat])
    | _ => none

def pyFormatStr (p : PySpec) (s : List Nat) : Option (List Nat) :=
  if p.z ∨ p.sign.isSome ∨ p.alt ∨ p.grouping.isSome ∨ p.align = some 61 then none
  else if p.type ≠ none ∧ p.type ≠ some 115 then none
  else
    let t := match p.precision with
      | some n => s.take n
      | none => s
    some (pyPad (effFill p) (p.align.getD 60) (p.width.getD 0) [] t)

inductive PyValue where
  | int (n : Int) | float (bits : Nat) | str (s : List Nat) | bool (b : Bool)
deriving Repr, DecidableEq

/-- `format(value, spec)`; `none` = raises -/
def pyFormat (spec : List Nat) (v : PyValue) : Option (List Nat) :=
  match pyParseSpec spec with
  | none => none
  | some p =>
    match v with
    | .int n => pyFormatInt p n
    | .float b => pyFormatFloat p b
    | .str s => pyFormatStr p s
    | .bool b =>
      -- `bool` has no `__format__` of its own: the empty spec gives `str(b)`, any other the int
      if spec.isEmpty then some (if b then [84, 114, 117, 101] else [70, 97, 108, 115, 101])
      else pyFormatInt p (if b then 1 else 0)

end PV.C18.Spec
