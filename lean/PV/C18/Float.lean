import PV.C18.Lemmas
import PV.C17.Clamp
/-
  C18 — float formatting: lemmas for `format_float_eq_partial` (Thm.lean).

  1. digit-level reading of the texts `literal/src/float.rs` produces for a finite non-negative double
     (`formatFixed_digits`, `formatExponent_digits`, `generalCore_digits`), on top of the clamp lemmas of
     `PV.C17.Clamp` (so: every precision);
  2. `add_magnitude_separators` + `format_sign_and_align` on a float text `ip ++ rest` are Python's
     `assemble` (`float_assemble`): only the leading integer digits are grouped, sign-aware zero padding
     extends them, `inf`/`nan` get plain zeros;
  3. trailing-zero stripping on digit lists (`stripZeros_*`), and `general_eq_layout`: the `%g` text is the
     reference's layout of the `%e` digits, given `GenDigits` (rounding to P significant digits and to
     P-1-X decimals agree) — which `genDigits_all` proves for every double and every P ≥ 1 (scale
     invariance of round-half-even, and the carry case 9.99…→10.0);
  4. `repr_eq_layout` (relative to `ReprDigits`), `floatMagnitude_eq`, `formatFloat_eq`.
-/
namespace PV.C18
open Spec PV.Dec
open PV.C17.Spec (dropTrailingZeroDigits)

/-! ## digit-level reading of the float texts -/

/-- integer and fraction digits of `{:.prec$}` on `mag` -/
def fixedIp (mag prec : Nat) : List Nat :=
  (PV.C17.fixedPadded mag prec).take ((PV.C17.fixedPadded mag prec).length - prec)
def fixedFp (mag prec : Nat) : List Nat :=
  (PV.C17.fixedPadded mag prec).drop ((PV.C17.fixedPadded mag prec).length - prec)

theorem fixedFp_length (mag prec : Nat) : (fixedFp mag prec).length = prec := by
  unfold fixedFp
  have := PV.C17.fixedPadded_length mag prec
  simp; omega

theorem fixedIp_ne_nil (mag prec : Nat) : fixedIp mag prec ≠ [] := by
  unfold fixedIp
  have := PV.C17.fixedPadded_length mag prec
  intro h
  have := congrArg List.length h
  simp at this; omega

theorem toFixedL_nonneg (mag prec : Nat) (hf : isFinite mag = true) (hs : isNeg mag = false) :
    toFixedL mag prec =
      showDigits (fixedIp mag prec) ++ (if prec = 0 then [] else 46 :: showDigits (fixedFp mag prec)) := by
  unfold toFixedL fixedIp fixedFp PV.C17.fixedPadded
  simp only [PV.C17.finite_not_nan hf, PV.C17.finite_not_inf hf, hs, Bool.false_eq_true, if_false, List.nil_append]
  by_cases h : prec = 0 <;> simp [h]

/-- `format_fixed` on a finite non-negative double, as digits: integer digits, then Python's fraction text -/
theorem formatFixed_digits (prec mag : Nat) (up alt : Bool) (hf : isFinite mag = true) (hs : isNeg mag = false) :
    PV.C17.formatFixed prec mag up alt =
      showDigits (fixedIp mag prec) ++ fracText (fixedFp mag prec) alt := by
  rw [PV.C17.formatFixed_unclamped, if_pos hf, toFixedL_nonneg mag prec hf hs]
  have hl := fixedFp_length mag prec
  unfold fracText PV.C17.decimalPointOrEmpty
  by_cases h : prec = 0
  · subst h
    have : fixedFp mag 0 = [] := List.eq_nil_of_length_eq_zero (by omega)
    cases alt <;> simp [this]
  · have : (fixedFp mag prec).isEmpty = false := by
      cases hh : fixedFp mag prec with
      | nil => rw [hh] at hl; simp at hl; omega
      | cons a b => rfl
    simp [h, this]

theorem expText_eq (up : Bool) (e : Int) : expText up e = PV.C17.eChar up :: PV.C17.expSuffix e := rfl

theorem toExpL_nonneg (mag prec : Nat) (hs : isNeg mag = false) :
    (toExpL mag prec).1 = showDigits ((expDigits mag prec).1.take 1) ++
      (if prec = 0 then [] else 46 :: showDigits ((expDigits mag prec).1.drop 1)) ∧
    (toExpL mag prec).2 = (expDigits mag prec).2 := by
  unfold toExpL
  have hl := expDigits_length mag prec
  generalize expDigits mag prec = ed at *
  obtain ⟨ds, x⟩ := ed
  match ds, hl with
  | d :: rest, _ =>
    by_cases h : prec = 0 <;> simp [hs, h, showDigits]

/-- `format_exponent` on a finite non-negative double, as digits -/
theorem formatExponent_digits (prec mag : Nat) (up alt : Bool) (hf : isFinite mag = true) (hs : isNeg mag = false) :
    PV.C17.formatExponent prec mag up alt =
      showDigits ((expDigits mag prec).1.take 1) ++
        (fracText ((expDigits mag prec).1.drop 1) alt ++ expText up (expDigits mag prec).2) := by
  rw [PV.C17.formatExponent_unclamped, if_pos hf, expText_eq]
  obtain ⟨h1, h2⟩ := toExpL_nonneg mag prec hs
  rw [h1, h2]
  have hl := expDigits_length mag prec
  generalize expDigits mag prec = ed at *
  obtain ⟨ds, x⟩ := ed
  simp only at hl ⊢
  unfold fracText PV.C17.decimalPointOrEmpty
  match ds, hl with
  | d :: rest, hl =>
    simp only [List.length_cons] at hl
    by_cases h : prec = 0
    · subst h
      have : rest = [] := List.eq_nil_of_length_eq_zero (by omega)
      subst this
      cases alt <;> simp
    · have : rest.isEmpty = false := by
        cases rest with
        | nil => simp at hl; omega
        | cons a b => rfl
      simp [h, this]

/-- the body of `format_general` on a finite non-negative double, as digits (for both flavours:
    `%g` and the no-type presentation `always_shows_fract`) -/
theorem generalCore_digits (P mag : Nat) (up alt asf : Bool) (hP : 1 ≤ P)
    (hf : isFinite mag = true) (hs : isNeg mag = false) :
    PV.C17.formatGeneralCore P mag up alt asf =
      if (expDigits mag (P - 1)).2 < -4 ∨ (expDigits mag (P - 1)).2 + (if asf then 1 else 0) ≥ (P : Int) then
        showDigits ((expDigits mag (P - 1)).1.take 1) ++
          (fracText (if alt then (expDigits mag (P - 1)).1.drop 1
                     else dropTrailingZeroDigits ((expDigits mag (P - 1)).1.drop 1)) alt ++
            expText up (expDigits mag (P - 1)).2)
      else
        showDigits (fixedIp mag ((P : Int) - 1 - (expDigits mag (P - 1)).2).toNat) ++
          fracText
            (if (if alt then fixedFp mag ((P : Int) - 1 - (expDigits mag (P - 1)).2).toNat
                 else dropTrailingZeroDigits (fixedFp mag ((P : Int) - 1 - (expDigits mag (P - 1)).2).toNat)).isEmpty ∧ asf
             then [0]
             else (if alt then fixedFp mag ((P : Int) - 1 - (expDigits mag (P - 1)).2).toNat
                   else dropTrailingZeroDigits (fixedFp mag ((P : Int) - 1 - (expDigits mag (P - 1)).2).toNat))) alt := by
  rw [PV.C17.formatGeneralCore_unclamped P mag up alt asf hs, if_pos hf]
  obtain ⟨h1, h2⟩ := toExpL_nonneg mag (P - 1) hs
  have hlen := PV.C17.toExpL_length mag (P - 1) hs
  rw [h2]
  have hl := expDigits_length mag (P - 1)
  by_cases hc : (expDigits mag (P - 1)).2 < -4 ∨ (expDigits mag (P - 1)).2 + (if asf then 1 else 0) ≥ (P : Int)
  · rw [if_pos hc, if_pos hc]
    have htake : (toExpL mag (P - 1)).1.take (P + 1) = (toExpL mag (P - 1)).1 :=
      List.take_of_length_le (by rw [hlen]; split <;> omega)
    rw [htake, h1, expText_eq]
    generalize expDigits mag (P - 1) = ed at *
    obtain ⟨ds, x⟩ := ed
    simp only at hl ⊢
    match ds, hl with
    | d :: rest, hl =>
      simp only [List.length_cons] at hl
      unfold PV.C17.decimalPointOrEmpty fracText
      by_cases h0 : P - 1 = 0
      · have : rest = [] := List.eq_nil_of_length_eq_zero (by omega)
        subst this
        simp only [h0, if_true, List.append_nil, List.take_succ_cons, List.take_zero, List.drop_succ_cons,
          List.drop_zero]
        rw [PV.C17.maybeRemove_nopoint]
        cases alt <;> simp [dropTrailingZeroDigits]
      · simp only [h0, if_false, List.take_succ_cons, List.take_zero, List.drop_succ_cons, List.drop_zero, false_and]
        have := PV.C17.maybeRemove_point [d] rest alt
        simp only [showDigits, List.map_cons, List.map_nil, List.cons_append, List.nil_append] at this ⊢
        rw [this]
        have hrne : rest.isEmpty = false := by
          cases rest with
          | nil => simp at hl; omega
          | cons a b => rfl
        cases alt
        · simp only [Bool.false_eq_true, if_false]
          split <;> simp_all
        · simp [hrne]
  · rw [if_neg hc, if_neg hc]
    generalize hx : (expDigits mag (P - 1)).2 = x at *
    generalize hfp : ((P : Int) - 1 - x).toNat = fprec
    have hasf : asf = true → 1 ≤ fprec := by
      intro ha; subst ha; simp at hc; omega
    rw [toFixedL_nonneg mag fprec hf hs]
    have hfl := fixedFp_length mag fprec
    generalize fixedIp mag fprec = ip at *
    generalize fixedFp mag fprec = fp at *
    unfold PV.C17.decimalPointOrEmpty fracText
    by_cases h0 : fprec = 0
    · have hfalse : asf = false := by
        cases asf with
        | false => rfl
        | true => have := hasf rfl; omega
      have : fp = [] := List.eq_nil_of_length_eq_zero (by omega)
      subst this; subst hfalse
      simp only [h0, if_true, List.append_nil]
      rw [PV.C17.maybeRemove_nopoint]
      cases alt <;> simp [dropTrailingZeroDigits]
    · have hne : fp.isEmpty = false := by
        cases fp with
        | nil => simp at hfl; omega
        | cons a b => rfl
      simp only [h0, if_false, false_and]
      rw [PV.C17.maybeRemove_point]
      cases alt
      · simp only [Bool.false_eq_true, if_false]
        by_cases he : (dropTrailingZeroDigits fp).isEmpty = true
        · have : dropTrailingZeroDigits fp = [] := by simpa using he
          have hnp : ¬ (46 ∈ showDigits ip) := by
            have := PV.C17.showDigits_no_point ip
            simpa using this
          cases asf <;> simp [this, showDigits]
          intro x _; omega
        · have he' : (dropTrailingZeroDigits fp).isEmpty = false := by simpa using he
          simp [he']
      · simp [hne]

/-! ## grouping and alignment of a float text -/

/-- the text does not start with an ASCII digit -/
def noDigitHead : List Nat → Bool
  | [] => true
  | c :: _ => !Spec.isDigit c

theorem spanDigits_append (ip rest : List Nat) (hd : ip.all Spec.isDigit = true) (hr : noDigitHead rest = true) :
    spanDigits (ip ++ rest) = (ip, rest) := by
  induction ip with
  | nil =>
    cases rest with
    | nil => rfl
    | cons c r =>
      simp only [noDigitHead, Bool.not_eq_true'] at hr
      have : PV.C18.isDigit c = false := hr
      simp [spanDigits, this]
  | cons d ds ih =>
    simp only [List.all_cons, Bool.and_eq_true] at hd
    have : PV.C18.isDigit d = true := hd.1
    simp [spanDigits, this, ih hd.2]

/-- `add_magnitude_separators_for_char` on a float text: the leading digits are grouped (and
    zero-extended to `w` digits-and-separators), the rest is left alone; a text without leading
    digits (`inf`, `nan`) only gets the zeros -/
theorem addSepForChar_float (ip rest : List Nat) (sep : Nat) (disp : Int) (w : Nat)
    (hd : ip.all Spec.isDigit = true) (hr : noDigitHead rest = true)
    (hdisp : disp - rest.length = max (w : Int) ip.length) :
    addSepForChar (ip ++ rest) 3 sep disp =
      some ((if ip.isEmpty then List.replicate w 48 else pyGroupPad 3 sep w ip) ++ rest) := by
  unfold addSepForChar
  have hsp : splitIntPart 3 (ip ++ rest) = (ip, rest) := by
    unfold splitIntPart
    simp [spanDigits_append ip rest hd hr]
  rw [hsp]
  simp only []
  by_cases hemp : ip = []
  · subst hemp
    simp only [List.isEmpty_nil, if_true, List.length_nil] at hdisp ⊢
    congr 3
    omega
  · have hne : ip.isEmpty = false := by
      cases ip with
      | nil => exact absurd rfl hemp
      | cons a l => rfl
    simp only [hne, Bool.false_eq_true, if_false]
    rw [separateInteger_spec3 sep w ip hemp _ hdisp]

/-- the grouped (and, under sign-aware zero padding, zero-extended) integer digits that
    `add_magnitude_separators` produces for a float text `ip ++ rest` -/
def rsBodyF (r : FormatSpec) (ip rest pfx : List Nat) : List Nat :=
  match r.grouping with
  | none => ip
  | some g =>
    let w := if r.fill = some 48 ∧ numberAlign r = .afterSign
      then r.width.getD (ip.length + rest.length) - pfx.length - rest.length else 0
    if ip.isEmpty then List.replicate w 48 else pyGroupPad 3 (sepChar g) w ip

theorem addMagnitudeSeparators_float (r : FormatSpec) (ip rest pfx : List Nat)
    (hint : getSeparatorInterval r = 3) (hd : ip.all Spec.isDigit = true) (hr : noDigitHead rest = true)
    (hlen : ip.length + rest.length < 2 ^ 30) (hpl : pfx.length < 2 ^ 30)
    (hw : ∀ w, r.width = some w → w < 2 ^ 31) :
    addMagnitudeSeparators r (ip ++ rest) pfx = some (rsBodyF r ip rest pfx ++ rest) := by
  unfold addMagnitudeSeparators rsBodyF
  cases hg : r.grouping with
  | none => rfl
  | some g =>
    simp only [hint]
    have hl2 : (ip ++ rest).length = ip.length + rest.length := List.length_append
    have hwv : r.width.getD (ip.length + rest.length) < 2 ^ 31 := by
      cases hwd : r.width with
      | none => simp; omega
      | some w => simpa using hw w hwd
    rw [hl2, wrapI32_small (ip.length + rest.length) (by omega)]
    have h3 : ((3 : Nat) : Int) = 3 := rfl
    rw [h3]
    by_cases hzp : r.fill = some 48 ∧ numberAlign r = .afterSign
    · simp only [hzp, and_self, if_true]
      rw [wrapI32_small _ hwv, wrapI32_small pfx.length (by omega)]
      rw [chkI32_ok _ (by omega) (by omega)]
      simp only []
      cases g <;> simp only [sepChar] <;>
        exact addSepForChar_float ip rest _ _ _ hd hr (by omega)
    · simp only [hzp, if_false]
      cases g <;> simp only [sepChar] <;>
        exact addSepForChar_float ip rest _ _ 0 hd hr (by omega)

theorem rsBodyF_length (r : FormatSpec) (ip rest pfx : List Nat) (hw : r.width.getD 0 < 2 ^ 30)
    (hlen : ip.length + rest.length < 2 ^ 30) :
    (rsBodyF r ip rest pfx).length + rest.length ≤ 2 ^ 30 + 2 ^ 29 := by
  unfold rsBodyF
  cases hg : r.grouping with
  | none => simp only []; omega
  | some g =>
    have hwd : r.width.getD (ip.length + rest.length) < 2 ^ 30 := by
      cases h : r.width with
      | none => simpa using hlen
      | some w => rw [h] at hw; simpa using hw
    simp only []
    have hwb : (if r.fill = some 48 ∧ numberAlign r = .afterSign
          then r.width.getD (ip.length + rest.length) - pfx.length - rest.length else 0) + rest.length
          ≤ max (2 ^ 30) rest.length := by
      split <;> omega
    generalize (if r.fill = some 48 ∧ numberAlign r = .afterSign
          then r.width.getD (ip.length + rest.length) - pfx.length - rest.length else 0) = w at *
    split
    · simp only [List.length_replicate]; omega
    · unfold pyGroupPad
      have := padSearch_length3 (sepChar g) w w ip
      omega

/-- grouping, zero padding and alignment of a float text `ip ++ rest` (integer digits, then fraction /
    exponent / `%` / `inf`) are Python's `assemble` -/
theorem float_assemble (p : PySpec) (wf : WfSpec p) (lead ip rest : List Nat)
    (hd : ip.all Spec.isDigit = true) (hr : noDigitHead rest = true)
    (hlen : ip.length + rest.length < 2 ^ 30) (hlead : lead.length ≤ 1)
    (hw : p.width.getD 0 < 2 ^ 30) (hint : getSeparatorInterval (normOf p) = 3) :
    ((Res.ofOption (addMagnitudeSeparators (normOf p) (ip ++ rest) lead)).bind fun mag =>
      Res.ofOption (formatSignAndAlign (normOf p) mag mag.length lead (numberAlign (normOf p)))) =
    .ok (assemble p lead ip rest 3) := by
  have hwd : (normOf p).width = p.width := rfl
  have hw' : ∀ w, (normOf p).width = some w → w < 2 ^ 31 := by
    intro w h; rw [hwd] at h; rw [h] at hw; simp at hw; omega
  rw [addMagnitudeSeparators_float (normOf p) ip rest lead hint hd hr hlen (by omega) hw']
  simp only [Res.ofOption, Res.bind]
  have hbl := rsBodyF_length (normOf p) ip rest lead (by rw [hwd]; exact hw) hlen
  rw [formatSignAndAlign_eq (normOf p) _ lead _ (numberAlign (normOf p)) hw'
    (by simp only [List.length_append]; omega) rfl]
  rw [normOf_fill, normOf_alignNum p wf, hwd, assemble_eq]
  simp only []
  congr 1
  -- the padded bodies agree
  unfold rsBodyF pyIntPart
  have hgr : (normOf p).grouping = p.grouping.bind groupingOfChar := rfl
  rw [hgr, hwd]
  cases hg : p.grouping with
  | none => rfl
  | some g =>
    have hgg := wf.grouping g hg
    simp only [isGrouping, Bool.or_eq_true, decide_eq_true_eq] at hgg
    obtain ⟨x, hx1, hx2⟩ : ∃ x, groupingOfChar g = some x ∧ sepChar x = g := by
      rcases hgg with h | h <;> subst h <;> exact ⟨_, rfl, rfl⟩
    simp only [Option.bind_some, hx1, hx2]
    have hzp := normOf_zeroPadded p wf
    by_cases hemp : ip = []
    · subst hemp
      simp only [List.isEmpty_nil, if_true, List.nil_append, List.length_nil, Nat.zero_add]
      by_cases hz : zeroEq p = true
      · rw [if_pos (hzp.mpr hz)]
        have hz' := hz
        simp only [zeroEq, Bool.and_eq_true, decide_eq_true_eq] at hz'
        obtain ⟨hf, ha⟩ := hz'
        rw [hf, ha]
        unfold pyPad
        simp only [Nat.reduceEqDiff, if_false, if_true, List.length_append, List.length_replicate]
        cases hwdt : p.width with
        | none => simp
        | some W =>
          simp only [Option.getD_some, List.append_assoc, List.append_cancel_left_eq]
          rw [← List.append_assoc, List.replicate_append_replicate]
          congr 2; omega
      · rw [if_neg (fun h => hz (hzp.mp h))]
        simp
    · have hne : ip.isEmpty = false := by
        cases ip with
        | nil => exact absurd rfl hemp
        | cons a l => rfl
      simp only [hne, Bool.false_eq_true, if_false]
      have e2 : pyGroupPad 3 g 0 ip = groupRight 3 g ip := pyGroupPad_small3 g _ ip (by omega)
      by_cases hz : zeroEq p = true
      · rw [if_pos (hzp.mpr hz)]
        simp only [hz, if_true]
        cases hwdt : p.width with
        | none =>
          simp only [Option.getD_none, Nat.zero_sub]
          have e1 : pyGroupPad 3 g (ip.length + rest.length - lead.length - rest.length) ip = groupRight 3 g ip :=
            pyGroupPad_small3 g _ ip (by omega)
          rw [e1, e2]
        | some w => simp
      · have hz' : zeroEq p = false := by simpa using hz
        rw [if_neg (fun h => hz (hzp.mp h))]
        simp only [hz', Bool.false_eq_true, if_false]
        rw [e2]

/-! ## trailing zeros of digit lists -/

theorem dropWhile_zeros (k : Nat) (Y : List Nat) :
    (List.replicate k 0 ++ Y).dropWhile (· == 0) = Y.dropWhile (· == 0) := by
  induction k with
  | zero => rfl
  | succ k ih => simp [List.replicate_succ, ih]

theorem dropT_append_zeros (X : List Nat) (k : Nat) :
    dropTrailingZeroDigits (X ++ List.replicate k 0) = dropTrailingZeroDigits X := by
  unfold dropTrailingZeroDigits
  rw [List.reverse_append, List.reverse_replicate, dropWhile_zeros]

theorem dropT_zeros (k : Nat) : dropTrailingZeroDigits (List.replicate k 0) = [] := by
  have := dropT_append_zeros [] k
  simp only [List.nil_append] at this
  rw [this]; rfl

/-- a list ending in a non-zero digit has nothing to strip -/
theorem dropT_snoc (X : List Nat) (d : Nat) (hd : d ≠ 0) :
    dropTrailingZeroDigits (X ++ [d]) = X ++ [d] := by
  unfold dropTrailingZeroDigits
  simp [List.reverse_append, hd]

theorem dropWhile_decomp (r : List Nat) :
    ∃ k, r = List.replicate k 0 ++ r.dropWhile (· == 0) ∧
      (r.dropWhile (· == 0) = [] ∨ ∃ d Y, r.dropWhile (· == 0) = d :: Y ∧ d ≠ 0) := by
  induction r with
  | nil => exact ⟨0, rfl, Or.inl rfl⟩
  | cons a r ih =>
    by_cases ha : a = 0
    · subst ha
      obtain ⟨k, h1, h2⟩ := ih
      refine ⟨k + 1, ?_, by simpa using h2⟩
      simp only [List.replicate_succ, List.cons_append, List.dropWhile_cons, beq_self_eq_true, if_true]
      rw [← h1]
    · exact ⟨0, by simp [ha], Or.inr ⟨a, r, by simp [ha], ha⟩⟩

/-- every digit list is its stripped part followed by zeros; the stripped part is empty or ends in a
    non-zero digit -/
theorem dropT_decomp (ds : List Nat) :
    ∃ k, ds = dropTrailingZeroDigits ds ++ List.replicate k 0 ∧
      (dropTrailingZeroDigits ds = [] ∨ ∃ X d, dropTrailingZeroDigits ds = X ++ [d] ∧ d ≠ 0) := by
  obtain ⟨k, h1, h2⟩ := dropWhile_decomp ds.reverse
  refine ⟨k, ?_, ?_⟩
  · have := congrArg List.reverse h1
    simp only [List.reverse_reverse, List.reverse_append, List.reverse_replicate] at this
    exact this
  · unfold dropTrailingZeroDigits
    rcases h2 with h2 | ⟨d, Y, h2, hd⟩
    · left; rw [h2]; rfl
    · right; exact ⟨Y.reverse, d, by rw [h2]; simp, hd⟩

theorem stripZeros_eq (ds : List Nat) :
    stripZeros ds = if dropTrailingZeroDigits ds = [] then [0] else dropTrailingZeroDigits ds := by
  unfold stripZeros dropTrailingZeroDigits
  split <;> simp_all

theorem stripZeros_cons (d : Nat) (tail : List Nat) :
    stripZeros (d :: tail) = d :: dropTrailingZeroDigits tail := by
  rw [stripZeros_eq]
  obtain ⟨k, h1, h2⟩ := dropT_decomp tail
  rcases h2 with h2 | ⟨X, e, h2, he⟩
  · rw [h2] at h1 ⊢
    simp only [List.nil_append] at h1
    rw [h1]
    by_cases hd : d = 0
    · subst hd
      have : dropTrailingZeroDigits (0 :: List.replicate k 0) = [] := by
        have := dropT_zeros (k + 1); rwa [List.replicate_succ] at this
      simp [this]
    · have : dropTrailingZeroDigits (d :: List.replicate k 0) = [d] := by
        have := dropT_append_zeros [d] k
        rw [show [d] ++ List.replicate k 0 = d :: List.replicate k 0 by rfl] at this
        rw [this]; exact dropT_snoc [] d hd
      simp [this]
  · have : dropTrailingZeroDigits (d :: tail) = d :: dropTrailingZeroDigits tail := by
      conv => lhs; rw [h1, h2]
      rw [show d :: ((X ++ [e]) ++ List.replicate k 0) = ((d :: X) ++ [e]) ++ List.replicate k 0 by simp]
      rw [dropT_append_zeros, dropT_snoc _ _ he, h2]; simp
    rw [this]; simp

theorem stripZeros_take (ds : List Nat) (n : Nat) (h1 : 1 ≤ n) (h2 : n ≤ ds.length) :
    (stripZeros ds).take n ++ List.replicate (n - (stripZeros ds).length) 0 = ds.take n := by
  rw [stripZeros_eq]
  obtain ⟨k, hd, hA⟩ := dropT_decomp ds
  generalize dropTrailingZeroDigits ds = A at *
  subst hd
  by_cases hA0 : A = []
  · subst hA0
    simp only [List.nil_append, List.length_replicate, if_true, List.length_singleton] at h2 ⊢
    obtain ⟨m, rfl⟩ : ∃ m, n = m + 1 := ⟨n - 1, by omega⟩
    simp only [List.take_succ_cons, List.take_nil, Nat.add_sub_cancel, List.take_replicate]
    rw [show min (m + 1) k = m + 1 by omega, List.replicate_succ]; rfl
  · simp only [hA0, if_false, List.take_append, List.take_replicate]
    simp only [List.length_append, List.length_replicate] at h2
    congr 2; omega

theorem stripZeros_drop (ds : List Nat) (n : Nat) (h1 : 1 ≤ n) :
    (stripZeros ds).drop n = dropTrailingZeroDigits (ds.drop n) := by
  rw [stripZeros_eq]
  obtain ⟨k, hd, hA⟩ := dropT_decomp ds
  generalize dropTrailingZeroDigits ds = A at *
  subst hd
  rcases hA with hA | ⟨X, d, hA, hd0⟩
  · subst hA
    simp only [if_true, List.nil_append, List.drop_replicate, dropT_zeros]
    obtain ⟨m, rfl⟩ : ∃ m, n = m + 1 := ⟨n - 1, by omega⟩
    simp
  · subst hA
    have hne : X ++ [d] ≠ [] := by simp
    simp only [hne, if_false, List.drop_append, List.drop_replicate, dropT_append_zeros]
    by_cases hn : n ≤ X.length
    · have : [d].drop (n - X.length) = [d] := by
        have : n - X.length = 0 := by omega
        rw [this]; rfl
      rw [this, dropT_snoc _ _ hd0]
    · have e1 : X.drop n = [] := List.drop_eq_nil_of_le (by omega)
      have e2 : [d].drop (n - X.length) = [] := List.drop_eq_nil_of_le (by simp; omega)
      rw [e1, e2]; rfl

theorem dropT_zeros_append (j : Nat) (ds : List Nat) (hne : ds ≠ []) (hh : ds.head? ≠ some 0) :
    dropTrailingZeroDigits (List.replicate j 0 ++ ds) = List.replicate j 0 ++ stripZeros ds := by
  rw [stripZeros_eq]
  obtain ⟨k, hd, hA⟩ := dropT_decomp ds
  generalize dropTrailingZeroDigits ds = A at *
  subst hd
  rcases hA with hA | ⟨X, d, hA, hd0⟩
  · subst hA
    exfalso
    cases k with
    | zero => simp at hne
    | succ k => simp [List.replicate_succ] at hh
  · subst hA
    have hne' : X ++ [d] ≠ [] := by simp
    simp only [hne', if_false]
    rw [← List.append_assoc, dropT_append_zeros, ← List.append_assoc, dropT_snoc _ _ hd0]

/-! ## `%g` digits: the `%e` digits laid out positionally are the `%f` digits -/

/-- What fixed-style `%g` needs from digit generation (`PV.Dec`): rounding to `P` significant digits
    and rounding to `P - 1 - X` decimals (`X` the decimal exponent after rounding) give the same
    digits, and a non-zero value has a non-zero leading digit.  Decidable; evaluated by the driver. -/
def GenDigits (mag P : Nat) : Prop :=
  (-4 ≤ (expDigits mag (P - 1)).2 ∧ (expDigits mag (P - 1)).2 < (P : Int)) →
    PV.C17.fixedPadded mag ((P : Int) - 1 - (expDigits mag (P - 1)).2).toNat =
      List.replicate (-(expDigits mag (P - 1)).2).toNat 0 ++ (expDigits mag (P - 1)).1 ∧
    ((expDigits mag (P - 1)).2 < 0 → (expDigits mag (P - 1)).1.head? ≠ some 0)

instance (mag P : Nat) : Decidable (GenDigits mag P) := by unfold GenDigits; infer_instance

theorem general_eq_layout (P mag : Nat) (up alt asf : Bool) (hP : 1 ≤ P)
    (hf : isFinite mag = true) (hs : isNeg mag = false) (hg : GenDigits mag P) :
    PV.C17.formatGeneralCore P mag up alt asf =
      (layout (if alt then (expDigits mag (P - 1)).1 else stripZeros (expDigits mag (P - 1)).1)
        (expDigits mag (P - 1)).2
        ((expDigits mag (P - 1)).2 < -4 || (expDigits mag (P - 1)).2 ≥ ((if asf then P - 1 else P : Nat) : Int))
        up alt asf).1 ++
      (layout (if alt then (expDigits mag (P - 1)).1 else stripZeros (expDigits mag (P - 1)).1)
        (expDigits mag (P - 1)).2
        ((expDigits mag (P - 1)).2 < -4 || (expDigits mag (P - 1)).2 ≥ ((if asf then P - 1 else P : Nat) : Int))
        up alt asf).2 := by
  rw [generalCore_digits P mag up alt asf hP hf hs]
  have hl := expDigits_length mag (P - 1)
  unfold GenDigits at hg
  generalize expDigits mag (P - 1) = ed at *
  obtain ⟨ds, x⟩ := ed
  simp only at hl hg ⊢
  match ds, hl with
  | d :: tail, hl =>
  simp only [List.length_cons] at hl
  have hcond : (x < -4 ∨ x + (if asf then 1 else 0) ≥ (P : Int)) ↔
      ((decide (x < -4) || decide (x ≥ ((if asf then P - 1 else P : Nat) : Int))) = true) := by
    cases asf <;> simp <;> omega
  by_cases hc : x < -4 ∨ x + (if asf then 1 else 0) ≥ (P : Int)
  · rw [if_pos hc]
    have hc' := hcond.mp hc
    rw [hc']
    unfold layout
    simp only [if_true, List.take_succ_cons, List.take_zero, List.drop_succ_cons, List.drop_zero]
    cases alt
    · simp only [Bool.false_eq_true, if_false, stripZeros_cons]
      simp [showDigits]
    · simp [showDigits]
  · rw [if_neg hc]
    have hc' : (decide (x < -4) || decide (x ≥ ((if asf then P - 1 else P : Nat) : Int))) = false := by
      cases h : (decide (x < -4) || decide (x ≥ ((if asf then P - 1 else P : Nat) : Int)))
      · rfl
      · exact absurd (hcond.mpr h) hc
    rw [hc']
    have hrange : -4 ≤ x ∧ x < (P : Int) := by
      constructor
      · omega
      · cases asf <;> simp at hc <;> omega
    obtain ⟨hpad, hhead⟩ := hg hrange
    unfold layout fixedIp fixedFp
    rw [hpad]
    simp only [Bool.false_eq_true, if_false]
    by_cases hneg : x < 0
    · -- `0.000ddd`
      have hk : (-x).toNat = ((-x).toNat - 1) + 1 := by omega
      have hlen : (List.replicate (-x).toNat 0 ++ d :: tail).length - ((P : Int) - 1 - x).toNat = 1 := by
        simp only [List.length_append, List.length_replicate, List.length_cons]; omega
      rw [hlen, if_pos hneg]
      rw [hk, List.replicate_succ]
      simp only [List.cons_append, List.take_succ_cons, List.take_zero, List.drop_succ_cons, List.drop_zero]
      have hj : (-x - 1).toNat = (-x).toNat - 1 := by omega
      rw [hj]
      cases alt
      · simp only [Bool.false_eq_true, if_false]
        rw [dropT_zeros_append _ (d :: tail) (by simp) (hhead hneg)]
      · simp only [if_true]
    · -- `ddd.ddd`
      have hx0 : (-x).toNat = 0 := by omega
      rw [hx0, if_neg hneg]
      simp only [List.replicate_zero, List.nil_append]
      have hlen : (d :: tail).length - ((P : Int) - 1 - x).toNat = x.toNat + 1 := by
        simp only [List.length_cons]; omega
      rw [hlen]
      cases alt
      · simp only [Bool.false_eq_true, if_false]
        rw [stripZeros_take (d :: tail) (x.toNat + 1) (by omega) (by simp only [List.length_cons]; omega)]
        rw [stripZeros_drop (d :: tail) (x.toNat + 1) (by omega)]
      · simp only [if_true]
        have : (x.toNat + 1) - (d :: tail).length = 0 := by simp only [List.length_cons]; omega
        rw [this]
        cases asf <;> simp

/-! ## `GenDigits` holds for every double -/

theorem roundHalfEven_scale (a b c : Nat) (hc : 0 < c) :
    roundHalfEven (a * c) (b * c) = roundHalfEven a b := by
  unfold roundHalfEven
  simp only [Nat.mul_div_mul_right a b hc, Nat.mul_mod_mul_right]
  have e1 : 2 * (a % b * c) > b * c ↔ 2 * (a % b) > b := by
    rw [← Nat.mul_assoc]; exact Nat.mul_lt_mul_right hc
  have e2 : 2 * (a % b * c) = b * c ↔ 2 * (a % b) = b := by
    rw [← Nat.mul_assoc]; exact Nat.mul_right_cancel_iff hc
  simp only [e1, e2]

theorem le_roundHalfEven_strict (num den a : Nat) (hd : 0 < den) (h : 2 * (a * den) < 2 * num + den) :
    a ≤ roundHalfEven num den := by
  have h1 := Nat.div_add_mod num den
  have h2 := Nat.mod_lt num hd
  unfold roundHalfEven
  simp only
  generalize num / den = q at *
  generalize num % den = r at *
  have hqa : a ≤ q + 1 := by
    by_cases hc : a ≤ q + 1
    · exact hc
    · exfalso
      have : (q + 2) * den ≤ a * den := Nat.mul_le_mul_right _ (by omega)
      rw [Nat.add_mul, Nat.mul_comm q den] at this
      omega
  split
  · exact hqa
  · rename_i hnr
    by_cases hc : a ≤ q
    · exact hc
    · exfalso
      have ha : a = q + 1 := by omega
      subst ha
      rw [Nat.add_mul, Nat.mul_comm q den] at h
      omega

theorem natDigitsGo_head (fuel : Nat) : ∀ n acc, 0 < n → n < 10 ^ fuel →
    (natDigitsGo fuel n acc).head? ≠ some 0 := by
  induction fuel with
  | zero => intro n acc h0 hn; simp at hn; omega
  | succ f ih =>
    intro n acc h0 hn
    unfold natDigitsGo
    split
    · simp; omega
    · exact ih (n / 10) _ (by omega) (by rw [Nat.pow_succ] at hn; omega)

theorem natDigits_head (n : Nat) (h0 : 0 < n) : (natDigits n).head? ≠ some 0 :=
  natDigitsGo_head _ n [] h0 (lt_ten_pow_log2 n)

theorem carry_round (A den P10 : Nat) (hd : 0 < den) (H1 : 20 * (P10 * den) ≤ 20 * A + den)
    (H2 : A < P10 * den) : roundHalfEven A den = P10 := by
  apply Nat.le_antisymm
  · exact roundHalfEven_le A den P10 hd (Nat.le_of_lt H2)
  · apply le_roundHalfEven_strict A den P10 hd
    omega

theorem fixedInt_zero (mag prec : Nat) (hm : (decompose mag).2.1 = 0) : fixedInt mag prec = 0 := by
  unfold fixedInt
  simp only [hm]
  unfold ratOf
  split
  · simp [roundHalfEven]
  · have : 0 < 2 ^ (-(decompose mag).2.2).toNat := Nat.pow_pos (by omega)
    simp [roundHalfEven]

/-- `GenDigits` holds for every double and every `P ≥ 1`: rounding to `P` significant digits and
    rounding to `P - 1 - X` decimals (`X` the decimal exponent after rounding) give the same digits. -/
theorem genDigits_all (mag P : Nat) (hP : 1 ≤ P) : GenDigits mag P := by
  unfold GenDigits
  have he := expDigits_eq mag (P - 1)
  by_cases hm : (decompose mag).2.1 = 0
  · -- zero
    rw [if_pos hm] at he
    rw [he]
    intro _
    simp only [Int.sub_zero]
    refine ⟨?_, by intro h; omega⟩
    unfold PV.C17.fixedPadded
    rw [fixedInt_zero mag _ hm]
    have e : natDigits 0 = [0] := by decide
    have e1 : ((P : Int) - 1).toNat = P - 1 := by omega
    rw [e, e1]
    simp only [List.length_singleton, Int.neg_zero, Int.toNat_zero, List.replicate_zero, List.nil_append]
    rw [show P - 1 + 1 - 1 = P - 1 by omega, show ([0] : List Nat) = List.replicate 1 0 from rfl,
      List.replicate_append_replicate]
  · rw [if_neg hm] at he
    obtain ⟨hn, hd⟩ := ratOf_pos (decompose mag).2.1 (decompose mag).2.2 (by omega)
    obtain ⟨b1, b2⟩ := expRound_bounds _ _ (P - 1) hn hd
    obtain ⟨s1, s2⟩ := ilog10_spec _ _ hn hd
    have hd1 := scale10_den_pos (ratOf (decompose mag).2.1 (decompose mag).2.2).1 _
      (-(ilog10 (ratOf (decompose mag).2.1 (decompose mag).2.2).1
        (ratOf (decompose mag).2.1 (decompose mag).2.2).2)) hd
    have hhalf := roundHalfEven_half_unit
      ((scale10 (ratOf (decompose mag).2.1 (decompose mag).2.2).1 (ratOf (decompose mag).2.1 (decompose mag).2.2).2
        (-(ilog10 (ratOf (decompose mag).2.1 (decompose mag).2.2).1
          (ratOf (decompose mag).2.1 (decompose mag).2.2).2))).1 * 10 ^ (P - 1)) _ hd1
    have hfix : ∀ prec, fixedInt mag prec =
        roundHalfEven ((ratOf (decompose mag).2.1 (decompose mag).2.2).1 * 10 ^ prec)
          (ratOf (decompose mag).2.1 (decompose mag).2.2).2 := fun prec => rfl
    have hr : expRound (ratOf (decompose mag).2.1 (decompose mag).2.2).1
        (ratOf (decompose mag).2.1 (decompose mag).2.2).2 (P - 1) =
        roundHalfEven ((scale10 (ratOf (decompose mag).2.1 (decompose mag).2.2).1
          (ratOf (decompose mag).2.1 (decompose mag).2.2).2
          (-(ilog10 (ratOf (decompose mag).2.1 (decompose mag).2.2).1
            (ratOf (decompose mag).2.1 (decompose mag).2.2).2))).1 * 10 ^ (P - 1))
          (scale10 (ratOf (decompose mag).2.1 (decompose mag).2.2).1
          (ratOf (decompose mag).2.1 (decompose mag).2.2).2
          (-(ilog10 (ratOf (decompose mag).2.1 (decompose mag).2.2).1
            (ratOf (decompose mag).2.1 (decompose mag).2.2).2))).2 := rfl
    unfold PV.C17.fixedPadded
    simp only [hfix]
    generalize (ratOf (decompose mag).2.1 (decompose mag).2.2).1 = num at *
    generalize (ratOf (decompose mag).2.1 (decompose mag).2.2).2 = den at *
    generalize ilog10 num den = e10 at *
    rw [← hr] at hhalf
    generalize hR : expRound num den (P - 1) = r at *
    obtain ⟨Q, rfl⟩ : ∃ Q, P = Q + 1 := ⟨P - 1, by omega⟩
    simp only [Nat.add_sub_cancel] at *
    rw [he]
    clear he hfix hm
    have hcast : ((Q + 1 : Nat) : Int) - 1 = (Q : Int) := by omega
    by_cases hcarry : r ≥ 10 ^ (Q + 1)
    · -- the rounding carried: r = 10^(Q+1), digits 1000…, exponent e10 + 1
      rw [if_pos hcarry]
      simp only [hcast]
      intro hrange
      have hr10 : r = 10 ^ (Q + 1) := by omega
      have hdiv : r / 10 = 10 ^ Q := by
        rw [hr10, Nat.pow_succ, Nat.mul_div_cancel _ (by omega : 0 < 10)]
      rw [hdiv]
      have hlen : (natDigits (10 ^ Q)).length = Q + 1 :=
        natDigits_length_of_bounds _ Q (Nat.le_refl _) (Nat.pow_lt_pow_right (by omega) (by omega))
      have hhead := natDigits_head (10 ^ Q) (Nat.pow_pos (by omega))
      refine ⟨?_, fun _ => hhead⟩
      -- the fixed rounding gives 10^Q as well
      have key : roundHalfEven (num * 10 ^ ((Q : Int) - (e10 + 1)).toNat) den = 10 ^ Q := by
        obtain ⟨hh1, _⟩ := hhalf
        rw [hr10] at hh1
        unfold scale10 at hh1 s2 hd1
        by_cases hneg : -e10 ≥ 0
        · simp only [hneg, if_true] at hh1 s2 hd1
          generalize hK : (-e10).toNat = K at *
          have hf : ((Q : Int) - (e10 + 1)).toNat + 1 = K + Q := by omega
          have hpw : 10 ^ K * 10 ^ Q = 10 ^ ((Q : Int) - (e10 + 1)).toNat * 10 := by
            rw [← Nat.pow_add, ← Nat.pow_succ]; congr 1; omega
          have hA : num * 10 ^ K * 10 ^ Q = num * 10 ^ ((Q : Int) - (e10 + 1)).toNat * 10 := by
            rw [Nat.mul_assoc, hpw, ← Nat.mul_assoc]
          rw [hA] at hh1
          generalize num * 10 ^ ((Q : Int) - (e10 + 1)).toNat = A at *
          apply carry_round A den (10 ^ Q) hd
          · rw [Nat.pow_succ] at hh1
            have : 10 ^ Q * 10 * den = 10 * (10 ^ Q * den) := by
              rw [Nat.mul_comm (10 ^ Q) 10, Nat.mul_assoc]
            rw [this] at hh1
            omega
          · have h3 : A * 10 < 10 ^ Q * den * 10 := by
              rw [← hA]
              have := Nat.mul_lt_mul_of_pos_right s2 (Nat.pow_pos (by omega : 0 < 10) (n := Q))
              calc num * 10 ^ K * 10 ^ Q < 10 * den * 10 ^ Q := this
                _ = 10 ^ Q * den * 10 := by ac_rfl
            omega
        · simp only [hneg, if_false] at hh1 s2 hd1
          generalize hE : (- -e10).toNat = E at *
          have hf : ((Q : Int) - (e10 + 1)).toNat + 1 + E = Q := by omega
          have hpw : 10 ^ Q = 10 ^ ((Q : Int) - (e10 + 1)).toNat * 10 * 10 ^ E := by
            rw [← Nat.pow_succ, ← Nat.pow_add]; congr 1; omega
          have hA : num * 10 ^ Q = num * 10 ^ ((Q : Int) - (e10 + 1)).toNat * 10 * 10 ^ E := by
            rw [hpw]; simp only [Nat.mul_assoc]
          rw [hA] at hh1
          have s2' : num * 10 ^ Q < 10 * (den * 10 ^ E) * 10 ^ Q :=
            Nat.mul_lt_mul_of_pos_right s2 (Nat.pow_pos (by omega))
          rw [hA] at s2'
          generalize num * 10 ^ ((Q : Int) - (e10 + 1)).toNat = A at *
          have hpE : 0 < 10 ^ E := Nat.pow_pos (by omega)
          apply carry_round A den (10 ^ Q) hd
          · have h20 : (20 : Nat) = 2 * 10 := rfl
            have e1 : 2 * (10 ^ (Q + 1) * (den * 10 ^ E)) = (20 * (10 ^ Q * den)) * 10 ^ E := by
              rw [Nat.pow_succ, h20]; ac_rfl
            have e2 : 2 * (A * 10 * 10 ^ E) + den * 10 ^ E = (20 * A + den) * 10 ^ E := by
              rw [Nat.add_mul, h20]; ac_rfl
            rw [e1, e2] at hh1
            exact Nat.le_of_mul_le_mul_right hh1 hpE
          · have e3 : 10 * (den * 10 ^ E) * 10 ^ Q = (10 ^ Q * den) * (10 * 10 ^ E) := by ac_rfl
            have e4 : A * 10 * 10 ^ E = A * (10 * 10 ^ E) := by ac_rfl
            rw [e3, e4] at s2'
            exact Nat.lt_of_mul_lt_mul_right s2'
      rw [key, hlen]
      congr 2
      omega
    · -- no carry: r has Q+1 digits, exponent e10
      rw [if_neg hcarry]
      simp only [hcast]
      intro hrange
      have hrlt : r < 10 ^ (Q + 1) := by omega
      have hrpos : 0 < r := Nat.lt_of_lt_of_le (Nat.pow_pos (by omega)) b1
      have hlen : (natDigits r).length = Q + 1 := natDigits_length_of_bounds r Q b1 hrlt
      refine ⟨?_, fun _ => natDigits_head r hrpos⟩
      have key : roundHalfEven (num * 10 ^ ((Q : Int) - e10).toNat) den = r := by
        rw [hr]
        unfold scale10
        by_cases hneg : -e10 ≥ 0
        · simp only [hneg, if_true]
          have hf : ((Q : Int) - e10).toNat = (-e10).toNat + Q := by omega
          rw [hf, Nat.pow_add, Nat.mul_assoc]
        · simp only [hneg, if_false]
          have hf : ((Q : Int) - e10).toNat + (- -e10).toNat = Q := by omega
          have : num * 10 ^ Q = num * 10 ^ ((Q : Int) - e10).toNat * 10 ^ (- -e10).toNat := by
            rw [Nat.mul_assoc, ← Nat.pow_add, hf]
          rw [this, roundHalfEven_scale _ _ _ (Nat.pow_pos (by omega))]
      rw [key, hlen]
      congr 2
      omega

theorem genDigits_ite (mag prec : Nat) : GenDigits mag (if prec = 0 then 1 else prec) :=
  genDigits_all mag _ (by split <;> omega)

/-! ## repr digits (no presentation type, no precision) -/

/-- What the repr-style presentation needs from digit generation (`PV.Dec`), as C17 states it:
    CPython's and Rust's shortest digits agree (they differ on exact ties: finding
    `float-repr-tie-rounds-up`); an integer-valued double in fixed notation has its integer digits as
    shortest digits; any other double in fixed notation has digits after the point (`FracDigits`).
    Decidable; evaluated by the driver on every sampled double. -/
def ReprDigits (mag : Nat) : Prop :=
  shortest mag true = shortest mag ∧
  ((-5 < (shortest mag).2 ∧ (shortest mag).2 < 16) →
    if PV.C17.isInteger mag then
      0 ≤ (shortest mag).2 ∧ (shortest mag).1.length ≤ (shortest mag).2.toNat + 1 ∧
      toFixedL mag 1 = showDigits ((shortest mag).1 ++
        List.replicate ((shortest mag).2.toNat + 1 - (shortest mag).1.length) 0) ++ [46, 48]
    else PV.C17.FracDigits mag)

instance (mag : Nat) : Decidable (ReprDigits mag) := by unfold ReprDigits; infer_instance

theorem expSuffix_no_point (e : Int) : (PV.C17.expSuffix e).contains 46 = false := by
  unfold PV.C17.expSuffix
  simp only [List.contains_cons, Bool.or_eq_false_iff]
  refine ⟨by split <;> decide, PV.C17.showDigits_no_point _⟩

theorem showDigits_replicate (k : Nat) : showDigits (List.replicate k 0) = List.replicate k 48 := by
  simp [showDigits]

/-- `float::to_string` (with the `#` point of dabde2e) is the reference's layout of the shortest digits -/
theorem repr_eq_layout (mag : Nat) (alt : Bool) (hf : isFinite mag = true) (hs : isNeg mag = false)
    (hr : ReprDigits mag) :
    (if alt ∧ !(PV.C17.toString mag).contains 46 then pointBeforeE (PV.C17.toString mag)
      else PV.C17.toString mag) =
      (layout (shortest mag true).1 (shortest mag true).2
        ((shortest mag true).2 < -4 || (shortest mag true).2 ≥ 16) false alt true).1 ++
      (layout (shortest mag true).1 (shortest mag true).2
        ((shortest mag true).2 < -4 || (shortest mag true).2 ≥ 16) false alt true).2 := by
  obtain ⟨htie, hfix⟩ := hr
  rw [htie]
  obtain ⟨hne, hlt⟩ := PV.C17.shortest_digits_ok mag false
  unfold PV.C17.toString
  rw [if_pos hf]
  unfold shortestExpL
  simp only [hs, Bool.false_eq_true, if_false, List.nil_append]
  generalize hsh : shortest mag = sh at *
  obtain ⟨ds, e⟩ := sh
  simp only at hne hlt hfix ⊢
  match ds, hne with
  | d :: rest, _ =>
  have hd : d < 10 := hlt d (by simp)
  by_cases hrange : e < 16 ∧ e > -5
  · -- positional notation
    have hue : (decide (e < -4) || decide (e ≥ 16)) = false := by simp; omega
    rw [if_pos hrange, hue]
    have hfix' := hfix ⟨by omega, by omega⟩
    by_cases hint : PV.C17.isInteger mag = true
    · rw [if_pos hint] at hfix' ⊢
      obtain ⟨h0, hlen, htxt⟩ := hfix'
      rw [htxt]
      have hc : (showDigits (d :: rest ++ List.replicate (e.toNat + 1 - (d :: rest).length) 0) ++ [46, 48]).contains 46
          = true := by simp
      simp only [hc, Bool.not_true, Bool.false_eq_true, and_false, if_false]
      unfold layout
      simp only [Bool.false_eq_true, if_false, if_neg (show ¬ e < 0 by omega)]
      have e1 : (d :: rest).take (e.toNat + 1) = d :: rest := List.take_of_length_le hlen
      have e2 : (d :: rest).drop (e.toNat + 1) = [] := List.drop_eq_nil_of_le hlen
      rw [e1, e2]
      simp [fracText, showDigits]
    · rw [if_neg hint] at hfix' ⊢
      unfold PV.C17.FracDigits at hfix'
      rw [hsh] at hfix'
      simp only at hfix'
      unfold shortestFixedL
      simp only [PV.C17.finite_not_nan hf, PV.C17.finite_not_inf hf, hs, hsh, Bool.false_eq_true, if_false,
        List.nil_append]
      unfold layout
      simp only [Bool.false_eq_true, if_false]
      by_cases hneg : e < 0
      · have hp : e + 1 ≤ 0 := by omega
        rw [if_pos hp, if_pos hneg]
        have hc : ([48, 46] ++ List.replicate (-(e + 1)).toNat 48 ++ showDigits (d :: rest)).contains 46 = true := by simp
        simp only [hc, Bool.not_true, Bool.false_eq_true, and_false, if_false]
        have : (-(e + 1)).toNat = (-e - 1).toNat := by omega
        rw [this]
        simp [fracText, showDigits]
      · have hp : ¬ e + 1 ≤ 0 := by omega
        have hfd : (e + 1).toNat < (d :: rest).length := by
          rcases hfix' with h | h
          · omega
          · exact h
        rw [if_neg hp, if_pos hfd, if_neg hneg]
        have hc : (showDigits ((d :: rest).take (e + 1).toNat) ++ [46] ++
            showDigits ((d :: rest).drop (e + 1).toNat)).contains 46 = true := by simp
        simp only [hc, Bool.not_true, Bool.false_eq_true, and_false, if_false]
        have e1 : e.toNat + 1 = (e + 1).toNat := by omega
        rw [e1]
        have e2 : (e + 1).toNat - (d :: rest).length = 0 := by omega
        have e3 : ((d :: rest).drop (e + 1).toNat).isEmpty = false := by
          cases hh : (d :: rest).drop (e + 1).toNat with
          | nil =>
            have := congrArg List.length hh
            simp only [List.length_drop, List.length_nil] at this
            omega
          | cons a b => rfl
        rw [e2]
        simp [fracText, e3]
  · -- exponent notation
    have hue : (decide (e < -4) || decide (e ≥ 16)) = true := by simp; omega
    rw [if_neg hrange, hue]
    unfold layout
    simp only [if_true]
    rw [expText_eq]
    cases rest with
    | nil =>
      have hc : ([48 + d] ++ [101] ++ PV.C17.expSuffix e).contains 46 = false := by
        have := expSuffix_no_point e
        simp only [List.contains_eq_mem, decide_eq_false_iff_not] at this ⊢
        simp only [List.cons_append, List.nil_append, List.mem_cons, not_or]
        exact ⟨by omega, by decide, this⟩
      cases alt
      · simp [fracText, PV.C17.eChar]
      · simp only [hc, Bool.not_false, and_self, if_true]
        have h101 : ¬ (48 + d = 101) := by omega
        simp [pointBeforeE, h101, fracText, PV.C17.eChar]
    | cons r0 rs =>
      have hc : ((48 + d) :: 46 :: showDigits (r0 :: rs) ++ [101] ++ PV.C17.expSuffix e).contains 46 = true := by
        simp
      simp only [hc, Bool.not_true, Bool.false_eq_true, and_false, if_false]
      simp [fracText, PV.C17.eChar, showDigits]

/-! ## the magnitude text of `format_float` is the reference's body -/

theorem showDigits_all_digit (ds : List Nat) (h : ∀ d ∈ ds, d < 10) : (showDigits ds).all Spec.isDigit = true := by
  induction ds with
  | nil => rfl
  | cons d r ih =>
    have hd : d < 10 := h d (by simp)
    simp only [showDigits, List.map_cons, List.all_cons, Bool.and_eq_true]
    refine ⟨by simp [Spec.isDigit]; omega, ih (fun x hx => h x (by simp [hx]))⟩

theorem fixedPadded_lt10 (mag prec : Nat) : ∀ d ∈ PV.C17.fixedPadded mag prec, d < 10 := by
  intro d hd
  unfold PV.C17.fixedPadded at hd
  rcases List.mem_append.mp hd with h | h
  · have := List.eq_of_mem_replicate h; omega
  · exact natDigits_lt10 _ d h

theorem fixedIp_digits (mag prec : Nat) : (showDigits (fixedIp mag prec)).all Spec.isDigit = true :=
  showDigits_all_digit _ (fun d hd => fixedPadded_lt10 mag prec d (List.mem_of_mem_take hd))

theorem noDigitHead_fracText (fp : List Nat) (alt : Bool) (X : List Nat) (hX : noDigitHead X = true) :
    noDigitHead (fracText fp alt ++ X) = true := by
  unfold fracText
  split
  · rfl
  · split
    · rfl
    · simpa using hX

theorem noDigitHead_expText (up : Bool) (e : Int) : noDigitHead (expText up e) = true := by
  unfold expText
  cases up <;> rfl

theorem stripZeros_lt10 (ds : List Nat) (h : ∀ d ∈ ds, d < 10) : ∀ d ∈ stripZeros ds, d < 10 := by
  intro d hd
  rw [stripZeros_eq] at hd
  split at hd
  · simp at hd; omega
  · unfold dropTrailingZeroDigits at hd
    rw [List.mem_reverse] at hd
    have := (List.dropWhile_sublist (fun x => x == 0) (l := ds.reverse)).subset hd
    exact h d (by simpa using this)

theorem layout_shape (ds : List Nat) (e : Int) (useExp up alt dot0 : Bool) (h : ∀ d ∈ ds, d < 10) :
    (layout ds e useExp up alt dot0).1.all Spec.isDigit = true ∧
    noDigitHead (layout ds e useExp up alt dot0).2 = true := by
  unfold layout
  cases useExp
  · simp only [Bool.false_eq_true, if_false]
    split
    · refine ⟨rfl, ?_⟩
      have := noDigitHead_fracText
        (if (List.replicate (-e - 1).toNat 0 ++ ds).isEmpty = true ∧ dot0 = true then [0]
          else List.replicate (-e - 1).toNat 0 ++ ds) alt [] rfl
      simpa using this
    · refine ⟨?_, ?_⟩
      · apply showDigits_all_digit
        intro d hd
        rcases List.mem_append.mp hd with h1 | h1
        · exact h d (List.mem_of_mem_take h1)
        · have := List.eq_of_mem_replicate h1; omega
      · have := noDigitHead_fracText
          (if (ds.drop (e.toNat + 1)).isEmpty = true ∧ dot0 = true then [0] else ds.drop (e.toNat + 1)) alt [] rfl
        simpa using this
  · simp only [if_true]
    cases ds with
    | nil => exact ⟨rfl, rfl⟩
    | cons d rest =>
      have hd : d < 10 := h d (by simp)
      refine ⟨by simp [Spec.isDigit]; omega, noDigitHead_fracText _ _ _ (noDigitHead_expText _ _)⟩

/-- The digit-generation facts (`PV.Dec`) the float theorem is still relative to, per presentation type:
    `%` needs the product `x · 100` to be a non-negative non-NaN double (contract of the modelled
    multiplication), the repr-style presentation (no type, no precision) needs `ReprDigits`.
    Every other type needs nothing: `GenDigits` is a theorem (`genDigits_all`).
    Decidable; holds on every double the check samples, except the repr ties of the listed finding. -/
def FloatFacts (p : PySpec) (mag : Nat) : Prop :=
  match p.type with
  | some 37 => isNan (mul100 mag) = false ∧ isNeg (mul100 mag) = false
  | none =>
    match p.precision with
    | some _ => True
    | none => ReprDigits mag
  | _ => True

instance (p : PySpec) (mag : Nat) : Decidable (FloatFacts p mag) := by
  unfold FloatFacts; split <;> (try split) <;> infer_instance

theorem max_one (n : Nat) : max n 1 = if n = 0 then 1 else n := by
  split <;> omega

/-- `g`, `G`, `n` and the no-type presentation with a precision -/
theorem general_case (p : PySpec) (mag prec : Nat) (up asf : Bool)
    (hf : isFinite mag = true) (hs : isNeg mag = false)
    (hg : GenDigits mag (if prec = 0 then 1 else prec)) :
    PV.C17.formatGeneral (if prec = 0 then 1 else prec) mag up p.alt asf =
      (layout (if p.alt then (expDigits mag ((if prec = 0 then 1 else prec) - 1)).1
                else stripZeros (expDigits mag ((if prec = 0 then 1 else prec) - 1)).1)
        (expDigits mag ((if prec = 0 then 1 else prec) - 1)).2
        ((expDigits mag ((if prec = 0 then 1 else prec) - 1)).2 < -4 ||
          (expDigits mag ((if prec = 0 then 1 else prec) - 1)).2 ≥
            ((if asf then (if prec = 0 then 1 else prec) - 1 else (if prec = 0 then 1 else prec) : Nat) : Int))
        up p.alt asf).1 ++
      (layout (if p.alt then (expDigits mag ((if prec = 0 then 1 else prec) - 1)).1
                else stripZeros (expDigits mag ((if prec = 0 then 1 else prec) - 1)).1)
        (expDigits mag ((if prec = 0 then 1 else prec) - 1)).2
        ((expDigits mag ((if prec = 0 then 1 else prec) - 1)).2 < -4 ||
          (expDigits mag ((if prec = 0 then 1 else prec) - 1)).2 ≥
            ((if asf then (if prec = 0 then 1 else prec) - 1 else (if prec = 0 then 1 else prec) : Nat) : Int))
        up p.alt asf).2 := by
  generalize hP : (if prec = 0 then 1 else prec) = P at *
  have hP1 : 1 ≤ P := by subst hP; split <;> omega
  unfold PV.C17.formatGeneral
  rw [Nat.max_eq_left hP1]
  exact general_eq_layout P mag up p.alt asf hP1 hf hs hg

theorem expDigits_all_lt10 (mag prec : Nat) : ∀ d ∈ (expDigits mag prec).1, d < 10 := expDigits_lt10 mag prec

theorem floatMagnitude_eq (p : PySpec) (wf : WfSpec p) (mag : Nat)
    (hf : isFinite mag = true) (hs : isNeg mag = false) (hfacts : FloatFacts p mag) :
    match floatBody p mag with
    | none => ∃ e, floatMagnitude (normOf p) mag = .err e
    | some (ip, rest, _) =>
      floatMagnitude (normOf p) mag = .ok (ip ++ rest) ∧ ip.all Spec.isDigit = true ∧ noDigitHead rest = true := by
  have hft : (normOf p).ftype = p.type.bind typeOfChar := rfl
  have hal : (normOf p).alt = p.alt := rfl
  have hpr : (normOf p).precision = p.precision := rfl
  have hnan := PV.C17.finite_not_nan hf
  have hinf := PV.C17.finite_not_inf hf
  unfold FloatFacts at hfacts
  cases ht : p.type with
  | none =>
    rw [ht] at hfacts
    simp only at hfacts
    unfold floatBody floatMagnitude
    simp only [hft, ht, Option.bind_none, hnan, hinf, Bool.false_eq_true, if_false, hpr, hal]
    cases hp : p.precision with
    | some prec =>
      simp only at ⊢
      have key := general_case p mag prec false true hf hs (genDigits_ite mag prec)
      have hm : PV.C17.formatGeneral prec mag false p.alt true =
          PV.C17.formatGeneral (if prec = 0 then 1 else prec) mag false p.alt true := by
        unfold PV.C17.formatGeneral
        have : max prec 1 = max (if prec = 0 then 1 else prec) 1 := by split <;> omega
        rw [this]
      rw [hm, key]
      have hsh := layout_shape
        (if p.alt then (expDigits mag ((if prec = 0 then 1 else prec) - 1)).1
          else stripZeros (expDigits mag ((if prec = 0 then 1 else prec) - 1)).1)
        (expDigits mag ((if prec = 0 then 1 else prec) - 1)).2
        ((expDigits mag ((if prec = 0 then 1 else prec) - 1)).2 < -4 ||
          (expDigits mag ((if prec = 0 then 1 else prec) - 1)).2 ≥
            ((if true then (if prec = 0 then 1 else prec) - 1 else (if prec = 0 then 1 else prec) : Nat) : Int))
        false p.alt true
        (by split
            · exact expDigits_all_lt10 _ _
            · exact stripZeros_lt10 _ (expDigits_all_lt10 _ _))
      simp only [isUpperType] at hsh ⊢
      exact ⟨by simp, hsh.1, hsh.2⟩
    | none =>
      rw [hp] at hfacts
      simp only at hfacts ⊢
      have key := repr_eq_layout mag p.alt hf hs hfacts
      have hsh := layout_shape (shortest mag true).1 (shortest mag true).2
        ((shortest mag true).2 < -4 || (shortest mag true).2 ≥ 16) false p.alt true
        (PV.C17.shortest_digits_ok mag true).2
      refine ⟨?_, hsh.1, hsh.2⟩
      rw [← key]
  | some t =>
    rw [ht] at hfacts
    have hbad : ∀ ft, typeOfChar t = some ft →
        (ft = .decimal ∨ ft = .binary ∨ ft = .octal ∨ ft = .hex false ∨ ft = .hex true ∨ ft = .string ∨
          ft = .character) → floatBody p mag = none →
        match floatBody p mag with
        | none => ∃ e, floatMagnitude (normOf p) mag = .err e
        | some (ip, rest, _) =>
          floatMagnitude (normOf p) mag = .ok (ip ++ rest) ∧ ip.all Spec.isDigit = true ∧ noDigitHead rest = true := by
      intro ft h1 h2 h3
      rw [h3]
      refine ⟨.unknownFormatCode, ?_⟩
      unfold floatMagnitude
      rw [hft, ht, Option.bind_some, h1]
      rcases h2 with h | h | h | h | h | h | h <;> subst h <;> rfl
    rcases isType_cases t (wf.type t ht) with h | h | h | h | h | h | h | h | h | h | h | h | h | h | h <;> subst h
    · -- b
      exact hbad _ rfl (by simp) (by simp [floatBody, ht])
    · -- c
      exact hbad _ rfl (by simp) (by simp [floatBody, ht])
    · -- d
      exact hbad _ rfl (by simp) (by simp [floatBody, ht])
    · -- e
      unfold floatBody floatMagnitude
      simp only [hft, ht, Option.bind_some, typeOfChar, hpr, hal]
      have hu : isUpperType (some 101) = false := by decide
      rw [hu, formatExponent_digits _ mag false p.alt hf hs]
      have hl := expDigits_length mag (p.precision.getD 6)
      have hlt := expDigits_all_lt10 mag (p.precision.getD 6)
      generalize expDigits mag (p.precision.getD 6) = ed at *
      obtain ⟨ds, x⟩ := ed
      match ds, hl with
      | d :: rest, _ =>
        have hd : d < 10 := hlt d (by simp)
        simp only [layout, if_true, List.take_succ_cons, List.take_zero, List.drop_succ_cons, List.drop_zero]
        refine ⟨by simp [showDigits], by simp [Spec.isDigit]; omega,
          noDigitHead_fracText _ _ _ (noDigitHead_expText _ _)⟩
    · -- E
      unfold floatBody floatMagnitude
      simp only [hft, ht, Option.bind_some, typeOfChar, hpr, hal]
      have hu : isUpperType (some 69) = true := by decide
      rw [hu, formatExponent_digits _ mag true p.alt hf hs]
      have hl := expDigits_length mag (p.precision.getD 6)
      have hlt := expDigits_all_lt10 mag (p.precision.getD 6)
      generalize expDigits mag (p.precision.getD 6) = ed at *
      obtain ⟨ds, x⟩ := ed
      match ds, hl with
      | d :: rest, _ =>
        have hd : d < 10 := hlt d (by simp)
        simp only [layout, if_true, List.take_succ_cons, List.take_zero, List.drop_succ_cons, List.drop_zero]
        refine ⟨by simp [showDigits], by simp [Spec.isDigit]; omega,
          noDigitHead_fracText _ _ _ (noDigitHead_expText _ _)⟩
    · -- f
      unfold floatBody floatMagnitude
      simp only [hft, ht, Option.bind_some, typeOfChar, hpr, hal]
      rw [formatFixed_digits _ mag false p.alt hf hs]
      refine ⟨by simp [fixedIp, fixedFp, PV.C17.fixedPadded], ?_, ?_⟩
      · exact fixedIp_digits mag _
      · have := noDigitHead_fracText (fixedFp mag (p.precision.getD 6)) p.alt [] rfl
        simpa [fixedFp, PV.C17.fixedPadded] using this
    · -- F
      unfold floatBody floatMagnitude
      simp only [hft, ht, Option.bind_some, typeOfChar, hpr, hal]
      rw [formatFixed_digits _ mag true p.alt hf hs]
      refine ⟨by simp [fixedIp, fixedFp, PV.C17.fixedPadded], ?_, ?_⟩
      · exact fixedIp_digits mag _
      · have := noDigitHead_fracText (fixedFp mag (p.precision.getD 6)) p.alt [] rfl
        simpa [fixedFp, PV.C17.fixedPadded] using this
    · -- g
      unfold floatBody floatMagnitude
      simp only [hft, ht, Option.bind_some, typeOfChar, hpr, hal]
      have hu : isUpperType (some 103) = false := by decide
      rw [hu]
      have key := general_case p mag (p.precision.getD 6) false false hf hs (genDigits_ite mag _)
      rw [key]
      have hsh := layout_shape
        (if p.alt then (expDigits mag ((if p.precision.getD 6 = 0 then 1 else p.precision.getD 6) - 1)).1
          else stripZeros (expDigits mag ((if p.precision.getD 6 = 0 then 1 else p.precision.getD 6) - 1)).1)
        (expDigits mag ((if p.precision.getD 6 = 0 then 1 else p.precision.getD 6) - 1)).2
        ((expDigits mag ((if p.precision.getD 6 = 0 then 1 else p.precision.getD 6) - 1)).2 < -4 ||
          (expDigits mag ((if p.precision.getD 6 = 0 then 1 else p.precision.getD 6) - 1)).2 ≥
            ((if false then (if p.precision.getD 6 = 0 then 1 else p.precision.getD 6) - 1
              else (if p.precision.getD 6 = 0 then 1 else p.precision.getD 6) : Nat) : Int))
        false p.alt false
        (by split
            · exact expDigits_all_lt10 _ _
            · exact stripZeros_lt10 _ (expDigits_all_lt10 _ _))
      exact ⟨by simp, hsh.1, hsh.2⟩
    · -- G
      unfold floatBody floatMagnitude
      simp only [hft, ht, Option.bind_some, typeOfChar, hpr, hal]
      have hu : isUpperType (some 71) = true := by decide
      rw [hu]
      have key := general_case p mag (p.precision.getD 6) true false hf hs (genDigits_ite mag _)
      rw [key]
      have hsh := layout_shape
        (if p.alt then (expDigits mag ((if p.precision.getD 6 = 0 then 1 else p.precision.getD 6) - 1)).1
          else stripZeros (expDigits mag ((if p.precision.getD 6 = 0 then 1 else p.precision.getD 6) - 1)).1)
        (expDigits mag ((if p.precision.getD 6 = 0 then 1 else p.precision.getD 6) - 1)).2
        ((expDigits mag ((if p.precision.getD 6 = 0 then 1 else p.precision.getD 6) - 1)).2 < -4 ||
          (expDigits mag ((if p.precision.getD 6 = 0 then 1 else p.precision.getD 6) - 1)).2 ≥
            ((if false then (if p.precision.getD 6 = 0 then 1 else p.precision.getD 6) - 1
              else (if p.precision.getD 6 = 0 then 1 else p.precision.getD 6) : Nat) : Int))
        true p.alt false
        (by split
            · exact expDigits_all_lt10 _ _
            · exact stripZeros_lt10 _ (expDigits_all_lt10 _ _))
      exact ⟨by simp, hsh.1, hsh.2⟩
    · -- n
      unfold floatBody floatMagnitude
      simp only [hft, ht, Option.bind_some, typeOfChar, hpr, hal]
      have hu : isUpperType (some 110) = false := by decide
      rw [hu]
      have key := general_case p mag (p.precision.getD 6) false false hf hs (genDigits_ite mag _)
      rw [key]
      have hsh := layout_shape
        (if p.alt then (expDigits mag ((if p.precision.getD 6 = 0 then 1 else p.precision.getD 6) - 1)).1
          else stripZeros (expDigits mag ((if p.precision.getD 6 = 0 then 1 else p.precision.getD 6) - 1)).1)
        (expDigits mag ((if p.precision.getD 6 = 0 then 1 else p.precision.getD 6) - 1)).2
        ((expDigits mag ((if p.precision.getD 6 = 0 then 1 else p.precision.getD 6) - 1)).2 < -4 ||
          (expDigits mag ((if p.precision.getD 6 = 0 then 1 else p.precision.getD 6) - 1)).2 ≥
            ((if false then (if p.precision.getD 6 = 0 then 1 else p.precision.getD 6) - 1
              else (if p.precision.getD 6 = 0 then 1 else p.precision.getD 6) : Nat) : Int))
        false p.alt false
        (by split
            · exact expDigits_all_lt10 _ _
            · exact stripZeros_lt10 _ (expDigits_all_lt10 _ _))
      exact ⟨by simp, hsh.1, hsh.2⟩
    · -- o
      exact hbad _ rfl (by simp) (by simp [floatBody, ht])
    · -- s
      exact hbad _ rfl (by simp) (by simp [floatBody, ht])
    · -- x
      exact hbad _ rfl (by simp) (by simp [floatBody, ht])
    · -- X
      exact hbad _ rfl (by simp) (by simp [floatBody, ht])
    · -- %
      simp only at hfacts
      obtain ⟨hn100, hs100⟩ := hfacts
      unfold floatBody floatMagnitude
      simp only [hft, ht, Option.bind_some, typeOfChar, hpr, hal, hnan, hinf, Bool.false_eq_true, if_false]
      have hm : ofRat false ((ratOf (decompose mag).2.fst (decompose mag).2.snd).fst * 100)
          (ratOf (decompose mag).2.fst (decompose mag).2.snd).snd = mul100 mag := rfl
      simp only [hm]
      by_cases hi : isInf (mul100 mag) = true
      · rw [if_pos hi]
        simp only []
        have hnf : isFinite (mul100 mag) = false := by
          simp only [isInf, isFinite, Bool.and_eq_true, beq_iff_eq] at hi ⊢; simp [hi.1]
        unfold PV.C17.formatFixed
        simp only [hnf, Bool.false_eq_true, if_false, hn100, PV.C17.formatInf]
        exact ⟨rfl, rfl, rfl⟩
      · rw [if_neg hi]
        simp only []
        have hf100 : isFinite (mul100 mag) = true := by
          cases hh : isFinite (mul100 mag) with
          | true => rfl
          | false => exact absurd (PV.C17.not_finite_nan_or_inf hh hn100) hi
        rw [formatFixed_digits _ (mul100 mag) false p.alt hf100 hs100]
        refine ⟨by simp [fixedIp, fixedFp, PV.C17.fixedPadded], ?_, ?_⟩
        · exact fixedIp_digits (mul100 mag) _
        · have := noDigitHead_fracText (fixedFp (mul100 mag) (p.precision.getD 6)) p.alt [37] rfl
          simpa [fixedFp, PV.C17.fixedPadded] using this

/-! ## `format_float` = `pyFormatFloat` -/

theorem expField_abs (bits : Nat) : expField (absBits bits) = expField bits := by
  unfold expField absBits; omega
theorem fracField_abs (bits : Nat) : fracField (absBits bits) = fracField bits := by
  unfold fracField absBits; omega
theorem isNan_abs (bits : Nat) : isNan (absBits bits) = isNan bits := by
  simp only [isNan, expField_abs, fracField_abs]
theorem isInf_abs (bits : Nat) : isInf (absBits bits) = isInf bits := by
  simp only [isInf, expField_abs, fracField_abs]
theorem isFinite_abs (bits : Nat) : isFinite (absBits bits) = isFinite bits := by
  simp only [isFinite, expField_abs]
theorem isNeg_abs (bits : Nat) : isNeg (absBits bits) = false := by
  unfold isNeg absBits
  have : bits % 2 ^ 63 / 2 ^ 63 = 0 := Nat.div_eq_of_lt (Nat.mod_lt _ (by omega))
  simp [this]
theorem absBits_eq (bits : Nat) : absBits bits = bits % 2 ^ 63 := rfl

/-- the presentation types `format_float` knows: none, `e E f F g G n %` -/
def validFloatType (t : Option Nat) : Bool :=
  t = none || t = some 101 || t = some 69 || t = some 102 || t = some 70 || t = some 103 || t = some 71 ||
  t = some 110 || t = some 37

theorem floatBody_isSome (p : PySpec) (wf : WfSpec p) (x : Nat) :
    (floatBody p x).isSome = validFloatType p.type := by
  cases ht : p.type with
  | none =>
    simp only [floatBody, ht, validFloatType]
    split <;> rfl
  | some t =>
    rcases isType_cases t (wf.type t ht) with h | h | h | h | h | h | h | h | h | h | h | h | h | h | h <;>
      subst h <;> simp only [floatBody, ht, validFloatType] <;> first | rfl | (split <;> rfl)

theorem signText_length (p : PySpec) (neg : Bool) : (signText p neg).length ≤ 1 := by
  unfold signText; split
  · simp
  · split <;> simp

theorem noDigitHead_nonFinite (p : PySpec) (bits : Nat) : noDigitHead (nonFinite p bits) = true := by
  unfold nonFinite
  cases isNan bits <;> cases isUpperType p.type <;> simp <;> split <;> rfl

/-- an invalid presentation type is rejected (by `validate_format`, the precision check or the type match) -/
theorem formatFloat_invalid (p : PySpec) (wf : WfSpec p) (bits : Nat) (h : validFloatType p.type = false) :
    ∃ e, formatFloat (normOf p) bits = .err e := by
  unfold formatFloat
  cases validateFormat (normOf p) (.fixed false) with
  | error e => exact ⟨e, rfl⟩
  | ok u =>
    simp only []
    split
    · exact ⟨_, rfl⟩
    · have hft : (normOf p).ftype = p.type.bind typeOfChar := rfl
      cases ht : p.type with
      | none => simp [validFloatType, ht] at h
      | some t =>
        rcases isType_cases t (wf.type t ht) with h' | h' | h' | h' | h' | h' | h' | h' | h' | h' | h' | h' | h' | h' | h' <;>
          subst h' <;> first
            | (simp [validFloatType, ht] at h; done)
            | exact ⟨.unknownFormatCode, by simp [floatMagnitude, hft, ht, typeOfChar, Res.bind]⟩

/-- the magnitude text of a NaN / infinity -/
theorem floatMagnitude_nonfinite (p : PySpec) (wf : WfSpec p) (bits : Nat) (hnf : isFinite bits = false)
    (hv : validFloatType p.type = true) :
    floatMagnitude (normOf p) (absBits bits) = .ok (nonFinite p bits) := by
  have hft : (normOf p).ftype = p.type.bind typeOfChar := rfl
  have hfa : isFinite (absBits bits) = false := by rw [isFinite_abs]; exact hnf
  unfold floatMagnitude nonFinite
  rw [isNan_abs, isInf_abs, hft]
  have hi : isNan bits = false → isInf bits = true := PV.C17.not_finite_nan_or_inf hnf
  cases ht : p.type with
  | none =>
    simp only [Option.bind_none, isUpperType]
    cases hn : isNan bits
    · simp [hi hn, sInf]
    · simp [sNan]
  | some t =>
    rcases isType_cases t (wf.type t ht) with h | h | h | h | h | h | h | h | h | h | h | h | h | h | h <;>
      subst h <;> first
        | (simp [validFloatType, ht] at hv; done)
        | (simp only [Option.bind_some, typeOfChar, isUpperType, PV.C17.formatFixed, PV.C17.formatExponent,
            PV.C17.formatGeneral, PV.C17.formatGeneralCore, hfa, Bool.false_eq_true, if_false, isNan_abs]
           cases hn : isNan bits
           · simp [hi hn, PV.C17.formatInf, sInfPct]
           · simp [PV.C17.formatNan, sNanPct])

/-- the formatted magnitude is shorter than 2^30 characters (holds whenever the precision is below
    2^30 - 400; stated on the reference's digits) -/
def TextShort (p : PySpec) (bits : Nat) : Prop :=
  isFinite bits = true →
    match floatBody p (absBits bits) with
    | some (ip, rest, _) => ip.length + rest.length < 2 ^ 30
    | none => True

instance (p : PySpec) (bits : Nat) : Decidable (TextShort p bits) := by
  unfold TextShort
  cases floatBody p (absBits bits) with
  | none => infer_instance
  | some b => obtain ⟨ip, rest, z⟩ := b; infer_instance

theorem pyFormatFloat_ungrouped (p : PySpec) (bits : Nat)
    (hn : ¬ (p.type = some 110 ∧ p.grouping.isSome = true)) :
    pyFormatFloat p bits =
      if p.precision.getD 0 > 2147483647 then none else
      if !isFinite bits then
        match floatBody p 0 with
        | none => none
        | some _ => some (assemble p (signText p (isNeg bits && !isNan bits)) [] (nonFinite p bits) 3)
      else
        match floatBody p (bits % 2 ^ 63) with
        | none => none
        | some (ip, rest, zero) =>
          some (assemble p (signText p (if p.z ∧ zero then false else isNeg bits && !isNan bits)) ip rest 3) := by
  unfold pyFormatFloat
  simp only []
  split
  · rename_i h1 h2; exact absurd ⟨h2, by simp [h1]⟩ hn
  · rename_i h1 h2; exact absurd ⟨h2, by simp [h1]⟩ hn
  · rfl

/-- `format_float` on the fields of a grammar spec is the reference `pyFormatFloat`: every presentation
    type, fill/alignment/sign/zero flag/grouping/alternate form, NaN and infinities — relative to the
    digit facts `FloatFacts` of `PV.Dec`. -/
theorem formatFloat_eq (p : PySpec) (bits : Nat) (wf : WfSpec p) (hz : p.z = false)
    (hw : p.width.getD 0 < 2 ^ 30)
    (hfacts : isFinite bits = true → FloatFacts p (absBits bits)) (hshort : TextShort p bits) :
    (formatFloat (normOf p) bits).view = some (pyFormatFloat p bits) := by
  by_cases hv' : validFloatType p.type = false
  · -- not a float presentation type: rejected by both
    obtain ⟨e, he⟩ := formatFloat_invalid p wf bits hv'
    rw [he]
    have hb : ∀ x, floatBody p x = none := by
      intro x
      have := floatBody_isSome p wf x
      rw [hv'] at this
      cases h : floatBody p x with
      | none => rfl
      | some b => rw [h] at this; cases this
    unfold pyFormatFloat
    simp only [Res.view, hb]
    split <;> simp
  -- a float presentation type
  have hv : validFloatType p.type = true := by simpa using hv'
  have hft : (normOf p).ftype = p.type.bind typeOfChar := rfl
  have hprn : (normOf p).precision = p.precision := rfl
  have hsome : ∀ x, ∃ b, floatBody p x = some b := by
    intro x
    have := floatBody_isSome p wf x
    rw [hv] at this
    cases h : floatBody p x with
    | none => rw [h] at this; cases this
    | some b => exact ⟨b, rfl⟩
  unfold formatFloat
  -- grouping: only `n` rejects it
  by_cases hn : p.type = some 110 ∧ p.grouping.isSome = true
  · unfold pyFormatFloat
    obtain ⟨hn1, hn2⟩ := hn
    obtain ⟨g, hg⟩ : ∃ g, p.grouping = some g := by
      cases h : p.grouping with
      | none => simp [h] at hn2
      | some g => exact ⟨g, rfl⟩
    have hgg := wf.grouping g hg
    simp only [isGrouping, Bool.or_eq_true, decide_eq_true_eq] at hgg
    rw [validateFormat_eq p wf (.fixed false)]
    rcases hgg with h | h <;> subst h <;>
      simp [hg, hn1, typeOfChar, commaBad, underBad, Res.view]
  · have hval : validateFormat (normOf p) (.fixed false) = .ok () := by
      rw [validateFormat_eq p wf (.fixed false)]
      cases hg : p.grouping with
      | none => rfl
      | some g =>
        have hne : p.type ≠ some 110 := by intro h; exact hn ⟨h, by simp [hg]⟩
        cases ht : p.type with
        | none => simp [commaBad, underBad]
        | some t =>
          rcases isType_cases t (wf.type t ht) with h' | h' | h' | h' | h' | h' | h' | h' | h' | h' | h' | h' | h' | h' | h' <;>
            subst h' <;> first
              | (simp [validFloatType, ht] at hv; done)
              | (exact absurd ht hne)
              | simp [typeOfChar, commaBad, underBad]
    rw [hval]
    simp only [hprn]
    rw [pyFormatFloat_ungrouped p bits hn]
    have hpe : (p.precision.getD 6 > i32Max) ↔ (p.precision.getD 0 > 2147483647) := by
      cases p.precision with
      | none => simp [i32Max]
      | some n => simp [i32Max]
    by_cases hpb : p.precision.getD 6 > i32Max
    · rw [if_pos hpb, if_pos (hpe.mp hpb)]; rfl
    · rw [if_neg hpb, if_neg (fun h => hpb (hpe.mpr h))]
      have hsg : sSign (isNeg bits && !isNan bits) (normOf p).sign = signText p (isNeg bits && !isNan bits) :=
        sSign_eq p wf _
      have hint : getSeparatorInterval (normOf p) = 3 := by
        unfold getSeparatorInterval
        rw [hft]
        cases ht : p.type with
        | none => rfl
        | some t =>
          rcases isType_cases t (wf.type t ht) with h' | h' | h' | h' | h' | h' | h' | h' | h' | h' | h' | h' | h' | h' | h' <;>
            subst h' <;> first
              | (simp [validFloatType, ht] at hv; done)
              | rfl
      simp only [hsg]
      by_cases hfin : isFinite bits = true
      · -- finite
        simp only [hfin, Bool.not_true, Bool.false_eq_true, if_false]
        have hfa : isFinite (absBits bits) = true := by rw [isFinite_abs]; exact hfin
        have key := floatMagnitude_eq p wf (absBits bits) hfa (isNeg_abs bits) (hfacts hfin)
        have hsh := hshort hfin
        rw [← absBits_eq]
        obtain ⟨b, hb⟩ := hsome (absBits bits)
        rw [hb] at key hsh ⊢
        obtain ⟨ip, rest, zero⟩ := b
        simp only at key hsh ⊢
        obtain ⟨k1, k2, k3⟩ := key
        rw [k1]
        simp only [Res.bind]
        have := float_assemble p wf (signText p (isNeg bits && !isNan bits)) ip rest k2 k3 hsh
          (signText_length _ _) hw hint
        simp only [Res.bind] at this
        rw [this]
        simp [Res.view, hz]
      · -- NaN, infinities
        have hnf : isFinite bits = false := by simpa using hfin
        simp only [hnf, Bool.not_false, if_true]
        obtain ⟨b, hb⟩ := hsome 0
        rw [hb]
        simp only []
        rw [floatMagnitude_nonfinite p wf bits hnf hv]
        simp only [Res.bind]
        have := float_assemble p wf (signText p (isNeg bits && !isNan bits)) [] (nonFinite p bits) rfl
          (noDigitHead_nonFinite p bits)
          (by simp only [List.length_nil, Nat.zero_add]
              unfold nonFinite
              cases isNan bits <;> cases isUpperType p.type <;> simp <;> split <;> simp)
          (signText_length _ _) hw hint
        simp only [Res.bind, List.nil_append] at this
        rw [this]
        simp [Res.view]

end PV.C18
