/-
  Line-protocol helpers shared by every driver (`Drv/*.lean`).
  Core Lean only: nothing here may import Mathlib/Batteries, so that the
  drivers link as `lean_exe` targets.

  Text travels as lower-case hex of its UTF-8 bytes ("-" for the empty text).
  Bytes are modelled as `Nat` (< 256) throughout the project.
-/
namespace PV

def hexDigit (n : Nat) : Char :=
  if n < 10 then Char.ofNat (48 + n) else Char.ofNat (87 + n)

def hexVal (c : Char) : Option Nat :=
  let n := c.toNat
  if 48 ≤ n ∧ n ≤ 57 then some (n - 48)
  else if 97 ≤ n ∧ n ≤ 102 then some (n - 87)
  else if 65 ≤ n ∧ n ≤ 70 then some (n - 55)
  else none

def unhexGo : List Char → List Nat → Option (List Nat)
  | [], acc => some acc.reverse
  | [_], _ => none
  | a :: b :: rest, acc =>
    match hexVal a, hexVal b with
    | some x, some y => unhexGo rest ((16 * x + y) :: acc)
    | _, _ => none

/-- decode a hex argument; `-` is the empty byte string -/
def unhex (s : String) : Option (List Nat) :=
  if s == "-" then some [] else unhexGo s.toList []

def hex (bs : List Nat) : String :=
  if bs.isEmpty then "-" else
  String.ofList (bs.foldr (fun b acc => hexDigit (b / 16) :: hexDigit (b % 16) :: acc) [])

/-- UTF-8 encoding of one scalar value (as `Nat`), mirroring `char::encode_utf8`. -/
def utf8EncodeNat (c : Nat) : List Nat :=
  if c < 0x80 then [c]
  else if c < 0x800 then [0xC0 + c / 64, 0x80 + c % 64]
  else if c < 0x10000 then [0xE0 + c / 4096, 0x80 + (c / 64) % 64, 0x80 + c % 64]
  else [0xF0 + c / 262144, 0x80 + (c / 4096) % 64, 0x80 + (c / 64) % 64, 0x80 + c % 64]

def utf8Encode (cs : List Nat) : List Nat := cs.flatMap utf8EncodeNat

/-- UTF-8 decoding into scalar values (as `Nat`); `none` on malformed input.
    (Over-long forms and surrogates are not rejected: the harness only ever
    sends bytes of a Rust `str`.) -/
def utf8DecodeGo : Nat → List Nat → List Nat → Option (List Nat)
  | 0, _, _ => none
  | _, [], acc => some acc.reverse
  | fuel + 1, b :: rest, acc =>
    if b < 0x80 then utf8DecodeGo fuel rest (b :: acc)
    else if b < 0xC0 then none
    else if b < 0xE0 then
      match rest with
      | b1 :: r => utf8DecodeGo fuel r (((b - 0xC0) * 64 + (b1 - 0x80)) :: acc)
      | _ => none
    else if b < 0xF0 then
      match rest with
      | b1 :: b2 :: r => utf8DecodeGo fuel r (((b - 0xE0) * 4096 + (b1 - 0x80) * 64 + (b2 - 0x80)) :: acc)
      | _ => none
    else
      match rest with
      | b1 :: b2 :: b3 :: r =>
        utf8DecodeGo fuel r (((b - 0xF0) * 262144 + (b1 - 0x80) * 4096 + (b2 - 0x80) * 64 + (b3 - 0x80)) :: acc)
      | _ => none

def utf8Decode (bs : List Nat) : Option (List Nat) := utf8DecodeGo (bs.length + 1) bs []

def joinSep (sep : String) : List String → String
  | [] => ""
  | [x] => x
  | x :: xs => x ++ sep ++ joinSep sep xs

def optStr {α} (f : α → String) : Option α → String
  | none => "none"
  | some a => f a

/-- Read request lines from stdin, answer each with exactly one line. -/
partial def protoLoop (handle : List String → String) : IO Unit := do
  let stdin ← IO.getStdin
  let stdout ← IO.getStdout
  let rec go : IO Unit := do
    let line ← stdin.getLine
    if line.isEmpty then return ()
    let ws := (line.trimAscii.toString.splitOn " ").filter (· ≠ "")
    stdout.putStrLn (handle ws)
    go
  go
  stdout.flush

end PV
