/-
  C04 — executable models of the rule-checking kernels of RustPython/Parser:

    parser/src/function.rs     validate_pos_params, validate_arguments, parse_args
    parser/src/python.lalrpop  the fallible (`=>?`) actions: ParameterListStarArgs (bare `*`),
                               Atom (`(*x)`, `(**x)`), AsPattern (`as _`)
    parser/src/lexer.rs        bracket depth counter (NestingError / Eof), eat_indentation,
                               IndentationLevel::compare_strict, handle_indentations,
                               lex_number / lex_normal_number / radix_run, lex_string,
                               the `\` and "no token starts here" arms of consume_character
    parser/src/string.rs       parse_strings (bytes/text mixing), parse_bytes (non-ASCII),
                               parse_fstring / parse_formatted_value / parse_spec (error arms)

  Every checker returns `none` when the construct is accepted and `some (kind, offset)` when it is
  rejected; `offset` is a byte offset relative to the start of the construct (the harness
  subtracts the length of the surrounding context).  Characters are scalar values (`Nat`).
  Where the grammar (the LR automaton of python.rs, not modelled) decides acceptance of the small
  token languages used by the correspondence streams, a viable-prefix machine for exactly that
  token language is given (`numParse`, `brGo`, `strParse`); these are part of the trusted tie, the
  theorems are about the kernels.  Core Lean only.
-/
namespace PV.C04

/-! ## error kinds -/

/-- sub-kinds of `FStringErrorType` that the scanner can produce -/
inductive FKind where
  | unclosedLbrace | invalidExpression | invalidConversionFlag | emptyExpression
  | mismatchedDelimiter | expressionNestedTooDeeply | singleRbrace | unmatched
  | unterminatedString
deriving DecidableEq, Repr

/-- the rule an error names (finer than what is printed on the wire: several rules are reported by
    the Rust code as `LexicalErrorType::OtherError(message)`; messages are never compared) -/
inductive Kind where
  | duplicateArgument | defaultOrder | positionalAfterKeyword | unpackAfterKeywordUnpack
  | duplicateKeyword | bareStar | parenStar | parenDoubleStar | asUnderscore
  | nesting | indentation | tab | unrecognizedChar | lineContinuation | badNumber
  | stringError | unicodeError | eolInString | mixedBytes | nonAsciiBytes | fstring (k : FKind)
  | eof | syntax
deriving DecidableEq, Repr

def FKind.wire : FKind → String
  | .unclosedLbrace => "UnclosedLbrace"
  | .invalidExpression => "InvalidExpression"
  | .invalidConversionFlag => "InvalidConversionFlag"
  | .emptyExpression => "EmptyExpression"
  | .mismatchedDelimiter => "MismatchedDelimiter"
  | .expressionNestedTooDeeply => "ExpressionNestedTooDeeply"
  | .singleRbrace => "SingleRbrace"
  | .unmatched => "Unmatched"
  | .unterminatedString => "UnterminatedString"

/-- the coarse kind printed by both sides -/
def Kind.wire : Kind → String
  | .duplicateArgument => "DuplicateArgument"
  | .defaultOrder => "DefaultOrder"
  | .positionalAfterKeyword => "PositionalAfterKeyword"
  | .unpackAfterKeywordUnpack => "UnpackAfterKeywordUnpack"
  | .duplicateKeyword => "DuplicateKeyword"
  | .bareStar | .parenStar | .parenDoubleStar | .asUnderscore | .badNumber | .eolInString
  | .mixedBytes | .nonAsciiBytes => "Other"
  | .nesting => "Nesting"
  | .indentation => "Indentation"
  | .tab => "Tab"
  | .unrecognizedChar => "UnrecognizedChar"
  | .lineContinuation => "LineContinuation"
  | .stringError => "StringError"
  | .unicodeError => "UnicodeError"
  | .fstring k => "FString." ++ k.wire
  | .eof => "Eof"
  | .syntax => "Syntax"

abbrev Res := Option (Kind × Nat)

/-! ## parameter lists: `validate_pos_params`, `validate_arguments`, bare `*` -/

inductive PKind where
  | posonly | normal | vararg | star | kwonly | kwarg
deriving DecidableEq, Repr

/-- one parameter of the abstract signature (source order). `star` is the bare `*` marker. -/
structure Param where
  kind : PKind
  name : Nat
  dflt : Bool
deriving DecidableEq, Repr

abbrev Sig := List Param

/-- what `validate_*` see of an `ast::Arg(WithDefault)`: name, `default.is_some()`,
    `def.range.start()` -/
structure Arg where
  name : Nat
  dflt : Bool
  off : Nat
deriving DecidableEq, Repr

/-- `validate_pos_params`: skip the parameters without default, then those with default; anything
    left is an error located at its start. -/
def validatePosParams (posonly args : List Arg) : Res :=
  match ((posonly ++ args).dropWhile (fun a => !a.dflt)).dropWhile (fun a => a.dflt) with
  | [] => none
  | a :: _ => some (.defaultOrder, a.off)

/-- the loop of `validate_arguments` over the chained iterator; `seen` is the `FxHashSet`. -/
def dupGo (seen : List Nat) : List Arg → Res
  | [] => none
  | a :: rest =>
    if a.name ∈ seen then some (.duplicateArgument, a.off) else dupGo (a.name :: seen) rest

structure Arguments where
  posonly : List Arg
  args : List Arg
  kwonly : List Arg
  vararg : Option Arg
  kwarg : Option Arg
deriving Repr

/-- the order in which `validate_arguments` visits the names:
    posonlyargs, args, kwonlyargs, vararg, kwarg (NOT source order) -/
def Arguments.checkOrder (a : Arguments) : List Arg :=
  a.posonly ++ a.args ++ a.kwonly ++ a.vararg.toList ++ a.kwarg.toList

def validateArguments (a : Arguments) : Res := dupGo [] a.checkOrder

/-- rendered length of one item and the offset of its identifier inside it:
    `a`, `a=0`, `*a`, `*`, `**a` -/
def Param.itemLen (p : Param) : Nat :=
  match p.kind with
  | .vararg => 2
  | .star => 1
  | .kwarg => 3
  | _ => if p.dflt then 3 else 1

def Param.nameOff (p : Param) : Nat :=
  match p.kind with
  | .vararg => 1
  | .kwarg => 2
  | _ => 0

/-- offsets of the identifiers (of the `*` for a bare star) in the rendered list: items joined by
    `, `, with `/` after the last positional-only parameter. -/
def layoutGo (off : Nat) (prevPosonly : Bool) : Sig → List (Param × Nat)
  | [] => []
  | p :: ps =>
    let off := if prevPosonly && p.kind != .posonly then off + 3 else off
    (p, off + p.nameOff) :: layoutGo (off + p.itemLen + 2) (p.kind == .posonly) ps

def layout (ps : Sig) : List (Param × Nat) := layoutGo 0 false ps

def argsOf (k : PKind) (l : List (Param × Nat)) : List Arg :=
  l.filterMap fun (p, o) => if p.kind = k then some ⟨p.name, p.dflt, o⟩ else none

/-- what the grammar actions assemble (`ParameterList`, `ParameterDefs`, `ParameterListStarArgs`) -/
def assemble (ps : Sig) : Arguments :=
  let l := layout ps
  { posonly := argsOf .posonly l, args := argsOf .normal l, kwonly := argsOf .kwonly l,
    vararg := (argsOf .vararg l).head?, kwarg := (argsOf .kwarg l).head? }

/-- the `=>?` action of `ParameterListStarArgs`:
    `if va.is_none() && kwonlyargs.is_empty() && kwarg.is_none()` → error at the `*` -/
def bareStar (ps : Sig) : Res :=
  match (argsOf .star (layout ps)).head? with
  | none => none
  | some s =>
    let a := assemble ps
    if a.vararg.isNone && a.kwonly.isEmpty && a.kwarg.isNone then some (.bareStar, s.off) else none

/-- The order in which the reductions run: the (inlined) star-args action, then
    `validate_pos_params` in `ParameterList`, then `validate_arguments` in `Parameters`/`LambdaDef`. -/
def checkSig (ps : Sig) : Res :=
  match bareStar ps with
  | some e => some e
  | none =>
    let a := assemble ps
    match validatePosParams a.posonly a.args with
    | some e => some e
    | none => validateArguments a

def PKind.rank : PKind → Nat
  | .posonly => 0 | .normal => 1 | .vararg => 2 | .star => 2 | .kwonly => 3 | .kwarg => 4

/-- kinds in grammar order, at most one of `*name`/`*` and one `**name`, keyword-only parameters
    only after a star, no default on `*`/`**` items: the lists the grammar can produce. -/
def wellOrderedGo (prev : Nat) (seenStar : Bool) : Sig → Bool
  | [] => true
  | p :: ps =>
    let r := p.kind.rank
    let single := r == 2 || r == 4
    (if single then prev < r else prev ≤ r) &&
    (if r == 3 then seenStar else true) &&
    (if single then !p.dflt else true) &&
    wellOrderedGo r (seenStar || r == 2) ps

def wellOrdered (ps : Sig) : Bool := wellOrderedGo 0 false ps

/-! ## call arguments: `parse_args` -/

inductive AItem where
  | pos | star | kw (n : Nat) | dstar
deriving DecidableEq, Repr

/-- `x`, `*x`, `a=0`, `**x` -/
def AItem.len : AItem → Nat
  | .pos => 1 | .star => 2 | .kw _ => 3 | .dstar => 3

def layoutArgs (off : Nat) : List AItem → List (AItem × Nat)
  | [] => []
  | a :: r => (a, off) :: layoutArgs (off + a.len + 2) r

/-- loop state of `parse_args`: `keyword_names`, `!keywords.is_empty()`, `double_starred` -/
structure PAState where
  names : List Nat
  anyKw : Bool
  dstar : Bool
deriving Repr

def parseArgsGo (st : PAState) : List (AItem × Nat) → Res
  | [] => none
  | (.kw n, off) :: r =>
    if n ∈ st.names then some (.duplicateKeyword, off)
    else parseArgsGo { st with names := n :: st.names, anyKw := true } r
  | (.dstar, _) :: r => parseArgsGo { st with dstar := true, anyKw := true } r
  | (.pos, off) :: r =>
    if st.anyKw then some (.positionalAfterKeyword, off)
    else if st.dstar then some (.unpackAfterKeywordUnpack, off)
    else parseArgsGo st r
  | (.star, off) :: r =>
    if st.dstar then some (.unpackAfterKeywordUnpack, off) else parseArgsGo st r

def parseArgs (items : List AItem) : Res :=
  parseArgsGo ⟨[], false, false⟩ (layoutArgs 0 items)

/-! ## parenthesised `*x` / `**x` (Atom actions) and `as _` (AsPattern action) -/

inductive PElem where
  | e | s | d
deriving DecidableEq, Repr

def PElem.len : PElem → Nat
  | .e => 1 | .s => 2 | .d => 3

/-- first `**` element that is not at index 0, with its offset -/
def firstLaterD (off : Nat) : List PElem → Option Nat
  | [] => none
  | x :: r => if x = .d then some off else firstLaterD (off + x.len + 2) r

/-- `( elems [,] )`; offsets relative to the `(`.  The two fallible actions are the first two arms;
    the rest is what the grammar does with `**` elsewhere and with `(,)` (plain syntax errors). -/
def parenCheck (es : List PElem) (trailing : Bool) : Res :=
  match es, trailing with
  | [.d], false => some (.parenDoubleStar, 1)
  | [.s], false => some (.parenStar, 1)
  | [], true => some (.syntax, 1)
  | .d :: _, _ => some (.syntax, 4)
  | x :: r, _ =>
    match firstLaterD (1 + x.len + 2) r with
    | some o => some (.syntax, o)
    | none => none
  | [], false => none

/-- target ids: 0 is `_` -/
def asUnderscore (target : Nat) : Res := if target = 0 then some (.asUnderscore, 0) else none

/-! ## brackets: the lexer's depth counter plus the grammar's kind matching -/

inductive BK where
  | paren | sq | brace
deriving DecidableEq, Repr

inductive Sym where
  | op (k : BK) | cl (k : BK) | nl
deriving DecidableEq, Repr

/-- the lexer alone: `nesting` counter; error (`NestingError`) at a closer met at depth 0, located
    after the closer; `Eof` at the end when the depth is not 0.  Kinds are ignored. -/
def nestGo (depth : Nat) (i : Nat) : List Sym → Res
  | [] => if depth = 0 then none else some (.eof, i)
  | .op _ :: r => nestGo (depth + 1) (i + 1) r
  | .cl _ :: r => if depth = 0 then some (.nesting, i + 1) else nestGo (depth - 1) (i + 1) r
  | .nl :: r => nestGo depth (i + 1) r

/-- lexer counter and grammar together on a word where every closer-opener pair is separated by a
    comma (so that juxtaposition never matters): a stack of open kinds.  Mismatched kind: the parser
    rejects the closer (`Syntax`, at the closer). -/
def matchGo (stack : List BK) (i : Nat) : List Sym → Res
  | [] => if stack.isEmpty then none else some (.eof, i)
  | .op k :: r => matchGo (k :: stack) (i + 1) r
  | .cl k :: r =>
    match stack with
    | [] => some (.nesting, i + 1)
    | t :: s => if t = k then matchGo s (i + 1) r else some (.syntax, i)
  | .nl :: r => matchGo stack (i + 1) r

inductive PSt where
  | start | afterOpen | after
deriving DecidableEq, Repr

structure Frame where
  kind : BK
  subscript : Bool
deriving DecidableEq, Repr

/-- the raw word (no commas, newlines allowed): after a complete operand `(` opens a call, `[` a
    subscript (which must not be empty) and `{` is a syntax error; a newline at depth 0 ends the
    statement. -/
def rawGo (stack : List Frame) (st : PSt) (i : Nat) : List Sym → Res
  | [] => if stack.isEmpty then none else some (.eof, i)
  | .nl :: r =>
    if stack.isEmpty then rawGo stack (if st = .after then .start else st) (i + 1) r
    else rawGo stack st (i + 1) r
  | .op k :: r =>
    if st = .after then
      match k with
      | .paren => rawGo (⟨.paren, false⟩ :: stack) .afterOpen (i + 1) r
      | .sq => rawGo (⟨.sq, true⟩ :: stack) .afterOpen (i + 1) r
      | .brace => some (.syntax, i)
    else rawGo (⟨k, false⟩ :: stack) .afterOpen (i + 1) r
  | .cl k :: r =>
    match stack with
    | [] => some (.nesting, i + 1)
    | f :: fs =>
      if f.kind ≠ k then some (.syntax, i)
      else if st = .afterOpen && f.subscript then some (.syntax, i)
      else rawGo fs .after (i + 1) r

/-! ## indentation: `compare_strict`, `eat_indentation`, `handle_indentations` -/

structure Level where
  tabs : Nat
  spaces : Nat
deriving DecidableEq, Repr

inductive Ord3 where
  | lt | eq | gt
deriving DecidableEq, Repr

def cmpNat (a b : Nat) : Ord3 := if a < b then .lt else if a = b then .eq else .gt

/-- `IndentationLevel::compare_strict`; `none` is `TabError` -/
def compareStrict (a b : Level) : Option Ord3 :=
  match cmpNat a.tabs b.tabs with
  | .lt => if a.spaces ≤ b.spaces then some .lt else none
  | .gt => if a.spaces ≥ b.spaces then some .gt else none
  | .eq => some (cmpNat a.spaces b.spaces)

/-- `eat_indentation` on the leading whitespace of one line (`true` = tab): the level, or the
    index of a tab that follows a space (`TabsAfterSpaces`). -/
def scanWs (tabs spaces i : Nat) : List Bool → Except Nat Level
  | [] => .ok ⟨tabs, spaces⟩
  | true :: r => if spaces ≠ 0 then .error i else scanWs (tabs + 1) spaces (i + 1) r
  | false :: r => scanWs tabs (spaces + 1) (i + 1) r

inductive DRes where
  | tabError | unknown | ok (stack : List Level)
deriving DecidableEq, Repr

/-- the dedent loop of `handle_indentations`; the stack is given top first WITHOUT the base level
    `(0,0)`, which is never popped. -/
def dedentGo (lvl : Level) : List Level → DRes
  | [] =>
    match compareStrict lvl ⟨0, 0⟩ with
    | some .eq => .ok []
    | some .gt => .unknown
    | some .lt => .ok []          -- unreachable: nothing is below (0,0)
    | none => .tabError
  | top :: rest =>
    match compareStrict lvl top with
    | none => .tabError
    | some .lt => dedentGo lvl rest
    | some .eq => .ok (top :: rest)
    | some .gt => .unknown

inductive LKind where
  | opener | simple | blank | comment
deriving DecidableEq, Repr

structure ILine where
  ws : List Bool
  kind : LKind
deriving Repr

def LKind.len : LKind → Nat
  | .opener => 5 | .simple => 4 | .blank => 0 | .comment => 1

/-- Lexer and parser over an indentation script.  `need`: the previous logical line opened a block
    (the parser expects `Indent`); `lastEnd`: end of the last token delivered.  `nlLast`: the last
    line is terminated by a newline. -/
def indentGo (stack : List Level) (need : Bool) (pos lastEnd : Nat) (nlLast : Bool) :
    List ILine → Res
  | [] =>
    if need then (if stack.isEmpty then some (.indentation, lastEnd) else some (.indentation, pos))
    else none
  | l :: rest =>
    let nl := if rest.isEmpty && !nlLast then 0 else 1
    match scanWs 0 0 0 l.ws with
    | .error i => some (.tab, pos + i)
    | .ok lvl =>
      let p := pos + l.ws.length
      let next := p + l.kind.len + nl
      if l.kind = .blank || l.kind = .comment then indentGo stack need next lastEnd nlLast rest
      else
        let opens := l.kind == .opener
        match compareStrict lvl (stack.head?.getD ⟨0, 0⟩) with
        | none => some (.tab, p)
        | some .eq =>
          if need then some (.indentation, p) else indentGo stack opens next next nlLast rest
        | some .gt =>
          if need then indentGo (lvl :: stack) opens next next nlLast rest
          else some (.indentation, pos)
        | some .lt =>
          match dedentGo lvl stack with
          | .tabError => some (.tab, p)
          | .unknown => some (.indentation, p)
          | .ok s => if need then some (.indentation, p) else indentGo s opens next next nlLast rest

def indentCheck (ls : List ILine) (nlLast : Bool) : Res := indentGo [] false 0 0 nlLast ls

/-! ## numbers: `lex_number`, `lex_normal_number`, `radix_run` -/

def isDigitOf (radix : Nat) (c : Nat) : Bool :=
  match radix with
  | 2 => 48 ≤ c && c ≤ 49
  | 8 => 48 ≤ c && c ≤ 55
  | 10 => 48 ≤ c && c ≤ 57
  | _ => (48 ≤ c && c ≤ 57) || (97 ≤ c && c ≤ 102) || (65 ≤ c && c ≤ 70)

def headIs (p : Nat → Bool) : List Nat → Bool
  | [] => false
  | c :: _ => p c

/-- `radix_run`: the collected digits and the unconsumed rest; an underscore is skipped only when a
    digit follows it. -/
def radixRun (radix : Nat) : List Nat → List Nat × List Nat
  | [] => ([], [])
  | c :: rest =>
    if isDigitOf radix c then
      let (d, r) := radixRun radix rest
      (c :: d, r)
    else if c = 95 && headIs (isDigitOf radix) rest then radixRun radix rest
    else ([], c :: rest)

def isE (c : Nat) : Bool := c = 101 || c = 69
def isJ (c : Nat) : Bool := c = 106 || c = 74
def isSign (c : Nat) : Bool := c = 43 || c = 45
def isDec (c : Nat) : Bool := isDigitOf 10 c

/-- `at_exponent`: `[eE][-+]?[0-9]` -/
def atExponent : List Nat → Bool
  | e :: s :: d :: _ => isE e && ((isSign s && isDec d) || isDec s)
  | [e, s] => isE e && isDec s
  | _ => false

/-- the fraction after the integer part: at a `.`, an underscore directly after it is an error
    (located at the `.`), otherwise the digits are taken.  Results are REMAINDERS of the input. -/
def lexFraction (r1 : List Nat) : Except (List Nat) (List Nat) :=
  match r1 with
  | 46 :: t => if headIs (· = 95) t then .error r1 else .ok (radixRun 10 t).2
  | _ => .ok r1

/-- the exponent body (entered at an exponent marker): `e`/`E` is consumed, then an optional sign, then the
    digits; the flag says that no digit followed (`f64::from_str` then fails). -/
def lexExponentBody (r2 : List Nat) : Except (List Nat) (List Nat × Bool) :=
  match r2 with
  | e :: t =>
    if isE e then
      if headIs (· = 95) t then .error r2
      else
        match t with
        | s :: t' =>
          if isSign s then
            if headIs (· = 95) t' then .error t
            else
              let dr := radixRun 10 t'
              .ok (dr.2, dr.1.isEmpty)
          else
            let dr := radixRun 10 t
            .ok (dr.2, dr.1.isEmpty)
        | [] => .ok ([], true)
    else .ok (r2, false)
  | [] => .ok ([], false)

/-- the exponent part is entered only `if self.at_exponent()` (repaired code, commit be24063) -/
def lexExponent (r2 : List Nat) : Except (List Nat) (List Nat × Bool) :=
  if atExponent r2 then lexExponentBody r2 else .ok (r2, false)

def dropJ : List Nat → List Nat
  | c :: t => if isJ c then t else c :: t
  | [] => []

/-- `lex_normal_number`: `.ok rest` = the token ends where `rest` begins, `.error rest` = lexical
    error located where `rest` begins.  `f64::from_str` of the collected text fails exactly when an
    exponent marker was consumed without digits after it. -/
def lexNormalRest (cs : List Nat) : Except (List Nat) (List Nat) :=
  let startZero := headIs (· = 48) cs
  let dr := radixRun 10 cs
  if headIs (· = 46) dr.2 || atExponent dr.2 then
    match lexFraction dr.2 with
    | .error e => .error e
    | .ok r2 =>
      match lexExponent r2 with
      | .error e => .error e
      | .ok (r5, bad) => if bad then .error r5 else .ok (dropJ r5)
  else if headIs isJ dr.2 then .ok dr.2.tail
  else if startZero && dr.1.any (· ≠ 48) then .error dr.2
  else .ok dr.2

/-- `lex_number`: radix prefixes, else `lex_normal_number`.  `BigInt::from_str_radix` fails exactly on
    the empty digit string, and that error is located at the START of the literal. -/
def lexRest (cs : List Nat) : Except (List Nat) (List Nat) :=
  match cs with
  | 48 :: x :: rest =>
    let radix : Option Nat :=
      if x = 120 || x = 88 then some 16 else if x = 111 || x = 79 then some 8
      else if x = 98 || x = 66 then some 2 else none
    match radix with
    | some r =>
      let dr := radixRun r rest
      if dr.1.isEmpty then .error cs else .ok dr.2
    | none => lexNormalRest cs
  | _ => lexNormalRest cs

/-- `Ok(consumed)` or the error position, both relative to the start of the numeral -/
def lexNumber (cs : List Nat) : Except Nat Nat :=
  match lexRest cs with
  | .ok r => .ok (cs.length - r.length)
  | .error r => .error (cs.length - r.length)

/-- the whole text is one numeric literal for the lexer -/
def acceptsNumber (cs : List Nat) : Bool :=
  match lexRest cs with
  | .ok r => r.isEmpty
  | .error _ => false

/-- `lex_number` is entered at a digit, or at a `.` that is followed by a digit -/
def startsNumber : List Nat → Bool
  | 46 :: d :: _ => isDec d
  | c :: _ => isDec c
  | [] => false

/-! ### the token language of the `num` stream: numerals, names, `.`, `...`, `+` -/

def isIdStart (c : Nat) : Bool := (97 ≤ c && c ≤ 122) || (65 ≤ c && c ≤ 90) || c = 95
def isIdCont (c : Nat) : Bool := isIdStart c || isDec c

inductive NSt where
  | needOperand | afterOperand | afterDot
deriving DecidableEq, Repr

/-- lexer + viable-prefix machine of `expr := unary ('+' unary)*`, `unary := '+' unary | primary`,
    `primary := atom ('.' NAME)*`, `atom := NUMBER | NAME | '...'` over one line.
    `fuel` ≥ number of characters. -/
def numParse (fuel : Nat) (st : NSt) (first : Bool) (pos : Nat) (cs : List Nat) : Res :=
  match fuel with
  | 0 => some (.syntax, pos)
  | fuel + 1 =>
    match cs with
    | [] =>
      if first then none
      else match st with
        | .afterOperand => none
        | _ => some (.syntax, pos)
    | c :: rest =>
      if isIdStart c then
        let k := (cs.takeWhile isIdCont).length
        match st with
        | .afterOperand => some (.syntax, pos)
        | _ => numParse fuel .afterOperand false (pos + k) (cs.drop k)
      else if isDec c || (c = 46 && headIs isDec rest) then
        match lexNumber cs with
        | .error e => some (.badNumber, pos + e)
        | .ok k =>
          match st with
          | .needOperand => if k = 0 then some (.syntax, pos) else numParse fuel .afterOperand false (pos + k) (cs.drop k)
          | _ => some (.syntax, pos)
      else if c = 46 then
        match rest with
        | 46 :: 46 :: rest' =>
          match st with
          | .needOperand => numParse fuel .afterOperand false (pos + 3) rest'
          | _ => some (.syntax, pos)
        | _ =>
          match st with
          | .afterOperand => numParse fuel .afterDot false (pos + 1) rest
          | _ => some (.syntax, pos)
      else if c = 43 then
        match st with
        | .afterDot => some (.syntax, pos)
        | _ => numParse fuel .needOperand false (pos + 1) rest
      else some (.unrecognizedChar, pos + 1)

def numCheck (cs : List Nat) : Res := numParse (cs.length + 1) .needOperand true 0 cs

/-! ## one ASCII character that may or may not begin a token; line continuation -/

inductive CharClass where
  | fine            -- begins (or continues) a token / is skipped
  | unrecognized    -- the `_` arm of consume_character
  | bang            -- `!` (only `!=` is a token)
  | backslash | quote | opener | closer
deriving DecidableEq, Repr

/-- dispatch of `consume_normal`/`consume_character` on an ASCII character -/
def charClass (c : Nat) : CharClass :=
  if isIdCont c then .fine
  else if c = 33 then .bang
  else if c = 92 then .backslash
  else if c = 34 || c = 39 then .quote
  else if c = 40 || c = 91 || c = 123 then .opener
  else if c = 41 || c = 93 || c = 125 then .closer
  else if c = 9 || c = 10 || c = 12 || c = 13 || c = 32 then .fine
  else if c = 35 then .fine                      -- comment
  else if c = 37 || c = 38 || (42 ≤ c && c ≤ 47) || c = 58 || c = 59 || c = 60 || c = 61 || c = 62
          || c = 64 || c = 94 || c = 124 || c = 126 then .fine      -- operators / delimiters
  else .unrecognized

/-- lexical error of the text `x` c [`=`] `y` (`none`: no lexical error) -/
def chrCheck (c : Nat) (eq : Bool) : Res :=
  let len := if eq then 4 else 3
  match charClass c with
  | .fine => none
  | .unrecognized => some (.unrecognizedChar, 2)
  | .bang => if eq then none else some (.unrecognizedChar, 1)
  | .backslash => some (.lineContinuation, 2)
  | .quote => some (.stringError, len)
  | .opener =>
    -- `x(y`, `x[y` run to the end of the file with the bracket open; `x{` and `x(=` are refused by
    -- the grammar before the lexer gets there
    if c = 123 || eq then none else some (.eof, len)
  | .closer => some (.nesting, 2)

def isNl (c : Nat) : Bool := c = 10 || c = 13

/-- first lexical error while scanning text that contains `\` outside strings: after `\` only a
    line break may follow (`\r\n` counts once), and the file must not end there. -/
def contScan (pos : Nat) : List Nat → Res
  | [] => none
  | 92 :: 13 :: 10 :: rest => if rest.isEmpty then some (.eof, pos + 3) else contScan (pos + 3) rest
  | 92 :: c :: rest =>
    if isNl c then (if rest.isEmpty then some (.eof, pos + 2) else contScan (pos + 2) rest)
    else some (.lineContinuation, pos + 1)
  | [92] => some (.lineContinuation, pos + 1)
  | _ :: rest => contScan (pos + 1) rest

/-! ## strings: `lex_string`, `parse_strings` mixing, `parse_bytes` -/

/-- `lex_string` after the opening quote(s); `q` the quote character.  `.ok rest pos` when closed. -/
def lexStringBody (q : Nat) (triple : Bool) (pos : Nat) : List Nat → Except (Kind × Nat) (List Nat × Nat)
  | [] => .error (if triple then .eof else .stringError, pos)
  | [92] => .error (if triple then .eof else .stringError, pos + 1)
  | 92 :: _ :: rest => lexStringBody q triple (pos + 2) rest
  | c :: rest =>
    if c = 10 && !triple then .error (.eolInString, pos + 1)
    else if c = q then
      if triple then
        if headIs (· = q) rest && headIs (· = q) rest.tail then .ok (rest.drop 2, pos + 3)
        else lexStringBody q triple (pos + 1) rest
      else .ok (rest, pos + 1)
    else lexStringBody q triple (pos + 1) rest

/-- a string literal starting at an (unprefixed) quote -/
def lexString (pos : Nat) : List Nat → Except (Kind × Nat) (List Nat × Nat)
  | q :: a :: b :: rest =>
    if a = q && b = q then lexStringBody q true (pos + 3) rest
    else lexStringBody q false (pos + 1) (a :: b :: rest)
  | q :: rest => lexStringBody q false (pos + 1) rest
  | [] => .ok ([], pos)

inductive SSt where
  | start | afterStr | afterName
deriving DecidableEq, Repr

/-- lexer + viable-prefix machine over the alphabet `'`, `"`, `a`, `\`, newline:
    `statement := STRING+ | NAME`.  `fuel` ≥ number of characters. -/
def strParse (fuel : Nat) (st : SSt) (bol : Bool) (pos : Nat) (cs : List Nat) : Res :=
  match fuel with
  | 0 => some (.syntax, pos)
  | fuel + 1 =>
    match cs with
    | [] => none
    | c :: rest =>
      if c = 10 then
        strParse fuel (if bol then st else .start) true (pos + 1) rest
      else if c = 34 || c = 39 then
        match lexString pos cs with
        | .error e => some e
        | .ok (rest', pos') =>
          match st with
          | .afterName => some (.syntax, pos)
          | _ => strParse fuel .afterStr false pos' rest'
      else if c = 92 then
        match rest with
        | 10 :: rest' => if rest'.isEmpty then some (.eof, pos + 2) else strParse fuel st false (pos + 2) rest'
        | _ => some (.lineContinuation, pos + 1)
      else if isIdStart c then
        let k := (cs.takeWhile isIdCont).length
        match st with
        | .start => strParse fuel .afterName false (pos + k) (cs.drop k)
        | _ => some (.syntax, pos)
      else some (.unrecognizedChar, pos + 1)

def strCheck (cs : List Nat) : Res := strParse (cs.length + 1) .start true 0 cs

/-- literal kinds in an implicit concatenation: `true` = bytes -/
def mixCheck (isBytes : List Bool) : Res :=
  let n := (isBytes.filter id).length
  if n > 0 && n < isBytes.length then some (.mixedBytes, 0) else none

def utf8Len (c : Nat) : Nat := if c < 0x80 then 1 else if c < 0x800 then 2 else if c < 0x10000 then 3 else 4

/-- `parse_bytes` on a body without backslashes: the first non-ASCII character is an error located
    after it (byte offset in the body). -/
def bytesCheck (pos : Nat) : List Nat → Res
  | [] => none
  | c :: rest => if c ≥ 128 then some (.nonAsciiBytes, pos + utf8Len c) else bytesCheck (pos + 1) rest

def isOct (c : Nat) : Bool := 48 ≤ c && c ≤ 55
def isHexDigit (c : Nat) : Bool := isDigitOf 16 c

/-- one-character escapes of `parse_escaped_char` (`\\ \' \" \a \b \f \n \r \t \v`) and the escaped line break -/
def isSimpleEscape (c : Nat) : Bool :=
  c = 92 || c = 39 || c = 34 || c = 97 || c = 98 || c = 102 || c = 110 || c = 114 || c = 116 || c = 118 || c = 10

/-- `parse_escaped_char` for a BYTES literal, entered after the backslash (`pos` = position after
    it).  `.ok (n, pos')`: `n` further characters belong to the escape.  In a bytes literal `\u`, `\U`, `\N`
    are not escapes; together with every other unrecognised character they reach the fallback arm,
    which is the SECOND place where a non-ASCII character is refused. -/
def bytesEscape (pos : Nat) : List Nat → Except (Kind × Nat) (Nat × Nat)
  | [] => .error (.stringError, pos)
  | c :: rest =>
    if isSimpleEscape c then .ok (1, pos + 1)
    else if isOct c then
      -- `parse_octet`: up to two more octal digits
      if headIs isOct rest then (if headIs isOct rest.tail then .ok (3, pos + 3) else .ok (2, pos + 2))
      else .ok (1, pos + 1)
    else if c = 120 then
      -- `parse_unicode_literal(2)`: two hex digits, else `UnicodeError` located after the `x`
      if headIs isHexDigit rest && headIs isHexDigit rest.tail then .ok (3, pos + 3)
      else .error (.unicodeError, pos + 1)
    else if c ≥ 128 then .error (.nonAsciiBytes, pos + utf8Len c)
    else .ok (1, pos + 1)

/-- `parse_bytes` on the whole body; `raw`: the `r` prefix (backslash is an ordinary character).
    `fuel` ≥ length of the body. -/
def bytesGo (fuel : Nat) (raw : Bool) (pos : Nat) (body : List Nat) : Res :=
  match fuel with
  | 0 => none
  | fuel + 1 =>
    match body with
    | [] => none
    | c :: rest =>
      if c = 92 && !raw then
        match bytesEscape (pos + 1) rest with
        | .error e => some e
        | .ok (n, pos') => bytesGo fuel raw pos' (rest.drop n)
      else if c ≥ 128 then some (.nonAsciiBytes, pos + utf8Len c)
      else bytesGo fuel raw (pos + 1) rest

def bytesLit (raw : Bool) (body : List Nat) : Res := bytesGo (body.length + 1) raw 0 body

/-! ## f-strings: error arms of `parse_fstring`, `parse_formatted_value`, `parse_spec`

  Characters of the supported alphabet are all ASCII, so byte offsets are character counts.
  `exprOk` decides the embedded expression for the alphabets of the exhaustive streams
  (`y`, `r`, the three bracket kinds, quoted strings and the operators `!=`, `==`, `<=`, `>=`).  -/

def isNameCh (c : Nat) : Bool := c = 121 || c = 114      -- y r

inductive ESt where
  | need | opened | inName | afterStr | after
deriving DecidableEq, Repr

structure EFrame where
  opener : Nat
  subscript : Bool
deriving Repr

def closes (opener c : Nat) : Bool :=
  (opener = 40 && c = 41) || (opener = 91 && c = 93) || (opener = 123 && c = 125)

/-- the text after the closing `qqq` of a triple-quoted string (no backslashes in the streams' expressions) -/
def afterTriple (q : Nat) : List Nat → Option (List Nat)
  | a :: b :: c :: rest =>
    if a = q && b = q && c = q then some rest else afterTriple q (b :: c :: rest)
  | _ => none

/-- viable-prefix machine for the expressions that can occur in the f-string streams:
    `cmp := operand (OP operand)*`, `operand := atom trailer*`,
    `atom := NAME | STRING+ | '(' [cmp] ')' | '[' [cmp] ']' | '{' [cmp] '}'`,
    `trailer := '(' [cmp] ')' | '[' cmp ']'`, OP one of `!= == <= >=`, NAME a run of `y`/`r`,
    STRING a quote up to the same quote.  `fuel` ≥ length. -/
def exprOkGo (fuel : Nat) (st : ESt) (stack : List EFrame) (cs : List Nat) : Bool :=
  match fuel with
  | 0 => false
  | fuel + 1 =>
    match cs with
    | [] => stack.isEmpty && (st == .inName || st == .afterStr || st == .after)
    | c :: r =>
      if isNameCh c then
        (st == .need || st == .opened || st == .inName) && exprOkGo fuel .inName stack r
      else if c = 34 || c = 39 then
        let body := r.takeWhile (· ≠ c)
        let fits := st == .need || st == .opened || st == .afterStr
        if headIs (· = c) r && headIs (· = c) r.tail then
          -- the Python lexer reads `qqq` as the start of a triple-quoted string
          match afterTriple c (r.drop 2) with
          | some rest => fits && rest.length < r.length && exprOkGo fuel .afterStr stack rest
          | none => false
        else
          fits && body.length < r.length && exprOkGo fuel .afterStr stack (r.drop (body.length + 1))
      else if c = 40 || c = 91 || c = 123 then
        if st == .need || st == .opened then exprOkGo fuel .opened (⟨c, false⟩ :: stack) r
        else if c = 40 then exprOkGo fuel .opened (⟨40, false⟩ :: stack) r
        else if c = 91 then exprOkGo fuel .opened (⟨91, true⟩ :: stack) r
        else false
      else if c = 41 || c = 93 || c = 125 then
        match stack with
        | [] => false
        | f :: fs =>
          closes f.opener c && (if st == .opened then !f.subscript else st != .need) &&
            exprOkGo fuel .after fs r
      else
        match r with
        | 61 :: r' =>
          (c = 33 || c = 61 || c = 60 || c = 62) && (st == .inName || st == .afterStr || st == .after) &&
            exprOkGo fuel .need stack r'
        | _ => false

def exprOk (e : List Nat) : Bool := exprOkGo (e.length + 1) .need [] e

abbrev FRes := Except (Kind × Nat) (List Nat × Nat)      -- rest, position

structure FVState where
  expr : List Nat        -- reversed
  delims : List Nat
  selfDoc : Bool
deriving Repr

mutual
/-- `parse_formatted_value(nested)` after the `{`; `loc` = position of the first character -/
def fvGo (fuel nested loc : Nat) (st : FVState) (pos : Nat) (cs : List Nat) : FRes :=
  match fuel with
  | 0 => .error (.fstring .unclosedLbrace, pos)
  | fuel + 1 =>
    match cs with
    | [] => .error (.fstring .unclosedLbrace, pos)
    | ch :: rest =>
      let peekEq := headIs (· = 61) rest
      if (ch = 33 || ch = 61 || ch = 62 || ch = 60) && peekEq then
        fvGo fuel nested loc { st with expr := 61 :: ch :: st.expr } (pos + 2) rest.tail
      else if ch = 33 && st.delims.isEmpty then
        if st.expr.all (· = 32) then .error (.fstring .emptyExpression, pos + 1)
        else
          if rest.isEmpty then .error (.fstring .unclosedLbrace, pos + 1)
          else if headIs (fun f => f = 115 || f = 97 || f = 114) rest then
            if headIs (fun c => c = 125 || c = 58) rest.tail then fvGo fuel nested loc st (pos + 2) rest.tail
            else .error (.fstring .unclosedLbrace, pos + 2)
          else .error (.fstring .invalidConversionFlag, pos + 2)
      else if ch = 61 && st.delims.isEmpty then
        fvGo fuel nested loc { st with selfDoc := true } (pos + 1) rest
      else if ch = 58 && st.delims.isEmpty then
        match specGo fuel nested (pos + 1) rest with
        | .error e => .error e
        | .ok (rest', pos') => fvGo fuel nested loc st pos' rest'
      else if (ch = 40 || ch = 123 || ch = 91) && !st.selfDoc then
        fvGo fuel nested loc { st with expr := ch :: st.expr, delims := ch :: st.delims } (pos + 1) rest
      else if ch = 41 || ch = 93 then
        match st.delims with
        | [] => .error (.fstring .unmatched, pos + 1)
        | d :: ds =>
          if (ch = 41 && d = 40) || (ch = 93 && d = 91) then
            fvGo fuel nested loc { st with expr := ch :: st.expr, delims := ds } (pos + 1) rest
          else .error (.fstring .mismatchedDelimiter, pos + 1)
      else if ch = 125 && !st.delims.isEmpty then
        match st.delims with
        | d :: ds =>
          if d = 123 then fvGo fuel nested loc { st with expr := ch :: st.expr, delims := ds } (pos + 1) rest
          else .error (.fstring .mismatchedDelimiter, pos + 1)
        | [] => fvGo fuel nested loc st (pos + 1) rest
      else if ch = 125 then
        if st.expr.all (· = 32) then .error (.fstring .emptyExpression, pos + 1)
        else if exprOk st.expr.reverse then .ok (rest, pos + 1)
        else .error (.fstring .invalidExpression, loc)
      else if (ch = 34 || ch = 39) && !st.selfDoc then
        if headIs (· = ch) rest && headIs (· = ch) rest.tail then
          -- a triple-quoted string ends at the first three quote characters in a row
          match afterTriple ch (rest.drop 2) with
          | none => .error (.fstring .unterminatedString, pos + 1 + rest.length)
          | some after' =>
            let n := rest.length - after'.length
            fvGo fuel nested loc { st with expr := (rest.take n).reverse ++ ch :: st.expr } (pos + 1 + n) after'
        else
          -- quoted text inside the expression runs to the same quote
          let body := rest.takeWhile (· ≠ ch)
          let after := rest.drop body.length
          match after with
          | [] => .error (.fstring .unterminatedString, pos + 1 + body.length)
          | _ :: after' =>
            fvGo fuel nested loc { st with expr := ch :: (body.reverse ++ ch :: st.expr) }
              (pos + body.length + 2) after'
      else if (ch = 32 || ch = 9 || ch = 10 || ch = 11 || ch = 12) && st.selfDoc then
        fvGo fuel nested loc st (pos + 1) rest
      else if ch = 92 then .error (.fstring .unterminatedString, pos + 1)
      else if st.selfDoc then .error (.fstring .unclosedLbrace, pos + 1)
      else fvGo fuel nested loc { st with expr := ch :: st.expr } (pos + 1) rest

/-- `parse_spec(nested)`: runs to a `}` (not consumed) or the end -/
def specGo (fuel nested pos : Nat) (cs : List Nat) : FRes :=
  match fuel with
  | 0 => .ok (cs, pos)
  | fuel + 1 =>
    match cs with
    | [] => .ok ([], pos)
    | 123 :: _ =>
      match fsGo fuel (nested + 1) pos cs with
      | .error e => .error e
      | .ok (rest', pos') => specGo fuel nested pos' rest'
    | 125 :: _ => .ok (cs, pos)
    | 92 :: rest =>
      -- as in `parse_fstring`: `\{` / `\}` keep the backslash and re-read the brace, other escapes of the
      -- supported alphabet are two characters and never fail
      if headIs (fun c => c = 123 || c = 125) rest then specGo fuel nested (pos + 1) rest
      else
        match rest with
        | [] => .error (.stringError, pos + 1)
        | _ :: rest' => specGo fuel nested (pos + 2) rest'
    | _ :: rest => specGo fuel nested (pos + 1) rest

/-- `parse_fstring(nested)` -/
def fsGo (fuel nested pos : Nat) (cs : List Nat) : FRes :=
  if nested ≥ 2 then .error (.fstring .expressionNestedTooDeeply, pos) else
  match fuel with
  | 0 => .ok (cs, pos)
  | fuel + 1 =>
    match cs with
    | [] => .ok ([], pos)
    | 123 :: rest =>
      if nested = 0 && headIs (· = 123) rest then fsGo fuel nested (pos + 2) rest.tail
      else if nested = 0 && rest.isEmpty then .error (.fstring .unclosedLbrace, pos + 1)
      else
        match fvGo fuel nested (pos + 1) ⟨[], [], false⟩ (pos + 1) rest with
        | .error e => .error e
        | .ok (rest', pos') => fsGo fuel nested pos' rest'
    | 125 :: rest =>
      if nested > 0 then .ok (cs, pos)
      else if headIs (· = 125) rest then fsGo fuel nested (pos + 2) rest.tail
      else .error (.fstring .singleRbrace, pos + 1)
    | 92 :: rest =>
      -- `\{` and `\}` keep the backslash and re-read the brace; other escapes of the supported
      -- alphabet (`\\`, `\r`, unknown escapes) are two characters and never fail
      if headIs (fun c => c = 123 || c = 125) rest then fsGo fuel nested (pos + 1) rest
      else
        match rest with
        | [] => .error (.stringError, pos + 1)
        | _ :: rest' => fsGo fuel nested (pos + 2) rest'
    | _ :: rest => fsGo fuel nested (pos + 1) rest
end

/-- the lexer's view of the body of `f'…'`: a trailing unpaired backslash swallows the closing quote
    and the literal is unterminated (`StringError` at the end of the text). -/
def oddTrailingBackslash : List Nat → Bool
  | [] => false
  | [92] => true
  | 92 :: _ :: rest => oddTrailingBackslash rest
  | _ :: rest => oddTrailingBackslash rest

/-- `f'<body>'`, offsets relative to the body -/
def fstrCheck (body : List Nat) : Res :=
  if oddTrailingBackslash body then some (.stringError, body.length + 1)
  else
    match fsGo (2 * body.length + 2) 0 0 body with
    | .error e => some e
    | .ok _ => none

/-! ## the soft-keyword look-ahead (`soft_keywords.rs`, `Match | Case` arm) on one logical line

  What `SoftKeywordTransformer::next` does when the head of a logical line is `match`/`case`: it
  peeks at the following lexer results until `Newline`, the end, or — silently — the first lexical
  `Err`, and keeps the keyword only if it saw a top-level `:` that is not the first token and does
  not belong to a `lambda`.  -/

inductive LTok where
  | colon | lambda | op | cl | nl | other | err
deriving DecidableEq, Repr

/-- `nesting` is a signed counter in the Rust code (it is decremented without a check) -/
def lookGo (nesting : Int) (first seenLambda seenColon : Bool) : List LTok → Bool
  | [] => seenColon
  | .err :: _ => seenColon          -- `while let Some(Ok(..)) = peek()` ends on an `Err`
  | .nl :: _ => seenColon
  | .lambda :: r => lookGo nesting false (if nesting = 0 then true else seenLambda) seenColon r
  | .colon :: r =>
    if nesting = 0 then
      if seenLambda then lookGo nesting false false seenColon r
      else lookGo nesting false seenLambda (if !first then true else seenColon) r
    else lookGo nesting false seenLambda seenColon r
  | .op :: r => lookGo (nesting + 1) false seenLambda seenColon r
  | .cl :: r => lookGo (nesting - 1) false seenLambda seenColon r
  | .other :: r => lookGo nesting false seenLambda seenColon r

/-- `true`: the head is delivered as the keyword; `false`: as a NAME -/
def headIsKeyword (line : List LTok) : Bool := lookGo 0 true false false line

/-- the lexer's view of a line over `s : ( ) lambda $`: a closer at depth 0 and `$` are lexical errors -/
def lineToks (depth : Nat) : List Nat → List LTok
  | [] => []
  | c :: r =>
    if c = 58 then .colon :: lineToks depth r
    else if c = 40 then .op :: lineToks (depth + 1) r
    else if c = 41 then (if depth = 0 then [.err] else .cl :: lineToks (depth - 1) r)
    else if c = 108 then .lambda :: lineToks depth r      -- `l` stands for ` lambda `
    else if c = 36 then [.err]
    else .other :: lineToks depth r

end PV.C04
