import PV.C04.Model
/-
  C04 — reference predicates: one decidable predicate per catalogue rule, written from Python's
  rules (Language Reference 2.1.5, 2.1.8, 2.4, 2.6, 6.3.4, 8.7), not from the Rust control flow.
  They talk about the abstract construct (lists of parameters / arguments / bracket symbols /
  indentation levels / characters), using only the data types of the model, none of its functions.
-/
namespace PV.C04.Spec

/-! ## parameter lists -/

/-- "If a parameter has a default value, all following parameters up until the `*` must also have a
    default value": among the positional parameters some parameter WITHOUT default comes after one
    WITH default.  `flags` are the has-default flags of the positional parameters in source order. -/
def defaultOrderBroken (flags : List Bool) : Prop :=
  ∃ j, j < flags.length ∧ flags[j]? = some false ∧ ∃ i, i < j ∧ flags[i]? = some true

instance (flags : List Bool) : Decidable (defaultOrderBroken flags) := by
  unfold defaultOrderBroken; exact inferInstance

/-- index `j` is an offending parameter: no default, and some earlier parameter has one -/
def defaultOffender (flags : List Bool) (j : Nat) : Prop :=
  flags[j]? = some false ∧ ∃ i, i < j ∧ flags[i]? = some true

/-- two parameters of one signature share a name (order of the parameters is irrelevant) -/
def dupName (names : List Nat) : Prop :=
  ∃ j, j < names.length ∧ ∃ i, i < j ∧ names[i]? = names[j]?

instance (names : List Nat) : Decidable (dupName names) := by
  unfold dupName; exact inferInstance

/-- index `j` repeats an earlier name -/
def dupOffender (names : List Nat) (j : Nat) : Prop :=
  j < names.length ∧ ∃ i, i < j ∧ names[i]? = names[j]?

/-- "a bare `*` with nothing after it": the last item of the list is the bare star -/
def bareStarLast (ps : Sig) : Prop := ∃ p, ps.getLast? = some p ∧ p.kind = .star

instance (ps : Sig) : Decidable (bareStarLast ps) := by
  unfold bareStarLast
  cases h : ps.getLast? with
  | none => exact isFalse (by simp)
  | some p =>
    by_cases hk : p.kind = .star
    · exact isTrue ⟨p, rfl, hk⟩
    · exact isFalse (by simp [hk])

/-! ## call arguments -/

def isKwLike : AItem → Bool
  | .kw _ => true | .dstar => true | _ => false

/-- item `j` breaks one of the three call-site rules given what precedes it:
    a positional argument after a keyword argument (`a=…` or `**…`), an iterable unpacking `*…` after
    a `**…`, a keyword that was already given. -/
def argOffender (items : List AItem) (j : Nat) : Prop :=
  (items[j]? = some .pos ∧ ∃ i, i < j ∧ ∃ a, items[i]? = some a ∧ isKwLike a = true) ∨
  (items[j]? = some .star ∧ ∃ i, i < j ∧ items[i]? = some .dstar) ∨
  (∃ n, items[j]? = some (.kw n) ∧ ∃ i, i < j ∧ items[i]? = some (.kw n))

def posAfterKw (items : List AItem) : Prop :=
  ∃ j, j < items.length ∧ items[j]? = some .pos ∧ ∃ i, i < j ∧ ∃ a, items[i]? = some a ∧ isKwLike a = true

def starAfterDoubleStar (items : List AItem) : Prop :=
  ∃ j, j < items.length ∧ items[j]? = some .star ∧ ∃ i, i < j ∧ items[i]? = some .dstar

def dupKw (items : List AItem) : Prop :=
  ∃ j, j < items.length ∧ ∃ n, items[j]? = some (.kw n) ∧ ∃ i, i < j ∧ items[i]? = some (.kw n)

/-- the kind that names the rule item `j` can break -/
def argKind : AItem → Kind
  | .pos => .positionalAfterKeyword
  | .star => .unpackAfterKeywordUnpack
  | .kw _ => .duplicateKeyword
  | .dstar => .duplicateKeyword      -- never an offender

/-! ## parenthesised star forms, `as _` -/

/-- `(*x)`: exactly one element, starred, no trailing comma -/
def loneStar (es : List PElem) (trailing : Bool) : Prop := es = [.s] ∧ trailing = false
def loneDoubleStar (es : List PElem) (trailing : Bool) : Prop := es = [.d] ∧ trailing = false

/-! ## brackets: the Dyck language over three kinds (newlines are layout) -/

/-- `S → ε | nl S | open_k S close_k S` -/
inductive Dyck : List Sym → Prop where
  | nil : Dyck []
  | nl {w} : Dyck w → Dyck (.nl :: w)
  | wrap {u v} (k : BK) : Dyck u → Dyck v → Dyck (.op k :: (u ++ .cl k :: v))

/-- a word that can still be completed to a balanced one -/
def Viable (u : List Sym) : Prop := ∃ v, Dyck (u ++ v)

/-- unbalanced or mismatched -/
def unbalanced (w : List Sym) : Prop := ¬ Dyck w

/-! ## indentation -/

/-- the column of an indentation of `tabs` tabs followed by `spaces` spaces when a tab is `p` columns
    wide and a space `q` -/
def width (l : Level) (p q : Nat) : Nat := l.tabs * p + l.spaces * q

def cmp (a b : Nat) : Ord3 := if a < b then .lt else if a = b then .eq else .gt

/-- Python (2.1.8): indentation is rejected "if a source file mixes tabs and spaces in a way that
    makes the meaning dependent on the worth of a tab in spaces"; CPython compares with tab = 8
    and tab = 1 columns. -/
def pyInconsistent (a b : Level) : Prop := cmp (width a 8 1) (width b 8 1) ≠ cmp (width a 1 1) (width b 1 1)

/-- a tab that follows a space inside one line's indentation (documented stricter rule of this lexer) -/
def tabAfterSpace (ws : List Bool) : Prop := ∃ i j : Nat, i < j ∧ ws[i]? = some false ∧ ws[j]? = some true

/-- dedent to a level that is not on the stack of enclosing levels -/
def dedentUnknown (lvl : Level) (enclosing : List Level) : Prop := lvl ∉ enclosing ∧ lvl ≠ ⟨0, 0⟩

/-! ## numeric literals (Language Reference 2.4.5 – 2.4.8) as a recogniser

  Each nonterminal is a function from the input to the possible remainders after one occurrence;
  the grammar is transcribed alternative by alternative.  -/

def digit (c : Nat) : Bool := 48 ≤ c && c ≤ 57
def nonzerodigit (c : Nat) : Bool := 49 ≤ c && c ≤ 57
def bindigit (c : Nat) : Bool := c = 48 || c = 49
def octdigit (c : Nat) : Bool := 48 ≤ c && c ≤ 55
def hexdigit (c : Nat) : Bool := digit c || (97 ≤ c && c ≤ 102) || (65 ≤ c && c ≤ 70)

/-- all remainders after `(["_"] d)*` -/
def usDigits (d : Nat → Bool) : List Nat → List (List Nat)
  | [] => [[]]
  | c :: rest =>
    (c :: rest) ::
      (if d c then usDigits d rest
       else if c = 95 then
         match rest with
         | c' :: rest' => if d c' then usDigits d rest' else []
         | [] => []
       else [])

/-- `digitpart ::= digit (["_"] digit)*` -/
def digitpart : List Nat → List (List Nat)
  | c :: rest => if digit c then usDigits digit rest else []
  | [] => []

/-- `(["_"] d)+` -/
def usDigits1 (d : Nat → Bool) (l : List Nat) : List (List Nat) :=
  (usDigits d l).filter (fun r => r.length < l.length)

def lit (p : Nat → Bool) : List Nat → List (List Nat)
  | c :: rest => if p c then [rest] else []
  | [] => []

def opt (f : List Nat → List (List Nat)) (l : List Nat) : List (List Nat) := l :: f l

def seq (f g : List Nat → List (List Nat)) (l : List Nat) : List (List Nat) := (f l).flatMap g

def alt (f g : List Nat → List (List Nat)) (l : List Nat) : List (List Nat) := f l ++ g l

/-- `decinteger ::= nonzerodigit (["_"] digit)* | "0"+ (["_"] "0")*` -/
def decinteger : List Nat → List (List Nat) :=
  alt (seq (lit nonzerodigit) (usDigits digit)) (seq (lit (· = 48)) (usDigits (· = 48)))

def prefixed (a b : Nat) (d : Nat → Bool) : List Nat → List (List Nat) :=
  seq (lit (· = 48)) (seq (lit (fun c => c = a || c = b)) (usDigits1 d))

/-- `integer ::= decinteger | bininteger | octinteger | hexinteger` -/
def integer : List Nat → List (List Nat) :=
  alt decinteger (alt (prefixed 98 66 bindigit) (alt (prefixed 111 79 octdigit) (prefixed 120 88 hexdigit)))

/-- `fraction ::= "." digitpart` -/
def fraction : List Nat → List (List Nat) := seq (lit (· = 46)) digitpart

/-- `pointfloat ::= [digitpart] fraction | digitpart "."` -/
def pointfloat : List Nat → List (List Nat) :=
  alt (seq (opt digitpart) fraction) (seq digitpart (lit (· = 46)))

/-- `exponent ::= ("e" | "E") ["+" | "-"] digitpart` -/
def exponent : List Nat → List (List Nat) :=
  seq (lit (fun c => c = 101 || c = 69)) (seq (opt (lit (fun c => c = 43 || c = 45))) digitpart)

/-- `exponentfloat ::= (digitpart | pointfloat) exponent` -/
def exponentfloat : List Nat → List (List Nat) := seq (alt digitpart pointfloat) exponent

def floatnumber : List Nat → List (List Nat) := alt pointfloat exponentfloat

/-- `imagnumber ::= (floatnumber | digitpart) ("j" | "J")` -/
def imagnumber : List Nat → List (List Nat) :=
  seq (alt floatnumber digitpart) (lit (fun c => c = 106 || c = 74))

/-- all remainders after one numeric literal at the start of the input -/
def number : List Nat → List (List Nat) := alt integer (alt floatnumber imagnumber)

/-- the whole text is one numeric literal -/
def isNumber (cs : List Nat) : Bool := (number cs).any (·.isEmpty)

/-! ## characters, strings -/

/-- ASCII characters that cannot begin any token (2.6: `$ ? `` ` "are not used in Python; their
    occurrence outside string literals and comments is an unconditional error"), plus the control
    characters that are not white space; `!` alone is not a token either (only `!=`). -/
def cannotBeginToken (c : Nat) : Bool :=
  c = 36 || c = 63 || c = 96 || c = 127 || (c < 32 && c ≠ 9 && c ≠ 10 && c ≠ 12 && c ≠ 13)

/-- "Bytes literals … may only contain ASCII characters" -/
def nonAscii (body : List Nat) : Prop := ∃ c, c ∈ body ∧ c ≥ 128

/-- "bytes and str literals cannot be mixed in one concatenation" (`true` = bytes) -/
def mixed (isBytes : List Bool) : Prop := true ∈ isBytes ∧ false ∈ isBytes

/-- the items of a single-quoted literal (Language Reference 2.4.1): a character other than backslash,
    newline and the quote, or a backslash followed by any character -/
inductive ShortItems (q : Nat) : List Nat → Prop where
  | nil : ShortItems q []
  | esc (c : Nat) {t : List Nat} : ShortItems q t → ShortItems q (92 :: c :: t)
  | plain (c : Nat) {t : List Nat} : c ≠ 92 → c ≠ 10 → c ≠ q → ShortItems q t → ShortItems q (c :: t)


end PV.C04.Spec
