import PV.C04.Model
import PV.C04.Spec
import PV.C04.Lemmas
/-
  C04 — property theorems.  Helper lemmas live in `PV/C04/Lemmas.lean`; this file holds the
  statements a reader compares with the property text: for every rule-checking kernel, it rejects
  exactly the constructs the reference predicate (`PV/C04/Spec.lean`) calls invalid, with the kind
  that names the rule, located at the FIRST offending element.
-/
set_option linter.unusedSimpArgs false
namespace PV.C04
open Spec

/-! ### parameter lists -/

/-- `validate_pos_params` accepts exactly the positional groups in which no parameter without default
    follows one with default. -/
theorem validatePosParams_iff (po ar : List Arg) :
    validatePosParams po ar = none ↔ ¬ defaultOrderBroken ((po ++ ar).map (·.dflt)) := by
  unfold validatePosParams
  rw [exists_offender_iff]
  rcases posParams_core (po ++ ar) with ⟨h1, h2⟩ | ⟨a, rest, j, h1, h2, h3, h4⟩
  · rw [h1]; exact ⟨fun _ ⟨j, hj⟩ => h2 j hj, fun _ => rfl⟩
  · rw [h1]; exact ⟨fun h => by simp at h, fun h => absurd ⟨j, h3⟩ h⟩

/-- When it rejects, the kind is `DefaultArgumentError` and the location is the start of the FIRST
    parameter without default that follows a defaulted one. -/
theorem validatePosParams_err (po ar : List Arg) (k : Kind) (off : Nat)
    (h : validatePosParams po ar = some (k, off)) :
    k = .defaultOrder ∧
    ∃ (j : Nat) (a : Arg), (po ++ ar)[j]? = some a ∧ a.off = off ∧
      defaultOffender ((po ++ ar).map (·.dflt)) j ∧
      ∀ j', j' < j → ¬ defaultOffender ((po ++ ar).map (·.dflt)) j' := by
  unfold validatePosParams at h
  rcases posParams_core (po ++ ar) with ⟨h1, h2⟩ | ⟨a, rest, j, h1, h2, h3, h4⟩
  · rw [h1] at h; simp at h
  · rw [h1] at h
    simp at h
    exact ⟨h.1.symm, j, a, h2, h.2, h3, h4⟩

example : validatePosParams [⟨0, false, 0⟩] [⟨1, true, 6⟩, ⟨2, false, 11⟩] = some (.defaultOrder, 11) := by decide


/-! ### call arguments -/

/-- `parse_args` accepts exactly the argument lists that break none of the three call-site rules. -/
theorem parseArgs_iff (items : List AItem) :
    parseArgs items = none ↔ ¬ posAfterKw items ∧ ¬ starAfterDoubleStar items ∧ ¬ dupKw items := by
  have key := parseArgsGo_core items ⟨[], false, false⟩ 0 (by simp)
  have e : (¬ posAfterKw items ∧ ¬ starAfterDoubleStar items ∧ ¬ dupKw items) ↔ ¬ ∃ j, argOffender items j := by
    rw [exists_argOffender_iff]; simp [not_or]
  rw [e]
  unfold parseArgs
  rcases key with ⟨h1, h2⟩ | ⟨j, a, o, h1, h2, h3, h4⟩
  · rw [h1]; exact ⟨fun _ ⟨j, hj⟩ => h2 j ((argOff_init ..).2 hj), fun _ => rfl⟩
  · rw [h2]; exact ⟨fun h => by simp at h, fun h => absurd ⟨j, (argOff_init ..).1 h3⟩ h⟩

/-- When it rejects: the error is reported for the FIRST offending item, its kind names the rule
    that item breaks, and the location is the start of that item. -/
theorem parseArgs_err (items : List AItem) (k : Kind) (off : Nat) (h : parseArgs items = some (k, off)) :
    ∃ (j : Nat) (a : AItem), items[j]? = some a ∧ k = argKind a ∧ off = argStart items j ∧
      argOffender items j ∧ ∀ j', j' < j → ¬ argOffender items j' := by
  unfold parseArgs at h
  rcases parseArgsGo_core items ⟨[], false, false⟩ 0 (by simp) with ⟨h1, h2⟩ | ⟨j, a, o, h1, h2, h3, h4⟩
  · rw [h1] at h; simp at h
  · rw [h2] at h
    simp at h
    have := layoutArgs_get items 0 j a o h1
    refine ⟨j, a, this.1, h.1.symm, by rw [← h.2, this.2]; simp, (argOff_init ..).1 h3, ?_⟩
    intro j' hlt hj'
    exact h4 j' hlt ((argOff_init ..).2 hj')

example : parseArgs [.kw 0, .star, .dstar, .star, .kw 0] = some (.unpackAfterKeywordUnpack, 14) := by decide
example : argStart [.kw 0, .star, .dstar, .star, .kw 0] 3 = 14 := by decide

/-- `validate_arguments` accepts exactly the signatures whose names are pairwise distinct. -/
theorem validateArguments_iff (a : Arguments) :
    validateArguments a = none ↔ ¬ dupName (a.checkOrder.map (·.name)) := by
  unfold validateArguments
  rw [dupName_iff]
  rcases dupGo_core a.checkOrder [] with ⟨h1, h2⟩ | ⟨j, b, h1, h2, h3, h4⟩
  · rw [h1]; exact ⟨fun _ ⟨j, hj⟩ => h2 j ((dupOff_nil ..).2 hj), fun _ => rfl⟩
  · rw [h2]; exact ⟨fun h => by simp at h, fun h => absurd ⟨j, (dupOff_nil ..).1 h3⟩ h⟩

/-- When it rejects: kind `DuplicateArgumentError`, located at the start of the first parameter (in the
    order posonly, args, kwonly, vararg, kwarg) whose name already occurred. -/
theorem validateArguments_err (a : Arguments) (k : Kind) (off : Nat)
    (h : validateArguments a = some (k, off)) :
    k = .duplicateArgument ∧
    ∃ (j : Nat) (b : Arg), a.checkOrder[j]? = some b ∧ b.off = off ∧
      dupOffender (a.checkOrder.map (·.name)) j ∧
      ∀ j', j' < j → ¬ dupOffender (a.checkOrder.map (·.name)) j' := by
  unfold validateArguments at h
  rcases dupGo_core a.checkOrder [] with ⟨h1, h2⟩ | ⟨j, b, h1, h2, h3, h4⟩
  · rw [h1] at h; simp at h
  · rw [h2] at h
    simp at h
    refine ⟨h.1.symm, j, b, h1, h.2, (dupOff_nil ..).1 h3, ?_⟩
    intro j' hlt hj'
    exact h4 j' hlt ((dupOff_nil ..).2 hj')



/-! ### brackets -/

/-- **Bracket matcher = Dyck language.**  With every closer/opener pair separated, the lexer's
    counter plus the grammar's kind matching accept exactly the balanced words. -/
theorem matchGo_iff_dyck (w : List Sym) : matchGo [] 0 w = none ↔ Dyck w := by
  rw [matchGo_none_iff]
  exact ⟨fun h => run_bal w [] h, fun h => dyck_run w h []⟩

/-- every unbalanced or mismatched word is rejected, as `Nesting`, `Syntax` (a closer of the wrong
    kind) or `Eof` (something left open), at an offset inside the word -/
theorem matchGo_rejects (w : List Sym) (h : unbalanced w) :
    ∃ k off, matchGo [] 0 w = some (k, off) ∧ (k = .nesting ∨ k = .syntax ∨ k = .eof) ∧ off ≤ w.length := by
  cases hm : matchGo [] 0 w with
  | none => exact absurd ((matchGo_iff_dyck w).1 hm) h
  | some p =>
    obtain ⟨k, off⟩ := p
    refine ⟨k, off, rfl, ?_⟩
    have lt : ∀ (i : Nat) (c : BK), w[i]? = some (.cl c) → i < w.length := by
      intro i c hi
      by_cases hj : i < w.length
      · exact hj
      · simp [List.getElem?_eq_none (by omega : w.length ≤ i)] at hi
    rcases matchGo_err w [] 0 k off hm with ⟨i, c, a, _, e, f⟩ | ⟨i, c, _, _, a, _, _, e, f⟩ | ⟨_, _, _, e, f⟩
    · have := lt i c a; exact ⟨Or.inl e, by omega⟩
    · have := lt i c a; exact ⟨Or.inr (Or.inl e), by omega⟩
    · exact ⟨Or.inr (Or.inr e), by omega⟩

/-- The rejection points at the FIRST symbol after which the word can no longer be completed to a
    balanced one: the unmatched closer (`Nesting`: reported just after it; `Syntax`: at it), or the
    end of the word when brackets are left open. -/
theorem matchGo_err_position (w : List Sym) (k : Kind) (off : Nat) (h : matchGo [] 0 w = some (k, off)) :
    (∃ i, Viable (w.take i) ∧ ¬ Viable (w.take (i + 1)) ∧
        ((k = .nesting ∧ off = i + 1) ∨ (k = .syntax ∧ off = i))) ∨
    (k = .eof ∧ off = w.length ∧ Viable w ∧ ¬ Dyck w) := by
  rcases matchGo_err w [] 0 k off h with ⟨i, c, a, b, e, f⟩ | ⟨i, c, t, s', a, b, ne, e, f⟩ | ⟨s', a, b, e, f⟩
  · left
    refine ⟨i, (viable_iff _).2 (by simp [b]), not_viable_of_run w i c [] a b (by simp), Or.inl ⟨e, by omega⟩⟩
  · left
    refine ⟨i, (viable_iff _).2 (by simp [b]), not_viable_of_run w i c (t :: s') a b ?_, Or.inr ⟨e, by omega⟩⟩
    intro t' s'' hh; simp at hh; rw [← hh.1]; exact ne
  · right
    refine ⟨e, by omega, (viable_iff _).2 (by simp [a]), ?_⟩
    intro hd
    have := dyck_run w hd []
    rw [a] at this
    simp at this
    exact b this

/-- The verbatim word (call / subscript trailers, `{` after an operand refused): whatever the parser
    accepts is balanced, and an unbalanced word is rejected no later than the first unmatched bracket. -/
theorem rawGo_ok_dyck (w : List Sym) (h : rawGo [] .start 0 w = none) : Dyck w :=
  (matchGo_iff_dyck w).1 (by simpa using rawGo_none w [] .start 0 h)

theorem rawGo_rejects (w : List Sym) (h : unbalanced w) :
    ∃ k off k' off', matchGo [] 0 w = some (k, off) ∧ rawGo [] .start 0 w = some (k', off') ∧ off' ≤ off := by
  obtain ⟨k, off, hm, _, _⟩ := matchGo_rejects w h
  obtain ⟨k', off', hr, hle⟩ := rawGo_not_later w [] .start 0 k off (by simpa using hm)
  exact ⟨k, off, k', off', hm, hr, hle⟩

example : matchGo [] 0 [.op .paren, .op .sq, .cl .paren, .cl .sq] = some (.syntax, 2) := by decide
example : rawGo [] .start 0 [.op .brace, .cl .brace, .op .brace, .cl .paren] = some (.syntax, 2) := by decide
example : Dyck [.op .paren, .op .sq, .cl .sq, .cl .paren, .nl, .op .brace, .cl .brace] :=
  Dyck.wrap (u := [.op .sq, .cl .sq]) .paren (Dyck.wrap (u := []) (v := []) .sq .nil .nil)
    (Dyck.nl (Dyck.wrap (u := []) (v := []) .brace .nil .nil))


/-! ### indentation -/

/-- `TabError` exactly when two choices of (tab width, space width) order the indentations differently -/
theorem compareStrict_none_iff (a b : Level) :
    compareStrict a b = none ↔
      ∃ p q p' q', 0 < p ∧ 0 < q ∧ 0 < p' ∧ 0 < q' ∧
        Spec.cmp (width a p q) (width b p q) ≠ Spec.cmp (width a p' q') (width b p' q') := by
  constructor
  · intro h
    unfold compareStrict cmpNat at h
    split at h
    · rename_i hc
      split at hc
      · rename_i ht
        split at h
        · cases h
        · rename_i hs
          have := ambiguous_of a b ht (by omega)
          exact ⟨1, b.tabs - a.tabs + 1, a.spaces - b.spaces + 1, 1, by omega, by omega, by omega, by omega,
            by rw [this.1, this.2]; simp⟩
      · split at hc <;> cases hc
    · rename_i hc
      split at hc
      · cases hc
      · split at hc
        · cases hc
        · rename_i h1 h2
          split at h
          · cases h
          · rename_i hs
            have := ambiguous_of b a (by omega) (by omega)
            refine ⟨1, a.tabs - b.tabs + 1, b.spaces - a.spaces + 1, 1, by omega, by omega, by omega, by omega, ?_⟩
            have e1 := (cmp_swap _ _).1 this.1
            have e2 : Spec.cmp (width a (b.spaces - a.spaces + 1) 1) (width b (b.spaces - a.spaces + 1) 1) = .gt :=
              (cmp_swap _ _).2 this.2
            rw [e1, e2]; simp
    · cases h
  · rintro ⟨p, q, p', q', hp, hq, hp', hq', hne⟩
    cases hc : compareStrict a b with
    | none => rfl
    | some o =>
      exact absurd ((compareStrict_sound a b o hc p q hp hq).trans
        (compareStrict_sound a b o hc p' q' hp' hq').symm) hne

theorem compareStrict_iff (a b : Level) (o : Ord3) :
    compareStrict a b = some o ↔
      ∀ p q, 0 < p → 0 < q → Spec.cmp (width a p q) (width b p q) = o := by
  constructor
  · intro h p q hp hq; exact compareStrict_sound a b o h p q hp hq
  · intro h
    cases hc : compareStrict a b with
    | none =>
      obtain ⟨p, q, p', q', hp, hq, hp', hq', hne⟩ := (compareStrict_none_iff a b).1 hc
      exact absurd ((h p q hp hq).trans (h p' q' hp' hq').symm) hne
    | some o' =>
      have := compareStrict_sound a b o' hc 1 1 (by omega) (by omega)
      rw [h 1 1 (by omega) (by omega)] at this
      rw [this]

/-- every tab/space combination CPython rejects (tab = 8 against tab = 1) is rejected here -/
theorem python_inconsistent_rejected (a b : Level) (h : pyInconsistent a b) : compareStrict a b = none := by
  rw [compareStrict_none_iff]
  exact ⟨8, 1, 1, 1, by omega, by omega, by omega, by omega, h⟩

/-- … and this lexer is strictly stricter: nine spaces under one tab is accepted by CPython -/
theorem stricter_than_python :
    ∃ a b, compareStrict a b = none ∧ ¬ pyInconsistent a b :=
  ⟨⟨0, 9⟩, ⟨1, 0⟩, by decide, by unfold pyInconsistent; decide⟩


/-- `eat_indentation` yields a level exactly when no tab follows a space in the line's leading
    whitespace (the documented stricter-than-Python rule); the level counts the tabs and spaces. -/
theorem scanWs_ok_iff (ws : List Bool) : (∃ lvl, scanWs 0 0 0 ws = .ok lvl) ↔ ¬ tabAfterSpace ws := by
  rcases scanWs_spec ws 0 0 0 with ⟨lvl, h1, _, h3, _⟩ | ⟨j, h1, _, h3⟩
  · exact ⟨fun _ => h3, fun _ => ⟨lvl, h1⟩⟩
  · constructor
    · rintro ⟨lvl, h⟩; rw [h1] at h; cases h
    · intro h; rcases h3 with h3 | ⟨h3, _⟩
      · exact absurd h3 h
      · exact absurd rfl h3

theorem scanWs_level (ws : List Bool) (lvl : Level) (h : scanWs 0 0 0 ws = .ok lvl) :
    lvl = ⟨ws.count true, ws.count false⟩ := by
  rcases scanWs_spec ws 0 0 0 with ⟨lvl', h1, h2, _, _⟩ | ⟨j, h1, _, _⟩
  · rw [h1] at h; cases h; simpa using h2
  · rw [h1] at h; cases h

/-- the `TabsAfterSpaces` error points at a tab -/
theorem scanWs_error (ws : List Bool) (j : Nat) (h : scanWs 0 0 0 ws = .error j) :
    ws[j]? = some true ∧ tabAfterSpace ws := by
  rcases scanWs_spec ws 0 0 0 with ⟨lvl', h1, _, _, _⟩ | ⟨j', h1, h2, h3⟩
  · rw [h1] at h; cases h
  · rw [h1] at h; cases h
    refine ⟨by simpa using h2, ?_⟩
    rcases h3 with h3 | ⟨h3, _⟩
    · exact h3
    · exact absurd rfl h3


/-- **Dedent search.**  On the stack the lexer maintains (`Chain`) and a level comparable with all of
    it, the search fails with `IndentationError` exactly when the level is none of the enclosing
    levels; otherwise it pops down to that level.  It never invents a `TabError`. -/
theorem dedentGo_spec (lvl : Level) (stack : List Level) (hc : Chain stack)
    (hcmp : ∀ l, l ∈ stack → compareStrict lvl l ≠ none) :
    (dedentGo lvl stack = .unknown ↔ dedentUnknown lvl stack) ∧
    (∀ s', dedentGo lvl stack = .ok s' →
        (s' = [] ∧ lvl = ⟨0, 0⟩ ∨ ∃ pre rest, stack = pre ++ lvl :: rest ∧ s' = lvl :: rest)) ∧
    dedentGo lvl stack ≠ .tabError := by
  induction stack with
  | nil =>
    unfold dedentUnknown
    rcases compareStrict_base lvl with h | h
    · have := (compareStrict_eq_iff _ _).1 h
      subst this
      simp [dedentGo, h]
    · have := compareStrict_gt_ne_base _ _ h
      simp [dedentGo, h, this]
  | cons top rest ih =>
    have hc' : Chain rest := (List.pairwise_cons.1 hc).2
    have htop := (List.pairwise_cons.1 hc).1
    have ih' := ih hc' (fun l hl => hcmp l (List.mem_cons_of_mem _ hl))
    unfold dedentUnknown at *
    cases h : compareStrict lvl top with
    | none => exact absurd h (hcmp top (List.mem_cons_self ..))
    | some o =>
      cases o with
      | eq =>
        have e := (compareStrict_eq_iff _ _).1 h
        subst e
        refine ⟨by simp [dedentGo, h], ?_, by simp [dedentGo, h]⟩
        intro s' hs
        simp [dedentGo, h] at hs
        exact Or.inr ⟨[], rest, by simp, hs.symm⟩
      | gt =>
        refine ⟨?_, by simp [dedentGo, h], by simp [dedentGo, h]⟩
        simp only [dedentGo, h, true_iff]
        refine ⟨?_, compareStrict_gt_ne_base _ _ h⟩
        intro hm
        rcases List.mem_cons.1 hm with e | hm
        · subst e
          have := (compareStrict_eq_iff lvl lvl).2 rfl
          rw [this] at h; cases h
        · -- lvl would be strictly below `top`
          have h1 := htop lvl hm
          have a := compareStrict_sound _ _ _ h 1 1 (by omega) (by omega)
          have b := compareStrict_sound _ _ _ h1 1 1 (by omega) (by omega)
          have := (cmp_swap _ _).1 b
          rw [this] at a; cases a
      | lt =>
        have hne : lvl ≠ top := by
          intro e; subst e
          have := (compareStrict_eq_iff lvl lvl).2 rfl
          rw [this] at h; cases h
        refine ⟨?_, ?_, by simpa [dedentGo, h] using ih'.2.2⟩
        · simp only [dedentGo, h]
          rw [ih'.1]
          simp [hne]
        · intro s' hs
          simp only [dedentGo, h] at hs
          rcases ih'.2.1 s' hs with h1 | ⟨pre, r, e, e'⟩
          · exact Or.inl h1
          · exact Or.inr ⟨top :: pre, r, by simp [e], e'⟩


example : dedentGo ⟨0, 1⟩ [⟨0, 4⟩, ⟨0, 2⟩] = .unknown := by decide
example : dedentGo ⟨0, 2⟩ [⟨0, 4⟩, ⟨0, 2⟩] = .ok [⟨0, 2⟩] := by decide
example : scanWs 0 0 0 [false, true] = .error 1 := rfl

/-! ### `as _`, parenthesised stars, literals, characters -/

/-! small kernels -/

theorem mixCheck_iff (ks : List Bool) : mixCheck ks = some (.mixedBytes, 0) ↔ mixed ks := by
  unfold mixCheck mixed
  rw [← filter_id_pos, ← filter_id_lt]
  simp

theorem mixCheck_none_iff (ks : List Bool) : mixCheck ks = none ↔ ¬ mixed ks := by
  rw [← mixCheck_iff]
  unfold mixCheck
  simp only
  split <;> simp

theorem bytesCheck_spec (body : List Nat) : ∀ pos,
    (bytesCheck pos body = none ∧ ¬ nonAscii body) ∨
    (∃ pre c post, body = pre ++ c :: post ∧ (∀ x, x ∈ pre → x < 128) ∧ c ≥ 128 ∧
        bytesCheck pos body = some (.nonAsciiBytes, pos + pre.length + utf8Len c)) := by
  induction body with
  | nil => intro pos; left; simp [bytesCheck, nonAscii]
  | cons c r ih =>
    intro pos
    by_cases hc : c ≥ 128
    · right; exact ⟨[], c, r, by simp, by simp, hc, by simp [bytesCheck, hc]⟩
    · rcases ih (pos + 1) with ⟨h1, h2⟩ | ⟨pre, d, post, e, hpre, hd, h⟩
      · left
        refine ⟨by simp [bytesCheck, hc, h1], ?_⟩
        unfold nonAscii at *
        rintro ⟨x, hx, hx'⟩
        rcases List.mem_cons.1 hx with e | hx
        · subst e; exact hc hx'
        · exact h2 ⟨x, hx, hx'⟩
      · right
        refine ⟨c :: pre, d, post, by simp [e], ?_, hd, ?_⟩
        · intro x hx
          rcases List.mem_cons.1 hx with e | hx
          · subst e; omega
          · exact hpre x hx
        · simp [bytesCheck, hc, h]; omega

theorem asUnderscore_iff (t : Nat) : asUnderscore t = some (.asUnderscore, 0) ↔ t = 0 := by
  unfold asUnderscore; split <;> simp_all

theorem parenCheck_star_iff (es : List PElem) (tr : Bool) :
    parenCheck es tr = some (.parenStar, 1) ↔ loneStar es tr := by
  unfold loneStar
  constructor
  · intro h
    unfold parenCheck at h
    split at h <;> simp_all
    split at h <;> simp_all
  · rintro ⟨h1, h2⟩; subst h1; subst h2; rfl

theorem parenCheck_dstar_iff (es : List PElem) (tr : Bool) :
    parenCheck es tr = some (.parenDoubleStar, 1) ↔ loneDoubleStar es tr := by
  unfold loneDoubleStar
  constructor
  · intro h
    unfold parenCheck at h
    split at h <;> simp_all
    split at h <;> simp_all
  · rintro ⟨h1, h2⟩; subst h1; subst h2; rfl

/-- the `_` arm of `consume_character` fires on exactly the ASCII characters that cannot begin a token -/
theorem charClass_unrecognized_iff : ∀ c, c < 128 →
    (charClass c = .unrecognized ↔ cannotBeginToken c = true) := by
  decide +kernel

theorem chrCheck_rejects : ∀ c, c < 128 → cannotBeginToken c = true →
    ∀ eq, chrCheck c eq = some (.unrecognizedChar, 2) := by
  decide +kernel

theorem chrCheck_bang : chrCheck 33 false = some (.unrecognizedChar, 1) ∧ chrCheck 33 true = none := by
  decide


example : mixCheck [true, false] = some (.mixedBytes, 0) := by decide
example : bytesCheck 0 [97, 233, 98] = some (.nonAsciiBytes, 3) := by decide


/-! ### numeric literals -/

/-- **Number lexer ⊆ Python's numeric literals.**  Entered at a digit (or at `.digit`), whatever
    `lex_number` delivers as ONE numeric token is a numeric literal of the Language Reference: the rest
    of the input after the token is one of the grammar's remainders. -/
theorem lexRest_sound (cs r : List Nat) (hs : startsNumber cs = true) (h : lexRest cs = .ok r) :
    r ∈ number cs := lexRest_sound_aux cs r hs h

/-- a text the lexer takes as one whole numeric literal is a Python numeric literal … -/
theorem acceptsNumber_sound (cs : List Nat) (hs : startsNumber cs = true)
    (h : acceptsNumber cs = true) : isNumber cs = true := by
  unfold acceptsNumber at h
  cases hr : lexRest cs with
  | error e => rw [hr] at h; cases h
  | ok r =>
    rw [hr] at h
    simp only [List.isEmpty_iff] at h
    subst h
    have := lexRest_sound cs [] hs hr
    unfold isNumber
    rw [List.any_eq_true]
    exact ⟨[], this, rfl⟩

/-- … so a malformed numeral is never accepted as a number -/
theorem malformed_number_rejected (cs : List Nat) (hs : startsNumber cs = true)
    (h : isNumber cs = false) : acceptsNumber cs = false := by
  cases ha : acceptsNumber cs
  · rfl
  · rw [acceptsNumber_sound cs hs ha] at h; cases h

example : acceptsNumber [48, 120, 95, 49, 102] = true := by decide          -- 0x_1f
example : isNumber [48, 120, 95, 49, 102] = true := by decide
example : acceptsNumber [49, 46, 101] = false ∧ isNumber [49, 46, 101] = false := by decide   -- 1.e (`1.` then a name)


/-- The converse (every Python literal is taken whole, and the token is the longest literal) is proved in
    `PV/C04/NumComplete.lean` (`acceptsNumber_eq_isNumber`, `lexRest_longest`, `lexRest_complete`).  The one
    shape where the lexer used to take LESS than Python's longest literal (C01's finding `1.else`: after
    `1.` an `e` was always read as an exponent) is repaired in /repo (commit be24063); on the repaired model
    the literal `1.` is taken whole and `else` is left for the next token. -/
theorem lexer_float_before_else :
    lexRest [49, 46, 101, 108, 115, 101] = .ok [101, 108, 115, 101] ∧
    [101, 108, 115, 101] ∈ number [49, 46, 101, 108, 115, 101] := ⟨rfl, by decide⟩


/-! ### whole parameter lists: bare `*`, order of the three checks -/

/-- **Bare `*`.**  On a grammar-ordered parameter list the `ParameterListStarArgs` action rejects
    exactly when the bare star is the last item ("a bare * with nothing after it"); `*, **kw` is NOT
    rejected (DESIGN.md section 7). -/
theorem bareStar_iff (ps : Sig) (hw : wellOrdered ps = true) :
    (∃ off, bareStar ps = some (.bareStar, off)) ↔ bareStarLast ps := by
  rw [← bareStar_last_iff ps 0 false hw]
  unfold bareStar assemble layout
  simp only
  have hs := argsOf_nil_iff .star ps 0 false
  have hv := argsOf_nil_iff .vararg ps 0 false
  have hk := argsOf_nil_iff .kwonly ps 0 false
  have hwk := argsOf_nil_iff .kwarg ps 0 false
  cases hstar : argsOf PKind.star (layoutGo 0 false ps) with
  | nil =>
    have := hs.1 hstar
    simp only [List.head?_nil]
    constructor
    · rintro ⟨off, h⟩; cases h
    · rintro ⟨⟨p, hp, hpk⟩, _⟩; exact absurd hpk (this p hp)
  | cons s rest =>
    have hex : ∃ p, p ∈ ps ∧ p.kind = .star := by
      by_cases h : ∃ p, p ∈ ps ∧ p.kind = .star
      · exact h
      · have : ∀ p, p ∈ ps → p.kind ≠ .star := fun p hp hk => h ⟨p, hp, hk⟩
        rw [hs.2 this] at hstar; cases hstar
    simp only [List.head?_cons]
    constructor
    · rintro ⟨off, h⟩
      split at h
      · rename_i hc
        simp only [Bool.and_eq_true, head?_isNone_iff, List.isEmpty_iff] at hc
        exact ⟨hex, hv.1 hc.1.1, hk.1 hc.1.2, hwk.1 hc.2⟩
      · cases h
    · rintro ⟨_, h1, h2, h3⟩
      refine ⟨s.off, ?_⟩
      have c : ((argsOf PKind.vararg (layoutGo 0 false ps)).head?.isNone &&
          (argsOf PKind.kwonly (layoutGo 0 false ps)).isEmpty &&
          (argsOf PKind.kwarg (layoutGo 0 false ps)).head?.isNone) = true := by
        simp only [Bool.and_eq_true, head?_isNone_iff, List.isEmpty_iff]
        exact ⟨⟨hv.2 h1, hk.2 h2⟩, hwk.2 h3⟩
      rw [if_pos c]

example : bareStar [⟨.normal, 0, false⟩, ⟨.star, 0, false⟩] = some (.bareStar, 3) := by decide
example : bareStar [⟨.star, 0, false⟩, ⟨.kwarg, 0, false⟩] = none := by decide

/-- **Order and outcome of the three checks on a signature**: the bare-star action, then
    `validate_pos_params`, then `validate_arguments`; the signature is accepted exactly when none
    of the three rules is broken. -/
theorem checkSig_none_iff (ps : Sig) :
    checkSig ps = none ↔
      bareStar ps = none ∧
      ¬ defaultOrderBroken (((assemble ps).posonly ++ (assemble ps).args).map (·.dflt)) ∧
      ¬ dupName ((assemble ps).checkOrder.map (·.name)) := by
  unfold checkSig
  rw [← validatePosParams_iff, ← validateArguments_iff]
  cases h1 : bareStar ps with
  | some e => simp
  | none =>
    simp only [true_and]
    cases h2 : validatePosParams (assemble ps).posonly (assemble ps).args with
    | some e => simp
    | none => simp

theorem checkSig_kind (ps : Sig) (k : Kind) (off : Nat) (h : checkSig ps = some (k, off)) :
    (k = .bareStar ∧ bareStar ps = some (k, off)) ∨
    (k = .defaultOrder ∧ bareStar ps = none ∧
        validatePosParams (assemble ps).posonly (assemble ps).args = some (k, off)) ∨
    (k = .duplicateArgument ∧ bareStar ps = none ∧
        validatePosParams (assemble ps).posonly (assemble ps).args = none ∧
        validateArguments (assemble ps) = some (k, off)) := by
  unfold checkSig at h
  cases h1 : bareStar ps with
  | some e =>
    rw [h1] at h
    simp only [Option.some.injEq] at h
    subst h
    left
    refine ⟨?_, rfl⟩
    unfold bareStar at h1
    split at h1
    · cases h1
    · simp only at h1
      split at h1
      · simp at h1; exact h1.1.symm
      · cases h1
  | none =>
    rw [h1] at h
    simp only at h
    cases h2 : validatePosParams (assemble ps).posonly (assemble ps).args with
    | some e =>
      rw [h2] at h
      simp only [Option.some.injEq] at h
      subst h
      right; left
      exact ⟨(validatePosParams_err _ _ k off h2).1, rfl, rfl⟩
    | none =>
      rw [h2] at h
      simp only at h
      right; right
      exact ⟨(validateArguments_err _ k off h).1, rfl, rfl, h⟩


/-! ### f-strings: a field that begins with `=` (finding fixed in /repo by d717a96) -/

/-- **An f-string whose first replacement field begins with `=` is rejected** (there is no expression
    before the `=`; CPython: "f-string: expression required before '='").  Full statement; it failed on the
    pinned commit (`f'{={}}'` was accepted) and holds since fix d717a96 in /repo. -/
theorem fstr_leading_equals_rejected (rest : List Nat) : fstrCheck (123 :: 61 :: rest) ≠ none := by
  unfold fstrCheck
  split
  · simp
  · have hf : 2 * (123 :: 61 :: rest).length + 2 = (2 * rest.length + 5) + 1 := by
      simp only [List.length_cons]; omega
    rw [hf]
    generalize 2 * rest.length + 5 = k
    rw [fsGo]
    simp only [Nat.not_succ_le_zero, ge_iff_le, Nat.reduceLeDiff, if_false, headIs, decide_true, Bool.true_and,
      List.isEmpty_cons, Bool.and_false, Bool.false_eq_true]
    cases h : fvGo k 0 (0 + 1) ⟨[], [], false⟩ (0 + 1) (61 :: rest) with
    | error e => simp
    | ok r => exact absurd h (fvGo_leading_equals _ _ _ _ _ _)

example : fstrCheck [123, 61, 123, 125, 125] = some (.fstring .unclosedLbrace, 3) := by decide +kernel   -- {={}}
example : fstrCheck [123, 121, 61, 40, 41, 125] = some (.fstring .unclosedLbrace, 4) := by decide +kernel   -- {y=()}


/-! ### the lexer's depth counter alone -/

/-- forget the kind of every bracket -/
def eraseKind : Sym → Sym
  | .op _ => .op .paren
  | .cl _ => .cl .paren
  | .nl => .nl

/-- **The lexer's `nesting` counter alone** is the bracket matcher on the word with all kinds
    identified: it enforces balance (NestingError at the first closer without opener, Eof when something
    stays open) but cannot see a mismatched kind — that is left to the grammar (`matchGo`). -/
theorem nestGo_eq_matchGo_erased (w : List Sym) : ∀ (s : List BK) (i : Nat),
    nestGo s.length i w = matchGo (s.map fun _ => .paren) i (w.map eraseKind) := by
  induction w with
  | nil => intro s i; cases s <;> simp [nestGo, matchGo]
  | cons x w ih =>
    intro s i
    cases x with
    | op k => simpa [nestGo, matchGo, eraseKind] using ih (k :: s) (i + 1)
    | nl => simpa [nestGo, matchGo, eraseKind] using ih s (i + 1)
    | cl k =>
      cases s with
      | nil => simp [nestGo, matchGo, eraseKind]
      | cons t s' => simpa [nestGo, matchGo, eraseKind] using ih s' (i + 1)

theorem nestGo_iff_dyck_erased (w : List Sym) : nestGo 0 0 w = none ↔ Dyck (w.map eraseKind) := by
  rw [← matchGo_iff_dyck]
  simpa using congrArg (· = none) (nestGo_eq_matchGo_erased w [] 0)

example : nestGo 0 0 [.op .paren, .cl .sq] = none := by decide      -- `(]` passes the lexer
example : matchGo [] 0 [.op .paren, .cl .sq] = some (.syntax, 1) := by decide



/-! ### the soft-keyword look-ahead: the second known finding -/

/-- Full statement: a lexical error on the logical line must not change how its head `match`/`case` is
    classified — otherwise the parser fails on the re-classified head and never reports the error
    (wrong kind, offset outside the offending construct). -/
def softkw_error_transparent_full : Prop :=
  ∀ pre post : List LTok, LTok.err ∉ pre → LTok.nl ∉ pre →
    headIsKeyword (pre ++ .err :: post) = headIsKeyword (pre ++ post)

/-- It fails on the unchanged code (known finding `softkw-lookahead-masks-error-on-match-case-line`):
    `match s$:` — with the `$` the head is a NAME, without it the keyword. -/
theorem softkw_error_transparent_fails : ¬ softkw_error_transparent_full := by
  intro h
  have := h [.other] [.colon, .nl] (by decide) (by decide)
  revert this
  decide

theorem lookGo_cut (pre post : List LTok) : ∀ (n : Int) (f sl sc : Bool),
    lookGo n f sl sc (pre ++ .err :: post) = lookGo n f sl sc pre := by
  induction pre with
  | nil => intro n f sl sc; simp [lookGo]
  | cons x pre ih =>
    intro n f sl sc
    cases x <;> simp only [List.cons_append, lookGo, ih]

/-- What does hold: the look-ahead treats the error as the end of the line — the decision is exactly
    that of the tokens before the error (so the error is masked only when the deciding `:` comes after it). -/
theorem softkw_error_cuts_line_partial (pre post : List LTok) :
    headIsKeyword (pre ++ .err :: post) = headIsKeyword pre :=
  lookGo_cut pre post 0 true false false

example : headIsKeyword [.other, .colon, .nl] = true ∧ headIsKeyword [.other, .err, .colon, .nl] = false := by decide



/-! ### the two indentation rules at the level of whole lines -/

/-- **Tab/space rule at the line level**: a line (of any kind, also blank or comment) whose leading
    whitespace has a tab after a space is rejected as `Tab`, located at that tab, in every lexer state. -/
theorem indentGo_tab_after_space (stack : List Level) (need : Bool) (pos lastEnd : Nat) (nl : Bool)
    (l : ILine) (rest : List ILine) (h : tabAfterSpace l.ws) :
    ∃ i, indentGo stack need pos lastEnd nl (l :: rest) = some (.tab, pos + i) ∧ l.ws[i]? = some true := by
  cases hs : scanWs 0 0 0 l.ws with
  | ok lvl => exact absurd h ((scanWs_ok_iff l.ws).1 ⟨lvl, hs⟩)
  | error i =>
    refine ⟨i, ?_, (scanWs_error l.ws i hs).1⟩
    simp [indentGo, hs]

/-- **Dedent rule at the line level**: a statement line whose level is below the current one, is
    comparable with every enclosing level and equals none of them is rejected as `Indentation`,
    located at the first token of the line. -/
theorem indentGo_dedent_unknown (stack : List Level) (top : Level) (need : Bool) (pos lastEnd : Nat)
    (nl : Bool) (l : ILine) (rest : List ILine) (lvl : Level)
    (hk : l.kind = .opener ∨ l.kind = .simple)
    (hs : scanWs 0 0 0 l.ws = .ok lvl)
    (hc : Chain (top :: stack)) (hcmp : ∀ x, x ∈ top :: stack → compareStrict lvl x ≠ none)
    (hlt : compareStrict lvl top = some .lt) (hun : dedentUnknown lvl (top :: stack)) :
    indentGo (top :: stack) need pos lastEnd nl (l :: rest) = some (.indentation, pos + l.ws.length) := by
  have hd := ((dedentGo_spec lvl (top :: stack) hc hcmp).1).2 hun
  have hkind : (l.kind = .blank || l.kind = .comment) = false := by
    rcases hk with e | e <;> simp [e]
  simp only [indentGo, hs, hkind, List.head?_cons, Option.getD_some, hlt, hd]
  simp

example : indentCheck [⟨[], .opener⟩, ⟨[false, false], .opener⟩, ⟨[false, false, false, false], .simple⟩,
    ⟨[false], .simple⟩] true = some (.indentation, 24) := by decide


/-! ### unterminated strings -/

/-- **Unterminated single-quoted strings.**  `lex_string` closes a single-quoted literal exactly when
    its text is a sequence of string items followed by the quote; in every other case (end of line,
    end of file, trailing backslash) it reports an error.  The token ends just after that quote. -/
theorem lexStringBody_closed_iff (q : Nat) (hq : q ≠ 92) (hq10 : q ≠ 10) (body : List Nat) (pos : Nat)
    (rest : List Nat) (p : Nat) :
    lexStringBody q false pos body = .ok (rest, p) ↔
      ∃ pre, body = pre ++ q :: rest ∧ ShortItems q pre ∧ p = pos + pre.length + 1 :=
  lexStringBody_short_ok q hq hq10 body.length body (Nat.le_refl _) pos rest p

example : lexStringBody 39 false 1 [97, 92, 39, 98] = .error (.stringError, 5) := rfl
example : lexStringBody 39 false 1 [97, 10, 39] = .error (.eolInString, 3) := rfl



/-! ### non-ASCII characters in bytes literals, at every position -/
/-- **Non-ASCII bytes literals.**  A bytes literal whose body contains a non-ASCII character is
    rejected wherever that character stands — as plain text (`parse_bytes`), directly after a backslash
    (the fallback arm of `parse_escaped_char`), after or inside another escape — for plain and raw
    prefixes alike. -/
theorem bytesLit_rejects_nonAscii (raw : Bool) (body : List Nat) (h : nonAscii body) :
    bytesLit raw body ≠ none :=
  bytesGo_rejects _ raw 0 body (Nat.lt_succ_self _) h

/-- … and the rule is only ever reported for a body that does contain such a character -/
theorem bytesLit_nonAscii_only (raw : Bool) (body : List Nat) (off : Nat)
    (h : bytesLit raw body = some (.nonAsciiBytes, off)) : nonAscii body :=
  bytesGo_nonAscii_only _ raw 0 body off h

example : bytesLit false [92, 233] = some (.nonAsciiBytes, 3) := by decide            -- b'\é'
example : bytesLit false [92, 120, 52, 49, 92, 233] = some (.nonAsciiBytes, 7) := by decide   -- b'\x41\é'
example : bytesLit true [92, 233] = some (.nonAsciiBytes, 3) := by decide             -- rb'\é'


end PV.C04
