import PV.C04.Model
import PV.C04.Spec
/-! C04 — helper lemmas for `PV/C04/Thm.lean`. -/
set_option linter.unusedSimpArgs false
namespace PV.C04
open Spec

/-- after the leading run of defaulted parameters: empty, or the first one without default -/
theorem dropWhile_dflt_spec (t : List Arg) :
    (t.dropWhile (fun a => a.dflt) = [] ∧ ∀ (j : Nat) (b : Arg), t[j]? = some b → b.dflt = true) ∨
    (∃ (b : Arg) (rest : List Arg) (j : Nat), t.dropWhile (fun a => a.dflt) = b :: rest ∧ t[j]? = some b ∧ b.dflt = false ∧
        ∀ (j' : Nat) (b' : Arg), j' < j → t[j']? = some b' → b'.dflt = true) := by
  induction t with
  | nil => left; simp
  | cons a t ih =>
    by_cases ha : a.dflt = true
    · rcases ih with ⟨h1, h2⟩ | ⟨b, rest, j, h1, h2, h3, h4⟩
      · left
        refine ⟨by simp [List.dropWhile_cons, ha, h1], ?_⟩
        intro j b hj
        cases j with
        | zero => simp at hj; subst hj; exact ha
        | succ j => simp at hj; exact h2 j b hj
      · right
        refine ⟨b, rest, j + 1, by simp [List.dropWhile_cons, ha, h1], by simpa using h2, h3, ?_⟩
        intro j' b' hlt hj'
        cases j' with
        | zero => simp at hj'; subst hj'; exact ha
        | succ j' => simp at hj'; exact h4 j' b' (by omega) hj'
    · right
      refine ⟨a, t, 0, by simp [List.dropWhile_cons, ha], by simp, by simpa using ha, ?_⟩
      intro j' b' hlt; omega


theorem offender_cons_false (ft : List Bool) (j : Nat) :
    defaultOffender (false :: ft) (j + 1) ↔ defaultOffender ft j := by
  unfold defaultOffender
  simp only [List.getElem?_cons_succ]
  constructor
  · rintro ⟨h1, i, hi, h2⟩
    refine ⟨h1, ?_⟩
    cases i with
    | zero => simp at h2
    | succ i => exact ⟨i, by omega, by simpa using h2⟩
  · rintro ⟨h1, i, hi, h2⟩
    exact ⟨h1, i + 1, by omega, by simpa using h2⟩

theorem not_offender_zero (fs : List Bool) : ¬ defaultOffender fs 0 := by
  unfold defaultOffender; rintro ⟨_, i, hi, _⟩; omega

theorem posParams_core (l : List Arg) :
    ((l.dropWhile (fun a => !a.dflt)).dropWhile (fun a => a.dflt) = [] ∧
        ∀ j, ¬ defaultOffender (l.map (·.dflt)) j) ∨
    (∃ (a : Arg) (rest : List Arg) (j : Nat),
        (l.dropWhile (fun a => !a.dflt)).dropWhile (fun a => a.dflt) = a :: rest ∧
        l[j]? = some a ∧ defaultOffender (l.map (·.dflt)) j ∧
        ∀ j', j' < j → ¬ defaultOffender (l.map (·.dflt)) j') := by
  induction l with
  | nil => left; simp [defaultOffender]
  | cons a t ih =>
    by_cases ha : a.dflt = true
    · -- the first run ends here; the second run eats `a` and the following defaulted ones
      have e : ((a :: t).dropWhile (fun a => !a.dflt)).dropWhile (fun a => a.dflt)
          = t.dropWhile (fun a => a.dflt) := by simp [ha]
      rw [e]
      rcases dropWhile_dflt_spec t with ⟨h1, h2⟩ | ⟨b, rest, j, h1, h2, h3, h4⟩
      · left
        refine ⟨h1, ?_⟩
        intro j
        unfold defaultOffender
        rintro ⟨hf, _⟩
        cases j with
        | zero => simp [ha] at hf
        | succ j =>
          simp only [List.map_cons, List.getElem?_cons_succ, List.getElem?_map] at hf
          cases hb : t[j]? with
          | none => simp [hb] at hf
          | some b => have := h2 j b hb; simp [hb, this] at hf
      · right
        refine ⟨b, rest, j + 1, h1, by simpa using h2, ?_, ?_⟩
        · unfold defaultOffender
          refine ⟨by simp [h2, h3], 0, by omega, by simp [ha]⟩
        · intro j' hlt
          unfold defaultOffender
          rintro ⟨hf, _⟩
          cases j' with
          | zero => simp [ha] at hf
          | succ j' =>
            simp only [List.map_cons, List.getElem?_cons_succ, List.getElem?_map] at hf
            cases hb : t[j']? with
            | none => simp [hb] at hf
            | some b' => have := h4 j' b' (by omega) hb; simp [hb, this] at hf
    · have ha' : a.dflt = false := by simpa using ha
      have e : ((a :: t).dropWhile (fun a => !a.dflt)).dropWhile (fun a => a.dflt)
          = (t.dropWhile (fun a => !a.dflt)).dropWhile (fun a => a.dflt) := by simp [ha']
      rw [e]
      simp only [List.map_cons, ha']
      rcases ih with ⟨h1, h2⟩ | ⟨b, rest, j, h1, h2, h3, h4⟩
      · left
        refine ⟨h1, ?_⟩
        intro j
        cases j with
        | zero => exact not_offender_zero _
        | succ j => rw [offender_cons_false]; exact h2 j
      · right
        refine ⟨b, rest, j + 1, h1, by simpa using h2, (offender_cons_false _ _).2 h3, ?_⟩
        intro j' hlt
        cases j' with
        | zero => exact not_offender_zero _
        | succ j' => rw [offender_cons_false]; exact h4 j' (by omega)


/-- index `j` repeats a name of `seen` or an earlier name of the list -/
def dupOff (seen names : List Nat) (j : Nat) : Prop :=
  ∃ n, names[j]? = some n ∧ (n ∈ seen ∨ ∃ i, i < j ∧ names[i]? = some n)

theorem dupOff_succ (seen nt : List Nat) (x j : Nat) :
    dupOff seen (x :: nt) (j + 1) ↔ dupOff (x :: seen) nt j := by
  unfold dupOff
  simp only [List.getElem?_cons_succ]
  constructor
  · rintro ⟨n, hn, h | ⟨i, hi, h⟩⟩
    · exact ⟨n, hn, Or.inl (List.mem_cons_of_mem _ h)⟩
    · cases i with
      | zero => simp at h; subst h; exact ⟨_, hn, Or.inl (List.mem_cons_self ..)⟩
      | succ i => exact ⟨n, hn, Or.inr ⟨i, by omega, by simpa using h⟩⟩
  · rintro ⟨n, hn, h | ⟨i, hi, h⟩⟩
    · rcases List.mem_cons.1 h with h | h
      · subst h; exact ⟨_, hn, Or.inr ⟨0, by omega, by simp⟩⟩
      · exact ⟨n, hn, Or.inl h⟩
    · exact ⟨n, hn, Or.inr ⟨i + 1, by omega, by simpa using h⟩⟩

theorem dupGo_core (l : List Arg) : ∀ seen : List Nat,
    (dupGo seen l = none ∧ ∀ j, ¬ dupOff seen (l.map (·.name)) j) ∨
    (∃ (j : Nat) (a : Arg), l[j]? = some a ∧ dupGo seen l = some (.duplicateArgument, a.off) ∧
        dupOff seen (l.map (·.name)) j ∧ ∀ j', j' < j → ¬ dupOff seen (l.map (·.name)) j') := by
  induction l with
  | nil => intro seen; left; simp [dupGo, dupOff]
  | cons a t ih =>
    intro seen
    by_cases ha : a.name ∈ seen
    · right
      refine ⟨0, a, by simp, by simp [dupGo, ha], ⟨a.name, by simp, Or.inl ha⟩, ?_⟩
      intro j' h; omega
    · have e : dupGo seen (a :: t) = dupGo (a.name :: seen) t := by simp [dupGo, ha]
      rw [e]
      simp only [List.map_cons]
      rcases ih (a.name :: seen) with ⟨h1, h2⟩ | ⟨j, b, h1, h2, h3, h4⟩
      · left
        refine ⟨h1, ?_⟩
        intro j
        cases j with
        | zero =>
          rintro ⟨n, hn, h | ⟨i, hi, _⟩⟩
          · simp at hn; subst hn; exact ha h
          · omega
        | succ j => rw [dupOff_succ]; exact h2 j
      · right
        refine ⟨j + 1, b, by simpa using h1, h2, (dupOff_succ ..).2 h3, ?_⟩
        intro j' hlt
        cases j' with
        | zero =>
          rintro ⟨n, hn, h | ⟨i, hi, _⟩⟩
          · simp at hn; subst hn; exact ha h
          · omega
        | succ j' => rw [dupOff_succ]; exact h4 j' (by omega)

theorem dupOff_nil (names : List Nat) (j : Nat) : dupOff [] names j ↔ dupOffender names j := by
  unfold dupOff dupOffender
  constructor
  · rintro ⟨n, hn, h | ⟨i, hi, h⟩⟩
    · simp at h
    · refine ⟨?_, i, hi, by rw [h, hn]⟩
      by_cases hj : j < names.length
      · exact hj
      · simp [List.getElem?_eq_none (by omega : names.length ≤ j)] at hn
  · rintro ⟨hj, i, hi, h⟩
    refine ⟨names[j], by simp [hj], Or.inr ⟨i, hi, ?_⟩⟩
    rw [h]; simp [hj]

theorem dupName_iff (names : List Nat) : dupName names ↔ ∃ j, dupOffender names j := by
  unfold dupName dupOffender
  constructor
  · rintro ⟨j, h1, h2⟩; exact ⟨j, h1, h2⟩
  · rintro ⟨j, h1, h2⟩; exact ⟨j, h1, h2⟩


/-- item `j` is an offender given the loop state `st` reached before the list -/
def argOff (st : PAState) (items : List AItem) (j : Nat) : Prop :=
  (items[j]? = some .pos ∧ (st.anyKw = true ∨ ∃ i, i < j ∧ ∃ a, items[i]? = some a ∧ isKwLike a = true)) ∨
  (items[j]? = some .star ∧ (st.dstar = true ∨ ∃ i, i < j ∧ items[i]? = some .dstar)) ∨
  (∃ n, items[j]? = some (.kw n) ∧ (n ∈ st.names ∨ ∃ i, i < j ∧ items[i]? = some (.kw n)))

def PAState.step (st : PAState) : AItem → PAState
  | .kw n => { st with names := n :: st.names, anyKw := true }
  | .dstar => { st with dstar := true, anyKw := true }
  | _ => st

theorem argOff_succ (st : PAState) (x : AItem) (t : List AItem) (j : Nat) :
    argOff st (x :: t) (j + 1) ↔ argOff (st.step x) t j := by
  unfold argOff
  simp only [List.getElem?_cons_succ]
  constructor
  · rintro (⟨h, h' | ⟨i, hi, a, ha, hk⟩⟩ | ⟨h, h' | ⟨i, hi, ha⟩⟩ | ⟨n, h, h' | ⟨i, hi, ha⟩⟩)
    · left; refine ⟨h, Or.inl ?_⟩; cases x <;> simp [PAState.step, h']
    · left; refine ⟨h, ?_⟩
      cases i with
      | zero => simp at ha; subst ha; left; cases x <;> simp_all [PAState.step, isKwLike]
      | succ i => right; exact ⟨i, by omega, a, by simpa using ha, hk⟩
    · right; left; refine ⟨h, Or.inl ?_⟩; cases x <;> simp [PAState.step, h']
    · right; left; refine ⟨h, ?_⟩
      cases i with
      | zero => simp at ha; subst ha; left; simp [PAState.step]
      | succ i => right; exact ⟨i, by omega, by simpa using ha⟩
    · right; right; refine ⟨n, h, Or.inl ?_⟩; cases x <;> simp [PAState.step, h']
    · right; right; refine ⟨n, h, ?_⟩
      cases i with
      | zero => simp at ha; subst ha; left; simp [PAState.step]
      | succ i => right; exact ⟨i, by omega, by simpa using ha⟩
  · rintro (⟨h, h' | ⟨i, hi, a, ha, hk⟩⟩ | ⟨h, h' | ⟨i, hi, ha⟩⟩ | ⟨n, h, h' | ⟨i, hi, ha⟩⟩)
    · left; refine ⟨h, ?_⟩
      cases x with
      | pos => left; simpa [PAState.step] using h'
      | star => left; simpa [PAState.step] using h'
      | kw m => right; exact ⟨0, by omega, .kw m, by simp, rfl⟩
      | dstar => right; exact ⟨0, by omega, .dstar, by simp, rfl⟩
    · left; exact ⟨h, Or.inr ⟨i + 1, by omega, a, by simpa using ha, hk⟩⟩
    · right; left; refine ⟨h, ?_⟩
      cases x with
      | pos => left; simpa [PAState.step] using h'
      | star => left; simpa [PAState.step] using h'
      | kw m => left; simpa [PAState.step] using h'
      | dstar => right; exact ⟨0, by omega, by simp⟩
    · right; left; exact ⟨h, Or.inr ⟨i + 1, by omega, by simpa using ha⟩⟩
    · right; right; refine ⟨n, h, ?_⟩
      cases x with
      | pos => left; simpa [PAState.step] using h'
      | star => left; simpa [PAState.step] using h'
      | dstar => left; simpa [PAState.step] using h'
      | kw m =>
        simp [PAState.step] at h'
        rcases h' with h' | h'
        · subst h'; right; exact ⟨0, by omega, by simp⟩
        · left; exact h'
    · right; right; exact ⟨n, h, Or.inr ⟨i + 1, by omega, by simpa using ha⟩⟩



theorem argOff_zero (st : PAState) (x : AItem) (t : List AItem) :
    argOff st (x :: t) 0 ↔
      (x = .pos ∧ st.anyKw = true) ∨ (x = .star ∧ st.dstar = true) ∨ (∃ n, x = .kw n ∧ n ∈ st.names) := by
  unfold argOff
  simp only [List.getElem?_cons_zero, Option.some.injEq]
  constructor
  · rintro (⟨h, h' | ⟨i, hi, _⟩⟩ | ⟨h, h' | ⟨i, hi, _⟩⟩ | ⟨n, h, h' | ⟨i, hi, _⟩⟩)
    · exact Or.inl ⟨h, h'⟩
    · omega
    · exact Or.inr (Or.inl ⟨h, h'⟩)
    · omega
    · exact Or.inr (Or.inr ⟨n, h, h'⟩)
    · omega
  · rintro (⟨h, h'⟩ | ⟨h, h'⟩ | ⟨n, h, h'⟩)
    · exact Or.inl ⟨h, Or.inl h'⟩
    · exact Or.inr (Or.inl ⟨h, Or.inl h'⟩)
    · exact Or.inr (Or.inr ⟨n, h, Or.inl h'⟩)

theorem parseArgsGo_core (items : List AItem) : ∀ (st : PAState) (off0 : Nat),
    (st.dstar = true → st.anyKw = true) →
    (parseArgsGo st (layoutArgs off0 items) = none ∧ ∀ j, ¬ argOff st items j) ∨
    (∃ (j : Nat) (a : AItem) (o : Nat), (layoutArgs off0 items)[j]? = some (a, o) ∧
        parseArgsGo st (layoutArgs off0 items) = some (argKind a, o) ∧
        argOff st items j ∧ ∀ j', j' < j → ¬ argOff st items j') := by
  induction items with
  | nil => intro st off0 _; left; simp [parseArgsGo, layoutArgs, argOff]
  | cons x t ih =>
    intro st off0 hinv
    by_cases h0 : argOff st (x :: t) 0
    · right
      refine ⟨0, x, off0, by simp [layoutArgs], ?_, h0, fun j' h => by omega⟩
      rw [argOff_zero] at h0
      rcases h0 with ⟨h, h'⟩ | ⟨h, h'⟩ | ⟨n, h, h'⟩
      · subst h; simp [layoutArgs, parseArgsGo, h', argKind]
      · subst h; simp [layoutArgs, parseArgsGo, h', argKind]
      · subst h; simp [layoutArgs, parseArgsGo, h', argKind]
    · have hstep : parseArgsGo st (layoutArgs off0 (x :: t)) =
          parseArgsGo (st.step x) (layoutArgs (off0 + x.len + 2) t) := by
        rw [argOff_zero] at h0
        cases x with
        | pos =>
          have h1 : st.anyKw = false := by
            cases h : st.anyKw <;> simp_all
          have h2 : st.dstar = false := by
            cases h : st.dstar
            · rfl
            · have := hinv h; simp_all
          simp [layoutArgs, parseArgsGo, h1, h2, PAState.step]
        | star =>
          have h2 : st.dstar = false := by
            cases h : st.dstar <;> simp_all
          simp [layoutArgs, parseArgsGo, h2, PAState.step]
        | kw n =>
          have h3 : n ∉ st.names := by
            intro hn; exact h0 (Or.inr (Or.inr ⟨n, rfl, hn⟩))
          simp [layoutArgs, parseArgsGo, h3, PAState.step]
        | dstar => simp [layoutArgs, parseArgsGo, PAState.step]
      have hinv' : (st.step x).dstar = true → (st.step x).anyKw = true := by
        cases x <;> simp [PAState.step] <;> exact hinv
      rw [hstep]
      rcases ih (st.step x) (off0 + x.len + 2) hinv' with ⟨h1, h2⟩ | ⟨j, a, o, h1, h2, h3, h4⟩
      · left
        refine ⟨h1, ?_⟩
        intro j
        cases j with
        | zero => exact h0
        | succ j => rw [argOff_succ]; exact h2 j
      · right
        refine ⟨j + 1, a, o, by simpa [layoutArgs] using h1, h2, (argOff_succ ..).2 h3, ?_⟩
        intro j' hlt
        cases j' with
        | zero => exact h0
        | succ j' => rw [argOff_succ]; exact h4 j' (by omega)

theorem argOff_init (items : List AItem) (j : Nat) :
    argOff ⟨[], false, false⟩ items j ↔ argOffender items j := by
  unfold argOff argOffender
  simp


theorem exists_offender_iff (fs : List Bool) :
    defaultOrderBroken fs ↔ ∃ j, defaultOffender fs j := by
  unfold defaultOrderBroken defaultOffender
  constructor
  · rintro ⟨j, _, h⟩; exact ⟨j, h⟩
  · rintro ⟨j, h1, h2⟩
    refine ⟨j, ?_, h1, h2⟩
    by_cases hj : j < fs.length
    · exact hj
    · simp [List.getElem?_eq_none (by omega : fs.length ≤ j)] at h1


/-- start offset of item `j` in the rendered argument list (items joined by `, `) -/
def argStart (items : List AItem) (j : Nat) : Nat := ((items.take j).map (fun a => a.len + 2)).sum

theorem layoutArgs_get (items : List AItem) : ∀ (off j : Nat) (a : AItem) (o : Nat),
    (layoutArgs off items)[j]? = some (a, o) → items[j]? = some a ∧ o = off + argStart items j := by
  induction items with
  | nil => intro off j a o h; simp [layoutArgs] at h
  | cons x t ih =>
    intro off j a o h
    cases j with
    | zero => simp [layoutArgs] at h; simp [argStart, h.1, h.2]
    | succ j =>
      simp [layoutArgs] at h
      have := ih _ _ _ _ h
      refine ⟨by simpa using this.1, ?_⟩
      rw [this.2]; simp [argStart]; omega

theorem exists_argOffender_iff (items : List AItem) :
    (∃ j, argOffender items j) ↔ posAfterKw items ∨ starAfterDoubleStar items ∨ dupKw items := by
  have lt : ∀ (j : Nat) (a : AItem), items[j]? = some a → j < items.length := by
    intro j a h
    by_cases hj : j < items.length
    · exact hj
    · simp [List.getElem?_eq_none (by omega : items.length ≤ j)] at h
  unfold argOffender posAfterKw starAfterDoubleStar dupKw
  constructor
  · rintro ⟨j, h | h | ⟨n, h1, h2⟩⟩
    · exact Or.inl ⟨j, lt j _ h.1, h⟩
    · exact Or.inr (Or.inl ⟨j, lt j _ h.1, h⟩)
    · exact Or.inr (Or.inr ⟨j, lt j _ h1, n, h1, h2⟩)
  · rintro (⟨j, _, h⟩ | ⟨j, _, h⟩ | ⟨j, _, h⟩)
    · exact ⟨j, Or.inl h⟩
    · exact ⟨j, Or.inr (Or.inl h)⟩
    · exact ⟨j, Or.inr (Or.inr h)⟩



/-! ### brackets -/

/-- the stack after reading a word (`none`: a closer did not match) -/
def run : List Sym → List BK → Option (List BK)
  | [], s => some s
  | .op k :: r, s => run r (k :: s)
  | .cl k :: r, s =>
    match s with
    | [] => none
    | t :: s' => if t = k then run r s' else none
  | .nl :: r, s => run r s

theorem run_append (u v : List Sym) : ∀ s, run (u ++ v) s = (run u s).bind (run v) := by
  induction u with
  | nil => intro s; simp [run]
  | cons x u ih =>
    intro s
    cases x with
    | op k => simp [run, ih]
    | nl => simp [run, ih]
    | cl k =>
      cases s with
      | nil => simp [run]
      | cons t s' =>
        by_cases h : t = k
        · simp [run, h, ih]
        · simp [run, h]

theorem matchGo_none_iff (w : List Sym) : ∀ s i, matchGo s i w = none ↔ run w s = some [] := by
  induction w with
  | nil => intro s i; cases s <;> simp [matchGo, run]
  | cons x w ih =>
    intro s i
    cases x with
    | op k => simp [matchGo, run, ih]
    | nl => simp [matchGo, run, ih]
    | cl k =>
      cases s with
      | nil => simp [matchGo, run]
      | cons t s' =>
        by_cases h : t = k
        · simp [matchGo, run, h, ih]
        · simp [matchGo, run, h]

theorem dyck_run (w : List Sym) (h : Dyck w) : ∀ s, run w s = some s := by
  induction h with
  | nil => intro s; rfl
  | nl _ ih => intro s; simp [run, ih]
  | wrap k _ _ ihu ihv =>
    intro s
    simp only [run]
    rw [run_append, ihu (k :: s)]
    simp [run, ihv]

/-- `w` closes exactly the pending stack `s`: `w = d₀ )ₖ₁ d₁ )ₖ₂ … dₙ` with every `dᵢ` balanced -/
def Bal : List BK → List Sym → Prop
  | [], w => Dyck w
  | k :: s, w => ∃ d r, w = d ++ .cl k :: r ∧ Dyck d ∧ Bal s r

theorem bal_nl (s : List BK) (w : List Sym) (h : Bal s w) : Bal s (.nl :: w) := by
  cases s with
  | nil => exact Dyck.nl h
  | cons k s =>
    obtain ⟨d, r, e, hd, hr⟩ := h
    exact ⟨.nl :: d, r, by simp [e], Dyck.nl hd, hr⟩

theorem bal_op (k : BK) (s : List BK) (w : List Sym) (h : Bal (k :: s) w) : Bal s (.op k :: w) := by
  obtain ⟨d, r, e, hd, hr⟩ := h
  cases s with
  | nil => subst e; exact Dyck.wrap k hd hr
  | cons k' s' =>
    obtain ⟨d', r', e', hd', hr'⟩ := hr
    refine ⟨.op k :: (d ++ .cl k :: d'), r', ?_, Dyck.wrap k hd hd', hr'⟩
    subst e; subst e'; simp

theorem run_bal (w : List Sym) : ∀ s, run w s = some [] → Bal s w := by
  induction w with
  | nil => intro s h; simp [run] at h; subst h; exact Dyck.nil
  | cons x w ih =>
    intro s h
    cases x with
    | op k => exact bal_op k s w (ih _ (by simpa [run] using h))
    | nl => exact bal_nl s w (ih _ (by simpa [run] using h))
    | cl k =>
      cases s with
      | nil => simp [run] at h
      | cons t s' =>
        by_cases ht : t = k
        · subst ht
          exact ⟨[], w, by simp, Dyck.nil, ih _ (by simpa [run] using h)⟩
        · simp [run, ht] at h

theorem run_closes (s : List BK) : run (s.map Sym.cl) s = some [] := by
  induction s with
  | nil => rfl
  | cons k s ih => simp [run, ih]

theorem viable_iff (u : List Sym) : Viable u ↔ (run u []).isSome = true := by
  constructor
  · rintro ⟨v, h⟩
    have := dyck_run _ h []
    rw [run_append] at this
    cases hr : run u [] with
    | none => simp [hr] at this
    | some s => rfl
  · intro h
    cases hr : run u [] with
    | none => simp [hr] at h
    | some s =>
      refine ⟨s.map Sym.cl, ?_⟩
      have : run (u ++ s.map Sym.cl) [] = some [] := by rw [run_append, hr]; simpa using run_closes s
      exact run_bal _ [] this

theorem matchGo_ge (w : List Sym) : ∀ s i k off, matchGo s i w = some (k, off) → i ≤ off := by
  induction w with
  | nil => intro s i k off h; cases s <;> simp [matchGo] at h; omega
  | cons x w ih =>
    intro s i k off h
    cases x with
    | op c => have := ih _ _ _ _ (by simpa [matchGo] using h); omega
    | nl => have := ih _ _ _ _ (by simpa [matchGo] using h); omega
    | cl c =>
      cases s with
      | nil => simp [matchGo] at h; omega
      | cons t s' =>
        by_cases ht : t = c
        · have := ih _ _ _ _ (by simpa [matchGo, ht] using h); omega
        · simp [matchGo, ht] at h; omega

/-- where and why the matcher stops -/
theorem matchGo_err (w : List Sym) : ∀ s i0 k off, matchGo s i0 w = some (k, off) →
    (∃ i c, w[i]? = some (.cl c) ∧ run (w.take i) s = some [] ∧ k = .nesting ∧ off = i0 + i + 1) ∨
    (∃ i c t s', w[i]? = some (.cl c) ∧ run (w.take i) s = some (t :: s') ∧ t ≠ c ∧ k = .syntax ∧ off = i0 + i) ∨
    (∃ s', run w s = some s' ∧ s' ≠ [] ∧ k = .eof ∧ off = i0 + w.length) := by
  induction w with
  | nil =>
    intro s i0 k off h
    cases s with
    | nil => simp [matchGo] at h
    | cons t s' => simp [matchGo] at h; right; right; exact ⟨t :: s', rfl, by simp, h.1.symm, by simp [h.2]⟩
  | cons x w ih =>
    intro s i0 k off h
    have lift : ∀ s1, (∀ u, run (x :: u) s = run u s1) → matchGo s1 (i0 + 1) w = some (k, off) →
        (∃ i c, (x :: w)[i]? = some (.cl c) ∧ run ((x :: w).take i) s = some [] ∧ k = .nesting ∧ off = i0 + i + 1) ∨
        (∃ i c t s', (x :: w)[i]? = some (.cl c) ∧ run ((x :: w).take i) s = some (t :: s') ∧ t ≠ c ∧ k = .syntax ∧ off = i0 + i) ∨
        (∃ s', run (x :: w) s = some s' ∧ s' ≠ [] ∧ k = .eof ∧ off = i0 + (x :: w).length) := by
      intro s1 hs1 h1
      rcases ih s1 (i0 + 1) k off h1 with ⟨i, c, a, b, e, f⟩ | ⟨i, c, t, s', a, b, ne, e, f⟩ | ⟨s', a, b, e, f⟩
      · left; exact ⟨i + 1, c, by simpa using a, by simp [List.take_succ_cons, hs1, b], e, by omega⟩
      · right; left; exact ⟨i + 1, c, t, s', by simpa using a, by simp [List.take_succ_cons, hs1, b], ne, e, by omega⟩
      · right; right; exact ⟨s', by rw [hs1]; exact a, b, e, by simp; omega⟩
    cases x with
    | op c => exact lift (c :: s) (fun u => by simp [run]) (by simpa [matchGo] using h)
    | nl => exact lift s (fun u => by simp [run]) (by simpa [matchGo] using h)
    | cl c =>
      cases s with
      | nil =>
        simp [matchGo] at h
        left; exact ⟨0, c, by simp, by simp [run], h.1.symm, by omega⟩
      | cons t s' =>
        by_cases ht : t = c
        · exact lift s' (fun u => by simp [run, ht]) (by simpa [matchGo, ht] using h)
        · simp [matchGo, ht] at h
          right; left; exact ⟨0, c, t, s', by simp, by simp [run], ht, h.1.symm, by omega⟩


theorem rawGo_none (w : List Sym) : ∀ (stack : List Frame) (st : PSt) (i : Nat),
    rawGo stack st i w = none → matchGo (stack.map (·.kind)) i w = none := by
  induction w with
  | nil => intro stack st i h; cases stack <;> simp_all [rawGo, matchGo]
  | cons x w ih =>
    intro stack st i h
    cases x with
    | nl =>
      simp only [rawGo] at h
      simp only [matchGo]
      split at h
      · exact ih _ _ _ h
      · exact ih _ _ _ h
    | op k =>
      simp only [rawGo] at h
      simp only [matchGo]
      split at h
      · cases k with
        | paren => exact ih (⟨.paren, false⟩ :: stack) _ _ h
        | sq => exact ih (⟨.sq, true⟩ :: stack) _ _ h
        | brace => simp at h
      · exact ih (⟨k, false⟩ :: stack) _ _ h
    | cl k =>
      cases stack with
      | nil => simp [rawGo] at h
      | cons f fs =>
        simp only [rawGo] at h
        simp only [matchGo, List.map_cons]
        by_cases hk : f.kind = k
        · simp only [hk, ne_eq, not_true_eq_false, if_false] at h
          simp only [hk, if_true]
          split at h
          · simp at h
          · exact ih _ _ _ h
        · simp [hk] at h

theorem rawGo_not_later (w : List Sym) : ∀ (stack : List Frame) (st : PSt) (i : Nat) (k : Kind) (off : Nat),
    matchGo (stack.map (·.kind)) i w = some (k, off) →
    ∃ k' off', rawGo stack st i w = some (k', off') ∧ off' ≤ off := by
  induction w with
  | nil =>
    intro stack st i k off h
    cases stack with
    | nil => simp [matchGo] at h
    | cons f fs => simp [matchGo] at h; exact ⟨.eof, i, by simp [rawGo], by omega⟩
  | cons x w ih =>
    intro stack st i k off h
    cases x with
    | nl =>
      simp only [matchGo] at h
      simp only [rawGo]
      split
      · exact ih _ _ _ _ _ h
      · exact ih _ _ _ _ _ h
    | op c =>
      simp only [matchGo] at h
      simp only [rawGo]
      split
      · cases c with
        | paren => exact ih (⟨.paren, false⟩ :: stack) _ _ _ _ h
        | sq => exact ih (⟨.sq, true⟩ :: stack) _ _ _ _ h
        | brace =>
          have := matchGo_ge _ _ _ _ _ h
          exact ⟨.syntax, i, rfl, by omega⟩
      · exact ih (⟨c, false⟩ :: stack) _ _ _ _ h
    | cl c =>
      cases stack with
      | nil => simp [matchGo] at h; exact ⟨.nesting, i + 1, by simp [rawGo], by omega⟩
      | cons f fs =>
        simp only [matchGo, List.map_cons] at h
        simp only [rawGo]
        by_cases hk : f.kind = c
        · simp only [hk, if_true] at h
          simp only [hk, ne_eq, not_true_eq_false, if_false]
          split
          · have := matchGo_ge _ _ _ _ _ h
            exact ⟨.syntax, i, rfl, by omega⟩
          · exact ih _ _ _ _ _ h
        · simp [hk] at h
          exact ⟨.syntax, i, by simp [hk], by omega⟩


theorem not_viable_of_run (w : List Sym) (i : Nat) (c : BK) (s : List BK)
    (hi : w[i]? = some (.cl c)) (hr : run (w.take i) [] = some s)
    (hbad : ∀ t s', s = t :: s' → t ≠ c) : ¬ Viable (w.take (i + 1)) := by
  rw [viable_iff]
  have e : w.take (i + 1) = w.take i ++ [.cl c] := by
    rw [List.take_add_one]; simp [hi]
  rw [e, run_append, hr]
  cases s with
  | nil => simp [run]
  | cons t s' => simp [run, hbad t s' rfl]


/-! ### indentation -/

theorem cmpNat_eq_cmp (a b : Nat) : cmpNat a b = Spec.cmp a b := rfl

theorem width_lt_of (a b : Level) (p q : Nat) (hp : 0 < p) (ht : a.tabs < b.tabs) (hs : a.spaces ≤ b.spaces) :
    width a p q < width b p q := by
  unfold width
  have h1 : (a.tabs + 1) * p ≤ b.tabs * p := Nat.mul_le_mul_right p ht
  have h2 : a.spaces * q ≤ b.spaces * q := Nat.mul_le_mul_right q hs
  rw [Nat.add_mul, Nat.one_mul] at h1
  omega

/-- `compare_strict` answers `o` exactly when `o` is the comparison of the two indentations for EVERY
    positive width of a tab and of a space. -/
theorem compareStrict_sound (a b : Level) (o : Ord3) (h : compareStrict a b = some o) (p q : Nat)
    (hp : 0 < p) (hq : 0 < q) : Spec.cmp (width a p q) (width b p q) = o := by
  unfold compareStrict cmpNat at h
  split at h
  · -- tabs decide
    rename_i hc
    split at hc
    · -- a.tabs < b.tabs
      rename_i ht
      split at h
      · rename_i hs
        have := width_lt_of a b p q hp ht hs
        cases h; unfold Spec.cmp; simp [this]
      · cases h
    · split at hc <;> cases hc
  · rename_i hc
    split at hc
    · cases hc
    · split at hc
      · cases hc
      · rename_i h1 h2
        have ht : b.tabs < a.tabs := by omega
        split at h
        · rename_i hs
          have := width_lt_of b a p q hp ht hs
          cases h; unfold Spec.cmp
          have h3 : ¬ width a p q < width b p q := by omega
          have h4 : ¬ width a p q = width b p q := by omega
          simp [h3, h4]
        · cases h
  · rename_i hc
    split at hc
    · cases hc
    · split at hc
      · rename_i h1 ht
        cases h
        unfold Spec.cmp width
        rw [ht]
        by_cases hs : a.spaces < b.spaces
        · have : a.spaces * q < b.spaces * q := Nat.mul_lt_mul_of_pos_right hs hq
          simp [hs, this]
        · by_cases he : a.spaces = b.spaces
          · simp [he]
          · have hgt : b.spaces < a.spaces := by omega
            have : b.spaces * q < a.spaces * q := Nat.mul_lt_mul_of_pos_right hgt hq
            have h3 : ¬ b.tabs * p + a.spaces * q < b.tabs * p + b.spaces * q := by omega
            have h4 : ¬ a.spaces * q = b.spaces * q := by omega
            simp [hs, he, h3, h4]
      · cases hc

theorem ambiguous_of (a b : Level) (ht : a.tabs < b.tabs) (hs : b.spaces < a.spaces) :
    Spec.cmp (width a 1 (b.tabs - a.tabs + 1)) (width b 1 (b.tabs - a.tabs + 1)) = .gt ∧
    Spec.cmp (width a (a.spaces - b.spaces + 1) 1) (width b (a.spaces - b.spaces + 1) 1) = .lt := by
  constructor
  · unfold Spec.cmp width
    have h1 : (b.spaces + 1) * (b.tabs - a.tabs + 1) ≤ a.spaces * (b.tabs - a.tabs + 1) :=
      Nat.mul_le_mul_right _ hs
    rw [Nat.add_mul, Nat.one_mul] at h1
    have h3 : ¬ a.tabs * 1 + a.spaces * (b.tabs - a.tabs + 1) < b.tabs * 1 + b.spaces * (b.tabs - a.tabs + 1) := by omega
    have h4 : ¬ a.tabs * 1 + a.spaces * (b.tabs - a.tabs + 1) = b.tabs * 1 + b.spaces * (b.tabs - a.tabs + 1) := by omega
    simp only [h3, h4, if_false]
  · unfold Spec.cmp width
    have h1 : (a.tabs + 1) * (a.spaces - b.spaces + 1) ≤ b.tabs * (a.spaces - b.spaces + 1) :=
      Nat.mul_le_mul_right _ ht
    rw [Nat.add_mul, Nat.one_mul] at h1
    have h3 : a.tabs * (a.spaces - b.spaces + 1) + a.spaces * 1 < b.tabs * (a.spaces - b.spaces + 1) + b.spaces * 1 := by omega
    simp only [h3, if_true]

theorem cmp_swap (x y : Nat) : Spec.cmp x y = .gt ↔ Spec.cmp y x = .lt := by
  unfold Spec.cmp
  by_cases h1 : x < y
  · have : ¬ y < x := by omega
    have : ¬ y = x := by omega
    simp_all
  · by_cases h2 : x = y
    · simp_all
    · have : y < x := by omega
      simp_all



/-! ### eat_indentation -/

theorem tabAfterSpace_cons (x : Bool) (r : List Bool) :
    tabAfterSpace (x :: r) ↔ (x = false ∧ true ∈ r) ∨ tabAfterSpace r := by
  unfold tabAfterSpace
  constructor
  · rintro ⟨i, j, hij, hi, hj⟩
    cases j with
    | zero => omega
    | succ j =>
      cases i with
      | zero =>
        left
        simp at hi hj
        exact ⟨hi, List.mem_of_getElem? hj⟩
      | succ i => right; exact ⟨i, j, by omega, by simpa using hi, by simpa using hj⟩
  · rintro (⟨hx, hm⟩ | ⟨i, j, hij, hi, hj⟩)
    · obtain ⟨j, hj⟩ := List.getElem?_of_mem hm
      exact ⟨0, j + 1, by omega, by simp [hx], by simpa using hj⟩
    · exact ⟨i + 1, j + 1, by omega, by simpa using hi, by simpa using hj⟩

theorem scanWs_spec (ws : List Bool) : ∀ (t s i : Nat),
    (∃ lvl, scanWs t s i ws = .ok lvl ∧ lvl = ⟨t + ws.count true, s + ws.count false⟩ ∧
        ¬ tabAfterSpace ws ∧ (s ≠ 0 → true ∉ ws)) ∨
    (∃ j, scanWs t s i ws = .error (i + j) ∧ ws[j]? = some true ∧
        (tabAfterSpace ws ∨ (s ≠ 0 ∧ true ∈ ws))) := by
  induction ws with
  | nil => intro t s i; left; exact ⟨⟨t, s⟩, by simp [scanWs], by simp, by simp [tabAfterSpace], by simp⟩
  | cons x r ih =>
    intro t s i
    cases x with
    | true =>
      by_cases hs : s = 0
      · rcases ih (t + 1) s (i + 1) with ⟨lvl, h1, h2, h3, h4⟩ | ⟨j, h1, h2, h3⟩
        · left
          refine ⟨lvl, by simp [scanWs, hs, ← h1], by simp [h2]; omega, ?_, by simp [hs]⟩
          rw [tabAfterSpace_cons]; simp [h3]
        · right
          refine ⟨j + 1, by simp [scanWs, hs]; rw [← hs, h1]; congr 1; omega, by simpa using h2, ?_⟩
          rcases h3 with h3 | ⟨h3, _⟩
          · left; rw [tabAfterSpace_cons]; exact Or.inr h3
          · exact absurd hs h3
      · right
        exact ⟨0, by simp [scanWs, hs], by simp, Or.inr ⟨hs, by simp⟩⟩
    | false =>
      rcases ih t (s + 1) (i + 1) with ⟨lvl, h1, h2, h3, h4⟩ | ⟨j, h1, h2, h3⟩
      · left
        refine ⟨lvl, by simp [scanWs, h1], by simp [h2]; omega, ?_, ?_⟩
        · rw [tabAfterSpace_cons]
          have := h4 (by omega)
          simp [h3, this]
        · intro _; simpa using h4 (by omega)
      · right
        refine ⟨j + 1, by simp [scanWs]; rw [h1]; congr 1; omega, by simpa using h2, ?_⟩
        left
        rw [tabAfterSpace_cons]
        rcases h3 with h3 | ⟨_, h3⟩
        · exact Or.inr h3
        · exact Or.inl ⟨rfl, h3⟩


theorem compareStrict_eq_iff (a b : Level) : compareStrict a b = some .eq ↔ a = b := by
  unfold compareStrict cmpNat
  constructor
  · intro h
    split at h
    · split at h <;> cases h
    · split at h <;> cases h
    · rename_i hc
      have ht : a.tabs = b.tabs := by
        split at hc
        · cases hc
        · split at hc
          · assumption
          · cases hc
      simp only [Option.some.injEq] at h
      have hs : a.spaces = b.spaces := by
        split at h
        · cases h
        · split at h
          · assumption
          · cases h
      cases a; cases b; simp_all
  · intro h; subst h; simp

theorem compareStrict_gt_ne_base (a b : Level) (h : compareStrict a b = some .gt) : a ≠ ⟨0, 0⟩ := by
  intro e; subst e
  have := compareStrict_sound _ _ _ h 1 1 (by omega) (by omega)
  unfold Spec.cmp width at this
  simp at this
  split at this
  · cases this
  · split at this
    · cases this
    · omega

theorem compareStrict_base (a : Level) :
    compareStrict a ⟨0, 0⟩ = some .eq ∨ compareStrict a ⟨0, 0⟩ = some .gt := by
  unfold compareStrict cmpNat
  by_cases ht : a.tabs = 0
  · by_cases hs : a.spaces = 0
    · left; simp [ht, hs]
    · right; simp [ht, hs]
  · right
    have : ¬ a.tabs < 0 := by omega
    simp [ht]

/-- the stack of enclosing levels the lexer maintains: every level is strictly above (for every tab
    width) all the levels below it -/
def Chain (stack : List Level) : Prop :=
  stack.Pairwise (fun x y => compareStrict x y = some .gt)


theorem filter_id_pos (ks : List Bool) : 0 < (ks.filter id).length ↔ true ∈ ks := by
  induction ks with
  | nil => simp
  | cons x r ih => cases x <;> simp [ih]

theorem filter_id_lt (ks : List Bool) : (ks.filter id).length < ks.length ↔ false ∈ ks := by
  induction ks with
  | nil => simp
  | cons x r ih =>
    cases x with
    | true => simp [ih]
    | false =>
      have := List.length_filter_le id r
      simp; omega



/-! ### numbers -/

theorem mem_seq {f g : List Nat → List (List Nat)} {l r : List Nat} :
    r ∈ seq f g l ↔ ∃ m, m ∈ f l ∧ r ∈ g m := by
  simp [seq, List.mem_flatMap]

theorem mem_alt {f g : List Nat → List (List Nat)} {l r : List Nat} :
    r ∈ alt f g l ↔ r ∈ f l ∨ r ∈ g l := by
  simp [alt]

theorem mem_opt {f : List Nat → List (List Nat)} {l r : List Nat} :
    r ∈ opt f l ↔ r = l ∨ r ∈ f l := by
  simp [opt]

theorem mem_lit {p : Nat → Bool} {c : Nat} {t : List Nat} (h : p c = true) : t ∈ lit p (c :: t) := by
  simp [lit, h]

theorem self_mem_usDigits (d : Nat → Bool) (l : List Nat) : l ∈ usDigits d l := by
  cases l with
  | nil => simp [usDigits]
  | cons c t => unfold usDigits; exact List.mem_cons_self ..

theorem radixRun_digit (r c : Nat) (t : List Nat) (h : isDigitOf r c = true) :
    radixRun r (c :: t) = (c :: (radixRun r t).1, (radixRun r t).2) := by
  simp [radixRun, h]

theorem radixRun_us (r c : Nat) (t : List Nat) (h : isDigitOf r c = false)
    (h2 : (c = 95 && headIs (isDigitOf r) t) = true) :
    radixRun r (c :: t) = radixRun r t := by
  simp only [radixRun, h]
  simp only [h2, if_true]
  simp

theorem radixRun_stop (r c : Nat) (t : List Nat) (h : isDigitOf r c = false)
    (h2 : (c = 95 && headIs (isDigitOf r) t) = false) :
    radixRun r (c :: t) = ([], c :: t) := by
  simp [radixRun, h, h2]

theorem usDigits_digit (d : Nat → Bool) (c : Nat) (t : List Nat) (h : d c = true) :
    usDigits d (c :: t) = (c :: t) :: usDigits d t := by
  cases t <;> simp [usDigits, h]

theorem usDigits_us (d : Nat → Bool) (c' : Nat) (t' : List Nat) (h95 : d 95 = false) (h : d c' = true) :
    usDigits d (95 :: c' :: t') = (95 :: c' :: t') :: usDigits d t' := by
  rw [usDigits]; simp [h, h95]


theorem isDigitOf_95 (r : Nat) : isDigitOf r 95 = false := by
  unfold isDigitOf; split <;> decide

theorem radixRun_len (r : Nat) (l : List Nat) : (radixRun r l).2.length ≤ l.length := by
  induction l with
  | nil => simp [radixRun]
  | cons c t ih =>
    by_cases hc : isDigitOf r c = true
    · rw [radixRun_digit r c t hc]; simp; omega
    · have hc' : isDigitOf r c = false := by simpa using hc
      by_cases h2 : (c = 95 && headIs (isDigitOf r) t) = true
      · rw [radixRun_us r c t hc' h2]; simp; omega
      · rw [radixRun_stop r c t hc' (by simpa using h2)]; simp

/-- the remainder of `radix_run` is one of the remainders of `(["_"] digit)*` -/
theorem radixRun_mem (r : Nat) : ∀ (n : Nat) (l : List Nat), l.length ≤ n →
    (radixRun r l).2 ∈ usDigits (isDigitOf r) l := by
  intro n
  induction n with
  | zero => intro l hl; cases l <;> simp_all [radixRun, usDigits]
  | succ n ih =>
    intro l hl
    cases l with
    | nil => simp [radixRun, usDigits]
    | cons c t =>
      by_cases hc : isDigitOf r c = true
      · rw [radixRun_digit r c t hc, usDigits_digit _ c t hc]
        exact List.mem_cons_of_mem _ (ih t (by simp at hl; omega))
      · have hc' : isDigitOf r c = false := by simpa using hc
        by_cases h2 : (c = 95 && headIs (isDigitOf r) t) = true
        · rw [radixRun_us r c t hc' h2]
          simp only [Bool.and_eq_true, decide_eq_true_eq] at h2
          obtain ⟨h95, hh⟩ := h2
          subst h95
          cases t with
          | nil => simp [headIs] at hh
          | cons c' t' =>
            simp only [headIs] at hh
            rw [radixRun_digit r c' t' hh, usDigits_us _ c' t' (isDigitOf_95 r) hh]
            exact List.mem_cons_of_mem _ (ih t' (by simp at hl; omega))
        · rw [radixRun_stop r c t hc' (by simpa using h2)]
          exact self_mem_usDigits _ _



theorem isDigitOf10 : isDigitOf 10 = digit := by funext c; rfl
theorem isDigitOf8 : isDigitOf 8 = octdigit := by funext c; rfl
theorem isDigitOf16 : isDigitOf 16 = hexdigit := by funext c; rfl
theorem isDigitOf2 : isDigitOf 2 = bindigit := by
  funext c
  unfold isDigitOf bindigit
  rw [Bool.eq_iff_iff]
  simp
  omega

theorem isDec_eq (c : Nat) : isDec c = digit c := rfl

theorem radixRun_digitpart (c : Nat) (t : List Nat) (h : isDec c = true) :
    (radixRun 10 (c :: t)).2 ∈ digitpart (c :: t) := by
  rw [radixRun_digit 10 c t h]
  simp only [digitpart]
  rw [← isDec_eq, h]
  simp only [if_true]
  rw [← isDigitOf10]
  exact radixRun_mem 10 _ t (Nat.le_refl _)

/-- when every collected digit is `0`, the run is also a run of `(["_"] "0")*` -/
theorem radixRun_zeros : ∀ (n : Nat) (l : List Nat), l.length ≤ n →
    (radixRun 10 l).1.all (· = 48) = true → (radixRun 10 l).2 ∈ usDigits (· = 48) l := by
  intro n
  induction n with
  | zero => intro l hl _; cases l <;> simp_all [radixRun, usDigits]
  | succ n ih =>
    intro l hl hz
    cases l with
    | nil => simp [radixRun, usDigits]
    | cons c t =>
      by_cases hc : isDigitOf 10 c = true
      · rw [radixRun_digit 10 c t hc] at hz ⊢
        simp only [List.all_cons, Bool.and_eq_true, decide_eq_true_eq] at hz
        rw [usDigits_digit _ c t (by simp [hz.1])]
        exact List.mem_cons_of_mem _ (ih t (by simp at hl; omega) hz.2)
      · have hc' : isDigitOf 10 c = false := by simpa using hc
        by_cases h2 : (c = 95 && headIs (isDigitOf 10) t) = true
        · rw [radixRun_us 10 c t hc' h2] at hz ⊢
          simp only [Bool.and_eq_true, decide_eq_true_eq] at h2
          obtain ⟨h95, hh⟩ := h2
          subst h95
          cases t with
          | nil => simp [headIs] at hh
          | cons c' t' =>
            simp only [headIs] at hh
            rw [radixRun_digit 10 c' t' hh] at hz ⊢
            simp only [List.all_cons, Bool.and_eq_true, decide_eq_true_eq] at hz
            rw [usDigits_us _ c' t' (by decide) (by simp [hz.1])]
            exact List.mem_cons_of_mem _ (ih t' (by simp at hl; omega) hz.2)
        · rw [radixRun_stop 10 c t hc' (by simpa using h2)]
          exact self_mem_usDigits _ _

/-- digits were collected and the text does not start with `_`: it starts with a digit -/
theorem radixRun_first (l : List Nat) (h : (radixRun 10 l).1.isEmpty = false)
    (hu : headIs (· = 95) l = false) : headIs isDec l = true := by
  cases l with
  | nil => simp [radixRun] at h
  | cons c t =>
    by_cases hc : isDigitOf 10 c = true
    · simp only [headIs, isDec]; exact hc
    · have hc' : isDigitOf 10 c = false := by simpa using hc
      have h95 : c ≠ 95 := by simpa [headIs] using hu
      rw [radixRun_stop 10 c t hc' (by simp [h95])] at h
      simp at h

theorem lexFraction_sound (r1 r2 : List Nat) (h : lexFraction r1 = .ok r2) (hd : headIs (· = 46) r1 = true) :
    ∃ t, r1 = 46 :: t ∧ ((headIs isDec t = true ∧ r2 ∈ digitpart t) ∨ (headIs isDec t = false ∧ r2 = t)) := by
  cases r1 with
  | nil => simp [headIs] at hd
  | cons c t =>
    have hc : c = 46 := by simpa [headIs] using hd
    subst hc
    refine ⟨t, rfl, ?_⟩
    simp only [lexFraction] at h
    split at h
    · cases h
    · rename_i hu
      simp only [Except.ok.injEq] at h
      subst h
      cases t with
      | nil => right; simp [headIs, radixRun]
      | cons c' t' =>
        by_cases hc' : isDec c' = true
        · left; exact ⟨by simpa [headIs] using hc', radixRun_digitpart c' t' hc'⟩
        · right
          have hc'' : isDigitOf 10 c' = false := by simpa [isDec] using hc'
          have h95 : c' ≠ 95 := by simpa [headIs] using hu
          refine ⟨by simpa [headIs] using hc', ?_⟩
          rw [radixRun_stop 10 c' t' hc'' (by simp [h95])]

theorem lexFraction_nodot (r1 r2 : List Nat) (h : lexFraction r1 = .ok r2) (hd : headIs (· = 46) r1 = false) :
    r2 = r1 := by
  cases r1 with
  | nil => simp [lexFraction] at h; exact h
  | cons c t =>
    have hc : c ≠ 46 := by simpa [headIs] using hd
    unfold lexFraction at h
    split at h
    · rename_i heq; simp at heq; exact absurd heq.1 hc
    · simp at h; exact h.symm

theorem atExponent_head (r : List Nat) (h : atExponent r = true) : headIs isE r = true := by
  unfold atExponent at h
  split at h
  · simp only [Bool.and_eq_true] at h; simpa [headIs] using h.1
  · simp only [Bool.and_eq_true] at h; simpa [headIs] using h.1
  · cases h

theorem lexExponentBody_sound (r2 r5 : List Nat) (h : lexExponentBody r2 = .ok (r5, false)) :
    (r5 = r2 ∧ headIs isE r2 = false) ∨ r5 ∈ exponent r2 := by
  cases r2 with
  | nil => left; simp [lexExponentBody] at h; simp [h, headIs]
  | cons e t =>
    simp only [lexExponentBody] at h
    by_cases he : isE e = true
    · right
      simp only [he, if_true] at h
      split at h
      · cases h
      · rename_i hu
        have hlit : t ∈ lit (fun c => c = 101 || c = 69) (e :: t) := mem_lit (by simpa [isE] using he)
        cases t with
        | nil => simp at h
        | cons s t' =>
          simp only at h
          by_cases hs : isSign s = true
          · simp only [hs, if_true] at h
            split at h
            · cases h
            · rename_i hu2
              simp only [Except.ok.injEq, Prod.mk.injEq] at h
              obtain ⟨h1, h2⟩ := h
              have hf := radixRun_first t' h2 (by simpa using hu2)
              cases t' with
              | nil => simp [headIs] at hf
              | cons c' t'' =>
                have hc' : isDec c' = true := by simpa [headIs] using hf
                have := radixRun_digitpart c' t'' hc'
                rw [h1] at this
                unfold exponent
                rw [mem_seq]
                refine ⟨s :: c' :: t'', hlit, ?_⟩
                rw [mem_seq]
                refine ⟨c' :: t'', ?_, this⟩
                rw [mem_opt]; right
                exact mem_lit (by simpa [isSign] using hs)
          · have hs' : isSign s = false := by simpa using hs
            simp only [hs', Bool.false_eq_true, if_false, Except.ok.injEq, Prod.mk.injEq] at h
            obtain ⟨h1, h2⟩ := h
            have hf := radixRun_first (s :: t') (by simpa using h2) (by simpa using hu)
            have hc' : isDec s = true := by simpa [headIs] using hf
            have := radixRun_digitpart s t' hc'
            rw [h1] at this
            unfold exponent
            rw [mem_seq]
            refine ⟨s :: t', hlit, ?_⟩
            rw [mem_seq]
            exact ⟨s :: t', by rw [mem_opt]; left; rfl, this⟩
    · left
      simp only [he] at h
      simp at h
      exact ⟨h.symm, by simpa [headIs] using he⟩

theorem lexExponent_sound (r2 r5 : List Nat) (h : lexExponent r2 = .ok (r5, false)) :
    (r5 = r2 ∧ atExponent r2 = false) ∨ r5 ∈ exponent r2 := by
  unfold lexExponent at h
  split at h
  · rename_i hat
    rcases lexExponentBody_sound r2 r5 h with ⟨_, h2⟩ | h2
    · rw [atExponent_head r2 hat] at h2; cases h2
    · exact Or.inr h2
  · rename_i hat
    simp only [Except.ok.injEq, Prod.mk.injEq, and_true] at h
    exact Or.inl ⟨h.symm, by simpa using hat⟩

theorem dropJ_sound (cs r5 : List Nat) (h : r5 ∈ floatnumber cs) : dropJ r5 ∈ number cs := by
  unfold number
  cases r5 with
  | nil => simp only [dropJ]; rw [mem_alt, mem_alt]; exact Or.inr (Or.inl h)
  | cons c t =>
    simp only [dropJ]
    by_cases hj : isJ c = true
    · simp only [hj, if_true]
      rw [mem_alt, mem_alt]; right; right
      unfold imagnumber
      rw [mem_seq]
      exact ⟨c :: t, by rw [mem_alt]; exact Or.inl h, mem_lit (by simpa [isJ] using hj)⟩
    · simp only [hj]
      rw [mem_alt, mem_alt]; exact Or.inr (Or.inl h)

theorem tail_sound (cs r2 r5 : List Nat)
    (hp : r2 ∈ pointfloat cs ∨ (r2 ∈ digitpart cs ∧ atExponent r2 = true))
    (he : lexExponent r2 = .ok (r5, false)) : dropJ r5 ∈ number cs := by
  apply dropJ_sound
  unfold floatnumber
  rw [mem_alt]
  rcases lexExponent_sound r2 r5 he with ⟨h1, h2⟩ | h
  · rcases hp with hp | ⟨_, hp⟩
    · left; rw [h1]; exact hp
    · rw [hp] at h2; cases h2
  · right
    unfold exponentfloat
    rw [mem_seq]
    refine ⟨r2, ?_, h⟩
    rw [mem_alt]
    rcases hp with hp | ⟨hp, _⟩
    · exact Or.inr hp
    · exact Or.inl hp

/-- the float path of `lex_normal_number`, given what the integer-part run left -/
theorem float_path_sound (cs r1 r : List Nat)
    (h1 : r1 ∈ digitpart cs ∨ (r1 = cs ∧ ∃ d t, cs = 46 :: d :: t ∧ isDec d = true))
    (hf : (headIs (· = 46) r1 || atExponent r1) = true)
    (h : (match lexFraction r1 with
          | .error e => Except.error e
          | .ok r2 =>
            match lexExponent r2 with
            | .error e => .error e
            | .ok (r5, bad) => if bad then .error r5 else .ok (dropJ r5)) = .ok r) :
    r ∈ number cs := by
  cases hfr : lexFraction r1 with
  | error e => rw [hfr] at h; cases h
  | ok r2 =>
    rw [hfr] at h
    simp only at h
    cases hex : lexExponent r2 with
    | error e => rw [hex] at h; cases h
    | ok p =>
      obtain ⟨r5, bad⟩ := p
      rw [hex] at h
      simp only at h
      cases bad with
      | true => simp at h
      | false =>
        simp only [Bool.false_eq_true, if_false, Except.ok.injEq] at h
        subst h
        apply tail_sound cs r2 r5 _ hex
        by_cases hd : headIs (· = 46) r1 = true
        · left
          obtain ⟨t, e1, ht⟩ := lexFraction_sound r1 r2 hfr hd
          unfold pointfloat
          rw [mem_alt]
          rcases ht with ⟨hdig, hr2⟩ | ⟨hdig, hr2⟩
          · left
            rw [mem_seq]
            refine ⟨r1, ?_, ?_⟩
            · rw [mem_opt]
              rcases h1 with h1 | ⟨h1, _⟩
              · exact Or.inr h1
              · exact Or.inl h1
            · unfold fraction
              rw [mem_seq, e1]
              exact ⟨t, mem_lit (by simp), hr2⟩
          · rcases h1 with h1 | ⟨h1, d, t', e2, hd'⟩
            · right
              rw [mem_seq]
              exact ⟨r1, h1, by rw [e1, hr2]; exact mem_lit (by simp)⟩
            · -- `.` followed by a digit: the fraction cannot be empty
              rw [h1, e2] at e1
              simp only [List.cons.injEq, true_and] at e1
              rw [← e1] at hdig
              simp [headIs, hd'] at hdig
        · right
          have hd' : headIs (· = 46) r1 = false := by simpa using hd
          have hat : atExponent r1 = true := by simpa [hd'] using hf
          have e := lexFraction_nodot r1 r2 hfr hd'
          subst e
          rcases h1 with h1 | ⟨h1, d, t', e2, _⟩
          · exact ⟨h1, hat⟩
          · rw [h1, e2] at hd'; simp [headIs] at hd'


theorem int_path_sound (c : Nat) (t r : List Nat) (hc : isDec c = true)
    (hnf : (headIs (· = 46) (radixRun 10 (c :: t)).2 || atExponent (radixRun 10 (c :: t)).2) = false)
    (h : (if headIs isJ (radixRun 10 (c :: t)).2 = true then Except.ok (radixRun 10 (c :: t)).2.tail
          else if (headIs (· = 48) (c :: t) && (radixRun 10 (c :: t)).1.any (· ≠ 48)) = true
            then Except.error (radixRun 10 (c :: t)).2
          else Except.ok (radixRun 10 (c :: t)).2) = Except.ok r) :
    r ∈ number (c :: t) := by
  have hdp := radixRun_digitpart c t hc
  unfold number
  rw [mem_alt, mem_alt]
  split at h
  · -- imaginary: digitpart j
    rename_i hj
    simp only [Except.ok.injEq] at h
    right; right
    unfold imagnumber
    rw [mem_seq]
    refine ⟨(radixRun 10 (c :: t)).2, by rw [mem_alt]; exact Or.inr hdp, ?_⟩
    cases hr : (radixRun 10 (c :: t)).2 with
    | nil => rw [hr] at hj; simp [headIs] at hj
    | cons j t' =>
      rw [hr] at hj h
      simp only [List.tail_cons] at h
      subst h
      exact mem_lit (by simpa [headIs, isJ] using hj)
  · split at h
    · cases h
    · rename_i hz
      simp only [Except.ok.injEq] at h
      subst h
      left
      unfold integer
      rw [mem_alt]; left
      unfold decinteger
      rw [mem_alt]
      have hdig : isDigitOf 10 c = true := hc
      rw [radixRun_digit 10 c t hdig] at hz ⊢
      by_cases h0 : c = 48
      · right
        subst h0
        rw [mem_seq]
        refine ⟨t, mem_lit (by simp), ?_⟩
        apply radixRun_zeros t.length t (Nat.le_refl _)
        simp only [headIs, decide_true, Bool.true_and, Bool.not_eq_true] at hz
        rw [List.any_cons] at hz
        simp only [ne_eq, not_true_eq_false, decide_false, Bool.false_or] at hz
        rw [List.all_eq_true]
        intro x hx
        have := List.any_eq_false.1 hz x hx
        simpa using this
      · left
        rw [mem_seq]
        refine ⟨t, mem_lit ?_, ?_⟩
        · have : digit c = true := hc
          unfold nonzerodigit
          unfold digit at this
          simp only [Bool.and_eq_true, decide_eq_true_eq] at this ⊢
          omega
        · rw [← isDigitOf10]; exact radixRun_mem 10 _ t (Nat.le_refl _)



theorem startsNumber_cons2 (c d : Nat) (t : List Nat) :
    startsNumber (c :: d :: t) = (if c = 46 then isDec d else isDec c) := by
  by_cases e : c = 46
  · subst e; rfl
  · simp only [e, if_false]
    unfold startsNumber
    split
    · rename_i heq; simp only [List.cons.injEq] at heq; exact absurd heq.1 e
    · rename_i heq; simp only [List.cons.injEq] at heq; rw [heq.1]
    · rename_i heq; cases heq

theorem lexNormalRest_sound (cs r : List Nat) (hs : startsNumber cs = true)
    (h : lexNormalRest cs = .ok r) : r ∈ number cs := by
  cases cs with
  | nil => simp [startsNumber] at hs
  | cons c t =>
    unfold lexNormalRest at h
    simp only at h
    by_cases hc : isDec c = true
    · by_cases hf : (headIs (· = 46) (radixRun 10 (c :: t)).2 || atExponent (radixRun 10 (c :: t)).2) = true
      · rw [if_pos hf] at h
        exact float_path_sound (c :: t) _ r (Or.inl (radixRun_digitpart c t hc)) hf h
      · rw [if_neg hf] at h
        exact int_path_sound c t r hc (by simpa using hf) h
    · -- `.` followed by a digit
      have hc' : isDec c = false := by simpa using hc
      cases t with
      | nil =>
        unfold startsNumber at hs
        split at hs <;> simp_all
      | cons d t' =>
        have hsn := startsNumber_cons2 c d t'
        have h46 : c = 46 ∧ isDec d = true := by
          rw [hsn] at hs
          by_cases e : c = 46
          · simp only [e, if_true] at hs; exact ⟨e, hs⟩
          · simp only [e, if_false] at hs; rw [hs] at hc'; cases hc'
        obtain ⟨e, hd⟩ := h46
        subst e
        have hrr : radixRun 10 (46 :: d :: t') = ([], 46 :: d :: t') :=
          radixRun_stop 10 46 (d :: t') (by decide) (by simp)
        rw [hrr] at h
        simp only [headIs, decide_true, Bool.true_or, if_true] at h
        exact float_path_sound (46 :: d :: t') (46 :: d :: t') r
          (Or.inr ⟨rfl, d, t', rfl, hd⟩) (by simp [headIs]) h

theorem lexRest_sound_aux (cs r : List Nat) (hs : startsNumber cs = true) (h : lexRest cs = .ok r) :
    r ∈ number cs := by
  unfold lexRest at h
  split at h
  · rename_i x rest
    simp only at h
    split at h
    · rename_i rx heq
      -- a radix literal: `0` prefix-letter digits+
      have hne : (radixRun rx rest).1.isEmpty = false := by
        cases hb : (radixRun rx rest).1.isEmpty
        · rfl
        · rw [hb] at h; simp at h
      rw [hne] at h
      simp only [Bool.false_eq_true, if_false, Except.ok.injEq] at h
      have hmem := radixRun_mem rx rest.length rest (Nat.le_refl _)
      rw [h] at hmem
      have hlen : r.length < rest.length := by
        -- at least one digit was consumed
        have : ∀ (l : List Nat), (radixRun rx l).1.isEmpty = false → (radixRun rx l).2.length < l.length := by
          intro l
          induction l with
          | nil => simp [radixRun]
          | cons c t ih =>
            intro hl
            by_cases hc : isDigitOf rx c = true
            · rw [radixRun_digit rx c t hc]
              have := radixRun_len rx t
              simp; omega
            · have hc' : isDigitOf rx c = false := by simpa using hc
              by_cases h2 : (c = 95 && headIs (isDigitOf rx) t) = true
              · rw [radixRun_us rx c t hc' h2] at hl ⊢
                have := ih hl
                simp; omega
              · rw [radixRun_stop rx c t hc' (by simpa using h2)] at hl
                simp at hl
        rw [← h]; exact this rest hne
      have hus1 : r ∈ usDigits1 (isDigitOf rx) rest := by
        unfold usDigits1
        rw [List.mem_filter]
        exact ⟨hmem, by simpa using hlen⟩
      unfold number
      rw [mem_alt]; left
      unfold integer
      rw [mem_alt]; right
      have pre : ∀ (a b : Nat) (dg : Nat → Bool), (x = a ∨ x = b) → isDigitOf rx = dg →
          r ∈ prefixed a b dg (48 :: x :: rest) := by
        intro a b dg hx hdg
        unfold prefixed
        rw [mem_seq]
        refine ⟨x :: rest, mem_lit (by simp), ?_⟩
        rw [mem_seq]
        refine ⟨rest, mem_lit (by rcases hx with e | e <;> simp [e]), ?_⟩
        rw [← hdg]; exact hus1
      split at heq
      · rename_i hx
        simp only [Option.some.injEq] at heq; subst heq
        rw [mem_alt]; right; rw [mem_alt]; right
        exact pre 120 88 hexdigit (by simpa using hx) isDigitOf16
      · split at heq
        · rename_i hx
          simp only [Option.some.injEq] at heq; subst heq
          rw [mem_alt]; right; rw [mem_alt]; left
          exact pre 111 79 octdigit (by simpa using hx) isDigitOf8
        · split at heq
          · rename_i hx
            simp only [Option.some.injEq] at heq; subst heq
            rw [mem_alt]; left
            exact pre 98 66 bindigit (by simpa using hx) isDigitOf2
          · cases heq
    · exact lexNormalRest_sound _ r hs h
  · exact lexNormalRest_sound _ r hs h



/-! ### the grammar's assembly of a parameter list -/

theorem argsOf_nil_iff (k : PKind) (ps : Sig) : ∀ (off : Nat) (pp : Bool),
    (argsOf k (layoutGo off pp ps) = [] ↔ ∀ p, p ∈ ps → p.kind ≠ k) := by
  induction ps with
  | nil => intro off pp; simp [layoutGo, argsOf]
  | cons p ps ih =>
    intro off pp
    simp only [layoutGo, argsOf, List.filterMap_cons]
    by_cases hk : p.kind = k
    · simp [hk]
    · simp only [hk, if_false]
      have := ih (((if (pp && p.kind != PKind.posonly) = true then off + 3 else off) + p.itemLen + 2)) (p.kind == .posonly)
      simp only [argsOf] at this
      rw [this]
      simp [hk]

theorem wellOrderedGo_mono (ps : Sig) : ∀ (prev : Nat) (ss : Bool), wellOrderedGo prev ss ps = true →
    ∀ q, q ∈ ps → prev ≤ q.kind.rank ∧ ((q.kind.rank = 2 ∨ q.kind.rank = 4) → prev < q.kind.rank) := by
  induction ps with
  | nil => intro prev ss _ q hq; cases hq
  | cons p ps ih =>
    intro prev ss h q hq
    simp only [wellOrderedGo, Bool.and_eq_true] at h
    obtain ⟨⟨⟨h1, _⟩, _⟩, h4⟩ := h
    have hp : prev ≤ p.kind.rank ∧ ((p.kind.rank = 2 ∨ p.kind.rank = 4) → prev < p.kind.rank) := by
      by_cases hs : (p.kind.rank == 2 || p.kind.rank == 4) = true
      · simp only [hs, if_true, decide_eq_true_eq] at h1
        exact ⟨by omega, fun _ => h1⟩
      · simp only [hs] at h1
        simp only [Bool.false_eq_true, if_false, decide_eq_true_eq] at h1
        refine ⟨h1, fun hh => ?_⟩
        simp only [Bool.or_eq_true, beq_iff_eq] at hs
        exact absurd hh hs
    rcases List.mem_cons.1 hq with e | hq
    · subst e; exact hp
    · have := ih _ _ h4 q hq
      exact ⟨by omega, fun hh => by have := this.2 hh; omega⟩

theorem rank_star : PKind.star.rank = 2 := rfl

/-- in a grammar-ordered list: there is a bare star and nothing that may follow it (`*name` cannot
    coexist with it) exactly when the bare star is the last item -/
theorem bareStar_last_iff (ps : Sig) : ∀ (prev : Nat) (ss : Bool), wellOrderedGo prev ss ps = true →
    (((∃ p, p ∈ ps ∧ p.kind = .star) ∧ (∀ p, p ∈ ps → p.kind ≠ .vararg) ∧
      (∀ p, p ∈ ps → p.kind ≠ .kwonly) ∧ (∀ p, p ∈ ps → p.kind ≠ .kwarg)) ↔ bareStarLast ps) := by
  induction ps with
  | nil => intro prev ss _; simp [bareStarLast]
  | cons p ps ih =>
    intro prev ss h
    have h' := h
    simp only [wellOrderedGo, Bool.and_eq_true] at h'
    obtain ⟨_, h4⟩ := h'
    have mono := wellOrderedGo_mono ps _ _ h4
    cases ps with
    | nil =>
      simp only [bareStarLast, List.getLast?_singleton, Option.some.injEq, exists_eq_left',
        List.mem_singleton, forall_eq, exists_eq_left]
      constructor
      · intro hh; exact hh.1
      · intro hh; rw [hh]; simp
    | cons p2 ps2 =>
      have hlast : bareStarLast (p :: p2 :: ps2) ↔ bareStarLast (p2 :: ps2) := by
        simp [bareStarLast, List.getLast?_cons_cons]
      rw [hlast, ← ih _ _ h4]
      constructor
      · rintro ⟨⟨q, hq, hqs⟩, hv, hk, hw⟩
        have hv' : ∀ x, x ∈ p2 :: ps2 → x.kind ≠ .vararg := fun x hx => hv x (List.mem_cons_of_mem _ hx)
        have hk' : ∀ x, x ∈ p2 :: ps2 → x.kind ≠ .kwonly := fun x hx => hk x (List.mem_cons_of_mem _ hx)
        have hw' : ∀ x, x ∈ p2 :: ps2 → x.kind ≠ .kwarg := fun x hx => hw x (List.mem_cons_of_mem _ hx)
        refine ⟨?_, hv', hk', hw'⟩
        rcases List.mem_cons.1 hq with e | hq
        · -- `p` itself is the star: the next item would have to be keyword-only or `**`
          subst e
          have m2 := mono p2 (List.mem_cons_self ..)
          rw [hqs, rank_star] at m2
          have a := hv' p2 (List.mem_cons_self ..)
          have b := hk' p2 (List.mem_cons_self ..)
          have c := hw' p2 (List.mem_cons_self ..)
          exfalso
          cases hk2 : p2.kind <;> simp_all [PKind.rank]
        · exact ⟨q, hq, hqs⟩
      · rintro ⟨⟨q, hq, hqs⟩, hv, hk, hw⟩
        have mq := (mono q hq).2 (Or.inl (by rw [hqs]; rfl))
        rw [hqs, rank_star] at mq
        refine ⟨⟨q, List.mem_cons_of_mem _ hq, hqs⟩, ?_, ?_, ?_⟩ <;>
        · intro x hx
          rcases List.mem_cons.1 hx with e | hx
          · subst e; intro hkind; rw [hkind] at mq; simp [PKind.rank] at mq
          · first | exact hv x hx | exact hk x hx | exact hw x hx


theorem head?_isNone_iff {α} (l : List α) : l.head?.isNone = true ↔ l = [] := by
  cases l <;> simp



/-! ### strings -/
theorem lexStringBody_plain (q c : Nat) (t : List Nat) (pos : Nat) (h1 : c ≠ 92) :
    lexStringBody q false pos (c :: t) =
      if c = 10 then .error (.eolInString, pos + 1)
      else if c = q then .ok (t, pos + 1) else lexStringBody q false (pos + 1) t := by
  rw [lexStringBody.eq_def]
  simp [h1]

theorem lexStringBody_short_ok (q : Nat) (hq : q ≠ 92) (hq10 : q ≠ 10) : ∀ (n : Nat) (body : List Nat),
    body.length ≤ n → ∀ (pos : Nat) (rest : List Nat) (p : Nat),
    (lexStringBody q false pos body = .ok (rest, p) ↔
      ∃ pre, body = pre ++ q :: rest ∧ ShortItems q pre ∧ p = pos + pre.length + 1) := by
  intro n
  induction n with
  | zero =>
    intro body hl pos rest p
    have : body = [] := by cases body <;> simp_all
    subst this
    simp [lexStringBody]
  | succ n ih =>
    intro body hl pos rest p
    cases body with
    | nil => simp [lexStringBody]
    | cons c t =>
      by_cases hc : c = 92
      · subst hc
        cases t with
        | nil =>
          simp only [lexStringBody]
          constructor
          · intro h; cases h
          · rintro ⟨pre, e, _, _⟩
            cases pre with
            | nil => simp at e; exact absurd e.1.symm hq
            | cons x pre' => have := congrArg List.length e; simp at this
        | cons c2 t2 =>
          simp only [lexStringBody]
          rw [ih t2 (by simp at hl; omega)]
          constructor
          · rintro ⟨pre, e, hi, hp⟩
            exact ⟨92 :: c2 :: pre, by simp [e], ShortItems.esc c2 hi, by simp [hp]; omega⟩
          · rintro ⟨pre, e, hi, hp⟩
            cases hi with
            | nil => simp at e; exact absurd e.1.symm hq
            | esc c' hi' =>
              simp at e
              exact ⟨_, e.2, hi', by simp at hp; omega⟩
            | plain c' h1 _ _ _ => simp at e; exact absurd e.1.symm h1
      · rw [lexStringBody_plain q c t pos hc]
        by_cases hnl : c = 10
        · subst hnl
          simp only [if_true]
          constructor
          · intro h; cases h
          · rintro ⟨pre, e, hi, _⟩
            cases hi with
            | nil => simp at e; exact absurd e.1.symm hq10
            | esc c' _ => simp at e
            | plain c' _ h2 _ _ => simp at e; exact absurd e.1.symm h2
        · simp only [hnl, if_false]
          by_cases hcq : c = q
          · subst hcq
            simp only [if_true, Except.ok.injEq, Prod.mk.injEq]
            constructor
            · rintro ⟨e1, e2⟩; exact ⟨[], by simp [e1], ShortItems.nil, by simp [e2]⟩
            · rintro ⟨pre, e, hi, hp⟩
              cases hi with
              | nil => simp at e; simp at hp; exact ⟨e, by omega⟩
              | esc c' _ => simp at e; exact absurd e.1 hc
              | plain c' _ _ h3 _ => simp at e; exact absurd e.1.symm h3
          · simp only [hcq, if_false]
            rw [ih t (by simp at hl; omega)]
            constructor
            · rintro ⟨pre, e, hi, hp⟩
              exact ⟨c :: pre, by simp [e], ShortItems.plain c hc hnl hcq hi, by simp [hp]; omega⟩
            · rintro ⟨pre, e, hi, hp⟩
              cases hi with
              | nil => simp at e; exact absurd e.1 hcq
              | esc c' _ => simp at e; exact absurd e.1 hc
              | plain c' _ _ _ hi' =>
                simp at e
                exact ⟨_, e.2, hi', by simp at hp; omega⟩



/-! ### bytes literals -/

theorem isSimpleEscape_lt (c : Nat) (h : isSimpleEscape c = true) : c < 128 := by
  unfold isSimpleEscape at h
  simp only [Bool.or_eq_true, decide_eq_true_eq] at h
  omega

theorem isOct_lt (c : Nat) (h : isOct c = true) : c < 128 := by
  unfold isOct at h; simp only [Bool.and_eq_true, decide_eq_true_eq] at h; omega

theorem isHexDigit_lt (c : Nat) (h : isHexDigit c = true) : c < 128 := by
  unfold isHexDigit isDigitOf at h
  simp only [Bool.or_eq_true, Bool.and_eq_true, decide_eq_true_eq] at h
  omega

theorem headIs_cons {p : Nat → Bool} {l : List Nat} (h : headIs p l = true) :
    ∃ a t, l = a :: t ∧ p a = true := by
  cases l with
  | nil => simp [headIs] at h
  | cons a t => exact ⟨a, t, rfl, by simpa [headIs] using h⟩

/-- a successful escape consumes at least one character, stays inside the text and only skips ASCII -/
theorem bytesEscape_ok (pos : Nat) (l : List Nat) (n p : Nat) (h : bytesEscape pos l = .ok (n, p)) :
    1 ≤ n ∧ n ≤ l.length ∧ ∀ x, x ∈ l.take n → x < 128 := by
  cases l with
  | nil => simp [bytesEscape] at h
  | cons c rest =>
    have one : ∀ (hc : c < 128), 1 ≤ 1 ∧ 1 ≤ (c :: rest).length ∧ ∀ x, x ∈ (c :: rest).take 1 → x < 128 := by
      intro hc
      exact ⟨by omega, by simp, by intro x hx; simp at hx; subst hx; exact hc⟩
    simp only [bytesEscape] at h
    by_cases h1 : isSimpleEscape c = true
    · simp only [h1, if_true, Except.ok.injEq, Prod.mk.injEq] at h
      rw [← h.1]; exact one (isSimpleEscape_lt _ h1)
    · have h1' : isSimpleEscape c = false := by simpa using h1
      simp only [h1', Bool.false_eq_true, if_false] at h
      by_cases h2 : isOct c = true
      · have hc := isOct_lt _ h2
        simp only [h2, if_true] at h
        by_cases h3 : headIs isOct rest = true
        · obtain ⟨a, t, e, ha⟩ := headIs_cons h3
          subst e
          simp only [h3, if_true, List.tail_cons] at h
          by_cases h4 : headIs isOct t = true
          · obtain ⟨b, t', e, hb⟩ := headIs_cons h4
            subst e
            simp only [h4, if_true, Except.ok.injEq, Prod.mk.injEq] at h
            rw [← h.1]
            refine ⟨by omega, by simp, ?_⟩
            intro x hx; simp at hx
            rcases hx with e | e | e <;> subst e
            · exact hc
            · exact isOct_lt _ ha
            · exact isOct_lt _ hb
          · have h4' : headIs isOct t = false := by simpa using h4
            simp only [h4', Bool.false_eq_true, if_false, Except.ok.injEq, Prod.mk.injEq] at h
            rw [← h.1]
            refine ⟨by omega, by simp, ?_⟩
            intro x hx; simp at hx
            rcases hx with e | e <;> subst e
            · exact hc
            · exact isOct_lt _ ha
        · have h3' : headIs isOct rest = false := by simpa using h3
          simp only [h3', Bool.false_eq_true, if_false, Except.ok.injEq, Prod.mk.injEq] at h
          rw [← h.1]; exact one hc
      · have h2' : isOct c = false := by simpa using h2
        simp only [h2', Bool.false_eq_true, if_false] at h
        by_cases h5 : c = 120
        · simp only [h5, if_true] at h
          by_cases h6 : (headIs isHexDigit rest && headIs isHexDigit rest.tail) = true
          · simp only [h6, if_true, Except.ok.injEq, Prod.mk.injEq] at h
            simp only [Bool.and_eq_true] at h6
            obtain ⟨a, t, e, ha⟩ := headIs_cons h6.1
            subst e
            obtain ⟨b, t', e, hb⟩ := headIs_cons h6.2
            simp only [List.tail_cons] at e
            subst e
            rw [← h.1]
            refine ⟨by omega, by simp, ?_⟩
            intro x hx; simp at hx
            rcases hx with e | e | e <;> subst e
            · omega
            · exact isHexDigit_lt _ ha
            · exact isHexDigit_lt _ hb
          · have h6' : (headIs isHexDigit rest && headIs isHexDigit rest.tail) = false := by simpa using h6
            simp only [h6', Bool.false_eq_true, if_false] at h
            cases h
        · simp only [h5, if_false] at h
          by_cases h7 : c ≥ 128
          · simp only [h7, if_true] at h; cases h
          · simp only [h7, if_false, Except.ok.injEq, Prod.mk.injEq] at h
            rw [← h.1]; exact one (by omega)

/-- the fallback arm is the only place where an escape reports the non-ASCII rule -/
theorem bytesEscape_nonAscii (pos : Nat) (l : List Nat) (off : Nat)
    (h : bytesEscape pos l = .error (.nonAsciiBytes, off)) : ∃ c t, l = c :: t ∧ c ≥ 128 := by
  cases l with
  | nil => simp [bytesEscape] at h
  | cons c rest =>
    refine ⟨c, rest, rfl, ?_⟩
    simp only [bytesEscape] at h
    by_cases h1 : isSimpleEscape c = true
    · simp [h1] at h
    · have h1' : isSimpleEscape c = false := by simpa using h1
      simp only [h1', Bool.false_eq_true, if_false] at h
      by_cases h2 : isOct c = true
      · simp only [h2, if_true] at h
        split at h
        · split at h <;> cases h
        · cases h
      · have h2' : isOct c = false := by simpa using h2
        simp only [h2', Bool.false_eq_true, if_false] at h
        by_cases h5 : c = 120
        · simp only [h5, if_true] at h
          split at h <;> cases h
        · simp only [h5, if_false] at h
          by_cases h7 : c ≥ 128
          · exact h7
          · simp only [h7, if_false] at h; cases h



theorem bytesGo_rejects (fuel : Nat) : ∀ (raw : Bool) (pos : Nat) (body : List Nat), body.length < fuel →
    nonAscii body → bytesGo fuel raw pos body ≠ none := by
  induction fuel with
  | zero => intro raw pos body h; omega
  | succ fuel ih =>
    intro raw pos body hl hn
    cases body with
    | nil => obtain ⟨c, hc, _⟩ := hn; cases hc
    | cons c rest =>
      simp only [bytesGo]
      obtain ⟨x, hx, hx128⟩ := hn
      split
      · rename_i hc
        simp only [Bool.and_eq_true, decide_eq_true_eq] at hc
        have hxr : x ∈ rest := by
          rcases List.mem_cons.1 hx with e | e
          · omega
          · exact e
        cases he : bytesEscape (pos + 1) rest with
        | error e => simp
        | ok r =>
          obtain ⟨n, p⟩ := r
          simp only
          have ⟨h1, h2, h3⟩ := bytesEscape_ok _ _ _ _ he
          apply ih
          · simp only [List.length_drop]; simp at hl; omega
          · refine ⟨x, ?_, hx128⟩
            rw [← List.take_append_drop n rest] at hxr
            rcases List.mem_append.1 hxr with e | e
            · have := h3 x e; omega
            · exact e
      · split
        · simp
        · rename_i hc128
          apply ih
          · simp at hl; omega
          · rcases List.mem_cons.1 hx with e | e
            · omega
            · exact ⟨x, e, hx128⟩

theorem bytesGo_nonAscii_only (fuel : Nat) : ∀ (raw : Bool) (pos : Nat) (body : List Nat) (off : Nat),
    bytesGo fuel raw pos body = some (.nonAsciiBytes, off) → nonAscii body := by
  induction fuel with
  | zero => intro raw pos body off h; simp [bytesGo] at h
  | succ fuel ih =>
    intro raw pos body off h
    cases body with
    | nil => simp [bytesGo] at h
    | cons c rest =>
      simp only [bytesGo] at h
      split at h
      · cases he : bytesEscape (pos + 1) rest with
        | error e =>
          rw [he] at h
          simp only [Option.some.injEq] at h
          subst h
          obtain ⟨d, t, e, hd⟩ := bytesEscape_nonAscii _ _ _ he
          exact ⟨d, by simp [e], hd⟩
        | ok r =>
          obtain ⟨n, p⟩ := r
          rw [he] at h
          simp only at h
          obtain ⟨x, hx, hx128⟩ := ih _ _ _ _ h
          exact ⟨x, List.mem_cons_of_mem _ (List.mem_of_mem_drop hx), hx128⟩
      · split at h
        · rename_i hc; exact ⟨c, by simp, hc⟩
        · obtain ⟨x, hx, hx128⟩ := ih _ _ _ _ h
          exact ⟨x, List.mem_cons_of_mem _ hx, hx128⟩



/-! ### f-strings -/

def isOpCh (c : Nat) : Bool := c = 33 || c = 61 || c = 62 || c = 60

/-- the expression text begins with a comparison operator (`!=`, `==`, `>=`, `<=`) -/
def OpHead (expr : List Nat) : Prop := ∃ c pre, isOpCh c = true ∧ expr.reverse = c :: 61 :: pre

theorem OpHead_append (x e : List Nat) (h : OpHead e) : OpHead (x ++ e) := by
  obtain ⟨c, pre, hc, he⟩ := h
  exact ⟨c, pre ++ x.reverse, hc, by simp [he]⟩

theorem OpHead_cons (x : Nat) (e : List Nat) (h : OpHead e) : OpHead (x :: e) :=
  OpHead_append [x] e h

theorem OpHead_not_blank (e : List Nat) (h : OpHead e) : (e.all (· = 32)) = false := by
  obtain ⟨c, pre, hc, he⟩ := h
  have hm : c ∈ e := by
    have : c ∈ e.reverse := by rw [he]; simp
    simpa using this
  cases hb : e.all (· = 32)
  · rfl
  · rw [List.all_eq_true] at hb
    have := hb c hm
    simp at this
    subst this
    simp [isOpCh] at hc

theorem OpHead_exprOk (e : List Nat) (h : OpHead e) : exprOk e.reverse = false := by
  obtain ⟨c, pre, hc, he⟩ := h
  rw [he]
  unfold isOpCh at hc
  simp only [Bool.or_eq_true, decide_eq_true_eq] at hc
  rcases hc with ((rfl | rfl) | rfl) | rfl <;> simp [exprOk, exprOkGo, isNameCh]



/-- once the expression text begins with a comparison operator the field can never be completed -/
theorem fvGo_never_ok_op (fuel : Nat) : ∀ (nested loc : Nat) (st : FVState) (pos : Nat) (cs : List Nat),
    OpHead st.expr → ∀ r, fvGo fuel nested loc st pos cs ≠ .ok r := by
  induction fuel with
  | zero => intro nested loc st pos cs _ r h; simp [fvGo] at h
  | succ fuel ih =>
    intro nested loc st pos cs hj r
    cases cs with
    | nil => intro h; simp [fvGo] at h
    | cons ch rest =>
      rw [fvGo.eq_3]
      have hb := OpHead_not_blank _ hj
      have he := OpHead_exprOk _ hj
      simp only [hb, he, Bool.false_eq_true, if_false]
      intro h
      by_cases c1 : ((decide (ch = 33) || decide (ch = 61) || decide (ch = 62) || decide (ch = 60)) &&
            headIs (fun x => decide (x = 61)) rest) = true
      · rw [if_pos c1] at h
        exact ih _ _ _ _ _ (OpHead_cons _ _ (OpHead_cons _ _ hj)) _ h
      rw [if_neg c1] at h
      by_cases c2 : (decide (ch = 33) && st.delims.isEmpty) = true
      · rw [if_pos c2] at h
        split at h
        · cases h
        · split at h
          · split at h
            · exact ih _ _ _ _ _ hj _ h
            · cases h
          · cases h
      rw [if_neg c2] at h
      by_cases c3 : (decide (ch = 61) && st.delims.isEmpty) = true
      · rw [if_pos c3] at h
        exact ih _ _ { expr := st.expr, delims := st.delims, selfDoc := true } _ _ hj _ h
      rw [if_neg c3] at h
      by_cases c4 : (decide (ch = 58) && st.delims.isEmpty) = true
      · rw [if_pos c4] at h
        split at h
        · cases h
        · exact ih _ _ _ _ _ hj _ h
      rw [if_neg c4] at h
      by_cases c5 : ((decide (ch = 40) || decide (ch = 123) || decide (ch = 91)) && !st.selfDoc) = true
      · rw [if_pos c5] at h
        exact ih _ _ _ _ _ (OpHead_cons _ _ hj) _ h
      rw [if_neg c5] at h
      by_cases c6 : (decide (ch = 41) || decide (ch = 93)) = true
      · rw [if_pos c6] at h
        split at h
        · cases h
        · split at h
          · exact ih _ _ _ _ _ (OpHead_cons _ _ hj) _ h
          · cases h
      rw [if_neg c6] at h
      by_cases c7 : (decide (ch = 125) && !st.delims.isEmpty) = true
      · rw [if_pos c7] at h
        split at h
        · split at h
          · exact ih _ _ _ _ _ (OpHead_cons _ _ hj) _ h
          · cases h
        · exact ih _ _ _ _ _ hj _ h
      rw [if_neg c7] at h
      by_cases c8 : ch = 125
      · rw [if_pos c8] at h; cases h
      rw [if_neg c8] at h
      by_cases c9 : ((decide (ch = 34) || decide (ch = 39)) && !st.selfDoc) = true
      · rw [if_pos c9] at h
        split at h
        · split at h
          · cases h
          · exact ih _ _ _ _ _ (OpHead_append _ _ (OpHead_cons _ _ hj)) _ h
        · split at h
          · cases h
          · exact ih _ _ _ _ _ (OpHead_cons _ _ (OpHead_append _ _ (OpHead_cons _ _ hj))) _ h
      rw [if_neg c9] at h
      split at h
      · exact ih _ _ _ _ _ hj _ h
      · split at h
        · cases h
        · split at h
          · cases h
          · exact ih _ _ _ _ _ (OpHead_cons _ _ hj) _ h



/-- after the self-documenting `=` with no expression before it, the field can never be completed -/
theorem fvGo_never_ok_selfdoc_empty (fuel : Nat) : ∀ (nested loc pos : Nat) (cs : List Nat) r,
    fvGo fuel nested loc ⟨[], [], true⟩ pos cs ≠ .ok r := by
  induction fuel with
  | zero => intro nested loc pos cs r h; simp [fvGo] at h
  | succ fuel ih =>
    intro nested loc pos cs r
    cases cs with
    | nil => intro h; simp [fvGo] at h
    | cons ch rest =>
      rw [fvGo.eq_3]
      simp only [List.all_nil, List.isEmpty_nil, Bool.and_true, Bool.not_true, Bool.and_false,
        Bool.false_eq_true, if_false, if_true]
      intro h
      by_cases c1 : ((decide (ch = 33) || decide (ch = 61) || decide (ch = 62) || decide (ch = 60)) &&
            headIs (fun x => decide (x = 61)) rest) = true
      · rw [if_pos c1] at h
        refine fvGo_never_ok_op _ _ _ _ _ _ ⟨ch, [], ?_, by simp⟩ _ h
        simp only [Bool.and_eq_true] at c1
        exact c1.1
      rw [if_neg c1] at h
      split at h
      · cases h
      · split at h
        · exact ih _ _ _ _ _ h
        · split at h
          · split at h
            · cases h
            · exact ih _ _ _ _ _ h
          · split at h
            · cases h
            · split at h
              · cases h
              · split at h
                · exact ih _ _ _ _ _ h
                · split at h <;> cases h



theorem fvGo_leading_equals (fuel nested loc pos : Nat) (rest : List Nat) (r : List Nat × Nat) :
    fvGo fuel nested loc ⟨[], [], false⟩ pos (61 :: rest) ≠ .ok r := by
  cases fuel with
  | zero => intro h; simp [fvGo] at h
  | succ fuel =>
    rw [fvGo.eq_3]
    intro h
    by_cases c1 : ((decide ((61 : Nat) = 33) || decide ((61 : Nat) = 61) || decide ((61 : Nat) = 62) || decide ((61 : Nat) = 60)) &&
          headIs (fun x => decide (x = 61)) rest) = true
    · rw [if_pos c1] at h
      exact fvGo_never_ok_op _ _ _ _ _ _ ⟨61, [], by decide, by simp⟩ _ h
    · rw [if_neg c1] at h
      simp only [Nat.reduceEqDiff, decide_false, Bool.false_and, Bool.false_eq_true, if_false, decide_true,
        List.isEmpty_nil, Bool.and_self, if_true] at h
      exact fvGo_never_ok_selfdoc_empty _ _ _ _ _ _ h


end PV.C04
