import PV.C04.Model
import PV.C04.Spec
/-! C04 — helper lemmas for `PV/C04/Thm.lean`. -/
set_option linter.unusedSimpArgs false
namespace PV.C04
open Spec

/-- after the leading run of defaulted parameters: empty, or the first one without default -/
theorem dropWhile_dflt_spec (t : List Arg) :
    (t.dropWhile (fun a => a.dflt) = [] ∧ ∀ (j : Nat) (b : Arg), t[j]? = some b → b.dflt = true) ∨
    (∃ (b : Arg) (rest : List Arg) (j : Nat), t.dropWhile (fun a => a.dflt) = b :: rest ∧ t[j]? = some b ∧ b.dflt = false ∧
        ∀ (j' : Nat) (b' : Arg), j' < j → t[j']? = some b' → b'.dflt = true) := by
  induction t with
  | nil => left; simp
  | cons a t ih =>
    by_cases ha : a.dflt = true
    · rcases ih with ⟨h1, h2⟩ | ⟨b, rest, j, h1, h2, h3, h4⟩
      · left
        refine ⟨by simp [List.dropWhile_cons, ha, h1], ?_⟩
        intro j b hj
        cases j with
        | zero => simp at hj; subst hj; exact ha
        | succ j => simp at hj; exact h2 j b hj
      · right
        refine ⟨b, rest, j + 1, by simp [List.dropWhile_cons, ha, h1], by simpa using h2, h3, ?_⟩
        intro j' b' hlt hj'
        cases j' with
        | zero => simp at hj'; subst hj'; exact ha
        | succ j' => simp at hj'; exact h4 j' b' (by omega) hj'
    · right
      refine ⟨a, t, 0, by simp [List.dropWhile_cons, ha], by simp, by simpa using ha, ?_⟩
      intro j' b' hlt; omega


theorem offender_cons_false (ft : List Bool) (j : Nat) :
    defaultOffender (false :: ft) (j + 1) ↔ defaultOffender ft j := by
  unfold defaultOffender
  simp only [List.getElem?_cons_succ]
  constructor
  · rintro ⟨h1, i, hi, h2⟩
    refine ⟨h1, ?_⟩
    cases i with
    | zero => simp at h2
    | succ i => exact ⟨i, by omega, by simpa using h2⟩
  · rintro ⟨h1, i, hi, h2⟩
    exact ⟨h1, i + 1, by omega, by simpa using h2⟩

theorem not_offender_zero (fs : List Bool) : ¬ defaultOffender fs 0 := by
  unfold defaultOffender; rintro ⟨_, i, hi, _⟩; omega

theorem posParams_core (l : List Arg) :
    ((l.dropWhile (fun a => !a.dflt)).dropWhile (fun a => a.dflt) = [] ∧
        ∀ j, ¬ defaultOffender (l.map (·.dflt)) j) ∨
    (∃ (a : Arg) (rest : List Arg) (j : Nat),
        (l.dropWhile (fun a => !a.dflt)).dropWhile (fun a => a.dflt) = a :: rest ∧
        l[j]? = some a ∧ defaultOffender (l.map (·.dflt)) j ∧
        ∀ j', j' < j → ¬ defaultOffender (l.map (·.dflt)) j') := by
  induction l with
  | nil => left; simp [defaultOffender]
  | cons a t ih =>
    by_cases ha : a.dflt = true
    · -- the first run ends here; the second run eats `a` and the following defaulted ones
      have e : ((a :: t).dropWhile (fun a => !a.dflt)).dropWhile (fun a => a.dflt)
          = t.dropWhile (fun a => a.dflt) := by simp [ha]
      rw [e]
      rcases dropWhile_dflt_spec t with ⟨h1, h2⟩ | ⟨b, rest, j, h1, h2, h3, h4⟩
      · left
        refine ⟨h1, ?_⟩
        intro j
        unfold defaultOffender
        rintro ⟨hf, _⟩
        cases j with
        | zero => simp [ha] at hf
        | succ j =>
          simp only [List.map_cons, List.getElem?_cons_succ, List.getElem?_map] at hf
          cases hb : t[j]? with
          | none => simp [hb] at hf
          | some b => have := h2 j b hb; simp [hb, this] at hf
      · right
        refine ⟨b, rest, j + 1, h1, by simpa using h2, ?_, ?_⟩
        · unfold defaultOffender
          refine ⟨by simp [h2, h3], 0, by omega, by simp [ha]⟩
        · intro j' hlt
          unfold defaultOffender
          rintro ⟨hf, _⟩
          cases j' with
          | zero => simp [ha] at hf
          | succ j' =>
            simp only [List.map_cons, List.getElem?_cons_succ, List.getElem?_map] at hf
            cases hb : t[j']? with
            | none => simp [hb] at hf
            | some b' => have := h4 j' b' (by omega) hb; simp [hb, this] at hf
    · have ha' : a.dflt = false := by simpa using ha
      have e : ((a :: t).dropWhile (fun a => !a.dflt)).dropWhile (fun a => a.dflt)
          = (t.dropWhile (fun a => !a.dflt)).dropWhile (fun a => a.dflt) := by simp [ha']
      rw [e]
      simp only [List.map_cons, ha']
      rcases ih with ⟨h1, h2⟩ | ⟨b, rest, j, h1, h2, h3, h4⟩
      · left
        refine ⟨h1, ?_⟩
        intro j
        cases j with
        | zero => exact not_offender_zero _
        | succ j => rw [offender_cons_false]; exact h2 j
      · right
        refine ⟨b, rest, j + 1, h1, by simpa using h2, (offender_cons_false _ _).2 h3, ?_⟩
        intro j' hlt
        cases j' with
        | zero => exact not_offender_zero _
        | succ j' => rw [offender_cons_false]; exact h4 j' (by omega)


/-- index `j` repeats a name of `seen` or an earlier name of the list -/
def dupOff (seen names : List Nat) (j : Nat) : Prop :=
  ∃ n, names[j]? = some n ∧ (n ∈ seen ∨ ∃ i, i < j ∧ names[i]? = some n)

theorem dupOff_succ (seen nt : List Nat) (x j : Nat) :
    dupOff seen (x :: nt) (j + 1) ↔ dupOff (x :: seen) nt j := by
  unfold dupOff
  simp only [List.getElem?_cons_succ]
  constructor
  · rintro ⟨n, hn, h | ⟨i, hi, h⟩⟩
    · exact ⟨n, hn, Or.inl (List.mem_cons_of_mem _ h)⟩
    · cases i with
      | zero => simp at h; subst h; exact ⟨_, hn, Or.inl (List.mem_cons_self ..)⟩
      | succ i => exact ⟨n, hn, Or.inr ⟨i, by omega, by simpa using h⟩⟩
  · rintro ⟨n, hn, h | ⟨i, hi, h⟩⟩
    · rcases List.mem_cons.1 h with h | h
      · subst h; exact ⟨_, hn, Or.inr ⟨0, by omega, by simp⟩⟩
      · exact ⟨n, hn, Or.inl h⟩
    · exact ⟨n, hn, Or.inr ⟨i + 1, by omega, by simpa using h⟩⟩

theorem dupGo_core (l : List Arg) : ∀ seen : List Nat,
    (dupGo seen l = none ∧ ∀ j, ¬ dupOff seen (l.map (·.name)) j) ∨
    (∃ (j : Nat) (a : Arg), l[j]? = some a ∧ dupGo seen l = some (.duplicateArgument, a.off) ∧
        dupOff seen (l.map (·.name)) j ∧ ∀ j', j' < j → ¬ dupOff seen (l.map (·.name)) j') := by
  induction l with
  | nil => intro seen; left; simp [dupGo, dupOff]
  | cons a t ih =>
    intro seen
    by_cases ha : a.name ∈ seen
    · right
      refine ⟨0, a, by simp, by simp [dupGo, ha], ⟨a.name, by simp, Or.inl ha⟩, ?_⟩
      intro j' h; omega
    · have e : dupGo seen (a :: t) = dupGo (a.name :: seen) t := by simp [dupGo, ha]
      rw [e]
      simp only [List.map_cons]
      rcases ih (a.name :: seen) with ⟨h1, h2⟩ | ⟨j, b, h1, h2, h3, h4⟩
      · left
        refine ⟨h1, ?_⟩
        intro j
        cases j with
        | zero =>
          rintro ⟨n, hn, h | ⟨i, hi, _⟩⟩
          · simp at hn; subst hn; exact ha h
          · omega
        | succ j => rw [dupOff_succ]; exact h2 j
      · right
        refine ⟨j + 1, b, by simpa using h1, h2, (dupOff_succ ..).2 h3, ?_⟩
        intro j' hlt
        cases j' with
        | zero =>
          rintro ⟨n, hn, h | ⟨i, hi, _⟩⟩
          · simp at hn; subst hn; exact ha h
          · omega
        | succ j' => rw [dupOff_succ]; exact h4 j' (by omega)

theorem dupOff_nil (names : List Nat) (j : Nat) : dupOff [] names j ↔ dupOffender names j := by
  unfold dupOff dupOffender
  constructor
  · rintro ⟨n, hn, h | ⟨i, hi, h⟩⟩
    · simp at h
    · refine ⟨?_, i, hi, by rw [h, hn]⟩
      by_cases hj : j < names.length
      · exact hj
      · simp [List.getElem?_eq_none (by omega : names.length ≤ j)] at hn
  · rintro ⟨hj, i, hi, h⟩
    refine ⟨names[j], by simp [hj], Or.inr ⟨i, hi, ?_⟩⟩
    rw [h]; simp [hj]

theorem dupName_iff (names : List Nat) : dupName names ↔ ∃ j, dupOffender names j := by
  unfold dupName dupOffender
  constructor
  · rintro ⟨j, h1, h2⟩; exact ⟨j, h1, h2⟩
  · rintro ⟨j, h1, h2⟩; exact ⟨j, h1, h2⟩


/-- item `j` is an offender given the loop state `st` reached before the list -/
def argOff (st : PAState) (items : List AItem) (j : Nat) : Prop :=
  (items[j]? = some .pos ∧ (st.anyKw = true ∨ ∃ i, i < j ∧ ∃ a, items[i]? = some a ∧ isKwLike a = true)) ∨
  (items[j]? = some .star ∧ (st.dstar = true ∨ ∃ i, i < j ∧ items[i]? = some .dstar)) ∨
  (∃ n, items[j]? = some (.kw n) ∧ (n ∈ st.names ∨ ∃ i, i < j ∧ items[i]? = some (.kw n)))

def PAState.step (st : PAState) : AItem → PAState
  | .kw n => { st with names := n :: st.names, anyKw := true }
  | .dstar => { st with dstar := true, anyKw := true }
  | _ => st

theorem argOff_succ (st : PAState) (x : AItem) (t : List AItem) (j : Nat) :
    argOff st (x :: t) (j + 1) ↔ argOff (st.step x) t j := by
  unfold argOff
  simp only [List.getElem?_cons_succ]
  constructor
  · rintro (⟨h, h' | ⟨i, hi, a, ha, hk⟩⟩ | ⟨h, h' | ⟨i, hi, ha⟩⟩ | ⟨n, h, h' | ⟨i, hi, ha⟩⟩)
    · left; refine ⟨h, Or.inl ?_⟩; cases x <;> simp [PAState.step, h']
    · left; refine ⟨h, ?_⟩
      cases i with
      | zero => simp at ha; subst ha; left; cases x <;> simp_all [PAState.step, isKwLike]
      | succ i => right; exact ⟨i, by omega, a, by simpa using ha, hk⟩
    · right; left; refine ⟨h, Or.inl ?_⟩; cases x <;> simp [PAState.step, h']
    · right; left; refine ⟨h, ?_⟩
      cases i with
      | zero => simp at ha; subst ha; left; simp [PAState.step]
      | succ i => right; exact ⟨i, by omega, by simpa using ha⟩
    · right; right; refine ⟨n, h, Or.inl ?_⟩; cases x <;> simp [PAState.step, h']
    · right; right; refine ⟨n, h, ?_⟩
      cases i with
      | zero => simp at ha; subst ha; left; simp [PAState.step]
      | succ i => right; exact ⟨i, by omega, by simpa using ha⟩
  · rintro (⟨h, h' | ⟨i, hi, a, ha, hk⟩⟩ | ⟨h, h' | ⟨i, hi, ha⟩⟩ | ⟨n, h, h' | ⟨i, hi, ha⟩⟩)
    · left; refine ⟨h, ?_⟩
      cases x with
      | pos => left; simpa [PAState.step] using h'
      | star => left; simpa [PAState.step] using h'
      | kw m => right; exact ⟨0, by omega, .kw m, by simp, rfl⟩
      | dstar => right; exact ⟨0, by omega, .dstar, by simp, rfl⟩
    · left; exact ⟨h, Or.inr ⟨i + 1, by omega, a, by simpa using ha, hk⟩⟩
    · right; left; refine ⟨h, ?_⟩
      cases x with
      | pos => left; simpa [PAState.step] using h'
      | star => left; simpa [PAState.step] using h'
      | kw m => left; simpa [PAState.step] using h'
      | dstar => right; exact ⟨0, by omega, by simp⟩
    · right; left; exact ⟨h, Or.inr ⟨i + 1, by omega, by simpa using ha⟩⟩
    · right; right; refine ⟨n, h, ?_⟩
      cases x with
      | pos => left; simpa [PAState.step] using h'
      | star => left; simpa [PAState.step] using h'
      | dstar => left; simpa [PAState.step] using h'
      | kw m =>
        simp [PAState.step] at h'
        rcases h' with h' | h'
        · subst h'; right; exact ⟨0, by omega, by simp⟩
        · left; exact h'
    · right; right; exact ⟨n, h, Or.inr ⟨i + 1, by omega, by simpa using ha⟩⟩



theorem argOff_zero (st : PAState) (x : AItem) (t : List AItem) :
    argOff st (x :: t) 0 ↔
      (x = .pos ∧ st.anyKw = true) ∨ (x = .star ∧ st.dstar = true) ∨ (∃ n, x = .kw n ∧ n ∈ st.names) := by
  unfold argOff
  simp only [List.getElem?_cons_zero, Option.some.injEq]
  constructor
  · rintro (⟨h, h' | ⟨i, hi, _⟩⟩ | ⟨h, h' | ⟨i, hi, _⟩⟩ | ⟨n, h, h' | ⟨i, hi, _⟩⟩)
    · exact Or.inl ⟨h, h'⟩
    · omega
    · exact Or.inr (Or.inl ⟨h, h'⟩)
    · omega
    · exact Or.inr (Or.inr ⟨n, h, h'⟩)
    · omega
  · rintro (⟨h, h'⟩ | ⟨h, h'⟩ | ⟨n, h, h'⟩)
    · exact Or.inl ⟨h, Or.inl h'⟩
    · exact Or.inr (Or.inl ⟨h, Or.inl h'⟩)
    · exact Or.inr (Or.inr ⟨n, h, Or.inl h'⟩)

theorem parseArgsGo_core (items : List AItem) : ∀ (st : PAState) (off0 : Nat),
    (st.dstar = true → st.anyKw = true) →
    (parseArgsGo st (layoutArgs off0 items) = none ∧ ∀ j, ¬ argOff st items j) ∨
    (∃ (j : Nat) (a : AItem) (o : Nat), (layoutArgs off0 items)[j]? = some (a, o) ∧
        parseArgsGo st (layoutArgs off0 items) = some (argKind a, o) ∧
        argOff st items j ∧ ∀ j', j' < j → ¬ argOff st items j') := by
  induction items with
  | nil => intro st off0 _; left; simp [parseArgsGo, layoutArgs, argOff]
  | cons x t ih =>
    intro st off0 hinv
    by_cases h0 : argOff st (x :: t) 0
    · right
      refine ⟨0, x, off0, by simp [layoutArgs], ?_, h0, fun j' h => by omega⟩
      rw [argOff_zero] at h0
      rcases h0 with ⟨h, h'⟩ | ⟨h, h'⟩ | ⟨n, h, h'⟩
      · subst h; simp [layoutArgs, parseArgsGo, h', argKind]
      · subst h; simp [layoutArgs, parseArgsGo, h', argKind]
      · subst h; simp [layoutArgs, parseArgsGo, h', argKind]
    · have hstep : parseArgsGo st (layoutArgs off0 (x :: t)) =
          parseArgsGo (st.step x) (layoutArgs (off0 + x.len + 2) t) := by
        rw [argOff_zero] at h0
        cases x with
        | pos =>
          have h1 : st.anyKw = false := by
            cases h : st.anyKw <;> simp_all
          have h2 : st.dstar = false := by
            cases h : st.dstar
            · rfl
            · have := hinv h; simp_all
          simp [layoutArgs, parseArgsGo, h1, h2, PAState.step]
        | star =>
          have h2 : st.dstar = false := by
            cases h : st.dstar <;> simp_all
          simp [layoutArgs, parseArgsGo, h2, PAState.step]
        | kw n =>
          have h3 : n ∉ st.names := by
            intro hn; exact h0 (Or.inr (Or.inr ⟨n, rfl, hn⟩))
          simp [layoutArgs, parseArgsGo, h3, PAState.step]
        | dstar => simp [layoutArgs, parseArgsGo, PAState.step]
      have hinv' : (st.step x).dstar = true → (st.step x).anyKw = true := by
        cases x <;> simp [PAState.step] <;> exact hinv
      rw [hstep]
      rcases ih (st.step x) (off0 + x.len + 2) hinv' with ⟨h1, h2⟩ | ⟨j, a, o, h1, h2, h3, h4⟩
      · left
        refine ⟨h1, ?_⟩
        intro j
        cases j with
        | zero => exact h0
        | succ j => rw [argOff_succ]; exact h2 j
      · right
        refine ⟨j + 1, a, o, by simpa [layoutArgs] using h1, h2, (argOff_succ ..).2 h3, ?_⟩
        intro j' hlt
        cases j' with
        | zero => exact h0
        | succ j' => rw [argOff_succ]; exact h4 j' (by omega)

theorem argOff_init (items : List AItem) (j : Nat) :
    argOff ⟨[], false, false⟩ items j ↔ argOffender items j := by
  unfold argOff argOffender
  simp


theorem exists_offender_iff (fs : List Bool) :
    defaultOrderBroken fs ↔ ∃ j, defaultOffender fs j := by
  unfold defaultOrderBroken defaultOffender
  constructor
  · rintro ⟨j, _, h⟩; exact ⟨j, h⟩
  · rintro ⟨j, h1, h2⟩
    refine ⟨j, ?_, h1, h2⟩
    by_cases hj : j < fs.length
    · exact hj
    · simp [List.getElem?_eq_none (by omega : fs.length ≤ j)] at h1


/-- start offset of item `j` in the rendered argument list (items joined by `, `) -/
def argStart (items : List AItem) (j : Nat) : Nat := ((items.take j).map (fun a => a.len + 2)).sum

theorem layoutArgs_get (items : List AItem) : ∀ (off j : Nat) (a : AItem) (o : Nat),
    (layoutArgs off items)[j]? = some (a, o) → items[j]? = some a ∧ o = off + argStart items j := by
  induction items with
  | nil => intro off j a o h; simp [layoutArgs] at h
  | cons x t ih =>
    intro off j a o h
    cases j with
    | zero => simp [layoutArgs] at h; simp [argStart, h.1, h.2]
    | succ j =>
      simp [layoutArgs] at h
      have := ih _ _ _ _ h
      refine ⟨by simpa using this.1, ?_⟩
      rw [this.2]; simp [argStart]; omega

theorem exists_argOffender_iff (items : List AItem) :
    (∃ j, argOffender items j) ↔ posAfterKw items ∨ starAfterDoubleStar items ∨ dupKw items := by
  have lt : ∀ (j : Nat) (a : AItem), items[j]? = some a → j < items.length := by
    intro j a h
    by_cases hj : j < items.length
    · exact hj
    · simp [List.getElem?_eq_none (by omega : items.length ≤ j)] at h
  unfold argOffender posAfterKw starAfterDoubleStar dupKw
  constructor
  · rintro ⟨j, h | h | ⟨n, h1, h2⟩⟩
    · exact Or.inl ⟨j, lt j _ h.1, h⟩
    · exact Or.inr (Or.inl ⟨j, lt j _ h.1, h⟩)
    · exact Or.inr (Or.inr ⟨j, lt j _ h1, n, h1, h2⟩)
  · rintro (⟨j, _, h⟩ | ⟨j, _, h⟩ | ⟨j, _, h⟩)
    · exact ⟨j, Or.inl h⟩
    · exact ⟨j, Or.inr (Or.inl h)⟩
    · exact ⟨j, Or.inr (Or.inr h)⟩



/-! ### brackets -/

/-- the stack after reading a word (`none`: a closer did not match) -/
def run : List Sym → List BK → Option (List BK)
  | [], s => some s
  | .op k :: r, s => run r (k :: s)
  | .cl k :: r, s =>
    match s with
    | [] => none
    | t :: s' => if t = k then run r s' else none
  | .nl :: r, s => run r s

theorem run_append (u v : List Sym) : ∀ s, run (u ++ v) s = (run u s).bind (run v) := by
  induction u with
  | nil => intro s; simp [run]
  | cons x u ih =>
    intro s
    cases x with
    | op k => simp [run, ih]
    | nl => simp [run, ih]
    | cl k =>
      cases s with
      | nil => simp [run]
      | cons t s' =>
        by_cases h : t = k
        · simp [run, h, ih]
        · simp [run, h]

theorem matchGo_none_iff (w : List Sym) : ∀ s i, matchGo s i w = none ↔ run w s = some [] := by
  induction w with
  | nil => intro s i; cases s <;> simp [matchGo, run]
  | cons x w ih =>
    intro s i
    cases x with
    | op k => simp [matchGo, run, ih]
    | nl => simp [matchGo, run, ih]
    | cl k =>
      cases s with
      | nil => simp [matchGo, run]
      | cons t s' =>
        by_cases h : t = k
        · simp [matchGo, run, h, ih]
        · simp [matchGo, run, h]

theorem dyck_run (w : List Sym) (h : Dyck w) : ∀ s, run w s = some s := by
  induction h with
  | nil => intro s; rfl
  | nl _ ih => intro s; simp [run, ih]
  | wrap k _ _ ihu ihv =>
    intro s
    simp only [run]
    rw [run_append, ihu (k :: s)]
    simp [run, ihv]

/-- `w` closes exactly the pending stack `s`: `w = d₀ )ₖ₁ d₁ )ₖ₂ … dₙ` with every `dᵢ` balanced -/
def Bal : List BK → List Sym → Prop
  | [], w => Dyck w
  | k :: s, w => ∃ d r, w = d ++ .cl k :: r ∧ Dyck d ∧ Bal s r

theorem bal_nl (s : List BK) (w : List Sym) (h : Bal s w) : Bal s (.nl :: w) := by
  cases s with
  | nil => exact Dyck.nl h
  | cons k s =>
    obtain ⟨d, r, e, hd, hr⟩ := h
    exact ⟨.nl :: d, r, by simp [e], Dyck.nl hd, hr⟩

theorem bal_op (k : BK) (s : List BK) (w : List Sym) (h : Bal (k :: s) w) : Bal s (.op k :: w) := by
  obtain ⟨d, r, e, hd, hr⟩ := h
  cases s with
  | nil => subst e; exact Dyck.wrap k hd hr
  | cons k' s' =>
    obtain ⟨d', r', e', hd', hr'⟩ := hr
    refine ⟨.op k :: (d ++ .cl k :: d'), r', ?_, Dyck.wrap k hd hd', hr'⟩
    subst e; subst e'; simp

theorem run_bal (w : List Sym) : ∀ s, run w s = some [] → Bal s w := by
  induction w with
  | nil => intro s h; simp [run] at h; subst h; exact Dyck.nil
  | cons x w ih =>
    intro s h
    cases x with
    | op k => exact bal_op k s w (ih _ (by simpa [run] using h))
    | nl => exact bal_nl s w (ih _ (by simpa [run] using h))
    | cl k =>
      cases s with
      | nil => simp [run] at h
      | cons t s' =>
        by_cases ht : t = k
        · subst ht
          exact ⟨[], w, by simp, Dyck.nil, ih _ (by simpa [run] using h)⟩
        · simp [run, ht] at h

theorem run_closes (s : List BK) : run (s.map Sym.cl) s = some [] := by
  induction s with
  | nil => rfl
  | cons k s ih => simp [run, ih]

theorem viable_iff (u : List Sym) : Viable u ↔ (run u []).isSome = true := by
  constructor
  · rintro ⟨v, h⟩
    have := dyck_run _ h []
    rw [run_append] at this
    cases hr : run u [] with
    | none => simp [hr] at this
    | some s => rfl
  · intro h
    cases hr : run u [] with
    | none => simp [hr] at h
    | some s =>
      refine ⟨s.map Sym.cl, ?_⟩
      have : run (u ++ s.map Sym.cl) [] = some [] := by rw [run_append, hr]; simpa using run_closes s
      exact run_bal _ [] this

theorem matchGo_ge (w : List Sym) : ∀ s i k off, matchGo s i w = some (k, off) → i ≤ off := by
  induction w with
  | nil => intro s i k off h; cases s <;> simp [matchGo] at h; omega
  | cons x w ih =>
    intro s i k off h
    cases x with
    | op c => have := ih _ _ _ _ (by simpa [matchGo] using h); omega
    | nl => have := ih _ _ _ _ (by simpa [matchGo] using h); omega
    | cl c =>
      cases s with
      | nil => simp [matchGo] at h; omega
      | cons t s' =>
        by_cases ht : t = c
        · have := ih _ _ _ _ (by simpa [matchGo, ht] using h); omega
        · simp [matchGo, ht] at h; omega

/-- where and why the matcher stops -/
theorem matchGo_err (w : List Sym) : ∀ s i0 k off, matchGo s i0 w = some (k, off) →
    (∃ i c, w[i]? = some (.cl c) ∧ run (w.take i) s = some [] ∧ k = .nesting ∧ off = i0 + i + 1) ∨
    (∃ i c t s', w[i]? = some (.cl c) ∧ run (w.take i) s = some (t :: s') ∧ t ≠ c ∧ k = .syntax ∧ off = i0 + i) ∨
    (∃ s', run w s = some s' ∧ s' ≠ [] ∧ k = .eof ∧ off = i0 + w.length) := by
  induction w with
  | nil =>
    intro s i0 k off h
    cases s with
    | nil => simp [matchGo] at h
    | cons t s' => simp [matchGo] at h; right; right; exact ⟨t :: s', rfl, by simp, h.1.symm, by simp [h.2]⟩
  | cons x w ih =>
    intro s i0 k off h
    have lift : ∀ s1, (∀ u, run (x :: u) s = run u s1) → matchGo s1 (i0 + 1) w = some (k, off) →
        (∃ i c, (x :: w)[i]? = some (.cl c) ∧ run ((x :: w).take i) s = some [] ∧ k = .nesting ∧ off = i0 + i + 1) ∨
        (∃ i c t s', (x :: w)[i]? = some (.cl c) ∧ run ((x :: w).take i) s = some (t :: s') ∧ t ≠ c ∧ k = .syntax ∧ off = i0 + i) ∨
        (∃ s', run (x :: w) s = some s' ∧ s' ≠ [] ∧ k = .eof ∧ off = i0 + (x :: w).length) := by
      intro s1 hs1 h1
      rcases ih s1 (i0 + 1) k off h1 with ⟨i, c, a, b, e, f⟩ | ⟨i, c, t, s', a, b, ne, e, f⟩ | ⟨s', a, b, e, f⟩
      · left; exact ⟨i + 1, c, by simpa using a, by simp [List.take_succ_cons, hs1, b], e, by omega⟩
      · right; left; exact ⟨i + 1, c, t, s', by simpa using a, by simp [List.take_succ_cons, hs1, b], ne, e, by omega⟩
      · right; right; exact ⟨s', by rw [hs1]; exact a, b, e, by simp; omega⟩
    cases x with
    | op c => exact lift (c :: s) (fun u => by simp [run]) (by simpa [matchGo] using h)
    | nl => exact lift s (fun u => by simp [run]) (by simpa [matchGo] using h)
    | cl c =>
      cases s with
      | nil =>
        simp [matchGo] at h
        left; exact ⟨0, c, by simp, by simp [run], h.1.symm, by omega⟩
      | cons t s' =>
        by_cases ht : t = c
        · exact lift s' (fun u => by simp [run, ht]) (by simpa [matchGo, ht] using h)
        · simp [matchGo, ht] at h
          right; left; exact ⟨0, c, t, s', by simp, by simp [run], ht, h.1.symm, by omega⟩


theorem rawGo_none (w : List Sym) : ∀ (stack : List Frame) (st : PSt) (i : Nat),
    rawGo stack st i w = none → matchGo (stack.map (·.kind)) i w = none := by
  induction w with
  | nil => intro stack st i h; cases stack <;> simp_all [rawGo, matchGo]
  | cons x w ih =>
    intro stack st i h
    cases x with
    | nl =>
      simp only [rawGo] at h
      simp only [matchGo]
      split at h
      · exact ih _ _ _ h
      · exact ih _ _ _ h
    | op k =>
      simp only [rawGo] at h
      simp only [matchGo]
      split at h
      · cases k with
        | paren => exact ih (⟨.paren, false⟩ :: stack) _ _ h
        | sq => exact ih (⟨.sq, true⟩ :: stack) _ _ h
        | brace => simp at h
      · exact ih (⟨k, false⟩ :: stack) _ _ h
    | cl k =>
      cases stack with
      | nil => simp [rawGo] at h
      | cons f fs =>
        simp only [rawGo] at h
        simp only [matchGo, List.map_cons]
        by_cases hk : f.kind = k
        · simp only [hk, ne_eq, not_true_eq_false, if_false] at h
          simp only [hk, if_true]
          split at h
          · simp at h
          · exact ih _ _ _ h
        · simp [hk] at h

theorem rawGo_not_later (w : List Sym) : ∀ (stack : List Frame) (st : PSt) (i : Nat) (k : Kind) (off : Nat),
    matchGo (stack.map (·.kind)) i w = some (k, off) →
    ∃ k' off', rawGo stack st i w = some (k', off') ∧ off' ≤ off := by
  induction w with
  | nil =>
    intro stack st i k off h
    cases stack with
    | nil => simp [matchGo] at h
    | cons f fs => simp [matchGo] at h; exact ⟨.eof, i, by simp [rawGo], by omega⟩
  | cons x w ih =>
    intro stack st i k off h
    cases x with
    | nl =>
      simp only [matchGo] at h
      simp only [rawGo]
      split
      · exact ih _ _ _ _ _ h
      · exact ih _ _ _ _ _ h
    | op c =>
      simp only [matchGo] at h
      simp only [rawGo]
      split
      · cases c with
        | paren => exact ih (⟨.paren, false⟩ :: stack) _ _ _ _ h
        | sq => exact ih (⟨.sq, true⟩ :: stack) _ _ _ _ h
        | brace =>
          have := matchGo_ge _ _ _ _ _ h
          exact ⟨.syntax, i, rfl, by omega⟩
      · exact ih (⟨c, false⟩ :: stack) _ _ _ _ h
    | cl c =>
      cases stack with
      | nil => simp [matchGo] at h; exact ⟨.nesting, i + 1, by simp [rawGo], by omega⟩
      | cons f fs =>
        simp only [matchGo, List.map_cons] at h
        simp only [rawGo]
        by_cases hk : f.kind = c
        · simp only [hk, if_true] at h
          simp only [hk, ne_eq, not_true_eq_false, if_false]
          split
          · have := matchGo_ge _ _ _ _ _ h
            exact ⟨.syntax, i, rfl, by omega⟩
          · exact ih _ _ _ _ _ h
        · simp [hk] at h
          exact ⟨.syntax, i, by simp [hk], by omega⟩


theorem not_viable_of_run (w : List Sym) (i : Nat) (c : BK) (s : List BK)
    (hi : w[i]? = some (.cl c)) (hr : run (w.take i) [] = some s)
    (hbad : ∀ t s', s = t :: s' → t ≠ c) : ¬ Viable (w.take (i + 1)) := by
  rw [viable_iff]
  have e : w.take (i + 1) = w.take i ++ [.cl c] := by
    rw [List.take_add_one]; simp [hi]
  rw [e, run_append, hr]
  cases s with
  | nil => simp [run]
  | cons t s' => simp [run, hbad t s' rfl]


/-! ### indentation -/

theorem cmpNat_eq_cmp (a b : Nat) : cmpNat a b = Spec.cmp a b := rfl

theorem width_lt_of (a b : Level) (p q : Nat) (hp : 0 < p) (ht : a.tabs < b.tabs) (hs : a.spaces ≤ b.spaces) :
    width a p q < width b p q := by
  unfold width
  have h1 : (a.tabs + 1) * p ≤ b.tabs * p := Nat.mul_le_mul_right p ht
  have h2 : a.spaces * q ≤ b.spaces * q := Nat.mul_le_mul_right q hs
  rw [Nat.add_mul, Nat.one_mul] at h1
  omega

/-- `compare_strict` answers `o` exactly when `o` is the comparison of the two indentations for EVERY
    positive width of a tab and of a space. -/
theorem compareStrict_sound (a b : Level) (o : Ord3) (h : compareStrict a b = some o) (p q : Nat)
    (hp : 0 < p) (hq : 0 < q) : Spec.cmp (width a p q) (width b p q) = o := by
  unfold compareStrict cmpNat at h
  split at h
  · -- tabs decide
    rename_i hc
    split at hc
    · -- a.tabs < b.tabs
      rename_i ht
      split at h
      · rename_i hs
        have := width_lt_of a b p q hp ht hs
        cases h; unfold Spec.cmp; simp [this]
      · cases h
    · split at hc <;> cases hc
  · rename_i hc
    split at hc
    · cases hc
    · split at hc
      · cases hc
      · rename_i h1 h2
        have ht : b.tabs < a.tabs := by omega
        split at h
        · rename_i hs
          have := width_lt_of b a p q hp ht hs
          cases h; unfold Spec.cmp
          have h3 : ¬ width a p q < width b p q := by omega
          have h4 : ¬ width a p q = width b p q := by omega
          simp [h3, h4]
        · cases h
  · rename_i hc
    split at hc
    · cases hc
    · split at hc
      · rename_i h1 ht
        cases h
        unfold Spec.cmp width
        rw [ht]
        by_cases hs : a.spaces < b.spaces
        · have : a.spaces * q < b.spaces * q := Nat.mul_lt_mul_of_pos_right hs hq
          simp [hs, this]
        · by_cases he : a.spaces = b.spaces
          · simp [he]
          · have hgt : b.spaces < a.spaces := by omega
            have : b.spaces * q < a.spaces * q := Nat.mul_lt_mul_of_pos_right hgt hq
            have h3 : ¬ b.tabs * p + a.spaces * q < b.tabs * p + b.spaces * q := by omega
            have h4 : ¬ a.spaces * q = b.spaces * q := by omega
            simp [hs, he, h3, h4]
      · cases hc

theorem ambiguous_of (a b : Level) (ht : a.tabs < b.tabs) (hs : b.spaces < a.spaces) :
    Spec.cmp (width a 1 (b.tabs - a.tabs + 1)) (width b 1 (b.tabs - a.tabs + 1)) = .gt ∧
    Spec.cmp (width a (a.spaces - b.spaces + 1) 1) (width b (a.spaces - b.spaces + 1) 1) = .lt := by
  constructor
  · unfold Spec.cmp width
    have h1 : (b.spaces + 1) * (b.tabs - a.tabs + 1) ≤ a.spaces * (b.tabs - a.tabs + 1) :=
      Nat.mul_le_mul_right _ hs
    rw [Nat.add_mul, Nat.one_mul] at h1
    have h3 : ¬ a.tabs * 1 + a.spaces * (b.tabs - a.tabs + 1) < b.tabs * 1 + b.spaces * (b.tabs - a.tabs + 1) := by omega
    have h4 : ¬ a.tabs * 1 + a.spaces * (b.tabs - a.tabs + 1) = b.tabs * 1 + b.spaces * (b.tabs - a.tabs + 1) := by omega
    simp only [h3, h4, if_false]
  · unfold Spec.cmp width
    have h1 : (a.tabs + 1) * (a.spaces - b.spaces + 1) ≤ b.tabs * (a.spaces - b.spaces + 1) :=
      Nat.mul_le_mul_right _ ht
    rw [Nat.add_mul, Nat.one_mul] at h1
    have h3 : a.tabs * (a.spaces - b.spaces + 1) + a.spaces * 1 < b.tabs * (a.spaces - b.spaces + 1) + b.spaces * 1 := by omega
    simp only [h3, if_true]

theorem cmp_swap (x y : Nat) : Spec.cmp x y = .gt ↔ Spec.cmp y x = .lt := by
  unfold Spec.cmp
  by_cases h1 : x < y
  · have : ¬ y < x := by omega
    have : ¬ y = x := by omega
    simp_all
  · by_cases h2 : x = y
    · simp_all
    · have : y < x := by omega
      simp_all



/-! ### eat_indentation -/

theorem tabAfterSpace_cons (x : Bool) (r : List Bool) :
    tabAfterSpace (x :: r) ↔ (x = false ∧ true ∈ r) ∨ tabAfterSpace r := by
  unfold tabAfterSpace
  constructor
  · rintro ⟨i, j, hij, hi, hj⟩
    cases j with
    | zero => omega
    | succ j =>
      cases i with
      | zero =>
        left
        simp at hi hj
        exact ⟨hi, List.mem_of_getElem? hj⟩
      | succ i => right; exact ⟨i, j, by omega, by simpa using hi, by simpa using hj⟩
  · rintro (⟨hx, hm⟩ | ⟨i, j, hij, hi, hj⟩)
    · obtain ⟨j, hj⟩ := List.getElem?_of_mem hm
      exact ⟨0, j + 1, by omega, by simp [hx], by simpa using hj⟩
    · exact ⟨i + 1, j + 1, by omega, by simpa using hi, by simpa using hj⟩

theorem scanWs_spec (ws : List Bool) : ∀ (t s i : Nat),
    (∃ lvl, scanWs t s i ws = .ok lvl ∧ lvl = ⟨t + ws.count true, s + ws.count false⟩ ∧
        ¬ tabAfterSpace ws ∧ (s ≠ 0 → true ∉ ws)) ∨
    (∃ j, scanWs t s i ws = .error (i + j) ∧ ws[j]? = some true ∧
        (tabAfterSpace ws ∨ (s ≠ 0 ∧ true ∈ ws))) := by
  induction ws with
  | nil => intro t s i; left; exact ⟨⟨t, s⟩, by simp [scanWs], by simp, by simp [tabAfterSpace], by simp⟩
  | cons x r ih =>
    intro t s i
    cases x with
    | true =>
      by_cases hs : s = 0
      · rcases ih (t + 1) s (i + 1) with ⟨lvl, h1, h2, h3, h4⟩ | ⟨j, h1, h2, h3⟩
        · left
          refine ⟨lvl, by simp [scanWs, hs, ← h1], by simp [h2]; omega, ?_, by simp [hs]⟩
          rw [tabAfterSpace_cons]; simp [h3]
        · right
          refine ⟨j + 1, by simp [scanWs, hs]; rw [← hs, h1]; congr 1; omega, by simpa using h2, ?_⟩
          rcases h3 with h3 | ⟨h3, _⟩
          · left; rw [tabAfterSpace_cons]; exact Or.inr h3
          · exact absurd hs h3
      · right
        exact ⟨0, by simp [scanWs, hs], by simp, Or.inr ⟨hs, by simp⟩⟩
    | false =>
      rcases ih t (s + 1) (i + 1) with ⟨lvl, h1, h2, h3, h4⟩ | ⟨j, h1, h2, h3⟩
      · left
        refine ⟨lvl, by simp [scanWs, h1], by simp [h2]; omega, ?_, ?_⟩
        · rw [tabAfterSpace_cons]
          have := h4 (by omega)
          simp [h3, this]
        · intro _; simpa using h4 (by omega)
      · right
        refine ⟨j + 1, by simp [scanWs]; rw [h1]; congr 1; omega, by simpa using h2, ?_⟩
        left
        rw [tabAfterSpace_cons]
        rcases h3 with h3 | ⟨_, h3⟩
        · exact Or.inr h3
        · exact Or.inl ⟨rfl, h3⟩


theorem compareStrict_eq_iff (a b : Level) : compareStrict a b = some .eq ↔ a = b := by
  unfold compareStrict cmpNat
  constructor
  · intro h
    split at h
    · split at h <;> cases h
    · split at h <;> cases h
    · rename_i hc
      have ht : a.tabs = b.tabs := by
        split at hc
        · cases hc
        · split at hc
          · assumption
          · cases hc
      simp only [Option.some.injEq] at h
      have hs : a.spaces = b.spaces := by
        split at h
        · cases h
        · split at h
          · assumption
          · cases h
      cases a; cases b; simp_all
  · intro h; subst h; simp

theorem compareStrict_gt_ne_base (a b : Level) (h : compareStrict a b = some .gt) : a ≠ ⟨0, 0⟩ := by
  intro e; subst e
  have := compareStrict_sound _ _ _ h 1 1 (by omega) (by omega)
  unfold Spec.cmp width at this
  simp at this
  split at this
  · cases this
  · split at this
    · cases this
    · omega

theorem compareStrict_base (a : Level) :
    compareStrict a ⟨0, 0⟩ = some .eq ∨ compareStrict a ⟨0, 0⟩ = some .gt := by
  unfold compareStrict cmpNat
  by_cases ht : a.tabs = 0
  · by_cases hs : a.spaces = 0
    · left; simp [ht, hs]
    · right; simp [ht, hs]
  · right
    have : ¬ a.tabs < 0 := by omega
    simp [ht]

/-- the stack of enclosing levels the lexer maintains: every level is strictly above (for every tab
    width) all the levels below it -/
def Chain (stack : List Level) : Prop :=
  stack.Pairwise (fun x y => compareStrict x y = some .gt)


theorem filter_id_pos (ks : List Bool) : 0 < (ks.filter id).length ↔ true ∈ ks := by
  induction ks with
  | nil => simp
  | cons x r ih => cases x <;> simp [ih]

theorem filter_id_lt (ks : List Bool) : (ks.filter id).length < ks.length ↔ false ∈ ks := by
  induction ks with
  | nil => simp
  | cons x r ih =>
    cases x with
    | true => simp [ih]
    | false =>
      have := List.length_filter_le id r
      simp; omega


end PV.C04
