import PV.C04.Model
import PV.C04.Spec
/-! C04 — helper lemmas for `PV/C04/Thm.lean`. -/
set_option linter.unusedSimpArgs false
namespace PV.C04
open Spec

/-- after the leading run of defaulted parameters: empty, or the first one without default -/
theorem dropWhile_dflt_spec (t : List Arg) :
    (t.dropWhile (fun a => a.dflt) = [] ∧ ∀ (j : Nat) (b : Arg), t[j]? = some b → b.dflt = true) ∨
    (∃ (b : Arg) (rest : List Arg) (j : Nat), t.dropWhile (fun a => a.dflt) = b :: rest ∧ t[j]? = some b ∧ b.dflt = false ∧
        ∀ (j' : Nat) (b' : Arg), j' < j → t[j']? = some b' → b'.dflt = true) := by
  induction t with
  | nil => left; simp
  | cons a t ih =>
    by_cases ha : a.dflt = true
    · rcases ih with ⟨h1, h2⟩ | ⟨b, rest, j, h1, h2, h3, h4⟩
      · left
        refine ⟨by simp [List.dropWhile_cons, ha, h1], ?_⟩
        intro j b hj
        cases j with
        | zero => simp at hj; subst hj; exact ha
        | succ j => simp at hj; exact h2 j b hj
      · right
        refine ⟨b, rest, j + 1, by simp [List.dropWhile_cons, ha, h1], by simpa using h2, h3, ?_⟩
        intro j' b' hlt hj'
        cases j' with
        | zero => simp at hj'; subst hj'; exact ha
        | succ j' => simp at hj'; exact h4 j' b' (by omega) hj'
    · right
      refine ⟨a, t, 0, by simp [List.dropWhile_cons, ha], by simp, by simpa using ha, ?_⟩
      intro j' b' hlt; omega


theorem offender_cons_false (ft : List Bool) (j : Nat) :
    defaultOffender (false :: ft) (j + 1) ↔ defaultOffender ft j := by
  unfold defaultOffender
  simp only [List.getElem?_cons_succ]
  constructor
  · rintro ⟨h1, i, hi, h2⟩
    refine ⟨h1, ?_⟩
    cases i with
    | zero => simp at h2
    | succ i => exact ⟨i, by omega, by simpa using h2⟩
  · rintro ⟨h1, i, hi, h2⟩
    exact ⟨h1, i + 1, by omega, by simpa using h2⟩

theorem not_offender_zero (fs : List Bool) : ¬ defaultOffender fs 0 := by
  unfold defaultOffender; rintro ⟨_, i, hi, _⟩; omega

theorem posParams_core (l : List Arg) :
    ((l.dropWhile (fun a => !a.dflt)).dropWhile (fun a => a.dflt) = [] ∧
        ∀ j, ¬ defaultOffender (l.map (·.dflt)) j) ∨
    (∃ (a : Arg) (rest : List Arg) (j : Nat),
        (l.dropWhile (fun a => !a.dflt)).dropWhile (fun a => a.dflt) = a :: rest ∧
        l[j]? = some a ∧ defaultOffender (l.map (·.dflt)) j ∧
        ∀ j', j' < j → ¬ defaultOffender (l.map (·.dflt)) j') := by
  induction l with
  | nil => left; simp [defaultOffender]
  | cons a t ih =>
    by_cases ha : a.dflt = true
    · -- the first run ends here; the second run eats `a` and the following defaulted ones
      have e : ((a :: t).dropWhile (fun a => !a.dflt)).dropWhile (fun a => a.dflt)
          = t.dropWhile (fun a => a.dflt) := by simp [ha]
      rw [e]
      rcases dropWhile_dflt_spec t with ⟨h1, h2⟩ | ⟨b, rest, j, h1, h2, h3, h4⟩
      · left
        refine ⟨h1, ?_⟩
        intro j
        unfold defaultOffender
        rintro ⟨hf, _⟩
        cases j with
        | zero => simp [ha] at hf
        | succ j =>
          simp only [List.map_cons, List.getElem?_cons_succ, List.getElem?_map] at hf
          cases hb : t[j]? with
          | none => simp [hb] at hf
          | some b => have := h2 j b hb; simp [hb, this] at hf
      · right
        refine ⟨b, rest, j + 1, h1, by simpa using h2, ?_, ?_⟩
        · unfold defaultOffender
          refine ⟨by simp [h2, h3], 0, by omega, by simp [ha]⟩
        · intro j' hlt
          unfold defaultOffender
          rintro ⟨hf, _⟩
          cases j' with
          | zero => simp [ha] at hf
          | succ j' =>
            simp only [List.map_cons, List.getElem?_cons_succ, List.getElem?_map] at hf
            cases hb : t[j']? with
            | none => simp [hb] at hf
            | some b' => have := h4 j' b' (by omega) hb; simp [hb, this] at hf
    · have ha' : a.dflt = false := by simpa using ha
      have e : ((a :: t).dropWhile (fun a => !a.dflt)).dropWhile (fun a => a.dflt)
          = (t.dropWhile (fun a => !a.dflt)).dropWhile (fun a => a.dflt) := by simp [ha']
      rw [e]
      simp only [List.map_cons, ha']
      rcases ih with ⟨h1, h2⟩ | ⟨b, rest, j, h1, h2, h3, h4⟩
      · left
        refine ⟨h1, ?_⟩
        intro j
        cases j with
        | zero => exact not_offender_zero _
        | succ j => rw [offender_cons_false]; exact h2 j
      · right
        refine ⟨b, rest, j + 1, h1, by simpa using h2, (offender_cons_false _ _).2 h3, ?_⟩
        intro j' hlt
        cases j' with
        | zero => exact not_offender_zero _
        | succ j' => rw [offender_cons_false]; exact h4 j' (by omega)

end PV.C04
