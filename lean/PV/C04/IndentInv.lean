import PV.C04.Thm

/-!
# C04 — the reachable states of the indentation driver `indentGo`

`indentGo` (Model.lean) is left untouched.  Here its loop body is restated as a step function on an explicit
state (`indentStep`, `indentRun` over the newline-terminated lines of a prefix), the decomposition
`indentGo (pre ++ suf) = indentRun pre ; indentGo suf` is proved, the stack invariant (`Chain`, every level above
the base level) is shown to hold in every state reachable from the start of a file, and the line rules
(dedent to an unknown level, expected indent, unexpected indent, tab/space inconsistency, missing block at the
end of the file) are stated for an arbitrary state and for whole files WITHOUT a hypothesis on the stack.
-/

namespace PV.C04
open Spec

/-- lexer/parser state of `indentGo` between two lines -/
structure ISt where
  stack : List Level
  need : Bool
  pos : Nat
  lastEnd : Nat
deriving DecidableEq, Repr

/-- `indentGo` continued from a state -/
def ISt.go (st : ISt) (nlLast : Bool) (ls : List ILine) : Res :=
  indentGo st.stack st.need st.pos st.lastEnd nlLast ls

def ISt.init : ISt := ⟨[], false, 0, 0⟩

/-- the level the next statement line is compared with first -/
def ISt.top (st : ISt) : Level := st.stack.head?.getD ⟨0, 0⟩

/-- one line of `indentGo` (`nl` = length of the line terminator: 1, or 0 on an unterminated last line) -/
def indentStep (st : ISt) (nl : Nat) (l : ILine) : Except (Kind × Nat) ISt :=
  match scanWs 0 0 0 l.ws with
  | .error i => .error (.tab, st.pos + i)
  | .ok lvl =>
    let p := st.pos + l.ws.length
    let next := p + l.kind.len + nl
    if l.kind = .blank || l.kind = .comment then .ok ⟨st.stack, st.need, next, st.lastEnd⟩
    else
      let opens := l.kind == .opener
      match compareStrict lvl (st.stack.head?.getD ⟨0, 0⟩) with
      | none => .error (.tab, p)
      | some .eq =>
        if st.need then .error (.indentation, p) else .ok ⟨st.stack, opens, next, next⟩
      | some .gt =>
        if st.need then .ok ⟨lvl :: st.stack, opens, next, next⟩
        else .error (.indentation, st.pos)
      | some .lt =>
        match dedentGo lvl st.stack with
        | .tabError => .error (.tab, p)
        | .unknown => .error (.indentation, p)
        | .ok s => if st.need then .error (.indentation, p) else .ok ⟨s, opens, next, next⟩

/-- the run over lines that are NOT the last one (each is followed by a newline) -/
def indentRun (st : ISt) : List ILine → Except (Kind × Nat) ISt
  | [] => .ok st
  | l :: r =>
    match indentStep st 1 l with
    | .error e => .error e
    | .ok st' => indentRun st' r

theorem indentGo_cons (st : ISt) (nlLast : Bool) (l : ILine) (rest : List ILine) :
    st.go nlLast (l :: rest) =
      match indentStep st (if rest.isEmpty && !nlLast then 0 else 1) l with
      | .error e => some e
      | .ok st' => st'.go nlLast rest := by
  cases hs : scanWs 0 0 0 l.ws with
  | error i => simp [ISt.go, indentGo, indentStep, hs]
  | ok lvl =>
    by_cases hk : (l.kind = .blank || l.kind = .comment) = true
    · simp only [ISt.go, indentGo, indentStep, hs, hk, if_true]
    · cases hc : compareStrict lvl (st.stack.head?.getD ⟨0, 0⟩) with
      | none => simp [ISt.go, indentGo, indentStep, hs, hk, hc]
      | some o =>
        cases o with
        | eq => cases hn : st.need <;> simp [ISt.go, indentGo, indentStep, hs, hk, hc, hn]
        | gt => cases hn : st.need <;> simp [ISt.go, indentGo, indentStep, hs, hk, hc, hn]
        | lt =>
          cases hd : dedentGo lvl st.stack with
          | tabError => simp [ISt.go, indentGo, indentStep, hs, hk, hc, hd]
          | unknown => simp [ISt.go, indentGo, indentStep, hs, hk, hc, hd]
          | ok s => cases hn : st.need <;> simp [ISt.go, indentGo, indentStep, hs, hk, hc, hn, hd]

/-- **Decomposition.**  `indentGo` over `pre ++ suf` is the prefix run followed by `indentGo` from the state reached
    (the lines of a proper prefix are all newline-terminated; if `suf` is empty the file must end in a newline). -/
theorem indentGo_append (st : ISt) (nlLast : Bool) (pre suf : List ILine) (h : suf ≠ [] ∨ nlLast = true) :
    st.go nlLast (pre ++ suf) =
      match indentRun st pre with
      | .error e => some e
      | .ok st' => st'.go nlLast suf := by
  induction pre generalizing st with
  | nil => simp [indentRun]
  | cons l r ih =>
    have hnl : (if (r ++ suf).isEmpty && !nlLast then 0 else 1) = 1 := by
      rcases h with h | h
      · have : (r ++ suf).isEmpty = false := by cases r <;> cases suf <;> simp_all
        simp [this]
      · simp [h]
    rw [List.cons_append, indentGo_cons, hnl]
    simp only [indentRun]
    cases hstep : indentStep st 1 l with
    | error e => simp
    | ok st' => simp [ih st']

theorem indentRun_append (st : ISt) (pre suf : List ILine) :
    indentRun st (pre ++ suf) =
      match indentRun st pre with
      | .error e => .error e
      | .ok st' => indentRun st' suf := by
  induction pre generalizing st with
  | nil => simp [indentRun]
  | cons l r ih =>
    simp only [List.cons_append, indentRun]
    cases hstep : indentStep st 1 l with
    | error e => simp
    | ok st' => simp [ih st']

/-! ### the strict order behind `compare_strict` is transitive -/

theorem compareStrict_gt_iff (a b : Level) :
    compareStrict a b = some .gt ↔
      (b.tabs < a.tabs ∧ b.spaces ≤ a.spaces) ∨ (a.tabs = b.tabs ∧ b.spaces < a.spaces) := by
  unfold compareStrict cmpNat
  by_cases h1 : a.tabs < b.tabs
  · simp [h1]
    by_cases h2 : a.spaces ≤ b.spaces <;> simp [h2] <;> omega
  · by_cases h2 : a.tabs = b.tabs
    · simp [h2]
      by_cases h3 : a.spaces < b.spaces
      · simp [h3]; omega
      · by_cases h4 : a.spaces = b.spaces <;> simp [h3, h4] <;> omega
    · simp [h1, h2]
      by_cases h3 : b.spaces ≤ a.spaces <;> simp [h3] <;> omega

theorem compareStrict_gt_trans (a b c : Level) (h1 : compareStrict a b = some .gt)
    (h2 : compareStrict b c = some .gt) : compareStrict a c = some .gt := by
  rw [compareStrict_gt_iff] at *
  omega

theorem dedentGo_suffix (lvl : Level) : ∀ (stack s : List Level), dedentGo lvl stack = .ok s → s <:+ stack := by
  intro stack
  induction stack with
  | nil =>
    intro s h
    unfold dedentGo at h
    split at h <;> cases h <;> exact List.suffix_refl _
  | cons top rest ih =>
    intro s h
    unfold dedentGo at h
    split at h
    · cases h
    · exact (ih s h).trans (List.suffix_cons _ _)
    · cases h; exact List.suffix_refl _
    · cases h

/-! ### the invariant of the indentation stack -/

/-- every level on the stack is strictly above all levels below it and above the base level `(0,0)` -/
def ISt.Inv (st : ISt) : Prop :=
  Chain st.stack ∧ ∀ x, x ∈ st.stack → compareStrict x ⟨0, 0⟩ = some .gt

theorem ISt.init_inv : ISt.init.Inv := by
  simp [ISt.Inv, ISt.init, Chain]

/-- what a successful step does to the stack: nothing, one push of a strictly deeper level, or the dedent search -/
theorem indentStep_ok_stack (st st' : ISt) (nl : Nat) (l : ILine) (h : indentStep st nl l = .ok st') :
    st'.stack = st.stack ∨
    (∃ lvl, scanWs 0 0 0 l.ws = .ok lvl ∧ compareStrict lvl st.top = some .gt ∧ st.need = true ∧
        st'.stack = lvl :: st.stack) ∨
    (∃ lvl, scanWs 0 0 0 l.ws = .ok lvl ∧ compareStrict lvl st.top = some .lt ∧
        dedentGo lvl st.stack = .ok st'.stack) := by
  unfold indentStep at h
  cases hs : scanWs 0 0 0 l.ws with
  | error i => simp [hs] at h
  | ok lvl =>
    by_cases hk : (l.kind = .blank || l.kind = .comment) = true
    · simp only [hs, hk, if_true] at h
      cases h; exact Or.inl rfl
    · cases hc : compareStrict lvl (st.stack.head?.getD ⟨0, 0⟩) with
      | none => simp [hs, hk, hc] at h
      | some o =>
        cases o with
        | eq =>
          cases hn : st.need <;> simp [hs, hk, hc, hn] at h
          cases h; exact Or.inl rfl
        | gt =>
          cases hn : st.need <;> simp [hs, hk, hc, hn] at h
          cases h; exact Or.inr (Or.inl ⟨lvl, rfl, hc, rfl, rfl⟩)
        | lt =>
          cases hd : dedentGo lvl st.stack with
          | tabError => simp [hs, hk, hc, hd] at h
          | unknown => simp [hs, hk, hc, hd] at h
          | ok s =>
            cases hn : st.need <;> simp [hs, hk, hc, hn, hd] at h
            cases h; exact Or.inr (Or.inr ⟨lvl, rfl, hc, hd⟩)

/-- **The stack invariant is maintained by every line.** -/
theorem indentStep_inv (st st' : ISt) (nl : Nat) (l : ILine) (hi : st.Inv)
    (h : indentStep st nl l = .ok st') : st'.Inv := by
  rcases indentStep_ok_stack st st' nl l h with e | ⟨lvl, _, hgt, _, e⟩ | ⟨lvl, _, _, hd⟩
  · unfold ISt.Inv; rw [e]; exact hi
  · unfold ISt.Inv; rw [e]
    obtain ⟨hc, hb⟩ := hi
    cases hst : st.stack with
    | nil =>
      simp only [ISt.top, hst, List.head?_nil, Option.getD_none] at hgt
      refine ⟨by simp [Chain], ?_⟩
      intro x hx
      simp at hx; subst hx; exact hgt
    | cons top rest =>
      simp only [ISt.top, hst, List.head?_cons, Option.getD_some] at hgt
      rw [hst] at hc hb
      refine ⟨?_, ?_⟩
      · refine List.pairwise_cons.2 ⟨?_, hc⟩
        intro y hy
        rcases List.mem_cons.1 hy with e | hy
        · subst e; exact hgt
        · exact compareStrict_gt_trans _ _ _ hgt ((List.pairwise_cons.1 hc).1 y hy)
      · intro x hx
        rcases List.mem_cons.1 hx with e | hx
        · subst e; exact compareStrict_gt_trans _ _ _ hgt (hb top (List.mem_cons_self ..))
        · exact hb x hx
  · have hsuf := dedentGo_suffix lvl st.stack st'.stack hd
    exact ⟨List.Pairwise.sublist hsuf.sublist hi.1, fun x hx => hi.2 x (hsuf.subset hx)⟩

theorem indentRun_inv (pre : List ILine) : ∀ (st st' : ISt), st.Inv → indentRun st pre = .ok st' → st'.Inv := by
  induction pre with
  | nil => intro st st' hi h; simp [indentRun] at h; subst h; exact hi
  | cons l r ih =>
    intro st st' hi h
    simp only [indentRun] at h
    cases hstep : indentStep st 1 l with
    | error e => simp [hstep] at h
    | ok st1 =>
      simp only [hstep] at h
      exact ih st1 st' (indentStep_inv st st1 1 l hi hstep) h

/-- **Every state the line driver reaches from the start of a file has a `Chain` stack.** -/
theorem indentRun_chain (pre : List ILine) (st' : ISt) (h : indentRun .init pre = .ok st') : Chain st'.stack :=
  (indentRun_inv pre _ _ ISt.init_inv h).1

/-- a state is reachable if the line driver arrives in it after some newline-terminated lines of a file -/
def ISt.Reachable (st : ISt) : Prop := ∃ pre, indentRun .init pre = .ok st

theorem ISt.Reachable.inv {st : ISt} (h : st.Reachable) : st.Inv := by
  obtain ⟨pre, h⟩ := h
  exact indentRun_inv pre _ _ ISt.init_inv h

/-- `need` (the parser expects an `Indent`) is set exactly by an accepted opener line; blank and comment lines keep it -/
theorem indentStep_need (st st' : ISt) (nl : Nat) (l : ILine) (h : indentStep st nl l = .ok st') :
    st'.need = if l.kind = .blank || l.kind = .comment then st.need else l.kind == .opener := by
  unfold indentStep at h
  cases hs : scanWs 0 0 0 l.ws with
  | error i => simp [hs] at h
  | ok lvl =>
    by_cases hk : (l.kind = .blank || l.kind = .comment) = true
    · simp only [hs, hk, if_true] at h
      cases h; simp [hk]
    · cases hc : compareStrict lvl (st.stack.head?.getD ⟨0, 0⟩) with
      | none => simp [hs, hk, hc] at h
      | some o =>
        cases o with
        | eq =>
          cases hn : st.need <;> simp [hs, hk, hc, hn] at h
          cases h; simp [hk]
        | gt =>
          cases hn : st.need <;> simp [hs, hk, hc, hn] at h
          cases h; simp [hk]
        | lt =>
          cases hd : dedentGo lvl st.stack with
          | tabError => simp [hs, hk, hc, hd] at h
          | unknown => simp [hs, hk, hc, hd] at h
          | ok s =>
            cases hn : st.need <;> simp [hs, hk, hc, hn, hd] at h
            cases h; simp [hk]

/-! ### the rules for one line, in an arbitrary state -/

def ILine.isStmt (l : ILine) : Prop := l.kind = .opener ∨ l.kind = .simple

theorem ILine.isStmt.not_blank {l : ILine} (hk : l.isStmt) : (l.kind = .blank || l.kind = .comment) = false := by
  rcases hk with e | e <;> simp [e]

/-- tab/space inconsistency against the current level: `TabError` at the first token, whatever `need` is -/
theorem indentStep_inconsistent (st : ISt) (nl : Nat) (l : ILine) (lvl : Level) (hk : l.isStmt)
    (hs : scanWs 0 0 0 l.ws = .ok lvl) (hc : compareStrict lvl st.top = none) :
    indentStep st nl l = .error (.tab, st.pos + l.ws.length) := by
  unfold ISt.top at hc
  simp [indentStep, hs, hk.not_blank, hc]

/-- unexpected indent: strictly deeper than the current level although no block was opened; reported at the
    START of the line (the parser refuses the `Indent` token, whose range begins there) -/
theorem indentStep_unexpected (st : ISt) (nl : Nat) (l : ILine) (lvl : Level) (hk : l.isStmt)
    (hs : scanWs 0 0 0 l.ws = .ok lvl) (hn : st.need = false) (hc : compareStrict lvl st.top = some .gt) :
    indentStep st nl l = .error (.indentation, st.pos) := by
  unfold ISt.top at hc
  simp [indentStep, hs, hk.not_blank, hc, hn]

/-- expected indent: after an opener the next statement line must be strictly deeper; a line that is not
    (same level, or any dedent) is rejected as `Indentation` at its first token -/
theorem indentStep_expected (st : ISt) (nl : Nat) (l : ILine) (lvl : Level) (hk : l.isStmt)
    (hs : scanWs 0 0 0 l.ws = .ok lvl) (hn : st.need = true) (hch : Chain st.stack)
    (hcmp : ∀ x, x ∈ st.stack → compareStrict lvl x ≠ none) (hc : compareStrict lvl st.top ≠ some .gt) :
    indentStep st nl l = .error (.indentation, st.pos + l.ws.length) := by
  have hnt := (dedentGo_spec lvl st.stack hch hcmp).2.2
  unfold ISt.top at hc
  cases hc' : compareStrict lvl (st.stack.head?.getD ⟨0, 0⟩) with
  | none =>
    exfalso
    cases hst : st.stack with
    | nil =>
      rw [hst] at hc'
      rcases compareStrict_base lvl with h | h <;> simp [h] at hc'
    | cons top rest =>
      rw [hst] at hc'
      exact hcmp top (by simp [hst]) (by simpa using hc')
  | some o =>
    cases o with
    | gt => exact absurd hc' hc
    | eq => simp [indentStep, hs, hk.not_blank, hc', hn]
    | lt =>
      cases hd : dedentGo lvl st.stack with
      | tabError => exact absurd hd hnt
      | unknown => simp [indentStep, hs, hk.not_blank, hc', hd]
      | ok s => simp [indentStep, hs, hk.not_blank, hc', hd, hn]

/-- dedent to a level that is none of the enclosing ones -/
theorem indentStep_dedent_unknown (st : ISt) (nl : Nat) (l : ILine) (lvl : Level) (hk : l.isStmt)
    (hs : scanWs 0 0 0 l.ws = .ok lvl) (hch : Chain st.stack)
    (hcmp : ∀ x, x ∈ st.stack → compareStrict lvl x ≠ none)
    (hlt : compareStrict lvl st.top = some .lt) (hun : dedentUnknown lvl st.stack) :
    indentStep st nl l = .error (.indentation, st.pos + l.ws.length) := by
  have hd := ((dedentGo_spec lvl st.stack hch hcmp).1).2 hun
  unfold ISt.top at hlt
  simp [indentStep, hs, hk.not_blank, hlt, hd]

/-- a step that fails for every terminator length makes `indentGo` fail the same way -/
theorem indentGo_of_step_error (st : ISt) (nlLast : Bool) (l : ILine) (rest : List ILine) (e : Kind × Nat)
    (h : ∀ nl, indentStep st nl l = .error e) : st.go nlLast (l :: rest) = some e := by
  rw [indentGo_cons, h]

/-- where a state reached by a prefix run stands in the text: each line contributes its whitespace, its
    tokens and its newline -/
def ILine.len (l : ILine) : Nat := l.ws.length + l.kind.len + 1

theorem indentStep_pos (st st' : ISt) (nl : Nat) (l : ILine) (h : indentStep st nl l = .ok st') :
    st'.pos = st.pos + l.ws.length + l.kind.len + nl := by
  unfold indentStep at h
  cases hs : scanWs 0 0 0 l.ws with
  | error i => simp [hs] at h
  | ok lvl =>
    by_cases hk : (l.kind = .blank || l.kind = .comment) = true
    · simp only [hs, hk, if_true] at h
      cases h; rfl
    · cases hc : compareStrict lvl (st.stack.head?.getD ⟨0, 0⟩) with
      | none => simp [hs, hk, hc] at h
      | some o =>
        cases o with
        | eq =>
          cases hn : st.need <;> simp [hs, hk, hc, hn] at h
          cases h; rfl
        | gt =>
          cases hn : st.need <;> simp [hs, hk, hc, hn] at h
          cases h; rfl
        | lt =>
          cases hd : dedentGo lvl st.stack with
          | tabError => simp [hs, hk, hc, hd] at h
          | unknown => simp [hs, hk, hc, hd] at h
          | ok s =>
            cases hn : st.need <;> simp [hs, hk, hc, hn, hd] at h
            cases h; rfl

theorem indentRun_pos (pre : List ILine) : ∀ (st st' : ISt), indentRun st pre = .ok st' →
    st'.pos = st.pos + (pre.map ILine.len).sum := by
  induction pre with
  | nil => intro st st' h; simp [indentRun] at h; subst h; simp
  | cons l r ih =>
    intro st st' h
    simp only [indentRun] at h
    cases hstep : indentStep st 1 l with
    | error e => simp [hstep] at h
    | ok st1 =>
      simp only [hstep] at h
      rw [ih st1 st' h, indentStep_pos st st1 1 l hstep]
      simp [ILine.len]; omega

/-! ### the same rules for `indentGo` in an arbitrary state -/

theorem indentGo_inconsistent (stack : List Level) (need : Bool) (pos lastEnd : Nat) (nl : Bool)
    (l : ILine) (rest : List ILine) (lvl : Level) (hk : l.kind = .opener ∨ l.kind = .simple)
    (hs : scanWs 0 0 0 l.ws = .ok lvl) (hc : compareStrict lvl (stack.head?.getD ⟨0, 0⟩) = none) :
    indentGo stack need pos lastEnd nl (l :: rest) = some (.tab, pos + l.ws.length) :=
  indentGo_of_step_error ⟨stack, need, pos, lastEnd⟩ nl l rest _
    (fun n => indentStep_inconsistent ⟨stack, need, pos, lastEnd⟩ n l lvl hk hs hc)

theorem indentGo_unexpected_indent (stack : List Level) (pos lastEnd : Nat) (nl : Bool)
    (l : ILine) (rest : List ILine) (lvl : Level) (hk : l.kind = .opener ∨ l.kind = .simple)
    (hs : scanWs 0 0 0 l.ws = .ok lvl) (hc : compareStrict lvl (stack.head?.getD ⟨0, 0⟩) = some .gt) :
    indentGo stack false pos lastEnd nl (l :: rest) = some (.indentation, pos) :=
  indentGo_of_step_error ⟨stack, false, pos, lastEnd⟩ nl l rest _
    (fun n => indentStep_unexpected ⟨stack, false, pos, lastEnd⟩ n l lvl hk hs rfl hc)

theorem indentGo_expected_indent (stack : List Level) (pos lastEnd : Nat) (nl : Bool)
    (l : ILine) (rest : List ILine) (lvl : Level) (hk : l.kind = .opener ∨ l.kind = .simple)
    (hs : scanWs 0 0 0 l.ws = .ok lvl) (hch : Chain stack)
    (hcmp : ∀ x, x ∈ stack → compareStrict lvl x ≠ none)
    (hc : compareStrict lvl (stack.head?.getD ⟨0, 0⟩) ≠ some .gt) :
    indentGo stack true pos lastEnd nl (l :: rest) = some (.indentation, pos + l.ws.length) :=
  indentGo_of_step_error ⟨stack, true, pos, lastEnd⟩ nl l rest _
    (fun n => indentStep_expected ⟨stack, true, pos, lastEnd⟩ n l lvl hk hs rfl hch hcmp hc)

/-- end of input while a block is expected: `UnrecognizedEof`, reported as `Indentation` -/
theorem indentGo_expected_indent_eof (stack : List Level) (pos lastEnd : Nat) (nl : Bool) :
    indentGo stack true pos lastEnd nl [] = some (.indentation, if stack.isEmpty then lastEnd else pos) := by
  cases stack <;> simp [indentGo]

/-! ### the rules at file level: no hypothesis on the stack -/

theorem indentCheck_eq_go (ls : List ILine) (nlLast : Bool) : indentCheck ls nlLast = ISt.init.go nlLast ls := rfl

/-- **Decomposition of a whole file** at any line. -/
theorem indentCheck_split (pre : List ILine) (l : ILine) (rest : List ILine) (nlLast : Bool) :
    indentCheck (pre ++ l :: rest) nlLast =
      match indentRun .init pre with
      | .error e => some e
      | .ok st' => st'.go nlLast (l :: rest) := by
  rw [indentCheck_eq_go, indentGo_append _ _ _ _ (Or.inl (by simp))]

theorem indentCheck_of_step_error (pre : List ILine) (l : ILine) (rest : List ILine) (nlLast : Bool)
    (st' : ISt) (e : Kind × Nat) (hr : indentRun .init pre = .ok st')
    (h : ∀ nl, indentStep st' nl l = .error e) : indentCheck (pre ++ l :: rest) nlLast = some e := by
  rw [indentCheck_split, hr]
  exact indentGo_of_step_error st' nlLast l rest e h

/-- **Dedent rule, whole file.**  If the lines before `l` are accepted and leave the stack `top :: stack`, and the
    statement line `l` has a level below `top`, comparable with every enclosing level and equal to none of them
    (nor to the base level), the file is rejected as `Indentation` at the first token of `l`. -/
theorem indentCheck_dedent_unknown (pre : List ILine) (l : ILine) (rest : List ILine) (nlLast : Bool)
    (st' : ISt) (top : Level) (stack : List Level) (lvl : Level)
    (hr : indentRun .init pre = .ok st') (hst : st'.stack = top :: stack)
    (hk : l.kind = .opener ∨ l.kind = .simple) (hs : scanWs 0 0 0 l.ws = .ok lvl)
    (hcmp : ∀ x, x ∈ top :: stack → compareStrict lvl x ≠ none)
    (hlt : compareStrict lvl top = some .lt) (hun : dedentUnknown lvl (top :: stack)) :
    indentCheck (pre ++ l :: rest) nlLast = some (.indentation, st'.pos + l.ws.length) := by
  refine indentCheck_of_step_error pre l rest nlLast st' _ hr (fun n => ?_)
  refine indentStep_dedent_unknown st' n l lvl hk hs (indentRun_chain pre st' hr) ?_ ?_ ?_
  · rw [hst]; exact hcmp
  · simp [ISt.top, hst, hlt]
  · rw [hst]; exact hun

/-- **Expected indent, whole file.**  After an accepted prefix whose last statement line is an opener (`need`), a
    statement line that is comparable with every enclosing level and not strictly deeper than the current one is
    rejected as `Indentation` at its first token. -/
theorem indentCheck_expected_indent (pre : List ILine) (l : ILine) (rest : List ILine) (nlLast : Bool)
    (st' : ISt) (lvl : Level) (hr : indentRun .init pre = .ok st') (hn : st'.need = true)
    (hk : l.kind = .opener ∨ l.kind = .simple) (hs : scanWs 0 0 0 l.ws = .ok lvl)
    (hcmp : ∀ x, x ∈ st'.stack → compareStrict lvl x ≠ none)
    (hc : compareStrict lvl st'.top ≠ some .gt) :
    indentCheck (pre ++ l :: rest) nlLast = some (.indentation, st'.pos + l.ws.length) :=
  indentCheck_of_step_error pre l rest nlLast st' _ hr
    (fun n => indentStep_expected st' n l lvl hk hs hn (indentRun_chain pre st' hr) hcmp hc)

/-- **Unexpected indent, whole file**: strictly deeper than the current level without an opener before it;
    reported at the start of the line. -/
theorem indentCheck_unexpected_indent (pre : List ILine) (l : ILine) (rest : List ILine) (nlLast : Bool)
    (st' : ISt) (lvl : Level) (hr : indentRun .init pre = .ok st') (hn : st'.need = false)
    (hk : l.kind = .opener ∨ l.kind = .simple) (hs : scanWs 0 0 0 l.ws = .ok lvl)
    (hc : compareStrict lvl st'.top = some .gt) :
    indentCheck (pre ++ l :: rest) nlLast = some (.indentation, st'.pos) :=
  indentCheck_of_step_error pre l rest nlLast st' _ hr
    (fun n => indentStep_unexpected st' n l lvl hk hs hn hc)

/-- **Inconsistent tabs/spaces against the current level, whole file**: `Tab` at the first token. -/
theorem indentCheck_inconsistent (pre : List ILine) (l : ILine) (rest : List ILine) (nlLast : Bool)
    (st' : ISt) (lvl : Level) (hr : indentRun .init pre = .ok st')
    (hk : l.kind = .opener ∨ l.kind = .simple) (hs : scanWs 0 0 0 l.ws = .ok lvl)
    (hc : compareStrict lvl st'.top = none) :
    indentCheck (pre ++ l :: rest) nlLast = some (.tab, st'.pos + l.ws.length) :=
  indentCheck_of_step_error pre l rest nlLast st' _ hr
    (fun n => indentStep_inconsistent st' n l lvl hk hs hc)

/-- **Expected indent at the end of the file**: the last line (terminated or not) is accepted and leaves `need`. -/
theorem indentCheck_expected_indent_eof (pre : List ILine) (l : ILine) (nlLast : Bool) (st1 st' : ISt)
    (hr : indentRun .init pre = .ok st1) (hl : indentStep st1 (if nlLast then 1 else 0) l = .ok st')
    (hn : st'.need = true) :
    indentCheck (pre ++ [l]) nlLast =
      some (.indentation, if st'.stack.isEmpty then st'.lastEnd else st'.pos) := by
  rw [indentCheck_split, hr]
  simp only []
  rw [indentGo_cons]
  have : (if ([] : List ILine).isEmpty && !nlLast then 0 else 1) = (if nlLast then 1 else 0) := by
    cases nlLast <;> rfl
  rw [this, hl]
  simp only [ISt.go, hn]
  exact indentGo_expected_indent_eof _ _ _ _

/-! ### non-vacuity: concrete files through the theorems (hypotheses by `decide` / `rfl`) -/

section Examples

private def f := false
private def t := true

/-- `if x:` / `  if y:` / `    pass` : the state in front of the fourth line -/
example : indentRun .init [⟨[], .opener⟩, ⟨[f, f], .opener⟩, ⟨[f, f, f, f], .simple⟩] =
    .ok ⟨[⟨0, 4⟩, ⟨0, 2⟩], false, 23, 23⟩ := rfl

example : Chain [⟨0, 4⟩, ⟨0, 2⟩] :=
  indentRun_chain [⟨[], .opener⟩, ⟨[f, f], .opener⟩, ⟨[f, f, f, f], .simple⟩] ⟨_, false, 23, 23⟩ rfl

-- dedent to column 1 (enclosing: 4, 2, 0), followed by one more line
example : indentCheck ([⟨[], .opener⟩, ⟨[f, f], .opener⟩, ⟨[f, f, f, f], .simple⟩] ++ ⟨[f], .simple⟩ :: [⟨[], .simple⟩])
    true = some (.indentation, 24) :=
  indentCheck_dedent_unknown _ _ _ true ⟨[⟨0, 4⟩, ⟨0, 2⟩], false, 23, 23⟩ ⟨0, 4⟩ [⟨0, 2⟩] ⟨0, 1⟩
    rfl rfl (by decide) rfl (by decide) (by decide) (by unfold dedentUnknown; decide)

-- `if x:` / `  if y:` / comment / `  pass` : same level after an opener
example : indentCheck ([⟨[], .opener⟩, ⟨[f, f], .opener⟩, ⟨[f, f, f], .comment⟩] ++ ⟨[f, f], .simple⟩ :: []) false =
    some (.indentation, 21) :=
  indentCheck_expected_indent _ _ _ false ⟨[⟨0, 2⟩], true, 19, 14⟩ ⟨0, 2⟩
    rfl rfl (by decide) rfl (by decide) (by decide)

-- `if x:` / `  if y:` / `pass` : dedent to a KNOWN level after an opener is still "expected an indent"
example : indentCheck ([⟨[], .opener⟩, ⟨[f, f], .opener⟩] ++ ⟨[], .simple⟩ :: []) true = some (.indentation, 14) :=
  indentCheck_expected_indent _ _ _ true ⟨[⟨0, 2⟩], true, 14, 14⟩ ⟨0, 0⟩
    rfl rfl (by decide) rfl (by decide) (by decide)

-- `pass` / `if x:` / `  pass` / `    pass` : unexpected indent, reported at the start of the line (offset 18, not 22)
example : indentCheck ([⟨[], .simple⟩, ⟨[], .opener⟩, ⟨[f, f], .simple⟩] ++ ⟨[f, f, f, f], .simple⟩ :: []) true =
    some (.indentation, 18) :=
  indentCheck_unexpected_indent _ _ _ true ⟨[⟨0, 2⟩], false, 18, 18⟩ ⟨0, 4⟩
    rfl rfl (by decide) rfl (by decide)

-- `if x:` / `<8 spaces>if y:` / `<tab>pass` : one tab against eight spaces
example : indentCheck ([⟨[], .opener⟩, ⟨[f, f, f, f, f, f, f, f], .opener⟩] ++ ⟨[t], .simple⟩ :: [⟨[], .simple⟩]) true =
    some (.tab, 21) :=
  indentCheck_inconsistent _ _ _ true ⟨[⟨0, 8⟩], true, 20, 20⟩ ⟨1, 0⟩
    rfl (by decide) rfl (by decide)

-- `pass` / `if x:` / `  if y:` without a final newline: the block is missing at the end of the file
example : indentCheck ([⟨[], .simple⟩, ⟨[], .opener⟩] ++ [⟨[f, f], .opener⟩]) false = some (.indentation, 18) :=
  indentCheck_expected_indent_eof _ _ false ⟨[], true, 11, 11⟩ ⟨[⟨0, 2⟩], true, 18, 18⟩
    rfl rfl rfl

-- the arbitrary-state forms
example : indentGo [⟨0, 2⟩] true 14 14 true [⟨[f, f], .simple⟩] = some (.indentation, 16) :=
  indentGo_expected_indent _ _ _ _ _ _ ⟨0, 2⟩ (by decide) rfl (by simp [Chain]) (by decide) (by decide)
example : indentGo [] false 5 5 true [⟨[t], .simple⟩] = some (.indentation, 5) :=
  indentGo_unexpected_indent _ _ _ _ _ _ ⟨1, 0⟩ (by decide) rfl (by decide)
example : indentGo [⟨1, 0⟩] false 9 9 false [⟨[f, f], .simple⟩] = some (.tab, 11) :=
  indentGo_inconsistent _ _ _ _ _ _ _ ⟨0, 2⟩ (by decide) rfl (by decide)
example : indentGo [⟨0, 2⟩] true 14 14 false [] = some (.indentation, 14) := indentGo_expected_indent_eof _ _ _ _

-- decomposition and transitivity
example : indentCheck ([⟨[], .opener⟩, ⟨[f, f], .simple⟩] ++ ⟨[], .simple⟩ :: []) true =
    ISt.go ⟨[⟨0, 2⟩], false, 13, 13⟩ true [⟨[], .simple⟩] := by
  rw [indentCheck_split]; rfl
example : compareStrict ⟨2, 3⟩ ⟨1, 3⟩ = some .gt ∧ compareStrict ⟨1, 3⟩ ⟨1, 0⟩ = some .gt ∧
    compareStrict ⟨2, 3⟩ ⟨1, 0⟩ = some .gt := by decide

end Examples

/-! ### every rejection has one of the catalogue reasons -/

theorem compareStrict_gt_ne (a b : Level) (h : compareStrict a b = some .gt) : a ≠ b := by
  intro e
  rw [(compareStrict_eq_iff a b).2 e] at h
  cases h

theorem compareStrict_lt_ne (a b : Level) (h : compareStrict a b = some .lt) : a ≠ b := by
  intro e
  rw [(compareStrict_eq_iff a b).2 e] at h
  cases h

/-- a `TabError` of the dedent search comes from an enclosing level that is incomparable with the line's level -/
theorem dedentGo_tabError (lvl : Level) : ∀ (stack : List Level), dedentGo lvl stack = .tabError →
    ∃ x, x ∈ stack ∧ compareStrict lvl x = none := by
  intro stack
  induction stack with
  | nil =>
    intro h
    unfold dedentGo at h
    rcases compareStrict_base lvl with e | e <;> simp [e] at h
  | cons top rest ih =>
    intro h
    unfold dedentGo at h
    split at h
    · rename_i hc; exact ⟨top, List.mem_cons_self .., hc⟩
    · obtain ⟨x, hx, hn⟩ := ih h
      exact ⟨x, List.mem_cons_of_mem _ hx, hn⟩
    · cases h
    · cases h

/-- on a `Chain` stack the dedent search answers `unknown` only for a level that is none of the enclosing ones
    (no comparability hypothesis: what lies below the level that stopped the search is below the line too) -/
theorem dedentGo_unknown (lvl : Level) : ∀ (stack : List Level), Chain stack → dedentGo lvl stack = .unknown →
    dedentUnknown lvl stack := by
  intro stack
  induction stack with
  | nil =>
    intro _ h
    unfold dedentGo at h
    unfold dedentUnknown
    rcases compareStrict_base lvl with e | e
    · simp [e] at h
    · exact ⟨by simp, compareStrict_gt_ne_base _ _ e⟩
  | cons top rest ih =>
    intro hc h
    unfold dedentGo at h
    unfold dedentUnknown
    split at h
    · cases h
    · rename_i hlt
      have := ih (List.pairwise_cons.1 hc).2 h
      unfold dedentUnknown at this
      refine ⟨?_, this.2⟩
      intro hm
      rcases List.mem_cons.1 hm with e | hm
      · exact compareStrict_lt_ne _ _ hlt e
      · exact this.1 hm
    · cases h
    · rename_i hgt
      refine ⟨?_, compareStrict_gt_ne_base _ _ hgt⟩
      intro hm
      rcases List.mem_cons.1 hm with e | hm
      · exact compareStrict_gt_ne _ _ hgt e
      · exact compareStrict_gt_ne _ _ (compareStrict_gt_trans _ _ _ hgt ((List.pairwise_cons.1 hc).1 lvl hm)) rfl

/-- the reasons for which one line can be refused -/
inductive Reason (st : ISt) (l : ILine) : Kind × Nat → Prop
  | tabAfterSpace (i : Nat) : tabAfterSpace l.ws → l.ws[i]? = some true → Reason st l (.tab, st.pos + i)
  | inconsistent (lvl x : Level) : l.isStmt → scanWs 0 0 0 l.ws = .ok lvl → x ∈ st.stack →
      compareStrict lvl x = none → Reason st l (.tab, st.pos + l.ws.length)
  | expected (lvl : Level) : l.isStmt → scanWs 0 0 0 l.ws = .ok lvl → st.need = true →
      compareStrict lvl st.top ≠ some .gt → Reason st l (.indentation, st.pos + l.ws.length)
  | unexpected (lvl : Level) : l.isStmt → scanWs 0 0 0 l.ws = .ok lvl → st.need = false →
      compareStrict lvl st.top = some .gt → Reason st l (.indentation, st.pos)
  | dedentUnknown (lvl : Level) : l.isStmt → scanWs 0 0 0 l.ws = .ok lvl →
      compareStrict lvl st.top = some .lt → dedentUnknown lvl st.stack →
      Reason st l (.indentation, st.pos + l.ws.length)

theorem ILine.isStmt_of_not_blank {l : ILine} (hk : ¬ (l.kind = .blank || l.kind = .comment) = true) : l.isStmt := by
  unfold ILine.isStmt
  cases h : l.kind <;> simp_all

theorem head_incomparable (st : ISt) (lvl : Level) (h : compareStrict lvl st.top = none) :
    ∃ x, x ∈ st.stack ∧ compareStrict lvl x = none := by
  unfold ISt.top at h
  cases hst : st.stack with
  | nil =>
    rw [hst] at h
    rcases compareStrict_base lvl with e | e <;> simp [e] at h
  | cons top rest =>
    rw [hst] at h
    exact ⟨top, List.mem_cons_self .., by simpa using h⟩

/-- **No spurious rejection of a line.**  In a state with a `Chain` stack a refused line has one of the five reasons,
    and the error kind and offset are those of that reason. -/
theorem indentStep_error_reason (st : ISt) (nl : Nat) (l : ILine) (e : Kind × Nat) (hch : Chain st.stack)
    (h : indentStep st nl l = .error e) : Reason st l e := by
  unfold indentStep at h
  cases hs : scanWs 0 0 0 l.ws with
  | error i =>
    simp only [hs] at h
    cases h
    have := scanWs_error l.ws i hs
    exact .tabAfterSpace i this.2 this.1
  | ok lvl =>
    by_cases hk : (l.kind = .blank || l.kind = .comment) = true
    · simp [hs, hk] at h
    · have hst := ILine.isStmt_of_not_blank hk
      cases hc : compareStrict lvl (st.stack.head?.getD ⟨0, 0⟩) with
      | none =>
        simp [hs, hk, hc] at h
        subst h
        obtain ⟨x, hx, hn⟩ := head_incomparable st lvl hc
        exact .inconsistent lvl x hst hs hx hn
      | some o =>
        cases o with
        | eq =>
          cases hn : st.need <;> simp [hs, hk, hc, hn] at h
          subst h
          exact .expected lvl hst hs hn (by unfold ISt.top; rw [hc]; simp)
        | gt =>
          cases hn : st.need <;> simp [hs, hk, hc, hn] at h
          subst h
          exact .unexpected lvl hst hs hn hc
        | lt =>
          cases hd : dedentGo lvl st.stack with
          | tabError =>
            simp [hs, hk, hc, hd] at h
            subst h
            obtain ⟨x, hx, hn⟩ := dedentGo_tabError lvl st.stack hd
            exact .inconsistent lvl x hst hs hx hn
          | unknown =>
            simp [hs, hk, hc, hd] at h
            subst h
            exact .dedentUnknown lvl hst hs hc (dedentGo_unknown lvl st.stack hch hd)
          | ok s =>
            cases hn : st.need <;> simp [hs, hk, hc, hn, hd] at h
            subst h
            exact .expected lvl hst hs hn (by unfold ISt.top; rw [hc]; simp)

/-- the run over ALL lines of a file (the last line is terminated only if `nlLast`) -/
def indentAll (st : ISt) (nlLast : Bool) : List ILine → Except (Kind × Nat) ISt
  | [] => .ok st
  | l :: r =>
    match indentStep st (if r.isEmpty && !nlLast then 0 else 1) l with
    | .error e => .error e
    | .ok st' => indentAll st' nlLast r

/-- **`indentGo` as a fold.**  The driver refuses a file exactly when a line is refused by `indentStep`, or when all
    lines pass and a block is still expected at the end. -/
theorem indentGo_eq_all (nlLast : Bool) : ∀ (ls : List ILine) (st : ISt),
    st.go nlLast ls =
      match indentAll st nlLast ls with
      | .error e => some e
      | .ok st' =>
        if st'.need then some (.indentation, if st'.stack.isEmpty then st'.lastEnd else st'.pos) else none := by
  intro ls
  induction ls with
  | nil =>
    intro st
    simp only [indentAll, ISt.go]
    cases hn : st.need
    · simp [indentGo]
    · simp only [if_true]; exact indentGo_expected_indent_eof _ _ _ _
  | cons l r ih =>
    intro st
    rw [indentGo_cons]
    simp only [indentAll]
    cases hstep : indentStep st (if r.isEmpty && !nlLast then 0 else 1) l with
    | error e => rfl
    | ok st' => exact ih st'

theorem indentAll_inv (nlLast : Bool) : ∀ (ls : List ILine) (st st' : ISt), st.Inv →
    indentAll st nlLast ls = .ok st' → st'.Inv := by
  intro ls
  induction ls with
  | nil => intro st st' hi h; simp [indentAll] at h; subst h; exact hi
  | cons l r ih =>
    intro st st' hi h
    simp only [indentAll] at h
    cases hstep : indentStep st (if r.isEmpty && !nlLast then 0 else 1) l with
    | error e => rw [hstep] at h; cases h
    | ok st1 =>
      simp only [hstep] at h
      exact ih st1 st' (indentStep_inv st st1 _ l hi hstep) h

/-- a failing whole-file run fails at one line, after a prefix of newline-terminated lines that passes -/
theorem indentAll_error (nlLast : Bool) : ∀ (ls : List ILine) (st : ISt) (e : Kind × Nat),
    indentAll st nlLast ls = .error e →
    ∃ pre l rest st', ls = pre ++ l :: rest ∧ indentRun st pre = .ok st' ∧
      indentStep st' (if rest.isEmpty && !nlLast then 0 else 1) l = .error e := by
  intro ls
  induction ls with
  | nil => intro st e h; simp [indentAll] at h
  | cons l r ih =>
    intro st e h
    simp only [indentAll] at h
    cases hstep : indentStep st (if r.isEmpty && !nlLast then 0 else 1) l with
    | error e' =>
      simp only [hstep] at h
      cases h
      exact ⟨[], l, r, st, rfl, rfl, hstep⟩
    | ok st1 =>
      simp only [hstep] at h
      obtain ⟨pre, l', rest, st', hl, hr, he⟩ := ih st1 e h
      refine ⟨l :: pre, l', rest, st', by simp [hl], ?_, he⟩
      have : (if r.isEmpty && !nlLast then 0 else 1) = 1 := by
        subst hl; cases pre <;> simp
      rw [this] at hstep
      simp [indentRun, hstep, hr]

/-- **No spurious rejection of a file.**  Whenever the line driver refuses a file, either some line `l`, reached
    after an accepted prefix, has one of the five reasons of `Reason` (and kind and offset are those of the
    reason), or every line passes and the file ends where a block is expected. -/
theorem indentCheck_rejection_reason (ls : List ILine) (nlLast : Bool) (e : Kind × Nat)
    (h : indentCheck ls nlLast = some e) :
    (∃ pre l rest st', ls = pre ++ l :: rest ∧ indentRun .init pre = .ok st' ∧ Reason st' l e) ∨
    (∃ st', indentAll .init nlLast ls = .ok st' ∧ st'.need = true ∧
        e = (.indentation, if st'.stack.isEmpty then st'.lastEnd else st'.pos)) := by
  rw [indentCheck_eq_go, indentGo_eq_all] at h
  cases ha : indentAll .init nlLast ls with
  | error e' =>
    rw [ha] at h
    simp only [Option.some.injEq] at h
    subst h
    obtain ⟨pre, l, rest, st', hl, hr, he⟩ := indentAll_error nlLast ls _ _ ha
    exact Or.inl ⟨pre, l, rest, st', hl, hr, indentStep_error_reason st' _ l _ (indentRun_chain pre st' hr) he⟩
  | ok st' =>
    rw [ha] at h
    simp only at h
    cases hn : st'.need
    · simp [hn] at h
    · simp only [hn, if_true, Option.some.injEq] at h
      exact Or.inr ⟨st', rfl, hn, h.symm⟩

/-- acceptance: every line passes and no block is pending -/
theorem indentCheck_none_iff (ls : List ILine) (nlLast : Bool) :
    indentCheck ls nlLast = none ↔ ∃ st', indentAll .init nlLast ls = .ok st' ∧ st'.need = false := by
  rw [indentCheck_eq_go, indentGo_eq_all]
  cases ha : indentAll .init nlLast ls with
  | error e => simp
  | ok st' => cases hn : st'.need <;> simp [hn]

example : indentCheck [⟨[], .opener⟩, ⟨[false, false], .simple⟩, ⟨[], .comment⟩, ⟨[], .simple⟩] false = none :=
  (indentCheck_none_iff _ _).2 ⟨⟨[], false, 19, 19⟩, rfl, rfl⟩

example : Reason ⟨[⟨0, 4⟩, ⟨0, 2⟩], false, 23, 23⟩ ⟨[false], .simple⟩ (.indentation, 24) :=
  indentStep_error_reason _ 1 _ _ (by simp [Chain]; decide) rfl

example : indentCheck [⟨[], .opener⟩, ⟨[false, false], .opener⟩, ⟨[false, false, false, false], .simple⟩,
    ⟨[false], .simple⟩] true = some (.indentation, 24) := by decide
example := indentCheck_rejection_reason [⟨[], .opener⟩, ⟨[false, false], .opener⟩,
    ⟨[false, false, false, false], .simple⟩, ⟨[false], .simple⟩] true (.indentation, 24) (by decide)

end PV.C04
