import PV.C04.ProgLift
/-
  PV.C04.ProgRules — C04 at the level of the WHOLE PARSER (the program-level reference parser `PV.Prog.parseProgram`,
  tied to `rustpython_parser::parse` by C01's / PROG's `prog-*` correspondence streams).

  `PV.C04.Thm` shows that each rule-checking MECHANISM (`validate_pos_params`, `validate_arguments`, `parse_args`, the
  `=>?` actions) is equivalent to its rule on the data it receives.  This file shows that the parser CALLS the
  mechanism wherever the construct can stand, and that a refusal there is a refusal of the whole input:

      if the input has, at a position where the parser reads a parameter list / an argument list / a parenthesised
      atom / a pattern, a construct that breaks the rule, then `parseProgram` answers `none` — in every mode, with
      every fuel (`RejectedT`), so the rejection is never an out-of-fuel artefact.

  "At a position where the parser reads …" (the SITES, `PV.C04.ProgLift`):
    * `DefSite ts s`     — `s` follows `def NAME TypeParamList? (`, the `def` token ANYWHERE in `ts`: top level, `async def`,
                           decorated, methods, functions nested in suites of any depth;
    * `LambdaSite ts s`  — `s` follows a `lambda` token ANYWHERE in `ts` (defaults, arguments, displays, lambda bodies …);
    * `ArgSite ts s`     — `s` follows `class NAME TypeParamList? (` with the `class` token anywhere, or follows the `(` of a
                           call `NAME(.NAME)*(` at an `OperandSite`;
    * `OperandSite ts X` — `X` is read at the head of an expression statement at the start of the program or after any
                           NEWLINE / INDENT / DEDENT (i.e. in a suite of any depth), at the head of the value of an
                           assignment on such a line, after a `return` token anywhere, after an `@` token anywhere
                           (decorator / right operand of `@`);
    * `CaseSite ts X`    — `X` follows a `case` token anywhere.
  The lifting is the family of context lemmas `lambda_context`, `def_context`, `class_context`, `case_context`,
  `return_context`, `at_context`, `line_context` (`PV.C04.ProgLift`), all consequences of ONE induction over the 89
  functions of both reference parsers (`PV.C04.ProgSeg`: every consumed marker token is followed by something its
  production accepts; what follows a consumed line break is a clause keyword, a compound statement or an accepted line).

  What "contains a parameter list with two parameters of the same name" means is stated through the parser's own item
  loop (`parseTypedParams` / `parseParams`: the loop WITHOUT `validate_*`, which reads the list as `Arguments`), and for
  rules about a position inside the list through `TypedReach` / `LamReach` / `ArgsReach` ("the loop arrives in front of
  `X` having collected …").  `dup_param_items` gives the same for every list printed from items (no parser in the
  hypothesis).

  Where the code is laxer than CPython the CODE is mirrored and the witness given (`bare_star_then_kwargs_accepted`).
-/
set_option linter.unusedVariables false
namespace PV.C04.PR
open PV.Expr PV.C11 PV.Prog

/-! ## duplicate parameter names -/

/-- **C04 / duplicate parameter names, whole parser.**  If the item loop reads the parameter list at a `def` site
    (resp. a `lambda` site) as `a` and two of the names `validate_arguments` checks are equal, the program is rejected
    in every mode with every fuel. -/
theorem dup_param_rejected :
    (∀ (ts s : List Tok) (a : Arguments) (r : List Tok) (f0 : Nat), DefSite ts s →
        parseTypedParams f0 s {} 0 = some (a, r) → hasDup (argNames a) = true → RejectedT ts) ∧
    (∀ (ts s : List Tok) (ps : Params) (r : List Tok) (f0 : Nat), LambdaSite ts s →
        parseParams f0 s {} 0 = some (ps, r) → hasDup (lamNames ps) = true → RejectedT ts) := by
  refine ⟨fun ts s a r f0 site h hd => ?_, fun ts s ps r f0 site h hd => ?_⟩
  · exact defSite_rejected site (parameters_invalid_rejects h (by simp [validNames, hd]))
  · exact lambdaSite_rejected site (lambda_invalid_rejects h (by simp [validParamNames, lamNames] at hd ⊢; simp [hd]))


/-- the same for parameter lists given as ITEMS (no parser in the hypothesis): any list of items of the printer's
    fragment (`TItem`: parameters with annotations and defaults, `/`, `*`, `*args`, `**kw`, separated by commas) whose
    collected names repeat is rejected at every `def` site -/
theorem dup_param_items (ts : List Tok) (its : List TItem) (hg : ∀ i ∈ its, i.Good) (hne : its ≠ [])
    (a : Arguments) (ph : Nat) (hrun : runItems its ({}, 0) = some (a, ph)) (hb : Prog.bareStarOk a ph = true)
    (hd : hasDup (argNames a) = true) (rest : List Tok)
    (site : DefSite ts (sepBy tComma (its.map TItem.toks) ++ .op .rpar :: rest)) : RejectedT ts := by
  obtain ⟨n, hn⟩ := typedRT its hg {} 0 a ph rest hne hrun hb
  exact dup_param_rejected.1 ts _ a rest n site (hn n (Nat.le_refl n)) hd

/-! ## a parameter without default after one with default -/

/-- **C04 / non-default parameter after a default one (also across `/`), whole parser** -/
theorem default_order_rejected :
    (∀ (ts s : List Tok) (a : Arguments) (r : List Tok) (f0 : Nat), DefSite ts s →
        parseTypedParams f0 s {} 0 = some (a, r) → validPos (a.posonly ++ a.args) = false → RejectedT ts) ∧
    (∀ (ts s : List Tok) (ps : Params) (r : List Tok) (f0 : Nat), LambdaSite ts s →
        parseParams f0 s {} 0 = some (ps, r) → validPosParams (ps.posonly ++ ps.args) = false → RejectedT ts) := by
  refine ⟨fun ts s a r f0 site h hd => ?_, fun ts s ps r f0 site h hd => ?_⟩
  · exact defSite_rejected site (parameters_invalid_rejects h (by simp [hd]))
  · exact lambdaSite_rejected site (lambda_invalid_rejects h (by simp [hd]))

/-! ## a bare `*` with nothing after it -/

/-- **C04 / bare `*` as the last item, whole parser.**  The item loop arrives in front of `* )` or `* , )` (resp. `* :` /
    `* , :` in a lambda): rejected.  A following `**kw` is NOT this rule in the code (see the witness below). -/
theorem bare_star_rejected :
    (∀ (ts s X r : List Tok) (ps : Arguments) (ph : Nat), DefSite ts s → TypedReach s {} 0 X ps ph →
        (X = .op .star :: .op .rpar :: r ∨ X = .op .star :: .op .comma :: .op .rpar :: r) → RejectedT ts) ∧
    (∀ (ts s X r : List Tok) (ps : Params) (ph : Nat), LambdaSite ts s → LamReach s {} 0 X ps ph →
        (X = .op .star :: .op .colon :: r ∨ X = .op .star :: .op .comma :: .op .colon :: r) → RejectedT ts) := by
  refine ⟨fun ts s X r ps ph site hr hX => ?_, fun ts s X r ps ph site hr hX => ?_⟩
  · have hinv : PhaseInv ps ph := typedReach_inv hr (fun _ => ⟨rfl, rfl⟩)
    have hloop := typedReach_rejects hr (typedParams_bare_star_last hinv hX)
    refine defSite_rejected site (fun f => ?_)
    cases f with
    | zero => rfl
    | succ f =>
      have hne : ∀ r', s = .op .rpar :: r' → False := by
        intro r' hs; subst hs
        cases hr with
        | refl => rcases hX with h | h <;> simp at h
        | step hi _ _ => simp [typedItem] at hi
      rw [parseParameters.eq_3 _ _ hne]; simp [hloop f]
  · have hinv : LamInv ps ph := lamReach_inv hr (fun _ => ⟨rfl, rfl⟩)
    exact lambdaSite_rejected site (parseLambda_rejects_of_params (lamReach_rejects hr (params_bare_star_last hinv hX)))

/-! ## argument lists -/

/-- **C04 / positional argument after a keyword argument (or after `**`), whole parser** -/
theorem positional_after_keyword_rejected (ts s X : List Tok) (as : List Expr) (ks : List Keyword) (d : Bool)
    (site : ArgSite ts s) (hr : ArgsReach s [] [] false X as ks d) (hk : ks.isEmpty = false)
    (hX : positionalHead X = true) (hne : ∀ r, X = .op .rpar :: r → False) : RejectedT ts :=
  argSite_rejected site (positional_after_keyword_args hr (by intro h; simp [h] at hk) hX hne)

/-- **C04 / iterable unpacking `*` after `**` unpacking, whole parser** -/
theorem unpack_after_double_star_rejected (ts s X : List Tok) (as : List Expr) (ks : List Keyword)
    (site : ArgSite ts s) (hr : ArgsReach s [] [] false (.op .star :: X) as ks true) : RejectedT ts :=
  argSite_rejected site (unpack_after_double_star_args hr)

/-- **C04 / repeated keyword argument, whole parser** -/
theorem repeated_keyword_rejected (ts s X : List Tok) (n : Ident) (as : List Expr) (ks : List Keyword) (d : Bool)
    (site : ArgSite ts s) (hr : ArgsReach s [] [] false (.name n :: .op .assign :: X) as ks d)
    (hk : hasKw ks n = true) : RejectedT ts :=
  argSite_rejected site (repeated_keyword_args hr hk)

/-- what the collected state of `ArgsReach` means: a keyword argument `n = …` read earlier is remembered
    (`ks ≠ []`, `hasKw ks n`), a `**` argument read earlier sets the flag — and nothing is ever forgotten -/
theorem argsReach_remembers {s r X : List Tok} {f0 : Nat} {as0 as1 as : List Expr} {ks0 ks1 ks : List Keyword}
    {d0 d1 d : Bool} {A : List Tok}
    (h1 : parseArg f0 A as0 ks0 d0 = some (as1, ks1, d1, r)) (hr : ArgsReach r as1 ks1 d1 X as ks d) :
    (∀ n Y, A = .name n :: .op .assign :: Y → ks ≠ [] ∧ hasKw ks n = true) ∧
    (∀ Y, A = .op .dstar :: Y → ks ≠ [] ∧ d = true) := by
  have g := argsReach_grows hr
  refine ⟨fun n Y hA => ?_, fun Y hA => ?_⟩
  · subst hA
    have := parseArg_keyword_collects h1
    exact ⟨g.1 this.1, g.2.2 n this.2⟩
  · subst hA
    have := parseArg_dstar_collects h1
    exact ⟨g.1 this.1, g.2.1 this.2⟩

/-! ## a parenthesised lone `*` / `**` expression -/

/-- **C04 / `( * Expression )` and `( ** … )`, whole parser** -/
theorem paren_lone_star_rejected :
    (∀ (ts X r : List Tok) (e : Expr) (f0 : Nat), OperandSite ts (.op .lpar :: .op .star :: X) →
        parseBin 0 f0 X = some (e, .op .rpar :: r) → RejectedT ts) ∧
    (∀ (ts X : List Tok), OperandSite ts (.op .lpar :: .op .dstar :: X) → RejectedT ts) :=
  ⟨fun ts X r e f0 site h => operandSite_rejected site (paren_star_rejects h) rfl,
   fun ts X site => operandSite_rejected site (paren_dstar_rejects X) rfl⟩

/-! ## `as _` in a pattern -/

/-- **C04 / `case OrPattern as _`, whole parser** -/
theorem as_underscore_rejected (ts X r : List Tok) (p : Pattern) (t : Tok) (f0 : Nat) (site : CaseSite ts X)
    (h : parseOrPattern f0 X = some (p, t :: .name [95] :: r)) (ht : tk t = .hk .as) : RejectedT ts :=
  caseSite_rejected site (pattern_as_underscore_rejects h ht)

/-- **C04 / `as _` anywhere in the pattern of a `case`** — element of a sequence / class / group / or-pattern, at any
    depth of the pattern (and of the program): the tokens `P` between the `case` token and the `as` contain no `if` / `:` -/
theorem as_underscore_nested_rejected (ts X P rest : List Tok) (t : Tok) (site : CaseSite ts X)
    (hX : X = P ++ t :: .name [95] :: rest) (ht : tk t = .hk .as) (hP : ∀ h ∈ P, h ≠ .kw .if ∧ h ≠ .op .colon) :
    RejectedT ts := by
  obtain ⟨pre, c, hts, hc⟩ := site
  exact fun mode fuel => case_context hts hc (as_underscore_in_pattern_rejects hX ht hP) mode fuel

/-! ## the acceptance converse: the validation is the ONLY reason -/

/-- **`Parameters` answers exactly what the two validations say** about the list the item loop read: with distinct
    names and defaults in order the list is accepted (so the rejection theorems are not consequences of a parser that
    rejects everything) -/
theorem dup_param_only_reason (s : List Tok) (a : Arguments) (r : List Tok) (f0 : Nat)
    (h : parseTypedParams f0 s {} 0 = some (a, r)) :
    parseParameters (f0 + 1) s = if validPos (a.posonly ++ a.args) && validNames a then some (a, r) else none := by
  have hne : ∀ r', s = .op .rpar :: r' → False := by
    intro r' hs; subst hs
    cases f0 <;> simp [parseTypedParams] at h
  rw [parseParameters.eq_3 _ _ hne, h]

/-- … and a `def` whose header and body are otherwise well-formed is then accepted by `FuncDef` -/
theorem def_accepted_of_valid (f : Nat) (isAsync : Bool) (decos : List Expr) (n : Ident) (hd s r r6 : List Tok)
    (tps : List TypeParam) (a : Arguments) (body : List Stmt)
    (h1 : parseTypeParamsOpt f hd = some (tps, .op .lpar :: s))
    (h2 : parseTypedParams f s {} 0 = some (a, .op .colon :: r))
    (hv : validPos (a.posonly ++ a.args) = true) (hn : hasDup (argNames a) = false)
    (h3 : parseSuite (f + 1) r = some (body, r6)) :
    parseDef (f + 2) isAsync decos (.name n :: hd) =
      some (if isAsync then .asyncFunctionDef n a body decos none tps else .functionDef n a body decos none tps, r6) := by
  have hp := dup_param_only_reason s a _ f h2
  simp only [hv, validNames, hn, Bool.not_false, Bool.and_self, if_true] at hp
  have h1' : parseTypeParamsOpt (f + 1) hd = some (tps, .op .lpar :: s) := by
    rw [(progMono f).parseTypeParamsOpt hd (by simp [h1]), h1]
  unfold parseDef
  simp only [h1', hp, tk]
  cases isAsync <;> simp [h3]


/-! ## non-vacuity: concrete programs, rejected BY THE THEOREMS (each hypothesis by `rfl` / `decide`), and — as a cross-check
    of the statement — also by running `parseProgram` (`by rfl`) -/

def kwT (k : HK) : PTok := .e k.tok
def nmT (c : Nat) : PTok := .e (.name [c])
def opT (o : Op) : PTok := .e (.op o)
def lamT : PTok := .e (.kw .lambda)
def intT (n : Nat) : PTok := .e (.int n)
def ifT : PTok := .e (.kw .if)
def asyncT : PTok := .e (.kw .async)

/-- `class C:⏎  def m(a, a): pass⏎` — a method, one suite deep -/
def exDupMethod : List PTok :=
  [kwT .class, nmT 67, opT .colon, .newline, .indent,
   kwT .def, nmT 109, opT .lpar, nmT 97, opT .comma, nmT 97, opT .rpar, opT .colon, kwT .pass, .newline, .dedent]

theorem exDupMethod_rejected : RejectedT (exDupMethod.map PTok.toTok) := by
  apply dup_param_rejected.1 _ _ _ _ 60
    (DefSite.mk [HK.class.tok, .name [67], .op .colon, tNewline, tIndent] HK.def.tok [109] _ 1 [] rfl rfl rfl)
  · rfl
  · decide
example : parseProgram .module exDupMethod = none := (exDupMethod_rejected.program .module).1
example : parseProgram .module exDupMethod = none := by rfl

/-- `def g(q=lambda a, a: 0): pass⏎` — a lambda in a default value -/
def exDupLambda : List PTok :=
  [kwT .def, nmT 103, opT .lpar, nmT 113, opT .assign, lamT, nmT 97, opT .comma, nmT 97, opT .colon, intT 0, opT .rpar,
   opT .colon, kwT .pass, .newline]

theorem exDupLambda_rejected : RejectedT (exDupLambda.map PTok.toTok) := by
  apply dup_param_rejected.2 _ _ _ _ 60 ⟨[HK.def.tok, .name [103], .op .lpar, .name [113], .op .assign], rfl⟩
  · rfl
  · decide
example : parseProgram .module exDupLambda = none := (exDupLambda_rejected.program .module).1
example : parseProgram .module exDupLambda = none := by rfl

/-- `async def f(a=1, /, b): pass⏎` — across `/` -/
def exOrderAsync : List PTok :=
  [asyncT, kwT .def, nmT 102, opT .lpar, nmT 97, opT .assign, intT 1, opT .comma, opT .slash, opT .comma, nmT 98, opT .rpar,
   opT .colon, kwT .pass, .newline]

theorem exOrderAsync_rejected : RejectedT (exOrderAsync.map PTok.toTok) := by
  apply default_order_rejected.1 _ _ _ _ 60 (DefSite.mk [.kw .async] HK.def.tok [102] _ 1 [] rfl rfl rfl)
    (opt_pair_eq (by rfl) rfl)
  decide
example : parseProgram .module exOrderAsync = none := (exOrderAsync_rejected.program .module).1
example : parseProgram .module exOrderAsync = none := by rfl

/-- `x = [lambda a=1, b: 0]⏎` -/
def exOrderLambda : List PTok :=
  [nmT 120, opT .assign, opT .lsqb, lamT, nmT 97, opT .assign, intT 1, opT .comma, nmT 98, opT .colon, intT 0, opT .rsqb, .newline]

theorem exOrderLambda_rejected : RejectedT (exOrderLambda.map PTok.toTok) := by
  apply default_order_rejected.2 _ _ _ _ 60 ⟨[.name [120], .op .assign, .op .lsqb], rfl⟩ (opt_pair_eq (by rfl) rfl)
  decide
example : parseProgram .module exOrderLambda = none := (exOrderLambda_rejected.program .module).1

/-- `def f(a, *): pass⏎` -/
def exBareStar : List PTok :=
  [kwT .def, nmT 102, opT .lpar, nmT 97, opT .comma, opT .star, opT .rpar, opT .colon, kwT .pass, .newline]

theorem exBareStar_rejected : RejectedT (exBareStar.map PTok.toTok) := by
  apply bare_star_rejected.1 _ _ _ _ _ _ (DefSite.mk [] HK.def.tok [102] _ 1 [] rfl rfl rfl)
  · exact TypedReach.step (f0 := 5) rfl (by intro r h; cases h) (TypedReach.refl _ _ _)
  · exact Or.inl rfl
example : parseProgram .module exBareStar = none := (exBareStar_rejected.program .module).1
example : parseProgram .module exBareStar = none := by rfl

/-- `f(lambda *: 0)⏎` -/
def exBareStarLambda : List PTok :=
  [nmT 102, opT .lpar, lamT, opT .star, opT .colon, intT 0, opT .rpar, .newline]

theorem exBareStarLambda_rejected : RejectedT (exBareStarLambda.map PTok.toTok) := by
  apply bare_star_rejected.2 _ _ _ _ _ _ ⟨[.name [102], .op .lpar], rfl⟩ (LamReach.refl _ _ _)
  exact Or.inl rfl
example : parseProgram .module exBareStarLambda = none := (exBareStarLambda_rejected.program .module).1

/-- the code is laxer than CPython here, and the model mirrors the CODE: `def f(*, **k): pass` is ACCEPTED
    (CPython: "named arguments must follow bare *"; known finding of C01) — `bare_star_rejected` does not cover it -/
theorem bare_star_then_kwargs_accepted :
    (parseProgram .module [kwT .def, nmT 102, opT .lpar, opT .star, opT .comma, opT .dstar, nmT 107, opT .rpar, opT .colon,
      kwT .pass, .newline]).isSome = true := by rfl

/-- `if x:⏎  f(a=1, b)⏎` — a call statement in a suite -/
def exPosAfterKw : List PTok :=
  [ifT, nmT 120, opT .colon, .newline, .indent,
   nmT 102, opT .lpar, nmT 97, opT .assign, intT 1, opT .comma, nmT 98, opT .rpar, .newline, .dedent]

theorem exPosAfterKw_rejected : RejectedT (exPosAfterKw.map PTok.toTok) := by
  apply positional_after_keyword_rejected _ _ _ _ _ _
    (ArgSite.call [102] [] (OperandSite.stmt (Or.inr ⟨[.kw .if, .name [120], .op .colon, tNewline], tIndent, rfl, rfl⟩)))
    (ArgsReach.step (f0 := 60) (opt_quad_eq (by rfl) (by rfl)) (ArgsReach.refl _ _ _ _))
  · rfl
  · rfl
  · intro r h; cases h
example : parseProgram .module exPosAfterKw = none := (exPosAfterKw_rejected.program .module).1
example : parseProgram .module exPosAfterKw = none := by rfl

/-- `class A(k=1, B): pass⏎` -/
def exPosAfterKwClass : List PTok :=
  [kwT .class, nmT 65, opT .lpar, nmT 107, opT .assign, intT 1, opT .comma, nmT 66, opT .rpar, opT .colon, kwT .pass, .newline]

theorem exPosAfterKwClass_rejected : RejectedT (exPosAfterKwClass.map PTok.toTok) := by
  apply positional_after_keyword_rejected _ _ _ _ _ _
    (ArgSite.cls [] HK.class.tok [65] _ 1 [] rfl rfl rfl)
    (ArgsReach.step (f0 := 60) (opt_quad_eq (by rfl) (by rfl)) (ArgsReach.refl _ _ _ _))
  · rfl
  · rfl
  · intro r h; cases h
example : parseProgram .module exPosAfterKwClass = none := (exPosAfterKwClass_rejected.program .module).1

/-- `def g():⏎  return f(**k, *a)⏎` -/
def exStarAfterDstar : List PTok :=
  [kwT .def, nmT 103, opT .lpar, opT .rpar, opT .colon, .newline, .indent,
   kwT .return, nmT 102, opT .lpar, opT .dstar, nmT 107, opT .comma, opT .star, nmT 97, opT .rpar, .newline, .dedent]

theorem exStarAfterDstar_rejected : RejectedT (exStarAfterDstar.map PTok.toTok) := by
  apply unpack_after_double_star_rejected _ _ _ _ _
    (ArgSite.call [102] [] (OperandSite.ret
      [HK.def.tok, .name [103], .op .lpar, .op .rpar, .op .colon, tNewline, tIndent] HK.return.tok rfl rfl))
  exact ArgsReach.step (f0 := 60) (opt_quad_eq (by rfl) (by rfl)) (ArgsReach.refl _ _ _ _)
example : parseProgram .module exStarAfterDstar = none := (exStarAfterDstar_rejected.program .module).1
example : parseProgram .module exStarAfterDstar = none := by rfl

/-- `@d(a=1, a=2)⏎def f(): pass⏎` — a decorator -/
def exRepeatedKw : List PTok :=
  [opT .at, nmT 100, opT .lpar, nmT 97, opT .assign, intT 1, opT .comma, nmT 97, opT .assign, intT 2, opT .rpar, .newline,
   kwT .def, nmT 102, opT .lpar, opT .rpar, opT .colon, kwT .pass, .newline]

theorem exRepeatedKw_rejected : RejectedT (exRepeatedKw.map PTok.toTok) := by
  apply repeated_keyword_rejected _ _ _ _ _ _ _
    (ArgSite.call [100] [] (OperandSite.deco [] rfl))
    (ArgsReach.step (f0 := 60) (opt_quad_eq (by rfl) (by rfl)) (ArgsReach.refl _ _ _ _))
  rfl
example : parseProgram .module exRepeatedKw = none := (exRepeatedKw_rejected.program .module).1
example : parseProgram .module exRepeatedKw = none := by rfl

/-- `x = a.b(k=1, k=2)⏎` — the value of an assignment, callee with an attribute -/
def exRepeatedKwAssign : List PTok :=
  [nmT 120, opT .assign, nmT 97, opT .dot, nmT 98, opT .lpar, nmT 107, opT .assign, intT 1, opT .comma, nmT 107, opT .assign,
   intT 2, opT .rpar, .newline]

theorem exRepeatedKwAssign_rejected : RejectedT (exRepeatedKwAssign.map PTok.toTok) := by
  apply repeated_keyword_rejected _ _ _ _ _ _ _
    (ArgSite.call [97] [[98]] (OperandSite.assign _ _ _ 60 (Or.inl rfl) rfl rfl (opt_pair2_eq (by rfl) (by rfl))))
    (ArgsReach.step (f0 := 60) (opt_quad_eq (by rfl) (by rfl)) (ArgsReach.refl _ _ _ _))
  rfl
example : parseProgram .module exRepeatedKwAssign = none := (exRepeatedKwAssign_rejected.program .module).1

/-- `while x:⏎  (*a)⏎` and `y = (**a)⏎` -/
def exParenStar : List PTok :=
  [kwT .while, nmT 120, opT .colon, .newline, .indent, opT .lpar, opT .star, nmT 97, opT .rpar, .newline, .dedent]
def exParenDstar : List PTok := [nmT 121, opT .assign, opT .lpar, opT .dstar, nmT 97, opT .rpar, .newline]

theorem exParenStar_rejected : RejectedT (exParenStar.map PTok.toTok) := by
  apply paren_lone_star_rejected.1 _ _ _ _ 60
    (OperandSite.stmt (Or.inr ⟨[HK.while.tok, .name [120], .op .colon, tNewline], tIndent, rfl, rfl⟩))
  exact opt_pair_eq (by rfl) (by rfl)
theorem exParenDstar_rejected : RejectedT (exParenDstar.map PTok.toTok) :=
  paren_lone_star_rejected.2 _ _ (OperandSite.assign _ _ _ 60 (Or.inl rfl) rfl rfl (opt_pair2_eq (by rfl) (by rfl)))
example : parseProgram .module exParenStar = none := (exParenStar_rejected.program .module).1
example : parseProgram .module exParenDstar = none := (exParenDstar_rejected.program .module).1
example : parseProgram .module exParenStar = none := by rfl

/-- `match s:⏎  case x as _:⏎    pass⏎` -/
def exAsUnderscore : List PTok :=
  [kwT .match, nmT 115, opT .colon, .newline, .indent, kwT .case, nmT 120, kwT .as, nmT 95, opT .colon, .newline, .indent,
   kwT .pass, .newline, .dedent, .dedent]

theorem exAsUnderscore_rejected : RejectedT (exAsUnderscore.map PTok.toTok) := by
  apply as_underscore_rejected _ _ _ _ _ 60
    ⟨[HK.match.tok, .name [115], .op .colon, tNewline, tIndent], HK.case.tok, rfl, rfl⟩
  · exact opt_pair_eq (by rfl) (by rfl)
  · rfl
example : parseProgram .module exAsUnderscore = none := (exAsUnderscore_rejected.program .module).1
example : parseProgram .module exAsUnderscore = none := by rfl
/-- `match s:⏎  case [A(k=(x as _)), z]:⏎    pass⏎` — nested in a group, a keyword pattern, a class pattern, a sequence -/
def exAsUnderscoreNested : List PTok :=
  [kwT .match, nmT 115, opT .colon, .newline, .indent, kwT .case, opT .lsqb, nmT 65, opT .lpar, nmT 107, opT .assign, opT .lpar,
   nmT 120, kwT .as, nmT 95, opT .rpar, opT .rpar, opT .comma, nmT 122, opT .rsqb, opT .colon, .newline, .indent,
   kwT .pass, .newline, .dedent, .dedent]

theorem exAsUnderscoreNested_rejected : RejectedT (exAsUnderscoreNested.map PTok.toTok) := by
  apply as_underscore_nested_rejected _ _ [.op .lsqb, .name [65], .op .lpar, .name [107], .op .assign, .op .lpar, .name [120]]
    _ HK.as.tok ⟨[HK.match.tok, .name [115], .op .colon, tNewline, tIndent], HK.case.tok, rfl, rfl⟩ rfl rfl
  decide
example : parseProgram .module exAsUnderscoreNested = none := (exAsUnderscoreNested_rejected.program .module).1
example : parseProgram .module exAsUnderscoreNested = none := by rfl

/-- … while `case x as y` is accepted -/
example : (parseProgram .module
    [kwT .match, nmT 115, opT .colon, .newline, .indent, kwT .case, nmT 120, kwT .as, nmT 121, opT .colon, .newline, .indent,
     kwT .pass, .newline, .dedent, .dedent]).isSome = true := by rfl

/-- acceptance: `class C:⏎  def m(a, b=1): pass⏎` (the first example with distinct names) is accepted -/
example : (parseProgram .module
    [kwT .class, nmT 67, opT .colon, .newline, .indent,
     kwT .def, nmT 109, opT .lpar, nmT 97, opT .comma, nmT 98, opT .assign, intT 1, opT .rpar, opT .colon, kwT .pass,
     .newline, .dedent]).isSome = true := by rfl

/-- `dup_param_only_reason` on `a, b=1)`: the item loop reads it and the validations let it pass -/
example : ∃ a r, parseParameters 61 [.name [97], .op .comma, .name [98], .op .assign, .int 1, .op .rpar] = some (a, r) := by
  have h := dup_param_only_reason [.name [97], .op .comma, .name [98], .op .assign, .int 1, .op .rpar] _ _ 60 (opt_pair_eq (by rfl) rfl)
  rw [if_pos (by decide)] at h
  exact ⟨_, _, h⟩

/-- `dup_param_items`: the items `a, *a` printed at a `def` site, whatever follows the `)` -/
example (rest : List Tok) :
    RejectedT (HK.def.tok :: .name [102] :: .op .lpar ::
      (sepBy tComma ([TItem.par ⟨⟨[97], none⟩, none⟩, TItem.star (some ⟨[97], none⟩)].map TItem.toks) ++ .op .rpar :: rest)) := by
  apply dup_param_items _ [TItem.par ⟨⟨[97], none⟩, none⟩, TItem.star (some ⟨[97], none⟩)]
    (by intro i hi; simp at hi; rcases hi with rfl | rfl <;> simp [TItem.Good, AnnOK, GoodOpt])
    (by simp) _ _ rfl rfl (by decide) rest (DefSite.mk [] HK.def.tok [102] _ 1 [] rfl rfl rfl)

end PV.C04.PR
