import PV.C04.ProgSeg
import PV.Prog.RtParams
/-
  PV.C04.ProgLift — from "the checking mechanism rejects" to "the WHOLE PARSER rejects" (helper lemmas of
  `PV.C04.ProgRules`, which holds the property theorems).

  0. fuel: a call that succeeds with some fuel answers `none` or that same value with every fuel (from `c11Mono` / `progMono`);
  1. what `PV.C04.ProgSeg` gives for an accepted token sequence, position by position (`Seg.at`, `body_at`, `top_at`);
  2. the CONTEXT LEMMAS: `lambda_context`, `def_context`, `class_context`, `case_context`, `return_context`, `at_context`,
     `line_context` / `first_line_context` — if the one production that can read the tokens after a `lambda` / `def` /
     `class` / `case` / `return` / `@` token, or after a line break, rejects them with every fuel, `Top` rejects the
     program with every fuel, at ANY nesting depth;
  3. the sites: `Parameters` / `LambdaDef` with `validate_pos_params` / `validate_arguments` / the bare-star action
     (`TypedReach` / `LamReach`: the item loop arrives at …), `ArgumentList` with the checks of `parse_args` (`ArgsReach`),
     the parenthesised `*` / `**` atom, `as _`;
  4. head lifting: an operand that `AtomExpr2` rejects, at the head of an expression, makes every level of
     `Test … AtomExpr`, the statement-level lists, `ExpressionStatement`, `SmallStatement` and the line reject;
  5. the site predicates (`DefSite`, `LambdaSite`, `AfterBreak`, `RejectedT`).
-/
set_option linter.unusedSimpArgs false
set_option linter.unusedVariables false
set_option linter.unusedSectionVars false
namespace PV.C04.PR
open PV.Expr PV.C11 PV.Prog

/-! ## 0. fuel: a successful call fixes the answer for every fuel -/

theorem stable_of_mono {α : Type} (X : Nat → Option α) (mono : ∀ f, (X f).isSome = true → X (f + 1) = X f)
    {f0 : Nat} {v : α} (h : X f0 = some v) : ∀ k, X (f0 + k) = some v
  | 0 => h
  | k + 1 => by
    have ih := stable_of_mono X mono h k
    have := mono (f0 + k) (by simp [ih])
    rw [← Nat.add_assoc, this, ih]

/-- a call that succeeds with SOME fuel answers, with EVERY fuel, either `none` or that same value -/
theorem det_of_mono {α : Type} (X : Nat → Option α) (mono : ∀ f, (X f).isSome = true → X (f + 1) = X f)
    {f0 : Nat} {v : α} (h : X f0 = some v) (f : Nat) : X f = none ∨ X f = some v := by
  by_cases hle : f0 ≤ f
  · obtain ⟨k, rfl⟩ := Nat.exists_eq_add_of_le hle
    exact Or.inr (stable_of_mono X mono h k)
  · cases hx : X f with
    | none => exact Or.inl rfl
    | some w =>
      obtain ⟨k, rfl⟩ := Nat.exists_eq_add_of_le (Nat.le_of_lt (Nat.lt_of_not_le hle))
      have := stable_of_mono X mono hx k
      rw [h] at this
      exact Or.inr (by simp_all)

/-- a call that fails with EVERY fuel -/
def Rejects {α : Type} (X : Nat → Option α) : Prop := ∀ f, X f = none

/-! ## 1. what an accepted token sequence looks like at its marker tokens and after its line breaks -/

theorem endFlag_snoc (b : Bool) (p : List Tok) (t : Tok) : endFlag b (p ++ [t]) = isNL t := by
  rw [endFlag_append]; rfl

theorem allPos_at {b : Bool} {p : List Tok} {t : Tok} {q r : List Tok} (h : AllPos b (p ++ t :: q) r) :
    KwGood t (q ++ r) ∧ (endFlag b p = true → LineGood (t :: q ++ r)) := by
  have := ((allPos_append b p (t :: q) r).1 h).2
  exact ⟨this.1, this.2.1⟩

/-- **every consumed token of a successful call is good**: marker tokens are followed by what their production
    requires, and a token after a line break starts a `LineGood` rest -/
theorem Seg.at {b e : Bool} {ts r : List Tok} (h : Seg b ts e r) {p : List Tok} {t : Tok} {q : List Tok}
    (hts : ts = p ++ t :: q) (hlen : r.length ≤ q.length) :
    KwGood t q ∧ (endFlag b p = true → LineGood (t :: q)) := by
  obtain ⟨pre, rfl, g, _⟩ := h
  -- `r` is a suffix of `q`
  have hsuf : ∃ q', q = q' ++ r ∧ pre = p ++ t :: q' := by
    have h1 : (p ++ [t]) ++ q = pre ++ r := by simp [← hts]
    rcases List.append_eq_append_iff.mp h1 with ⟨a', ha, hb⟩ | ⟨c', ha, hb⟩
    · -- pre = p ++ [t] ++ a', q = a' ++ r
      exact ⟨a', hb, by simp [ha]⟩
    · -- p ++ [t] = pre ++ c', r = c' ++ q
      have : c' = [] := by
        have hl := congrArg List.length hb
        simp at hl
        cases c' with
        | nil => rfl
        | cons x c'' => simp at hl; omega
      subst this
      simp at ha hb
      exact ⟨[], by simp [hb], by simp [ha]⟩
  obtain ⟨q', rfl, rfl⟩ := hsuf
  simpa using allPos_at g

theorem body_at {f : Nat} {ts : List Tok} {v : List Stmt} (h : parseProgramBody f ts = some v)
    {p : List Tok} {t : Tok} {q : List Tok} (hts : ts = p ++ t :: q) :
    KwGood t q ∧ (endFlag true p = true → LineGood (t :: q)) :=
  Seg.at ((progSeg f).parseProgramBody ts v h) hts (by simp)


/-- in every mode: a token of an accepted sequence is good, or it is one of the NEWLINE tokens that may follow the
    expression of `Mode::Expression` -/
theorem top_at {mode : Mode} {fuel : Nat} {ts : List Tok} {m : Mod} (h : parseTopT mode fuel ts = some m)
    {p : List Tok} {t : Tok} {q : List Tok} (hts : ts = p ++ t :: q) :
    (KwGood t q ∧ (endFlag true p = true → mode ≠ .expression → LineGood (t :: q))) ∨ tk t = .newline := by
  cases mode with
  | module =>
    simp only [parseTopT] at h
    split at h
    · rename_i b hb; have := body_at hb hts; exact Or.inl ⟨this.1, fun h1 _ => this.2 h1⟩
    · simp at h
  | interactive =>
    simp only [parseTopT] at h
    split at h
    · rename_i b hb; have := body_at hb hts; exact Or.inl ⟨this.1, fun h1 _ => this.2 h1⟩
    · simp at h
  | expression =>
    simp only [parseTopT] at h
    split at h
    · rename_i e r he
      split at h
      · rename_i hall
        have hseg := parseTestListS_seg (progSeg fuel).parseCommaList ts e r he
        by_cases hlen : r.length ≤ q.length
        · exact Or.inl ⟨(Seg.at hseg hts hlen).1, fun _ hne => absurd rfl hne⟩
        · -- the token lies in the rest, which consists of NEWLINE tokens
          right
          obtain ⟨pre, hpre⟩ := hseg.suffix
          have hmem : t ∈ r := by
            have h1 : p ++ t :: q = pre ++ r := by rw [← hts, hpre]
            rcases List.append_eq_append_iff.mp h1 with ⟨a', ha, hb⟩ | ⟨c', ha, hb⟩
            · cases a' with
              | nil => simp at hb; rw [← hb]; simp
              | cons x a'' =>
                simp at hb
                have := congrArg List.length hb.2
                simp at this; omega
            · rw [hb]; simp
          simpa using List.all_eq_true.mp hall t hmem
      · simp at h
    · simp at h


/-! ## 2. the context lemmas: a sub-parser that rejects, at a position only it can read, rejects the program -/

theorem tk_lambda : tk (.kw .lambda) = .plain := by decide
theorem tk_at : tk (.op .at) = .plain := by decide

/-- **lambda, at any depth**: wherever a `lambda` token stands, if `LambdaDef` rejects what follows, so does `Top` -/
theorem lambda_context {ts pre s : List Tok} (hts : ts = pre ++ .kw .lambda :: s)
    (hr : ∀ f, parseLambda f s = none) (mode : Mode) (fuel : Nat) : parseTopT mode fuel ts = none := by
  apply Option.eq_none_iff_forall_ne_some.mpr
  intro m h
  rcases top_at h hts with ⟨g, _⟩ | hn
  · obtain ⟨f, hf⟩ := g.1 rfl
    simp [hr f] at hf
  · simp [tk_lambda] at hn

/-- **def / async def / decorated def / method, at any depth**: wherever a `def` token stands, if `FuncDef` rejects
    what follows (whatever the decorators and the `async` flag), so does `Top` -/
theorem def_context {ts pre s : List Tok} {t : Tok} (hts : ts = pre ++ t :: s) (ht : tk t = .hk .def)
    (hr : ∀ f a d, parseDef f a d s = none) (mode : Mode) (fuel : Nat) : parseTopT mode fuel ts = none := by
  apply Option.eq_none_iff_forall_ne_some.mpr
  intro m h
  rcases top_at h hts with ⟨g, _⟩ | hn
  · obtain ⟨f, a, d, hf⟩ := g.2.1 ht
    simp [hr f a d] at hf
  · simp [ht] at hn

/-- **class, at any depth** -/
theorem class_context {ts pre s : List Tok} {t : Tok} (hts : ts = pre ++ t :: s) (ht : tk t = .hk .class)
    (hr : ∀ f d, parseClass f d s = none) (mode : Mode) (fuel : Nat) : parseTopT mode fuel ts = none := by
  apply Option.eq_none_iff_forall_ne_some.mpr
  intro m h
  rcases top_at h hts with ⟨g, _⟩ | hn
  · obtain ⟨f, d, hf⟩ := g.2.2.1 ht
    simp [hr f d] at hf
  · simp [ht] at hn

/-- **case, at any depth**: `Patterns` must read what follows the `case` token up to an `if` or a `:` -/
theorem case_context {ts pre s : List Tok} {t : Tok} (hts : ts = pre ++ t :: s) (ht : tk t = .hk .case)
    (hr : ∀ f p r, parsePatterns f s ≠ some (p, .kw .if :: r) ∧ parsePatterns f s ≠ some (p, .op .colon :: r))
    (mode : Mode) (fuel : Nat) : parseTopT mode fuel ts = none := by
  apply Option.eq_none_iff_forall_ne_some.mpr
  intro m h
  rcases top_at h hts with ⟨g, _⟩ | hn
  · obtain ⟨f, p, r, hf | hf⟩ := g.2.2.2.1 ht
    · exact (hr f p r).1 hf
    · exact (hr f p r).2 hf
  · simp [ht] at hn

/-- **return, at any depth** -/
theorem return_context {ts pre s : List Tok} {t : Tok} (hts : ts = pre ++ t :: s) (ht : tk t = .hk .return)
    (hs : startsExpr s = true) (hr : ∀ f, parseTestListS f s = none) (mode : Mode) (fuel : Nat) :
    parseTopT mode fuel ts = none := by
  apply Option.eq_none_iff_forall_ne_some.mpr
  intro m h
  rcases top_at h hts with ⟨g, _⟩ | hn
  · rcases g.2.2.2.2.1 ht with h0 | ⟨f, hf⟩
    · simp [hs] at h0
    · simp [hr f] at hf
  · simp [ht] at hn

/-- **`@`, at any depth**: a decorator, or the right operand of the matrix-multiplication operator -/
theorem at_context {ts pre s : List Tok} (hts : ts = pre ++ .op .at :: s)
    (hr1 : ∀ f, parseNamedTest f s = none) (hr2 : ∀ f, parseFactor f s = none) (mode : Mode) (fuel : Nat) :
    parseTopT mode fuel ts = none := by
  apply Option.eq_none_iff_forall_ne_some.mpr
  intro m h
  rcases top_at h hts with ⟨g, _⟩ | hn
  · rcases g.2.2.2.2.2 rfl with ⟨f, hf⟩ | ⟨f, hf⟩
    · simp [hr1 f] at hf
    · simp [hr2 f] at hf
  · simp [tk_at] at hn

/-- what follows a NEWLINE / INDENT / DEDENT token is a statement (not a clause keyword, not the start of a compound
    statement, not another layout token) -/
def simpleStart (s : List Tok) : Bool := !structHead s && !startsCompound s

/-- **a simple-statement line, at any depth** (module and interactive mode): after any NEWLINE / INDENT / DEDENT token,
    if `parseSimpleLine` rejects the rest, so does `Top` -/
theorem line_context {ts pre s : List Tok} {n : Tok} (hts : ts = pre ++ n :: s) (hn : isNL n = true)
    (hs : simpleStart s = true) (hr : ∀ f, parseSimpleLine f s = none) (mode : Mode) (fuel : Nat) :
    parseTopT mode fuel ts = none := by
  apply Option.eq_none_iff_forall_ne_some.mpr
  intro m h
  simp only [simpleStart, Bool.and_eq_true, Bool.not_eq_true'] at hs
  cases s with
  | nil => simp [structHead] at hs
  | cons t q =>
    have hts' : ts = (pre ++ [n]) ++ t :: q := by simp [hts]
    have hnl : tk t ≠ .newline := by
      intro hc
      have := structHead_of_tk q hc (by simp)
      simp [this] at hs
    cases mode with
    | expression =>
      -- an expression never reads a layout token
      simp only [parseTopT] at h
      split at h
      · rename_i e r he
        split at h
        · rename_i hall
          have hseg := parseTestListS_seg (progSeg fuel).parseCommaList ts e r he
          obtain ⟨pre', rfl, g, hf⟩ := hseg
          -- `n` is consumed or in the rest; in both cases a contradiction
          have h1 : (pre ++ [n]) ++ t :: q = pre' ++ r := by rw [← hts']
          rcases List.append_eq_append_iff.mp h1 with ⟨a', ha, hb⟩ | ⟨c', ha, hb⟩
          · -- pre' = pre ++ [n] ++ a': the end flag or the obligation after `n`
            cases a' with
            | nil =>
              have := hf (by rw [ha]; simp [endFlag_snoc, hn])
              simp at this
            | cons x a'' =>
              simp at hb
              obtain ⟨rfl, rfl⟩ := hb
              rw [ha] at g
              have := (allPos_at (p := pre ++ [n]) (t := t) (q := a'') g).2 (by simp [endFlag_snoc, hn])
              rcases this with h0 | h0 | ⟨f, h0⟩
              · simp [structHead] at hs h0; simp_all
              · simp_all
              · simp [hr f] at h0
          · -- `t` lies in the rest
            have : t ∈ r := by rw [hb]; simp
            exact hnl (by simpa using List.all_eq_true.mp hall t this)
        · simp at h
      · simp at h
    | module =>
      rcases top_at h hts' with ⟨g, hl⟩ | hn'
      · rcases hl (by simp [endFlag_snoc, hn]) (by simp) with h0 | h0 | ⟨f, h0⟩
        · simp_all
        · simp_all
        · simp [hr f] at h0
      · exact hnl hn'
    | interactive =>
      rcases top_at h hts' with ⟨g, hl⟩ | hn'
      · rcases hl (by simp [endFlag_snoc, hn]) (by simp) with h0 | h0 | ⟨f, h0⟩
        · simp_all
        · simp_all
        · simp [hr f] at h0
      · exact hnl hn'

/-- the first line of a module -/
theorem first_line_context {ts : List Tok} (hs : simpleStart ts = true) (hr : ∀ f, parseSimpleLine f ts = none)
    (fuel : Nat) : parseProgramBody fuel ts = none := by
  apply Option.eq_none_iff_forall_ne_some.mpr
  intro v h
  simp only [simpleStart, Bool.and_eq_true, Bool.not_eq_true'] at hs
  cases ts with
  | nil => simp [structHead] at hs
  | cons t q =>
    rcases (body_at h (p := []) (t := t) (q := q) rfl).2 rfl with h0 | h0 | ⟨f, h0⟩
    · simp_all
    · simp_all
    · simp [hr f] at h0


/-! ## 3. the sites -/

/-! ### 3a. parameter lists of `def` -/

theorem det_typedParams {f0 : Nat} {s : List Tok} {a0 : Arguments} {ph : Nat} {v : Arguments × List Tok}
    (h : parseTypedParams f0 s a0 ph = some v) (f : Nat) :
    parseTypedParams f s a0 ph = none ∨ parseTypedParams f s a0 ph = some v :=
  det_of_mono (fun f => parseTypedParams f s a0 ph) (fun f => (progMono f).parseTypedParams s a0 ph) h f

theorem det_typeParamsOpt {f0 : Nat} {s : List Tok} {v : List TypeParam × List Tok}
    (h : parseTypeParamsOpt f0 s = some v) (f : Nat) :
    parseTypeParamsOpt f s = none ∨ parseTypeParamsOpt f s = some v :=
  det_of_mono (fun f => parseTypeParamsOpt f s) (fun f => (progMono f).parseTypeParamsOpt s) h f

/-- the item loop reads the list `s` (up to its closing parenthesis) as `a`, and `a` fails `validate_pos_params` or
    `validate_arguments`: `Parameters` rejects, with every fuel -/
theorem parameters_invalid_rejects {s : List Tok} {a : Arguments} {r : List Tok} {f0 : Nat}
    (h : parseTypedParams f0 s {} 0 = some (a, r))
    (hv : (validPos (a.posonly ++ a.args) && validNames a) = false) (f : Nat) : parseParameters f s = none := by
  cases f with
  | zero => rfl
  | succ f =>
    have hne : ∀ r', s = .op .rpar :: r' → False := by
      intro r' hs; subst hs
      cases f0 <;> simp [parseTypedParams] at h
    rw [parseParameters.eq_3 _ _ hne]
    rcases det_typedParams h f with h1 | h1 <;> simp [h1, hv]

/-- `FuncDef` after the `def` token: name, optional type parameters, `(`, then a parameter list that `Parameters` rejects -/
theorem parseDef_rejects_of_params {n : Ident} {hd s : List Tok} {tps : List TypeParam} {f1 : Nat}
    (hh : parseTypeParamsOpt f1 hd = some (tps, .op .lpar :: s))
    (hp : ∀ f, parseParameters f s = none) (f : Nat) (a : Bool) (d : List Expr) :
    parseDef f a d (.name n :: hd) = none := by
  cases f with
  | zero => simp [parseDef]
  | succ f =>
    unfold parseDef
    rcases det_typeParamsOpt hh f with h1 | h1 <;> simp [h1, hp f]


/-! ### bare `*` in a `def` -/

theorem mono_typedItem (f : Nat) (ts : List Tok) (ps : Arguments) (ph : Nat)
    (h : (typedItem f ts ps ph).isSome = true) : typedItem (f + 1) ts ps ph = typedItem f ts ps ph := by
  have hA := (progMono f).parseAnnOpt
  have hD := (progMono f).parseDefaultOpt
  unfold typedItem at h ⊢
  split
  · -- NAME
    rename_i n r
    by_cases hp : ph ≤ 2
    · simp only [hp, if_true] at h ⊢
      cases h1 : parseAnnOpt false f r with
      | none => simp [h1] at h
      | some v1 =>
        obtain ⟨an, r1⟩ := v1
        rw [hA false r (by simp [h1]), h1]
        simp only [h1] at h ⊢
        cases h2 : parseDefaultOpt f r1 with
        | none => simp [h2] at h
        | some v2 => rw [hD r1 (by simp [h2]), h2]
    · simp [hp] at h
  · rfl
  · rename_i n r
    by_cases hp : ph ≤ 1
    · simp only [hp, if_true] at h ⊢
      cases h1 : parseAnnOpt true f r with
      | none => simp [h1] at h
      | some v1 => rw [hA true r (by simp [h1]), h1]
    · simp [hp] at h
  · rfl
  · rename_i n r
    by_cases hp : ph ≤ 2
    · simp only [hp, if_true] at h ⊢
      cases h1 : parseAnnOpt false f r with
      | none => simp [h1] at h
      | some v1 => rw [hA false r (by simp [h1]), h1]
    · simp [hp] at h
  · rfl
  · rfl

theorem det_typedItem {f0 : Nat} {ts : List Tok} {ps : Arguments} {ph : Nat} {v : Arguments × Nat × List Tok}
    (h : typedItem f0 ts ps ph = some v) (f : Nat) : typedItem f ts ps ph = none ∨ typedItem f ts ps ph = some v :=
  det_of_mono (fun f => typedItem f ts ps ph) (fun f => mono_typedItem f ts ps ph) h f

/-- reading the typed parameter list `ts` from the state `(ps, ph)`, the item loop of `ParameterList` arrives in front of
    `X` with the state `(ps', ph')`: zero or more items, each followed by a comma that is not the trailing one -/
inductive TypedReach : List Tok → Arguments → Nat → List Tok → Arguments → Nat → Prop
  | refl (ts : List Tok) (ps : Arguments) (ph : Nat) : TypedReach ts ps ph ts ps ph
  | step {f0 : Nat} {ts : List Tok} {ps : Arguments} {ph : Nat} {ps1 : Arguments} {ph1 : Nat} {r X : List Tok}
      {ps2 : Arguments} {ph2 : Nat} :
      typedItem f0 ts ps ph = some (ps1, ph1, .op .comma :: r) → (∀ r', r = .op .rpar :: r' → False) →
      TypedReach r ps1 ph1 X ps2 ph2 → TypedReach ts ps ph X ps2 ph2

theorem typedReach_rejects {s X : List Tok} {ps ps' : Arguments} {ph ph' : Nat} (hr : TypedReach s ps ph X ps' ph')
    (hx : ∀ f, parseTypedParams f X ps' ph' = none) : ∀ f, parseTypedParams f s ps ph = none := by
  induction hr with
  | refl => exact hx
  | step hi hne _ ih =>
    intro f
    cases f with
    | zero => rfl
    | succ f =>
      rw [parseTypedParams_succ]
      rcases det_typedItem hi f with h1 | h1
      · simp [h1]
      · simp only [h1]
        exact ih hx f

/-- before `*` no `*args` and no keyword-only parameter has been collected -/
def PhaseInv (ps : Arguments) (ph : Nat) : Prop := ph ≤ 1 → ps.vararg = none ∧ ps.kwonly = []

theorem typedItem_inv {f : Nat} {ts : List Tok} {ps ps' : Arguments} {ph ph' : Nat} {r : List Tok}
    (h : typedItem f ts ps ph = some (ps', ph', r)) (hi : PhaseInv ps ph) : PhaseInv ps' ph' := by
  unfold typedItem at h
  split at h
  · split at h
    · split at h
      · split at h
        · split at h
          · simp at h; obtain ⟨rfl, rfl, _⟩ := h; intro hc; omega
          · simp at h; obtain ⟨rfl, rfl, _⟩ := h; intro hc; exact hi hc
        · simp at h
      · simp at h
    · simp at h
  · split at h
    · rename_i hc; simp at h; obtain ⟨rfl, rfl, _⟩ := h; intro _; exact hi (by omega)
    · simp at h
  · split at h
    · split at h
      · simp at h; obtain ⟨rfl, rfl, _⟩ := h; intro hc; omega
      · simp at h
    · simp at h
  · split at h
    · simp at h; obtain ⟨rfl, rfl, _⟩ := h; intro hc; omega
    · simp at h
  · split at h
    · split at h
      · simp at h; obtain ⟨rfl, rfl, _⟩ := h; intro hc; omega
      · simp at h
    · simp at h
  · split at h
    · simp at h; obtain ⟨rfl, rfl, _⟩ := h; intro hc; omega
    · simp at h
  · simp at h

theorem typedReach_inv {s X : List Tok} {ps ps' : Arguments} {ph ph' : Nat} (hr : TypedReach s ps ph X ps' ph')
    (hi : PhaseInv ps ph) : PhaseInv ps' ph' := by
  induction hr with
  | refl => exact hi
  | step h _ _ ih => exact ih (typedItem_inv h hi)

/-- the loop in front of a bare `*` that is the last item (`*)` or `*,)`): "named arguments must follow bare *" -/
theorem typedParams_bare_star_last {r : List Tok} {ps : Arguments} {ph : Nat} (hi : PhaseInv ps ph) {X : List Tok}
    (hX : X = .op .star :: .op .rpar :: r ∨ X = .op .star :: .op .comma :: .op .rpar :: r) (f : Nat) :
    parseTypedParams f X ps ph = none := by
  cases f with
  | zero => rfl
  | succ f =>
    rw [parseTypedParams_succ]
    by_cases hp : ph ≤ 1
    · obtain ⟨hv, hk⟩ := hi hp
      rcases hX with rfl | rfl <;> simp [typedItem, hp, Prog.bareStarOk, hv, hk]
    · rcases hX with rfl | rfl <;> simp [typedItem, hp]


/-! ### 3b. parameter lists of `lambda` -/

theorem det_params {f0 : Nat} {s : List Tok} {a0 : Params} {ph : Nat} {v : Params × List Tok}
    (h : parseParams f0 s a0 ph = some v) (f : Nat) :
    parseParams f s a0 ph = none ∨ parseParams f s a0 ph = some v :=
  det_of_mono (fun f => parseParams f s a0 ph) (fun f => (c11Mono f).parseParams s a0 ph) h f

/-- the item loop reads the list `s` (up to the `:`) as `ps`, and `ps` fails `validate_pos_params` or
    `validate_arguments`: `LambdaDef` rejects, with every fuel -/
theorem lambda_invalid_rejects {s : List Tok} {ps : Params} {r : List Tok} {f0 : Nat}
    (h : parseParams f0 s {} 0 = some (ps, r))
    (hv : (validPosParams (ps.posonly ++ ps.args) && validParamNames ps) = false) (f : Nat) : parseLambda f s = none := by
  cases f with
  | zero => simp [parseLambda]
  | succ f =>
    unfold parseLambda
    rcases det_params h f with h1 | h1
    · simp [h1]
    · simp only [h1]
      split
      · rename_i heq; simp at heq; obtain ⟨rfl, _⟩ := heq; simp [hv]
      · rfl

/-- the `item` step inside `PV.C11.parseParams` -/
def lamItem (f : Nat) (ts : List Tok) (ps : Params) (phase : Nat) : Option (Params × Nat × List Tok) :=
  match ts with
  | .name n :: .op .assign :: r =>
    if phase ≤ 2 then
      (match parseTest f r with
       | some (d, r') =>
         let a := Param.mk n (some d)
         if phase = 2 then some ({ ps with kwonly := ps.kwonly ++ [a] }, phase, r')
         else some ({ ps with args := ps.args ++ [a] }, phase, r')
       | none => none)
    else none
  | .name n :: r =>
    let a := Param.mk n none
    if phase = 2 then some ({ ps with kwonly := ps.kwonly ++ [a] }, phase, r)
    else if phase ≤ 1 then some ({ ps with args := ps.args ++ [a] }, phase, r)
    else none
  | .op .slash :: r =>
    if phase = 0 ∧ !ps.args.isEmpty then some ({ ps with posonly := ps.args, args := [] }, 1, r)
    else none
  | .op .star :: .name n :: r =>
    if phase ≤ 1 then some ({ ps with vararg := some n }, 2, r) else none
  | .op .star :: r =>
    if phase ≤ 1 then some (ps, 2, r) else none
  | .op .dstar :: .name n :: r =>
    if phase ≤ 2 then some ({ ps with kwarg := some n }, 3, r) else none
  | .op .dstar :: r =>
    if phase ≤ 2 then some (ps, 3, r) else none
  | _ => none

theorem parseParams_succ (f : Nat) (ts : List Tok) (ps : Params) (phase : Nat) (hne : ∀ r, ts = .op .colon :: r → False) :
    parseParams (f + 1) ts ps phase =
      match lamItem f ts ps phase with
      | none => none
      | some (ps', phase', r) =>
        match r with
        | .op .comma :: .op .colon :: r2 => if C11.bareStarOk ps' phase' then some (ps', .op .colon :: r2) else none
        | .op .comma :: r2 => parseParams f r2 ps' phase'
        | .op .colon :: r2 => if C11.bareStarOk ps' phase' then some (ps', .op .colon :: r2) else none
        | _ => none := by
  rw [parseParams.eq_def]
  split
  · rename_i h; simp at h
  · rename_i h _ _ _ _; exact absurd rfl (hne _)
  · rename_i heq _
    have : f = _ := Nat.succ.inj heq
    subst this
    rfl

theorem mono_lamItem (f : Nat) (ts : List Tok) (ps : Params) (ph : Nat)
    (h : (lamItem f ts ps ph).isSome = true) : lamItem (f + 1) ts ps ph = lamItem f ts ps ph := by
  have hT := (c11Mono f).parseTest
  unfold lamItem at h ⊢
  split
  · rename_i n r
    by_cases hp : ph ≤ 2
    · simp only [hp, if_true] at h ⊢
      cases h1 : parseTest f r with
      | none => simp [h1] at h
      | some v1 => rw [hT r (by simp [h1]), h1]
    · simp [hp] at h
  all_goals rfl

theorem det_lamItem {f0 : Nat} {ts : List Tok} {ps : Params} {ph : Nat} {v : Params × Nat × List Tok}
    (h : lamItem f0 ts ps ph = some v) (f : Nat) : lamItem f ts ps ph = none ∨ lamItem f ts ps ph = some v :=
  det_of_mono (fun f => lamItem f ts ps ph) (fun f => mono_lamItem f ts ps ph) h f

/-- reading the untyped parameter list `ts` from the state `(ps, ph)`, the item loop arrives in front of `X` with
    `(ps', ph')` -/
inductive LamReach : List Tok → Params → Nat → List Tok → Params → Nat → Prop
  | refl (ts : List Tok) (ps : Params) (ph : Nat) : LamReach ts ps ph ts ps ph
  | step {f0 : Nat} {ts : List Tok} {ps : Params} {ph : Nat} {ps1 : Params} {ph1 : Nat} {r X : List Tok}
      {ps2 : Params} {ph2 : Nat} :
      lamItem f0 ts ps ph = some (ps1, ph1, .op .comma :: r) → (∀ r', r = .op .colon :: r' → False) →
      LamReach r ps1 ph1 X ps2 ph2 → LamReach ts ps ph X ps2 ph2

theorem lamItem_colon (f : Nat) (r : List Tok) (ps : Params) (ph : Nat) : lamItem f (.op .colon :: r) ps ph = none := by
  simp [lamItem]

theorem lamReach_rejects {s X : List Tok} {ps ps' : Params} {ph ph' : Nat} (hr : LamReach s ps ph X ps' ph')
    (hx : ∀ f, parseParams f X ps' ph' = none) : ∀ f, parseParams f s ps ph = none := by
  induction hr with
  | refl => exact hx
  | step hi hne _ ih =>
    intro f
    cases f with
    | zero => simp [parseParams]
    | succ f =>
      rw [parseParams_succ]
      · rcases det_lamItem hi f with h1 | h1
        · simp [h1]
        · simp only [h1]
          exact ih hx f
      · intro r' hc; subst hc; simp [lamItem_colon] at hi

def LamInv (ps : Params) (ph : Nat) : Prop := ph ≤ 1 → ps.vararg = none ∧ ps.kwonly = []

theorem lamItem_inv {f : Nat} {ts : List Tok} {ps ps' : Params} {ph ph' : Nat} {r : List Tok}
    (h : lamItem f ts ps ph = some (ps', ph', r)) (hi : LamInv ps ph) : LamInv ps' ph' := by
  unfold lamItem at h
  split at h
  · split at h
    · split at h
      · split at h
        · simp at h; obtain ⟨rfl, rfl, _⟩ := h; intro hc; omega
        · simp at h; obtain ⟨rfl, rfl, _⟩ := h; intro hc; exact hi hc
      · simp at h
    · simp at h
  · split at h
    · simp at h; obtain ⟨rfl, rfl, _⟩ := h; intro hc; omega
    · split at h
      · simp at h; obtain ⟨rfl, rfl, _⟩ := h; intro hc; exact hi hc
      · simp at h
  · split at h
    · simp at h; obtain ⟨rfl, rfl, _⟩ := h; intro _; exact hi (by omega)
    · simp at h
  · split at h
    · simp at h; obtain ⟨rfl, rfl, _⟩ := h; intro hc; omega
    · simp at h
  · split at h
    · simp at h; obtain ⟨rfl, rfl, _⟩ := h; intro hc; omega
    · simp at h
  · split at h
    · simp at h; obtain ⟨rfl, rfl, _⟩ := h; intro hc; omega
    · simp at h
  · split at h
    · simp at h; obtain ⟨rfl, rfl, _⟩ := h; intro hc; omega
    · simp at h
  · simp at h

theorem lamReach_inv {s X : List Tok} {ps ps' : Params} {ph ph' : Nat} (hr : LamReach s ps ph X ps' ph')
    (hi : LamInv ps ph) : LamInv ps' ph' := by
  induction hr with
  | refl => exact hi
  | step h _ _ ih => exact ih (lamItem_inv h hi)

/-- the loop in front of a bare `*` that is the last item (`*:` or `*,:`) -/
theorem params_bare_star_last {r : List Tok} {ps : Params} {ph : Nat} (hi : LamInv ps ph) {X : List Tok}
    (hX : X = .op .star :: .op .colon :: r ∨ X = .op .star :: .op .comma :: .op .colon :: r) (f : Nat) :
    parseParams f X ps ph = none := by
  cases f with
  | zero => simp [parseParams]
  | succ f =>
    rw [parseParams_succ]
    · by_cases hp : ph ≤ 1
      · obtain ⟨hv, hk⟩ := hi hp
        rcases hX with rfl | rfl <;> simp [lamItem, hp, C11.bareStarOk, hv, hk]
      · rcases hX with rfl | rfl <;> simp [lamItem, hp]
    · intro r' hc; rcases hX with rfl | rfl <;> simp at hc

theorem parseLambda_rejects_of_params {s : List Tok} (hp : ∀ f, parseParams f s {} 0 = none) (f : Nat) :
    parseLambda f s = none := by
  cases f with
  | zero => simp [parseLambda]
  | succ f => unfold parseLambda; simp [hp f]


/-! ## 4. an operand that is rejected at the HEAD of an expression rejects the expression -/

/-- the first token lets every level of the chain `Test … AtomExpr` pass straight down to `AtomExpr2`: it is not
    `lambda`, `not`, a unary operator, `await`, `*`, and not a `NAME :=` -/
def plainHead : List Tok → Bool
  | .kw .lambda :: _ => false
  | .kw .not :: _ => false
  | .kw .await :: _ => false
  | .kw .yield :: _ => false
  | .op .plus :: _ => false
  | .op .minus :: _ => false
  | .op .tilde :: _ => false
  | .op .star :: _ => false
  | .name _ :: .op .walrus :: _ => false
  | _ => true

section Head
variable {ts : List Tok} (hA : ∀ f, parseAtomExpr2 f ts = none) (hp : plainHead ts = true)
include hA hp

theorem head_parseAtomExpr (f : Nat) : parseAtomExpr f ts = none := by
  cases f with
  | zero => simp [parseAtomExpr]
  | succ f =>
    unfold parseAtomExpr
    split
    · rfl
    · simp [plainHead] at hp
    · exact hA _

theorem head_parsePower (f : Nat) : parsePower f ts = none := by
  cases f with
  | zero => simp [parsePower]
  | succ f => unfold parsePower; simp [head_parseAtomExpr hA hp f]

theorem head_parseFactor (f : Nat) : parseFactor f ts = none := by
  cases f with
  | zero => simp [parseFactor]
  | succ f =>
    unfold parseFactor
    have : unaryOpAt ts = none := by
      unfold unaryOpAt
      split <;> simp_all [plainHead]
    simp [this, head_parsePower hA hp f]

theorem head_parseBin_aux : ∀ (k lvl : Nat), 5 ≤ lvl + k → ∀ f, parseBin lvl f ts = none
  | 0, lvl, h, f => by
    cases f with
    | zero => simp [parseBin]
    | succ f =>
      unfold parseBin
      have : lvl ≥ 5 := by omega
      simp [this, head_parseFactor hA hp f]
  | k + 1, lvl, h, f => by
    cases f with
    | zero => simp [parseBin]
    | succ f =>
      unfold parseBin
      by_cases hl : lvl ≥ 5
      · simp [hl, head_parseFactor hA hp f]
      · simp [hl, head_parseBin_aux k (lvl + 1) (by omega) f]

theorem head_parseBin (lvl f : Nat) : parseBin lvl f ts = none :=
  head_parseBin_aux hA hp 5 lvl (by omega) f

theorem head_parseCmp (f : Nat) : parseCmp f ts = none := by
  cases f with
  | zero => simp [parseCmp]
  | succ f => unfold parseCmp; simp [head_parseBin hA hp 0 f]

theorem head_parseNotTest (f : Nat) : parseNotTest f ts = none := by
  cases f with
  | zero => simp [parseNotTest]
  | succ f =>
    unfold parseNotTest
    split
    · rfl
    · simp [plainHead] at hp
    · exact head_parseCmp hA hp _

theorem head_parseAndTest (f : Nat) : parseAndTest f ts = none := by
  cases f with
  | zero => simp [parseAndTest]
  | succ f => unfold parseAndTest; simp [head_parseNotTest hA hp f]

theorem head_parseOrTest (f : Nat) : parseOrTest f ts = none := by
  cases f with
  | zero => simp [parseOrTest]
  | succ f => unfold parseOrTest; simp [head_parseAndTest hA hp f]

theorem head_parseTest (f : Nat) : parseTest f ts = none := by
  cases f with
  | zero => simp [parseTest]
  | succ f =>
    unfold parseTest
    split
    · rfl
    · simp [plainHead] at hp
    · rw [head_parseOrTest hA hp]

theorem head_parseNamedTest (f : Nat) : parseNamedTest f ts = none := by
  cases f with
  | zero => simp [parseNamedTest]
  | succ f =>
    unfold parseNamedTest
    split
    · rfl
    · simp [plainHead] at hp
    · exact head_parseTest hA hp _

theorem head_parseStarOrNamed (f : Nat) : parseStarOrNamed f ts = none := by
  cases f with
  | zero => simp [parseStarOrNamed]
  | succ f =>
    unfold parseStarOrNamed
    split
    · rfl
    · simp [plainHead] at hp
    · exact head_parseNamedTest hA hp _

theorem head_parseTestOrStar (f : Nat) : parseTestOrStar f ts = none := by
  cases f with
  | zero => simp [parseTestOrStar]
  | succ f =>
    unfold parseTestOrStar
    split
    · rfl
    · simp [plainHead] at hp
    · exact head_parseTest hA hp _

theorem head_parseExprOrStar (f : Nat) : parseExprOrStar f ts = none := by
  cases f with
  | zero => simp [parseExprOrStar]
  | succ f =>
    unfold parseExprOrStar
    split
    · rfl
    · simp [plainHead] at hp
    · exact head_parseBin hA hp 0 _

theorem head_parseElem (ek : EK) (f : Nat) : parseElem ek f ts = none := by
  cases ek <;> simp only [parseElem]
  · exact head_parseTestOrStar hA hp f
  · exact head_parseExprOrStar hA hp f
  · exact head_parseStarOrNamed hA hp f
  · exact head_parseTest hA hp f

theorem head_parseCommaList (ek : EK) (f : Nat) : parseCommaList ek f ts = none := by
  cases f with
  | zero => simp [parseCommaList]
  | succ f => unfold parseCommaList; simp [head_parseElem hA hp ek f]

theorem head_parseTestListS (f : Nat) : parseTestListS f ts = none := by
  unfold parseTestListS; simp [head_parseCommaList hA hp .testOrStar f]

theorem head_parseTestListOrYield (f : Nat) : parseTestListOrYield f ts = none := by
  cases f with
  | zero => simp [parseTestListOrYield]
  | succ f =>
    unfold parseTestListOrYield
    split
    · rfl
    · simp [plainHead] at hp
    · exact head_parseTestListS hA hp _

theorem head_parseExprStmt (f : Nat) : parseExprStmt f ts = none := by
  cases f with
  | zero => simp [parseExprStmt]
  | succ f => unfold parseExprStmt; simp [head_parseCommaList hA hp .testOrStar f]

end Head


/-- the first token sends `SmallStatement` to `ExpressionStatement` -/
def stmtPlainHead : List Tok → Bool
  | [] => false
  | .kw .from :: _ => false
  | .kw .yield :: _ => false
  | t :: _ => tk t == .plain

theorem stmtPlainHead_spec {ts : List Tok} (hs : stmtPlainHead ts = true) :
    ∃ t r, ts = t :: r ∧ t ≠ .kw .from ∧ t ≠ .kw .yield ∧ tk t = .plain := by
  unfold stmtPlainHead at hs
  split at hs
  · simp at hs
  · simp at hs
  · simp at hs
  · rename_i t r h1 h2
    exact ⟨t, r, rfl, by simp_all, by simp_all, by simpa using hs⟩

theorem parseSmall_of_plain {ts : List Tok} (hs : stmtPlainHead ts = true) (f : Nat) :
    parseSmall (f + 1) ts = parseExprStmt f ts := by
  obtain ⟨t, r, rfl, h1, h2, h3⟩ := stmtPlainHead_spec hs
  unfold parseSmall
  split
  · rename_i h; simp at h
  · rename_i h; simp at h
  · rename_i h; simp at h; exact absurd h.1 h2
  · rename_i h; simp at h; exact absurd h.1 h1
  · simp_all

section Head2
variable {ts : List Tok} (hA : ∀ f, parseAtomExpr2 f ts = none) (hp : plainHead ts = true)
  (hs : stmtPlainHead ts = true)
include hA hp hs

theorem head_parseSmall (f : Nat) : parseSmall f ts = none := by
  cases f with
  | zero => simp [parseSmall]
  | succ f => rw [parseSmall_of_plain hs]; exact head_parseExprStmt hA hp f

/-- **an expression statement whose first operand is rejected**: `parseSimpleLine` rejects the line -/
theorem head_parseSimpleLine (f : Nat) : parseSimpleLine f ts = none := by
  cases f with
  | zero => simp [parseSimpleLine]
  | succ f => unfold parseSimpleLine; simp [head_parseSmall hA hp hs f]

end Head2

/-- split the unfolded hypothesis completely and close every branch by simplification -/
macro "rej_step" h:ident : tactic => `(tactic|
  (repeat' (first | split_any | (simp only [] at $h:ident))
   all_goals (try subst_vars)
   all_goals (try (simp_all; done))))

/-! ### 3c. argument lists (`ArgumentList` with the checks of `parse_args`) -/

theorem det_parseArg {f0 : Nat} {ts : List Tok} {as : List Expr} {ks : List Keyword} {d : Bool}
    {v : List Expr × List Keyword × Bool × List Tok} (h : parseArg f0 ts as ks d = some v) (f : Nat) :
    parseArg f ts as ks d = none ∨ parseArg f ts as ks d = some v :=
  det_of_mono (fun f => parseArg f ts as ks d) (fun f => (c11Mono f).parseArg ts as ks d) h f

theorem atomExpr2_rpar (r : List Tok) (f : Nat) : parseAtomExpr2 f (.op .rpar :: r) = none := by
  cases f with
  | zero => simp [parseAtomExpr2]
  | succ f =>
    unfold parseAtomExpr2
    cases f with
    | zero => simp [parseAtom]
    | succ f => simp [parseAtom]

theorem parseArg_rpar (f : Nat) (r : List Tok) (as : List Expr) (ks : List Keyword) (d : Bool) :
    parseArg f (.op .rpar :: r) as ks d = none := by
  cases f with
  | zero => simp [parseArg]
  | succ f =>
    unfold parseArg
    simp [head_parseNamedTest (atomExpr2_rpar r) rfl f]

/-- reading the argument list `ts` with the arguments `as` / `ks` collected so far (`d`: a `**` argument has been seen),
    the loop arrives in front of `X` with `as'` / `ks'` / `d'`: zero or more arguments, each followed by a comma -/
inductive ArgsReach : List Tok → List Expr → List Keyword → Bool → List Tok → List Expr → List Keyword → Bool → Prop
  | refl (ts : List Tok) (as : List Expr) (ks : List Keyword) (d : Bool) : ArgsReach ts as ks d ts as ks d
  | step {f0 : Nat} {ts : List Tok} {as : List Expr} {ks : List Keyword} {d : Bool} {as1 : List Expr}
      {ks1 : List Keyword} {d1 : Bool} {r X : List Tok} {as2 : List Expr} {ks2 : List Keyword} {d2 : Bool} :
      parseArg f0 ts as ks d = some (as1, ks1, d1, .op .comma :: r) →
      ArgsReach r as1 ks1 d1 X as2 ks2 d2 → ArgsReach ts as ks d X as2 ks2 d2

/-- an argument that `FunctionArgument` + `parse_args` refuse (with every fuel) makes `ArgumentList` refuse the list -/
theorem argsReach_rejects {s X : List Tok} {as as' : List Expr} {ks ks' : List Keyword} {d d' : Bool}
    (hr : ArgsReach s as ks d X as' ks' d') (hx : ∀ f, parseArg f X as' ks' d' = none)
    (hX : ∀ r, X = .op .rpar :: r → False) : ∀ f, parseArgs f s as ks d = none := by
  induction hr with
  | refl ts as ks d =>
    intro f
    cases f with
    | zero => simp [parseArgs]
    | succ f => rw [parseArgs.eq_3 _ _ _ _ _ hX]; simp [hx f]
  | step hi _ ih =>
    intro f
    cases f with
    | zero => simp [parseArgs]
    | succ f =>
      rw [parseArgs.eq_3 _ _ _ _ _ (by intro r' hc; subst hc; simp [parseArg_rpar] at hi)]
      rcases det_parseArg hi f with h1 | h1
      · simp [h1]
      · simp [h1, ih hx hX f]

/-- `name` is among the keyword arguments collected -/
def hasKw (ks : List Keyword) (n : Ident) : Bool := ks.any (fun | .mk (some m) _ => m == n | _ => false)

/-- a token list that `FunctionArgument` reads through its last alternative (a positional argument) -/
def positionalHead : List Tok → Bool
  | .name _ :: .op .assign :: _ => false
  | .op .star :: _ => false
  | .op .dstar :: _ => false
  | _ => true

/-- **positional argument follows keyword argument** (also after `**`): refused whatever the expression is -/
theorem parseArg_positional_after_keyword {X : List Tok} {as : List Expr} {ks : List Keyword} {d : Bool}
    (hk : ks ≠ []) (hX : positionalHead X = true) (f : Nat) : parseArg f X as ks d = none := by
  apply Option.eq_none_iff_forall_ne_some.mpr
  intro v h
  cases f with
  | zero => simp [parseArg] at h
  | succ f =>
    unfold parseArg at h
    rej_step h
    all_goals simp_all [positionalHead]

/-- **iterable argument unpacking follows keyword argument unpacking** -/
theorem parseArg_star_after_dstar {X : List Tok} {as : List Expr} {ks : List Keyword} (f : Nat) :
    parseArg f (.op .star :: X) as ks true = none := by
  apply Option.eq_none_iff_forall_ne_some.mpr
  intro v h
  cases f with
  | zero => simp [parseArg] at h
  | succ f =>
    unfold parseArg at h
    rej_step h

/-- **keyword argument repeated** -/
theorem parseArg_repeated_keyword {X : List Tok} {n : Ident} {as : List Expr} {ks : List Keyword} {d : Bool}
    (hk : hasKw ks n = true) (f : Nat) : parseArg f (.name n :: .op .assign :: X) as ks d = none := by
  apply Option.eq_none_iff_forall_ne_some.mpr
  intro v h
  cases f with
  | zero => simp [parseArg] at h
  | succ f =>
    unfold parseArg at h
    simp only [hasKw] at hk
    rej_step h
    all_goals (exact absurd hk ‹_›)

/-! what the collected state says about the arguments read so far -/

theorem parseArg_grows {f : Nat} {ts r : List Tok} {as as' : List Expr} {ks ks' : List Keyword} {d d' : Bool}
    (h : parseArg f ts as ks d = some (as', ks', d', r)) :
    (ks ≠ [] → ks' ≠ []) ∧ (d = true → d' = true) ∧ (∀ n, hasKw ks n = true → hasKw ks' n = true) := by
  cases f with
  | zero => simp [parseArg] at h
  | succ f =>
    unfold parseArg at h
    repeat' (first | split_any | (simp only [] at h))
    all_goals (try subst_vars)
    all_goals (try (simp at h; done))
    all_goals (simp only [Option.some.injEq, Prod.mk.injEq] at h)
    all_goals (obtain ⟨_, rfl, rfl, _⟩ := h)
    all_goals (refine ⟨by simp, by simp, fun n hn => ?_⟩)
    all_goals (try exact hn)
    all_goals (simp [hasKw] at hn ⊢; first | exact hn | exact Or.inl hn)

theorem argsReach_grows {s X : List Tok} {as as' : List Expr} {ks ks' : List Keyword} {d d' : Bool}
    (hr : ArgsReach s as ks d X as' ks' d') :
    (ks ≠ [] → ks' ≠ []) ∧ (d = true → d' = true) ∧ (∀ n, hasKw ks n = true → hasKw ks' n = true) := by
  induction hr with
  | refl => exact ⟨id, id, fun _ => id⟩
  | step h _ ih =>
    have g := parseArg_grows h
    exact ⟨fun a => ih.1 (g.1 a), fun a => ih.2.1 (g.2.1 a), fun n a => ih.2.2 n (g.2.2 n a)⟩

/-- after a keyword argument `n = …` the name is collected -/
theorem parseArg_keyword_collects {f : Nat} {X r : List Tok} {n : Ident} {as as' : List Expr} {ks ks' : List Keyword}
    {d d' : Bool} (h : parseArg f (.name n :: .op .assign :: X) as ks d = some (as', ks', d', r)) :
    ks' ≠ [] ∧ hasKw ks' n = true := by
  cases f with
  | zero => simp [parseArg] at h
  | succ f =>
    unfold parseArg at h
    split at h
    · split at h
      · simp at h
      · simp at h; obtain ⟨_, rfl, _, _⟩ := h; simp [hasKw]
    · simp at h

/-- after a `**` argument the flag is set (and the keyword list is not empty) -/
theorem parseArg_dstar_collects {f : Nat} {X r : List Tok} {as as' : List Expr} {ks ks' : List Keyword}
    {d d' : Bool} (h : parseArg f (.op .dstar :: X) as ks d = some (as', ks', d', r)) :
    ks' ≠ [] ∧ d' = true := by
  cases f with
  | zero => simp [parseArg] at h
  | succ f =>
    unfold parseArg at h
    split at h
    · simp at h; obtain ⟨_, rfl, rfl, _⟩ := h; simp
    · simp at h


/-- `ArgumentList` refuses the list `s` with every fuel -/
def BadArgs (s : List Tok) : Prop := ∀ f, parseArgs f s [] [] false = none

/-- **positional argument follows keyword argument**: the loop has collected a keyword or `**` argument and arrives at
    a positional one -/
theorem positional_after_keyword_args {s X : List Tok} {as : List Expr} {ks : List Keyword} {d : Bool}
    (hr : ArgsReach s [] [] false X as ks d) (hk : ks ≠ []) (hX : positionalHead X = true)
    (hne : ∀ r, X = .op .rpar :: r → False) : BadArgs s :=
  argsReach_rejects hr (parseArg_positional_after_keyword hk hX) hne

/-- **iterable argument unpacking follows keyword argument unpacking**: the loop has seen `**` and arrives at a `*` -/
theorem unpack_after_double_star_args {s X : List Tok} {as : List Expr} {ks : List Keyword}
    (hr : ArgsReach s [] [] false (.op .star :: X) as ks true) : BadArgs s :=
  argsReach_rejects hr parseArg_star_after_dstar (by intro r h; simp at h)

/-- **keyword argument repeated**: the loop has collected the keyword `n` and arrives at `n = …` again -/
theorem repeated_keyword_args {s X : List Tok} {n : Ident} {as : List Expr} {ks : List Keyword} {d : Bool}
    (hr : ArgsReach s [] [] false (.name n :: .op .assign :: X) as ks d) (hk : hasKw ks n = true) : BadArgs s :=
  argsReach_rejects hr (parseArg_repeated_keyword hk) (by intro r h; simp at h)

/-! ### the callee: a name, followed by attribute references -/

/-- `("." NAME)*` -/
def attrToks : List Ident → List Tok
  | [] => []
  | m :: ms => .op .dot :: .name m :: attrToks ms

theorem trailers_badArgs {s : List Tok} (hs : BadArgs s) : ∀ (ms : List Ident) (acc : Expr) (f : Nat),
    parseTrailers f acc (attrToks ms ++ .op .lpar :: s) = none
  | [], acc, f => by
    cases f with
    | zero => simp [parseTrailers]
    | succ f => simp [attrToks, parseTrailers.eq_2, hs f]
  | m :: ms, acc, f => by
    cases f with
    | zero => simp [parseTrailers]
    | succ f => simp [attrToks, parseTrailers.eq_4, trailers_badArgs hs ms _ f]

/-- **a call `NAME(.NAME)*( args`** whose argument list is refused is refused as an operand -/
theorem call_head_rejects {s : List Tok} (hs : BadArgs s) (n : Ident) (ms : List Ident) (f : Nat) :
    parseAtomExpr2 f (.name n :: attrToks ms ++ .op .lpar :: s) = none := by
  cases f with
  | zero => simp [parseAtomExpr2]
  | succ f =>
    rw [parseAtomExpr2.eq_2]
    cases f with
    | zero => simp [parseAtom]
    | succ f => simp [parseAtom.eq_2, trailers_badArgs hs ms _ _]

theorem call_plainHead (n : Ident) (ms : List Ident) (s : List Tok) :
    plainHead (.name n :: attrToks ms ++ .op .lpar :: s) = true := by
  cases ms <;> simp [attrToks, plainHead]

theorem call_stmtPlainHead (n : Ident) (r : List Tok) : stmtPlainHead (.name n :: r) = true := by
  simp [stmtPlainHead, tk]

/-! ### 3d. a parenthesised lone `*` / `**` expression -/

theorem det_parseBin {f0 lvl : Nat} {s : List Tok} {v : Expr × List Tok} (h : parseBin lvl f0 s = some v) (f : Nat) :
    parseBin lvl f s = none ∨ parseBin lvl f s = some v :=
  det_of_mono (fun f => parseBin lvl f s) (fun f => (c11Mono f).parseBin lvl s) h f

/-- **`( * Expression )`**: "cannot use starred expression here" -/
theorem paren_star_rejects {X r : List Tok} {e : Expr} {f0 : Nat} (h : parseBin 0 f0 X = some (e, .op .rpar :: r))
    (f : Nat) : parseAtomExpr2 f (.op .lpar :: .op .star :: X) = none := by
  cases f with
  | zero => simp [parseAtomExpr2]
  | succ f =>
    rw [parseAtomExpr2.eq_2]
    cases f with
    | zero => simp [parseAtom]
    | succ f =>
      have hp : parseParenAtom f (.op .star :: X) = none := by
        cases f with
        | zero => simp [parseParenAtom]
        | succ f =>
          rw [parseParenAtom.eq_4 _ _ (by intro r h; simp at h) (by intro r h; simp at h)]
          cases f with
          | zero => simp [parseStarOrNamed]
          | succ f =>
            rcases det_parseBin h f with h1 | h1
            · simp [parseStarOrNamed, h1]
            · simp [parseStarOrNamed, h1, atCompFor, parseElems, isStarred]
      simp [parseAtom, hp]

theorem atomExpr2_dstar (X : List Tok) (f : Nat) : parseAtomExpr2 f (.op .dstar :: X) = none := by
  cases f with
  | zero => simp [parseAtomExpr2]
  | succ f =>
    rw [parseAtomExpr2.eq_2]
    cases f with
    | zero => simp [parseAtom]
    | succ f => simp [parseAtom]

/-- **`( ** …`**: "cannot use double starred expression here" — whatever follows -/
theorem paren_dstar_rejects (X : List Tok) (f : Nat) : parseAtomExpr2 f (.op .lpar :: .op .dstar :: X) = none := by
  cases f with
  | zero => simp [parseAtomExpr2]
  | succ f =>
    rw [parseAtomExpr2.eq_2]
    cases f with
    | zero => simp [parseAtom]
    | succ f =>
      have hp : parseParenAtom f (.op .dstar :: X) = none := by
        cases f with
        | zero => simp [parseParenAtom]
        | succ f =>
          rw [parseParenAtom.eq_4 _ _ (by intro r h; simp at h) (by intro r h; simp at h)]
          simp [head_parseStarOrNamed (atomExpr2_dstar X) rfl f]
      simp [parseAtom, hp]

/-! ### 3e. `as _` in a pattern -/

theorem det_parseOrPattern {f0 : Nat} {s : List Tok} {v : Pattern × List Tok} (h : parseOrPattern f0 s = some v) (f : Nat) :
    parseOrPattern f s = none ∨ parseOrPattern f s = some v :=
  det_of_mono (fun f => parseOrPattern f s) (fun f => (progMono f).parseOrPattern s) h f

/-- **`OrPattern "as" "_"`**: "cannot use '_' as a target" -/
theorem pattern_as_underscore_rejects {X r : List Tok} {p : Pattern} {t : Tok} {f0 : Nat}
    (h : parseOrPattern f0 X = some (p, t :: .name [95] :: r)) (ht : tk t = .hk .as) (f : Nat) :
    parsePattern f X = none := by
  cases f with
  | zero => simp [parsePattern]
  | succ f =>
    rw [parsePattern.eq_2]
    rcases det_parseOrPattern h f with h1 | h1
    · simp [h1]
    · simp [h1, ht]

/-- the first pattern after `case` -/
theorem patterns_first_rejects {X : List Tok} (h : ∀ f, parsePattern f X = none) (f : Nat) : parsePatterns f X = none := by
  unfold parsePatterns
  cases f with
  | zero => simp [parsePatternList]
  | succ f => rw [parsePatternList.eq_2]; simp [h f]

/-! ### class argument lists -/

theorem parseClass_rejects_of_args {n : Ident} {hd s : List Tok} {tps : List TypeParam} {f1 : Nat}
    (hh : parseTypeParamsOpt f1 hd = some (tps, .op .lpar :: s)) (hs : BadArgs s) (f : Nat) (d : List Expr) :
    parseClass f d (.name n :: hd) = none := by
  cases f with
  | zero => simp [parseClass]
  | succ f =>
    rw [parseClass.eq_2]
    rcases det_typeParamsOpt hh f with h1 | h1 <;> simp [h1, hs f]


/-! ## 5. the sites of a program, and rejection by the whole parser -/

/-- **rejected by the whole parser**: `Top` answers `none` in every mode with every fuel -/
def RejectedT (ts : List Tok) : Prop := ∀ (mode : Mode) (fuel : Nat), parseTopT mode fuel ts = none

/-- on the parser's own token type: `parseProgram` (fuel `fuelFor`) and `parseProgramFuel` with every fuel -/
theorem RejectedT.program {pts : List PTok} (h : RejectedT (pts.map PTok.toTok)) (mode : Mode) :
    parseProgram mode pts = none ∧ ∀ fuel, parseProgramFuel fuel mode pts = none :=
  ⟨h mode _, fun fuel => h mode fuel⟩

/-- the tokens `L` stand at the start of the program or directly after a NEWLINE / INDENT / DEDENT token (at any depth) -/
def AfterBreak (ts L : List Tok) : Prop := ts = L ∨ ∃ pre n, ts = pre ++ n :: L ∧ isNL n = true

/-- a line that `parseSimpleLine` refuses, at the start of the program or after any line break, is refused by `Top` -/
theorem afterBreak_rejected {ts L : List Tok} (hb : AfterBreak ts L) (hs : simpleStart L = true)
    (hr : ∀ f, parseSimpleLine f L = none) (he : ∀ f, parseTopT .expression f L = none) : RejectedT ts := by
  intro mode fuel
  rcases hb with rfl | ⟨pre, n, rfl, hn⟩
  · cases mode with
    | module => simp [parseTopT, first_line_context hs hr fuel]
    | interactive => simp [parseTopT, first_line_context hs hr fuel]
    | expression => exact he fuel
  · exact line_context rfl hn hs hr mode fuel

/-! ### parameter lists -/

/-- **the parser reads a `def` parameter list at `s`**: `s` follows `def NAME TypeParamList? (` — whatever stands in
    front of the `def` token: `async`, decorators, the enclosing suites of any depth (methods, nested functions,
    `if` / `else` / `try` / `with` / `match` bodies …) -/
inductive DefSite (ts s : List Tok) : Prop
  | mk (pre : List Tok) (t : Tok) (n : Ident) (hd : List Tok) (f1 : Nat) (tps : List TypeParam) :
      ts = pre ++ t :: .name n :: hd → tk t = .hk .def →
      parseTypeParamsOpt f1 hd = some (tps, .op .lpar :: s) → DefSite ts s

/-- **the parser reads a `lambda` parameter list at `s`**: `s` follows a `lambda` token, wherever it stands (a default
    value, a call argument, a display, another lambda's body, a decorator, a class keyword …) -/
def LambdaSite (ts s : List Tok) : Prop := ∃ pre, ts = pre ++ .kw .lambda :: s

theorem defSite_rejected {ts s : List Tok} (site : DefSite ts s) (hp : ∀ f, parseParameters f s = none) : RejectedT ts := by
  obtain ⟨pre, t, n, hd, f1, tps, hts, ht, hh⟩ := site
  exact fun mode fuel => def_context hts ht (fun f a d => parseDef_rejects_of_params hh hp f a d) mode fuel

theorem lambdaSite_rejected {ts s : List Tok} (site : LambdaSite ts s) (hp : ∀ f, parseLambda f s = none) : RejectedT ts := by
  obtain ⟨pre, hts⟩ := site
  exact fun mode fuel => lambda_context hts hp mode fuel

/-- the names `validate_arguments` checks in a lambda -/
def lamNames (ps : Params) : List Ident :=
  (ps.posonly ++ ps.args ++ ps.kwonly).map paramName ++ ps.vararg.toList ++ ps.kwarg.toList


/-! ### operands at the head of an expression -/

/-- the first tokens of an operand that is a name (not a `NAME :=`) or starts with `(` -/
def operandHead : List Tok → Bool
  | .name _ :: .op .walrus :: _ => false
  | .name _ :: _ => true
  | .op .lpar :: _ => true
  | _ => false

theorem operandHead_spec {X : List Tok} (h : operandHead X = true) :
    plainHead X = true ∧ stmtPlainHead X = true ∧ simpleStart X = true ∧ startsExpr X = true := by
  unfold operandHead at h
  split at h
  · simp at h
  · rename_i n r hw
    refine ⟨?_, by simp [stmtPlainHead, tk], by simp [simpleStart, structHead, startsCompound, tk], rfl⟩
    unfold plainHead
    split <;> simp_all
  · exact ⟨rfl, by simp [stmtPlainHead, tk], by simp [simpleStart, structHead, startsCompound, tk], rfl⟩
  · simp at h

theorem det_commaList {f0 : Nat} {ek : EK} {s : List Tok} {v : (List Expr × Bool) × List Tok}
    (h : parseCommaList ek f0 s = some v) (f : Nat) :
    parseCommaList ek f s = none ∨ parseCommaList ek f s = some v :=
  det_of_mono (fun f => parseCommaList ek f s) (fun f => (progMono f).parseCommaList ek s) h f

section Assign
variable {L X : List Tok} {es : List Expr} {tc : Bool} {f0 : Nat} (hs : stmtPlainHead L = true)
  (hc : parseCommaList .testOrStar f0 L = some ((es, tc), .op .assign :: X))
  (hA : ∀ f, parseAtomExpr2 f X = none) (hp : plainHead X = true)
include hs hc hA hp

/-- `targets = X …` where the operand at the head of the value is refused -/
theorem assign_exprStmt_rejects (f : Nat) : parseExprStmt f L = none := by
  cases f with
  | zero => simp [parseExprStmt]
  | succ f =>
    unfold parseExprStmt
    rcases det_commaList hc f with h1 | h1
    · simp [h1]
    · simp only [h1]
      cases f with
      | zero => simp [parseAssignSuffixes]
      | succ f => simp [parseAssignSuffixes, head_parseTestListOrYield hA hp f]

theorem assign_line_rejects (f : Nat) : parseSimpleLine f L = none := by
  cases f with
  | zero => simp [parseSimpleLine]
  | succ f =>
    unfold parseSimpleLine
    cases f with
    | zero => simp [parseSmall]
    | succ f => rw [parseSmall_of_plain hs]; simp [assign_exprStmt_rejects hs hc hA hp f]

theorem assign_expression_rejects (f : Nat) : parseTopT .expression f L = none := by
  simp only [parseTopT, parseTestListS]
  rcases det_commaList hc f with h1 | h1
  · simp [h1]
  · simp [h1, tk]

end Assign

/-- **the operand `X` is read at the head of an expression** in one of these positions:
    * an expression statement at the start of the program or after ANY line break (`AfterBreak`, i.e. in a suite of any depth);
    * the value of an assignment `targets = X …` on such a line;
    * after a `return` token, wherever it stands;
    * after an `@` token, wherever it stands (a decorator, or the right operand of `@`) -/
inductive OperandSite (ts X : List Tok) : Prop
  | stmt : AfterBreak ts X → OperandSite ts X
  | assign (L : List Tok) (es : List Expr) (tc : Bool) (f0 : Nat) : AfterBreak ts L → simpleStart L = true →
      stmtPlainHead L = true → parseCommaList .testOrStar f0 L = some ((es, tc), .op .assign :: X) → OperandSite ts X
  | ret (pre : List Tok) (t : Tok) : ts = pre ++ t :: X → tk t = .hk .return → OperandSite ts X
  | deco (pre : List Tok) : ts = pre ++ .op .at :: X → OperandSite ts X

/-- an operand that `AtomExpr2` refuses with every fuel, at one of the sites, is refused by the whole parser -/
theorem operandSite_rejected {ts X : List Tok} (site : OperandSite ts X) (hA : ∀ f, parseAtomExpr2 f X = none)
    (hh : operandHead X = true) : RejectedT ts := by
  obtain ⟨hp, hs, hss, hse⟩ := operandHead_spec hh
  cases site with
  | stmt hb =>
    exact afterBreak_rejected hb hss (head_parseSimpleLine hA hp hs)
      (fun f => by simp [parseTopT, head_parseTestListS hA hp f])
  | assign L es tc f0 hb hsL hpL hc =>
    exact afterBreak_rejected hb hsL (assign_line_rejects hpL hc hA hp) (assign_expression_rejects hpL hc hA hp)
  | ret pre t hts ht => exact fun mode fuel => return_context hts ht hse (head_parseTestListS hA hp) mode fuel
  | deco pre hts =>
    exact fun mode fuel => at_context hts (head_parseNamedTest hA hp) (head_parseFactor hA hp) mode fuel

/-- the tokens of a call up to its argument list: `NAME (. NAME)* (` -/
def callToks (n : Ident) (ms : List Ident) (s : List Tok) : List Tok := .name n :: attrToks ms ++ .op .lpar :: s

theorem callToks_operandHead (n : Ident) (ms : List Ident) (s : List Tok) : operandHead (callToks n ms s) = true := by
  cases ms <;> simp [callToks, attrToks, operandHead]

/-- **the parser reads an argument list at `s`**: of a call `NAME(.NAME)*(` at an `OperandSite`, or of a class definition
    `class NAME TypeParamList? (` — whatever stands in front of the `class` token (decorators, suites of any depth) -/
inductive ArgSite (ts s : List Tok) : Prop
  | call (n : Ident) (ms : List Ident) : OperandSite ts (callToks n ms s) → ArgSite ts s
  | cls (pre : List Tok) (t : Tok) (n : Ident) (hd : List Tok) (f1 : Nat) (tps : List TypeParam) :
      ts = pre ++ t :: .name n :: hd → tk t = .hk .class →
      parseTypeParamsOpt f1 hd = some (tps, .op .lpar :: s) → ArgSite ts s

theorem argSite_rejected {ts s : List Tok} (site : ArgSite ts s) (hs : BadArgs s) : RejectedT ts := by
  cases site with
  | call n ms ho => exact operandSite_rejected ho (call_head_rejects hs n ms) (callToks_operandHead n ms s)
  | cls pre t n hd f1 tps hts ht hh =>
    exact fun mode fuel => class_context hts ht (fun f d => parseClass_rejects_of_args hh hs f d) mode fuel

/-- **the parser reads a pattern at `X`**: directly after a `case` token, wherever it stands -/
def CaseSite (ts X : List Tok) : Prop := ∃ pre t, ts = pre ++ t :: X ∧ tk t = .hk .case

theorem caseSite_rejected {ts X : List Tok} (site : CaseSite ts X) (h : ∀ f, parsePattern f X = none) : RejectedT ts := by
  obtain ⟨pre, t, hts, ht⟩ := site
  exact fun mode fuel => case_context hts ht (fun f p r => by simp [patterns_first_rejects h f]) mode fuel


/-! ### for concrete inputs: a successful call written with its own result (all side conditions closed terms) -/

theorem opt_pair_eq {α β : Type} {o : Option (α × β)} (h : o.isSome = true) {b : β} (hb : (o.get h).2 = b) :
    o = some ((o.get h).1, b) := by
  subst hb
  cases o with
  | none => simp at h
  | some v => rfl

theorem opt_pair2_eq {α α' β : Type} {o : Option ((α × α') × β)} (h : o.isSome = true) {b : β} (hb : (o.get h).2 = b) :
    o = some (((o.get h).1.1, (o.get h).1.2), b) := by
  subst hb
  cases o with
  | none => simp at h
  | some v => rfl

theorem opt_quad_eq {α β γ δ : Type} {o : Option (α × β × γ × δ)} (h : o.isSome = true) {b : δ}
    (hb : (o.get h).2.2.2 = b) : o = some ((o.get h).1, (o.get h).2.1, (o.get h).2.2.1, b) := by
  subst hb
  cases o with
  | none => simp at h
  | some v => rfl


/-- **`as _` anywhere in the pattern after `case`** (sequence / class / group / or-pattern elements, at any depth of the
    pattern): the tokens `P` between `case` and the `as` contain no `if` and no `:` token (so the guard or the colon that
    ends the pattern comes after the `as _`) -/
theorem as_underscore_in_pattern_rejects {X P rest : List Tok} {t : Tok} (hX : X = P ++ t :: .name [95] :: rest)
    (ht : tk t = .hk .as) (hP : ∀ h ∈ P, h ≠ .kw .if ∧ h ≠ .op .colon) (f : Nat) (p : Pattern) (r : List Tok) :
    parsePatterns f X ≠ some (p, .kw .if :: r) ∧ parsePatterns f X ≠ some (p, .op .colon :: r) := by
  have key : ∀ (h0 : Tok) (r : List Tok), (h0 = .kw .if ∨ h0 = .op .colon) → parsePatterns f X ≠ some (p, h0 :: r) := by
    intro h0 r hh hc
    have hseg := parsePatterns_segA hc
    have hlen : (h0 :: r).length ≤ (Tok.name [95] :: rest).length := by
      obtain ⟨pre, hpre, _⟩ := hseg
      have h1 : pre ++ (h0 :: r) = P ++ t :: (.name [95] :: rest) := by rw [← hpre, hX]
      rcases List.append_eq_append_iff.mp h1 with ⟨a', ha, hb⟩ | ⟨c', ha, hb⟩
      · -- P = pre ++ a', h0 :: r = a' ++ t :: …
        cases a' with
        | nil =>
          simp at hb
          obtain ⟨rfl, _⟩ := hb
          rcases hh with rfl | rfl <;> simp [tk] at ht
        | cons x a'' =>
          simp at hb
          obtain ⟨rfl, _⟩ := hb
          have := hP h0 (by rw [ha]; simp)
          rcases hh with rfl | rfl <;> simp at this
      · -- pre = P ++ c', t :: … = c' ++ h0 :: r
        cases c' with
        | nil =>
          simp at hb
          obtain ⟨rfl, _⟩ := hb
          rcases hh with rfl | rfl <;> simp [tk] at ht
        | cons x c'' =>
          simp at hb
          have := congrArg List.length hb.2
          simp at this ⊢
          omega
    exact SegA.at hseg hX hlen ht rest rfl
  exact ⟨key _ r (Or.inl rfl), key _ r (Or.inr rfl)⟩

end PV.C04.PR
