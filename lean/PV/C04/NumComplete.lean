import PV.C04.Thm
/-
  C04 — the number lexer is COMPLETE for Python's numeric literal grammar (the converse of
  `lexRest_sound` in `Thm.lean`).

  `Spec.number cs` lists the remainders the Language Reference grammar (2.4.5–2.4.8) allows after one
  numeric literal at the start of `cs`; `lexRest cs` is the model of `lex_number` (`.ok r` = the token
  ends where `r` begins, `.error _` = lexical error).  Proved here, for texts of every length:

  * `lexRest_vs_number`   for every grammar remainder `r`: the lexer, when it succeeds, leaves at most `r`
                          (maximal munch); when it fails, `r ≠ []` (the whole text is not a literal);
  * `acceptsNumber_complete`, `acceptsNumber_eq_isNumber`   whole texts: lexer = grammar, no exclusion;
  * `lexRest_longest`, `lexRest_complete`, `lexRest_total`  the token is THE longest literal, off the
                          malformed shapes;
  * `lexRest_error_iff`   the lexer fails on exactly `numMalformed` (radix prefix without digit,
                          `digits . _`, leading zero with a nonzero digit and no `.`/exponent/`j`);
  * `numMalformed_iff_spec`, `lexRest_error_iff_spec`   the same three shapes written with the grammar's
                          nonterminals only (`NumMalformedSpec` = `radixNoDigit ∨ dotUnderscore ∨ leadingZero`);
  * `lexRest_no_fallback` the lexer does not fall back to a shorter literal (`09`, `1._`, `0x`).

  Technique: `drun rdx l` (what `radix_run` leaves) is the common end of EVERY remainder of
  `(["_"] digit)*` (`usDigits_radixRun`), so each production of the grammar pins the lexer's scan points.
-/
set_option linter.unusedSimpArgs false
namespace PV.C04
open Spec

/-! ### digit runs -/

/-- the unconsumed rest after the digit run of `radix_run` -/
def drun (rdx : Nat) (l : List Nat) : List Nat := (radixRun rdx l).2

theorem drun_nil (rdx : Nat) : drun rdx [] = [] := by simp [drun, radixRun]

theorem drun_len (rdx : Nat) (l : List Nat) : (drun rdx l).length ≤ l.length := radixRun_len rdx l

/-- a text that starts with neither a digit nor `_` is its own run remainder -/
theorem drun_stop (rdx c : Nat) (t : List Nat) (h : isDigitOf rdx c = false) (h95 : c ≠ 95) :
    drun rdx (c :: t) = c :: t := by
  unfold drun; rw [radixRun_stop rdx c t h (by simp [h95])]

theorem drun_digit (rdx c : Nat) (t : List Nat) (h : isDigitOf rdx c = true) :
    drun rdx (c :: t) = drun rdx t := by
  unfold drun; rw [radixRun_digit rdx c t h]

/-- every remainder of `(["_"] d)*` continues to the same end of the digit run (`d` ⊆ the radix digits),
    and the digits skipped on the way are `d`-digits -/
theorem usDigits_radixRun (d : Nat → Bool) (rdx : Nat) (hd : ∀ c, d c = true → isDigitOf rdx c = true) (r : List Nat) :
    ∀ (n : Nat) (l : List Nat), l.length ≤ n → r ∈ usDigits d l →
    ∃ pre, radixRun rdx l = (pre ++ (radixRun rdx r).1, (radixRun rdx r).2) ∧ ∀ c ∈ pre, d c = true := by
  intro n
  induction n with
  | zero =>
    intro l hl h
    have : l = [] := by cases l <;> simp_all
    subst this
    simp [usDigits] at h; subst h; exact ⟨[], by simp, by simp⟩
  | succ n ih =>
    intro l hl h
    cases l with
    | nil => simp [usDigits] at h; subst h; exact ⟨[], by simp, by simp⟩
    | cons c t =>
      unfold usDigits at h
      rw [List.mem_cons] at h
      rcases h with h | h
      · subst h; exact ⟨[], by simp, by simp⟩
      · by_cases hc : d c = true
        · rw [if_pos hc] at h
          obtain ⟨pre, h1, h2⟩ := ih t (by simp at hl; omega) h
          refine ⟨c :: pre, ?_, ?_⟩
          · rw [radixRun_digit rdx c t (hd c hc), h1]; simp
          · intro x hx; rw [List.mem_cons] at hx; rcases hx with hx | hx
            · subst hx; exact hc
            · exact h2 x hx
        · rw [if_neg hc] at h
          by_cases h95 : c = 95
          · rw [if_pos h95] at h
            subst h95
            cases t with
            | nil => simp at h
            | cons c' t' =>
              simp only at h
              by_cases hc' : d c' = true
              · rw [if_pos hc'] at h
                obtain ⟨pre, h1, h2⟩ := ih t' (by simp at hl; omega) h
                refine ⟨c' :: pre, ?_, ?_⟩
                · rw [radixRun_us rdx 95 (c' :: t') (isDigitOf_95 rdx) (by simp [headIs, hd c' hc']),
                    radixRun_digit rdx c' t' (hd c' hc'), h1]; simp
                · intro x hx; rw [List.mem_cons] at hx; rcases hx with hx | hx
                  · subst hx; exact hc'
                  · exact h2 x hx
              · rw [if_neg hc'] at h; simp at h
          · rw [if_neg h95] at h; simp at h

theorem usDigits_drun (d : Nat → Bool) (rdx : Nat) (hd : ∀ c, d c = true → isDigitOf rdx c = true)
    (l r : List Nat) (h : r ∈ usDigits d l) : drun rdx r = drun rdx l := by
  obtain ⟨pre, h1, _⟩ := usDigits_radixRun d rdx hd r l.length l (Nat.le_refl _) h
  unfold drun; rw [h1]

/-- so no remainder of `(["_"] d)*` is shorter than what `radix_run` leaves -/
theorem usDigits_ge (d : Nat → Bool) (rdx : Nat) (hd : ∀ c, d c = true → isDigitOf rdx c = true)
    (l r : List Nat) (h : r ∈ usDigits d l) : (drun rdx l).length ≤ r.length := by
  rw [← usDigits_drun d rdx hd l r h]; exact drun_len rdx r

theorem digit_dec (c : Nat) (h : digit c = true) : isDigitOf 10 c = true := h
theorem zero_dec (c : Nat) (h : (decide (c = 48)) = true) : isDigitOf 10 c = true := by
  simp at h; subst h; decide

/-- no digit collected: `(["_"] d)*` has only the trivial remainder -/
theorem usDigits_of_empty (rdx : Nat) (l r : List Nat) (he : (radixRun rdx l).1 = [])
    (h : r ∈ usDigits (isDigitOf rdx) l) : r = l := by
  cases l with
  | nil => simpa [usDigits] using h
  | cons c t =>
    by_cases hc : isDigitOf rdx c = true
    · rw [radixRun_digit rdx c t hc] at he; simp at he
    · have hc' : isDigitOf rdx c = false := by simpa using hc
      unfold usDigits at h
      rw [if_neg hc, List.mem_cons] at h
      rcases h with h | h
      · exact h
      · by_cases h95 : c = 95
        · rw [if_pos h95] at h
          cases t with
          | nil => simp at h
          | cons c' t' =>
            simp only at h
            by_cases hc2 : isDigitOf rdx c' = true
            · rw [radixRun_us rdx c (c' :: t') hc' (by simp [h95, headIs, hc2]), radixRun_digit rdx c' t' hc2] at he
              simp at he
            · rw [if_neg hc2] at h; simp at h
        · rw [if_neg h95] at h; simp at h


/-! ### the exponent -/

/-- where the exponent part ends (the text itself when it is not at an exponent) -/
def expEnd (x : List Nat) : List Nat :=
  match lexExponent x with
  | .ok (y, _) => y
  | .error e => e

theorem isDec_not95 (c : Nat) (h : isDec c = true) : c ≠ 95 := by
  intro h'; subst h'; revert h; decide
theorem isSign_not95 (c : Nat) (h : isSign c = true) : c ≠ 95 := by
  intro h'; subst h'; revert h; decide
theorem isSign_notDec (c : Nat) (h : isSign c = true) : isDigitOf 10 c = false := by
  simp only [isSign, Bool.or_eq_true, decide_eq_true_eq] at h
  rcases h with h | h <;> subst h <;> decide
theorem sign_of_dec (c : Nat) (h : isDec c = true) : isSign c = false := by
  cases hh : isSign c
  · rfl
  · have := isSign_notDec c hh; unfold isDec at h; rw [this] at h; cases h
theorem isE_notDec (c : Nat) (h : isE c = true) : isDigitOf 10 c = false := by
  simp only [isE, Bool.or_eq_true, decide_eq_true_eq] at h
  rcases h with h | h <;> subst h <;> decide
theorem isE_not95 (c : Nat) (h : isE c = true) : c ≠ 95 := by
  intro h'; subst h'; revert h; decide
theorem isJ_notDec (c : Nat) (h : isJ c = true) : isDigitOf 10 c = false := by
  simp only [isJ, Bool.or_eq_true, decide_eq_true_eq] at h
  rcases h with h | h <;> subst h <;> decide
theorem isJ_not95 (c : Nat) (h : isJ c = true) : c ≠ 95 := by
  intro h'; subst h'; revert h; decide

/-- at an exponent (`[eE][-+]?[0-9]`) the exponent scanner takes the sign and the whole digit run -/
theorem lexExponentBody_at (x : List Nat) (h : atExponent x = true) :
    ∃ e t, x = e :: t ∧ isE e = true ∧
      ((∃ d t', t = d :: t' ∧ isDec d = true ∧ lexExponentBody x = .ok (drun 10 t', false)) ∨
       (∃ s d t', t = s :: d :: t' ∧ isSign s = true ∧ isDec d = true ∧ lexExponentBody x = .ok (drun 10 t', false))) := by
  match x, h with
  | [e, s], h =>
    simp only [atExponent, Bool.and_eq_true] at h
    refine ⟨e, [s], rfl, h.1, Or.inl ⟨s, [], rfl, h.2, ?_⟩⟩
    have h95 := isDec_not95 s h.2
    have hs : isSign s = false := sign_of_dec s h.2
    simp [lexExponentBody, h.1, headIs, h95, hs, drun, radixRun_digit 10 s [] h.2]
  | e :: s :: d :: t', h =>
    simp only [atExponent, Bool.and_eq_true, Bool.or_eq_true] at h
    obtain ⟨he, h⟩ := h
    rcases h with ⟨hs, hd⟩ | hs
    · refine ⟨e, s :: d :: t', rfl, he, Or.inr ⟨s, d, t', rfl, hs, hd, ?_⟩⟩
      simp [lexExponentBody, he, headIs, isSign_not95 s hs, hs, isDec_not95 d hd, drun, radixRun_digit 10 d t' hd]
    · refine ⟨e, s :: d :: t', rfl, he, Or.inl ⟨s, d :: t', rfl, hs, ?_⟩⟩
      have hsg : isSign s = false := sign_of_dec s hs
      simp [lexExponentBody, he, headIs, isDec_not95 s hs, hsg, drun, radixRun_digit 10 s (d :: t') hs]

/-- the exponent part never fails and never ends without digits (the `at_exponent` guard of fix be24063) -/
theorem lexExponent_total (x : List Nat) : lexExponent x = .ok (expEnd x, false) := by
  unfold expEnd
  by_cases h : atExponent x = true
  · obtain ⟨e, t, hx, he, h1 | h1⟩ := lexExponentBody_at x h
    · obtain ⟨d, t', ht, hd, hb⟩ := h1
      simp [lexExponent, h, hb]
    · obtain ⟨s, d, t', ht, hs, hd, hb⟩ := h1
      simp [lexExponent, h, hb]
  · simp [lexExponent, h]

theorem expEnd_not (x : List Nat) (h : atExponent x = false) : expEnd x = x := by
  simp [expEnd, lexExponent, h]

theorem expEnd_len (x : List Nat) : (expEnd x).length ≤ x.length := by
  by_cases h : atExponent x = true
  · unfold expEnd
    obtain ⟨e, t, hx, he, h1 | h1⟩ := lexExponentBody_at x h
    · obtain ⟨d, t', ht, hd, hb⟩ := h1
      have := drun_len 10 t'
      subst hx; subst ht
      simp [lexExponent, h, hb]; omega
    · obtain ⟨s, d, t', ht, hs, hd, hb⟩ := h1
      have := drun_len 10 t'
      subst hx; subst ht
      simp [lexExponent, h, hb]; omega
  · rw [expEnd_not x (by simpa using h)]; exact Nat.le_refl _

theorem atExponent_digit (e d : Nat) (t' : List Nat) (he : isE e = true) (hd : isDec d = true) :
    atExponent (e :: d :: t') = true := by
  cases t' <;> simp [atExponent, he, hd]

theorem atExponent_sign (e s d : Nat) (t' : List Nat) (he : isE e = true) (hs : isSign s = true) (hd : isDec d = true) :
    atExponent (e :: s :: d :: t') = true := by
  simp [atExponent, he, hd, hs]

theorem expEnd_digit (e d : Nat) (t' : List Nat) (he : isE e = true) (hd : isDec d = true) :
    expEnd (e :: d :: t') = drun 10 t' := by
  have hat := atExponent_digit e d t' he hd
  have hsg := sign_of_dec d hd
  simp [expEnd, lexExponent, hat, lexExponentBody, he, headIs, isDec_not95 d hd, hsg, drun, radixRun_digit 10 d t' hd]

theorem expEnd_sign (e s d : Nat) (t' : List Nat) (he : isE e = true) (hs : isSign s = true) (hd : isDec d = true) :
    expEnd (e :: s :: d :: t') = drun 10 t' := by
  have hat := atExponent_sign e s d t' he hs hd
  simp [expEnd, lexExponent, hat, lexExponentBody, he, headIs, isSign_not95 s hs, hs, isDec_not95 d hd, drun,
    radixRun_digit 10 d t' hd]

theorem mem_lit_iff {p : Nat → Bool} {l r : List Nat} : r ∈ lit p l ↔ ∃ c, l = c :: r ∧ p c = true := by
  cases l with
  | nil => simp [lit]
  | cons c t =>
    by_cases h : p c = true
    · simp only [lit, h, if_true, List.mem_singleton]
      constructor
      · intro h'; subst h'; exact ⟨c, rfl, h⟩
      · rintro ⟨c', h1, _⟩; simp at h1; exact h1.2.symm
    · simp only [lit, h, if_false]
      constructor
      · intro h'; simp at h'
      · rintro ⟨c', h1, h2⟩; simp at h1; rw [← h1.1] at h2; exact absurd h2 h

theorem mem_digitpart {l r : List Nat} : r ∈ digitpart l ↔ ∃ c t, l = c :: t ∧ isDec c = true ∧ r ∈ usDigits digit t := by
  cases l with
  | nil => simp [digitpart]
  | cons c t =>
    by_cases h : digit c = true
    · simp only [digitpart, h, if_true]
      constructor
      · intro h'; exact ⟨c, t, rfl, h, h'⟩
      · rintro ⟨c', t', h1, _, h3⟩; simp at h1; rw [h1.2]; exact h3
    · simp only [digitpart, h, if_false]
      constructor
      · intro h'; simp at h'
      · rintro ⟨c', t', h1, h2, _⟩; simp at h1; rw [← h1.1] at h2; exact absurd h2 h

/-- every remainder of a `digitpart` continues to the end of the decimal run -/
theorem digitpart_drun (l r : List Nat) (h : r ∈ digitpart l) : drun 10 r = drun 10 l := by
  obtain ⟨c, t, hl, hc, hr⟩ := mem_digitpart.mp h
  subst hl
  rw [drun_digit 10 c t hc]
  exact usDigits_drun digit 10 digit_dec t r hr

/-- grammar side: an `exponent` can only start where the lexer is `at_exponent`, and each of its
    remainders continues to the end of the lexer's exponent -/
theorem exponent_drun (m r : List Nat) (h : r ∈ exponent m) :
    atExponent m = true ∧ drun 10 r = expEnd m := by
  unfold exponent at h
  rw [mem_seq] at h
  obtain ⟨m1, h1, h⟩ := h
  rw [mem_seq] at h
  obtain ⟨m2, h2, h⟩ := h
  obtain ⟨e, hm, he⟩ := mem_lit_iff.mp h1
  have he' : isE e = true := he
  obtain ⟨d, t', hm2, hd, hr⟩ := mem_digitpart.mp h
  have hrun := usDigits_drun digit 10 digit_dec t' r hr
  rw [mem_opt] at h2
  rcases h2 with h2 | h2
  · subst h2; subst hm2; subst hm
    exact ⟨atExponent_digit e d t' he' hd, by rw [expEnd_digit e d t' he' hd]; exact hrun⟩
  · obtain ⟨s, hm1, hs⟩ := mem_lit_iff.mp h2
    have hs' : isSign s = true := hs
    subst hm1; subst hm2; subst hm
    exact ⟨atExponent_sign e s d t' he' hs' hd, by rw [expEnd_sign e s d t' he' hs' hd]; exact hrun⟩


/-! ### `lex_normal_number` by what follows the integer digits -/

theorem dropJ_len (x : List Nat) : (dropJ x).length ≤ x.length := by
  cases x with
  | nil => simp [dropJ]
  | cons c t => simp only [dropJ]; split <;> simp

theorem lexFraction_dot (t : List Nat) (h : headIs (· = 95) t = false) :
    lexFraction (46 :: t) = .ok (drun 10 t) := by
  simp [lexFraction, h, drun]

/-- `digits . _`: the error of `lex_normal_number` -/
theorem lexNormalRest_dot_us (cs t : List Nat) (h : drun 10 cs = 46 :: t) (hu : headIs (· = 95) t = true) :
    lexNormalRest cs = .error (46 :: t) := by
  have hf : lexFraction (46 :: t) = .error (46 :: t) := by simp only [lexFraction, hu, if_true]
  unfold drun at h
  simp only [lexNormalRest, h, headIs, decide_true, Bool.true_or, if_true, hf]

theorem lexNormalRest_dot (cs t : List Nat) (h : drun 10 cs = 46 :: t) (hu : headIs (· = 95) t = false) :
    lexNormalRest cs = .ok (dropJ (expEnd (drun 10 t))) := by
  have hf := lexFraction_dot t hu
  unfold drun at h
  simp only [lexNormalRest, h, headIs, decide_true, Bool.true_or, if_true, hf, lexExponent_total]
  simp

theorem lexNormalRest_exp (cs : List Nat) (h : atExponent (drun 10 cs) = true) :
    lexNormalRest cs = .ok (dropJ (expEnd (drun 10 cs))) := by
  have hh := atExponent_head _ h
  have hf : lexFraction (drun 10 cs) = .ok (drun 10 cs) := by
    cases hx : drun 10 cs with
    | nil => simp [lexFraction]
    | cons c t =>
      rw [hx] at hh
      have : c ≠ 46 := by intro hc; subst hc; simp [headIs, isE] at hh
      unfold lexFraction
      split
      · rename_i heq; simp at heq; exact absurd heq.1 this
      · rfl
  unfold drun at h hf
  simp only [lexNormalRest, h, Bool.or_true, if_true, hf, lexExponent_total]
  simp [drun]

theorem lexNormalRest_j (cs : List Nat) (j : Nat) (r : List Nat) (h : drun 10 cs = j :: r) (hj : isJ j = true) :
    lexNormalRest cs = .ok r := by
  have h46 : j ≠ 46 := by intro hc; subst hc; revert hj; decide
  have hat : atExponent (j :: r) = false := by
    cases hh : atExponent (j :: r)
    · rfl
    · have := atExponent_head _ hh
      simp only [headIs] at this
      have h1 : isE j = true := this
      simp only [isE, isJ, Bool.or_eq_true, decide_eq_true_eq] at h1 hj
      omega
  unfold drun at h
  simp [lexNormalRest, h, headIs, h46, hat, hj]


/-! ### the grammar's float remainders against the lexer's scan -/

theorem drun_of_head (x : List Nat) (p : Nat → Bool) (hp : ∀ c, p c = true → isDigitOf 10 c = false ∧ c ≠ 95)
    (h : headIs p x = true) : drun 10 x = x := by
  cases x with
  | nil => simp [headIs] at h
  | cons c t => exact drun_stop 10 c t (hp c h).1 (hp c h).2

theorem drun_dot (t : List Nat) : drun 10 (46 :: t) = 46 :: t := drun_stop 10 46 t (by decide) (by decide)

/-- `pointfloat`: the decimal run of the text ends at a `.`, and every remainder continues to the end
    of the digit run after that `.` -/
theorem pointfloat_drun (cs r : List Nat) (h : r ∈ pointfloat cs) :
    ∃ t, drun 10 cs = 46 :: t ∧ drun 10 r = drun 10 t ∧ (r = t ∨ headIs isDec t = true) := by
  unfold pointfloat at h
  rw [mem_alt] at h
  rcases h with h | h
  · rw [mem_seq] at h
    obtain ⟨m, hm, h⟩ := h
    unfold fraction at h
    rw [mem_seq] at h
    obtain ⟨t, ht, h⟩ := h
    obtain ⟨c, hc, hc46⟩ := mem_lit_iff.mp ht
    have : c = 46 := by simpa using hc46
    subst this
    have hrun : drun 10 cs = 46 :: t := by
      rw [mem_opt] at hm
      rcases hm with hm | hm
      · rw [← hm, hc]; exact drun_dot t
      · rw [← digitpart_drun cs m hm, hc]; exact drun_dot t
    refine ⟨t, hrun, digitpart_drun t r h, Or.inr ?_⟩
    obtain ⟨d, t', ht', hd, _⟩ := mem_digitpart.mp h
    subst ht'; exact hd
  · rw [mem_seq] at h
    obtain ⟨m, hm, h⟩ := h
    obtain ⟨c, hc, hc46⟩ := mem_lit_iff.mp h
    have : c = 46 := by simpa using hc46
    subst this
    refine ⟨r, ?_, rfl, Or.inl rfl⟩
    rw [← digitpart_drun cs m hm, hc]; exact drun_dot r

theorem headIs_dec_not95 (t : List Nat) (h : headIs isDec t = true) : headIs (· = 95) t = false := by
  cases t with
  | nil => rfl
  | cons c t => simp only [headIs] at h ⊢; simpa using isDec_not95 c h

/-- a `pointfloat` remainder: the lexer goes on through the exponent and a `j`; it fails only on `digits . _` -/
theorem pointfloat_lex (cs r : List Nat) (h : r ∈ pointfloat cs) :
    lexNormalRest cs = .ok (dropJ (expEnd (drun 10 r))) ∨
    (headIs (· = 95) r = true ∧ ∃ e, lexNormalRest cs = .error e) := by
  obtain ⟨t, h1, h2, h3⟩ := pointfloat_drun cs r h
  by_cases hu : headIs (· = 95) t = true
  · right
    rcases h3 with h3 | h3
    · subst h3; exact ⟨hu, _, lexNormalRest_dot_us cs r h1 hu⟩
    · rw [headIs_dec_not95 t h3] at hu; cases hu
  · left
    rw [lexNormalRest_dot cs t h1 (by simpa using hu), h2]

theorem drun_atExponent (m : List Nat) (h : atExponent m = true) : drun 10 m = m :=
  drun_of_head m isE (fun c hc => ⟨isE_notDec c hc, isE_not95 c hc⟩) (atExponent_head m h)

/-- an `exponentfloat` remainder: the lexer never fails and goes on at most through a `j` -/
theorem exponentfloat_lex (cs r : List Nat) (h : r ∈ exponentfloat cs) :
    lexNormalRest cs = .ok (dropJ (drun 10 r)) := by
  unfold exponentfloat at h
  rw [mem_seq] at h
  obtain ⟨m, hm, h⟩ := h
  obtain ⟨hat, hr⟩ := exponent_drun m r h
  have hmm := drun_atExponent m hat
  rw [mem_alt] at hm
  rcases hm with hm | hm
  · have h1 : drun 10 cs = m := by rw [← digitpart_drun cs m hm, hmm]
    rw [lexNormalRest_exp cs (by rw [h1]; exact hat), h1, hr]
  · obtain ⟨t, h1, h2, h3⟩ := pointfloat_drun cs m hm
    have hu : headIs (· = 95) t = false := by
      rcases h3 with h3 | h3
      · subst h3
        have := atExponent_head m hat
        cases m with
        | nil => rfl
        | cons c t => simp only [headIs] at this ⊢; simpa using isE_not95 c this
      · exact headIs_dec_not95 t h3
    rw [lexNormalRest_dot cs t h1 hu, ← h2, hmm, hr]

/-- float remainders are never shorter than what the lexer leaves -/
theorem floatnumber_ge (cs r r' : List Nat) (h : r ∈ floatnumber cs) (hl : lexNormalRest cs = .ok r') :
    r'.length ≤ r.length := by
  unfold floatnumber at h
  rw [mem_alt] at h
  rcases h with h | h
  · rcases pointfloat_lex cs r h with h1 | ⟨_, e, h1⟩
    · rw [h1] at hl; cases hl
      have := dropJ_len (expEnd (drun 10 r)); have := expEnd_len (drun 10 r); have := drun_len 10 r
      omega
    · rw [h1] at hl; cases hl
  · rw [exponentfloat_lex cs r h] at hl; cases hl
    have := dropJ_len (drun 10 r); have := drun_len 10 r
    omega

/-- a float remainder at a `j`: the lexer takes the `j` as well -/
theorem floatnumber_j (cs r : List Nat) (j : Nat) (hj : isJ j = true) (h : (j :: r) ∈ floatnumber cs) :
    lexNormalRest cs = .ok r := by
  have hd : drun 10 (j :: r) = j :: r := drun_stop 10 j r (isJ_notDec j hj) (isJ_not95 j hj)
  have hat : atExponent (j :: r) = false := by
    cases hh : atExponent (j :: r)
    · rfl
    · have h1 : isE j = true := atExponent_head _ hh
      simp only [isE, isJ, Bool.or_eq_true, decide_eq_true_eq] at h1 hj
      omega
  unfold floatnumber at h
  rw [mem_alt] at h
  rcases h with h | h
  · rcases pointfloat_lex cs _ h with h1 | ⟨h1, _⟩
    · rw [h1, hd, expEnd_not _ hat]; simp [dropJ, hj]
    · simp only [headIs, decide_eq_true_eq] at h1; exact absurd h1 (isJ_not95 j hj)
  · rw [exponentfloat_lex cs _ h, hd]; simp [dropJ, hj]

/-- the lexer fails on a text with a float prefix only before an underscore -/
theorem floatnumber_err (cs r e : List Nat) (h : r ∈ floatnumber cs) (hl : lexNormalRest cs = .error e) :
    headIs (· = 95) r = true := by
  unfold floatnumber at h
  rw [mem_alt] at h
  rcases h with h | h
  · rcases pointfloat_lex cs r h with h1 | ⟨h1, _⟩
    · rw [h1] at hl; cases hl
    · exact h1
  · rw [exponentfloat_lex cs r h] at hl; cases hl


/-- a float needs a `.` or an exponent right after the leading decimal run -/
theorem floatnumber_head (cs r : List Nat) (h : r ∈ floatnumber cs) :
    headIs (· = 46) (drun 10 cs) = true ∨ atExponent (drun 10 cs) = true := by
  unfold floatnumber at h
  rw [mem_alt] at h
  rcases h with h | h
  · obtain ⟨t, h1, _⟩ := pointfloat_drun cs r h
    left; rw [h1]; simp [headIs]
  · unfold exponentfloat at h
    rw [mem_seq] at h
    obtain ⟨m, hm, h⟩ := h
    obtain ⟨hat, _⟩ := exponent_drun m r h
    rw [mem_alt] at hm
    rcases hm with hm | hm
    · right; rw [← digitpart_drun cs m hm, drun_atExponent m hat]; exact hat
    · obtain ⟨t, h1, _⟩ := pointfloat_drun cs m hm
      left; rw [h1]; simp [headIs]

/-- `digitpart j`: the lexer takes exactly that -/
theorem digitpart_j (cs r : List Nat) (j : Nat) (hj : isJ j = true) (h : (j :: r) ∈ digitpart cs) :
    drun 10 cs = j :: r ∧ lexNormalRest cs = .ok r := by
  have h1 : drun 10 cs = j :: r := by
    rw [← digitpart_drun cs _ h]; exact drun_stop 10 j r (isJ_notDec j hj) (isJ_not95 j hj)
  exact ⟨h1, lexNormalRest_j cs j r h1 hj⟩

/-- an imaginary literal: the lexer takes exactly that -/
theorem imagnumber_lex (cs r : List Nat) (h : r ∈ imagnumber cs) : lexNormalRest cs = .ok r := by
  unfold imagnumber at h
  rw [mem_seq] at h
  obtain ⟨m, hm, h⟩ := h
  obtain ⟨j, hmj, hj⟩ := mem_lit_iff.mp h
  have hj' : isJ j = true := hj
  subst hmj
  rw [mem_alt] at hm
  rcases hm with hm | hm
  · exact floatnumber_j cs r j hj' hm
  · exact (digitpart_j cs r j hj' hm).2

theorem imagnumber_head (cs r : List Nat) (h : r ∈ imagnumber cs) :
    headIs (· = 46) (drun 10 cs) = true ∨ atExponent (drun 10 cs) = true ∨ headIs isJ (drun 10 cs) = true := by
  unfold imagnumber at h
  rw [mem_seq] at h
  obtain ⟨m, hm, h⟩ := h
  obtain ⟨j, hmj, hj⟩ := mem_lit_iff.mp h
  have hj' : isJ j = true := hj
  subst hmj
  rw [mem_alt] at hm
  rcases hm with hm | hm
  · rcases floatnumber_head cs _ hm with h1 | h1
    · exact Or.inl h1
    · exact Or.inr (Or.inl h1)
  · right; right; rw [(digitpart_j cs r j hj' hm).1]; exact hj'

/-! ### decimal integers -/

/-- whatever `lex_normal_number` delivers starts no earlier than the end of the leading decimal run -/
theorem lexNormalRest_le (cs r' : List Nat) (hl : lexNormalRest cs = .ok r') : r'.length ≤ (drun 10 cs).length := by
  by_cases h46 : headIs (· = 46) (drun 10 cs) = true
  · cases hx : drun 10 cs with
    | nil => rw [hx] at h46; simp [headIs] at h46
    | cons c t =>
      rw [hx] at h46
      have : c = 46 := by simpa [headIs] using h46
      subst this
      by_cases hu : headIs (· = 95) t = true
      · rw [lexNormalRest_dot_us cs t hx hu] at hl; cases hl
      · rw [lexNormalRest_dot cs t hx (by simpa using hu)] at hl; cases hl
        have := dropJ_len (expEnd (drun 10 t)); have := expEnd_len (drun 10 t); have := drun_len 10 t
        simp; omega
  · by_cases hat : atExponent (drun 10 cs) = true
    · rw [lexNormalRest_exp cs hat] at hl; cases hl
      have := dropJ_len (expEnd (drun 10 cs)); have := expEnd_len (drun 10 cs)
      omega
    · unfold drun at h46 hat ⊢
      simp only [lexNormalRest, h46, hat, Bool.or_self, Bool.false_eq_true, if_false] at hl
      split at hl
      · cases hl; simp
      · split at hl
        · cases hl
        · cases hl; exact Nat.le_refl _

theorem decinteger_ge (cs r : List Nat) (h : r ∈ decinteger cs) : (drun 10 cs).length ≤ r.length := by
  unfold decinteger at h
  rw [mem_alt] at h
  rcases h with h | h
  · rw [mem_seq] at h
    obtain ⟨t, ht, h⟩ := h
    obtain ⟨c, hc, hnz⟩ := mem_lit_iff.mp ht
    subst hc
    have hc : isDigitOf 10 c = true := by
      simp only [nonzerodigit, Bool.and_eq_true, decide_eq_true_eq] at hnz
      simp only [isDigitOf, Bool.and_eq_true, decide_eq_true_eq]; omega
    rw [drun_digit 10 c t hc]
    exact usDigits_ge digit 10 digit_dec t r h
  · rw [mem_seq] at h
    obtain ⟨t, ht, h⟩ := h
    obtain ⟨c, hc, hz⟩ := mem_lit_iff.mp ht
    subst hc
    rw [drun_digit 10 c t (zero_dec c hz)]
    exact usDigits_ge (· = 48) 10 zero_dec t r h

/-- a decimal integer that is the whole text: `lex_normal_number` does not fail on it -/
theorem decinteger_noerr (cs e : List Nat) (h : [] ∈ decinteger cs) (hl : lexNormalRest cs = .error e) : False := by
  have hlen := decinteger_ge cs [] h
  have hnil : (radixRun 10 cs).2 = [] := by
    have : drun 10 cs = [] := by cases hx : drun 10 cs with
      | nil => rfl
      | cons c t => rw [hx] at hlen; simp at hlen
    exact this
  have hcond : (headIs (· = 48) cs && (radixRun 10 cs).1.any (· ≠ 48)) = false := by
    unfold decinteger at h
    rw [mem_alt] at h
    rcases h with h | h
    · rw [mem_seq] at h
      obtain ⟨t, ht, h⟩ := h
      obtain ⟨c, hc, hnz⟩ := mem_lit_iff.mp ht
      subst hc
      have : c ≠ 48 := by intro hh; subst hh; revert hnz; decide
      simp [headIs, this]
    · rw [mem_seq] at h
      obtain ⟨t, ht, h⟩ := h
      obtain ⟨c, hc, hz0⟩ := mem_lit_iff.mp ht
      subst hc
      obtain ⟨pre, h1, h2⟩ := usDigits_radixRun (· = 48) 10 zero_dec [] t.length t (Nat.le_refl _) h
      have hc48 : c = 48 := by simpa using hz0
      rw [radixRun_digit 10 c t (zero_dec c hz0), h1]
      simp only [radixRun, List.append_nil, List.any_cons, Bool.and_eq_false_iff, Bool.or_eq_false_iff]
      right
      refine ⟨by simp [hc48], ?_⟩
      rw [List.any_eq_false]
      intro x hx
      have := h2 x hx
      simp at this; simp [this]
  have hn (p : Nat → Bool) : headIs p [] = false := rfl
  simp only [lexNormalRest, hnil, hcond, hn, atExponent, Bool.or_self, Bool.false_eq_true, if_false] at hl
  cases hl


/-! ### radix prefixes -/

/-- the radix selected by the character after a leading `0` (as in `lex_number`) -/
def radixOf (x : Nat) : Option Nat :=
  if x = 120 || x = 88 then some 16 else if x = 111 || x = 79 then some 8
  else if x = 98 || x = 66 then some 2 else none

theorem lexRest_radix (x rdx : Nat) (rest : List Nat) (h : radixOf x = some rdx) :
    lexRest (48 :: x :: rest) =
      if (radixRun rdx rest).1.isEmpty then .error (48 :: x :: rest) else .ok (drun rdx rest) := by
  unfold radixOf at h
  simp only [lexRest, drun]
  rw [h]

theorem lexRest_normal (cs : List Nat) (h : ∀ x rest, cs = 48 :: x :: rest → radixOf x = none) :
    lexRest cs = lexNormalRest cs := by
  unfold lexRest
  split
  · rename_i x rest
    have := h x rest rfl
    unfold radixOf at this
    simp only
    rw [this]
  · rfl

theorem radixOf_plain (x rdx : Nat) (h : radixOf x = some rdx) :
    isDigitOf 10 x = false ∧ x ≠ 95 ∧ x ≠ 46 ∧ isE x = false ∧ isJ x = false := by
  unfold radixOf at h
  split at h
  · rename_i hx; simp at hx; rcases hx with hx | hx <;> subst hx <;> decide
  · split at h
    · rename_i hx; simp at hx; rcases hx with hx | hx <;> subst hx <;> decide
    · split at h
      · rename_i hx; simp at hx; rcases hx with hx | hx <;> subst hx <;> decide
      · cases h

theorem mem_prefixed {a b : Nat} {d : Nat → Bool} {cs r : List Nat} (h : r ∈ prefixed a b d cs) :
    ∃ x rest, cs = 48 :: x :: rest ∧ (x = a ∨ x = b) ∧ r ∈ usDigits d rest ∧ r.length < rest.length := by
  unfold prefixed at h
  rw [mem_seq] at h
  obtain ⟨m1, h1, h⟩ := h
  rw [mem_seq] at h
  obtain ⟨m2, h2, h⟩ := h
  obtain ⟨c, hc, hc0⟩ := mem_lit_iff.mp h1
  obtain ⟨x, hx, hxab⟩ := mem_lit_iff.mp h2
  have : c = 48 := by simpa using hc0
  subst this; subst hx
  unfold usDigits1 at h
  rw [List.mem_filter] at h
  exact ⟨x, m2, hc, by simpa using hxab, h.1, by simpa using h.2⟩

/-- a prefixed integer remainder: the lexer succeeds and leaves no more than that -/
theorem prefixed_lex (a b rdx : Nat) (d : Nat → Bool) (hd : isDigitOf rdx = d)
    (hab : ∀ x, x = a ∨ x = b → radixOf x = some rdx) (cs r : List Nat) (h : r ∈ prefixed a b d cs) :
    ∃ r', lexRest cs = .ok r' ∧ r'.length ≤ r.length := by
  obtain ⟨x, rest, hcs, hx, hr, hlt⟩ := mem_prefixed h
  subst hcs; subst hd
  rw [lexRest_radix x rdx rest (hab x hx)]
  by_cases he : (radixRun rdx rest).1.isEmpty = true
  · have := usDigits_of_empty rdx rest r (by simpa using he) hr
    subst this; omega
  · rw [if_neg he]
    exact ⟨_, rfl, usDigits_ge (isDigitOf rdx) rdx (fun _ h => h) rest r hr⟩

theorem prefixed_radixOf (cs r : List Nat)
    (h : r ∈ alt (prefixed 98 66 bindigit) (alt (prefixed 111 79 octdigit) (prefixed 120 88 hexdigit)) cs) :
    (∃ x rest rdx, cs = 48 :: x :: rest ∧ radixOf x = some rdx) ∧ ∃ r', lexRest cs = .ok r' ∧ r'.length ≤ r.length := by
  rw [mem_alt, mem_alt] at h
  rcases h with h | h | h
  · refine ⟨?_, prefixed_lex 98 66 2 bindigit isDigitOf2 (by rintro x (hx | hx) <;> subst hx <;> rfl) cs r h⟩
    obtain ⟨x, rest, hcs, hx, _⟩ := mem_prefixed h
    exact ⟨x, rest, 2, hcs, by rcases hx with hx | hx <;> subst hx <;> rfl⟩
  · refine ⟨?_, prefixed_lex 111 79 8 octdigit isDigitOf8 (by rintro x (hx | hx) <;> subst hx <;> rfl) cs r h⟩
    obtain ⟨x, rest, hcs, hx, _⟩ := mem_prefixed h
    exact ⟨x, rest, 8, hcs, by rcases hx with hx | hx <;> subst hx <;> rfl⟩
  · refine ⟨?_, prefixed_lex 120 88 16 hexdigit isDigitOf16 (by rintro x (hx | hx) <;> subst hx <;> rfl) cs r h⟩
    obtain ⟨x, rest, hcs, hx, _⟩ := mem_prefixed h
    exact ⟨x, rest, 16, hcs, by rcases hx with hx | hx <;> subst hx <;> rfl⟩

/-! ### the number lexer against the grammar -/

/-- **Maximal munch / no spurious failure, in one statement.**  For every remainder `r` the grammar allows
    after ONE numeric literal at the start of `cs`: if the lexer succeeds, it leaves no more than `r`
    (its token is at least as long as that literal); if it fails, `r` is not empty (the whole text is
    not a literal). -/
theorem lexRest_vs_number (cs r : List Nat) (hr : r ∈ number cs) :
    match lexRest cs with
    | .ok r' => r'.length ≤ r.length
    | .error _ => r ≠ [] := by
  by_cases hrad : ∃ x rest rdx, cs = 48 :: x :: rest ∧ radixOf x = some rdx
  · obtain ⟨x, rest, rdx, hcs, hx⟩ := hrad
    obtain ⟨p1, p2, p3, p4, p5⟩ := radixOf_plain x rdx hx
    have hdr : drun 10 cs = x :: rest := by
      rw [hcs, drun_digit 10 48 _ (by decide)]; exact drun_stop 10 x rest p1 p2
    have hno46 : headIs (· = 46) (drun 10 cs) = false := by rw [hdr]; simp [headIs, p3]
    have hnoE : atExponent (drun 10 cs) = false := by
      cases hh : atExponent (drun 10 cs)
      · rfl
      · have := atExponent_head _ hh; rw [hdr] at this; simp only [headIs] at this; rw [p4] at this; cases this
    have hnoJ : headIs isJ (drun 10 cs) = false := by rw [hdr]; simpa [headIs] using p5
    unfold number at hr
    rw [mem_alt, mem_alt] at hr
    rcases hr with hr | hr | hr
    · unfold integer at hr
      rw [mem_alt] at hr
      rcases hr with hr | hr
      · have hge := decinteger_ge cs r hr
        rw [hdr] at hge
        rw [hcs, lexRest_radix x rdx rest hx]
        by_cases he : (radixRun rdx rest).1.isEmpty = true
        · rw [if_pos he]; intro h; subst h; simp at hge
        · rw [if_neg he]; have := drun_len rdx rest; simp at hge; simp only; omega
      · obtain ⟨_, r', h1, h2⟩ := prefixed_radixOf cs r hr
        rw [h1]; exact h2
    · rcases floatnumber_head cs r hr with h | h
      · rw [hno46] at h; cases h
      · rw [hnoE] at h; cases h
    · rcases imagnumber_head cs r hr with h | h | h
      · rw [hno46] at h; cases h
      · rw [hnoE] at h; cases h
      · rw [hnoJ] at h; cases h
  · have hn : lexRest cs = lexNormalRest cs := by
      apply lexRest_normal
      intro x rest hcs
      cases hh : radixOf x with
      | none => rfl
      | some rdx => exact absurd ⟨x, rest, rdx, hcs, hh⟩ hrad
    rw [hn]
    unfold number at hr
    rw [mem_alt, mem_alt] at hr
    rcases hr with hr | hr | hr
    · unfold integer at hr
      rw [mem_alt] at hr
      rcases hr with hr | hr
      · cases hl : lexNormalRest cs with
        | ok r' =>
          simp only
          exact Nat.le_trans (lexNormalRest_le cs r' hl) (decinteger_ge cs r hr)
        | error e =>
          simp only
          intro h; subst h
          exact decinteger_noerr cs e hr hl
      · exact absurd (prefixed_radixOf cs r hr).1 hrad
    · cases hl : lexNormalRest cs with
      | ok r' => exact floatnumber_ge cs r r' hr hl
      | error e =>
        simp only
        intro h; subst h
        have := floatnumber_err cs [] e hr hl
        simp [headIs] at this
    · rw [imagnumber_lex cs r hr]; exact Nat.le_refl _


/-! ### remainders are suffixes -/

/-- every result of the recogniser is a suffix of its input -/
def Suf (f : List Nat → List (List Nat)) : Prop := ∀ l r, r ∈ f l → r <:+ l

theorem suf_lit (p : Nat → Bool) : Suf (lit p) := by
  intro l r h
  obtain ⟨c, hc, _⟩ := mem_lit_iff.mp h
  subst hc; exact List.suffix_cons c r

theorem suf_seq {f g} (hf : Suf f) (hg : Suf g) : Suf (seq f g) := by
  intro l r h
  rw [mem_seq] at h
  obtain ⟨m, hm, h⟩ := h
  exact (hg m r h).trans (hf l m hm)

theorem suf_alt {f g} (hf : Suf f) (hg : Suf g) : Suf (alt f g) := by
  intro l r h
  rw [mem_alt] at h
  rcases h with h | h
  · exact hf l r h
  · exact hg l r h

theorem suf_opt {f} (hf : Suf f) : Suf (opt f) := by
  intro l r h
  rw [mem_opt] at h
  rcases h with h | h
  · subst h; exact List.suffix_refl _
  · exact hf l r h

theorem suf_usDigits (d : Nat → Bool) : Suf (usDigits d) := by
  intro l
  induction hn : l.length using Nat.strongRecOn generalizing l with
  | _ n ih =>
    intro r h
    cases l with
    | nil => simp [usDigits] at h; subst h; exact List.suffix_refl _
    | cons c t =>
      unfold usDigits at h
      rw [List.mem_cons] at h
      rcases h with h | h
      · subst h; exact List.suffix_refl _
      · by_cases hc : d c = true
        · rw [if_pos hc] at h
          exact (ih t.length (by subst hn; simp) t rfl r h).trans (List.suffix_cons c t)
        · rw [if_neg hc] at h
          by_cases h95 : c = 95
          · rw [if_pos h95] at h
            cases t with
            | nil => simp at h
            | cons c' t' =>
              simp only at h
              by_cases hc' : d c' = true
              · rw [if_pos hc'] at h
                exact ((ih t'.length (by subst hn; simp; omega) t' rfl r h).trans (List.suffix_cons c' t')).trans
                  (List.suffix_cons c _)
              · rw [if_neg hc'] at h; simp at h
          · rw [if_neg h95] at h; simp at h

theorem suf_usDigits1 (d : Nat → Bool) : Suf (usDigits1 d) := by
  intro l r h
  unfold usDigits1 at h
  rw [List.mem_filter] at h
  exact suf_usDigits d l r h.1

theorem suf_digitpart : Suf digitpart := by
  intro l r h
  obtain ⟨c, t, hl, _, hr⟩ := mem_digitpart.mp h
  subst hl
  exact (suf_usDigits digit t r hr).trans (List.suffix_cons c t)

theorem suf_number : Suf number := by
  have hpre (a b d) : Suf (prefixed a b d) := suf_seq (suf_lit _) (suf_seq (suf_lit _) (suf_usDigits1 d))
  have hpf : Suf pointfloat :=
    suf_alt (suf_seq (suf_opt suf_digitpart) (suf_seq (suf_lit _) suf_digitpart)) (suf_seq suf_digitpart (suf_lit _))
  have hex : Suf exponent := suf_seq (suf_lit _) (suf_seq (suf_opt (suf_lit _)) suf_digitpart)
  have hfl : Suf floatnumber := suf_alt hpf (suf_seq (suf_alt suf_digitpart hpf) hex)
  exact suf_alt
    (suf_alt (suf_alt (suf_seq (suf_lit _) (suf_usDigits _)) (suf_seq (suf_lit _) (suf_usDigits _)))
      (suf_alt (hpre _ _ _) (suf_alt (hpre _ _ _) (hpre _ _ _))))
    (suf_alt hfl (suf_seq (suf_alt hfl suf_digitpart) (suf_lit _)))

/-- the grammar's remainders after one literal are suffixes of the text -/
theorem number_suffix (cs r : List Nat) (h : r ∈ number cs) : r <:+ cs := suf_number cs r h


/-! ### exactly when the lexer fails -/

/-- `. _` -/
def dotUs : List Nat → Bool
  | 46 :: t => headIs (· = 95) t
  | _ => false

theorem dotUs_iff (d : List Nat) : dotUs d = true ↔ ∃ t', d = 46 :: 95 :: t' := by
  constructor
  · intro h
    unfold dotUs at h
    split at h
    · rename_i t
      cases t with
      | nil => simp [headIs] at h
      | cons u t' =>
        have : u = 95 := by simpa [headIs] using h
        subst this; exact ⟨t', rfl⟩
    · cases h
  · rintro ⟨t', h⟩; subst h; simp [dotUs, headIs]

/-- the two decimal shapes `lex_normal_number` rejects: `digits . _` (an underscore directly after the
    point), and a digit string with a leading `0` and a nonzero digit that is followed by neither a `.`,
    an exponent nor a `j` (CPython: "leading zeros in decimal integer literals are not permitted") -/
def decMalformed (cs : List Nat) : Bool :=
  dotUs (drun 10 cs) ||
  (headIs (· = 48) cs && (radixRun 10 cs).1.any (· ≠ 48) &&
    !(headIs (· = 46) (drun 10 cs)) && !(atExponent (drun 10 cs)) && !(headIs isJ (drun 10 cs)))

/-- the shapes `lex_number` rejects: a radix prefix `0x`/`0o`/`0b` without a digit of that radix after it
    (one underscore may come first), else the decimal shapes -/
def numMalformed (cs : List Nat) : Bool :=
  match cs with
  | 48 :: x :: rest =>
    match radixOf x with
    | some rdx => (radixRun rdx rest).1.isEmpty
    | none => decMalformed cs
  | _ => decMalformed cs

theorem lexNormalRest_error_iff (cs : List Nat) : (∃ e, lexNormalRest cs = .error e) ↔ decMalformed cs = true := by
  unfold decMalformed
  by_cases h46 : headIs (· = 46) (drun 10 cs) = true
  · cases hx : drun 10 cs with
    | nil => rw [hx] at h46; simp [headIs] at h46
    | cons c t =>
      have h46' := h46
      rw [hx] at h46
      have : c = 46 := by simpa [headIs] using h46
      subst this
      rw [hx] at h46'
      simp only [h46', Bool.not_true, Bool.and_false, Bool.false_and, Bool.or_false]
      by_cases hu : headIs (· = 95) t = true
      · rw [lexNormalRest_dot_us cs t hx hu]; simp [dotUs, hu]
      · rw [lexNormalRest_dot cs t hx (by simpa using hu)]; simp [dotUs, hu]
  · have hm : dotUs (drun 10 cs) = false := by
      cases hb : dotUs (drun 10 cs)
      · rfl
      · obtain ⟨t', h⟩ := (dotUs_iff _).mp hb
        rw [h] at h46; simp [headIs] at h46
    rw [hm]
    by_cases hat : atExponent (drun 10 cs) = true
    · rw [lexNormalRest_exp cs hat]; simp [hat]
    · unfold drun at h46 hat ⊢
      simp only [lexNormalRest, h46, hat, Bool.or_self, Bool.false_eq_true, if_false]
      by_cases hj : headIs isJ (radixRun 10 cs).2 = true
      · simp [hj]
      · simp only [hj, Bool.false_eq_true, if_false]
        by_cases hc : (headIs (· = 48) cs && (radixRun 10 cs).1.any (· ≠ 48)) = true
        · rw [if_pos hc]; simpa using hc
        · rw [if_neg hc]; simp at hc; simpa using hc

/-- **The lexer fails on exactly the malformed shapes** (in particular: the failure arms inside the exponent
    scanner are dead since the `at_exponent` guard). -/
theorem lexRest_error_iff (cs : List Nat) : (∃ e, lexRest cs = .error e) ↔ numMalformed cs = true := by
  by_cases hrad : ∃ x rest rdx, cs = 48 :: x :: rest ∧ radixOf x = some rdx
  · obtain ⟨x, rest, rdx, hcs, hx⟩ := hrad
    subst hcs
    rw [lexRest_radix x rdx rest hx]
    simp only [numMalformed, hx]
    by_cases he : (radixRun rdx rest).1.isEmpty = true
    · rw [if_pos he]; simp [he]
    · rw [if_neg he]; simp [he]
  · have hn : lexRest cs = lexNormalRest cs := by
      apply lexRest_normal
      intro x rest hcs
      cases hh : radixOf x with
      | none => rfl
      | some rdx => exact absurd ⟨x, rest, rdx, hcs, hh⟩ hrad
    have hm : numMalformed cs = decMalformed cs := by
      unfold numMalformed
      split
      · rename_i x rest
        cases hh : radixOf x with
        | none => rfl
        | some rdx => exact absurd ⟨x, rest, rdx, rfl, hh⟩ hrad
      · rfl
    rw [hn, hm]; exact lexNormalRest_error_iff cs


/-! ### the malformed shapes in terms of the grammar alone -/

/-- what `radix_run` leaves cannot be extended: it is empty or starts with neither a digit nor `_ digit` -/
theorem radixRun_drun (rdx : Nat) (l : List Nat) : radixRun rdx (drun rdx l) = ([], drun rdx l) := by
  induction l with
  | nil => simp [drun, radixRun]
  | cons c t ih =>
    by_cases hc : isDigitOf rdx c = true
    · rw [drun_digit rdx c t hc]; exact ih
    · have hc' : isDigitOf rdx c = false := by simpa using hc
      by_cases h2 : (c = 95 && headIs (isDigitOf rdx) t) = true
      · have : drun rdx (c :: t) = drun rdx t := by unfold drun; rw [radixRun_us rdx c t hc' h2]
        rw [this]; exact ih
      · have h2' : (c = 95 && headIs (isDigitOf rdx) t) = false := by simpa using h2
        have : drun rdx (c :: t) = c :: t := by unfold drun; rw [radixRun_stop rdx c t hc' h2']
        rw [this]; exact radixRun_stop rdx c t hc' h2'

theorem usDigits_stop (rdx : Nat) (r : List Nat) (h : radixRun rdx r = ([], r)) :
    usDigits (isDigitOf rdx) r = [r] := by
  cases r with
  | nil => simp [usDigits]
  | cons c t =>
    by_cases hc : isDigitOf rdx c = true
    · rw [radixRun_digit rdx c t hc] at h; simp at h
    · have hc' : isDigitOf rdx c = false := by simpa using hc
      by_cases h2 : (c = 95 && headIs (isDigitOf rdx) t) = true
      · rw [radixRun_us rdx c t hc' h2] at h
        have := radixRun_len rdx t
        rw [h] at this; simp at this; omega
      · unfold usDigits
        rw [if_neg hc]
        by_cases h95 : c = 95
        · rw [if_pos h95]
          cases t with
          | nil => rfl
          | cons c' t' =>
            have : isDigitOf rdx c' = false := by simpa [h95, headIs] using h2
            simp [this]
        · rw [if_neg h95]

theorem drun_of_usDigits_single (rdx : Nat) (r : List Nat) (h : usDigits (isDigitOf rdx) r = [r]) : drun rdx r = r := by
  have hm := radixRun_mem rdx r.length r (Nat.le_refl _)
  rw [h] at hm
  simpa [drun] using hm

/-- digits were collected: `radix_run` consumed something -/
theorem drun_lt (rdx : Nat) (l : List Nat) (h : (radixRun rdx l).1 ≠ []) : (drun rdx l).length < l.length := by
  cases l with
  | nil => simp [radixRun] at h
  | cons c t =>
    by_cases hc : isDigitOf rdx c = true
    · rw [drun_digit rdx c t hc]; have := drun_len rdx t; simp; omega
    · have hc' : isDigitOf rdx c = false := by simpa using hc
      by_cases h2 : (c = 95 && headIs (isDigitOf rdx) t) = true
      · have : drun rdx (c :: t) = drun rdx t := by unfold drun; rw [radixRun_us rdx c t hc' h2]
        rw [this]; have := drun_len rdx t; simp; omega
      · rw [radixRun_stop rdx c t hc' (by simpa using h2)] at h; simp at h

/-- `(["_"] digit)+` has no remainder ⇔ `radix_run` collects no digit -/
theorem usDigits1_nil_iff (rdx : Nat) (rest : List Nat) :
    usDigits1 (isDigitOf rdx) rest = [] ↔ (radixRun rdx rest).1.isEmpty = true := by
  unfold usDigits1
  rw [List.filter_eq_nil_iff]
  constructor
  · intro h
    cases he : (radixRun rdx rest).1 with
    | nil => rfl
    | cons a b =>
      have hlt := drun_lt rdx rest (by rw [he]; simp)
      have := h _ (radixRun_mem rdx rest.length rest (Nat.le_refl _))
      simp at this; unfold drun at hlt; omega
  · intro he r hr
    have := usDigits_of_empty rdx rest r (by simpa using he) hr
    subst this; simp


theorem exponent_nil_iff (r : List Nat) : exponent r = [] ↔ atExponent r = false := by
  constructor
  · intro h
    cases hat : atExponent r
    · rfl
    · have ht := lexExponent_total r
      rcases lexExponent_sound r _ ht with ⟨_, h2⟩ | h2
      · rw [hat] at h2; cases h2
      · rw [h] at h2; simp at h2
  · intro h
    cases he : exponent r with
    | nil => rfl
    | cons a b =>
      have := (exponent_drun r a (by rw [he]; simp)).1
      rw [h] at this; cases this

/-- the end of the leading digit string is a `decinteger` remainder unless the string has a leading `0`
    and a nonzero digit -/
theorem drun_mem_decinteger_iff (c : Nat) (t : List Nat) (hc : isDec c = true) :
    drun 10 (c :: t) ∈ decinteger (c :: t) ↔
      (headIs (· = 48) (c :: t) && (radixRun 10 (c :: t)).1.any (· ≠ 48)) = false := by
  have hc10 : isDigitOf 10 c = true := hc
  constructor
  · intro h
    have hstop := radixRun_drun 10 (c :: t)
    unfold decinteger at h
    rw [mem_alt] at h
    rcases h with h | h
    · rw [mem_seq] at h
      obtain ⟨t', ht, h⟩ := h
      obtain ⟨c', hcc, hnz⟩ := mem_lit_iff.mp ht
      simp only [List.cons.injEq] at hcc
      rw [← hcc.1] at hnz
      have : c ≠ 48 := by intro hh; subst hh; revert hnz; decide
      simp [headIs, this]
    · rw [mem_seq] at h
      obtain ⟨t', ht, h⟩ := h
      obtain ⟨c', hcc, hz0⟩ := mem_lit_iff.mp ht
      simp only [List.cons.injEq] at hcc
      obtain ⟨hc1, hc2⟩ := hcc
      subst hc1; subst hc2
      obtain ⟨pre, h1, h2⟩ := usDigits_radixRun (· = 48) 10 zero_dec _ t.length t (Nat.le_refl _) h
      have hc48 : c = 48 := by simpa using hz0
      rw [radixRun_digit 10 c t hc10, h1, hstop]
      simp only [List.append_nil, List.any_cons, Bool.and_eq_false_iff, Bool.or_eq_false_iff]
      right
      refine ⟨by simp [hc48], ?_⟩
      rw [List.any_eq_false]
      intro x hx
      have := h2 x hx
      simp at this; simp [this]
  · intro h
    rw [drun_digit 10 c t hc10]
    unfold decinteger
    rw [mem_alt]
    by_cases hc48 : c = 48
    · right
      rw [mem_seq]
      refine ⟨t, mem_lit (by simp [hc48]), ?_⟩
      apply radixRun_zeros t.length t (Nat.le_refl _)
      rw [radixRun_digit 10 c t hc10] at h
      simp only [headIs, hc48, decide_true, Bool.true_and, List.any_cons, Bool.or_eq_false_iff] at h
      rw [List.all_eq_true]
      intro x hx
      have := List.any_eq_false.mp h.2 x hx
      simpa using this
    · left
      rw [mem_seq]
      refine ⟨t, mem_lit ?_, ?_⟩
      · simp only [isDec, isDigitOf, Bool.and_eq_true, decide_eq_true_eq] at hc
        simp only [nonzerodigit, Bool.and_eq_true, decide_eq_true_eq]; omega
      · rw [← isDigitOf10]; exact radixRun_mem 10 t.length t (Nat.le_refl _)

/-- a radix prefix `0b`/`0o`/`0x` with no `(["_"] digit)+` of that radix after it -/
def radixNoDigit (cs : List Nat) : Prop :=
  ∃ x rest, cs = 48 :: x :: rest ∧
    (((x = 98 ∨ x = 66) ∧ usDigits1 bindigit rest = []) ∨ ((x = 111 ∨ x = 79) ∧ usDigits1 octdigit rest = []) ∨
     ((x = 120 ∨ x = 88) ∧ usDigits1 hexdigit rest = []))

/-- a `digitpart`, then `.`, then directly an underscore -/
def dotUnderscore (cs : List Nat) : Prop := ∃ t, (46 :: 95 :: t) ∈ digitpart cs

/-- the longest `digitpart` at the start is not a `decinteger` (leading `0`, then a nonzero digit), and neither
    a `.`, an `exponent` nor a `j` follows it -/
def leadingZero (cs : List Nat) : Prop :=
  ∃ r, r ∈ digitpart cs ∧ usDigits digit r = [r] ∧ r ∉ decinteger cs ∧
    lit (· = 46) r = [] ∧ exponent r = [] ∧ lit (fun c => c = 106 || c = 74) r = []

/-- the malformed shapes, written with the grammar's own nonterminals only -/
def NumMalformedSpec (cs : List Nat) : Prop := radixNoDigit cs ∨ dotUnderscore cs ∨ leadingZero cs

theorem lit_nil_iff (p : Nat → Bool) (r : List Nat) : lit p r = [] ↔ headIs p r = false := by
  cases r with
  | nil => simp [lit, headIs]
  | cons c t => by_cases h : p c = true <;> simp [lit, headIs, h]


theorem startsNumber_cases (cs : List Nat) (hs : startsNumber cs = true) :
    (∃ c t, cs = c :: t ∧ isDec c = true) ∨ (∃ d t, cs = 46 :: d :: t ∧ isDec d = true) := by
  match cs, hs with
  | [c], hs => left; exact ⟨c, [], rfl, by simpa [startsNumber] using hs⟩
  | c :: d :: t, hs =>
    rw [startsNumber_cons2] at hs
    by_cases e : c = 46
    · subst e; right; exact ⟨d, t, rfl, by simpa using hs⟩
    · left; exact ⟨c, d :: t, rfl, by simpa [e] using hs⟩

theorem numMalformed_normal (cs : List Nat) (hrad : ¬ ∃ x rest rdx, cs = 48 :: x :: rest ∧ radixOf x = some rdx) :
    numMalformed cs = decMalformed cs := by
  unfold numMalformed
  split
  · rename_i x rest
    cases hh : radixOf x with
    | none => rfl
    | some rdx => exact absurd ⟨x, rest, rdx, rfl, hh⟩ hrad
  · rfl

theorem radixNoDigit_iff (x rdx : Nat) (rest : List Nat) (hx : radixOf x = some rdx) :
    radixNoDigit (48 :: x :: rest) ↔ (radixRun rdx rest).1.isEmpty = true := by
  have key : radixNoDigit (48 :: x :: rest) ↔
      (((x = 98 ∨ x = 66) ∧ usDigits1 bindigit rest = []) ∨ ((x = 111 ∨ x = 79) ∧ usDigits1 octdigit rest = []) ∨
       ((x = 120 ∨ x = 88) ∧ usDigits1 hexdigit rest = [])) := by
    unfold radixNoDigit
    constructor
    · rintro ⟨x', rest', heq, h⟩
      simp only [List.cons.injEq, true_and] at heq
      rw [← heq.1, ← heq.2] at h; exact h
    · intro h; exact ⟨x, rest, rfl, h⟩
  rw [key, ← isDigitOf2, ← isDigitOf8, ← isDigitOf16, usDigits1_nil_iff, usDigits1_nil_iff, usDigits1_nil_iff]
  unfold radixOf at hx
  by_cases h16 : x = 120 ∨ x = 88
  · have : rdx = 16 := by rcases h16 with h | h <;> subst h <;> simp at hx <;> exact hx.symm
    subst this
    constructor
    · rintro (⟨h, _⟩ | ⟨h, _⟩ | ⟨_, h⟩)
      · omega
      · omega
      · exact h
    · intro h; exact Or.inr (Or.inr ⟨h16, h⟩)
  · by_cases h8 : x = 111 ∨ x = 79
    · have : rdx = 8 := by rcases h8 with h | h <;> subst h <;> simp at hx <;> exact hx.symm
      subst this
      constructor
      · rintro (⟨h, _⟩ | ⟨_, h⟩ | ⟨h, _⟩)
        · omega
        · exact h
        · omega
      · intro h; exact Or.inr (Or.inl ⟨h8, h⟩)
    · by_cases h2 : x = 98 ∨ x = 66
      · have : rdx = 2 := by rcases h2 with h | h <;> subst h <;> simp at hx <;> exact hx.symm
        subst this
        constructor
        · rintro (⟨_, h⟩ | ⟨h, _⟩ | ⟨h, _⟩)
          · exact h
          · omega
          · omega
        · intro h; exact Or.inl ⟨h2, h⟩
      · exfalso
        have a1 : ¬ x = 120 := fun h => h16 (Or.inl h)
        have a2 : ¬ x = 88 := fun h => h16 (Or.inr h)
        have a3 : ¬ x = 111 := fun h => h8 (Or.inl h)
        have a4 : ¬ x = 79 := fun h => h8 (Or.inr h)
        have a5 : ¬ x = 98 := fun h => h2 (Or.inl h)
        have a6 : ¬ x = 66 := fun h => h2 (Or.inr h)
        simp [a1, a2, a3, a4, a5, a6] at hx


theorem decMalformed_iff (cs : List Nat) :
    decMalformed cs = true ↔
      (∃ t', drun 10 cs = 46 :: 95 :: t') ∨
      ((headIs (· = 48) cs && (radixRun 10 cs).1.any (· ≠ 48)) = true ∧ headIs (· = 46) (drun 10 cs) = false ∧
        atExponent (drun 10 cs) = false ∧ headIs isJ (drun 10 cs) = false) := by
  unfold decMalformed
  rw [Bool.or_eq_true]
  rw [dotUs_iff]
  simp only [Bool.and_eq_true, Bool.not_eq_true']
  constructor
  · rintro (h | ⟨⟨⟨⟨a, b⟩, c⟩, d⟩, e⟩)
    · exact Or.inl h
    · exact Or.inr ⟨⟨a, b⟩, c, d, e⟩
  · rintro (h | ⟨⟨a, b⟩, c, d, e⟩)
    · exact Or.inl h
    · exact Or.inr ⟨⟨⟨⟨a, b⟩, c⟩, d⟩, e⟩

/-- **The malformed shapes in the grammar's own terms.** -/
theorem numMalformed_iff_spec (cs : List Nat) (hs : startsNumber cs = true) :
    numMalformed cs = true ↔ NumMalformedSpec cs := by
  rcases startsNumber_cases cs hs with ⟨c, t, hcs, hc⟩ | ⟨d, t, hcs, hd⟩
  · -- the text starts with a digit
    have hd_mem : drun 10 cs ∈ digitpart cs := by rw [hcs]; exact radixRun_digitpart c t hc
    have hd_stop : usDigits digit (drun 10 cs) = [drun 10 cs] := by
      rw [← isDigitOf10]; exact usDigits_stop 10 _ (radixRun_drun 10 cs)
    have hdot : dotUnderscore cs ↔ ∃ t', drun 10 cs = 46 :: 95 :: t' := by
      constructor
      · rintro ⟨t', h⟩; exact ⟨t', by rw [← digitpart_drun cs _ h]; exact drun_dot _⟩
      · rintro ⟨t', h⟩; exact ⟨t', by rw [← h]; exact hd_mem⟩
    have hlz : leadingZero cs ↔
        ((headIs (· = 48) cs && (radixRun 10 cs).1.any (· ≠ 48)) = true ∧ headIs (· = 46) (drun 10 cs) = false ∧
          atExponent (drun 10 cs) = false ∧ headIs isJ (drun 10 cs) = false) := by
      have hdec := drun_mem_decinteger_iff c t hc
      rw [← hcs] at hdec
      have hJ : (fun c => decide (c = 106) || decide (c = 74)) = isJ := rfl
      constructor
      · rintro ⟨r, h1, h2, h3, h4, h5, h6⟩
        have hr : r = drun 10 cs := by
          rw [← digitpart_drun cs r h1]
          exact (drun_of_usDigits_single 10 r (by rw [isDigitOf10]; exact h2)).symm
        subst hr
        refine ⟨?_, (lit_nil_iff _ _).mp h4, (exponent_nil_iff _).mp h5, ?_⟩
        · cases hb : (headIs (· = 48) cs && (radixRun 10 cs).1.any (· ≠ 48))
          · exact absurd (hdec.mpr hb) h3
          · rfl
        · rw [← hJ]; exact (lit_nil_iff _ _).mp h6
      · rintro ⟨h1, h2, h3, h4⟩
        refine ⟨drun 10 cs, hd_mem, hd_stop, ?_, (lit_nil_iff _ _).mpr h2, (exponent_nil_iff _).mpr h3,
          (lit_nil_iff _ _).mpr (by rw [hJ]; exact h4)⟩
        intro hm
        rw [hdec.mp hm] at h1; cases h1
    by_cases hrad : ∃ x rest rdx, cs = 48 :: x :: rest ∧ radixOf x = some rdx
    · obtain ⟨x, rest, rdx, hx0, hx⟩ := hrad
      obtain ⟨p1, p2, p3, p4, p5⟩ := radixOf_plain x rdx hx
      have hrr : radixRun 10 cs = ([48], x :: rest) := by
        rw [hx0, radixRun_digit 10 48 _ (by decide), radixRun_stop 10 x rest p1 (by simp [p2])]
      have hdr : drun 10 cs = x :: rest := by unfold drun; rw [hrr]
      have hnd : ¬ dotUnderscore cs := by
        rw [hdot, hdr]; rintro ⟨t', h⟩; simp only [List.cons.injEq] at h; exact p3 h.1
      have hnl : ¬ leadingZero cs := by
        rw [hlz, hrr]; rintro ⟨h, _⟩; simp at h
      have hm : numMalformed cs = (radixRun rdx rest).1.isEmpty := by
        rw [hx0]; simp only [numMalformed, hx]
      unfold NumMalformedSpec
      rw [hm, ← radixNoDigit_iff x rdx rest hx, ← hx0]
      constructor
      · intro h; exact Or.inl h
      · rintro (h | h | h)
        · exact h
        · exact absurd h hnd
        · exact absurd h hnl
    · have hnr : ¬ radixNoDigit cs := by
        rintro ⟨x, rest, hx0, h⟩
        apply hrad
        rcases h with ⟨h, _⟩ | ⟨h, _⟩ | ⟨h, _⟩
        · exact ⟨x, rest, 2, hx0, by rcases h with h | h <;> subst h <;> rfl⟩
        · exact ⟨x, rest, 8, hx0, by rcases h with h | h <;> subst h <;> rfl⟩
        · exact ⟨x, rest, 16, hx0, by rcases h with h | h <;> subst h <;> rfl⟩
      unfold NumMalformedSpec
      rw [numMalformed_normal cs hrad, decMalformed_iff, hdot, hlz]
      constructor
      · intro h; exact Or.inr h
      · rintro (h | h)
        · exact absurd h hnr
        · exact h
  · -- `.` digit …
    have hf : numMalformed cs = false := by
      rw [numMalformed_normal cs (by rintro ⟨x, rest, rdx, h, _⟩; rw [hcs] at h; simp at h)]
      cases hb : decMalformed cs
      · rfl
      · rcases (decMalformed_iff cs).mp hb with ⟨t', h⟩ | ⟨h, _⟩
        · rw [hcs, drun_dot] at h
          simp only [List.cons.injEq, true_and] at h
          exact absurd h.1 (isDec_not95 d hd)
        · rw [hcs] at h; simp [headIs] at h
    rw [hf]
    constructor
    · intro h; cases h
    · have hnd : digitpart cs = [] := by rw [hcs]; simp [digitpart, digit]
      rintro (⟨x, rest, h, _⟩ | ⟨t', h⟩ | ⟨r, h, _⟩)
      · rw [hcs] at h; simp at h
      · rw [hnd] at h; simp at h
      · rw [hnd] at h; simp at h

/-- the lexer fails on exactly the texts that have one of the three malformed shapes of the grammar -/
theorem lexRest_error_iff_spec (cs : List Nat) (hs : startsNumber cs = true) :
    (∃ e, lexRest cs = .error e) ↔ NumMalformedSpec cs := by
  rw [lexRest_error_iff, numMalformed_iff_spec cs hs]


/-! ### the theorems -/

/-- **Python's numeric literals ⊆ number lexer.**  A text that is, as a whole, a numeric literal of the
    Language Reference is taken by `lex_number` as exactly one numeric token (no failure, nothing left). -/
theorem acceptsNumber_complete (cs : List Nat) (hn : isNumber cs = true) : acceptsNumber cs = true := by
  unfold isNumber at hn
  rw [List.any_eq_true] at hn
  obtain ⟨r, hr, he⟩ := hn
  have : r = [] := by simpa using he
  subst this
  have h := lexRest_vs_number cs [] hr
  unfold acceptsNumber
  cases hl : lexRest cs with
  | ok r' => rw [hl] at h; simp only [List.length_nil, Nat.le_zero, List.length_eq_zero_iff] at h; simp [h]
  | error e => rw [hl] at h; exact absurd rfl h

/-- **number lexer = Python's numeric literal grammar** on whole texts (entered as the lexer enters it:
    at a digit, or at a `.` followed by a digit) -/
theorem acceptsNumber_eq_isNumber (cs : List Nat) (hs : startsNumber cs = true) :
    acceptsNumber cs = isNumber cs := by
  cases hn : isNumber cs
  · exact malformed_number_rejected cs hs hn
  · exact acceptsNumber_complete cs hn

/-- a text on which the lexer fails is not a numeric literal -/
theorem lexRest_error_not_literal (cs e : List Nat) (h : lexRest cs = .error e) : isNumber cs = false := by
  cases hn : isNumber cs
  · rfl
  · have := acceptsNumber_complete cs hn
    unfold acceptsNumber at this; rw [h] at this; cases this

/-- **Maximal munch.**  When `lex_number` delivers a token, the token is a numeric literal and NO numeric
    literal at the start of the text is longer (no remainder the grammar allows is shorter than the
    lexer's). -/
theorem lexRest_longest (cs r' : List Nat) (hs : startsNumber cs = true) (h : lexRest cs = .ok r') :
    r' ∈ number cs ∧ ∀ r, r ∈ number cs → r'.length ≤ r.length := by
  refine ⟨lexRest_sound cs r' hs h, ?_⟩
  intro r hr
  have := lexRest_vs_number cs r hr
  rw [h] at this; exact this

/-- **Completeness with remainder.**  On a text that is not one of the malformed shapes, the lexer takes
    exactly the LONGEST numeric literal at the start of the text. -/
theorem lexRest_complete (cs r : List Nat) (hs : startsNumber cs = true) (hm : numMalformed cs = false)
    (hr : r ∈ number cs) (hmin : ∀ r2, r2 ∈ number cs → r.length ≤ r2.length) : lexRest cs = .ok r := by
  cases hl : lexRest cs with
  | error e =>
    have := (lexRest_error_iff cs).mp ⟨e, hl⟩
    rw [hm] at this; cases this
  | ok r' =>
    obtain ⟨h1, h2⟩ := lexRest_longest cs r' hs hl
    have hlen : r'.length = r.length := Nat.le_antisymm (h2 r hr) (hmin r' h1)
    have hsuf := List.suffix_of_suffix_length_le (number_suffix cs r' h1) (number_suffix cs r hr) (Nat.le_of_eq hlen)
    rw [hsuf.eq_of_length hlen]

/-- the lexer is total on well-formed starts: off the malformed shapes it always delivers the longest literal -/
theorem lexRest_total (cs : List Nat) (hs : startsNumber cs = true) (hm : numMalformed cs = false) :
    ∃ r, lexRest cs = .ok r ∧ r ∈ number cs ∧ ∀ r2, r2 ∈ number cs → r.length ≤ r2.length := by
  cases hl : lexRest cs with
  | error e =>
    have := (lexRest_error_iff cs).mp ⟨e, hl⟩
    rw [hm] at this; cases this
  | ok r' => exact ⟨r', rfl, lexRest_longest cs r' hs hl⟩

/-- The malformedness hypothesis of `lexRest_complete` cannot be dropped: the lexer is greedy and does NOT
    fall back to a shorter literal.  `09`, `1._` and `0x` each start with a numeric literal (`0`, `1.`, `0`)
    but are lexical errors. -/
theorem lexRest_no_fallback :
    (numMalformed [48, 57] = true ∧ [57] ∈ number [48, 57] ∧ lexRest [48, 57] = .error []) ∧
    (numMalformed [49, 46, 95] = true ∧ [95] ∈ number [49, 46, 95] ∧ lexRest [49, 46, 95] = .error [46, 95]) ∧
    (numMalformed [48, 120] = true ∧ [120] ∈ number [48, 120] ∧ lexRest [48, 120] = .error [48, 120]) :=
  ⟨⟨by decide, by decide, rfl⟩, ⟨by decide, by decide, rfl⟩, ⟨by decide, by decide, rfl⟩⟩

-- non-vacuity: hypotheses hold on concrete literals, shapes named in the task
example : isNumber [48, 95, 48] = true ∧ acceptsNumber [48, 95, 48] = true := by decide                 -- 0_0
example : isNumber [48, 57, 46, 53] = true ∧ acceptsNumber [48, 57, 46, 53] = true := by decide         -- 09.5
example : isNumber [48, 57, 106] = true ∧ acceptsNumber [48, 57, 106] = true := by decide               -- 09j
example : isNumber [48, 101, 49] = true ∧ acceptsNumber [48, 101, 49] = true := by decide               -- 0e1
example : isNumber [48, 57] = false ∧ acceptsNumber [48, 57] = false := by decide                       -- 09
example : isNumber [48, 48] = true ∧ acceptsNumber [48, 48] = true := by decide                         -- 00
example : isNumber [49, 101, 95, 49] = false ∧ acceptsNumber [49, 101, 95, 49] = false := by decide     -- 1e_1
example : isNumber [49, 95, 95, 48] = false ∧ acceptsNumber [49, 95, 95, 48] = false := by decide       -- 1__0
example : startsNumber [49, 46, 53, 101, 45, 51, 74] = true ∧ isNumber [49, 46, 53, 101, 45, 51, 74] = true := by decide  -- 1.5e-3J
-- a literal followed by characters that do not extend it is taken and the rest is left (NOT an error):
example : lexRest [49, 95] = .ok [95] ∧ numMalformed [49, 95] = false := ⟨rfl, by decide⟩               -- 1_
example : lexRest [49, 101, 43] = .ok [101, 43] ∧ numMalformed [49, 101, 43] = false := ⟨rfl, by decide⟩ -- 1e+
example : lexRest [49, 95, 101, 49] = .ok [95, 101, 49] := rfl                                          -- 1_e1
example : lexRest [48, 120, 95, 102] = .ok [] := rfl                                                    -- 0x_f
-- lexRest_complete / lexRest_longest / lexRest_total on `1.5e3+2`: the longest literal is `1.5e3`
example : startsNumber [49, 46, 53, 101, 51, 43, 50] = true ∧ numMalformed [49, 46, 53, 101, 51, 43, 50] = false ∧
    [43, 50] ∈ number [49, 46, 53, 101, 51, 43, 50] ∧
    (∀ r2, r2 ∈ number [49, 46, 53, 101, 51, 43, 50] → [43, 50].length ≤ r2.length) ∧
    lexRest [49, 46, 53, 101, 51, 43, 50] = .ok [43, 50] := ⟨by decide, by decide, by decide, by decide, rfl⟩
-- lexRest_error_iff / lexRest_error_not_literal
example : lexRest [48, 98, 50] = .error [48, 98, 50] ∧ numMalformed [48, 98, 50] = true := ⟨rfl, by decide⟩   -- 0b2
example : lexRest [48, 48, 95, 49] = .error [] ∧ isNumber [48, 48, 95, 49] = false := ⟨rfl, by decide⟩         -- 00_1

-- numMalformed_iff_spec / lexRest_error_iff_spec: each disjunct is inhabited, and the predicate is not trivial
example : startsNumber [48, 57] = true ∧ leadingZero [48, 57] :=                                          -- 09
  ⟨by decide, [], by decide, by decide, by decide, by decide, by decide, by decide⟩
example : startsNumber [49, 46, 95] = true ∧ dotUnderscore [49, 46, 95] := ⟨by decide, [], by decide⟩    -- 1._
example : startsNumber [48, 120] = true ∧ radixNoDigit [48, 120] :=                                       -- 0x
  ⟨by decide, 120, [], rfl, Or.inr (Or.inr ⟨Or.inl rfl, by decide⟩)⟩
example : ¬ NumMalformedSpec [49, 95] :=                                                                  -- 1_
  fun h => absurd ((numMalformed_iff_spec _ (by decide)).mpr h) (by decide)

end PV.C04
