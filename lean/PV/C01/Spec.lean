import PV.C01.Model
/-
  PV.C01.Spec — what the Python reference says, stated without looking at the Rust control flow.

  * Assignment-target tagging (CPython `_PyPegen_set_expr_context`, Grammar `star_targets`/`del_targets`):
    the target expression itself and, recursively, the elements of target tuples/lists and the operand of a
    starred target get the new context — provided they are names, attributes, subscripts, starred, tuples or
    lists.  Nothing else changes: not the object of an attribute, not the object or index of a subscript,
    not anything inside any other expression form.
  * A call's arguments are partitioned, order preserved, into positional (plain and `*x`) and keyword
    (`k=v` and `**x`) items; a plain positional item may not follow a keyword item, nothing positional may
    follow `**x`.
  * `if t1: b1 elif t2: b2 … else: e`  means  `If(t1, b1, [If(t2, b2, [… e])])`.
  * The level of `from <dots> name import …` is the number of dot characters.
-/
namespace PV.C01
namespace Spec

/-- the i-th child expression that an assignment path can step into -/
def child : E → Nat → Option E
  | .tuple es _, i => es[i]?
  | .list es _, i => es[i]?
  | .attrib v _ _, 0 => some v
  | .subscript v _ _, 0 => some v
  | .subscript _ s _, 1 => some s
  | .starred v _, 0 => some v
  | _, _ => none

/-- sub-expression at a path -/
def subAt : E → List Nat → Option E
  | e, [] => some e
  | e, i :: p =>
    match child e i with
    | some x => subAt x p
    | none => none

def ctxOf : E → Option Ctx
  | .name _ c | .tuple _ c | .list _ c | .attrib _ _ c | .subscript _ _ c | .starred _ c => some c
  | .other _ => none

/-- the expression forms that carry a context -/
def hasCtx (e : E) : Bool := (ctxOf e).isSome

/-- CPython's rule: is the node at `path` (re)tagged when `e` is used as an assignment/deletion target?
    Defined by walking the PATH: every step must go through an element of a tuple/list or the operand of a
    starred expression, and the node reached must be one of the six context-carrying forms. -/
def isTarget : E → List Nat → Bool
  | e, [] => hasCtx e
  | .tuple es _, i :: p => match es[i]? with
    | some x => isTarget x p
    | none => false
  | .list es _, i :: p => match es[i]? with
    | some x => isTarget x p
    | none => false
  | .starred v _, 0 :: p => isTarget v p
  | _, _ :: _ => false

mutual
/-- the tree with every context tag forgotten (set to Load): "everything but the tags" -/
def erase : E → E
  | .name id _ => .name id .load
  | .tuple es _ => .tuple (eraseList es) .load
  | .list es _ => .list (eraseList es) .load
  | .attrib v a _ => .attrib (erase v) a .load
  | .subscript v s _ => .subscript (erase v) (erase s) .load
  | .starred v _ => .starred (erase v) .load
  | .other t => .other t
def eraseList : List E → List E
  | [] => []
  | e :: es => erase e :: eraseList es
end

/-- positional items (plain and starred) -/
def isPositional (a : ArgItem) : Bool :=
  match a.kind with
  | .pos | .star => true
  | _ => false

def isKeyword (a : ArgItem) : Bool := !isPositional a

def kwName (a : ArgItem) : Option String :=
  match a.kind with
  | .kw n => some n
  | _ => none

/-- the ordering rules of a call's argument list (Grammar `args`/`kwargs` plus the duplicate-keyword check
    this parser performs early): reading left to right,
    no plain positional after any keyword item, nothing positional after `**`, keyword names distinct -/
def argsWellOrdered : List ArgItem → (seenKw seenDstar : Bool) → (names : List String) → Bool
  | [], _, _, _ => true
  | a :: rest, sk, sd, ns =>
    match a.kind with
    | .pos => !sk && !sd && argsWellOrdered rest sk sd ns
    | .star => !sd && argsWellOrdered rest sk sd ns
    | .kw n => !ns.contains n && argsWellOrdered rest true sd (n :: ns)
    | .dstar => argsWellOrdered rest true true ns

/-- reference meaning of an if/elif/else chain, by recursion from the LEFT -/
def ifMeaning (stop : Nat) : List Clause → List Stmt → List Stmt
  | [], els => els
  | c :: cs, els => [Stmt.ifS c.start stop c.test c.body (ifMeaning stop cs els)]

/-- "all defaults come last": no parameter without default after one with default -/
def defaultsLast : List Param → Bool
  | [] => true
  | p :: ps => if p.hasDefault then ps.all (·.hasDefault) else defaultsLast ps

end Spec
end PV.C01
