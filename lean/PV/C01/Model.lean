/-
  PV.C01.Model — executable models of the hand-written mechanisms on the path from source text to tree
  (property C01):

    * `setContext`            parser/src/context.rs  `set_context`
    * `parseArgs`             parser/src/function.rs `parse_args`
    * `validatePosParams`     parser/src/function.rs `validate_pos_params`
    * `validateArguments`     parser/src/function.rs `validate_arguments`
    * `elifChain`             python.lalrpop `IfStatement`   (nesting of `elif` clauses from the right)
    * `tryEnd`                python.lalrpop `TryStatement`  (choice of the end location)
    * `importLevel`           python.lalrpop `ImportFromLocation` / `ImportDots` (`.` = 1, `...` = 3, summed)
    * `dottedName`            python.lalrpop `DottedName`    (join with '.')
    * `genericList`           python.lalrpop `GenericList` / parenthesised `Atom` (one element without a
                              trailing comma is not a tuple)

  The soft-keyword transformer is modelled in `PV/Lexer/SoftKw.lean` (lexer builder) and only used from
  `Thm.lean`.  Core Lean only.

  Expression trees: the six forms `set_context` distinguishes are constructors; every other expression form
  (BoolOp, NamedExpr, BinOp, UnaryOp, Lambda, IfExp, Dict, Set, the comprehensions, Await, Yield, YieldFrom,
  Compare, Call, FormattedValue, JoinedStr, Constant, Slice) goes through the `_ => expr` arm untouched and is
  carried as `other` with its canonical text (see design/REFTOOLS.md) as an opaque payload.
-/
namespace PV.C01

inductive Ctx where
  | load | store | del
  deriving DecidableEq, Repr, Inhabited

inductive E where
  | name (id : String) (ctx : Ctx)
  | tuple (elts : List E) (ctx : Ctx)
  | list (elts : List E) (ctx : Ctx)
  | attrib (value : E) (attr : String) (ctx : Ctx)
  | subscript (value : E) (slice : E) (ctx : Ctx)
  | starred (value : E) (ctx : Ctx)
  | other (text : String)
  deriving Repr, Inhabited

/-! ### context.rs -/

mutual
/-- `set_context(expr, ctx)` -/
def setContext (c : Ctx) : E → E
  | .name id _ => .name id c
  | .tuple es _ => .tuple (setContextList c es) c
  | .list es _ => .list (setContextList c es) c
  | .attrib v a _ => .attrib v a c
  | .subscript v s _ => .subscript v s c
  | .starred v _ => .starred (setContext c v) c
  | .other t => .other t
/-- `elts.into_iter().map(|elt| set_context(elt, ctx)).collect()` -/
def setContextList (c : Ctx) : List E → List E
  | [] => []
  | e :: es => setContext c e :: setContextList c es
end

/-! ### function.rs `parse_args` -/

/-- one `FunctionArgument` of the grammar: `(None, expr)` for positional (`star` = the expression is an
    `ExprStarred`), `(Some((start, end, Some(name))), expr)` for `name=value`,
    `(Some((start, end, None)), expr)` for `**value`.  `start` is the `@L` of the item, `vstart` the start
    of the value expression; `value` is opaque. -/
inductive ArgKind where
  | pos | star | kw (name : String) | dstar
  deriving DecidableEq, Repr

structure ArgItem where
  kind : ArgKind
  start : Nat
  vstart : Nat
  value : String
  deriving Repr, DecidableEq

inductive ArgErr where
  | duplicateKeyword (name : String) (loc : Nat)
  | positional (loc : Nat)
  | unpacked (loc : Nat)
  deriving Repr, DecidableEq

structure ArgState where
  args : List ArgItem := []          -- reversed
  keywords : List ArgItem := []      -- reversed
  names : List String := []
  doubleStarred : Bool := false

/-- one iteration of the `for (name, value) in func_args` loop -/
def argStep (s : ArgState) (it : ArgItem) : Except ArgErr ArgState :=
  match it.kind with
  | .kw n =>
    if s.names.contains n then .error (.duplicateKeyword n it.start)
    else .ok { s with keywords := it :: s.keywords, names := n :: s.names }
  | .dstar => .ok { s with keywords := it :: s.keywords, doubleStarred := true }
  | .pos =>
    if !s.keywords.isEmpty then .error (.positional it.vstart)
    else if s.doubleStarred then .error (.unpacked it.vstart)
    else .ok { s with args := it :: s.args }
  | .star =>
    if s.doubleStarred then .error (.unpacked it.vstart)
    else .ok { s with args := it :: s.args }

def argLoop : List ArgItem → ArgState → Except ArgErr ArgState
  | [], s => .ok s
  | it :: rest, s =>
    match argStep s it with
    | .ok s' => argLoop rest s'
    | .error e => .error e

/-- `parse_args(func_args)`: `(args, keywords)` in source order -/
def parseArgs (xs : List ArgItem) : Except ArgErr (List ArgItem × List ArgItem) :=
  match argLoop xs {} with
  | .ok s => .ok (s.args.reverse, s.keywords.reverse)
  | .error e => .error e

/-! ### function.rs `validate_pos_params`, `validate_arguments` -/

/-- a positional parameter: start offset and whether it has a default -/
structure Param where
  name : String
  start : Nat
  hasDefault : Bool
  deriving Repr, DecidableEq

/-- `posonlyargs.iter().chain(args.iter()).skip_while(no default).skip_while(has default).next()`:
    `some offset` = `DefaultArgumentError` at that parameter -/
def validatePosParams (ps : List Param) : Option Nat :=
  (((ps.dropWhile (fun p => !p.hasDefault)).dropWhile (fun p => p.hasDefault)).head?).map (·.start)

/-- `validate_arguments`: first parameter (in the order posonly, args, kwonly, vararg, kwarg) whose name was
    already seen: `some (name, offset)` = `DuplicateArgumentError` -/
def validateArguments : List Param → List String → Option (String × Nat)
  | [], _ => none
  | p :: ps, seen => if seen.contains p.name then some (p.name, p.start) else validateArguments ps (p.name :: seen)

/-! ### grammar actions -/

/-- statements, as far as the actions look at them: an `if` node or anything else (opaque, with its end) -/
inductive Stmt where
  | ifS (start stop : Nat) (test : String) (body : List Stmt) (orelse : List Stmt)
  | other (text : String) (stop : Nat)
  deriving Repr, Inhabited

def Stmt.stop : Stmt → Nat
  | .ifS _ e _ _ _ => e
  | .other _ e => e

structure Clause where
  start : Nat            -- `@L` before `elif`
  test : String
  body : List Stmt
  deriving Repr, Inhabited

/-- `for i in s2.into_iter().rev() { last = vec![If{test: i.1, body: i.2, orelse: last, range: i.0..end}] }` -/
def elifFold (stop : Nat) : List Clause → List Stmt → List Stmt
  | [], last => last
  | c :: cs, last => elifFold stop cs [Stmt.ifS c.start stop c.test c.body last]

/-- the `IfStatement` action.  `none` where the Rust code would panic (`unwrap` on an empty body, which the
    grammar excludes). -/
def elifChain (start : Nat) (test : String) (body : List Stmt) (s2 : List Clause) (s3 : Option (List Stmt)) :
    Option Stmt :=
  let last := s3.getD []
  let endStmt : Option Stmt :=
    match last.getLast? with
    | some s => some s
    | none =>
      match (s2.getLast?.bind (fun c => c.body.getLast?)) with
      | some s => some s
      | none => body.getLast?
  endStmt.map fun s =>
    let stop := s.stop
    Stmt.ifS start stop test body (elifFold stop s2.reverse last)

/-- `TryStatement` (first alternative): end = end of the last statement of `finalbody`, else of `orelse`,
    else end of the last handler; `none` = `unwrap` panic -/
def tryEnd (handlerEnds : List Nat) (orelse finalbody : List Stmt) : Option Nat :=
  match finalbody.getLast? with
  | some s => some s.stop
  | none =>
    match orelse.getLast? with
    | some s => some s.stop
    | none => handlerEnds.getLast?

/-- the lexer turns a run of dots into `...` tokens greedily, the rest into `.` tokens (whitespace may split
    runs: each maximal run is tokenised separately) -/
def dotTokens (run : Nat) : List Nat :=
  List.replicate (run / 3) 3 ++ List.replicate (run % 3) 1

/-- `ImportFromLocation`: `dots.iter().map(Int::to_u32).sum()` over the `ImportDots` values -/
def importLevel (runs : List Nat) : Nat :=
  ((runs.map dotTokens).flatten).foldl (· + ·) 0

/-- `DottedName`: `n` followed by `("." Identifier)+` joined with '.' -/
def dottedName (first : String) (rest : List String) : String :=
  rest.foldl (fun r x => (r.push '.') ++ x) first

/-- `GenericList<Element>` and the parenthesised forms of `Atom`: a single element without trailing comma is
    returned as it is, everything else is a Load-context tuple -/
def genericList (elts : List E) (trailingComma : Bool) : E :=
  match elts, trailingComma with
  | [e], false => e
  | es, _ => .tuple es .load

end PV.C01
