import PV.C01.Model
import PV.C01.Spec
/-! Helper lemmas for C01 (the property theorems are in `Thm.lean`). -/
namespace PV.C01
open Spec

theorem setContextList_eq_map (c : Ctx) : ∀ es, setContextList c es = es.map (setContext c)
  | [] => by simp [setContextList]
  | e :: es => by simp [setContextList, setContextList_eq_map c es]

mutual
theorem erase_setContext (c : Ctx) : ∀ e, erase (setContext c e) = erase e
  | .name _ _ => by simp [setContext, erase]
  | .tuple es _ => by simp [setContext, erase, eraseList_setContextList c es]
  | .list es _ => by simp [setContext, erase, eraseList_setContextList c es]
  | .attrib _ _ _ => by simp [setContext, erase]
  | .subscript _ _ _ => by simp [setContext, erase]
  | .starred v _ => by simp [setContext, erase, erase_setContext c v]
  | .other _ => by simp [setContext, erase]
theorem eraseList_setContextList (c : Ctx) : ∀ es, eraseList (setContextList c es) = eraseList es
  | [] => by simp [setContextList, eraseList]
  | e :: es => by simp [setContextList, eraseList, erase_setContext c e, eraseList_setContextList c es]
end

theorem ctxOf_setContext (c : Ctx) (e : E) :
    ctxOf (setContext c e) = if hasCtx e then some c else ctxOf e := by
  cases e <;> simp [setContext, ctxOf, hasCtx]

/-- main lemma, by induction on the path -/
theorem subAt_setContext (c : Ctx) : ∀ (p : List Nat) (e x : E), subAt e p = some x →
    subAt (setContext c e) p = some (if isTarget e p then setContext c x else x)
  | [], e, x, h => by
    simp [subAt] at h; subst h
    cases e <;> simp [subAt, isTarget, hasCtx, ctxOf, setContext]
  | i :: p, e, x, h => by
    cases e with
    | name id k => simp [subAt, child] at h
    | other t => simp [subAt, child] at h
    | tuple es k =>
      simp only [subAt, child] at h
      cases hi : es[i]? with
      | none => simp [hi] at h
      | some y =>
        simp only [hi] at h
        have ih := subAt_setContext c p y x h
        simp [setContext, subAt, child, setContextList_eq_map, hi, isTarget, ih]
    | list es k =>
      simp only [subAt, child] at h
      cases hi : es[i]? with
      | none => simp [hi] at h
      | some y =>
        simp only [hi] at h
        have ih := subAt_setContext c p y x h
        simp [setContext, subAt, child, setContextList_eq_map, hi, isTarget, ih]
    | attrib v a k =>
      cases i with
      | zero => simp only [subAt, child] at h; simp [setContext, subAt, child, isTarget, h]
      | succ n => simp [subAt, child] at h
    | subscript v s k =>
      match i with
      | 0 => simp only [subAt, child] at h; simp [setContext, subAt, child, isTarget, h]
      | 1 => simp only [subAt, child] at h; simp [setContext, subAt, child, isTarget, h]
      | n + 2 => simp [subAt, child] at h
    | starred v k =>
      cases i with
      | zero =>
        simp only [subAt, child] at h
        have ih := subAt_setContext c p v x h
        simp [setContext, subAt, child, isTarget, ih]
      | succ n => simp [subAt, child] at h

/-! parse_args -/
structure ArgInv (xs : List ArgItem) (s : ArgState) : Prop where
  args : s.args.reverse = xs.filter isPositional
  kws : s.keywords.reverse = xs.filter isKeyword
  names : s.names.reverse = xs.filterMap kwName
  ds : s.doubleStarred = xs.any (fun a => a.kind = .dstar)

theorem argStep_inv (xs : List ArgItem) (s s' : ArgState) (it : ArgItem)
    (h : ArgInv xs s) (hs : argStep s it = .ok s') : ArgInv (xs ++ [it]) s' := by
  obtain ⟨h1, h2, h3, h4⟩ := h
  unfold argStep at hs
  cases hk : it.kind with
  | kw n =>
    simp only [hk] at hs
    split at hs
    · cases hs
    · cases hs
      constructor <;> simp [List.filter_append, List.filterMap_append, isPositional, isKeyword, kwName, hk, h1, h2, h3, h4]
  | dstar =>
    simp only [hk] at hs
    cases hs
    constructor <;> simp [List.filter_append, List.filterMap_append, isPositional, isKeyword, kwName, hk, h1, h2, h3, h4]
  | pos =>
    simp only [hk] at hs
    split at hs
    · cases hs
    · split at hs
      · cases hs
      · cases hs
        constructor <;> simp [List.filter_append, List.filterMap_append, isPositional, isKeyword, kwName, hk, h1, h2, h3, h4]
  | star =>
    simp only [hk] at hs
    split at hs
    · cases hs
    · cases hs
      constructor <;> simp [List.filter_append, List.filterMap_append, isPositional, isKeyword, kwName, hk, h1, h2, h3, h4]

theorem argLoop_inv : ∀ (ys xs : List ArgItem) (s s' : ArgState),
    ArgInv xs s → argLoop ys s = .ok s' → ArgInv (xs ++ ys) s'
  | [], xs, s, s', h, hl => by simp [argLoop] at hl; subst hl; simpa using h
  | y :: ys, xs, s, s', h, hl => by
    simp only [argLoop] at hl
    cases hst : argStep s y with
    | error e => simp [hst] at hl
    | ok s1 =>
      simp only [hst] at hl
      have := argLoop_inv ys (xs ++ [y]) s1 s' (argStep_inv xs s s1 y h hst) hl
      simpa using this

theorem parseArgs_partition_aux (xs a k : List ArgItem) (h : parseArgs xs = .ok (a, k)) :
    a = xs.filter isPositional ∧ k = xs.filter isKeyword := by
  unfold parseArgs at h
  cases hl : argLoop xs {} with
  | error e => simp [hl] at h
  | ok s =>
    simp only [hl] at h
    have inv := argLoop_inv xs [] {} s ⟨by simp, by simp, by simp, by simp⟩ hl
    cases h
    exact ⟨by simpa using inv.args, by simpa using inv.kws⟩

theorem argLoop_ok_iff : ∀ (ys : List ArgItem) (s : ArgState),
    (∃ s', argLoop ys s = .ok s') ↔
      argsWellOrdered ys (!s.keywords.isEmpty) s.doubleStarred s.names = true
  | [], s => by simp [argLoop, argsWellOrdered]
  | y :: ys, s => by
    simp only [argLoop, argsWellOrdered]
    cases hk : y.kind with
    | pos =>
      simp only [argStep, hk]
      by_cases h1 : s.keywords.isEmpty <;> by_cases h2 : s.doubleStarred <;>
        simp [h1, h2, argLoop_ok_iff ys]
    | star =>
      simp only [argStep, hk]
      by_cases h2 : s.doubleStarred <;> simp [h2, argLoop_ok_iff ys]
    | kw n =>
      simp only [argStep, hk]
      by_cases h3 : n ∈ s.names <;> simp [h3, argLoop_ok_iff ys]
    | dstar =>
      simp only [argStep, hk]
      simp [argLoop_ok_iff ys]

theorem parseArgs_ok_iff (xs : List ArgItem) :
    (∃ r, parseArgs xs = .ok r) ↔ argsWellOrdered xs false false [] = true := by
  have := argLoop_ok_iff xs {}
  simp only [List.isEmpty_nil, Bool.not_true] at this
  rw [← this]
  unfold parseArgs
  constructor
  · rintro ⟨r, h⟩
    cases hl : argLoop xs {} with
    | error e => simp [hl] at h
    | ok s => exact ⟨s, rfl⟩
  · rintro ⟨s, h⟩
    exact ⟨(s.args.reverse, s.keywords.reverse), by simp [h]⟩

theorem elifFold_spec (stop : Nat) : ∀ (cs : List Clause) (last : List Stmt),
    elifFold stop cs.reverse last = ifMeaning stop cs last
  | [], last => by simp [elifFold, ifMeaning]
  | c :: cs, last => by
    have h : ∀ (xs : List Clause) (y : Clause) (l : List Stmt),
        elifFold stop (xs ++ [y]) l = [Stmt.ifS y.start stop y.test y.body (elifFold stop xs l)] := by
      intro xs
      induction xs with
      | nil => intro y l; simp [elifFold]
      | cons x xs ih => intro y l; simp [elifFold, ih]
    simp [ifMeaning, h, elifFold_spec stop cs last]

theorem sum_dotTokens (n : Nat) : (dotTokens n).foldl (· + ·) 0 = n := by
  have h : ∀ (k v acc : Nat), (List.replicate k v).foldl (· + ·) acc = acc + k * v := by
    intro k v
    induction k with
    | zero => simp
    | succ k ih => intro acc; simp [List.replicate_succ, ih]; rw [Nat.add_mul]; omega
  simp [dotTokens, List.foldl_append, h]; omega

theorem importLevel_spec (runs : List Nat) : importLevel runs = runs.foldl (· + ·) 0 := by
  unfold importLevel
  have h : ∀ (rs : List Nat) (acc : Nat),
      ((rs.map dotTokens).flatten).foldl (· + ·) acc = rs.foldl (· + ·) acc := by
    intro rs
    induction rs with
    | nil => simp
    | cons r rs ih =>
      intro acc
      have h2 : ∀ (l : List Nat) (a : Nat), l.foldl (· + ·) a = a + l.foldl (· + ·) 0 := by
        intro l
        induction l with
        | nil => simp
        | cons x l ihl => intro a; simp only [List.foldl_cons]; rw [ihl (a + x), ihl (0 + x)]; omega
      simp only [List.map_cons, List.flatten_cons, List.foldl_append, List.foldl_cons]
      rw [ih, h2 (dotTokens r) acc, sum_dotTokens]
  exact h runs 0

theorem genericList_single (e : E) : genericList [e] false = e := rfl

theorem genericList_tuple (elts : List E) (tc : Bool) (h : ¬ (elts.length = 1 ∧ tc = false)) :
    genericList elts tc = .tuple elts .load := by
  unfold genericList
  match elts, tc with
  | [], _ => simp
  | [e], false => simp at h
  | [e], true => simp
  | _ :: _ :: _, _ => simp

theorem validatePosParams_none_iff (ps : List Param) :
    validatePosParams ps = none ↔ defaultsLast ps = true := by
  unfold validatePosParams
  induction ps with
  | nil => simp [defaultsLast]
  | cons p ps ih =>
    cases hd : p.hasDefault with
    | false => simp [List.dropWhile, hd, defaultsLast]; simpa using ih
    | true =>
      simp only [List.dropWhile, hd, Bool.not_true, defaultsLast, if_true]
      clear ih
      induction ps with
      | nil => simp
      | cons q qs ih2 =>
        cases hq : q.hasDefault with
        | true => simp [List.dropWhile, hq]; simpa [List.dropWhile] using ih2
        | false => simp [List.dropWhile, hq]

theorem validateArguments_none_iff : ∀ (ps : List Param) (seen : List String),
    validateArguments ps seen = none ↔
      (ps.map (·.name)).Nodup ∧ ∀ p ∈ ps, p.name ∉ seen
  | [], seen => by simp [validateArguments]
  | p :: ps, seen => by
    simp only [validateArguments]
    by_cases h : p.name ∈ seen
    · simp [h]
    · have hc : seen.contains p.name = false := by simpa using h
      simp only [hc, Bool.false_eq_true, if_false, validateArguments_none_iff ps (p.name :: seen)]
      simp only [List.map_cons, List.nodup_cons, List.mem_map, List.mem_cons, not_or]
      constructor
      · rintro ⟨hn, hall⟩
        refine ⟨⟨?_, hn⟩, ?_⟩
        · rintro ⟨q, hq, he⟩; exact (hall q hq).1 he
        · intro q hq
          rcases hq with rfl | hq
          · exact h
          · exact (hall q hq).2
      · rintro ⟨⟨hnot, hn⟩, hall⟩
        refine ⟨hn, ?_⟩
        intro q hq
        exact ⟨fun he => hnot ⟨q, hq, he⟩, hall q (Or.inr hq)⟩

end PV.C01
