import PV.C01.Model
import PV.C01.Spec
import PV.Lexer.SoftKw
/-!
  Soft keywords (`match` / `case`): reference reading of a logical line and its relation to the look-ahead loop
  of `SoftKeywordTransformer::next` as modelled in `PV/Lexer/SoftKw.lean` (`matchCaseLook`).
-/
namespace PV.C01
open PV.Lexer

/-- reference reading of one logical line after a leading `match`/`case`: positions (0-based) of the colons
    that are outside every bracket and are not the colon of a `lambda` (each top-level `lambda` owns the next
    free top-level colon: a counter, because lambdas nest through default values) -/
def freeColons : List Spanned → (idx : Nat) → (nesting : Int) → (lambdas : Nat) → List Nat
  | [], _, _, _ => []
  | t :: ts, i, n, l =>
    match t.tok with
    | .newline => []
    | .kw .Lambda => if n = 0 then freeColons ts (i + 1) n (l + 1) else freeColons ts (i + 1) n l
    | .op .Colon =>
      if n = 0 then
        if l = 0 then i :: freeColons ts (i + 1) n l else freeColons ts (i + 1) n (l - 1)
      else freeColons ts (i + 1) n l
    | .op .Lpar | .op .Lsqb | .op .Lbrace => freeColons ts (i + 1) (n + 1) l
    | .op .Rpar | .op .Rsqb | .op .Rbrace => freeColons ts (i + 1) (n - 1) l
    | _ => freeColons ts (i + 1) n l

/-- domain of the partial theorem: top-level lambdas never nest on the line -/
def lambdasFlat : List Spanned → (nesting : Int) → (lambdas : Nat) → Bool
  | [], _, _ => true
  | t :: ts, n, l =>
    match t.tok with
    | .newline => true
    | .kw .Lambda => if n = 0 then l = 0 && lambdasFlat ts n (l + 1) else lambdasFlat ts n l
    | .op .Colon => if n = 0 then lambdasFlat ts n (l - 1) else lambdasFlat ts n l
    | .op .Lpar | .op .Lsqb | .op .Lbrace => lambdasFlat ts (n + 1) l
    | .op .Rpar | .op .Rsqb | .op .Rbrace => lambdasFlat ts (n - 1) l
    | _ => lambdasFlat ts n l

inductive Cls | nl | lam | colon | opn | cls | other
  deriving DecidableEq

def classify : Tok → Cls
  | .newline => .nl
  | .kw .Lambda => .lam
  | .op .Colon => .colon
  | .op .Lpar | .op .Lsqb | .op .Lbrace => .opn
  | .op .Rpar | .op .Rsqb | .op .Rbrace => .cls
  | _ => .other

theorem look_cons (t : Spanned) (ts : List Spanned) (n : Int) (first sc sl : Bool) :
    matchCaseLook (t :: ts) n first sc sl =
      match classify t.tok with
      | .nl => sc
      | .lam => if n = 0 then matchCaseLook ts n false sc true else matchCaseLook ts n false sc sl
      | .colon =>
        if n = 0 then
          if sl then matchCaseLook ts n false sc false
          else if !first then matchCaseLook ts n false true sl
          else matchCaseLook ts n false sc sl
        else matchCaseLook ts n false sc sl
      | .opn => matchCaseLook ts (n + 1) false sc sl
      | .cls => matchCaseLook ts (n - 1) false sc sl
      | .other => matchCaseLook ts n false sc sl := by
  cases h : t.tok with
  | op o => cases o <;> simp [matchCaseLook, classify, h]
  | kw k => cases k <;> simp [matchCaseLook, classify, h]
  | _ => simp [matchCaseLook, classify, h]

theorem free_cons (t : Spanned) (ts : List Spanned) (i : Nat) (n : Int) (l : Nat) :
    freeColons (t :: ts) i n l =
      match classify t.tok with
      | .nl => []
      | .lam => if n = 0 then freeColons ts (i + 1) n (l + 1) else freeColons ts (i + 1) n l
      | .colon =>
        if n = 0 then
          if l = 0 then i :: freeColons ts (i + 1) n l else freeColons ts (i + 1) n (l - 1)
        else freeColons ts (i + 1) n l
      | .opn => freeColons ts (i + 1) (n + 1) l
      | .cls => freeColons ts (i + 1) (n - 1) l
      | .other => freeColons ts (i + 1) n l := by
  cases h : t.tok with
  | op o => cases o <;> simp [freeColons, classify, h]
  | kw k => cases k <;> simp [freeColons, classify, h]
  | _ => simp [freeColons, classify, h]

theorem flat_cons (t : Spanned) (ts : List Spanned) (n : Int) (l : Nat) :
    lambdasFlat (t :: ts) n l =
      match classify t.tok with
      | .nl => true
      | .lam => if n = 0 then l = 0 && lambdasFlat ts n (l + 1) else lambdasFlat ts n l
      | .colon => if n = 0 then lambdasFlat ts n (l - 1) else lambdasFlat ts n l
      | .opn => lambdasFlat ts (n + 1) l
      | .cls => lambdasFlat ts (n - 1) l
      | .other => lambdasFlat ts n l := by
  cases h : t.tok with
  | op o => cases o <;> simp [lambdasFlat, classify, h]
  | kw k => cases k <;> simp [lambdasFlat, classify, h]
  | _ => simp [lambdasFlat, classify, h]

theorem look_eq (ts : List Spanned) : ∀ (i : Nat) (n : Int) (l : Nat) (sc : Bool),
    l ≤ 1 → lambdasFlat ts n l = true →
    matchCaseLook ts n (i == 0) sc (l == 1) = (sc || (freeColons ts i n l).any (· != 0)) := by
  induction ts with
  | nil => intro i n l sc _ _; simp [matchCaseLook, freeColons]
  | cons t ts ih =>
    intro i n l sc hl hf
    have ih' : ∀ (n : Int) (l : Nat) (sc : Bool), l ≤ 1 → lambdasFlat ts n l = true →
        matchCaseLook ts n false sc (l == 1) = (sc || (freeColons ts (i + 1) n l).any (· != 0)) := by
      intro n l sc h1 h2
      simpa using ih (i + 1) n l sc h1 h2
    have ih0 := fun n sc => ih' n 0 sc (by omega)
    have ih1 := fun n sc => ih' n 1 sc (by omega)
    simp only [beq_self_eq_true, Nat.reduceBEq] at ih0 ih1
    rw [look_cons, free_cons]
    rw [flat_cons] at hf
    rcases (by omega : l = 0 ∨ l = 1) with rfl | rfl <;>
      cases hc : classify t.tok <;> simp only [hc] at hf ⊢ <;>
      by_cases hn : n = 0 <;> by_cases hi : i = 0 <;> cases sc <;> simp_all

/-! ### `type`: the state `start_of_statement` / `nesting` (repaired code: a type alias may follow `;` or the
     `:` of a one-line compound header) -/

/-- the repair is conservative: wherever `start_of_line` holds, `start_of_statement` holds too, so every `type`
    token that was examined before the repair is still examined (invariant of `SoftSt.next`, true initially) -/
theorem next_sol_imp_sos (st : SoftSt) (tok : Tok) (h : st.sol = true → st.sos = true) :
    (st.next tok).sol = true → (st.next tok).sos = true := by
  simp only [SoftSt.next, nextSol, nextSos]
  by_cases ht : tok.isTrivia = true
  · simpa [ht] using h
  · simp only [ht, Bool.false_eq_true, if_false]
    split <;> simp_all

theorem init_sol_imp_sos (mode : Mode) : (SoftSt.init mode).sol = true → (SoftSt.init mode).sos = true := by
  simp [SoftSt.init]

/-- `;` and `:` set `start_of_statement` exactly when no bracket is open; every other ordinary token clears it -/
theorem next_sos_semi_colon (st : SoftSt) (tok : Tok) (h : tok = .op .Semi ∨ tok = .op .Colon) :
    (st.next tok).sos = (st.nesting == 0) ∧ (st.next tok).nesting = st.nesting ∧ (st.next tok).sol = false := by
  rcases h with rfl | rfl <;> simp [SoftSt.next, nextSol, nextSos, nextNesting, Tok.isTrivia]

private def sp' (t : Tok) : Spanned := ⟨t, 0, 0, 0, 0⟩
private def nm' (s : String) : Tok := .name (s.toList.map Char.toNat)

/-- `pass; type X = int` NEWLINE: the alias keyword survives after `;` -/
theorem typeAlias_after_semi :
    (softKw .module [sp' (.kw .Pass), sp' (.op .Semi), sp' (.kw .Type_), sp' (nm' "X"), sp' (.op .Equal), sp' (nm' "int"),
      sp' .newline]).map (·.tok) =
    [.kw .Pass, .op .Semi, .kw .Type_, nm' "X", .op .Equal, nm' "int", .newline] := by decide

/-- `if x: type X = int` NEWLINE: … and after the `:` of a one-line compound header -/
theorem typeAlias_after_header_colon :
    (softKw .module [sp' (.kw .If), sp' (nm' "x"), sp' (.op .Colon), sp' (.kw .Type_), sp' (nm' "X"), sp' (.op .Equal),
      sp' (nm' "int"), sp' .newline]).map (·.tok) =
    [.kw .If, nm' "x", .op .Colon, .kw .Type_, nm' "X", .op .Equal, nm' "int", .newline] := by decide

/-- `{a: type X = 1}` NEWLINE: a `:` inside brackets does not start a statement, `type` is demoted to a name
    (as before the repair); `x = 1; type = 2`: no name follows, demoted as well -/
theorem type_in_brackets_stays_name :
    (softKw .module [sp' (.op .Lbrace), sp' (nm' "a"), sp' (.op .Colon), sp' (.kw .Type_), sp' (nm' "X"), sp' (.op .Equal),
      sp' (.int 1), sp' (.op .Rbrace), sp' .newline]).map (·.tok) =
    [.op .Lbrace, nm' "a", .op .Colon, nm' "type", nm' "X", .op .Equal, .int 1, .op .Rbrace, .newline] ∧
    (softKw .module [sp' (nm' "x"), sp' (.op .Equal), sp' (.int 1), sp' (.op .Semi), sp' (.kw .Type_), sp' (.op .Equal),
      sp' (.int 2), sp' .newline]).map (·.tok) =
    [nm' "x", .op .Equal, .int 1, .op .Semi, nm' "type", .op .Equal, .int 2, .newline] := by decide

end PV.C01
