import PV.C01.Model
import PV.C01.Spec
import PV.Lexer.SoftKw
/-!
  Soft keywords (`match` / `case`): reference reading of a logical line and its relation to the look-ahead loop
  of `SoftKeywordTransformer::next` as modelled in `PV/Lexer/SoftKw.lean` (`matchCaseLook`).
-/
namespace PV.C01
open PV.Lexer

/-- reference reading of one logical line after a leading `match`/`case`: positions (0-based) of the colons
    that are outside every bracket and are not the colon of a `lambda` (each top-level `lambda` owns the next
    free top-level colon: a counter, because lambdas nest through default values) -/
def freeColons : List Spanned → (idx : Nat) → (nesting : Int) → (lambdas : Nat) → List Nat
  | [], _, _, _ => []
  | t :: ts, i, n, l =>
    match t.tok with
    | .newline => []
    | .kw .Lambda => if n = 0 then freeColons ts (i + 1) n (l + 1) else freeColons ts (i + 1) n l
    | .op .Colon =>
      if n = 0 then
        if l = 0 then i :: freeColons ts (i + 1) n l else freeColons ts (i + 1) n (l - 1)
      else freeColons ts (i + 1) n l
    | .op .Lpar | .op .Lsqb | .op .Lbrace => freeColons ts (i + 1) (n + 1) l
    | .op .Rpar | .op .Rsqb | .op .Rbrace => freeColons ts (i + 1) (n - 1) l
    | _ => freeColons ts (i + 1) n l

/-- domain of the partial theorem: top-level lambdas never nest on the line -/
def lambdasFlat : List Spanned → (nesting : Int) → (lambdas : Nat) → Bool
  | [], _, _ => true
  | t :: ts, n, l =>
    match t.tok with
    | .newline => true
    | .kw .Lambda => if n = 0 then l = 0 && lambdasFlat ts n (l + 1) else lambdasFlat ts n l
    | .op .Colon => if n = 0 then lambdasFlat ts n (l - 1) else lambdasFlat ts n l
    | .op .Lpar | .op .Lsqb | .op .Lbrace => lambdasFlat ts (n + 1) l
    | .op .Rpar | .op .Rsqb | .op .Rbrace => lambdasFlat ts (n - 1) l
    | _ => lambdasFlat ts n l

inductive Cls | nl | lam | colon | opn | cls | other
  deriving DecidableEq

def classify : Tok → Cls
  | .newline => .nl
  | .kw .Lambda => .lam
  | .op .Colon => .colon
  | .op .Lpar | .op .Lsqb | .op .Lbrace => .opn
  | .op .Rpar | .op .Rsqb | .op .Rbrace => .cls
  | _ => .other

theorem look_cons (t : Spanned) (ts : List Spanned) (n : Int) (first sc sl : Bool) :
    matchCaseLook (t :: ts) n first sc sl =
      match classify t.tok with
      | .nl => sc
      | .lam => if n = 0 then matchCaseLook ts n false sc true else matchCaseLook ts n false sc sl
      | .colon =>
        if n = 0 then
          if sl then matchCaseLook ts n false sc false
          else if !first then matchCaseLook ts n false true sl
          else matchCaseLook ts n false sc sl
        else matchCaseLook ts n false sc sl
      | .opn => matchCaseLook ts (n + 1) false sc sl
      | .cls => matchCaseLook ts (n - 1) false sc sl
      | .other => matchCaseLook ts n false sc sl := by
  cases h : t.tok with
  | op o => cases o <;> simp [matchCaseLook, classify, h]
  | kw k => cases k <;> simp [matchCaseLook, classify, h]
  | _ => simp [matchCaseLook, classify, h]

theorem free_cons (t : Spanned) (ts : List Spanned) (i : Nat) (n : Int) (l : Nat) :
    freeColons (t :: ts) i n l =
      match classify t.tok with
      | .nl => []
      | .lam => if n = 0 then freeColons ts (i + 1) n (l + 1) else freeColons ts (i + 1) n l
      | .colon =>
        if n = 0 then
          if l = 0 then i :: freeColons ts (i + 1) n l else freeColons ts (i + 1) n (l - 1)
        else freeColons ts (i + 1) n l
      | .opn => freeColons ts (i + 1) (n + 1) l
      | .cls => freeColons ts (i + 1) (n - 1) l
      | .other => freeColons ts (i + 1) n l := by
  cases h : t.tok with
  | op o => cases o <;> simp [freeColons, classify, h]
  | kw k => cases k <;> simp [freeColons, classify, h]
  | _ => simp [freeColons, classify, h]

theorem flat_cons (t : Spanned) (ts : List Spanned) (n : Int) (l : Nat) :
    lambdasFlat (t :: ts) n l =
      match classify t.tok with
      | .nl => true
      | .lam => if n = 0 then l = 0 && lambdasFlat ts n (l + 1) else lambdasFlat ts n l
      | .colon => if n = 0 then lambdasFlat ts n (l - 1) else lambdasFlat ts n l
      | .opn => lambdasFlat ts (n + 1) l
      | .cls => lambdasFlat ts (n - 1) l
      | .other => lambdasFlat ts n l := by
  cases h : t.tok with
  | op o => cases o <;> simp [lambdasFlat, classify, h]
  | kw k => cases k <;> simp [lambdasFlat, classify, h]
  | _ => simp [lambdasFlat, classify, h]

theorem look_eq (ts : List Spanned) : ∀ (i : Nat) (n : Int) (l : Nat) (sc : Bool),
    l ≤ 1 → lambdasFlat ts n l = true →
    matchCaseLook ts n (i == 0) sc (l == 1) = (sc || (freeColons ts i n l).any (· != 0)) := by
  induction ts with
  | nil => intro i n l sc _ _; simp [matchCaseLook, freeColons]
  | cons t ts ih =>
    intro i n l sc hl hf
    have ih' : ∀ (n : Int) (l : Nat) (sc : Bool), l ≤ 1 → lambdasFlat ts n l = true →
        matchCaseLook ts n false sc (l == 1) = (sc || (freeColons ts (i + 1) n l).any (· != 0)) := by
      intro n l sc h1 h2
      simpa using ih (i + 1) n l sc h1 h2
    have ih0 := fun n sc => ih' n 0 sc (by omega)
    have ih1 := fun n sc => ih' n 1 sc (by omega)
    simp only [beq_self_eq_true, Nat.reduceBEq] at ih0 ih1
    rw [look_cons, free_cons]
    rw [flat_cons] at hf
    rcases (by omega : l = 0 ∨ l = 1) with rfl | rfl <;>
      cases hc : classify t.tok <;> simp only [hc] at hf ⊢ <;>
      by_cases hn : n = 0 <;> by_cases hi : i = 0 <;> cases sc <;> simp_all

end PV.C01
