import PV.C01.Model
import PV.C01.Spec
import PV.C01.Lemmas
import PV.C01.SoftKwLemmas
/-
  C01 — property theorems about the hand-written mechanisms between source text and tree.
  (The LR automaton itself is not modelled; see design/C01.md.  Helper lemmas: `Lemmas.lean`,
  `SoftKwLemmas.lean`.)
-/
namespace PV.C01
open Spec PV.Lexer

/-! ### Store/Del tagging (`context.rs set_context`) -/

/-- For ALL expression trees, all paths: the node found at a path of the re-tagged tree is the node of the
    original tree at the same path with — at most — different context tags (`erase` forgets tags), and its own
    tag is the new context exactly when CPython's rule (`Spec.isTarget`, defined on the path) says so, and is
    unchanged otherwise. -/
theorem setContext_spec (c : Ctx) (e : E) (p : List Nat) (x : E) (h : subAt e p = some x) :
    ∃ y, subAt (setContext c e) p = some y ∧ erase y = erase x ∧
      ctxOf y = if isTarget e p then some c else ctxOf x := by
  refine ⟨_, subAt_setContext c p e x h, ?_, ?_⟩
  · split
    · exact erase_setContext c x
    · rfl
  · by_cases ht : isTarget e p = true
    · simp only [ht, if_true]
      have hx : hasCtx x = true := by
        clear c
        induction p generalizing e with
        | nil => simp [subAt] at h; subst h; simpa [isTarget] using ht
        | cons i p ih =>
          cases e with
          | tuple es k =>
            simp only [subAt, child] at h
            cases hi : es[i]? with
            | none => simp [hi] at h
            | some y => simp only [hi] at h; simp only [isTarget, hi] at ht; exact ih y h ht
          | list es k =>
            simp only [subAt, child] at h
            cases hi : es[i]? with
            | none => simp [hi] at h
            | some y => simp only [hi] at h; simp only [isTarget, hi] at ht; exact ih y h ht
          | starred v k =>
            cases i with
            | zero => simp only [subAt, child] at h; simp only [isTarget] at ht; exact ih v h ht
            | succ n => simp [isTarget] at ht
          | name _ _ => simp [isTarget] at ht
          | attrib _ _ _ => simp [isTarget] at ht
          | subscript _ _ _ => simp [isTarget] at ht
          | other _ => simp [isTarget] at ht
      rw [ctxOf_setContext, hx]; rfl
    · simp [ht]

/-- nothing but tags changes, stated on the whole tree -/
theorem setContext_shape (c : Ctx) (e : E) : erase (setContext c e) = erase e := erase_setContext c e

example : setContext .store (.tuple [.name "a" .load, .starred (.attrib (.name "o" .load) "f" .load) .load,
      .subscript (.name "d" .load) (.name "k" .load) .load, .other "(ExprCall …)"] .load)
    = .tuple [.name "a" .store, .starred (.attrib (.name "o" .load) "f" .store) .store,
      .subscript (.name "d" .load) (.name "k" .load) .store, .other "(ExprCall …)"] .store := by
  simp [setContext, setContextList]

/-! ### Call arguments (`function.rs parse_args`) -/

/-- a successful `parse_args` returns the order-preserving partition of the items into positional
    (plain, starred) and keyword (`k=v`, `**x`) ones -/
theorem parseArgs_partition (xs a k : List ArgItem) (h : parseArgs xs = .ok (a, k)) :
    a = xs.filter isPositional ∧ k = xs.filter isKeyword := parseArgs_partition_aux xs a k h

/-- and it succeeds exactly on the argument lists that respect the ordering rules -/
theorem parseArgs_ok_iff_wellOrdered (xs : List ArgItem) :
    (∃ r, parseArgs xs = .ok r) ↔ argsWellOrdered xs false false [] = true := parseArgs_ok_iff xs

example : parseArgs [⟨.pos, 2, 2, "a"⟩, ⟨.kw "k", 5, 7, "1"⟩, ⟨.star, 10, 10, "*b"⟩, ⟨.dstar, 14, 16, "d"⟩]
    = .ok ([⟨.pos, 2, 2, "a"⟩, ⟨.star, 10, 10, "*b"⟩], [⟨.kw "k", 5, 7, "1"⟩, ⟨.dstar, 14, 16, "d"⟩]) := by
  simp [parseArgs, argLoop, argStep]
example : parseArgs [⟨.kw "k", 2, 4, "1"⟩, ⟨.pos, 7, 7, "a"⟩] = .error (.positional 7) := by
  simp [parseArgs, argLoop, argStep]

/-- `validate_pos_params` accepts exactly "parameters with defaults come last" -/
theorem validatePosParams_spec (ps : List Param) :
    validatePosParams ps = none ↔ defaultsLast ps = true := validatePosParams_none_iff ps

/-- `validate_arguments` accepts exactly the parameter lists without a repeated name -/
theorem validateArguments_spec (ps : List Param) :
    validateArguments ps [] = none ↔ (ps.map (·.name)).Nodup := by
  simpa using validateArguments_none_iff ps []

example : validatePosParams [⟨"a", 6, false⟩, ⟨"b", 9, true⟩, ⟨"c", 14, false⟩] = some 14 := by decide

/-! ### Grammar actions -/

/-- `IfStatement`: folding the `elif` clauses from the right builds the reference meaning
    `If(t1, b1, [If(t2, b2, [… else])])` -/
theorem elifChain_spec (start : Nat) (test : String) (body : List Stmt) (s2 : List Clause)
    (s3 : Option (List Stmt)) (r : Stmt) (h : elifChain start test body s2 s3 = some r) :
    ∃ stop, r = Stmt.ifS start stop test body (ifMeaning stop s2 (s3.getD [])) := by
  unfold elifChain at h
  simp only [Option.map_eq_some_iff] at h
  obtain ⟨s, _, rfl⟩ := h
  exact ⟨s.stop, by rw [elifFold_spec]⟩

example : elifChain 0 "a" [.other "pass" 9] [⟨10, "b", [.other "pass" 23]⟩, ⟨24, "c", [.other "pass" 37]⟩] none
    = some (.ifS 0 37 "a" [.other "pass" 9] [.ifS 10 37 "b" [.other "pass" 23] [.ifS 24 37 "c" [.other "pass" 37] []]]) := by
  simp [elifChain, elifFold, Stmt.stop]

/-- `ImportFromLocation`: however the lexer cuts the dots into `...` and `.` tokens, the summed level is the
    number of dot characters -/
theorem importLevel_spec' (runs : List Nat) : importLevel runs = runs.foldl (· + ·) 0 := importLevel_spec runs

example : importLevel [4, 1] = 5 := by decide

/-- `DottedName`: the parts joined by single dots -/
theorem dottedName_spec (first : String) (rest : List String) :
    (dottedName first rest).toList = first.toList ++ (rest.map (fun x => '.' :: x.toList)).flatten := by
  unfold dottedName
  induction rest generalizing first with
  | nil => simp
  | cons x xs ih => simp [List.foldl_cons, ih, String.toList_append, String.toList_push]

example : dottedName "a" ["b", "cd"] = "a.b.cd" := by decide

/-- `GenericList` / parenthesised atom: exactly the comma makes the tuple -/
theorem genericList_spec (elts : List E) (tc : Bool) :
    (elts.length = 1 ∧ tc = false → ∃ e, elts = [e] ∧ genericList elts tc = e) ∧
    (¬ (elts.length = 1 ∧ tc = false) → genericList elts tc = .tuple elts .load) := by
  refine ⟨?_, genericList_tuple elts tc⟩
  rintro ⟨hl, rfl⟩
  match elts, hl with
  | [e], _ => exact ⟨e, rfl, rfl⟩

/-! ### Soft keywords `match` / `case` (`soft_keywords.rs`, model `PV.Lexer.softTok`) -/

/-- tokens of the logical line that follow the head -/
def lineAfter : List Spanned → List Spanned
  | [] => []
  | t :: ts => if t.tok = .newline then [] else t :: lineAfter ts

/-- reference rule (Grammar `match_stmt` / `case_block`): the head is the keyword iff the line has the shape
    `head <something> :` — its only free colon is the last token of the line and does not directly follow the
    head -/
def isHeader (ts : List Spanned) : Bool :=
  let n := (lineAfter ts).length
  decide (2 ≤ n) && (freeColons ts 0 0 0 == [n - 1])

/-- what the transformer does, exactly, on lines whose top-level lambdas do not nest: the head stays a
    keyword iff some free colon stands later than directly after it -/
theorem softKw_model (sos : Bool) (t : Spanned) (ts : List Spanned) (hm : t.tok = .kw .Match ∨ t.tok = .kw .Case)
    (hflat : lambdasFlat ts 0 0 = true) :
    (softTok true sos t ts = t.tok) ↔ (freeColons ts 0 0 0).any (· != 0) = true := by
  have h := look_eq ts 0 0 0 false (by omega) hflat
  simp only [beq_self_eq_true, Nat.reduceBEq, Bool.false_or] at h
  rcases hm with hm | hm <;> simp only [softTok, hm, Bool.not_true, Bool.false_eq_true, if_false] <;>
    rw [h] <;> cases hfc : (freeColons ts 0 0 0).any (· != 0) <;> simp [softToName]

/-- the full statement for the transformer: on every line, keyword iff the reference says header -/
def softKw_full : Prop :=
  ∀ (sos : Bool) (t : Spanned) (ts : List Spanned), t.tok = .kw .Match ∨ t.tok = .kw .Case →
    ((softTok true sos t ts = t.tok) ↔ isHeader ts = true)

/-- the part that holds: lines without nested top-level lambdas that have at most one free colon, which is
    either directly after the head (`match: int = 1`) or the last token of the line -/
theorem softKw_sound_partial (sos : Bool) (t : Spanned) (ts : List Spanned)
    (hm : t.tok = .kw .Match ∨ t.tok = .kw .Case) (hflat : lambdasFlat ts 0 0 = true)
    (hdom : freeColons ts 0 0 0 = [] ∨ freeColons ts 0 0 0 = [0] ∨
            (2 ≤ (lineAfter ts).length ∧ freeColons ts 0 0 0 = [(lineAfter ts).length - 1])) :
    (softTok true sos t ts = t.tok) ↔ isHeader ts = true := by
  rw [softKw_model sos t ts hm hflat]
  unfold isHeader
  rcases hdom with h | h | ⟨h2, h⟩
  · simp [h]
  · simp [h]
    intro _
    omega
  · simp only [h, List.any_cons, List.any_nil, Bool.or_false]
    simp [h2]
    omega

private def sp (t : Tok) : Spanned := ⟨t, 0, 0, 0, 0⟩
private def nm (s : String) : Tok := .name (s.toList.map Char.toNat)

/-- `match[0]: int` — a valid annotated assignment; the transformer keeps the keyword -/
theorem softKw_fails_subscript (sos : Bool) :
    softTok true sos (sp (.kw .Match)) [sp (.op .Lsqb), sp (.int 0), sp (.op .Rsqb), sp (.op .Colon), sp (nm "int"), sp .newline]
      = .kw .Match ∧
    isHeader [sp (.op .Lsqb), sp (.int 0), sp (.op .Rsqb), sp (.op .Colon), sp (nm "int"), sp .newline] = false := by
  cases sos <;> decide

/-- `match = lambda a=lambda: 1: 2` — the boolean `seen_lambda` forgets the outer lambda -/
theorem softKw_fails_nested_lambda (sos : Bool) :
    softTok true sos (sp (.kw .Match)) [sp (.op .Equal), sp (.kw .Lambda), sp (nm "a"), sp (.op .Equal), sp (.kw .Lambda),
        sp (.op .Colon), sp (.int 1), sp (.op .Colon), sp (.int 2), sp .newline] = .kw .Match ∧
    freeColons [sp (.op .Equal), sp (.kw .Lambda), sp (nm "a"), sp (.op .Equal), sp (.kw .Lambda),
        sp (.op .Colon), sp (.int 1), sp (.op .Colon), sp (.int 2), sp .newline] 0 0 0 = [] := by
  cases sos <;> decide

theorem softKw_fails : ¬ softKw_full := by
  intro h
  have := h true (sp (.kw .Match)) [sp (.op .Lsqb), sp (.int 0), sp (.op .Rsqb), sp (.op .Colon), sp (nm "int"), sp .newline]
    (Or.inl rfl)
  have w := softKw_fails_subscript true
  rw [w.2] at this
  exact absurd (this.mp w.1) (by decide)

/-- the hypotheses of `softKw_sound_partial` hold for `match x:` (header) and `match(x)` (call) -/
example : lambdasFlat [sp (nm "x"), sp (.op .Colon), sp .newline] 0 0 = true ∧
    freeColons [sp (nm "x"), sp (.op .Colon), sp .newline] 0 0 0 = [1] ∧
    isHeader [sp (nm "x"), sp (.op .Colon), sp .newline] = true := by decide
example : freeColons [sp (.op .Lpar), sp (nm "x"), sp (.op .Rpar), sp .newline] 0 0 0 = [] := by decide

end PV.C01
