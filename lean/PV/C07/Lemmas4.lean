import PV.C07.Lemmas3
/-
  C07 — helper lemmas, part 4: the top level (`parse_fstring(0)`) and the assembly of the
  simulation over all nesting levels.
-/
namespace PV.C07
open PV.C06

/-! ### top level: `parse_fstring(0)` against the reference, up to merging of adjacent literals -/

/-- `fstringLoop` at nesting 0 agrees with the reference `parts` at level 0, up to the merging the
    reference does on the fly and `parse_strings` does afterwards -/
def P0 (lookup : List Nat → Option Nat) (kind : Kind) (n : Nat) : Prop :=
  ∀ (seen : Bool) (pieces : List Piece) (content cs : List Nat) (off : Nat) (ps : List Piece) (r : List Nat) (o : Nat),
    Spec.parts lookup true kind.isRaw n 0 seen ⟨pieces, content⟩ cs off = some (ps, r, o) → NoSurr cs →
    ∀ values, Spec.merge values = pieces → EndsOk values →
    ∀ fuel, 2 * cs.length + 4 ≤ fuel →
      ∃ qs, fstringLoop lookup kind fuel 0 values content cs off = .ok (qs, r, o) ∧ Spec.merge qs = ps

theorem P0_step (lookup : List Nat → Option Nat) (hl : LookupOk lookup) (kind : Kind)
    (hk : kind.isAnyBytes = false) (n : Nat)
    (hF : PF lookup kind n) (h0 : P0 lookup kind n) : P0 lookup kind (n + 1) := by
  intro seen pieces content cs off ps r o h hns values hmv hev
  cases cs with
  | nil =>
    simp [Spec.parts] at h
    obtain ⟨rfl, rfl, rfl⟩ := h
    intro fuel hf
    match fuel, hf with
    | f + 1, _ =>
      refine ⟨Spec.Acc.flush ⟨values, content⟩, ?_, ?_⟩
      · conv => lhs; unfold fstringLoop
        simp [Spec.Acc.flush]
      · rw [merge_flush _ _ hev, hmv]
  | cons c cs =>
    unfold Spec.parts at h
    simp only at h
    have hns' : NoSurr cs := hns.suffix (List.suffix_cons _ _)
    by_cases h92 : c = 92 ∧ ¬ kind.isRaw = true
    · obtain ⟨rfl, hraw⟩ := h92
      rw [if_pos ⟨rfl, hraw⟩] at h
      by_cases hbr : cs.head? = some 123 ∨ cs.head? = some 125
      · simp only [hbr, if_true] at h
        intro fuel hf
        simp only [List.length_cons] at hf
        match fuel, hf with
        | f + 1, hf =>
          obtain ⟨qs, e, hq⟩ := h0 seen pieces (content ++ [92]) cs (off + 1) ps r o h hns' values hmv hev f (by omega)
          refine ⟨qs, ?_, hq⟩
          conv => lhs; unfold fstringLoop
          simp [hraw, hbr]
          exact e
      · simp only [hbr, if_false] at h
        cases hesc : PV.C06.Spec.escape lookup false cs with
        | none => simp [hesc] at h
        | some p =>
          obtain ⟨items, rest⟩ := p
          simp only [hesc] at h
          obtain ⟨hpe, hsuf1, hlen1⟩ := escape_lit lookup hl kind hk cs hns' (off + 1) items rest hesc
          intro fuel hf
          simp only [List.length_cons] at hf
          match fuel, hf with
          | f + 1, hf =>
            obtain ⟨qs, e, hq⟩ := h0 seen pieces (content ++ items.map PV.C06.Spec.fffd) rest _ ps r o h
              (hns'.suffix hsuf1) values hmv hev f (by omega)
            refine ⟨qs, ?_, hq⟩
            conv => lhs; unfold fstringLoop
            simp [hraw, hbr, hpe]
            exact e
    · simp only [h92, if_false] at h
      have h92' : ¬ (c = 92 ∧ ¬ kind.isRaw = true) := h92
      by_cases h123 : c = 123
      · subst h123
        simp only [if_true] at h
        by_cases hdd : cs.head? = some 123
        · -- doubled brace
          simp only [hdd, and_self, if_true] at h
          match cs, hdd with
          | 123 :: cs2, _ =>
            simp only [List.tail_cons] at h
            intro fuel hf
            simp only [List.length_cons] at hf
            match fuel, hf with
            | f + 1, hf =>
              obtain ⟨qs, e, hq⟩ := h0 seen pieces (content ++ [123]) cs2 (off + 2) ps r o h
                (hns'.suffix (List.suffix_cons _ _)) values hmv hev f (by omega)
              refine ⟨qs, ?_, hq⟩
              conv => lhs; unfold fstringLoop
              simp
              exact e
        · simp only [hdd, and_false, if_false] at h
          cases hfld : Spec.field lookup true kind.isRaw n 0 cs (off + 1) with
          | none => simp [hfld] at h
          | some p =>
            obtain ⟨echo, f, rest, off'⟩ := p
            simp only [hfld] at h
            obtain ⟨hsuf1, hlen, ⟨ft, fo, fc, fsp, rfl⟩, hm1⟩ := hF 0 cs (off + 1) echo _ rest off' hfld hns'
            intro fuel hf
            simp only [List.length_cons] at hf
            match fuel, hf with
            | f1 + 1, hf =>
              obtain ⟨pcs, hfv, hpo⟩ := hm1 f1 (by omega)
              have hl1 := hsuf1.length_le
              -- the new `values` of the model and their merge
              have key := merge_after_field values pieces pcs content echo ft fo fc fsp hmv hev hpo
              obtain ⟨qs, e, hq⟩ := h0 true _ [] rest off' ps r o h (hns'.suffix hsuf1) _ key.1 key.2 f1 (by omega)
              refine ⟨qs, ?_, hq⟩
              have hcs : cs ≠ [] := by intro e; subst e; simp at hlen
              conv => lhs; unfold fstringLoop
              match cs, hdd, hcs, hfv with
              | c2 :: cs2, hdd, _, hfv =>
                have hc2 : c2 ≠ 123 := by intro e; subst e; simp at hdd
                simp [hc2, hfv]
                simpa [Spec.Acc.flush] using e
      · simp only [h123, if_false] at h
        by_cases h125 : c = 125
        · subst h125
          simp only [if_true] at h
          rw [if_neg (by omega)] at h
          by_cases hdd : cs.head? = some 125
          · simp only [hdd, if_true] at h
            match cs, hdd with
            | 125 :: cs2, _ =>
              simp only [List.tail_cons] at h
              intro fuel hf
              simp only [List.length_cons] at hf
              match fuel, hf with
              | f + 1, hf =>
                obtain ⟨qs, e, hq⟩ := h0 seen pieces (content ++ [125]) cs2 (off + 2) ps r o h
                  (hns'.suffix (List.suffix_cons _ _)) values hmv hev f (by omega)
                refine ⟨qs, ?_, hq⟩
                conv => lhs; unfold fstringLoop
                simp
                exact e
          · simp [hdd] at h
        · simp only [h125, if_false] at h
          intro fuel hf
          simp only [List.length_cons] at hf
          match fuel, hf with
          | f + 1, hf =>
            obtain ⟨qs, e, hq⟩ := h0 seen pieces (content ++ [c]) cs (off + Spec.usize c) ps r o h hns' values hmv hev f (by omega)
            refine ⟨qs, ?_, hq⟩
            conv => lhs; unfold fstringLoop
            simp only [h123, h125, h92', if_false]
            simp
            exact e

theorem all_levels (lookup : List Nat → Option Nat) (hl : LookupOk lookup) (kind : Kind)
    (hk : kind.isAnyBytes = false) :
    ∀ n, PA lookup kind n ∧ PF lookup kind n ∧ PB lookup kind n ∧ P0 lookup kind n := by
  intro n
  induction n with
  | zero =>
    refine ⟨?_, ?_, ?_, ?_⟩
    · intro nested lit cs off ps r o h; simp [Spec.parts] at h
    · intro lvl cs off echo f rest off' h; simp [Spec.field] at h
    · intro values content cs off ps r o h; simp [Spec.parts] at h
    · intro seen pieces content cs off ps r o h; simp [Spec.parts] at h
  | succ n ih =>
    obtain ⟨hA, hF, hB, h0⟩ := ih
    exact ⟨PA_step lookup hl kind hk n hA hF hB, PF_step lookup kind n hA, PB_step lookup hl kind hk n hF hB,
      P0_step lookup hl kind hk n hF h0⟩

theorem fstring_agree (lookup : List Nat → Option Nat) (hl : LookupOk lookup) (kind : Kind)
    (hf : kind.isAnyFString = true) (body : List Nat) (hns : NoSurr body) (off : Nat) (ps : List Piece)
    (h : Spec.split lookup true kind.isRaw body off = some ps) :
    ∃ qs, parseFString lookup kind body off = .ok qs ∧ Spec.merge qs = ps := by
  have hk : kind.isAnyBytes = false := by cases kind <;> simp_all [Kind.isAnyFString, Kind.isAnyBytes]
  unfold Spec.split at h
  cases hp : Spec.parts lookup true kind.isRaw (4 * body.length + 16) 0 false ⟨[], []⟩ body off with
  | none => simp [hp] at h
  | some p =>
    obtain ⟨ps', r, o⟩ := p
    simp [hp] at h
    subst h
    obtain ⟨qs, e, hq⟩ := (all_levels lookup hl kind hk _).2.2.2 false [] [] body off ps' r o hp hns []
      (by simp [Spec.merge, Spec.mergeGo]) (Or.inl rfl) (fuelFor body) (by unfold fuelFor; omega)
    exact ⟨qs, by simp [parseFString, e], hq⟩

end PV.C07
