import PV.C07.Lemmas5
import PV.Lexer.Lemmas
/-
  C07 — helper lemmas, part 6: the glue between `lex_string` of the SHARED lexer model
  (`PV.Lexer.lexIdentifier` / `lexString` / `strLoop`, tied to lexer.rs by C05's `lex` streams) and
  the offsets of the f-string scanner: on a CR-free literal the token is prefix ++ quote(s) ++ value ++
  quote(s), the prefix letters and the quote are ASCII, so an offset into the token value, re-based
  by `start + prefix_len + quote length`, is a byte offset into the source file.
-/
namespace PV.C07
open PV.C06

def kindOf : PV.Lexer.StringKind → Kind
  | .string => .str | .fstring => .fstr | .bytes => .bytes | .rawString => .rawStr
  | .rawFString => .rawFStr | .rawBytes => .rawBytes | .unicode => .unicode

theorem kindOf_isAnyFString (k : PV.Lexer.StringKind) : (kindOf k).isAnyFString = k.isAnyFString := by
  cases k <;> rfl

theorem kindOf_isRaw (k : PV.Lexer.StringKind) : (kindOf k).isRaw = k.isRaw := by
  cases k <;> rfl

theorem kindOf_prefixLen (k : PV.Lexer.StringKind) : (kindOf k).prefixLen = k.prefixLen := by
  cases k <;> rfl

/-- the closing quote(s) -/
def closing (q : Nat) (triple : Bool) : List Nat := if triple then [q, q, q] else [q]

theorem bump_ok {k : Nat} {pre : List Nat} {r : Except (PV.Lexer.ErrKind × Nat) (List Nat × Nat)} {v : List Nat} {n : Nat}
    (h : PV.Lexer.bump k pre r = .ok (v, n)) : ∃ v' n', r = .ok (v', n') ∧ v = pre ++ v' ∧ n = n' + k := by
  cases r with
  | error e => cases e; simp [PV.Lexer.bump] at h
  | ok p =>
    obtain ⟨v', n'⟩ := p
    simp [PV.Lexer.bump] at h
    exact ⟨v', n', rfl, h.1.symm, h.2.symm⟩

theorem take_step (cons r v' cl : List Nat) (n' : Nat) (h1 : n' ≤ r.length) (h2 : r.take n' = v' ++ cl) :
    n' + cons.length ≤ (cons ++ r).length ∧ (cons ++ r).take (n' + cons.length) = cons ++ v' ++ cl := by
  constructor
  · simp; omega
  · rw [List.take_append]; simp [h2, List.take_of_length_le]

theorem strLoop_noCR (q : Nat) (triple : Bool) (inp : List Nat) : ∀ (v : List Nat) (n : Nat),
    PV.Lexer.strLoop q triple inp = .ok (v, n) → (∀ x ∈ inp.take n, x ≠ 13) →
    n ≤ inp.length ∧ inp.take n = v ++ closing q triple := by
  fun_induction PV.Lexer.strLoop q triple inp <;> intro v n h hcr
  all_goals try (cases h; done)
  case case3 | case4 | case6 | case8 =>
    obtain ⟨v', n', hr, rfl, rfl⟩ := bump_ok h
    exact absurd rfl (hcr 13 (by simp))
  case case12 =>
    cases h
    have hab := ‹(decide (_ = q) && decide (_ = q)) = true›
    have ht := ‹triple = true›
    simp at hab
    simp [closing, ht, hab.1, hab.2]
  case case15 =>
    cases h
    have ht := ‹¬ triple = true›
    simp [closing, ht]
  all_goals
    obtain ⟨v', n', hr, rfl, rfl⟩ := bump_ok h
    have ih := ‹∀ (v : List Nat) (n : Nat), PV.Lexer.strLoop q triple _ = Except.ok (v, n) → _›
    obtain ⟨h1, h2⟩ := ih v' n' hr (fun x hx => hcr x (by simp [List.take_succ_cons, hx]))
    refine ⟨by simp only [List.length_cons] at h1 ⊢; omega, ?_⟩
    simp [List.take_succ_cons, h2]


theorem take_pre (pre rest : List Nat) (j : Nat) : (pre ++ rest).take (pre.length + j) = pre ++ rest.take j := by
  simp [List.take_append, List.take_of_length_le]

/-- What `lex_string` returns on a CR-free literal: the `n` characters of the token are the prefix
    (`prefix_len` characters), the opening quote(s), the captured value and the closing quote(s). -/
theorem lexString_noCR (k : PV.Lexer.StringKind) (inp value : List Nat) (k' : PV.Lexer.StringKind)
    (triple : Bool) (n : Nat)
    (h : PV.Lexer.lexString k inp = .ok (.string value k' triple, n)) (hcr : ∀ x ∈ inp.take n, x ≠ 13) :
    k' = k ∧ k.prefixLen ≤ inp.length ∧ ∃ q, (inp.drop k.prefixLen).head? = some q ∧ n ≤ inp.length ∧
      inp.take n = inp.take k.prefixLen ++ closing q triple ++ value ++ closing q triple := by
  unfold PV.Lexer.lexString at h
  cases hd : inp.drop k.prefixLen with
  | nil => simp [hd] at h
  | cons q r =>
    have hlen : k.prefixLen ≤ inp.length := by
      apply Decidable.byContradiction
      intro hc
      rw [List.drop_eq_nil_of_le (by omega)] at hd; cases hd
    obtain ⟨pfx, hpfx⟩ : ∃ pfx, pfx = inp.take k.prefixLen := ⟨_, rfl⟩
    have hinp : inp = pfx ++ q :: r := by rw [hpfx, ← hd, List.take_append_drop]
    have hpl : pfx.length = k.prefixLen := by rw [hpfx]; simp; omega
    simp only [hd] at h
    rw [← hpfx]
    clear hd
    subst hinp
    refine (fun (x : k' = k ∧ ∃ q_1, (q :: r).head? = some q_1 ∧ n ≤ (pfx ++ q :: r).length ∧
      List.take n (pfx ++ q :: r) = pfx ++ closing q_1 triple ++ value ++ closing q_1 triple) =>
        ⟨x.1, hlen, x.2⟩) ?_
    split at h
    · -- triple-quoted
      rename_i htr
      have : ∃ r2, r = q :: q :: r2 := by
        match r, htr with
        | a :: b :: r2, htr =>
          simp [PV.Lexer.isTripleOpen] at htr
          exact ⟨r2, by rw [htr.1, htr.2]⟩
      obtain ⟨r2, rfl⟩ := this
      simp only [List.drop_succ_cons, List.drop_zero] at h
      cases hs : PV.Lexer.strLoop q true r2 with
      | error e => simp [hs] at h
      | ok p =>
        obtain ⟨v, m⟩ := p
        simp [hs] at h
        obtain ⟨⟨rfl, rfl, rfl⟩, rfl⟩ := h
        have hn : k.prefixLen + 3 + m = pfx.length + (m + 1 + 1 + 1) := by omega
        rw [hn, take_pre] at hcr
        have hcr' : ∀ x ∈ r2.take m, x ≠ 13 := by
          intro x hx
          apply hcr x
          simp [List.take_succ_cons, hx]
        obtain ⟨h1, h2⟩ := strLoop_noCR q true r2 v m hs hcr'
        refine ⟨rfl, q, by simp, ?_, ?_⟩
        · simp; omega
        · rw [hn, take_pre]
          simp [List.take_succ_cons, h2, closing]
    · rename_i htr
      cases hs : PV.Lexer.strLoop q false r with
      | error e => simp [hs] at h
      | ok p =>
        obtain ⟨v, m⟩ := p
        simp [hs] at h
        obtain ⟨⟨rfl, rfl, rfl⟩, rfl⟩ := h
        have hn : k.prefixLen + 1 + m = pfx.length + (m + 1) := by omega
        rw [hn, take_pre] at hcr
        have hcr' : ∀ x ∈ r.take m, x ≠ 13 := by
          intro x hx
          apply hcr x
          simp [List.take_succ_cons, hx]
        obtain ⟨h1, h2⟩ := strLoop_noCR q false r v m hs hcr'
        refine ⟨rfl, q, by simp, ?_, ?_⟩
        · simp; omega
        · rw [hn, take_pre]
          simp [List.take_succ_cons, h2, closing]


theorem lexString_kind (k : PV.Lexer.StringKind) (inp value : List Nat) (k' : PV.Lexer.StringKind)
    (triple : Bool) (n : Nat) (h : PV.Lexer.lexString k inp = .ok (.string value k' triple, n)) : k' = k := by
  unfold PV.Lexer.lexString at h
  split at h
  · cases h
  · split at h
    · split at h
      · cases h; rfl
      · cases h
    · split at h
      · cases h; rfl
      · cases h

theorem lexName_not_string (up : PV.Lexer.UParams) (inp value : List Nat) (k : PV.Lexer.StringKind)
    (triple : Bool) (n : Nat) : PV.Lexer.lexName up inp ≠ (.string value k triple, n) := by
  unfold PV.Lexer.lexName
  intro h
  dsimp only at h
  split at h <;> cases h

theorem ofChar_facts {c : Nat} {k : PV.Lexer.StringKind} (h : PV.Lexer.StringKind.ofChar c = some k) :
    k.prefixLen = 1 ∧ c < 128 := by
  unfold PV.Lexer.StringKind.ofChar at h
  split at h <;> cases h <;> exact ⟨rfl, by omega⟩

theorem ofChars_facts {c1 c2 : Nat} {k : PV.Lexer.StringKind} (h : PV.Lexer.StringKind.ofChars c1 c2 = some k) :
    k.prefixLen = 2 ∧ c1 < 128 ∧ c2 < 128 := by
  unfold PV.Lexer.StringKind.ofChars at h
  simp only at h
  split at h
  · rename_i hc; cases h; simp at hc; exact ⟨rfl, by omega, by omega⟩
  · split at h
    · rename_i hc; cases h; simp at hc; exact ⟨rfl, by omega, by omega⟩
    · split at h
      · rename_i hc; cases h; simp at hc; exact ⟨rfl, by omega, by omega⟩
      · split at h
        · rename_i hc; cases h; simp at hc; exact ⟨rfl, by omega, by omega⟩
        · cases h

/-- A string token that `lex_identifier` returns comes from `lex_string` with a one- or two-letter
    ASCII prefix and an ASCII quote character behind it. -/
theorem lexIdentifier_string (up : PV.Lexer.UParams) (inp value : List Nat) (k : PV.Lexer.StringKind)
    (triple : Bool) (n : Nat) (h : PV.Lexer.lexIdentifier up inp = .ok (.string value k triple, n)) :
    PV.Lexer.lexString k inp = .ok (.string value k triple, n) ∧ (∀ c ∈ inp.take k.prefixLen, c < 128) ∧
      ∃ q, (inp.drop k.prefixLen).head? = some q ∧ (q = 34 ∨ q = 39) := by
  have nn : ∀ {x : PV.Lexer.Tok × Nat}, (Except.ok x : PV.Lexer.Sub) = .ok (.string value k triple, n) →
      x = PV.Lexer.lexName up inp → False := by
    intro x hx he
    cases hx
    exact lexName_not_string up inp value k triple n he.symm
  have quote : ∀ q, PV.Lexer.isQuote q = true → q = 34 ∨ q = 39 := by
    intro q hq; simpa [PV.Lexer.isQuote] using hq
  unfold PV.Lexer.lexIdentifier at h
  split at h
  · rename_i c q rest
    split at h
    · rename_i hq
      split at h
      · rename_i kind hk
        have := lexString_kind _ _ _ _ _ _ h
        subst this
        obtain ⟨h1, h2⟩ := ofChar_facts hk
        refine ⟨h, ?_, q, ?_, quote q hq⟩
        · rw [h1]; intro x hx; simp at hx; omega
        · rw [h1]; simp
      · exact (nn h rfl).elim
    · split at h
      · rename_i q2 rest2
        split at h
        · rename_i hq2
          split at h
          · rename_i kind hk
            have := lexString_kind _ _ _ _ _ _ h
            subst this
            obtain ⟨h1, h2, h3⟩ := ofChars_facts hk
            refine ⟨h, ?_, q2, ?_, quote q2 hq2⟩
            · rw [h1]; intro x hx; simp at hx; omega
            · rw [h1]; simp
          · exact (nn h rfl).elim
        · exact (nn h rfl).elim
      · exact (nn h rfl).elim
  · exact (nn h rfl).elim

theorem utf8Len_ascii (l : List Nat) (h : ∀ c ∈ l, c < 128) : utf8Len l = l.length := by
  induction l with
  | nil => rfl
  | cons a l ih =>
    have ha : csize a = 1 := by unfold csize; rw [if_pos (h a (by simp))]
    rw [utf8Len_cons, ih (fun c hc => h c (by simp [hc])), ha]; simp; omega

theorem fieldsOf_cons (p : Piece) (ps : List Piece) : fieldsOf (p :: ps) = pieceFields p ++ fieldsOf ps := by
  rw [fieldsOf]

theorem pieceFields_lit (s : List Nat) : pieceFields (.lit s) = [] := by rw [pieceFields]

theorem fieldsOf_mergeGo : ∀ (ps : List Piece) (acc : List Nat), fieldsOf (Spec.mergeGo acc ps) = fieldsOf ps := by
  intro ps
  induction ps with
  | nil =>
    intro acc; unfold Spec.mergeGo
    split
    · rfl
    · rw [fieldsOf_cons, pieceFields_lit]; rfl
  | cons p ps ih =>
    intro acc
    cases p with
    | lit s => rw [Spec.mergeGo, ih, fieldsOf_cons, pieceFields_lit]; rfl
    | field t o c sp =>
      rw [Spec.mergeGo]
      split
      · rw [List.nil_append, fieldsOf_cons, fieldsOf_cons, ih]
      · rw [List.singleton_append, fieldsOf_cons, pieceFields_lit, fieldsOf_cons, fieldsOf_cons, ih]; rfl

theorem fieldsOf_merge (ps : List Piece) : fieldsOf (Spec.merge ps) = fieldsOf ps := fieldsOf_mergeGo ps []

end PV.C07
