import PV.C07.Lemmas2
/-
  C07 — helper lemmas, part 3: locations after an escape, `parse_spec` and the nested
  `parse_fstring` against the reference `parts` at level ≥ 1.
-/
namespace PV.C07
open PV.C06

/-! ### where `parse_escaped_char` leaves the location -/

theorem utf8Len_cons (c : Nat) (cs : List Nat) : utf8Len (c :: cs) = csize c + utf8Len cs := by
  simp [utf8Len]

theorem utf8Len_append (a b : List Nat) : utf8Len (a ++ b) = utf8Len a + utf8Len b := by
  simp [utf8Len]

/-- the result of an escape: the rest is a suffix and the location advanced by the bytes in between -/
def Adv (cs : List Nat) (loc : Nat) (rest : List Nat) (loc' : Nat) : Prop :=
  ∃ pre, cs = pre ++ rest ∧ loc' = loc + utf8Len pre

theorem Adv.cons {cs rest : List Nat} {loc loc' : Nat} (c : Nat) (h : Adv cs (loc + csize c) rest loc') :
    Adv (c :: cs) loc rest loc' := by
  obtain ⟨pre, e1, e2⟩ := h
  exact ⟨c :: pre, by simp [e1], by rw [e2, utf8Len_cons]; omega⟩

theorem uniGo_adv (n : Nat) : ∀ (p : Nat) (cs : List Nat) (loc v : Nat) (rest : List Nat) (loc' : Nat),
    unicodeLiteralGo n p cs loc = .ok (some (v, rest, loc')) → Adv cs loc rest loc' := by
  induction n with
  | zero =>
    intro p cs loc v rest loc' h
    simp [unicodeLiteralGo] at h
    obtain ⟨_, rfl, rfl⟩ := h
    exact ⟨[], rfl, by simp [utf8Len]⟩
  | succ n ih =>
    intro p cs loc v rest loc' h
    cases cs with
    | nil => simp [unicodeLiteralGo] at h
    | cons c cs =>
      unfold unicodeLiteralGo at h
      cases hd : toDigit16 c with
      | none => simp [hd] at h
      | some d =>
        simp only [hd] at h
        split at h
        · exact (ih _ _ _ _ _ _ h).cons c
        · cases h

theorem parseUnicodeLiteral_adv (n : Nat) (cs : List Nat) (loc c : Nat) (rest : List Nat) (loc' : Nat)
    (h : parseUnicodeLiteral n cs loc = .ok (c, rest, loc')) : Adv cs loc rest loc' := by
  unfold parseUnicodeLiteral at h
  cases hg : unicodeLiteralGo n 0 cs loc with
  | error e => simp [hg] at h
  | ok o =>
    cases o with
    | none => simp [hg] at h
    | some p =>
      obtain ⟨v, r, l⟩ := p
      have := uniGo_adv n 0 cs loc v r l hg
      simp only [hg] at h
      split at h
      · cases h; exact this
      · split at h
        · cases h; exact this
        · cases h

theorem nameGo_adv : ∀ (cs : List Nat) (loc : Nat) (name rest : List Nat) (loc' : Nat),
    nameGo cs loc = .ok (name, rest, loc') → Adv cs loc rest loc' := by
  intro cs
  induction cs with
  | nil => intro loc name rest loc' h; simp [nameGo] at h
  | cons c cs ih =>
    intro loc name rest loc' h
    unfold nameGo at h
    split at h
    · rename_i hc
      cases h
      exact ⟨[c], rfl, by subst hc; simp [utf8Len, csize]⟩
    · cases hn : nameGo cs (loc + csize c) with
      | error e => simp [hn] at h
      | ok p =>
        obtain ⟨nm, r, l⟩ := p
        simp [hn] at h
        obtain ⟨_, rfl, rfl⟩ := h
        exact (ih _ _ _ _ hn).cons c

theorem parseEscapedChar_adv (lookup : List Nat → Option Nat) (kind : Kind) (cs : List Nat) (loc : Nat)
    (s rest : List Nat) (loc' : Nat) (h : parseEscapedChar lookup kind cs loc = .ok (s, rest, loc')) :
    Adv cs loc rest loc' := by
  unfold parseEscapedChar at h
  split at h
  · cases h
  · rename_i c cs1
    simp only at h
    have one : Adv (c :: cs1) loc cs1 (loc + csize c) := ⟨[c], rfl, by simp [utf8Len]⟩
    have lit : ∀ (r : Except Err (Nat × List Nat × Nat)),
        (match r with
          | .ok (x, cs', loc') => (Except.ok ([x], cs', loc') : Except Err (List Nat × List Nat × Nat))
          | .error e => .error e) = .ok (s, rest, loc') →
        (∀ x, r = .ok (x, rest, loc') → Adv cs1 (loc + csize c) rest loc') → Adv (c :: cs1) loc rest loc' := by
      intro r hr hk
      cases r with
      | error e => simp at hr
      | ok p =>
        obtain ⟨x, cs', l'⟩ := p
        simp at hr
        obtain ⟨_, rfl, rfl⟩ := hr
        exact (hk x rfl).cons c
    have other : (if kind.isAnyBytes = true ∧ ¬ c < 128 then (Except.error ⟨.otherError, loc + csize c⟩ : Except Err (List Nat × List Nat × Nat))
        else .ok ([92, c], cs1, loc + csize c)) = .ok (s, rest, loc') → Adv (c :: cs1) loc rest loc' := by
      intro ho
      split at ho
      · cases ho
      · cases ho; exact one
    split at h
    all_goals try (cases h; exact one)
    · exact lit _ h (fun x hx => parseUnicodeLiteral_adv 2 _ _ _ _ _ hx)
    · split at h
      · exact other h
      · exact lit _ h (fun x hx => parseUnicodeLiteral_adv 4 _ _ _ _ _ hx)
    · split at h
      · exact other h
      · exact lit _ h (fun x hx => parseUnicodeLiteral_adv 8 _ _ _ _ _ hx)
    · split at h
      · exact other h
      · refine lit _ h (fun x hx => ?_)
        unfold parseUnicodeName at hx
        split at hx
        · rename_i cs2
          cases hn : nameGo cs2 (loc + csize 78 + 1) with
          | error e => simp [hn] at hx
          | ok p =>
            obtain ⟨nm, r, l⟩ := p
            simp only [hn] at hx
            split at hx
            · cases hx
            · split at hx
              · cases hx
                have := nameGo_adv _ _ _ _ _ hn
                have h1 : csize 123 = 1 := rfl
                exact (h1 ▸ this).cons 123
              · cases hx
        · cases hx
    · split at h
      · cases hp : parseOctet c cs1 (loc + csize c) with
        | none => simp [hp] at h
        | some p =>
          obtain ⟨x, cs', l'⟩ := p
          simp [hp] at h
          obtain ⟨_, rfl, rfl⟩ := h
          unfold parseOctet at hp
          rw [octetGo_spec] at hp
          simp only at hp
          split at hp
          · cases hp
          · split at hp
            · cases hp
            · cases hp
              have hpre : (cs1.take 2).takeWhile PV.C06.Spec.isOct <+: cs1 :=
                (List.takeWhile_prefix _).trans (List.take_prefix _ _)
              have hlen : ∀ (l : List Nat), l.all PV.C06.Spec.isOct = true → utf8Len l = l.length := by
                intro l
                induction l with
                | nil => intro _; rfl
                | cons a l ih =>
                  intro h
                  simp at h
                  have : csize a = 1 := by
                    have := h.1; unfold PV.C06.Spec.isOct at this; simp at this; unfold csize; rw [if_pos (by omega)]
                  rw [utf8Len_cons, ih (by simpa using h.2), this]; simp; omega
              refine Adv.cons c ⟨(cs1.take 2).takeWhile PV.C06.Spec.isOct, (List.prefix_iff_eq_append.mp hpre).symm, ?_⟩
              rw [hlen _ (takeWhile_all _ _)]
      · exact other h

/-! ### `parts` does not look at the pieces already emitted -/

def addPrefix (P : List Piece) : Option (List Piece × List Nat × Nat) → Option (List Piece × List Nat × Nat)
  | some (ps, r, o) => some (P ++ ps, r, o)
  | none => none

theorem flush_prefix (P v : List Piece) (l : List Nat) :
    Spec.Acc.flush ⟨P ++ v, l⟩ = P ++ Spec.Acc.flush ⟨v, l⟩ := by
  unfold Spec.Acc.flush; split <;> simp

theorem parts_prefix (lookup : List Nat → Option Nat) (strict raw : Bool) (P : List Piece) :
    ∀ (n lvl : Nat) (seen : Bool) (v : List Piece) (l cs : List Nat) (off : Nat),
      Spec.parts lookup strict raw n lvl seen ⟨P ++ v, l⟩ cs off =
        addPrefix P (Spec.parts lookup strict raw n lvl seen ⟨v, l⟩ cs off) := by
  intro n
  induction n with
  | zero => intro lvl seen v l cs off; simp [Spec.parts, addPrefix]
  | succ n ih =>
    intro lvl seen v l cs off
    cases cs with
    | nil => simp [Spec.parts, addPrefix, flush_prefix]
    | cons c cs =>
      unfold Spec.parts
      simp only
      split
      · split
        · exact ih _ _ _ _ _ _
        · split
          · rfl
          · exact ih _ _ _ _ _ _
      · split
        · split
          · exact ih _ _ _ _ _ _
          · split
            · rfl
            · simp only [flush_prefix, List.append_assoc]
              exact ih _ _ _ _ _ _
        · split
          · split
            · simp [addPrefix, flush_prefix]
            · split
              · exact ih _ _ _ _ _ _
              · rfl
          · exact ih _ _ _ _ _ _

/-- one escape in literal text: model and reference agree (from the C06 lemma), and the location
    advances as the reference computes it -/
theorem escape_lit (lookup : List Nat → Option Nat) (hl : LookupOk lookup) (kind : Kind)
    (hb : kind.isAnyBytes = false) (cs : List Nat) (hns : NoSurr cs) (loc : Nat)
    (items rest : List Nat) (h : PV.C06.Spec.escape lookup false cs = some (items, rest)) :
    parseEscapedChar lookup kind cs loc =
      .ok (items.map PV.C06.Spec.fffd, rest, loc + (Spec.ulen cs - Spec.ulen rest)) ∧ rest <:+ cs ∧
      rest.length < cs.length := by
  have he := escape_spec lookup hl kind cs hns loc
  rw [hb, h] at he
  obtain ⟨hsuf, hlen⟩ := escape_suffix h
  cases hp : parseEscapedChar lookup kind cs loc with
  | error e => rw [hp] at he; simp [Agree] at he
  | ok a =>
    obtain ⟨s, cs', loc'⟩ := a
    rw [hp] at he
    simp [Agree, EscRel] at he
    obtain ⟨rfl, rfl⟩ := he
    obtain ⟨pre, e1, e2⟩ := parseEscapedChar_adv lookup kind cs loc _ _ _ hp
    refine ⟨?_, hsuf, hlen⟩
    have : Spec.ulen cs - Spec.ulen cs' = utf8Len pre := by
      rw [e1, ulen_append]; show utf8Len pre + utf8Len cs' - utf8Len cs' = utf8Len pre; omega
    rw [this, e2]

/-! ### `parse_spec` and the nested `parse_fstring` against the reference `parts` -/

/-- `fstringLoop` at nesting 1 (inside a format spec, after the first nested field) agrees with the
    reference `parts` at level 1 -/
def PB (lookup : List Nat → Option Nat) (kind : Kind) (n : Nat) : Prop :=
  ∀ (values : List Piece) (content cs : List Nat) (off : Nat) (ps : List Piece) (r : List Nat) (o : Nat),
    Spec.parts lookup true kind.isRaw n 1 true ⟨values, content⟩ cs off = some (ps, r, o) → NoSurr cs →
    r <:+ cs ∧ (r = [] ∨ r.head? = some 125) ∧
    ∀ fuel, 2 * cs.length + 4 ≤ fuel → fstringLoop lookup kind fuel 1 values content cs off = .ok (ps, r, o)

theorem model_flush (values : List Piece) (content : List Nat) :
    (if content.isEmpty then values else values ++ [Piece.lit content]) = Spec.Acc.flush ⟨values, content⟩ := rfl

theorem PA_step (lookup : List Nat → Option Nat) (hl : LookupOk lookup) (kind : Kind)
    (hk : kind.isAnyBytes = false) (n : Nat)
    (hA : PA lookup kind n) (hF : PF lookup kind n) (hB : PB lookup kind n) : PA lookup kind (n + 1) := by
  intro nested lit cs off ps r o h hns
  cases cs with
  | nil =>
    simp [Spec.parts] at h
    obtain ⟨rfl, rfl, rfl⟩ := h
    refine ⟨List.suffix_refl _, ?_⟩
    intro fuel hf
    match fuel, hf with
    | f + 1, _ =>
      conv => lhs; unfold specLoop
      simp [Spec.Acc.flush]
  | cons c cs =>
    unfold Spec.parts at h
    simp only at h
    have hns' : NoSurr cs := hns.suffix (List.suffix_cons _ _)
    by_cases h92 : c = 92 ∧ ¬ kind.isRaw = true
    · -- an escape in the literal text that opens the spec
      obtain ⟨rfl, hraw⟩ := h92
      rw [if_pos ⟨rfl, hraw⟩] at h
      by_cases hbr : cs.head? = some 123 ∨ cs.head? = some 125
      · simp only [hbr, if_true] at h
        obtain ⟨hsuf, hm⟩ := hA nested (lit ++ [92]) cs (off + 1) ps r o h hns'
        refine ⟨hsuf.trans (List.suffix_cons _ _), ?_⟩
        intro fuel hf
        simp only [List.length_cons] at hf
        match fuel, hf with
        | f + 1, hf =>
          conv => lhs; unfold specLoop
          simp [hraw, hbr]
          exact hm f (by omega)
      · simp only [hbr, if_false] at h
        cases hesc : PV.C06.Spec.escape lookup false cs with
        | none => simp [hesc] at h
        | some p =>
          obtain ⟨items, rest⟩ := p
          simp only [hesc] at h
          obtain ⟨hpe, hsuf1, hlen1⟩ := escape_lit lookup hl kind hk cs hns' (off + 1) items rest hesc
          obtain ⟨hsuf, hm⟩ := hA nested (lit ++ items.map PV.C06.Spec.fffd) rest _ ps r o h (hns'.suffix hsuf1)
          refine ⟨(hsuf.trans hsuf1).trans (List.suffix_cons _ _), ?_⟩
          intro fuel hf
          simp only [List.length_cons] at hf
          match fuel, hf with
          | f + 1, hf =>
            conv => lhs; unfold specLoop
            simp [hraw, hbr, hpe]
            exact hm f (by omega)
    · simp only [h92, if_false] at h
      have h92' : ¬ (c = 92 ∧ ¬ kind.isRaw = true) := h92
      by_cases h123 : c = 123
      · -- the first nested field
        subst h123
        simp only [if_true] at h
        have hne : ¬ (nested + 1 = 0 ∧ cs.head? = some 123) := by omega
        simp only [hne, if_false] at h
        cases hfld : Spec.field lookup true kind.isRaw n (nested + 1) cs (off + 1) with
        | none => simp [hfld] at h
        | some p =>
          obtain ⟨echo, f, rest, off'⟩ := p
          simp only [hfld] at h
          obtain ⟨hsuf, hlen, hecho, _, hm⟩ := hF (nested + 1) cs (off + 1) echo f rest off' hfld hns'
          have hecho' : echo = [] := hecho (by omega)
          subst hecho'
          -- the reference field exists only at level 1
          have hn0 : nested = 0 := by
            cases n with
            | zero => simp [Spec.field] at hfld
            | succ m =>
              unfold Spec.field at hfld
              by_cases hl : nested + 1 ≥ 2
              · simp [hl] at hfld
              · omega
          subst hn0
          simp only [List.append_nil] at h
          rw [show (Spec.Acc.flush ⟨[], lit⟩ ++ [f]) = Spec.Acc.flush ⟨[], lit⟩ ++ ([f] ++ []) by simp] at h
          rw [parts_prefix] at h
          simp only [List.append_nil, Nat.zero_add] at h
          cases hp : Spec.parts lookup true kind.isRaw n 1 true ⟨[f], []⟩ rest off' with
          | none => simp [hp, addPrefix] at h
          | some q =>
            obtain ⟨ps', r', o'⟩ := q
            simp only [hp, addPrefix, Option.some.injEq, Prod.mk.injEq] at h
            obtain ⟨rfl, rfl, rfl⟩ := h
            obtain ⟨hsuf2, hend, hm2⟩ := hB [f] [] rest off' ps' r' o' hp (hns'.suffix hsuf)
            refine ⟨(hsuf2.trans hsuf).trans (List.suffix_cons _ _), ?_⟩
            intro fuel hf
            simp only [List.length_cons] at hf
            have hl2 := hsuf2.length_le
            match fuel, hf with
            | f1 + 2, hf =>
              obtain ⟨pcs, hfv, hpo⟩ := hm f1 (by omega)
              have hpcs : pcs = [f] := by
                rcases hpo with ⟨_, e⟩ | ⟨a, b, e, ha, _⟩
                · exact e
                · exact absurd (List.append_eq_nil_iff.mp e.symm).1 ha
              subst hpcs
              have hfs : fstringLoop lookup kind (f1 + 1) 1 [] [] (123 :: cs) off = .ok (ps', r', o') := by
                conv => lhs; unfold fstringLoop
                simp [hfv]
                exact hm2 f1 (by omega)
              conv => lhs; unfold specLoop
              simp only [if_true, hfs]
              rcases hend with rfl | h125
              · conv => lhs; unfold specLoop
                simp [Spec.Acc.flush]
              · match r', h125 with
                | 125 :: r'', _ =>
                  conv => lhs; unfold specLoop
                  simp [Spec.Acc.flush]
      · simp only [h123, if_false] at h
        by_cases h125 : c = 125
        · subst h125
          simp at h
          obtain ⟨rfl, rfl, rfl⟩ := h
          refine ⟨List.suffix_refl _, ?_⟩
          intro fuel hf
          match fuel, hf with
          | f + 1, _ =>
            conv => lhs; unfold specLoop
            simp [Spec.Acc.flush]
        · simp only [h125, if_false] at h
          obtain ⟨hsuf, hm⟩ := hA nested (lit ++ [c]) cs (off + Spec.usize c) ps r o h hns'
          refine ⟨hsuf.trans (List.suffix_cons _ _), ?_⟩
          intro fuel hf
          simp only [List.length_cons] at hf
          match fuel, hf with
          | f + 1, hf =>
            conv => lhs; unfold specLoop
            simp only [h123, h125, h92', if_false]
            exact hm f (by omega)

theorem PB_step (lookup : List Nat → Option Nat) (hl : LookupOk lookup) (kind : Kind)
    (hk : kind.isAnyBytes = false) (n : Nat)
    (hF : PF lookup kind n) (hB : PB lookup kind n) : PB lookup kind (n + 1) := by
  intro values content cs off ps r o h hns
  cases cs with
  | nil =>
    simp [Spec.parts] at h
    obtain ⟨rfl, rfl, rfl⟩ := h
    refine ⟨List.suffix_refl _, Or.inl rfl, ?_⟩
    intro fuel hf
    match fuel, hf with
    | f + 1, _ =>
      conv => lhs; unfold fstringLoop
      simp [Spec.Acc.flush]
  | cons c cs =>
    unfold Spec.parts at h
    simp only at h
    have hns' : NoSurr cs := hns.suffix (List.suffix_cons _ _)
    by_cases h92 : c = 92 ∧ ¬ kind.isRaw = true
    · obtain ⟨rfl, hraw⟩ := h92
      rw [if_pos ⟨rfl, hraw⟩] at h
      by_cases hbr : cs.head? = some 123 ∨ cs.head? = some 125
      · simp only [hbr, if_true] at h
        obtain ⟨hsuf, hend, hm⟩ := hB values (content ++ [92]) cs (off + 1) ps r o h hns'
        refine ⟨hsuf.trans (List.suffix_cons _ _), hend, ?_⟩
        intro fuel hf
        simp only [List.length_cons] at hf
        match fuel, hf with
        | f + 1, hf =>
          conv => lhs; unfold fstringLoop
          simp [hraw, hbr]
          exact hm f (by omega)
      · simp only [hbr, if_false] at h
        cases hesc : PV.C06.Spec.escape lookup false cs with
        | none => simp [hesc] at h
        | some p =>
          obtain ⟨items, rest⟩ := p
          simp only [hesc] at h
          obtain ⟨hpe, hsuf1, hlen1⟩ := escape_lit lookup hl kind hk cs hns' (off + 1) items rest hesc
          obtain ⟨hsuf, hend, hm⟩ := hB values (content ++ items.map PV.C06.Spec.fffd) rest _ ps r o h (hns'.suffix hsuf1)
          refine ⟨(hsuf.trans hsuf1).trans (List.suffix_cons _ _), hend, ?_⟩
          intro fuel hf
          simp only [List.length_cons] at hf
          match fuel, hf with
          | f + 1, hf =>
            conv => lhs; unfold fstringLoop
            simp [hraw, hbr, hpe]
            exact hm f (by omega)
    · simp only [h92, if_false] at h
      have h92' : ¬ (c = 92 ∧ ¬ kind.isRaw = true) := h92
      by_cases h123 : c = 123
      · subst h123
        simp only [if_true] at h
        have hne : ¬ ((1 : Nat) = 0 ∧ cs.head? = some 123) := by omega
        simp only [hne, if_false] at h
        cases hfld : Spec.field lookup true kind.isRaw n 1 cs (off + 1) with
        | none => simp [hfld] at h
        | some p =>
          obtain ⟨echo, f, rest, off'⟩ := p
          simp only [hfld] at h
          obtain ⟨hsuf1, hlen, hecho, _, hm1⟩ := hF 1 cs (off + 1) echo f rest off' hfld hns'
          have hecho' : echo = [] := hecho (by omega)
          subst hecho'
          simp only [List.append_nil] at h
          obtain ⟨hsuf, hend, hm⟩ := hB _ [] rest off' ps r o h (hns'.suffix hsuf1)
          refine ⟨(hsuf.trans hsuf1).trans (List.suffix_cons _ _), hend, ?_⟩
          intro fuel hf
          simp only [List.length_cons] at hf
          match fuel, hf with
          | f1 + 1, hf =>
            obtain ⟨pcs, hfv, hpo⟩ := hm1 f1 (by omega)
            have hpcs : pcs = [f] := by
              rcases hpo with ⟨_, e⟩ | ⟨a, b, e, ha, _⟩
              · exact e
              · exact absurd (List.append_eq_nil_iff.mp e.symm).1 ha
            subst hpcs
            have hl1 := hsuf1.length_le
            conv => lhs; unfold fstringLoop
            simp [hfv]
            have := hm f1 (by omega)
            simpa [Spec.Acc.flush] using this
      · simp only [h123, if_false] at h
        by_cases h125 : c = 125
        · subst h125
          simp at h
          obtain ⟨rfl, rfl, rfl⟩ := h
          refine ⟨List.suffix_refl _, Or.inr rfl, ?_⟩
          intro fuel hf
          match fuel, hf with
          | f + 1, _ =>
            conv => lhs; unfold fstringLoop
            simp [Spec.Acc.flush]
        · simp only [h125, if_false] at h
          obtain ⟨hsuf, hend, hm⟩ := hB values (content ++ [c]) cs (off + Spec.usize c) ps r o h hns'
          refine ⟨hsuf.trans (List.suffix_cons _ _), hend, ?_⟩
          intro fuel hf
          simp only [List.length_cons] at hf
          match fuel, hf with
          | f + 1, hf =>
            conv => lhs; unfold fstringLoop
            simp only [h123, h125, h92', if_false]
            simp
            exact hm f (by omega)

end PV.C07
