import PV.C07.Lemmas2
/-
  C07 — helper lemmas, part 3: locations after an escape, `parse_spec` and the nested
  `parse_fstring` against the reference `parts` at level ≥ 1.
-/
namespace PV.C07
open PV.C06

/-! ### where `parse_escaped_char` leaves the location -/

theorem utf8Len_cons (c : Nat) (cs : List Nat) : utf8Len (c :: cs) = csize c + utf8Len cs := by
  simp [utf8Len]

theorem utf8Len_append (a b : List Nat) : utf8Len (a ++ b) = utf8Len a + utf8Len b := by
  simp [utf8Len]

/-- the result of an escape: the rest is a suffix and the location advanced by the bytes in between -/
def Adv (cs : List Nat) (loc : Nat) (rest : List Nat) (loc' : Nat) : Prop :=
  ∃ pre, cs = pre ++ rest ∧ loc' = loc + utf8Len pre

theorem Adv.cons {cs rest : List Nat} {loc loc' : Nat} (c : Nat) (h : Adv cs (loc + csize c) rest loc') :
    Adv (c :: cs) loc rest loc' := by
  obtain ⟨pre, e1, e2⟩ := h
  exact ⟨c :: pre, by simp [e1], by rw [e2, utf8Len_cons]; omega⟩

theorem uniGo_adv (n : Nat) : ∀ (p : Nat) (cs : List Nat) (loc v : Nat) (rest : List Nat) (loc' : Nat),
    unicodeLiteralGo n p cs loc = .ok (some (v, rest, loc')) → Adv cs loc rest loc' := by
  induction n with
  | zero =>
    intro p cs loc v rest loc' h
    simp [unicodeLiteralGo] at h
    obtain ⟨_, rfl, rfl⟩ := h
    exact ⟨[], rfl, by simp [utf8Len]⟩
  | succ n ih =>
    intro p cs loc v rest loc' h
    cases cs with
    | nil => simp [unicodeLiteralGo] at h
    | cons c cs =>
      unfold unicodeLiteralGo at h
      cases hd : toDigit16 c with
      | none => simp [hd] at h
      | some d =>
        simp only [hd] at h
        split at h
        · exact (ih _ _ _ _ _ _ h).cons c
        · cases h

theorem parseUnicodeLiteral_adv (n : Nat) (cs : List Nat) (loc c : Nat) (rest : List Nat) (loc' : Nat)
    (h : parseUnicodeLiteral n cs loc = .ok (c, rest, loc')) : Adv cs loc rest loc' := by
  unfold parseUnicodeLiteral at h
  cases hg : unicodeLiteralGo n 0 cs loc with
  | error e => simp [hg] at h
  | ok o =>
    cases o with
    | none => simp [hg] at h
    | some p =>
      obtain ⟨v, r, l⟩ := p
      have := uniGo_adv n 0 cs loc v r l hg
      simp only [hg] at h
      split at h
      · cases h; exact this
      · split at h
        · cases h; exact this
        · cases h

theorem nameGo_adv : ∀ (cs : List Nat) (loc : Nat) (name rest : List Nat) (loc' : Nat),
    nameGo cs loc = .ok (name, rest, loc') → Adv cs loc rest loc' := by
  intro cs
  induction cs with
  | nil => intro loc name rest loc' h; simp [nameGo] at h
  | cons c cs ih =>
    intro loc name rest loc' h
    unfold nameGo at h
    split at h
    · rename_i hc
      cases h
      exact ⟨[c], rfl, by subst hc; simp [utf8Len, csize]⟩
    · cases hn : nameGo cs (loc + csize c) with
      | error e => simp [hn] at h
      | ok p =>
        obtain ⟨nm, r, l⟩ := p
        simp [hn] at h
        obtain ⟨_, rfl, rfl⟩ := h
        exact (ih _ _ _ _ hn).cons c

theorem parseEscapedChar_adv (lookup : List Nat → Option Nat) (kind : Kind) (cs : List Nat) (loc : Nat)
    (s rest : List Nat) (loc' : Nat) (h : parseEscapedChar lookup kind cs loc = .ok (s, rest, loc')) :
    Adv cs loc rest loc' := by
  unfold parseEscapedChar at h
  split at h
  · cases h
  · rename_i c cs1
    simp only at h
    have one : Adv (c :: cs1) loc cs1 (loc + csize c) := ⟨[c], rfl, by simp [utf8Len]⟩
    have lit : ∀ (r : Except Err (Nat × List Nat × Nat)),
        (match r with
          | .ok (x, cs', loc') => (Except.ok ([x], cs', loc') : Except Err (List Nat × List Nat × Nat))
          | .error e => .error e) = .ok (s, rest, loc') →
        (∀ x, r = .ok (x, rest, loc') → Adv cs1 (loc + csize c) rest loc') → Adv (c :: cs1) loc rest loc' := by
      intro r hr hk
      cases r with
      | error e => simp at hr
      | ok p =>
        obtain ⟨x, cs', l'⟩ := p
        simp at hr
        obtain ⟨_, rfl, rfl⟩ := hr
        exact (hk x rfl).cons c
    have other : (if kind.isAnyBytes = true ∧ ¬ c < 128 then (Except.error ⟨.otherError, loc + csize c⟩ : Except Err (List Nat × List Nat × Nat))
        else .ok ([92, c], cs1, loc + csize c)) = .ok (s, rest, loc') → Adv (c :: cs1) loc rest loc' := by
      intro ho
      split at ho
      · cases ho
      · cases ho; exact one
    split at h
    all_goals try (cases h; exact one)
    · exact lit _ h (fun x hx => parseUnicodeLiteral_adv 2 _ _ _ _ _ hx)
    · split at h
      · exact other h
      · exact lit _ h (fun x hx => parseUnicodeLiteral_adv 4 _ _ _ _ _ hx)
    · split at h
      · exact other h
      · exact lit _ h (fun x hx => parseUnicodeLiteral_adv 8 _ _ _ _ _ hx)
    · split at h
      · exact other h
      · refine lit _ h (fun x hx => ?_)
        unfold parseUnicodeName at hx
        split at hx
        · rename_i cs2
          cases hn : nameGo cs2 (loc + csize 78 + 1) with
          | error e => simp [hn] at hx
          | ok p =>
            obtain ⟨nm, r, l⟩ := p
            simp only [hn] at hx
            split at hx
            · cases hx
            · split at hx
              · cases hx
                have := nameGo_adv _ _ _ _ _ hn
                have h1 : csize 123 = 1 := rfl
                exact (h1 ▸ this).cons 123
              · cases hx
        · cases hx
    · split at h
      · cases hp : parseOctet c cs1 (loc + csize c) with
        | none => simp [hp] at h
        | some p =>
          obtain ⟨x, cs', l'⟩ := p
          simp [hp] at h
          obtain ⟨_, rfl, rfl⟩ := h
          unfold parseOctet at hp
          rw [octetGo_spec] at hp
          simp only at hp
          split at hp
          · cases hp
          · split at hp
            · cases hp
            · cases hp
              have hpre : (cs1.take 2).takeWhile PV.C06.Spec.isOct <+: cs1 :=
                (List.takeWhile_prefix _).trans (List.take_prefix _ _)
              have hlen : ∀ (l : List Nat), l.all PV.C06.Spec.isOct = true → utf8Len l = l.length := by
                intro l
                induction l with
                | nil => intro _; rfl
                | cons a l ih =>
                  intro h
                  simp at h
                  have : csize a = 1 := by
                    have := h.1; unfold PV.C06.Spec.isOct at this; simp at this; unfold csize; rw [if_pos (by omega)]
                  rw [utf8Len_cons, ih (by simpa using h.2), this]; simp; omega
              refine Adv.cons c ⟨(cs1.take 2).takeWhile PV.C06.Spec.isOct, (List.prefix_iff_eq_append.mp hpre).symm, ?_⟩
              rw [hlen _ (takeWhile_all _ _)]
      · exact other h

/-! ### `parts` does not look at the pieces already emitted -/

def addPrefix (P : List Piece) : Option (List Piece × List Nat × Nat) → Option (List Piece × List Nat × Nat)
  | some (ps, r, o) => some (P ++ ps, r, o)
  | none => none

theorem flush_prefix (P v : List Piece) (l : List Nat) :
    Spec.Acc.flush ⟨P ++ v, l⟩ = P ++ Spec.Acc.flush ⟨v, l⟩ := by
  unfold Spec.Acc.flush; split <;> simp

theorem parts_prefix (lookup : List Nat → Option Nat) (strict raw : Bool) (P : List Piece) :
    ∀ (n lvl : Nat) (seen : Bool) (v : List Piece) (l cs : List Nat) (off : Nat),
      Spec.parts lookup strict raw n lvl seen ⟨P ++ v, l⟩ cs off =
        addPrefix P (Spec.parts lookup strict raw n lvl seen ⟨v, l⟩ cs off) := by
  intro n
  induction n with
  | zero => intro lvl seen v l cs off; simp [Spec.parts, addPrefix]
  | succ n ih =>
    intro lvl seen v l cs off
    cases cs with
    | nil => simp [Spec.parts, addPrefix, flush_prefix]
    | cons c cs =>
      unfold Spec.parts
      simp only
      split
      · split
        · exact ih _ _ _ _ _ _
        · split
          · rfl
          · exact ih _ _ _ _ _ _
      · split
        · split
          · exact ih _ _ _ _ _ _
          · split
            · rfl
            · simp only [flush_prefix, List.append_assoc]
              exact ih _ _ _ _ _ _
        · split
          · split
            · simp [addPrefix, flush_prefix]
            · split
              · exact ih _ _ _ _ _ _
              · rfl
          · exact ih _ _ _ _ _ _

/-- one escape in literal text: model and reference agree (from the C06 lemma), and the location
    advances as the reference computes it -/
theorem escape_lit (lookup : List Nat → Option Nat) (hl : LookupOk lookup) (kind : Kind)
    (hb : kind.isAnyBytes = false) (cs : List Nat) (hns : NoSurr cs) (loc : Nat)
    (items rest : List Nat) (h : PV.C06.Spec.escape lookup false cs = some (items, rest)) :
    parseEscapedChar lookup kind cs loc =
      .ok (items.map PV.C06.Spec.fffd, rest, loc + (Spec.ulen cs - Spec.ulen rest)) ∧ rest <:+ cs ∧
      rest.length < cs.length := by
  have he := escape_spec lookup hl kind cs hns loc
  rw [hb, h] at he
  obtain ⟨hsuf, hlen⟩ := escape_suffix h
  cases hp : parseEscapedChar lookup kind cs loc with
  | error e => rw [hp] at he; simp [Agree] at he
  | ok a =>
    obtain ⟨s, cs', loc'⟩ := a
    rw [hp] at he
    simp [Agree, EscRel] at he
    obtain ⟨rfl, rfl⟩ := he
    obtain ⟨pre, e1, e2⟩ := parseEscapedChar_adv lookup kind cs loc _ _ _ hp
    refine ⟨?_, hsuf, hlen⟩
    have : Spec.ulen cs - Spec.ulen cs' = utf8Len pre := by
      rw [e1, ulen_append]; show utf8Len pre + utf8Len cs' - utf8Len cs' = utf8Len pre; omega
    rw [this, e2]

/-! ### merging: `merge_constants` / `parse_strings` against the reference merge -/

theorem mergeConstants_eq : ∀ (ps : List Piece) (acc : List Nat), mergeConstants acc ps = Spec.mergeGo acc ps := by
  intro ps
  induction ps with
  | nil => intro acc; rfl
  | cons p ps ih =>
    intro acc
    cases p with
    | lit s => simp only [mergeConstants, Spec.mergeGo]; exact ih _
    | field t o c sp => simp only [mergeConstants, Spec.mergeGo, ih]

def EndsOk (values : List Piece) : Prop :=
  values = [] ∨ ∃ vs t o c sp, values = vs ++ [Piece.field t o c sp]

theorem mergeGo_split : ∀ (xs : List Piece) (acc : List Nat) (t : List Nat) (o : Nat) (c : Conv)
    (sp : Option (List Piece)) (ys : List Piece),
    Spec.mergeGo acc (xs ++ Piece.field t o c sp :: ys) =
      Spec.mergeGo acc (xs ++ [Piece.field t o c sp]) ++ Spec.mergeGo [] ys := by
  intro xs
  induction xs with
  | nil => intro acc t o c sp ys; simp [Spec.mergeGo]
  | cons x xs ih =>
    intro acc t o c sp ys
    cases x with
    | lit s => simp only [List.cons_append, Spec.mergeGo]; exact ih _ _ _ _ _ _
    | field t' o' c' sp' =>
      simp only [List.cons_append, Spec.mergeGo]
      rw [ih]; simp

theorem merge_append (values L : List Piece) (h : EndsOk values) :
    Spec.merge (values ++ L) = Spec.merge values ++ Spec.merge L := by
  rcases h with rfl | ⟨vs, t, o, c, sp, rfl⟩
  · simp [Spec.merge, Spec.mergeGo]
  · unfold Spec.merge
    rw [List.append_assoc, List.singleton_append, mergeGo_split]

theorem merge_flush (values : List Piece) (content : List Nat) (h : EndsOk values) :
    Spec.merge (Spec.Acc.flush ⟨values, content⟩) = Spec.Acc.flush ⟨Spec.merge values, content⟩ := by
  unfold Spec.Acc.flush
  by_cases hc : content.isEmpty = true
  · simp [hc]
  · simp only [hc, Bool.false_eq_true, if_false]
    rw [merge_append _ _ h]
    have : content ≠ [] := by intro e; subst e; simp at hc
    simp [Spec.merge, Spec.mergeGo, this]

/-- `a` put in front of a merged piece list -/
def prependLit (a : List Nat) : List Piece → List Piece
  | .lit e :: T => .lit (a ++ e) :: T
  | T => if a.isEmpty then T else .lit a :: T

theorem prependLit_prependLit (a s : List Nat) (X : List Piece) :
    prependLit a (prependLit s X) = prependLit (a ++ s) X := by
  cases X with
  | nil =>
    by_cases hs : s = []
    · subst hs; simp [prependLit]
    · simp [prependLit, hs]
  | cons x T =>
    cases x with
    | lit e => simp [prependLit]
    | field t o c sp =>
      by_cases hs : s = []
      · subst hs; simp [prependLit]
      · simp [prependLit, hs]

theorem mergeGo_prepend : ∀ (qs : List Piece) (a : List Nat),
    Spec.mergeGo a qs = prependLit a (Spec.mergeGo [] qs) := by
  intro qs
  induction qs with
  | nil => intro a; simp [Spec.mergeGo, prependLit]
  | cons q qs ih =>
    intro a
    cases q with
    | lit s =>
      simp only [Spec.mergeGo, List.nil_append]
      rw [ih (a ++ s), ih s, prependLit_prependLit]
    | field t o c sp =>
      simp only [Spec.mergeGo, List.isEmpty_nil, if_true, List.nil_append]
      by_cases ha : a = []
      · subst ha; simp [prependLit]
      · simp [prependLit, ha]

/-- the pieces `parse_spec` returns when the nested `parse_fstring` gave `qs` after the literal
    text `l`: merged, they are the reference pieces (`e` = the echo text of the first field) -/
theorem merge_lit_prefix (l e : List Nat) (qs : List Piece) (t : List Nat) (o : Nat) (c : Conv)
    (sp : Option (List Piece)) (T : List Piece)
    (h : Spec.merge qs = Spec.Acc.flush ⟨[], e⟩ ++ Piece.field t o c sp :: T) :
    Spec.merge (Spec.Acc.flush ⟨[], l⟩ ++ qs) = Spec.Acc.flush ⟨[], l ++ e⟩ ++ Piece.field t o c sp :: T := by
  by_cases hl : l = []
  · subst hl
    simpa [Spec.Acc.flush] using h
  · have : Spec.merge (Spec.Acc.flush ⟨[], l⟩ ++ qs) = prependLit l (Spec.merge qs) := by
      simp only [Spec.Acc.flush, List.isEmpty_iff, hl, if_false, List.nil_append, Spec.merge]
      rw [show [Piece.lit l] ++ qs = Piece.lit l :: qs by rfl, Spec.mergeGo, List.nil_append, mergeGo_prepend]
    rw [this, h]
    by_cases he : e = []
    · subst he
      simp [Spec.Acc.flush, prependLit, hl]
    · simp [Spec.Acc.flush, prependLit, hl, he]

/-! ### `parse_spec` and the nested `parse_fstring` against the reference `parts` -/

/-- `fstringLoop` at nesting 1 (inside a format spec, after the first nested field) agrees with the
    reference `parts` at level 1, up to the merging that the reference does on the fly and
    `parse_spec` does at its end (`merge_constants`): `values` are the model's unmerged pieces -/
def PB (lookup : List Nat → Option Nat) (kind : Kind) (n : Nat) : Prop :=
  ∀ (pieces : List Piece) (content cs : List Nat) (off : Nat) (ps : List Piece) (r : List Nat) (o : Nat),
    Spec.parts lookup true kind.isRaw n 1 true ⟨pieces, content⟩ cs off = some (ps, r, o) → NoSurr cs →
    r <:+ cs ∧ (r = [] ∨ r.head? = some 125) ∧
    ∀ values, Spec.merge values = pieces → EndsOk values →
    ∀ fuel, 2 * cs.length + 4 ≤ fuel →
      ∃ qs, fstringLoop lookup kind fuel 1 values content cs off = .ok (qs, r, o) ∧ Spec.merge qs = ps

theorem model_flush (values : List Piece) (content : List Nat) :
    (if content.isEmpty then values else values ++ [Piece.lit content]) = Spec.Acc.flush ⟨values, content⟩ := rfl

theorem mergeConstants_flush_nil (lit : List Nat) :
    mergeConstants [] (Spec.Acc.flush ⟨[], lit⟩) = Spec.Acc.flush ⟨[], lit⟩ := by
  unfold Spec.Acc.flush
  by_cases hl : lit = []
  · subst hl; rfl
  · simp [mergeConstants, hl]

/-- what the model's `values` become after a field, and their merge (`pcs` = the pieces
    `parse_formatted_value` returned for a field with echo text `echo`) -/
theorem merge_after_field (values pieces pcs : List Piece) (content echo : List Nat)
    (ft : List Nat) (fo : Nat) (fc : Conv) (fsp : Option (List Piece))
    (hmv : Spec.merge values = pieces) (hev : EndsOk values)
    (hpo : PiecesOf pcs echo (Piece.field ft fo fc fsp)) :
    Spec.merge (Spec.Acc.flush ⟨values, content⟩ ++ pcs) =
        Spec.Acc.flush ⟨pieces, content ++ echo⟩ ++ [Piece.field ft fo fc fsp] ∧
      EndsOk (Spec.Acc.flush ⟨values, content⟩ ++ pcs) := by
  have hends : ∀ (L : List Piece), EndsOk (L ++ [Piece.field ft fo fc fsp]) :=
    fun L => Or.inr ⟨L, ft, fo, fc, fsp, rfl⟩
  rcases hpo with ⟨rfl, rfl⟩ | ⟨a, b, rfl, ha, rfl⟩
  · refine ⟨?_, hends _⟩
    unfold Spec.Acc.flush
    by_cases hc : content = []
    · subst hc
      simp only [List.isEmpty_nil, if_true, List.append_nil]
      rw [merge_append _ _ hev, hmv]
      simp [Spec.merge, Spec.mergeGo]
    · simp only [List.isEmpty_iff, hc, if_false, List.append_nil, List.append_assoc]
      rw [merge_append _ _ hev, hmv]
      simp [Spec.merge, Spec.mergeGo, hc]
  · refine ⟨?_, ?_⟩
    · have hab : a ++ b ≠ [] := by simp [ha]
      unfold Spec.Acc.flush
      by_cases hc : content = []
      · subst hc
        simp only [List.isEmpty_nil, if_true, List.nil_append, List.isEmpty_iff, hab, if_false]
        rw [merge_append _ _ hev, hmv]
        simp [Spec.merge, Spec.mergeGo, hab]
      · have hcab : content ++ (a ++ b) ≠ [] := by simp [hc]
        simp only [List.isEmpty_iff, hc, hcab, if_false, List.append_assoc]
        rw [merge_append _ _ hev, hmv]
        simp [Spec.merge, Spec.mergeGo, hc]
    · have := hends (Spec.Acc.flush ⟨values, content⟩ ++ [Piece.lit a, Piece.lit b])
      simpa using this

theorem merge_piecesOf (pcs : List Piece) (echo : List Nat) (ft : List Nat) (fo : Nat) (fc : Conv)
    (fsp : Option (List Piece)) (hpo : PiecesOf pcs echo (Piece.field ft fo fc fsp)) :
    Spec.merge pcs = Spec.Acc.flush ⟨[], echo⟩ ++ [Piece.field ft fo fc fsp] ∧ EndsOk pcs := by
  have := merge_after_field [] [] pcs [] echo ft fo fc fsp (by simp [Spec.merge, Spec.mergeGo]) (Or.inl rfl) hpo
  simpa [Spec.Acc.flush] using this

theorem PA_step (lookup : List Nat → Option Nat) (hl : LookupOk lookup) (kind : Kind)
    (hk : kind.isAnyBytes = false) (n : Nat)
    (hA : PA lookup kind n) (hF : PF lookup kind n) (hB : PB lookup kind n) : PA lookup kind (n + 1) := by
  intro nested lit cs off ps r o h hns
  cases cs with
  | nil =>
    simp [Spec.parts] at h
    obtain ⟨rfl, rfl, rfl⟩ := h
    refine ⟨List.suffix_refl _, ?_⟩
    intro fuel hf
    match fuel, hf with
    | f + 1, _ =>
      conv => lhs; unfold specLoop
      simp only [model_flush, mergeConstants_flush_nil]
  | cons c cs =>
    unfold Spec.parts at h
    simp only at h
    have hns' : NoSurr cs := hns.suffix (List.suffix_cons _ _)
    by_cases h92 : c = 92 ∧ ¬ kind.isRaw = true
    · -- an escape in the literal text that opens the spec
      obtain ⟨rfl, hraw⟩ := h92
      rw [if_pos ⟨rfl, hraw⟩] at h
      by_cases hbr : cs.head? = some 123 ∨ cs.head? = some 125
      · simp only [hbr, if_true] at h
        obtain ⟨hsuf, hm⟩ := hA nested (lit ++ [92]) cs (off + 1) ps r o h hns'
        refine ⟨hsuf.trans (List.suffix_cons _ _), ?_⟩
        intro fuel hf
        simp only [List.length_cons] at hf
        match fuel, hf with
        | f + 1, hf =>
          conv => lhs; unfold specLoop
          simp [hraw, hbr]
          exact hm f (by omega)
      · simp only [hbr, if_false] at h
        cases hesc : PV.C06.Spec.escape lookup false cs with
        | none => simp [hesc] at h
        | some p =>
          obtain ⟨items, rest⟩ := p
          simp only [hesc] at h
          obtain ⟨hpe, hsuf1, hlen1⟩ := escape_lit lookup hl kind hk cs hns' (off + 1) items rest hesc
          obtain ⟨hsuf, hm⟩ := hA nested (lit ++ items.map PV.C06.Spec.fffd) rest _ ps r o h (hns'.suffix hsuf1)
          refine ⟨(hsuf.trans hsuf1).trans (List.suffix_cons _ _), ?_⟩
          intro fuel hf
          simp only [List.length_cons] at hf
          match fuel, hf with
          | f + 1, hf =>
            conv => lhs; unfold specLoop
            simp [hraw, hbr, hpe]
            exact hm f (by omega)
    · simp only [h92, if_false] at h
      have h92' : ¬ (c = 92 ∧ ¬ kind.isRaw = true) := h92
      by_cases h123 : c = 123
      · -- the first nested field
        subst h123
        simp only [if_true] at h
        have hne : ¬ (nested + 1 = 0 ∧ cs.head? = some 123) := by omega
        simp only [hne, if_false] at h
        cases hfld : Spec.field lookup true kind.isRaw n (nested + 1) cs (off + 1) with
        | none => simp [hfld] at h
        | some p =>
          obtain ⟨echo, f, rest, off'⟩ := p
          simp only [hfld] at h
          obtain ⟨hsuf, hlen, ⟨ft, fo, fc, fsp, rfl⟩, hm⟩ := hF (nested + 1) cs (off + 1) echo _ rest off' hfld hns'
          -- the reference field exists only at level 1
          have hn0 : nested = 0 := by
            cases n with
            | zero => simp [Spec.field] at hfld
            | succ m =>
              unfold Spec.field at hfld
              by_cases hl : nested + 1 ≥ 2
              · simp [hl] at hfld
              · omega
          subst hn0
          -- peel the literal text in front of the field off the reference run
          have hpre : Spec.Acc.flush ⟨([] : List Piece), lit ++ echo⟩ ++ [Piece.field ft fo fc fsp] =
              Spec.Acc.flush ⟨[], lit ++ echo⟩ ++ ([Piece.field ft fo fc fsp] ++ []) := by simp
          rw [hpre, parts_prefix] at h
          simp only [List.append_nil, Nat.zero_add] at h
          cases hp : Spec.parts lookup true kind.isRaw n 1 true ⟨[Piece.field ft fo fc fsp], []⟩ rest off' with
          | none => simp [hp, addPrefix] at h
          | some q =>
            obtain ⟨ps', r', o'⟩ := q
            simp only [hp, addPrefix, Option.some.injEq, Prod.mk.injEq] at h
            obtain ⟨rfl, rfl, rfl⟩ := h
            -- ... and the field itself off the run after it
            have hp1 := hp
            rw [show ([Piece.field ft fo fc fsp] : List Piece) = [Piece.field ft fo fc fsp] ++ [] by simp,
              parts_prefix] at hp1
            cases hp0 : Spec.parts lookup true kind.isRaw n 1 true ⟨[], []⟩ rest off' with
            | none => simp [hp0, addPrefix] at hp1
            | some q0 =>
              obtain ⟨T, r0, o0⟩ := q0
              simp only [hp0, addPrefix, Option.some.injEq, Prod.mk.injEq] at hp1
              obtain ⟨rfl, rfl, rfl⟩ := hp1
              refine ⟨?_, ?_⟩
              · obtain ⟨hsuf2, _, _⟩ := hB [Piece.field ft fo fc fsp] [] rest off' _ _ _ hp (hns'.suffix hsuf)
                exact (hsuf2.trans hsuf).trans (List.suffix_cons _ _)
              · intro fuel hf
                simp only [List.length_cons] at hf
                match fuel, hf with
                | f1 + 2, hf =>
                  obtain ⟨pcs, hfv, hpo⟩ := hm f1 (by omega)
                  obtain ⟨hmp, hep⟩ := merge_piecesOf pcs echo ft fo fc fsp hpo
                  -- the reference run on the merged pieces of the field
                  have hrun : Spec.parts lookup true kind.isRaw n 1 true ⟨Spec.merge pcs, []⟩ rest off' =
                      some (Spec.Acc.flush ⟨[], echo⟩ ++ ([Piece.field ft fo fc fsp] ++ T), r0, o0) := by
                    rw [hmp, show Spec.Acc.flush ⟨([] : List Piece), echo⟩ ++ [Piece.field ft fo fc fsp] =
                      Spec.Acc.flush ⟨[], echo⟩ ++ ([Piece.field ft fo fc fsp] ++ []) by simp, parts_prefix]
                    simp only [List.append_nil]
                    rw [hp]
                    simp [addPrefix]
                  obtain ⟨hsuf2, hend, hm2⟩ := hB (Spec.merge pcs) [] rest off' _ _ _ hrun (hns'.suffix hsuf)
                  have hl2 := hsuf2.length_le
                  have hl1 := hsuf.length_le
                  obtain ⟨qs, hq, hmq⟩ := hm2 pcs rfl hep f1 (by omega)
                  have hfs : fstringLoop lookup kind (f1 + 1) 1 [] [] (123 :: cs) off = .ok (qs, r0, o0) := by
                    conv => lhs; unfold fstringLoop
                    simp [hfv]
                    exact hq
                  have hfin : mergeConstants [] (Spec.Acc.flush ⟨Spec.Acc.flush ⟨[], lit⟩ ++ qs, []⟩) =
                      Spec.Acc.flush ⟨[], lit ++ echo⟩ ++ ([Piece.field ft fo fc fsp] ++ T) := by
                    rw [mergeConstants_eq]
                    have : Spec.Acc.flush ⟨Spec.Acc.flush ⟨([] : List Piece), lit⟩ ++ qs, []⟩ =
                        Spec.Acc.flush ⟨[], lit⟩ ++ qs := by simp [Spec.Acc.flush]
                    rw [this]
                    exact merge_lit_prefix lit echo qs ft fo fc fsp T (by simpa using hmq)
                  conv => lhs; unfold specLoop
                  simp only [if_true, hfs]
                  rcases hend with rfl | h125
                  · conv => lhs; unfold specLoop
                    simp only [model_flush, hfin]
                  · match r0, h125 with
                    | 125 :: r'', _ =>
                      conv => lhs; unfold specLoop
                      simp only [model_flush]
                      simp [hfin]
      · simp only [h123, if_false] at h
        by_cases h125 : c = 125
        · subst h125
          simp at h
          obtain ⟨rfl, rfl, rfl⟩ := h
          refine ⟨List.suffix_refl _, ?_⟩
          intro fuel hf
          match fuel, hf with
          | f + 1, _ =>
            conv => lhs; unfold specLoop
            simp only [model_flush, mergeConstants_flush_nil]
            simp
        · simp only [h125, if_false] at h
          obtain ⟨hsuf, hm⟩ := hA nested (lit ++ [c]) cs (off + Spec.usize c) ps r o h hns'
          refine ⟨hsuf.trans (List.suffix_cons _ _), ?_⟩
          intro fuel hf
          simp only [List.length_cons] at hf
          match fuel, hf with
          | f + 1, hf =>
            conv => lhs; unfold specLoop
            simp only [h123, h125, h92', if_false]
            exact hm f (by omega)

theorem PB_step (lookup : List Nat → Option Nat) (hl : LookupOk lookup) (kind : Kind)
    (hk : kind.isAnyBytes = false) (n : Nat)
    (hF : PF lookup kind n) (hB : PB lookup kind n) : PB lookup kind (n + 1) := by
  intro pieces content cs off ps r o h hns
  cases cs with
  | nil =>
    simp [Spec.parts] at h
    obtain ⟨rfl, rfl, rfl⟩ := h
    refine ⟨List.suffix_refl _, Or.inl rfl, ?_⟩
    intro values hmv hev fuel hf
    match fuel, hf with
    | f + 1, _ =>
      refine ⟨Spec.Acc.flush ⟨values, content⟩, ?_, ?_⟩
      · conv => lhs; unfold fstringLoop
        simp [Spec.Acc.flush]
      · rw [merge_flush _ _ hev, hmv]
  | cons c cs =>
    unfold Spec.parts at h
    simp only at h
    have hns' : NoSurr cs := hns.suffix (List.suffix_cons _ _)
    by_cases h92 : c = 92 ∧ ¬ kind.isRaw = true
    · obtain ⟨rfl, hraw⟩ := h92
      rw [if_pos ⟨rfl, hraw⟩] at h
      by_cases hbr : cs.head? = some 123 ∨ cs.head? = some 125
      · simp only [hbr, if_true] at h
        obtain ⟨hsuf, hend, hm⟩ := hB pieces (content ++ [92]) cs (off + 1) ps r o h hns'
        refine ⟨hsuf.trans (List.suffix_cons _ _), hend, ?_⟩
        intro values hmv hev fuel hf
        simp only [List.length_cons] at hf
        match fuel, hf with
        | f + 1, hf =>
          obtain ⟨qs, e, hq⟩ := hm values hmv hev f (by omega)
          refine ⟨qs, ?_, hq⟩
          conv => lhs; unfold fstringLoop
          simp [hraw, hbr]
          exact e
      · simp only [hbr, if_false] at h
        cases hesc : PV.C06.Spec.escape lookup false cs with
        | none => simp [hesc] at h
        | some p =>
          obtain ⟨items, rest⟩ := p
          simp only [hesc] at h
          obtain ⟨hpe, hsuf1, hlen1⟩ := escape_lit lookup hl kind hk cs hns' (off + 1) items rest hesc
          obtain ⟨hsuf, hend, hm⟩ := hB pieces (content ++ items.map PV.C06.Spec.fffd) rest _ ps r o h (hns'.suffix hsuf1)
          refine ⟨(hsuf.trans hsuf1).trans (List.suffix_cons _ _), hend, ?_⟩
          intro values hmv hev fuel hf
          simp only [List.length_cons] at hf
          match fuel, hf with
          | f + 1, hf =>
            obtain ⟨qs, e, hq⟩ := hm values hmv hev f (by omega)
            refine ⟨qs, ?_, hq⟩
            conv => lhs; unfold fstringLoop
            simp [hraw, hbr, hpe]
            exact e
    · simp only [h92, if_false] at h
      have h92' : ¬ (c = 92 ∧ ¬ kind.isRaw = true) := h92
      by_cases h123 : c = 123
      · subst h123
        simp only [if_true] at h
        have hne : ¬ ((1 : Nat) = 0 ∧ cs.head? = some 123) := by omega
        simp only [hne, if_false] at h
        cases hfld : Spec.field lookup true kind.isRaw n 1 cs (off + 1) with
        | none => simp [hfld] at h
        | some p =>
          obtain ⟨echo, f, rest, off'⟩ := p
          simp only [hfld] at h
          obtain ⟨hsuf1, hlen, ⟨ft, fo, fc, fsp, rfl⟩, hm1⟩ := hF 1 cs (off + 1) echo _ rest off' hfld hns'
          obtain ⟨hsuf, hend, hm⟩ := hB _ [] rest off' ps r o h (hns'.suffix hsuf1)
          refine ⟨(hsuf.trans hsuf1).trans (List.suffix_cons _ _), hend, ?_⟩
          intro values hmv hev fuel hf
          simp only [List.length_cons] at hf
          match fuel, hf with
          | f1 + 1, hf =>
            obtain ⟨pcs, hfv, hpo⟩ := hm1 f1 (by omega)
            have hl1 := hsuf1.length_le
            have key := merge_after_field values pieces pcs content echo ft fo fc fsp hmv hev hpo
            obtain ⟨qs, e, hq⟩ := hm _ key.1 key.2 f1 (by omega)
            refine ⟨qs, ?_, hq⟩
            conv => lhs; unfold fstringLoop
            simp [hfv]
            simpa [Spec.Acc.flush] using e
      · simp only [h123, if_false] at h
        by_cases h125 : c = 125
        · subst h125
          simp at h
          obtain ⟨rfl, rfl, rfl⟩ := h
          refine ⟨List.suffix_refl _, Or.inr rfl, ?_⟩
          intro values hmv hev fuel hf
          match fuel, hf with
          | f + 1, _ =>
            refine ⟨Spec.Acc.flush ⟨values, content⟩, ?_, ?_⟩
            · conv => lhs; unfold fstringLoop
              simp [Spec.Acc.flush]
            · rw [merge_flush _ _ hev, hmv]
        · simp only [h125, if_false] at h
          obtain ⟨hsuf, hend, hm⟩ := hB pieces (content ++ [c]) cs (off + Spec.usize c) ps r o h hns'
          refine ⟨hsuf.trans (List.suffix_cons _ _), hend, ?_⟩
          intro values hmv hev fuel hf
          simp only [List.length_cons] at hf
          match fuel, hf with
          | f + 1, hf =>
            obtain ⟨qs, e, hq⟩ := hm values hmv hev f (by omega)
            refine ⟨qs, ?_, hq⟩
            conv => lhs; unfold fstringLoop
            simp only [h123, h125, h92', if_false]
            simp
            exact e

end PV.C07
