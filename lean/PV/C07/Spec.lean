import PV.C07.Types
/-
  C07 — reference definitions: CPython 3.11's (pre-PEP 701) rules for splitting an f-string body
  into literal parts and replacement fields, written from `Parser/string_parser.c`
  (`fstring_find_literal`, `fstring_find_expr`) and the language reference ("Formatted string
  literals"), not from the Rust control flow.
-/
namespace PV.C07.Spec

/-- conversion letters: `!s`, `!r`, `!a`; anything else is an error -/
def convOfChar : Nat → Option Conv
  | 115 => some .str
  | 114 => some .repr
  | 97 => some .ascii
  | _ => none

def convCode : Conv → Nat
  | .none => 0 | .str => 115 | .repr => 114 | .ascii => 97

/-- the conversion of `f'{x!<c>}'` for every ASCII `c` that can stand there in a single-quoted
    one-line f-string (not NUL, LF, CR, `'`, `\`): the flag's character code, or `none` = rejected -/
def convTable : List (Nat × Option Nat) :=
  ((List.range 128).filter (fun c => c ≠ 0 ∧ c ≠ 10 ∧ c ≠ 13 ∧ c ≠ 39 ∧ c ≠ 92)).map fun c =>
    (c, (convOfChar c).map convCode)

end PV.C07.Spec
