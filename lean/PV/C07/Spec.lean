import PV.C07.Types
import PV.C06.Spec
/-
  C07 — reference definitions: CPython 3.11's (pre-PEP 701) rules for splitting an f-string body
  into literal parts and replacement fields, written from `Parser/string_parser.c`
  (`fstring_find_literal`, `fstring_find_expr`) and the language reference ("Formatted string
  literals"), not from the Rust control flow.
-/
namespace PV.C07.Spec

/-- conversion letters: `!s`, `!r`, `!a`; anything else is an error -/
def convOfChar : Nat → Option Conv
  | 115 => some .str
  | 114 => some .repr
  | 97 => some .ascii
  | _ => none

def convCode : Conv → Nat
  | .none => 0 | .str => 115 | .repr => 114 | .ascii => 97

/-- the conversion of `f'{x!<c>}'` for every ASCII `c` that can stand there in a single-quoted
    one-line f-string (not NUL, LF, CR, `'`, `\`): the flag's character code, or `none` = rejected -/
def convTable : List (Nat × Option Nat) :=
  ((List.range 128).filter (fun c => c ≠ 0 ∧ c ≠ 10 ∧ c ≠ 13 ∧ c ≠ 39 ∧ c ≠ 92)).map fun c =>
    (c, (convOfChar c).map convCode)

/-! ## the reference scanner

`strict = false`: the reference rules.  `strict = true`: the same rules restricted to the DOMAIN of
the theorem — the scanner additionally gives up (`none`) on two shapes that lie outside what the
Rust scanner can be asked or judged on:

  * a CR among the white space after a self-documenting `=`: `Py_ISSPACE` would accept it, but
    neither CPython's reader nor the Rust lexer ever lets a CR through (both turn CR and CRLF
    into LF), so no source produces such a body;
  * an expression text made of Unicode white space only (e.g. NBSP): the reference goes on to
    reject it as an invalid expression, which this level of abstraction does not see.

(The repaired scanner — triple-quoted strings in fields, any blank after `=`, escapes decoded in
format specs, empty literal pieces dropped, the echo of a self-documenting field nested in a format
spec merged: /repo c09f12b, 897a1b6, 40fcb23, dfa74fc and the `merge_constants` fix — no longer needs
the exclusions the first versions of this file had.)

Offsets: `off` is the absolute byte offset of the first character of the remaining text.
Literal values are given in stored form (a lone surrogate escape written U+FFFD, as in C06). -/

/-- `char::text_len` / UTF-8 length of a scalar value -/
def usize (c : Nat) : Nat :=
  if c < 0x80 then 1 else if c < 0x800 then 2 else if c < 0x10000 then 3 else 4

def ulen (cs : List Nat) : Nat := (cs.map usize).sum

/-- `Py_ISSPACE` -/
def isSpace (c : Nat) : Bool := c = 32 || (9 ≤ c && c ≤ 13)

/-- the white space CPython's "empty expression" test ignores -/
def isBlank (c : Nat) : Bool := c = 32 || c = 9 || c = 10 || c = 12

/-- Unicode `White_Space` (what the text/offset abstraction cannot tell from an expression) -/
def isUniSpace (c : Nat) : Bool :=
  (9 ≤ c && c ≤ 13) || c = 32 || c = 0x85 || c = 0xA0 || c = 0x1680 || (0x2000 ≤ c && c ≤ 0x200A) ||
  c = 0x2028 || c = 0x2029 || c = 0x202F || c = 0x205F || c = 0x3000

def isOpen (c : Nat) : Bool := c = 40 || c = 91 || c = 123
def isClose (c : Nat) : Bool := c = 41 || c = 93 || c = 125

/-- `(`…`)`, `[`…`]`, `{`…`}` -/
def closes (o c : Nat) : Bool := (o = 40 && c = 41) || (o = 91 && c = 93) || (o = 123 && c = 125)

/-- The rest of a string inside an expression, after its opening quote(s): the characters up to
    and including the closing quote(s), and what follows.  A backslash is an error everywhere in
    an expression. -/
def closeString (q : Nat) (triple : Bool) : List Nat → Option (List Nat × List Nat)
  | [] => none
  | c :: cs =>
    if c = 92 then none
    else if c = q ∧ ¬ triple then some ([c], cs)
    else if c = q ∧ cs.take 2 = [q, q] then some ([c, q, q], cs.drop 2)
    else match closeString q triple cs with
      | some (s, r) => some (c :: s, r)
      | none => none

/-- The expression part of a replacement field (`fstring_find_expr` up to "normal way out of this
    loop"): returns the expression text and the rest, which starts with the terminating `!`, `:`,
    `}` or `=`.  `stack` holds the open brackets.  `fuel > cs.length` suffices. -/
def exprScan (strict : Bool) : Nat → List Nat → List Nat → Option (List Nat × List Nat)
  | 0, _, _ => none
  | _ + 1, _, [] => none                                   -- "expecting '}'"
  | fuel + 1, stack, c :: cs =>
    let more (pre : List Nat) (stack : List Nat) (rest : List Nat) : Option (List Nat × List Nat) :=
      match exprScan strict fuel stack rest with
      | some (t, r) => some (pre ++ t, r)
      | none => none
    if c = 92 then none                                    -- backslash
    else if c = 39 ∨ c = 34 then
      if cs.take 2 = [c, c] then
        match closeString c true (cs.drop 2) with
        | some (s, r) => more (c :: c :: c :: s) stack r
        | none => none
      else match closeString c false cs with
        | some (s, r) => more (c :: s) stack r
        | none => none
    else if isOpen c then more [c] (c :: stack) cs
    else if c = 35 then none                               -- '#'
    else if stack.isEmpty ∧ (c = 33 ∨ c = 58 ∨ c = 125 ∨ c = 61 ∨ c = 62 ∨ c = 60) then
      if (c = 33 ∨ c = 61 ∨ c = 60 ∨ c = 62) ∧ cs.head? = some 61 then more [c, 61] stack cs.tail   -- != == <= >=
      else if c = 62 ∨ c = 60 then more [c] stack cs
      else some ([], c :: cs)
    else if isClose c then
      match stack with
      | o :: st => if closes o c then more [c] st cs else none
      | [] => none
    else more [c] stack cs

/-- The self-documenting `=` and the white space after it: `(the white space if there is an `=`,
    the rest)` -/
def eqPart : List Nat → Option (List Nat) × List Nat
  | 61 :: r => (some (r.takeWhile isSpace), r.drop (r.takeWhile isSpace).length)
  | r => (none, r)

/-- The conversion `!s`, `!r`, `!a`, which must be followed by `:` or `}`:
    `(conversion, rest, number of bytes taken)`; `none` = error. -/
def convPart : List Nat → Option (Conv × List Nat × Nat)
  | 33 :: c :: r =>
    match convOfChar c with
    | some cv => if r.head? = some 58 ∨ r.head? = some 125 then some (cv, r, 1 + usize c) else none
    | none => none
  | [33] => none
  | r => some (.none, r, 0)

/-- The format spec: a `:` followed by literal text and nested fields (`inner` scans them, one level
    deeper) up to the field's closing `}`: `(spec, rest, offset of rest)`. -/
def specPart (inner : List Nat → Nat → Option (List Piece × List Nat × Nat)) (r2 : List Nat) (o2 : Nat) :
    Option (Option (List Piece) × List Nat × Nat) :=
  match r2 with
  | 58 :: r =>
    match inner r (o2 + 1) with
    | some (ps, r', o') => some (some ps, r', o')
    | none => none
  | _ => some (none, r2, o2)

/-- the closing `}` of a field ("expecting '}'" otherwise) -/
def closePart : List Nat → Option (List Nat)
  | 125 :: r4 => some r4
  | _ => none

/-- the default `!r` of a self-documenting field without conversion and format spec -/
def finalConv (selfdoc : Bool) (cv : Conv) (spec : Option (List Piece)) : Conv :=
  if selfdoc ∧ cv = .none ∧ spec.isNone then .repr else cv

/-- the text a self-documenting field echoes -/
def echoOf (text : List Nat) : Option (List Nat) → List Nat
  | some ws => text ++ [61] ++ ws
  | none => []

/-- bytes taken by the `=` part -/
def eqBytes : Option (List Nat) → Nat
  | some ws => 1 + ulen ws
  | none => 0

/-- a self-documenting `=` outside the theorem's domain: followed by a CR (which no source can
    produce) -/
def eqOutside : Option (List Nat) → Bool
  | some ws => ws.any (· = 13)
  | none => false

/-- one piece list with the literal text still pending in front of it -/
structure Acc where
  pieces : List Piece
  lit : List Nat

def Acc.flush (a : Acc) : List Piece := if a.lit.isEmpty then a.pieces else a.pieces ++ [.lit a.lit]

mutual

/-- A replacement field after its `{`: `(echo text of a self-documenting field, the field, rest,
    offset of rest)`. -/
def field (lookup : List Nat → Option Nat) (strict raw : Bool) :
    Nat → Nat → List Nat → Nat → Option (List Nat × Piece × List Nat × Nat)
  | 0, _, _, _ => none
  | fuel + 1, lvl, cs, off =>
    if lvl ≥ 2 then none                                   -- "expressions nested too deeply"
    else match exprScan strict (cs.length + 1) [] cs with
    | none => none
    | some (text, r0) =>
      if text.all isBlank then none                        -- "empty expression not allowed"
      else if strict ∧ text.all isUniSpace then none
      else
        match eqPart r0 with
        | (sd, r1) =>
          if strict ∧ eqOutside sd then none
          else
            match convPart r1 with
            | none => none
            | some (cv, r2, d) =>
              match specPart (fun r o => parts lookup strict raw fuel (lvl + 1) false ⟨[], []⟩ r o) r2
                  (off + ulen text + eqBytes sd + d) with
              | none => none
              | some (spec, r3, o3) =>
                match closePart r3 with
                | some r4 => some (echoOf text sd, .field text off (finalConv sd.isSome cv spec) spec, r4, o3 + 1)
                | none => none

/-- Literal text and replacement fields, alternating (`fstring_find_literal_and_expr` in a loop).
    At nesting level 0 `{{` and `}}` are literal braces and a single `}` is an error; inside a
    format spec (`lvl > 0`) a `}` ends the spec.  `seen` = a field has been seen in this list (not
    used by the rules; it marks the two phases of `parse_spec` in the proofs). -/
def parts (lookup : List Nat → Option Nat) (strict raw : Bool) :
    Nat → Nat → Bool → Acc → List Nat → Nat → Option (List Piece × List Nat × Nat)
  | 0, _, _, _, _, _ => none
  | _ + 1, _, _, acc, [], off => some (acc.flush, [], off)
  | fuel + 1, lvl, seen, acc, c :: cs, off =>
    if c = 92 ∧ ¬ raw then
      if cs.head? = some 123 ∨ cs.head? = some 125 then
        parts lookup strict raw fuel lvl seen { acc with lit := acc.lit ++ [92] } cs (off + 1)
      else match PV.C06.Spec.escape lookup false cs with
        | none => none
        | some (items, rest) =>
          parts lookup strict raw fuel lvl seen { acc with lit := acc.lit ++ items.map PV.C06.Spec.fffd } rest
            (off + 1 + (ulen cs - ulen rest))
    else if c = 123 then
      if lvl = 0 ∧ cs.head? = some 123 then
        parts lookup strict raw fuel lvl seen { acc with lit := acc.lit ++ [123] } cs.tail (off + 2)
      else match field lookup strict raw fuel lvl cs (off + 1) with
        | none => none
        | some (echo, f, rest, off') =>
          parts lookup strict raw fuel lvl true ⟨(Acc.flush { acc with lit := acc.lit ++ echo }) ++ [f], []⟩ rest off'
    else if c = 125 then
      if lvl > 0 then some (acc.flush, c :: cs, off)
      else if cs.head? = some 125 then
        parts lookup strict raw fuel lvl seen { acc with lit := acc.lit ++ [125] } cs.tail (off + 2)
      else none                                             -- "single '}' is not allowed"
    else parts lookup strict raw fuel lvl seen { acc with lit := acc.lit ++ [c] } cs (off + usize c)

end

/-- The decomposition of an f-string body that starts at byte offset `off`. -/
def split (lookup : List Nat → Option Nat) (strict raw : Bool) (body : List Nat) (off : Nat) :
    Option (List Piece) :=
  match parts lookup strict raw (4 * body.length + 16) 0 false ⟨[], []⟩ body off with
  | some (ps, _, _) => some ps
  | none => none

/-- Merging of adjacent literal parts (and dropping of empty ones) across implicitly concatenated
    literals: what the reference does with the pieces of all the tokens. -/
def mergeGo : List Nat → List Piece → List Piece
  | acc, [] => if acc.isEmpty then [] else [.lit acc]
  | acc, .lit s :: ps => mergeGo (acc ++ s) ps
  | acc, .field t o c sp :: ps => (if acc.isEmpty then [] else [.lit acc]) ++ .field t o c sp :: mergeGo [] ps

def merge (ps : List Piece) : List Piece := mergeGo [] ps

end PV.C07.Spec
