import PV.C07.Lemmas4
/-
  C07 — helper lemmas, part 5: the strict reference scanner is a restriction of the reference
  scanner; the lexer's capture of a CR-free literal is the source slice; the offsets the reference
  scanner reports locate the field texts.
-/
namespace PV.C07
open PV.C06

/-- the expression scanner does not depend on the `strict` flag -/
theorem exprScan_indep : ∀ (n : Nat) (stack cs : List Nat),
    Spec.exprScan true n stack cs = Spec.exprScan false n stack cs := by
  intro n
  induction n with
  | zero => intro stack cs; simp [Spec.exprScan]
  | succ n ih =>
    intro stack cs
    cases cs with
    | nil => simp [Spec.exprScan]
    | cons c cs =>
      conv => lhs; unfold Spec.exprScan
      conv => rhs; unfold Spec.exprScan
      simp only [ih]

theorem exprScan_strict (n : Nat) (stack cs : List Nat) (x : List Nat × List Nat)
    (h : Spec.exprScan true n stack cs = some x) : Spec.exprScan false n stack cs = some x := by
  rw [← exprScan_indep]; exact h

theorem specPart_mono (f g : List Nat → Nat → Option (List Piece × List Nat × Nat))
    (hfg : ∀ r o y, f r o = some y → g r o = some y) (r2 : List Nat) (o2 : Nat)
    (x : Option (List Piece) × List Nat × Nat) (h : Spec.specPart f r2 o2 = some x) :
    Spec.specPart g r2 o2 = some x := by
  unfold Spec.specPart at h ⊢
  split
  · rename_i r
    simp only at h
    cases hf : f r (o2 + 1) with
    | none => simp [hf] at h
    | some y => rw [hfg _ _ _ hf]; rw [hf] at h; exact h
  · rename_i hne
    split at h
    · rename_i r; exact absurd rfl (hne r)
    · exact h

theorem strict_le (lookup : List Nat → Option Nat) (raw : Bool) : ∀ (n : Nat),
    (∀ lvl cs off x, Spec.field lookup true raw n lvl cs off = some x →
      Spec.field lookup false raw n lvl cs off = some x) ∧
    (∀ lvl seen acc cs off x, Spec.parts lookup true raw n lvl seen acc cs off = some x →
      Spec.parts lookup false raw n lvl seen acc cs off = some x) := by
  intro n
  induction n with
  | zero =>
    exact ⟨fun lvl cs off x h => by simp [Spec.field] at h, fun lvl seen acc cs off x h => by simp [Spec.parts] at h⟩
  | succ n ih =>
    obtain ⟨ihF, ihP⟩ := ih
    refine ⟨?_, ?_⟩
    · intro lvl cs off x h
      unfold Spec.field at h ⊢
      split at h
      · cases h
      · rename_i hl
        rw [if_neg hl]
        cases hx : Spec.exprScan true (cs.length + 1) [] cs with
        | none => simp [hx] at h
        | some p =>
          obtain ⟨text, r0⟩ := p
          rw [exprScan_strict _ _ _ _ hx]
          simp only [hx] at h ⊢
          split at h
          · cases h
          · rename_i hb
            rw [if_neg hb]
            split at h
            · cases h
            · rw [if_neg (by simp)]
              generalize Spec.eqPart r0 = ep at h ⊢
              obtain ⟨sd, r1⟩ := ep
              simp only at h ⊢
              split at h
              · cases h
              · rw [if_neg (by simp)]
                cases hcp : Spec.convPart r1 with
                | none => simp [hcp] at h
                | some q =>
                  obtain ⟨cv, r2, d⟩ := q
                  simp only [hcp] at h ⊢
                  cases hsp : Spec.specPart (fun r o => Spec.parts lookup true raw n (lvl + 1) false ⟨[], []⟩ r o) r2
                      (off + Spec.ulen text + Spec.eqBytes sd + d) with
                  | none => simp [hsp] at h
                  | some y =>
                    rw [specPart_mono _ (fun r o => Spec.parts lookup false raw n (lvl + 1) false ⟨[], []⟩ r o)
                      (fun r o y hy => ihP _ _ _ _ _ _ hy) _ _ _ hsp]
                    rw [hsp] at h
                    exact h
    · intro lvl seen acc cs off x h
      cases cs with
      | nil => simpa [Spec.parts] using h
      | cons c cs =>
        unfold Spec.parts at h ⊢
        split at h
        · rename_i h92
          rw [if_pos h92]
          split at h
          · rename_i hb; rw [if_pos hb]; exact ihP _ _ _ _ _ _ h
          · rename_i hb
            rw [if_neg hb]
            cases he : PV.C06.Spec.escape lookup false cs with
            | none => simp [he] at h
            | some q => simp only [he] at h ⊢; exact ihP _ _ _ _ _ _ h
        · rename_i h92
          rw [if_neg h92]
          split at h
          · rename_i h123
            rw [if_pos h123]
            split at h
            · rename_i hd; rw [if_pos hd]; exact ihP _ _ _ _ _ _ h
            · rename_i hd
              rw [if_neg hd]
              cases hf : Spec.field lookup true raw n lvl cs (off + 1) with
              | none => simp [hf] at h
              | some q =>
                rw [ihF _ _ _ _ hf]
                simp only [hf] at h ⊢
                exact ihP _ _ _ _ _ _ h
          · rename_i h123
            rw [if_neg h123]
            split at h
            · rename_i h125
              rw [if_pos h125]
              split at h
              · rename_i hl; rw [if_pos hl]; exact h
              · rename_i hl
                rw [if_neg hl]
                split at h
                · rename_i hd; rw [if_pos hd]; exact ihP _ _ _ _ _ _ h
                · cases h
            · rename_i h125; rw [if_neg h125]; exact ihP _ _ _ _ _ _ h

/-- the strict scanner is a restriction of the reference scanner -/
theorem split_strict_le (lookup : List Nat → Option Nat) (raw : Bool) (body : List Nat) (off : Nat)
    (ps : List Piece) (h : Spec.split lookup true raw body off = some ps) :
    Spec.split lookup false raw body off = some ps := by
  unfold Spec.split at h ⊢
  cases hp : Spec.parts lookup true raw (4 * body.length + 16) 0 false ⟨[], []⟩ body off with
  | none => simp [hp] at h
  | some q =>
    rw [(strict_le lookup raw _).2 _ _ _ _ _ _ hp]
    rw [hp] at h
    exact h

/-! ### the lexer's capture is the source slice when the literal contains no CR -/

theorem nextChar_noCR (c : Nat) (cs : List Nat) (loc : Nat) (h : c ≠ 13) :
    nextChar (c :: cs) loc = some (c, cs, loc + csize c) := by
  unfold nextChar
  split
  · rename_i heq; cases heq
  · rename_i heq; cases heq; exact absurd rfl h
  · rename_i heq; cases heq; exact absurd rfl h
  · rename_i heq; cases heq; rfl

theorem capture_noCR (q : Nat) (hq1 : csize q = 1) (triple : Bool) : ∀ (fuel : Nat) (cs : List Nat) (loc : Nat)
    (v rest : List Nat) (stop : Nat), (∀ x ∈ cs, x ≠ 13) →
    lexStringGo q triple fuel cs loc = .ok (v, rest, stop) →
    ∃ close, cs = v ++ close ++ rest ∧ stop = loc + utf8Len v + close.length ∧
      close = (if triple then [q, q, q] else [q]) := by
  intro fuel
  induction fuel with
  | zero => intro cs loc v rest stop _ h; simp [lexStringGo] at h
  | succ fuel ih =>
    intro cs loc v rest stop hcr h
    cases cs with
    | nil => simp [lexStringGo, nextChar] at h
    | cons c cs1 =>
      have hc : c ≠ 13 := hcr c (by simp)
      have hcr1 : ∀ x ∈ cs1, x ≠ 13 := fun x hx => hcr x (List.mem_cons_of_mem _ hx)
      unfold lexStringGo at h
      rw [nextChar_noCR c cs1 loc hc] at h
      simp only at h
      -- continue after pushing `x` (consumed `pre`)
      have push : ∀ (x pre cs' : List Nat) (loc' : Nat),
          (match lexStringGo q triple fuel cs' loc' with
            | .error e => (Except.error e : Except Err (List Nat × List Nat × Nat))
            | .ok (v, rest, l) => .ok (x ++ v, rest, l)) = .ok (v, rest, stop) →
          x = pre → c :: cs1 = pre ++ cs' → loc' = loc + utf8Len pre → (∀ y ∈ cs', y ≠ 13) →
          ∃ close, c :: cs1 = v ++ close ++ rest ∧ stop = loc + utf8Len v + close.length ∧
            close = (if triple then [q, q, q] else [q]) := by
        intro x pre cs' loc' hm hx hsplit hloc hcr'
        subst hx
        cases hr : lexStringGo q triple fuel cs' loc' with
        | error e => simp [hr] at hm
        | ok p =>
          obtain ⟨v', rest', l'⟩ := p
          simp [hr] at hm
          obtain ⟨rfl, rfl, rfl⟩ := hm
          obtain ⟨close, e1, e2, e3⟩ := ih cs' loc' v' rest' l' hcr' hr
          refine ⟨close, ?_, ?_, e3⟩
          · rw [hsplit, e1]; simp
          · rw [e2, hloc, utf8Len_append]; omega
      by_cases h92 : c = 92
      · subst h92
        cases cs1 with
        | nil =>
          simp [nextChar] at h
          by_cases hq : (92 : Nat) = q
          · subst hq
            cases triple <;> simp at h
            · obtain ⟨rfl, rfl, rfl⟩ := h
              exact ⟨[92], by simp, by simp [utf8Len, csize], by simp⟩
            · exact push [92] [92] [] _ h rfl (by simp) (by simp [utf8Len]) (by simp)
          · simp [hq] at h
            exact push [92] [92] [] _ h rfl (by simp) (by simp [utf8Len]) (by simp)
        | cons n cs2 =>
          have hn : n ≠ 13 := hcr1 n (by simp)
          rw [if_pos rfl, nextChar_noCR n cs2 _ hn] at h
          simp only at h
          exact push [92, n] [92, n] cs2 _ h rfl (by simp) (by simp [utf8Len, utf8Len_cons]; omega)
            (fun y hy => hcr1 y (List.mem_cons_of_mem _ hy))
      · rw [if_neg h92] at h
        simp only at h
        split at h
        · cases h
        · split at h
          · rename_i hq
            split at h
            · -- triple quoted: look at the next two characters
              rename_i htr
              split at h
              · rename_i q1 q2 rest2
                split at h
                · rename_i hqq
                  cases h
                  obtain ⟨e1, e2⟩ := hqq
                  refine ⟨(if triple then [q, q, q] else [q]), ?_, ?_, rfl⟩
                  · simp [htr, hq, e1, e2]
                  · simp [htr, utf8Len, hq, hq1]
                · exact push [c] [c] _ _ h rfl (by simp) (by simp [utf8Len]) hcr1
              · exact push [c] [c] _ _ h rfl (by simp) (by simp [utf8Len]) hcr1
            · rename_i htr
              cases h
              refine ⟨(if triple then [q, q, q] else [q]), ?_, ?_, rfl⟩
              · simp [htr, hq]
              · simp [htr, utf8Len, hq, hq1]
          · exact push [c] [c] _ _ h rfl (by simp) (by simp [utf8Len]) hcr1

mutual
/-- (expression text, absolute start offset) of every field of a piece, nested ones included -/
def pieceFields : Piece → List (List Nat × Nat)
  | .lit _ => []
  | .field t s _ none => [(t, s)]
  | .field t s _ (some ps) => (t, s) :: fieldsOf ps
def fieldsOf : List Piece → List (List Nat × Nat)
  | [] => []
  | p :: ps => pieceFields p ++ fieldsOf ps
end

theorem fieldsOf_append (a b : List Piece) : fieldsOf (a ++ b) = fieldsOf a ++ fieldsOf b := by
  induction a with
  | nil => simp [fieldsOf]
  | cons p ps ih => simp [fieldsOf, ih]

example : fieldsOf [.lit [1], .field [2] 3 .none (some [.field [4] 5 .none none])] = [([2], 3), ([4], 5)] := by
  simp [fieldsOf, pieceFields]

/-- `p = (text, start)` is where it says it is: the text occurs in `B` at byte offset `start - base` -/
def At (B : List Nat) (base : Nat) (p : List Nat × Nat) : Prop :=
  ∃ pre post, B = pre ++ p.1 ++ post ∧ p.2 = base + Spec.ulen pre

/-- `cs` is the rest of `B` at byte offset `off - base` -/
def Pos (B : List Nat) (base : Nat) (cs : List Nat) (off : Nat) : Prop :=
  ∃ pre, B = pre ++ cs ∧ off = base + Spec.ulen pre

theorem Pos.skip {B : List Nat} {base : Nat} {cs : List Nat} {off : Nat} (h : Pos B base cs off)
    (mid rest : List Nat) (e : cs = mid ++ rest) : Pos B base rest (off + Spec.ulen mid) := by
  obtain ⟨pre, e1, e2⟩ := h
  exact ⟨pre ++ mid, by rw [e1, e]; simp, by rw [e2, ulen_append]; omega⟩

theorem Pos.at {B : List Nat} {base : Nat} {cs : List Nat} {off : Nat} (h : Pos B base cs off)
    (t rest : List Nat) (e : cs = t ++ rest) : At B base (t, off) := by
  obtain ⟨pre, e1, e2⟩ := h
  exact ⟨pre, rest, by rw [e1, e]; simp, e2⟩

theorem eqPart_pos (r0 : List Nat) (sd : Option (List Nat)) (r1 : List Nat) (h : Spec.eqPart r0 = (sd, r1)) :
    ∃ mid, r0 = mid ++ r1 ∧ Spec.ulen mid = Spec.eqBytes sd := by
  unfold Spec.eqPart at h
  split at h
  · rename_i r
    cases h
    refine ⟨61 :: r.takeWhile Spec.isSpace, ?_, ?_⟩
    · simp; exact take_drop_takeWhile _ _
    · rw [ulen_cons]; simp [Spec.eqBytes, csize]
  · cases h; exact ⟨[], by simp, rfl⟩

theorem convPart_pos (r1 : List Nat) (cv : Conv) (r2 : List Nat) (d : Nat)
    (h : Spec.convPart r1 = some (cv, r2, d)) : ∃ mid, r1 = mid ++ r2 ∧ Spec.ulen mid = d := by
  unfold Spec.convPart at h
  split at h
  · rename_i c r
    split at h
    · split at h
      · cases h
        exact ⟨[33, c], by simp, by rw [ulen_cons, ulen_cons]; simp [Spec.ulen, csize, Spec.usize]⟩
      · cases h
    · cases h
  · cases h
  · cases h; exact ⟨[], by simp, rfl⟩

theorem fieldsOf_flush (a : Spec.Acc) : fieldsOf a.flush = fieldsOf a.pieces := by
  unfold Spec.Acc.flush
  split
  · rfl
  · simp [fieldsOf_append, fieldsOf, pieceFields]

theorem located (lookup : List Nat → Option Nat) (s raw : Bool) (B : List Nat) (base : Nat) : ∀ (n : Nat),
    (∀ lvl cs off echo f rest off', Spec.field lookup s raw n lvl cs off = some (echo, f, rest, off') →
      Pos B base cs off → Pos B base rest off' ∧ ∀ p ∈ pieceFields f, At B base p) ∧
    (∀ lvl seen acc cs off ps r o, Spec.parts lookup s raw n lvl seen acc cs off = some (ps, r, o) →
      Pos B base cs off → (∀ p ∈ fieldsOf acc.pieces, At B base p) →
      Pos B base r o ∧ ∀ p ∈ fieldsOf ps, At B base p) := by
  intro n
  induction n with
  | zero =>
    exact ⟨fun _ _ _ _ _ _ _ h => by simp [Spec.field] at h, fun _ _ _ _ _ _ _ _ h => by simp [Spec.parts] at h⟩
  | succ n ih =>
    obtain ⟨ihF, ihP⟩ := ih
    refine ⟨?_, ?_⟩
    · intro lvl cs off echo f rest off' h hpos
      unfold Spec.field at h
      split at h
      · cases h
      · cases hx : Spec.exprScan s (cs.length + 1) [] cs with
        | none => simp [hx] at h
        | some p =>
          obtain ⟨text, r0⟩ := p
          simp only [hx] at h
          obtain ⟨hcs, _⟩ := exprScan_term s _ _ _ _ _ hx
          split at h
          · cases h
          · split at h
            · cases h
            · generalize hep : Spec.eqPart r0 = ep at h
              obtain ⟨sd, r1⟩ := ep
              simp only at h
              split at h
              · cases h
              · cases hcp : Spec.convPart r1 with
                | none => simp [hcp] at h
                | some q =>
                  obtain ⟨cv, r2, d⟩ := q
                  simp only [hcp] at h
                  obtain ⟨m1, e1, u1⟩ := eqPart_pos _ _ _ hep
                  obtain ⟨m2, e2, u2⟩ := convPart_pos _ _ _ _ hcp
                  have p0 : Pos B base r0 (off + Spec.ulen text) := hpos.skip text r0 hcs
                  have p1 : Pos B base r1 (off + Spec.ulen text + Spec.eqBytes sd) := by
                    rw [← u1]; exact p0.skip m1 r1 e1
                  have p2 : Pos B base r2 (off + Spec.ulen text + Spec.eqBytes sd + d) := by
                    rw [← u2]; exact p1.skip m2 r2 e2
                  have hat : At B base (text, off) := hpos.at text r0 hcs
                  generalize hsp : Spec.specPart _ r2 _ = sp at h
                  cases sp with
                  | none => simp at h
                  | some y =>
                    obtain ⟨spec, r3, o3⟩ := y
                    simp only at h
                    cases hcl : Spec.closePart r3 with
                    | none => simp [hcl] at h
                    | some r4 =>
                      simp only [hcl, Option.some.injEq, Prod.mk.injEq] at h
                      obtain ⟨_, rfl, rfl, rfl⟩ := h
                      have hr3 := closePart_eq hcl
                      -- the spec part
                      unfold Spec.specPart at hsp
                      split at hsp
                      · rename_i r
                        cases hpp : Spec.parts lookup s raw n (lvl + 1) false ⟨[], []⟩ r
                            (off + Spec.ulen text + Spec.eqBytes sd + d + 1) with
                        | none => simp [hpp] at hsp
                        | some z =>
                          obtain ⟨ps, r', o'⟩ := z
                          simp [hpp] at hsp
                          obtain ⟨rfl, rfl, rfl⟩ := hsp
                          have pr : Pos B base r (off + Spec.ulen text + Spec.eqBytes sd + d + 1) := by
                            have := p2.skip [58] r rfl
                            simpa [Spec.ulen, Spec.usize] using this
                          obtain ⟨p3, hf⟩ := ihP _ _ _ _ _ _ _ _ hpp pr (by simp [fieldsOf])
                          refine ⟨?_, ?_⟩
                          · have := p3.skip [125] r4 hr3
                            simpa [Spec.ulen, Spec.usize] using this
                          · intro p hp
                            simp [pieceFields] at hp
                            rcases hp with rfl | hp
                            · exact hat
                            · exact hf p hp
                      · cases hsp
                        refine ⟨?_, ?_⟩
                        · have := p2.skip [125] r4 hr3
                          simpa [Spec.ulen, Spec.usize] using this
                        · intro p hp
                          simp [pieceFields] at hp
                          subst hp
                          exact hat
    · intro lvl seen acc cs off ps r o h hpos hacc
      cases cs with
      | nil =>
        simp [Spec.parts] at h
        obtain ⟨rfl, rfl, rfl⟩ := h
        exact ⟨hpos, by rw [fieldsOf_flush]; exact hacc⟩
      | cons c cs =>
        unfold Spec.parts at h
        have step1 : Pos B base cs (off + 1) → True := fun _ => trivial
        split at h
        · rename_i h92
          obtain ⟨rfl, _⟩ := h92
          have pc : Pos B base cs (off + 1) := by
            have := hpos.skip [92] cs rfl
            simpa [Spec.ulen, Spec.usize] using this
          split at h
          · exact ihP _ _ _ _ _ _ _ _ h pc hacc
          · cases he : PV.C06.Spec.escape lookup false cs with
            | none => simp [he] at h
            | some q =>
              obtain ⟨items, rest⟩ := q
              simp only [he] at h
              obtain ⟨hsuf, _⟩ := escape_suffix he
              obtain ⟨mid, hmid⟩ := hsuf
              have : Spec.ulen cs - Spec.ulen rest = Spec.ulen mid := by
                rw [← hmid, ulen_append]; omega
              rw [this] at h
              exact ihP _ _ _ _ _ _ _ _ h (pc.skip mid rest hmid.symm) hacc
        · split at h
          · rename_i h123
            subst h123
            have pc : Pos B base cs (off + 1) := by
              have := hpos.skip [123] cs rfl
              simpa [Spec.ulen, Spec.usize] using this
            split at h
            · rename_i hd
              match cs, hd.2, pc with
              | 123 :: cs2, _, pc =>
                have pc2 : Pos B base cs2 (off + 2) := by
                  have := pc.skip [123] cs2 rfl
                  simpa [Spec.ulen, Spec.usize] using this
                exact ihP _ _ _ _ _ _ _ _ h pc2 hacc
            · cases hf : Spec.field lookup s raw n lvl cs (off + 1) with
              | none => simp [hf] at h
              | some q =>
                obtain ⟨echo, f, rest, off'⟩ := q
                simp only [hf] at h
                obtain ⟨pr, hfl⟩ := ihF _ _ _ _ _ _ _ hf pc
                refine ihP _ _ _ _ _ _ _ _ h pr ?_
                intro p hp
                simp only [fieldsOf_append, fieldsOf_flush, List.mem_append] at hp
                rcases hp with hp | hp
                · exact hacc p hp
                · simp [fieldsOf] at hp; exact hfl p hp
          · split at h
            · rename_i h125
              subst h125
              split at h
              · cases h
                exact ⟨hpos, by rw [fieldsOf_flush]; exact hacc⟩
              · split at h
                · rename_i hd
                  match cs, hd, hpos with
                  | 125 :: cs2, _, hpos =>
                    have pc2 : Pos B base cs2 (off + 2) := by
                      have := hpos.skip [125, 125] cs2 rfl
                      simpa [Spec.ulen, Spec.usize] using this
                    exact ihP _ _ _ _ _ _ _ _ h pc2 hacc
                · cases h
            · have pc : Pos B base cs (off + Spec.usize c) := by
                have := hpos.skip [c] cs rfl
                simpa [Spec.ulen] using this
              exact ihP _ _ _ _ _ _ _ _ h pc hacc

end PV.C07
