import PV.C06.Model
import PV.C07.Types
/-
  C07 — executable model of the f-string scanner in parser/src/string.rs:
    StringParser::{parse_fstring, parse_formatted_value, parse_spec, parse}  and the f-string
    branch of `parse_strings` (merging of adjacent constant pieces).

  Conventions as in `PV.C06.Model`: a body is the list of scalar values the lexer captured, every
  function threads the remaining characters and the current byte `location`; Rust errors are
  `Except.error ⟨kind, location⟩`, panics the kind `.panic`.  Loops take a `fuel` argument
  (`fuelFor body` always suffices: every recursive call either consumes a character or descends one
  nesting level, and there are at most three levels).

  `parse_fstring_expr(&expression, location)` — the recursive call into the expression parser — is
  abstracted as the pair `(expression, location)` stored in `Piece.field`.  Whether that text is a
  valid expression is outside this model (the correspondence streams only contain f-strings whose
  field expressions parse).

  Core Lean only.
-/
namespace PV.C07
open PV.C06

/-- `char::is_whitespace` (Unicode `White_Space`), used by `str::trim` -/
def isWhitespace (c : Nat) : Bool :=
  (9 ≤ c && c ≤ 13) || c = 32 || c = 0x85 || c = 0xA0 || c = 0x1680 || (0x2000 ≤ c && c ≤ 0x200A) ||
  c = 0x2028 || c = 0x2029 || c = 0x202F || c = 0x205F || c = 0x3000

/-- `expression.trim().is_empty()` -/
def trimIsEmpty (e : List Nat) : Bool := e.all isWhitespace

/-- the inner `loop` of the quote arm of `parse_formatted_value`: copy up to and including the
    closing quote — the next `q`, or for a triple-quoted string the third `q` in a row (`run`
    counts the quote characters just seen); `none` when the text ends first.
    Returns (copied, rest, location). -/
def skipStr (q : Nat) (triple : Bool) : Nat → List Nat → Nat → Option (List Nat × List Nat × Nat)
  | _, [], _ => none
  | run, c :: cs, loc =>
    if c = q then
      if ¬ triple ∨ run + 1 = 3 then some ([c], cs, loc + csize c)
      else match skipStr q triple (run + 1) cs (loc + csize c) with
        | some (s, rest, l) => some (c :: s, rest, l)
        | none => none
    else match skipStr q triple 0 cs (loc + csize c) with
      | some (s, rest, l) => some (c :: s, rest, l)
      | none => none

/-- the local variables of `parse_formatted_value` -/
structure FvState where
  expr : List Nat
  spec : Option (List Piece)
  delims : List Nat              -- the `delimiters` stack, top first
  conv : Conv
  selfDoc : Bool
  trailing : List Nat

def FvState.init : FvState := ⟨[], none, [], .none, false, []⟩

/-- what `parse_formatted_value` returns at the closing `}` -/
def fvResult (st : FvState) (location : Nat) : List Piece :=
  if ¬ st.selfDoc then [.field st.expr location st.conv st.spec]
  else
    [.lit (st.expr ++ [61]), .lit st.trailing,
     .field st.expr location
       (if st.conv = .none ∧ st.spec.isNone then .repr else st.conv) st.spec]

def ferr (k : FErr) (loc : Nat) : Err := ⟨.fstring k, loc⟩

/-- `StringParser::merge_constants` (applied by `parse_spec` to its result): adjacent string
    constants are joined and empty ones dropped; `cur` is the pending text (`current`) -/
def mergeConstants : List Nat → List Piece → List Piece
  | cur, [] => if cur.isEmpty then [] else [.lit cur]
  | cur, .lit s :: ps => mergeConstants (cur ++ s) ps
  | cur, .field t o c sp :: ps =>
    (if cur.isEmpty then [] else [.lit cur]) ++ .field t o c sp :: mergeConstants [] ps

mutual

/-- the `while let Some(ch) = self.next_char()` loop of `parse_formatted_value(nested)`;
    `location` is the position saved on entry (start of the expression text) -/
def fvLoop (lookup : List Nat → Option Nat) (kind : Kind) :
    Nat → Nat → Nat → FvState → List Nat → Nat → Except Err (List Piece × List Nat × Nat)
  | 0, _, _, _, _, loc => .error ⟨.panic, loc⟩
  | _ + 1, _, _, _, [], loc => .error (ferr .unclosedLbrace loc)
  | fuel + 1, nested, location, st, ch :: cs, loc0 =>
    let loc := loc0 + csize ch
    if (ch = 33 ∨ ch = 61 ∨ ch = 62 ∨ ch = 60) ∧ cs.head? = some 61 then
      -- `!=`, `==`, `>=`, `<=`
      fvLoop lookup kind fuel nested location { st with expr := st.expr ++ [ch, 61] } cs.tail (loc + 1)
    else if ch = 33 ∧ st.delims.isEmpty then
      -- conversion
      if trimIsEmpty st.expr then .error (ferr .emptyExpression loc)
      else match cs with
        | [] => .error (ferr .unclosedLbrace loc)
        | c :: cs' =>
          let loc' := loc + csize c
          let conv : Option Conv :=
            if c = 115 then some .str else if c = 97 then some .ascii else if c = 114 then some .repr else none
          match conv with
          | none => .error (ferr .invalidConversionFlag loc')
          | some cv =>
            if cs'.head? = some 125 ∨ cs'.head? = some 58 then
              fvLoop lookup kind fuel nested location { st with conv := cv } cs' loc'
            else .error (ferr .unclosedLbrace loc')
    else if ch = 61 ∧ st.delims.isEmpty then
      -- self-documenting `=`
      fvLoop lookup kind fuel nested location { st with selfDoc := true } cs loc
    else if ch = 58 ∧ st.delims.isEmpty then
      match specLoop lookup kind fuel nested [] [] cs loc with
      | .error e => .error e
      | .ok (ps, cs', loc') => fvLoop lookup kind fuel nested location { st with spec := some ps } cs' loc'
    else if (ch = 40 ∨ ch = 123 ∨ ch = 91) ∧ ¬ st.selfDoc then
      -- (after the self-documenting `=` only blanks, `!`, `:` or `}` may follow)
      fvLoop lookup kind fuel nested location { st with expr := st.expr ++ [ch], delims := ch :: st.delims } cs loc
    else if ch = 41 then
      match st.delims with
      | 40 :: ds => fvLoop lookup kind fuel nested location { st with expr := st.expr ++ [ch], delims := ds } cs loc
      | c :: _ => .error (ferr (.mismatchedDelimiter c 41) loc)
      | [] => .error (ferr (.unmatched 41) loc)
    else if ch = 93 then
      match st.delims with
      | 91 :: ds => fvLoop lookup kind fuel nested location { st with expr := st.expr ++ [ch], delims := ds } cs loc
      | c :: _ => .error (ferr (.mismatchedDelimiter c 93) loc)
      | [] => .error (ferr (.unmatched 93) loc)
    else if ch = 125 ∧ ¬ st.delims.isEmpty then
      match st.delims with
      | 123 :: ds => fvLoop lookup kind fuel nested location { st with expr := st.expr ++ [ch], delims := ds } cs loc
      | c :: _ => .error (ferr (.mismatchedDelimiter c 125) loc)
      | [] => fvLoop lookup kind fuel nested location st cs loc
    else if ch = 125 then
      if trimIsEmpty st.expr then .error (ferr .emptyExpression loc)
      else .ok (fvResult st location, cs, loc)
    else if (ch = 34 ∨ ch = 39) ∧ ¬ st.selfDoc then
      -- a triple-quoted string ends at three quote characters in a row
      let triple := decide (cs.take 2 = [ch, ch])
      let cs0 := if triple then cs.drop 2 else cs
      let loc0 := if triple then loc + 2 else loc
      let opening := if triple then [ch, ch, ch] else [ch]
      match skipStr ch triple 0 cs0 loc0 with
      | none => .error (ferr .unterminatedString (loc0 + utf8Len cs0))
      | some (s, cs', loc') =>
        fvLoop lookup kind fuel nested location { st with expr := st.expr ++ opening ++ s } cs' loc'
    else if (ch = 32 ∨ ch = 9 ∨ ch = 10 ∨ ch = 11 ∨ ch = 12) ∧ st.selfDoc then
      fvLoop lookup kind fuel nested location { st with trailing := st.trailing ++ [ch] } cs loc
    else if ch = 92 then .error (ferr .unterminatedString loc)
    else if st.selfDoc then .error (ferr .unclosedLbrace loc)
    else fvLoop lookup kind fuel nested location { st with expr := st.expr ++ [ch] } cs loc

/-- the `while let Some(&next) = self.peek()` loop of `parse_spec(nested)`;
    `acc` = `spec_constructor`, `piece` = `constant_piece`; the result goes through
    `merge_constants` -/
def specLoop (lookup : List Nat → Option Nat) (kind : Kind) :
    Nat → Nat → List Piece → List Nat → List Nat → Nat → Except Err (List Piece × List Nat × Nat)
  | 0, _, _, _, _, loc => .error ⟨.panic, loc⟩
  | fuel + 1, nested, acc, piece, cs, loc =>
    let flush (acc : List Piece) (piece : List Nat) : List Piece :=
      if piece.isEmpty then acc else acc ++ [.lit piece]
    match cs with
    | [] => .ok (mergeConstants [] (flush acc piece), [], loc)
    | c :: cs' =>
      if c = 123 then
        match fstringLoop lookup kind fuel (nested + 1) [] [] cs loc with
        | .error e => .error e
        | .ok (ps, rest, loc') => specLoop lookup kind fuel nested (flush acc piece ++ ps) [] rest loc'
      else if c = 125 then .ok (mergeConstants [] (flush acc piece), cs, loc)
      else if c = 92 ∧ ¬ kind.isRaw then
        if cs'.head? = some 123 ∨ cs'.head? = some 125 then
          specLoop lookup kind fuel nested acc (piece ++ [92]) cs' (loc + 1)
        else
          match parseEscapedChar lookup kind cs' (loc + 1) with
          | .error e => .error e
          | .ok (s, rest, loc') => specLoop lookup kind fuel nested acc (piece ++ s) rest loc'
      else specLoop lookup kind fuel nested acc (piece ++ [c]) cs' (loc + csize c)

/-- `parse_fstring(nested)`: the nesting check, then the `while let Some(&ch) = self.peek()` loop;
    `values` = pieces so far, `content` = pending literal text.  (The check is repeated on every
    iteration here; `nested` does not change inside the loop.) -/
def fstringLoop (lookup : List Nat → Option Nat) (kind : Kind) :
    Nat → Nat → List Piece → List Nat → List Nat → Nat → Except Err (List Piece × List Nat × Nat)
  | 0, _, _, _, _, loc => .error ⟨.panic, loc⟩
  | fuel + 1, nested, values, content, cs, loc =>
    let flush (values : List Piece) (content : List Nat) : List Piece :=
      if content.isEmpty then values else values ++ [.lit content]
    if nested ≥ 2 then .error (ferr .expressionNestedTooDeeply loc)
    else match cs with
    | [] => .ok (flush values content, [], loc)
    | ch :: cs1 =>
      if ch = 123 then
        let loc1 := loc + 1
        let field (cs2 : List Nat) (loc2 : Nat) :=
          match fvLoop lookup kind fuel nested loc2 FvState.init cs2 loc2 with
          | .error e => Except.error e
          | .ok (ps, rest, loc') => fstringLoop lookup kind fuel nested (flush values content ++ ps) [] rest loc'
        if nested = 0 then
          match cs1 with
          | 123 :: cs2 => fstringLoop lookup kind fuel nested values (content ++ [123]) cs2 (loc1 + 1)
          | [] => .error (ferr .unclosedLbrace loc1)
          | _ => field cs1 loc1
        else field cs1 loc1
      else if ch = 125 then
        if nested > 0 then .ok (flush values content, cs, loc)
        else
          match cs1 with
          | 125 :: cs2 => fstringLoop lookup kind fuel nested values (content ++ [125]) cs2 (loc + 2)
          | _ => .error (ferr .singleRbrace (loc + 1))
      else if ch = 92 ∧ ¬ kind.isRaw then
        if cs1.head? = some 123 ∨ cs1.head? = some 125 then
          fstringLoop lookup kind fuel nested values (content ++ [92]) cs1 (loc + 1)
        else
          match parseEscapedChar lookup kind cs1 (loc + 1) with
          | .error e => .error e
          | .ok (s, rest, loc') => fstringLoop lookup kind fuel nested values (content ++ s) rest loc'
      else fstringLoop lookup kind fuel nested values (content ++ [ch]) cs1 (loc + csize ch)

end

/-- fuel that always suffices for a body of this length -/
def fuelFor (body : List Nat) : Nat := 4 * body.length + 16

/-- `StringParser::parse` for an f-string token: `parse_fstring(0)` -/
def parseFString (lookup : List Nat → Option Nat) (kind : Kind) (body : List Nat) (loc : Nat) :
    Except Err (List Piece) :=
  match fstringLoop lookup kind (fuelFor body) 0 [] [] body loc with
  | .error e => .error e
  | .ok (ps, _, _) => .ok ps

/-- `parse_string(source, kind, …)` for any token in a concatenation that contains an f-string:
    the pieces the token contributes -/
def tokPieces (lookup : List Nat → Option Nat) (t : StrTok) : Except Err (List Piece) :=
  if t.kind.isAnyFString then parseFString lookup t.kind t.body t.bodyLoc
  else
    match parseString lookup t.kind t.body t.bodyLoc with
    | .error e => .error e
    | .ok s => .ok [.lit s]

/-- the pieces of all tokens, in order (the nested `for` loops of the third branch) -/
def allPieces (lookup : List Nat → Option Nat) : List StrTok → Except Err (List Piece)
  | [] => .ok []
  | t :: ts =>
    match tokPieces lookup t with
    | .error e => .error e
    | .ok ps =>
      match allPieces lookup ts with
      | .error e => .error e
      | .ok qs => .ok (ps ++ qs)

/-- "De-duplicate adjacent constants": `cur = none` is the empty `current` vector, `some s` a
    non-empty one whose strings join to `s`; empty constant values are not pushed -/
def dedup : Option (List Nat) → List Piece → List Piece
  | none, [] => []
  | some s, [] => [.lit s]
  | cur, .lit s :: ps => if s.isEmpty then dedup cur ps else dedup (some ((cur.getD []) ++ s)) ps
  | none, .field t o c sp :: ps => .field t o c sp :: dedup none ps
  | some s, .field t o c sp :: ps => .lit s :: .field t o c sp :: dedup none ps

/-- `parse_strings(values)` when at least one value is an f-string (and none is bytes — that case
    and the mixing error are `PV.C06.parseStrings`).  Result: the `u` marker every constant piece
    gets (`initial_kind`) and the `JoinedStr` values. -/
def parseStringsF (lookup : List Nat → Option Nat) (toks : List StrTok) : Except Err (Bool × List Piece) :=
  match PV.C06.parseStrings lookup toks with
  | some (.error e) => .error e
  | some (.ok _) => .error ⟨.panic, 0⟩          -- not an f-string concatenation: outside this function
  | none =>
    match toks with
    | [] => .error ⟨.panic, 0⟩
    | t0 :: _ =>
      match allPieces lookup toks with
      | .error e => .error e
      | .ok ps => .ok (t0.kind.isUnicode, dedup none ps)

end PV.C07
