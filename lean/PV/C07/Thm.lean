import PV.C07.Model
import PV.C07.Spec
import PV.C07.Lemmas5
import PV.Gen.C07Tables
/-
  C07 — property theorems: f-strings decompose into the reference literal parts and replacement
  fields.

  Reading guide.  `Spec.split lookup strict raw body off` is the reference scanner (CPython 3.11,
  pre-PEP 701 rules; validated against CPython itself on every run).  With `strict = true` it is
  restricted to the DOMAIN of the partial theorem: it answers `none` on exactly the shapes listed in
  `Spec.lean` (one known finding with a witness below, and two shapes no source can produce or
  the text/offset abstraction cannot judge).  The model mirrors /repo after the fixes c09f12b,
  897a1b6, 40fcb23, dfa74fc and d717a96.  `parseFString` is the model of the Rust
  scanner; a field is `(expression text, absolute offset, conversion, nested spec)`.
  `Spec.merge` concatenates adjacent literal pieces and drops empty ones — what the reference does
  on the fly and `parse_strings` does afterwards (`dedup`).  `NoSurr body`: the body is a Rust `str`.
-/
namespace PV.C07
open PV.C06

/-! ### behaviourally extracted table -/

/-- The conversion-letter table of the real parser (every ASCII character after `!`, obtained by
    running the parser) is the reference table: `s`, `r`, `a` and nothing else. -/
theorem conv_table_eq : Gen.convTable = Spec.convTable := by decide +kernel

/-! ### the scanner agrees with the reference on the domain -/

/-- the full statement (all f-strings the reference accepts) -/
def fstring_full : Prop :=
  ∀ (lookup : List Nat → Option Nat), LookupOk lookup → ∀ (kind : Kind), kind.isAnyFString = true →
  ∀ (body : List Nat), NoSurr body → ∀ (off : Nat) (ps : List Piece),
    Spec.split lookup false kind.isRaw body off = some ps →
    ∃ qs, parseFString lookup kind body off = .ok qs ∧ Spec.merge qs = ps

/-- For every f-string body, of any length, that the reference accepts inside the domain: the Rust
    scanner accepts it and produces — after merging adjacent literal pieces — exactly the reference
    pieces: same literal text (escapes decoded, doubled braces, raw or not), and for every field the
    same expression text at the same absolute offset, the same conversion (with the default `!r`
    of a bare self-documenting field), and the same nested format spec, recursively. -/
theorem fstring_eq_spec_partial (lookup : List Nat → Option Nat) (hl : LookupOk lookup) (kind : Kind)
    (hf : kind.isAnyFString = true) (body : List Nat) (hns : NoSurr body) (off : Nat) (ps : List Piece)
    (h : Spec.split lookup true kind.isRaw body off = some ps) :
    ∃ qs, parseFString lookup kind body off = .ok qs ∧ Spec.merge qs = ps :=
  fstring_agree lookup hl kind hf body hns off ps h

-- non-vacuity: f'a{x!r:>{w}}{{b}}{ y = }' — literal text, conversion, nested spec, doubled braces, '='
example : Spec.split (fun _ => none) true false
    [97, 123, 120, 33, 114, 58, 62, 123, 119, 125, 125, 123, 123, 98, 125, 125, 123, 32, 121, 32, 61, 32, 125] 2
    = some [.lit [97], .field [120] 4 .repr (some [.lit [62], .field [119] 10 .none none]),
            .lit [123, 98, 125, 32, 121, 32, 61, 32], .field [32, 121, 32] 19 .repr none] := by rfl
example : parseFString (fun _ => none) .fstr
    [97, 123, 120, 33, 114, 58, 62, 123, 119, 125, 125, 123, 123, 98, 125, 125, 123, 32, 121, 32, 61, 32, 125] 2
    = .ok [.lit [97], .field [120] 4 .repr (some [.lit [62], .field [119] 10 .none none]),
           .lit [123, 98, 125], .lit [32, 121, 32, 61], .lit [32], .field [32, 121, 32] 19 .repr none] := by
  with_unfolding_all rfl

-- the shapes repaired in /repo are inside the domain now:
-- f'''{"""a"b"""}''' (triple-quoted string in a field)
example : Spec.split (fun _ => none) true false [123, 34, 34, 34, 97, 34, 98, 34, 34, 34, 125] 4
    = some [.field [34, 34, 34, 97, 34, 98, 34, 34, 34] 5 .none none] := by rfl
example : parseFString (fun _ => none) .fstr [123, 34, 34, 34, 97, 34, 98, 34, 34, 34, 125] 4
    = .ok [.field [34, 34, 34, 97, 34, 98, 34, 34, 34] 5 .none none] := by with_unfolding_all rfl
-- f'{x=\t}' (a tab after the self-documenting '=')
example : Spec.split (fun _ => none) true false [123, 120, 61, 9, 125] 2
    = some [.lit [120, 61, 9], .field [120] 3 .repr none] := by rfl
example : parseFString (fun _ => none) .fstr [123, 120, 61, 9, 125] 2
    = .ok [.lit [120, 61], .lit [9], .field [120] 3 .repr none] := by with_unfolding_all rfl
-- f'{x:\x3e5}' (escape in the literal text of a format spec)
example : Spec.split (fun _ => none) true false [123, 120, 58, 92, 120, 51, 101, 53, 125] 2
    = some [.field [120] 3 .none (some [.lit [62, 53]])] := by rfl
example : parseFString (fun _ => none) .fstr [123, 120, 58, 92, 120, 51, 101, 53, 125] 2
    = .ok [.field [120] 3 .none (some [.lit [62, 53]])] := by with_unfolding_all rfl

/-! ### … and deviates outside it (witness on the model; reproduced on the real code) -/

/-- `f'{x:{y=}}'`: inside a format spec the echo pieces of a self-documenting field stay unmerged
    (and an empty constant is kept). -/
theorem fstring_deviates_selfdoc_in_spec :
    Spec.split (fun _ => none) false false [123, 120, 58, 123, 121, 61, 125, 125] 2
      = some [.field [120] 3 .none (some [.lit [121, 61], .field [121] 6 .repr none])] ∧
    parseFString (fun _ => none) .fstr [123, 120, 58, 123, 121, 61, 125, 125] 2
      = .ok [.field [120] 3 .none (some [.lit [121, 61], .lit [], .field [121] 6 .repr none])] := ⟨by rfl, by with_unfolding_all rfl⟩

/-- hence the full statement fails on the code as it is -/
theorem fstring_full_fails : ¬ fstring_full := by
  intro h
  obtain ⟨qs, e, hm⟩ := h (fun _ => none) ⟨fun _ _ => rfl, fun _ _ h => by cases h⟩ .fstr rfl
    [123, 120, 58, 123, 121, 61, 125, 125] (by intro x hx; revert x; decide) 2 _ fstring_deviates_selfdoc_in_spec.1
  rw [fstring_deviates_selfdoc_in_spec.2] at e
  cases e
  simp [Spec.merge, Spec.mergeGo] at hm

/-! ### merging of adjacent pieces across implicitly concatenated literals -/

/-- `parse_strings` on a concatenation that contains an f-string: the pieces of all the tokens are
    joined in order, adjacent constants merged and empty ones dropped exactly as the reference does
    (`Spec.merge`); every constant piece gets the `u` marker of the first token. -/
theorem merge_spec (lookup : List Nat → Option Nat) (toks : List StrTok) (u : Bool) (out : List Piece)
    (h : parseStringsF lookup toks = .ok (u, out)) :
    ∃ t0 ps, toks.head? = some t0 ∧ u = t0.kind.isUnicode ∧ allPieces lookup toks = .ok ps ∧
      out = Spec.merge ps := by
  unfold parseStringsF at h
  split at h
  · cases h
  · cases h
  · match toks, h with
    | [], h => cases h
    | t0 :: ts, h =>
      simp only at h
      cases hp : allPieces lookup (t0 :: ts) with
      | error e => simp [hp] at h
      | ok ps =>
        simp [hp] at h
        obtain ⟨rfl, rfl⟩ := h
        exact ⟨t0, ps, rfl, rfl, rfl, dedup_eq_merge ps none (by simp)⟩

-- '' f'{x}' '' : the empty plain literals leave no piece (repaired in /repo dfa74fc)
example : parseStringsF (fun _ => none)
    [⟨0, [], .str, false, 2⟩, ⟨3, [123, 120, 125], .fstr, false, 9⟩, ⟨10, [], .str, false, 12⟩]
    = .ok (false, [.field [120] 6 .none none]) := by with_unfolding_all rfl

example : parseStringsF (fun _ => none)
    [⟨0, [97], .unicode, false, 4⟩, ⟨5, [98, 123, 120, 125], .fstr, false, 12⟩, ⟨13, [99], .str, false, 16⟩,
     ⟨17, [100], .rawFStr, false, 22⟩]
    = .ok (true, [.lit [97, 98], .field [120] 9 .none none, .lit [99, 100]]) := by with_unfolding_all rfl

/-! ### the self-documenting `=` form -/

/-- What the scanner emits at the closing brace of a self-documenting field: the expression text
    followed by `=`, the blanks after the `=`, and the field — with conversion `!r` exactly when
    neither a conversion nor a format spec was given.  (The reference echo text `Spec.echoOf` is
    the concatenation of the first two; `fstring_eq_spec_partial` covers the scanning itself.) -/
theorem selfdoc_spec (st : FvState) (h : st.selfDoc = true) (location : Nat) :
    fvResult st location =
      [.lit (st.expr ++ [61]), .lit st.trailing,
       .field st.expr location (if st.conv = .none ∧ st.spec.isNone then .repr else st.conv) st.spec] := by
  simp [fvResult, h]

example : parseFString (fun _ => none) .fstr [123, 32, 120, 32, 61, 32, 32, 33, 115, 125] 2
    = .ok [.lit [32, 120, 32, 61], .lit [32, 32], .field [32, 120, 32] 3 .str none] := by with_unfolding_all rfl
example : Spec.split (fun _ => none) true false [123, 32, 120, 32, 61, 32, 32, 33, 115, 125] 2
    = some [.lit [32, 120, 32, 61, 32, 32], .field [32, 120, 32] 3 .str none] := by rfl

/-! ### the domain is part of the reference -/

/-- Wherever the strict scanner answers, the reference scanner gives the same answer: the theorem's
    domain is a set of f-strings the reference accepts, with their reference decomposition. -/
theorem strict_is_restriction (lookup : List Nat → Option Nat) (raw : Bool) (body : List Nat) (off : Nat)
    (ps : List Piece) (h : Spec.split lookup true raw body off = some ps) :
    Spec.split lookup false raw body off = some ps :=
  split_strict_le lookup raw body off ps h

/-! ### field offsets -/

/-- Every field the reference scanner reports (nested ones included, `fieldsOf`) carries the offset
    of its own text: `body = pre ++ text ++ post` and `start = off + utf8 length of pre` — where
    `off` is the offset of the body's first character.  With `fstring_eq_spec_partial` these are the
    `(text, start)` pairs of the Rust scanner, i.e. the offsets `parse_fstring_expr` re-bases the
    expression parser to. -/
theorem field_offsets (lookup : List Nat → Option Nat) (strict raw : Bool) (body : List Nat) (off : Nat)
    (ps : List Piece) (h : Spec.split lookup strict raw body off = some ps) :
    ∀ p ∈ fieldsOf ps, At body off p := by
  unfold Spec.split at h
  cases hp : Spec.parts lookup strict raw (4 * body.length + 16) 0 false ⟨[], []⟩ body off with
  | none => simp [hp] at h
  | some q =>
    obtain ⟨ps', r, o⟩ := q
    simp [hp] at h
    subst h
    exact ((located lookup strict raw body off _).2 _ _ _ _ _ _ _ _ hp ⟨[], rfl, rfl⟩
      (by simp [fieldsOf])).2

/-- … and the body the scanner works on is the source text itself as long as the literal contains
    no CR: what `lex_string` captures (`v`) is the slice of the source between the quotes, so an
    offset into the token value is an offset into the file.  (`q` is the quote character.) -/
theorem capture_no_cr (q : Nat) (hq : csize q = 1) (triple : Bool) (fuel : Nat) (cs : List Nat) (loc : Nat)
    (v rest : List Nat) (stop : Nat) (hcr : ∀ x ∈ cs, x ≠ 13)
    (h : lexStringGo q triple fuel cs loc = .ok (v, rest, stop)) :
    ∃ close, cs = v ++ close ++ rest ∧ stop = loc + utf8Len v + close.length ∧
      close = (if triple then [q, q, q] else [q]) :=
  capture_noCR q hq triple fuel cs loc v rest stop hcr h

example : fieldsOf [.lit [97], .field [120] 4 .repr (some [.lit [62], .field [119] 10 .none none])]
    = [([120], 4), ([119], 10)] := by simp [fieldsOf, pieceFields]

/-- `f'''\r\n{x}'''`: the lexer hands `\n{x}` (CRLF folded) to the scanner, which places `x` at
    byte 6; in the source the text of `x` is at byte 7. -/
theorem field_offsets_crlf_fails :
    (lexString .fstr [102, 39, 39, 39, 13, 10, 123, 120, 125, 39, 39, 39] 0).map (fun p => (p.1.body, p.1.bodyLoc))
      = .ok ([10, 123, 120, 125], 4) ∧
    parseFString (fun _ => none) .fstr [10, 123, 120, 125] 4 = .ok [.lit [10], .field [120] 6 .none none] ∧
    ([102, 39, 39, 39, 13, 10, 123, 120, 125, 39, 39, 39] : List Nat).drop 7 = [120, 125, 39, 39, 39] :=
  ⟨by rfl, by with_unfolding_all rfl, by rfl⟩

end PV.C07
