import PV.C07.Model
import PV.C07.Spec
import PV.Gen.C07Tables
namespace PV.C07

/-- The conversion-letter table of the real parser (every ASCII character after `!`, obtained by
    running the parser) is the reference table: `s`, `r`, `a` and nothing else. -/
theorem conv_table_eq : Gen.convTable = Spec.convTable := by decide +kernel

end PV.C07
