import PV.C07.Model
import PV.C07.Spec
import PV.C07.Lemmas5
import PV.C07.Lemmas6
import PV.Gen.C07Tables
/-
  C07 — property theorems: f-strings decompose into the reference literal parts and replacement
  fields.

  Reading guide.  `Spec.split lookup strict raw body off` is the reference scanner (CPython 3.11,
  pre-PEP 701 rules; validated against CPython itself on every run).  With `strict = true` it is
  restricted to the DOMAIN of the theorem: it answers `none` on exactly the two shapes listed in
  `Spec.lean` (one no source can produce, one the text/offset abstraction cannot judge; witnesses
  `outside_domain_cr`, `outside_domain_unispace`).  The model mirrors /repo after the fixes c09f12b,
  897a1b6, 40fcb23, dfa74fc, d717a96 and the `merge_constants` fix of `parse_spec`.  `parseFString` is the model of the Rust
  scanner; a field is `(expression text, absolute offset, conversion, nested spec)`.
  `Spec.merge` concatenates adjacent literal pieces and drops empty ones — what the reference does
  on the fly and `parse_strings` does afterwards (`dedup`).  `NoSurr body`: the body is a Rust `str`.
-/
namespace PV.C07
open PV.C06

/-! ### behaviourally extracted table -/

/-- The conversion-letter table of the real parser (every ASCII character after `!`, obtained by
    running the parser) is the reference table: `s`, `r`, `a` and nothing else. -/
theorem conv_table_eq : Gen.convTable = Spec.convTable := by decide +kernel

/-! ### the scanner agrees with the reference on the domain -/

/-- For every f-string body, of any length, that the reference accepts inside the domain: the Rust
    scanner accepts it and produces — after merging adjacent literal pieces — exactly the reference
    pieces: same literal text (escapes decoded, doubled braces, raw or not), and for every field the
    same expression text at the same absolute offset, the same conversion (with the default `!r`
    of a bare self-documenting field), and the same nested format spec, recursively. -/
theorem fstring_eq_spec_partial (lookup : List Nat → Option Nat) (hl : LookupOk lookup) (kind : Kind)
    (hf : kind.isAnyFString = true) (body : List Nat) (hns : NoSurr body) (off : Nat) (ps : List Piece)
    (h : Spec.split lookup true kind.isRaw body off = some ps) :
    ∃ qs, parseFString lookup kind body off = .ok qs ∧ Spec.merge qs = ps :=
  fstring_agree lookup hl kind hf body hns off ps h

-- non-vacuity: f'a{x!r:>{w}}{{b}}{ y = }' — literal text, conversion, nested spec, doubled braces, '='
example : Spec.split (fun _ => none) true false
    [97, 123, 120, 33, 114, 58, 62, 123, 119, 125, 125, 123, 123, 98, 125, 125, 123, 32, 121, 32, 61, 32, 125] 2
    = some [.lit [97], .field [120] 4 .repr (some [.lit [62], .field [119] 10 .none none]),
            .lit [123, 98, 125, 32, 121, 32, 61, 32], .field [32, 121, 32] 19 .repr none] := by rfl
example : parseFString (fun _ => none) .fstr
    [97, 123, 120, 33, 114, 58, 62, 123, 119, 125, 125, 123, 123, 98, 125, 125, 123, 32, 121, 32, 61, 32, 125] 2
    = .ok [.lit [97], .field [120] 4 .repr (some [.lit [62], .field [119] 10 .none none]),
           .lit [123, 98, 125], .lit [32, 121, 32, 61], .lit [32], .field [32, 121, 32] 19 .repr none] := by
  with_unfolding_all rfl

-- the shapes repaired in /repo are inside the domain now:
-- f'''{"""a"b"""}''' (triple-quoted string in a field)
example : Spec.split (fun _ => none) true false [123, 34, 34, 34, 97, 34, 98, 34, 34, 34, 125] 4
    = some [.field [34, 34, 34, 97, 34, 98, 34, 34, 34] 5 .none none] := by rfl
example : parseFString (fun _ => none) .fstr [123, 34, 34, 34, 97, 34, 98, 34, 34, 34, 125] 4
    = .ok [.field [34, 34, 34, 97, 34, 98, 34, 34, 34] 5 .none none] := by with_unfolding_all rfl
-- f'{x=\t}' (a tab after the self-documenting '=')
example : Spec.split (fun _ => none) true false [123, 120, 61, 9, 125] 2
    = some [.lit [120, 61, 9], .field [120] 3 .repr none] := by rfl
example : parseFString (fun _ => none) .fstr [123, 120, 61, 9, 125] 2
    = .ok [.lit [120, 61], .lit [9], .field [120] 3 .repr none] := by with_unfolding_all rfl
-- f'{x:\x3e5}' (escape in the literal text of a format spec)
example : Spec.split (fun _ => none) true false [123, 120, 58, 92, 120, 51, 101, 53, 125] 2
    = some [.field [120] 3 .none (some [.lit [62, 53]])] := by rfl
example : parseFString (fun _ => none) .fstr [123, 120, 58, 92, 120, 51, 101, 53, 125] 2
    = .ok [.field [120] 3 .none (some [.lit [62, 53]])] := by with_unfolding_all rfl

-- f'{x:{y=}}' and f'{x:a{y=}b}': a self-documenting field nested in a format spec — the echo text is merged with
-- the literal text of the spec (repaired in /repo by `merge_constants`; the former finding selfdoc-in-spec-unmerged)
example : Spec.split (fun _ => none) true false [123, 120, 58, 123, 121, 61, 125, 125] 2
    = some [.field [120] 3 .none (some [.lit [121, 61], .field [121] 6 .repr none])] := by rfl
example : parseFString (fun _ => none) .fstr [123, 120, 58, 123, 121, 61, 125, 125] 2
    = .ok [.field [120] 3 .none (some [.lit [121, 61], .field [121] 6 .repr none])] := by with_unfolding_all rfl
example : Spec.split (fun _ => none) true false [123, 120, 58, 97, 123, 121, 61, 125, 98, 125] 2
    = some [.field [120] 3 .none (some [.lit [97, 121, 61], .field [121] 7 .repr none, .lit [98]])] := by rfl
example : parseFString (fun _ => none) .fstr [123, 120, 58, 97, 123, 121, 61, 125, 98, 125] 2
    = .ok [.field [120] 3 .none (some [.lit [97, 121, 61], .field [121] 7 .repr none, .lit [98]])] := by with_unfolding_all rfl

/-! ### what the domain leaves out

`strict := true` differs from the reference rules in two places only (`Spec.field`): a CR among the
white space after a self-documenting `=` (no source produces such a token value: CPython's reader and
the Rust lexer turn every CR into LF), and an expression text made of Unicode white space only (the
reference goes on to reject it as an invalid expression, which the text/offset abstraction does not
see).  Both are witnessed below on the model; neither is an f-string the reference accepts. -/

/-- `{x=<CR>}` as a token value (not producible by a source): `Py_ISSPACE` takes the CR, the Rust
    scanner does not -/
theorem outside_domain_cr :
    Spec.split (fun _ => none) true false [123, 120, 61, 13, 125] 2 = none ∧
    Spec.split (fun _ => none) false false [123, 120, 61, 13, 125] 2
      = some [.lit [120, 61, 13], .field [120] 3 .repr none] ∧
    parseFString (fun _ => none) .fstr [123, 120, 61, 13, 125] 2 = .error ⟨.fstring .unclosedLbrace, 6⟩ :=
  ⟨by rfl, by rfl, by with_unfolding_all rfl⟩

/-- `{<NBSP>}`: for the Rust scanner an empty expression (`str::trim`), for the reference scanner a
    field whose text the expression parser then rejects -/
theorem outside_domain_unispace :
    Spec.split (fun _ => none) true false [123, 160, 125] 2 = none ∧
    Spec.split (fun _ => none) false false [123, 160, 125] 2 = some [.field [160] 3 .none none] ∧
    parseFString (fun _ => none) .fstr [123, 160, 125] 2 = .error ⟨.fstring .emptyExpression, 6⟩ :=
  ⟨by rfl, by rfl, by with_unfolding_all rfl⟩

/-! ### merging of adjacent pieces across implicitly concatenated literals -/

/-- `parse_strings` on a concatenation that contains an f-string: the pieces of all the tokens are
    joined in order, adjacent constants merged and empty ones dropped exactly as the reference does
    (`Spec.merge`); every constant piece gets the `u` marker of the first token. -/
theorem merge_spec (lookup : List Nat → Option Nat) (toks : List StrTok) (u : Bool) (out : List Piece)
    (h : parseStringsF lookup toks = .ok (u, out)) :
    ∃ t0 ps, toks.head? = some t0 ∧ u = t0.kind.isUnicode ∧ allPieces lookup toks = .ok ps ∧
      out = Spec.merge ps := by
  unfold parseStringsF at h
  split at h
  · cases h
  · cases h
  · match toks, h with
    | [], h => cases h
    | t0 :: ts, h =>
      simp only at h
      cases hp : allPieces lookup (t0 :: ts) with
      | error e => simp [hp] at h
      | ok ps =>
        simp [hp] at h
        obtain ⟨rfl, rfl⟩ := h
        exact ⟨t0, ps, rfl, rfl, rfl, dedup_eq_merge ps none (by simp)⟩

-- '' f'{x}' '' : the empty plain literals leave no piece (repaired in /repo dfa74fc)
example : parseStringsF (fun _ => none)
    [⟨0, [], .str, false, 2⟩, ⟨3, [123, 120, 125], .fstr, false, 9⟩, ⟨10, [], .str, false, 12⟩]
    = .ok (false, [.field [120] 6 .none none]) := by with_unfolding_all rfl

example : parseStringsF (fun _ => none)
    [⟨0, [97], .unicode, false, 4⟩, ⟨5, [98, 123, 120, 125], .fstr, false, 12⟩, ⟨13, [99], .str, false, 16⟩,
     ⟨17, [100], .rawFStr, false, 22⟩]
    = .ok (true, [.lit [97, 98], .field [120] 9 .none none, .lit [99, 100]]) := by with_unfolding_all rfl

/-! ### the self-documenting `=` form -/

/-- What the scanner emits at the closing brace of a self-documenting field: the expression text
    followed by `=`, the blanks after the `=`, and the field — with conversion `!r` exactly when
    neither a conversion nor a format spec was given.  (The reference echo text `Spec.echoOf` is
    the concatenation of the first two; `fstring_eq_spec_partial` covers the scanning itself.) -/
theorem selfdoc_spec (st : FvState) (h : st.selfDoc = true) (location : Nat) :
    fvResult st location =
      [.lit (st.expr ++ [61]), .lit st.trailing,
       .field st.expr location (if st.conv = .none ∧ st.spec.isNone then .repr else st.conv) st.spec] := by
  simp [fvResult, h]

example : parseFString (fun _ => none) .fstr [123, 32, 120, 32, 61, 32, 32, 33, 115, 125] 2
    = .ok [.lit [32, 120, 32, 61], .lit [32, 32], .field [32, 120, 32] 3 .str none] := by with_unfolding_all rfl
example : Spec.split (fun _ => none) true false [123, 32, 120, 32, 61, 32, 32, 33, 115, 125] 2
    = some [.lit [32, 120, 32, 61, 32, 32], .field [32, 120, 32] 3 .str none] := by rfl

/-! ### the domain is part of the reference -/

/-- Wherever the strict scanner answers, the reference scanner gives the same answer: the theorem's
    domain is a set of f-strings the reference accepts, with their reference decomposition. -/
theorem strict_is_restriction (lookup : List Nat → Option Nat) (raw : Bool) (body : List Nat) (off : Nat)
    (ps : List Piece) (h : Spec.split lookup true raw body off = some ps) :
    Spec.split lookup false raw body off = some ps :=
  split_strict_le lookup raw body off ps h

/-! ### field offsets -/

/-- Every field the reference scanner reports (nested ones included, `fieldsOf`) carries the offset
    of its own text: `body = pre ++ text ++ post` and `start = off + utf8 length of pre` — where
    `off` is the offset of the body's first character.  With `fstring_eq_spec_partial` these are the
    `(text, start)` pairs of the Rust scanner, i.e. the offsets `parse_fstring_expr` re-bases the
    expression parser to. -/
theorem field_offsets (lookup : List Nat → Option Nat) (strict raw : Bool) (body : List Nat) (off : Nat)
    (ps : List Piece) (h : Spec.split lookup strict raw body off = some ps) :
    ∀ p ∈ fieldsOf ps, At body off p := by
  unfold Spec.split at h
  cases hp : Spec.parts lookup strict raw (4 * body.length + 16) 0 false ⟨[], []⟩ body off with
  | none => simp [hp] at h
  | some q =>
    obtain ⟨ps', r, o⟩ := q
    simp [hp] at h
    subst h
    exact ((located lookup strict raw body off _).2 _ _ _ _ _ _ _ _ hp ⟨[], rfl, rfl⟩
      (by simp [fieldsOf])).2

/-- … and the body the scanner works on is the source text itself as long as the literal contains
    no CR: what `lex_string` captures (`v`) is the slice of the source between the quotes, so an
    offset into the token value is an offset into the file.  (`q` is the quote character.) -/
theorem capture_no_cr (q : Nat) (hq : csize q = 1) (triple : Bool) (fuel : Nat) (cs : List Nat) (loc : Nat)
    (v rest : List Nat) (stop : Nat) (hcr : ∀ x ∈ cs, x ≠ 13)
    (h : lexStringGo q triple fuel cs loc = .ok (v, rest, stop)) :
    ∃ close, cs = v ++ close ++ rest ∧ stop = loc + utf8Len v + close.length ∧
      close = (if triple then [q, q, q] else [q]) :=
  capture_noCR q hq triple fuel cs loc v rest stop hcr h

example : fieldsOf [.lit [97], .field [120] 4 .repr (some [.lit [62], .field [119] 10 .none none])]
    = [([120], 4), ([119], 10)] := by simp [fieldsOf, pieceFields]

/-! ### field offsets are offsets into the source file (the glue with `lex_string`) -/

/-- The composition of `field_offsets` with the lexer's capture, over the SHARED lexer model
    (`PV.Lexer`, tied to lexer.rs by C05's streams): let the file be `before ++ inp`, let
    `lex_identifier` (the only producer of prefixed string tokens) return at `inp` an f-string token
    `(value, k, triple)` of `n` characters none of which is a CR.  `StringParser::new` starts the
    scanner at `start + prefix_len + (3 | 1)` with `start` = the token's byte offset `utf8Len before`.
    Then, for a body in the domain of `fstring_eq_spec_partial`, every field the Rust scanner
    reports — nested ones included — carries the byte offset of its own expression text IN THE FILE:
    `before ++ inp = pre ++ text ++ post` with `start = utf8Len pre`.  Holds for single and
    triple quotes and for every f-string prefix (`f F rf rF Rf RF fr fR Fr FR`, see
    `fstring_prefixes_lexed`); the CR-free hypothesis is exactly what the listed finding
    `crlf-field-offset` violates (`field_offsets_crlf_fails`). -/
theorem field_offsets_in_source (up : PV.Lexer.UParams) (lookup : List Nat → Option Nat) (hl : LookupOk lookup)
    (before inp value : List Nat) (k : PV.Lexer.StringKind) (triple : Bool) (n : Nat)
    (hlex : PV.Lexer.lexIdentifier up inp = .ok (.string value k triple, n))
    (hf : k.isAnyFString = true) (hcr : ∀ x ∈ inp.take n, x ≠ 13) (hns : NoSurr value) (ps : List Piece)
    (h : Spec.split lookup true (kindOf k).isRaw value
          (utf8Len before + k.prefixLen + (if triple then 3 else 1)) = some ps) :
    ∃ qs, parseFString lookup (kindOf k) value (utf8Len before + k.prefixLen + (if triple then 3 else 1)) = .ok qs ∧
      Spec.merge qs = ps ∧
      ∀ p ∈ fieldsOf qs, ∃ pre post, before ++ inp = pre ++ p.1 ++ post ∧ p.2 = utf8Len pre := by
  obtain ⟨qs, hq, hm⟩ := fstring_eq_spec_partial lookup hl (kindOf k)
    (by rw [kindOf_isAnyFString]; exact hf) value hns _ ps h
  refine ⟨qs, hq, hm, ?_⟩
  intro p hp
  rw [← fieldsOf_merge, hm] at hp
  obtain ⟨pre, post, e1, e2⟩ := field_offsets lookup true _ value _ ps h p hp
  obtain ⟨hls, hascii, q, hq1, hq2⟩ := lexIdentifier_string up inp value k triple n hlex
  obtain ⟨_, hlen, q', hq', hn, htake⟩ := lexString_noCR k inp value k triple n hls hcr
  have : q' = q := by rw [hq1] at hq'; cases hq'; rfl
  subst this
  have hsplit : inp = inp.take n ++ inp.drop n := (List.take_append_drop n inp).symm
  refine ⟨before ++ inp.take k.prefixLen ++ closing q' triple ++ pre, post ++ closing q' triple ++ inp.drop n, ?_, ?_⟩
  · conv => lhs; rw [hsplit, htake, e1]
    simp
  · rw [e2, ulen_eq, utf8Len_append, utf8Len_append, utf8Len_append, utf8Len_ascii _ hascii]
    have hc : utf8Len (closing q' triple) = if triple then 3 else 1 := by
      have hcs : csize q' = 1 := by rcases hq2 with rfl | rfl <;> rfl
      unfold closing
      cases triple <;> simp [utf8Len, hcs]
    rw [hc]; simp; omega

/-- no non-ASCII identifier characters: enough to run the lexer model on the ASCII examples below -/
def upNone : PV.Lexer.UParams := ⟨fun _ => false, fun _ => false, fun _ => false⟩

/-- the ten spellings of an f-string prefix (`f F`, and `r`/`f` in both orders and cases) -/
def fPrefixes : List (List Nat) :=
  [[102], [70], [114, 102], [114, 70], [82, 102], [82, 70], [102, 114], [102, 82], [70, 114], [70, 82]]

/-- Every f-string prefix, with either quote character, single or triple quoted, is lexed by the
    shared lexer model as an f-string token whose value is the text between the quotes (here the
    body `a{x}` followed by ` y`; the kind is raw exactly for the two-letter prefixes): the
    hypotheses of `field_offsets_in_source` are met by all `10 × 2 × 2` forms. -/
theorem fstring_prefixes_lexed : ∀ p ∈ fPrefixes, ∀ q ∈ [34, 39], ∀ t ∈ [true, false],
    PV.Lexer.lexIdentifier upNone (p ++ closing q t ++ [97, 123, 120, 125] ++ closing q t ++ [32, 121])
      = .ok (.string [97, 123, 120, 125] (if p.length = 2 then .rawFString else .fstring) t,
             p.length + 2 * (closing q t).length + 4) := by
  intro p hp q hq t ht
  simp only [fPrefixes, List.mem_cons, List.mem_nil_iff, or_false] at hp hq ht
  rcases hp with rfl | rfl | rfl | rfl | rfl | rfl | rfl | rfl | rfl | rfl <;> rcases hq with rfl | rfl <;>
    rcases ht with rfl | rfl <;> rfl

-- non-vacuity: `z = rF'''a{x!r:>{w}}''' ` — the token starts at byte 4 of the file, the scanner at 4 + 2 + 3 = 9;
-- `x` is at byte 11 and `w` at byte 17 of the file
example : PV.Lexer.lexIdentifier upNone
      [114, 70, 39, 39, 39, 97, 123, 120, 33, 114, 58, 62, 123, 119, 125, 125, 39, 39, 39, 32]
    = .ok (.string [97, 123, 120, 33, 114, 58, 62, 123, 119, 125, 125] .rawFString true, 19) := by rfl
example : parseFString (fun _ => none) .rawFStr [97, 123, 120, 33, 114, 58, 62, 123, 119, 125, 125] 9
    = .ok [.lit [97], .field [120] 11 .repr (some [.lit [62], .field [119] 17 .none none])] := by
  with_unfolding_all rfl
example : ([122, 32, 61, 32] ++ [114, 70, 39, 39, 39, 97, 123, 120, 33, 114, 58, 62, 123, 119, 125, 125, 39, 39, 39, 32] : List Nat).drop 11
    = [120, 33, 114, 58, 62, 123, 119, 125, 125, 39, 39, 39, 32] := by rfl

/-- `f'''\r\n{x}'''`: the lexer hands `\n{x}` (CRLF folded) to the scanner, which places `x` at
    byte 6; in the source the text of `x` is at byte 7. -/
theorem field_offsets_crlf_fails :
    (lexString .fstr [102, 39, 39, 39, 13, 10, 123, 120, 125, 39, 39, 39] 0).map (fun p => (p.1.body, p.1.bodyLoc))
      = .ok ([10, 123, 120, 125], 4) ∧
    parseFString (fun _ => none) .fstr [10, 123, 120, 125] 4 = .ok [.lit [10], .field [120] 6 .none none] ∧
    ([102, 39, 39, 39, 13, 10, 123, 120, 125, 39, 39, 39] : List Nat).drop 7 = [120, 125, 39, 39, 39] :=
  ⟨by rfl, by with_unfolding_all rfl, by rfl⟩

end PV.C07
