import PV.C07.Lemmas
/-
  C07 — helper lemmas, part 2: the replacement field (`parse_formatted_value` against the reference
  `field`), given the agreement of `parse_spec` with the reference at one fuel level less.
-/
namespace PV.C07
open PV.C06

/-- where the reference expression scanner stops: at a `!`, `:`, `}` or `=` that is not the first
    half of `!=` / `==`, and what it returns plus the rest is the input -/
theorem exprScan_term (s : Bool) : ∀ (n : Nat) (stack cs t r : List Nat),
    Spec.exprScan s n stack cs = some (t, r) →
    cs = t ++ r ∧ ∃ c r', r = c :: r' ∧ (c = 33 ∨ c = 58 ∨ c = 125 ∨ c = 61) ∧
      ((c = 33 ∨ c = 61) → r'.head? ≠ some 61) := by
  intro n
  induction n with
  | zero => intro stack cs t r h; simp [Spec.exprScan] at h
  | succ n ih =>
    intro stack cs t r h
    cases cs with
    | nil => simp [Spec.exprScan] at h
    | cons c cs =>
      unfold Spec.exprScan at h
      simp only at h
      have cont : ∀ (pre stack' rest : List Nat),
          (match Spec.exprScan s n stack' rest with
            | some (t, r) => some (pre ++ t, r)
            | none => none) = some (t, r) → c :: cs = pre ++ rest →
          c :: cs = t ++ r ∧ ∃ c r', r = c :: r' ∧ (c = 33 ∨ c = 58 ∨ c = 125 ∨ c = 61) ∧
            ((c = 33 ∨ c = 61) → r'.head? ≠ some 61) := by
        intro pre stack' rest hm hcs
        cases hx : Spec.exprScan s n stack' rest with
        | none => simp [hx] at hm
        | some p =>
          obtain ⟨t', r'⟩ := p
          simp [hx] at hm
          obtain ⟨rfl, rfl⟩ := hm
          obtain ⟨e1, e2⟩ := ih stack' rest t' r' hx
          exact ⟨by rw [hcs, e1]; simp, e2⟩
      have cs_split : ∀ (q : Nat) (tr : Bool) (l s' r' : List Nat),
          Spec.closeString q tr l = some (s', r') → l = s' ++ r' := by
        intro q tr l
        induction l with
        | nil => intro s' r' h; simp [Spec.closeString] at h
        | cons a l ihl =>
          intro s' r' h
          unfold Spec.closeString at h
          split at h
          · cases h
          · split at h
            · cases h; simp
            · split at h
              · rename_i hh
                cases h
                obtain ⟨rfl, h2⟩ := hh
                have e : l = l.take 2 ++ l.drop 2 := (List.take_append_drop 2 l).symm
                rw [h2] at e
                simpa using e
              · cases hc : Spec.closeString q tr l with
                | none => simp [hc] at h
                | some p =>
                  obtain ⟨s2, r2⟩ := p
                  simp [hc] at h
                  obtain ⟨rfl, rfl⟩ := h
                  simp [ihl s2 r2 hc]
      split at h
      · cases h
      · split at h
        · split at h
          · rename_i ht
            cases hcs : Spec.closeString c true (cs.drop 2) with
            | none => simp [hcs] at h
            | some p =>
              obtain ⟨s', r1⟩ := p
              simp only [hcs] at h
              refine cont (c :: c :: c :: s') stack r1 h ?_
              have e : cs = cs.take 2 ++ cs.drop 2 := (List.take_append_drop 2 cs).symm
              rw [ht, cs_split _ _ _ _ _ hcs] at e
              simp; exact e
          · cases hcs : Spec.closeString c false cs with
            | none => simp [hcs] at h
            | some p =>
              obtain ⟨s', r1⟩ := p
              simp only [hcs] at h
              exact cont (c :: s') stack r1 h (by simp [cs_split _ _ _ _ _ hcs])
        · split at h
          · exact cont [c] (c :: stack) cs h rfl
          · split at h
            · cases h
            · split at h
              · split at h
                · rename_i h2
                  refine cont [c, 61] stack cs.tail h ?_
                  match cs, h2.2 with
                  | 61 :: cs2, _ => simp
                · split at h
                  · exact cont [c] stack cs h rfl
                  · rename_i hsp h2 hlt
                    simp at h
                    obtain ⟨rfl, rfl⟩ := h
                    refine ⟨by simp, c, cs, rfl, by omega, ?_⟩
                    intro hc hh
                    exact h2 ⟨by omega, hh⟩
              · split at h
                · split at h
                  · split at h
                    · exact cont [c] _ cs h rfl
                    · cases h
                  · cases h
                · exact cont [c] stack cs h rfl

theorem take_drop_takeWhile {α} (p : α → Bool) (l : List α) :
    l = l.takeWhile p ++ l.drop (l.takeWhile p).length := by
  induction l with
  | nil => simp
  | cons a l ih =>
    by_cases h : p a = true
    · simp only [List.takeWhile_cons, h, if_true, List.length_cons, List.drop_succ_cons, List.cons_append]
      rw [← ih]
    · simp [List.takeWhile_cons, h]

theorem ulen_spaces (ws : List Nat) (h : ws.all isBlankAfterEq = true) : Spec.ulen ws = ws.length := by
  induction ws with
  | nil => rfl
  | cons a l ih =>
    simp at h
    have ha : csize a = 1 := by
      have := h.1
      simp only [isBlankAfterEq, Bool.or_eq_true, decide_eq_true_eq] at this
      unfold csize; rw [if_pos (by omega)]
    rw [ulen_cons, ih (by simpa using h.2), ha]
    simp; omega

theorem fv_spaces (lookup : List Nat → Option Nat) (kind : Kind) (nested location : Nat) :
    ∀ (ws : List Nat), ws.all isBlankAfterEq = true → ∀ (st : FvState) (cs : List Nat) (loc fuel : Nat),
      st.selfDoc = true →
      fvLoop lookup kind (fuel + ws.length) nested location st (ws ++ cs) loc =
        fvLoop lookup kind fuel nested location { st with trailing := st.trailing ++ ws } cs (loc + ws.length) := by
  intro ws
  induction ws with
  | nil => intro _ st cs loc fuel _; simp
  | cons a l ih =>
    intro h st cs loc fuel hs
    simp at h
    obtain ⟨ha, hl⟩ := h
    have := ih (by simpa using hl) { st with trailing := st.trailing ++ [a] } cs (loc + 1) fuel hs
    simp only [List.length_cons, List.cons_append]
    rw [← Nat.add_assoc, fv_space lookup kind _ nested location st a _ loc ha hs, this]
    congr 1
    · simp
    · omega

/-! ## the simulation, level by level -/

/-- nothing in the text is a surrogate (it is a Rust `str`) -/
def NoSurr (cs : List Nat) : Prop := ∀ x ∈ cs, PV.C06.Spec.fffd x = x

theorem NoSurr.suffix {r cs : List Nat} (h : NoSurr cs) (hs : r <:+ cs) : NoSurr r :=
  fun x hx => h x (hs.subset hx)

/-- what `parse_formatted_value` pushes for a field whose reference echo text is `echo` -/
def PiecesOf (pcs : List Piece) (echo : List Nat) (f : Piece) : Prop :=
  (echo = [] ∧ pcs = [f]) ∨ (∃ a b, echo = a ++ b ∧ a ≠ [] ∧ pcs = [.lit a, .lit b, f])

/-- `specLoop`, before the first nested field, agrees with the reference `parts` at level `nested + 1` -/
def PA (lookup : List Nat → Option Nat) (kind : Kind) (n : Nat) : Prop :=
  ∀ (nested : Nat) (lit cs : List Nat) (off : Nat) (ps : List Piece) (r : List Nat) (o : Nat),
    Spec.parts lookup true kind.isRaw n (nested + 1) false ⟨[], lit⟩ cs off = some (ps, r, o) → NoSurr cs →
    r <:+ cs ∧ ∀ fuel, 2 * cs.length + 6 ≤ fuel → specLoop lookup kind fuel nested [] lit cs off = .ok (ps, r, o)

/-- `parse_formatted_value` agrees with the reference `field` -/
def PF (lookup : List Nat → Option Nat) (kind : Kind) (n : Nat) : Prop :=
  ∀ (lvl : Nat) (cs : List Nat) (off : Nat) (echo : List Nat) (f : Piece) (rest : List Nat) (off' : Nat),
    Spec.field lookup true kind.isRaw n lvl cs off = some (echo, f, rest, off') → NoSurr cs →
    rest <:+ cs ∧ rest.length + 2 ≤ cs.length ∧
    (∃ t o c sp, f = .field t o c sp) ∧
    ∀ fuel, 2 * cs.length + 4 ≤ fuel →
      ∃ pcs, fvLoop lookup kind fuel lvl off FvState.init cs off = .ok (pcs, rest, off') ∧ PiecesOf pcs echo f

theorem trim_eq (t : List Nat) : trimIsEmpty t = t.all Spec.isUniSpace := rfl

section suffix
variable (lookup : List Nat → Option Nat) (kind : Kind)

theorem eq_sim (lvl location : Nat) (r0 : List Nat) (sd : Option (List Nat)) (r1 : List Nat)
    (h : Spec.eqPart r0 = (sd, r1)) (hout : Spec.eqOutside sd = false)
    (hnn : ∀ r', r0 = 61 :: r' → r'.head? ≠ some 61)
    (st : FvState) (loc : Nat) (hd : st.delims = []) (hs : st.selfDoc = false) (ht : st.trailing = []) :
    r1 <:+ r0 ∧ ∃ j, j + r1.length ≤ r0.length ∧ ∀ fuel,
      fvLoop lookup kind (fuel + j) lvl location st r0 loc =
        fvLoop lookup kind fuel lvl location
          { st with selfDoc := sd.isSome, trailing := sd.getD [] } r1 (loc + Spec.eqBytes sd) := by
  unfold Spec.eqPart at h
  split at h
  · rename_i r
    cases h
    simp only [Spec.eqOutside] at hout
    have hcr := hout
    have hsplit := take_drop_takeWhile Spec.isSpace r
    have hws : (r.takeWhile Spec.isSpace).all isBlankAfterEq = true := by
      have hsp := PV.C06.takeWhile_all Spec.isSpace r
      rw [List.all_eq_true] at hsp ⊢
      rw [List.any_eq_false] at hcr
      intro x hx
      have h1 := hsp x hx
      have h2 := hcr x hx
      simp only [Spec.isSpace, Bool.or_eq_true, Bool.and_eq_true, decide_eq_true_eq] at h1 h2
      simp only [isBlankAfterEq, Bool.or_eq_true, decide_eq_true_eq]
      omega
    generalize r.takeWhile Spec.isSpace = ws at hws hsplit ⊢
    generalize r.drop ws.length = rr at hsplit ⊢
    subst hsplit
    refine ⟨?_, ws.length + 1, ?_, ?_⟩
    · exact (List.suffix_append _ _).trans (List.suffix_cons _ _)
    · simp; omega
    · intro fuel
      rw [← Nat.add_assoc, fv_selfdoc lookup kind _ lvl location st (ws ++ rr) loc hd (hnn _ rfl)]
      rw [fv_spaces lookup kind lvl location _ hws { st with selfDoc := true } rr (loc + 1) fuel rfl]
      congr 1
      · simp [ht]
      · simp [Spec.eqBytes, ulen_spaces _ hws]; omega
  · cases h
    refine ⟨List.suffix_refl _, 0, by simp, ?_⟩
    intro fuel
    have : ({ st with selfDoc := false, trailing := [] } : FvState) = st := by
      cases st; simp at hs ht ⊢; exact ⟨hs, ht⟩
    simp [Spec.eqBytes, this]

theorem conv_sim (lvl location : Nat) (r1 : List Nat) (cv : Conv) (r2 : List Nat) (d : Nat)
    (h : Spec.convPart r1 = some (cv, r2, d))
    (st : FvState) (loc : Nat) (hd : st.delims = []) (he : trimIsEmpty st.expr = false) (hc : st.conv = .none) :
    r2 <:+ r1 ∧ ∃ j, j + r2.length ≤ r1.length ∧ ∀ fuel,
      fvLoop lookup kind (fuel + j) lvl location st r1 loc =
        fvLoop lookup kind fuel lvl location { st with conv := cv } r2 (loc + d) := by
  unfold Spec.convPart at h
  split at h
  · rename_i c r
    cases hcv : Spec.convOfChar c with
    | none => simp [hcv] at h
    | some cv' =>
      simp only [hcv] at h
      split at h
      · rename_i hn
        cases h
        refine ⟨(List.suffix_cons _ _).trans (List.suffix_cons _ _), 1, by simp; omega, ?_⟩
        intro fuel
        rw [fv_conv lookup kind fuel lvl location st c cv r2 loc hd he hcv hn]
        congr 1
        simp [Spec.usize, csize]; omega
      · cases h
  · cases h
  · cases h
    refine ⟨List.suffix_refl _, 0, by simp, ?_⟩
    intro fuel
    have : ({ st with conv := Conv.none } : FvState) = st := by
      cases st; simp at hc ⊢; exact hc.symm
    simp [this]

theorem spec_sim (n : Nat) (hpa : PA lookup kind n) (lvl location : Nat) (r2 : List Nat) (o2 : Nat)
    (spec : Option (List Piece)) (r3 : List Nat) (o3 : Nat)
    (h : Spec.specPart (fun r o => Spec.parts lookup true kind.isRaw n (lvl + 1) false ⟨[], []⟩ r o) r2 o2 =
      some (spec, r3, o3)) (hns : NoSurr r2)
    (st : FvState) (hd : st.delims = []) (hsp : st.spec = none) :
    r3 <:+ r2 ∧ ∃ j, j ≤ 1 ∧ (j = 1 → r2.length ≥ 1) ∧ ∀ fuel, 2 * r2.length + 5 ≤ fuel + j →
      fvLoop lookup kind (fuel + j) lvl location st r2 o2 =
        fvLoop lookup kind fuel lvl location { st with spec := spec } r3 o3 := by
  unfold Spec.specPart at h
  split at h
  · rename_i r
    cases hp : Spec.parts lookup true kind.isRaw n (lvl + 1) false ⟨[], []⟩ r (o2 + 1) with
    | none => simp [hp] at h
    | some p =>
      obtain ⟨ps, r', o'⟩ := p
      simp [hp] at h
      obtain ⟨rfl, rfl, rfl⟩ := h
      obtain ⟨hsuf, hm⟩ := hpa lvl [] r (o2 + 1) ps r' o' hp (hns.suffix (List.suffix_cons _ _))
      refine ⟨hsuf.trans (List.suffix_cons _ _), 1, Nat.le_refl _, fun _ => by simp, ?_⟩
      intro fuel hf
      simp only [List.length_cons] at hf
      exact fv_spec lookup kind fuel lvl location st r o2 hd ps r' o' (hm fuel (by omega))
  · cases h
    refine ⟨List.suffix_refl _, 0, by omega, fun h => by omega, ?_⟩
    intro fuel _
    have : ({ st with spec := none } : FvState) = st := by
      cases st; simp at hsp ⊢; exact hsp.symm
    simp [this]

end suffix

theorem closePart_eq {r3 r4 : List Nat} (h : Spec.closePart r3 = some r4) : r3 = 125 :: r4 := by
  unfold Spec.closePart at h
  split at h
  · cases h; rfl
  · cases h

theorem PF_step (lookup : List Nat → Option Nat) (kind : Kind) (n : Nat) (hpa : PA lookup kind n) :
    PF lookup kind (n + 1) := by
  intro lvl cs off echo f rest off' h hns
  unfold Spec.field at h
  by_cases hl : lvl ≥ 2
  · simp [hl] at h
  · simp only [hl, if_false] at h
    cases hx : Spec.exprScan true (cs.length + 1) [] cs with
    | none => simp [hx] at h
    | some p =>
      obtain ⟨text, r0⟩ := p
      simp only [hx] at h
      obtain ⟨hcs, c0, r0', hr0, hc0, hnn⟩ := exprScan_term true _ _ _ _ _ hx
      obtain ⟨k, hk, hsim⟩ := expr_sim lookup kind lvl off _ _ _ _ _ hx FvState.init off rfl rfl
      by_cases hb : text.all Spec.isBlank = true
      · simp [hb] at h
      · simp only [hb, Bool.false_eq_true, if_false] at h
        by_cases hu : text.all Spec.isUniSpace = true
        · simp [hu] at h
        · simp only [hu, Bool.false_eq_true, and_false, if_false] at h
          have hte : trimIsEmpty text = false := by
            rw [trim_eq]; simpa using hu
          have htne : text ≠ [] := by intro e; subst e; simp at hb
          generalize hep : Spec.eqPart r0 = ep at h
          obtain ⟨sd, r1⟩ := ep
          simp only at h
          by_cases hout : Spec.eqOutside sd = true
          · simp [hout] at h
          · simp only [hout, Bool.false_eq_true, and_false, if_false] at h
            have hout' : Spec.eqOutside sd = false := by simpa using hout
            cases hcp : Spec.convPart r1 with
            | none => simp [hcp] at h
            | some p =>
              obtain ⟨cv, r2, d⟩ := p
              simp only [hcp] at h
              generalize hsp : Spec.specPart _ r2 _ = sp at h
              cases sp with
              | none => simp at h
              | some p =>
                obtain ⟨spec, r3, o3⟩ := p
                simp only at h
                cases hcl : Spec.closePart r3 with
                | none => simp [hcl] at h
                | some r4 =>
                  simp only [hcl] at h
                  simp only [Option.some.injEq, Prod.mk.injEq] at h
                  obtain ⟨rfl, rfl, rfl, rfl⟩ := h
                  have hr3 := closePart_eq hcl
                  -- the model, phase by phase
                  let st1 : FvState := { FvState.init with expr := FvState.init.expr ++ text, delims := [] }
                  have hns0 : NoSurr r0 := hns.suffix (by rw [hcs]; exact List.suffix_append _ _)
                  obtain ⟨hs1, j1, hj1, hm1⟩ := eq_sim lookup kind lvl off r0 sd r1 hep hout'
                    (fun r' e => by
                      rw [hr0] at e; cases e
                      exact hnn (Or.inr rfl))
                    st1 (off + Spec.ulen text) rfl rfl rfl
                  let st2 : FvState := { st1 with selfDoc := sd.isSome, trailing := sd.getD [] }
                  obtain ⟨hs2, j2, hj2, hm2⟩ := conv_sim lookup kind lvl off r1 cv r2 d hcp st2
                    (off + Spec.ulen text + Spec.eqBytes sd) rfl (by show trimIsEmpty ([] ++ text) = false; rw [List.nil_append]; exact hte) rfl
                  let st3 : FvState := { st2 with conv := cv }
                  obtain ⟨hs3, j3, hj3, hj3', hm3⟩ := spec_sim lookup kind n hpa lvl off r2 _ spec r3 o3 hsp
                    ((hns0.suffix hs1).suffix hs2) st3 rfl rfl
                  let st4 : FvState := { st3 with spec := spec }
                  have hlen0 : cs.length = text.length + r0.length := by rw [hcs]; simp
                  have hl1 := hs1.length_le
                  have hl2 := hs2.length_le
                  have hl3 := hs3.length_le
                  have hl4 : r3.length = r4.length + 1 := by rw [hr3]; simp
                  have htl : 1 ≤ text.length := by
                    cases text with
                    | nil => exact absurd rfl htne
                    | cons a l => simp
                  refine ⟨?_, by omega, ⟨_, _, _, _, rfl⟩, ?_⟩
                  · have : r4 <:+ r3 := by rw [hr3]; exact List.suffix_cons _ _
                    exact (((this.trans hs3).trans hs2).trans hs1).trans (by rw [hcs]; exact List.suffix_append _ _)
                  · intro fuel hfuel
                    refine ⟨fvResult st4 off, ?_, ?_⟩
                    · -- chain the phases
                      have e0 := hsim (fuel - k)
                      rw [Nat.sub_add_cancel (by omega)] at e0
                      have e1 := hm1 (fuel - k - j1)
                      rw [Nat.sub_add_cancel (by omega)] at e1
                      have e2 := hm2 (fuel - k - j1 - j2)
                      rw [Nat.sub_add_cancel (by omega)] at e2
                      have e3 := hm3 (fuel - k - j1 - j2 - j3) (by omega)
                      rw [Nat.sub_add_cancel (by omega)] at e3
                      have e4 := fv_end lookup kind (fuel - k - j1 - j2 - j3 - 1) lvl off st4 r4 o3 rfl
                        (by show trimIsEmpty ([] ++ text) = false; rw [List.nil_append]; exact hte)
                      rw [Nat.sub_add_cancel (by omega)] at e4
                      rw [e0, e1, e2, e3, hr3, e4]
                    · -- the pieces
                      cases sd with
                      | none =>
                        left
                        refine ⟨rfl, ?_⟩
                        simp [fvResult, st4, st3, st2, st1, FvState.init, Spec.finalConv]
                      | some ws =>
                        right
                        refine ⟨text ++ [61], ws, by simp [Spec.echoOf], by simp, ?_⟩
                        simp only [fvResult, st4, st3, st2, st1, FvState.init, Spec.finalConv]
                        simp

end PV.C07
