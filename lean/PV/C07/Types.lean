/-
  C07 — the shape of a decomposed f-string, shared by the model (what the Rust code builds) and the
  reference scanner (what CPython 3.11 builds).

  The recursive call into the expression parser is ABSTRACTED: a replacement field carries the
  expression TEXT and the ABSOLUTE byte offset at which that text starts; the Rust code parses
  `(` text `)` at `start - 1` (`parse_fstring_expr`), and the harness checks on every request that
  the expression tree in the result equals, ranges included, the tree obtained that way.
-/
namespace PV.C07

/-- `ConversionFlag` -/
inductive Conv where
  | none | str | ascii | repr
deriving DecidableEq, Repr

/-- one element of `JoinedStr.values`: a `Constant` string or a `FormattedValue` whose
    `format_spec`, if present, is again a `JoinedStr` -/
inductive Piece where
  | lit (s : List Nat)
  | field (text : List Nat) (start : Nat) (conv : Conv) (spec : Option (List Piece))

end PV.C07
