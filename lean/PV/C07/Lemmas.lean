import PV.C07.Model
import PV.C07.Spec
import PV.C06.Lemmas
/-
  C07 — helper lemmas, part 1: merging, one-step equations of the model's loops, and the simulation
  of the reference expression scanner by `parse_formatted_value`'s loop.
-/
namespace PV.C07
open PV.C06

/-- `parse_strings`' merging is the reference merge: adjacent constants are joined and empty ones
    dropped (`cur` as in `dedup`; a non-empty `current` vector never joins to the empty text) -/
theorem dedup_eq_merge : ∀ (ps : List Piece) (cur : Option (List Nat)), cur ≠ some [] →
    dedup cur ps = Spec.mergeGo (cur.getD []) ps := by
  intro ps
  induction ps with
  | nil =>
    intro cur h
    cases cur with
    | none => simp [dedup, Spec.mergeGo]
    | some s =>
      have : s ≠ [] := by intro e; subst e; exact h rfl
      simp [dedup, Spec.mergeGo, this]
  | cons p ps ih =>
    intro cur h
    cases p with
    | lit s =>
      by_cases hs : s = []
      · subst hs
        have := ih cur h
        cases cur <;> simpa [dedup, Spec.mergeGo] using this
      · have := ih (some (cur.getD [] ++ s)) (by simp [hs])
        cases cur <;> simpa [dedup, Spec.mergeGo, hs] using this
    | field t o c sp =>
      have := ih none (by simp)
      cases cur with
      | none => simp [dedup, Spec.mergeGo, this]
      | some s =>
        have hs : s ≠ [] := by intro e; subst e; exact h rfl
        simp [dedup, Spec.mergeGo, this, hs]

theorem usize_eq (c : Nat) : Spec.usize c = csize c := rfl

theorem ulen_eq (cs : List Nat) : Spec.ulen cs = utf8Len cs := rfl

theorem ulen_cons (c : Nat) (cs : List Nat) : Spec.ulen (c :: cs) = csize c + Spec.ulen cs := by
  simp [Spec.ulen, Spec.usize, csize]

theorem ulen_append (a b : List Nat) : Spec.ulen (a ++ b) = Spec.ulen a + Spec.ulen b := by
  simp [Spec.ulen]

theorem closeString_skip (q : Nat) : ∀ (cs s r : List Nat) (loc run : Nat),
    Spec.closeString q false cs = some (s, r) → skipStr q false run cs loc = some (s, r, loc + Spec.ulen s) := by
  intro cs
  induction cs with
  | nil => intro s r loc run h; simp [Spec.closeString] at h
  | cons c cs ih =>
    intro s r loc run h
    unfold Spec.closeString at h
    by_cases h92 : c = 92
    · simp [h92] at h
    · simp only [h92, if_false] at h
      by_cases hq : c = q
      · subst hq
        simp at h
        obtain ⟨rfl, rfl⟩ := h
        simp [skipStr, Spec.ulen]; rfl
      · simp only [hq, false_and, if_false] at h
        cases hc : Spec.closeString q false cs with
        | none => simp [hc] at h
        | some p =>
          obtain ⟨s', r'⟩ := p
          simp [hc] at h
          obtain ⟨rfl, rfl⟩ := h
          have := ih s' r' (loc + csize c) 0 hc
          simp [skipStr, hq, this, ulen_cons]
          omega

/-- triple-quoted: the reference closes at the first quote followed by two more; the Rust loop
    counts quote characters in a row (`run`).  They agree from `run = 0`, from `run = 1` unless two
    quotes follow, and from `run = 2` unless one follows. -/
theorem closeString3_skip (q : Nat) : ∀ (cs : List Nat),
    (∀ s r loc, Spec.closeString q true cs = some (s, r) → skipStr q true 0 cs loc = some (s, r, loc + Spec.ulen s)) ∧
    (∀ s r loc, ¬ cs.take 2 = [q, q] → Spec.closeString q true cs = some (s, r) →
      skipStr q true 1 cs loc = some (s, r, loc + Spec.ulen s)) ∧
    (∀ s r loc, cs.head? ≠ some q → Spec.closeString q true cs = some (s, r) →
      skipStr q true 2 cs loc = some (s, r, loc + Spec.ulen s)) := by
  intro cs
  induction cs with
  | nil =>
    refine ⟨?_, ?_, ?_⟩ <;> intros <;> simp_all [Spec.closeString]
  | cons c cs ih =>
    obtain ⟨ih0, ih1, ih2⟩ := ih
    -- the common "some other character" step
    have other : ∀ (k : Nat) s r loc, c ≠ q → Spec.closeString q true (c :: cs) = some (s, r) →
        skipStr q true k (c :: cs) loc = some (s, r, loc + Spec.ulen s) := by
      intro k s r loc hq h
      unfold Spec.closeString at h
      by_cases h92 : c = 92
      · simp [h92] at h
      · simp only [h92, if_false, hq, false_and] at h
        cases hc : Spec.closeString q true cs with
        | none => simp [hc] at h
        | some p =>
          obtain ⟨s', r'⟩ := p
          simp [hc] at h
          obtain ⟨rfl, rfl⟩ := h
          have := ih0 s' r' (loc + csize c) hc
          unfold skipStr
          simp [hq, this, ulen_cons]
          omega
    -- unfolding of the reference at a quote character
    have atq : ∀ s r, c = q → Spec.closeString q true (c :: cs) = some (s, r) →
        c ≠ 92 ∧ ((cs.take 2 = [q, q] ∧ s = [q, q, q] ∧ r = cs.drop 2) ∨
          (¬ cs.take 2 = [q, q] ∧ ∃ s', s = q :: s' ∧ Spec.closeString q true cs = some (s', r))) := by
      intro s r hq h
      unfold Spec.closeString at h
      by_cases h92 : c = 92
      · simp [h92] at h
      · refine ⟨h92, ?_⟩
        rw [if_neg h92, if_neg (by simp)] at h
        by_cases ht : cs.take 2 = [q, q]
        · rw [if_pos ⟨hq, ht⟩] at h
          simp at h
          exact Or.inl ⟨ht, by rw [← h.1, hq], h.2.symm⟩
        · rw [if_neg (fun hh => ht hh.2)] at h
          cases hc : Spec.closeString q true cs with
          | none => simp [hc] at h
          | some p =>
            obtain ⟨s', r'⟩ := p
            simp [hc] at h
            exact Or.inr ⟨ht, s', by rw [← h.1, hq], by rw [h.2]⟩
    have hu : ∀ x, Spec.usize x = csize x := fun _ => rfl
    refine ⟨?_, ?_, ?_⟩
    · intro s r loc h
      by_cases hq : c = q
      · obtain ⟨h92, hcase⟩ := atq s r hq h
        rcases hcase with ⟨ht, rfl, rfl⟩ | ⟨ht, s', rfl, hc⟩
        · match cs, ht with
          | a :: b :: rest, ht =>
            simp at ht
            obtain ⟨rfl, rfl⟩ := ht
            subst hq
            simp [skipStr, Spec.ulen, hu]
            omega
        · have := ih1 s' r (loc + csize c) ht hc
          subst hq
          unfold skipStr
          simp [this, ulen_cons]; omega
      · exact other 0 s r loc hq h
    · intro s r loc ht h
      by_cases hq : c = q
      · obtain ⟨h92, hcase⟩ := atq s r hq h
        subst hq
        rcases hcase with ⟨ht2, rfl, rfl⟩ | ⟨ht2, s', rfl, hc⟩
        · -- `c c c …`: excluded by the hypothesis on the first two characters
          exfalso
          match cs, ht2 with
          | a :: b :: rest, ht2 =>
            simp at ht2
            obtain ⟨rfl, rfl⟩ := ht2
            simp at ht
        · have hh : cs.head? ≠ some c := by
            intro e
            match cs, e with
            | a :: rest, e =>
              simp at e; subst e
              simp at ht
          have := ih2 s' r (loc + csize c) hh hc
          unfold skipStr
          simp [this, ulen_cons]; omega
      · exact other 1 s r loc hq h
    · intro s r loc hh h
      have hq : c ≠ q := by intro e; subst e; simp at hh
      exact other 2 s r loc hq h

/-! ### one-step equations of `fvLoop` -/

section steps
variable (lookup : List Nat → Option Nat) (kind : Kind)

/-- a character that is just copied into the expression -/
theorem fv_plain (fuel nested location : Nat) (st : FvState) (ch : Nat) (cs : List Nat) (loc : Nat)
    (h1 : ¬ ((ch = 33 ∨ ch = 61 ∨ ch = 62 ∨ ch = 60) ∧ cs.head? = some 61))
    (h2 : ¬ ((ch = 33 ∨ ch = 61 ∨ ch = 58) ∧ st.delims.isEmpty = true))
    (h3 : ch ≠ 40 ∧ ch ≠ 123 ∧ ch ≠ 91 ∧ ch ≠ 41 ∧ ch ≠ 93 ∧ ch ≠ 125 ∧ ch ≠ 34 ∧ ch ≠ 39 ∧ ch ≠ 92)
    (h4 : st.selfDoc = false) :
    fvLoop lookup kind (fuel + 1) nested location st (ch :: cs) loc =
      fvLoop lookup kind fuel nested location { st with expr := st.expr ++ [ch] } cs (loc + csize ch) := by
  obtain ⟨a1, a2, a3, a4, a5, a6, a7, a8, a9⟩ := h3
  have b1 : ¬ (ch = 33 ∧ st.delims.isEmpty = true) := fun h => h2 ⟨Or.inl h.1, h.2⟩
  have b2 : ¬ (ch = 61 ∧ st.delims.isEmpty = true) := fun h => h2 ⟨Or.inr (Or.inl h.1), h.2⟩
  have b3 : ¬ (ch = 58 ∧ st.delims.isEmpty = true) := fun h => h2 ⟨Or.inr (Or.inr h.1), h.2⟩
  conv => lhs; unfold fvLoop
  simp only [h1, b1, b2, b3, a1, a2, a3, a4, a5, a6, a7, a8, a9, h4, if_false, false_or, false_and, and_false,
    Bool.false_eq_true]

theorem fv_op2 (fuel nested location : Nat) (st : FvState) (ch : Nat) (cs : List Nat) (loc : Nat)
    (h1 : ch = 33 ∨ ch = 61 ∨ ch = 62 ∨ ch = 60) :
    fvLoop lookup kind (fuel + 1) nested location st (ch :: 61 :: cs) loc =
      fvLoop lookup kind fuel nested location { st with expr := st.expr ++ [ch, 61] } cs (loc + csize ch + 1) := by
  conv => lhs; unfold fvLoop
  simp only [h1, List.head?_cons, true_and, if_true, List.tail_cons]

theorem fv_open (fuel nested location : Nat) (st : FvState) (ch : Nat) (cs : List Nat) (loc : Nat)
    (h1 : ch = 40 ∨ ch = 123 ∨ ch = 91) (h4 : st.selfDoc = false) :
    fvLoop lookup kind (fuel + 1) nested location st (ch :: cs) loc =
      fvLoop lookup kind fuel nested location { st with expr := st.expr ++ [ch], delims := ch :: st.delims } cs (loc + csize ch) := by
  have a : ((ch = 33 ∨ ch = 61 ∨ ch = 62 ∨ ch = 60) ∧ cs.head? = some 61) = False := by
    simp only [eq_iff_iff, iff_false, not_and]; omega
  have b : ch ≠ 33 ∧ ch ≠ 61 ∧ ch ≠ 58 := by omega
  conv => lhs; unfold fvLoop
  simp only [a, if_false]
  simp only [b.1, b.2.1, b.2.2, h1, h4, false_and, if_false, if_true, Bool.false_eq_true, not_false_eq_true, and_self]

theorem fv_close (fuel nested location : Nat) (st : FvState) (o ch : Nat) (ds cs : List Nat) (loc : Nat)
    (hd : st.delims = o :: ds) (hc : Spec.closes o ch = true) :
    fvLoop lookup kind (fuel + 1) nested location st (ch :: cs) loc =
      fvLoop lookup kind fuel nested location { st with expr := st.expr ++ [ch], delims := ds } cs (loc + csize ch) := by
  simp only [Spec.closes, Bool.or_eq_true, Bool.and_eq_true, decide_eq_true_eq] at hc
  rcases hc with (⟨rfl, rfl⟩ | ⟨rfl, rfl⟩) | ⟨rfl, rfl⟩
  · conv => lhs; unfold fvLoop
    simp [hd]
  · conv => lhs; unfold fvLoop
    simp [hd]
  · conv => lhs; unfold fvLoop
    simp [hd]

theorem fv_quote (fuel nested location : Nat) (st : FvState) (ch : Nat) (cs s r : List Nat) (loc : Nat)
    (hq : ch = 39 ∨ ch = 34) (h4 : st.selfDoc = false) (ht : ¬ cs.take 2 = [ch, ch])
    (hs : Spec.closeString ch false cs = some (s, r)) :
    fvLoop lookup kind (fuel + 1) nested location st (ch :: cs) loc =
      fvLoop lookup kind fuel nested location { st with expr := st.expr ++ ch :: s } r (loc + csize ch + Spec.ulen s) := by
  have := closeString_skip ch cs s r (loc + csize ch) 0 hs
  rcases hq with rfl | rfl
  · conv => lhs; unfold fvLoop
    simp [this, h4, ht]
  · conv => lhs; unfold fvLoop
    simp [this, h4, ht]

theorem fv_quote3 (fuel nested location : Nat) (st : FvState) (ch : Nat) (cs s r : List Nat) (loc : Nat)
    (hq : ch = 39 ∨ ch = 34) (h4 : st.selfDoc = false) (ht : cs.take 2 = [ch, ch])
    (hs : Spec.closeString ch true (cs.drop 2) = some (s, r)) :
    fvLoop lookup kind (fuel + 1) nested location st (ch :: cs) loc =
      fvLoop lookup kind fuel nested location { st with expr := st.expr ++ ch :: ch :: ch :: s } r
        (loc + csize ch + 2 + Spec.ulen s) := by
  have := (closeString3_skip ch (cs.drop 2)).1 s r (loc + csize ch + 2) hs
  rcases hq with rfl | rfl
  · conv => lhs; unfold fvLoop
    simp [this, h4, ht]
  · conv => lhs; unfold fvLoop
    simp [this, h4, ht]

end steps

/-- the expression part: the model's loop copies exactly what the (strict) reference scanner takes
    as the expression text, and ends up where the reference scanner stops -/
theorem expr_sim (lookup : List Nat → Option Nat) (kind : Kind) (nested location : Nat) :
    ∀ (n : Nat) (stack cs t r : List Nat), Spec.exprScan true n stack cs = some (t, r) →
    ∀ (st : FvState) (loc : Nat), st.delims = stack → st.selfDoc = false →
    ∃ k, k ≤ t.length ∧ ∀ fuel,
      fvLoop lookup kind (fuel + k) nested location st cs loc =
        fvLoop lookup kind fuel nested location { st with expr := st.expr ++ t, delims := [] } r (loc + Spec.ulen t) := by
  intro n
  induction n using Nat.strongRecOn with
  | _ n0 ih0 =>
  intro stack cs t r h st loc hst hsd
  cases n0 with
  | zero => simp [Spec.exprScan] at h
  | succ n =>
    have ih := ih0 n (Nat.lt_succ_self n)
    cases cs with
    | nil => simp [Spec.exprScan] at h
    | cons c cs =>
      unfold Spec.exprScan at h
      simp only at h
      -- helper: continue with the induction hypothesis after one model step
      have cont : ∀ (pre : List Nat) (stack' rest : List Nat) (st' : FvState) (loc' : Nat) (j : Nat),
          (match Spec.exprScan true n stack' rest with
            | some (t, r) => some (pre ++ t, r)
            | none => none) = some (t, r) →
          st'.delims = stack' → st'.selfDoc = false → st'.expr = st.expr ++ pre →
          st'.spec = st.spec → st'.conv = st.conv → st'.trailing = st.trailing →
          loc' = loc + Spec.ulen pre → j ≤ pre.length →
          (∀ fuel, fvLoop lookup kind (fuel + j) nested location st (c :: cs) loc =
            fvLoop lookup kind fuel nested location st' rest loc') →
          ∃ k, k ≤ t.length ∧ ∀ fuel,
            fvLoop lookup kind (fuel + k) nested location st (c :: cs) loc =
              fvLoop lookup kind fuel nested location { st with expr := st.expr ++ t, delims := [] } r (loc + Spec.ulen t) := by
        intro pre stack' rest st' loc' j hm hd' hs' he' hsp hcv htr hl hj hstep
        cases hx : Spec.exprScan true n stack' rest with
        | none => simp [hx] at hm
        | some p =>
          obtain ⟨t', r'⟩ := p
          simp [hx] at hm
          obtain ⟨rfl, rfl⟩ := hm
          obtain ⟨k, hk, hf⟩ := ih stack' rest t' r' hx st' loc' hd' hs'
          refine ⟨k + j, by simp; omega, ?_⟩
          intro fuel
          rw [← Nat.add_assoc, hstep (fuel + k), hf fuel]
          congr 1
          · cases st'; cases st; simp_all
          · rw [hl, ulen_append]; omega
      by_cases h92 : c = 92
      · simp [h92] at h
      · simp only [h92, if_false] at h
        by_cases hq : c = 39 ∨ c = 34
        · -- a (single-quoted) string
          simp only [hq, if_true] at h
          by_cases ht : cs.take 2 = [c, c]
          · -- triple-quoted
            simp only [ht, if_true] at h
            cases hcs : Spec.closeString c true (cs.drop 2) with
            | none => simp [hcs] at h
            | some p =>
              obtain ⟨s, r1⟩ := p
              simp only [hcs] at h
              exact cont (c :: c :: c :: s) stack r1 { st with expr := st.expr ++ c :: c :: c :: s }
                (loc + csize c + 2 + Spec.ulen s) 1
                h hst hsd rfl rfl rfl rfl
                (by
                  have h1 : csize c = 1 := by rcases hq with rfl | rfl <;> rfl
                  rw [ulen_cons, ulen_cons, ulen_cons]; omega) (by simp)
                (fun fuel => fv_quote3 lookup kind fuel nested location st c cs s r1 loc hq hsd ht hcs)
          · simp only [ht, if_false] at h
            cases hcs : Spec.closeString c false cs with
            | none => simp [hcs] at h
            | some p =>
              obtain ⟨s, r1⟩ := p
              simp only [hcs] at h
              exact cont (c :: s) stack r1 { st with expr := st.expr ++ c :: s } (loc + csize c + Spec.ulen s) 1
                h hst hsd rfl rfl rfl rfl (by rw [ulen_cons]; omega) (by simp)
                (fun fuel => fv_quote lookup kind fuel nested location st c cs s r1 loc hq hsd ht hcs)
        · simp only [hq, if_false] at h
          by_cases ho : Spec.isOpen c = true
          · -- opening bracket
            simp only [ho, if_true] at h
            have ho' : c = 40 ∨ c = 123 ∨ c = 91 := by
              simp [Spec.isOpen] at ho; omega
            exact cont [c] (c :: stack) cs { st with expr := st.expr ++ [c], delims := c :: st.delims }
              (loc + csize c) 1 h (by simp [hst]) hsd rfl rfl rfl rfl (by rw [ulen_cons]; simp [Spec.ulen]) (by simp)
              (fun fuel => fv_open lookup kind fuel nested location st c cs loc ho' hsd)
          · simp only [ho, Bool.false_eq_true, if_false] at h
            have ho' : c ≠ 40 ∧ c ≠ 123 ∧ c ≠ 91 := by
              simp [Spec.isOpen] at ho; omega
            by_cases h35 : c = 35
            · simp [h35] at h
            · simp only [h35, if_false] at h
              have hne : st.delims.isEmpty = stack.isEmpty := by rw [hst]
              by_cases hsp : stack.isEmpty = true ∧ (c = 33 ∨ c = 58 ∨ c = 125 ∨ c = 61 ∨ c = 62 ∨ c = 60)
              · -- depth 0 and one of ! : } = > <
                simp only [hsp, if_true] at h
                have hs0 : stack = [] := List.isEmpty_iff.mp hsp.1
                by_cases h2 : (c = 33 ∨ c = 61 ∨ c = 60 ∨ c = 62) ∧ cs.head? = some 61
                · -- != == <= >=
                  simp only [h2, if_true] at h
                  obtain ⟨hc, hh⟩ := h2
                  match cs, hh with
                  | 61 :: cs2, _ =>
                    simp only [List.tail_cons, List.head?_cons, and_self, true_and, if_true] at h
                    exact cont [c, 61] stack cs2 { st with expr := st.expr ++ [c, 61] } (loc + csize c + 1) 1
                      h hst hsd rfl rfl rfl rfl
                      (by rw [ulen_cons, ulen_cons]; have : csize 61 = 1 := rfl; simp [Spec.ulen, this]; omega) (by simp)
                      (fun fuel => fv_op2 lookup kind fuel nested location st c cs2 loc (by omega))
                · simp only [h2, if_false] at h
                  by_cases hlt : c = 62 ∨ c = 60
                  · -- a lone < or >
                    simp only [hlt, if_true] at h
                    exact cont [c] stack cs { st with expr := st.expr ++ [c] } (loc + csize c) 1
                      h hst hsd rfl rfl rfl rfl (by rw [ulen_cons]; simp [Spec.ulen]) (by simp)
                      (fun fuel => fv_plain lookup kind fuel nested location st c cs loc
                        (fun hh => h2 ⟨by omega, hh.2⟩) (by omega) (by omega) hsd)
                  · -- the terminator
                    simp only [hlt, if_false] at h
                    simp at h
                    obtain ⟨rfl, rfl⟩ := h
                    refine ⟨0, by simp, ?_⟩
                    intro fuel
                    have hd0 : st.delims = [] := by rw [hst, hs0]
                    have : ({ st with expr := st.expr ++ [], delims := [] } : FvState) = st := by
                      cases st; simp at hd0 ⊢; exact hd0
                    simp only [Nat.add_zero, this, Spec.ulen, List.map_nil, List.sum_nil]
              · simp only [hsp, if_false] at h
                by_cases hcl : Spec.isClose c = true
                · -- closing bracket
                  simp only [hcl, if_true] at h
                  match stack, hst, h with
                  | o :: st', hst, h =>
                    by_cases hm : Spec.closes o c = true
                    · simp only [hm, if_true] at h
                      exact cont [c] st' cs { st with expr := st.expr ++ [c], delims := st' } (loc + csize c) 1
                        h rfl hsd rfl rfl rfl rfl (by rw [ulen_cons]; simp [Spec.ulen]) (by simp)
                        (fun fuel => fv_close lookup kind fuel nested location st o c st' cs loc hst hm)
                    · simp [hm] at h
                · -- any other character
                  simp only [hcl, Bool.false_eq_true, if_false] at h
                  have hcl' : c ≠ 41 ∧ c ≠ 93 ∧ c ≠ 125 := by
                    simp [Spec.isClose] at hcl; omega
                  have hq' : c ≠ 39 ∧ c ≠ 34 := by omega
                  by_cases h2 : (c = 33 ∨ c = 61 ∨ c = 62 ∨ c = 60) ∧ cs.head? = some 61
                  · -- inside brackets `X=` is copied in one step by the model, in two by the reference
                    obtain ⟨hc, hh⟩ := h2
                    have hne' : stack.isEmpty = false := by
                      cases hse : stack.isEmpty with
                      | false => rfl
                      | true => exact absurd ⟨hse, by omega⟩ hsp
                    match cs, hh with
                    | 61 :: cs2, _ =>
                      cases n with
                      | zero => simp [Spec.exprScan] at h
                      | succ m =>
                        have e2 : Spec.exprScan true (m + 1) stack (61 :: cs2) =
                            (match Spec.exprScan true m stack cs2 with
                              | some (t, r) => some ([61] ++ t, r)
                              | none => none) := by
                          conv => lhs; unfold Spec.exprScan
                          simp [Spec.isOpen, Spec.isClose, hne']
                          try rfl
                        rw [e2] at h
                        cases hx : Spec.exprScan true m stack cs2 with
                        | none => simp [hx] at h
                        | some p =>
                          obtain ⟨t', r'⟩ := p
                          simp [hx] at h
                          obtain ⟨rfl, rfl⟩ := h
                          obtain ⟨k, hk, hf⟩ := ih0 m (by omega) stack cs2 t' r' hx { st with expr := st.expr ++ [c, 61] }
                            (loc + csize c + 1) hst hsd
                          refine ⟨k + 1, by simp only [List.length_cons]; omega, ?_⟩
                          intro fuel
                          rw [← Nat.add_assoc, fv_op2 lookup kind (fuel + k) nested location st c cs2 loc hc, hf fuel]
                          congr 1
                          · simp
                          · rw [ulen_cons, ulen_cons]; have : csize 61 = 1 := rfl; omega
                  · exact cont [c] stack cs { st with expr := st.expr ++ [c] } (loc + csize c) 1
                      h hst hsd rfl rfl rfl rfl (by rw [ulen_cons]; simp [Spec.ulen]) (by simp)
                      (fun fuel => fv_plain lookup kind fuel nested location st c cs loc h2
                        (fun hh => hsp ⟨by rw [← hne]; exact hh.2, by omega⟩) (by omega) hsd)

/-! ### one-step equations for the field suffix, `specLoop` and `fstringLoop` -/

section steps2
variable (lookup : List Nat → Option Nat) (kind : Kind)

theorem fv_end (fuel nested location : Nat) (st : FvState) (cs : List Nat) (loc : Nat)
    (hd : st.delims = []) (he : trimIsEmpty st.expr = false) :
    fvLoop lookup kind (fuel + 1) nested location st (125 :: cs) loc =
      .ok (fvResult st location, cs, loc + 1) := by
  conv => lhs; unfold fvLoop
  simp [hd, he, csize]

theorem fv_selfdoc (fuel nested location : Nat) (st : FvState) (cs : List Nat) (loc : Nat)
    (hd : st.delims = []) (hp : cs.head? ≠ some 61) :
    fvLoop lookup kind (fuel + 1) nested location st (61 :: cs) loc =
      fvLoop lookup kind fuel nested location { st with selfDoc := true } cs (loc + 1) := by
  conv => lhs; unfold fvLoop
  simp [hd, hp, csize]

/-- the blanks the scanner accepts after a self-documenting `=` -/
def isBlankAfterEq (c : Nat) : Bool := c = 32 || c = 9 || c = 10 || c = 11 || c = 12

theorem fv_space (fuel nested location : Nat) (st : FvState) (ch : Nat) (cs : List Nat) (loc : Nat)
    (hb : isBlankAfterEq ch = true) (hs : st.selfDoc = true) :
    fvLoop lookup kind (fuel + 1) nested location st (ch :: cs) loc =
      fvLoop lookup kind fuel nested location { st with trailing := st.trailing ++ [ch] } cs (loc + 1) := by
  simp only [isBlankAfterEq, Bool.or_eq_true, decide_eq_true_eq] at hb
  rcases hb with (((rfl | rfl) | rfl) | rfl) | rfl <;>
  · conv => lhs; unfold fvLoop
    simp [hs, csize]

theorem fv_conv (fuel nested location : Nat) (st : FvState) (c : Nat) (cv : Conv) (cs : List Nat) (loc : Nat)
    (hd : st.delims = []) (he : trimIsEmpty st.expr = false) (hc : Spec.convOfChar c = some cv)
    (hn : cs.head? = some 58 ∨ cs.head? = some 125) :
    fvLoop lookup kind (fuel + 1) nested location st (33 :: c :: cs) loc =
      fvLoop lookup kind fuel nested location { st with conv := cv } cs (loc + 1 + csize c) := by
  have hc61 : c ≠ 61 := by intro h; subst h; simp [Spec.convOfChar] at hc
  have hn' : cs.head? = some 125 ∨ cs.head? = some 58 := hn.symm
  conv => lhs; unfold fvLoop
  unfold Spec.convOfChar at hc
  split at hc
  · cases hc; simp [hd, he, hn', csize]
  · cases hc; simp [hd, he, hn', csize]
  · cases hc; simp [hd, he, hn', csize]
  · cases hc

theorem fv_spec (fuel nested location : Nat) (st : FvState) (cs : List Nat) (loc : Nat)
    (hd : st.delims = []) (ps : List Piece) (cs' : List Nat) (loc' : Nat)
    (h : specLoop lookup kind fuel nested [] [] cs (loc + 1) = .ok (ps, cs', loc')) :
    fvLoop lookup kind (fuel + 1) nested location st (58 :: cs) loc =
      fvLoop lookup kind fuel nested location { st with spec := some ps } cs' loc' := by
  conv => lhs; unfold fvLoop
  simp [hd, csize, h]

end steps2

end PV.C07
