import PV.C17.ShortestRT
/-
  C17 — the digit-generation facts behind the repr round trip, part 2 (core Lean only).

  (ii) `ofRat_of_mem` / `ofDecimal_of_mem`: `PV.Dec.ofRat` (hence `ofDecimal`, `ofSci`) is correctly rounded —
       EVERY fraction inside the rounding interval of a finite non-zero double `m·2^eb` (end points
       included iff `m` is even, lower half interval below a power of two) converts to exactly that double.
       Ingredients: `ilog2_spec`/`ilog2_unique` (`ilog2` is the binary exponent of any positive fraction),
       `ofRat_exponent` (the exponent `ofRat` selects is `eb`, or `eb-1` just below a power of two, where the
       mantissa then rounds up to `2^53` and is renormalised), `roundHalfEven_eq` (two-sided bounds with the
       tie rule determine the rounded mantissa).  Comparisons `X·2^t ≤ num/den` are kept in cross-multiplied
       form (`GeQ`/`LeQ`); `le_rescale` moves powers of 2 and 10 across them.
-/
namespace PV.Dec

theorem le_rescale2 (X Y a1 c1 a2 c2 : Nat) (h : a1 + c2 = a2 + c1) :
    X * 2 ^ a1 ≤ Y * 2 ^ c1 ↔ X * 2 ^ a2 ≤ Y * 2 ^ c2 :=
  cross_le _ _ _ _ _ _ (Nat.pow_pos (by omega)) (Nat.pow_pos (by omega))
    (by rw [← Nat.pow_add, ← Nat.pow_add, h])

/-- `X·2^t ≤ num/den` -/
def GeQ (X : Nat) (t : Int) (num den : Nat) : Prop := X * (den * 2 ^ t.toNat) ≤ num * 2 ^ (-t).toNat
/-- `num/den ≤ X·2^t` -/
def LeQ (X : Nat) (t : Int) (num den : Nat) : Prop := num * 2 ^ (-t).toNat ≤ X * (den * 2 ^ t.toNat)

instance (X : Nat) (t : Int) (num den : Nat) : Decidable (GeQ X t num den) := by unfold GeQ; infer_instance
instance (X : Nat) (t : Int) (num den : Nat) : Decidable (LeQ X t num den) := by unfold LeQ; infer_instance

theorem GeQ_shift (X : Nat) (t : Int) (j : Nat) (num den : Nat) :
    GeQ X (t + j) num den ↔ GeQ (X * 2 ^ j) t num den := by
  unfold GeQ
  rw [show X * (den * 2 ^ (t + j).toNat) = (X * den) * 2 ^ (t + j).toNat by ac_rfl,
    show X * 2 ^ j * (den * 2 ^ t.toNat) = (X * den) * 2 ^ (j + t.toNat) by rw [Nat.pow_add]; ac_rfl]
  exact le_rescale2 _ _ _ _ _ _ (by omega)

theorem LeQ_shift (X : Nat) (t : Int) (j : Nat) (num den : Nat) :
    LeQ X (t + j) num den ↔ LeQ (X * 2 ^ j) t num den := by
  unfold LeQ
  rw [show X * (den * 2 ^ (t + j).toNat) = (X * den) * 2 ^ (t + j).toNat by ac_rfl,
    show X * 2 ^ j * (den * 2 ^ t.toNat) = (X * den) * 2 ^ (j + t.toNat) by rw [Nat.pow_add]; ac_rfl]
  exact le_rescale2 _ _ _ _ _ _ (by omega)

theorem GeQ_mono {X Y : Nat} {t : Int} {num den : Nat} (h : GeQ X t num den) (hxy : Y ≤ X) :
    GeQ Y t num den := Nat.le_trans (Nat.mul_le_mul_right _ hxy) h

theorem LeQ_mono {X Y : Nat} {t : Int} {num den : Nat} (h : LeQ X t num den) (hxy : X ≤ Y) :
    LeQ Y t num den := Nat.le_trans h (Nat.mul_le_mul_right _ hxy)

theorem GeQ_LeQ_le {X Y : Nat} {t : Int} {num den : Nat} (hd : 0 < den)
    (h1 : GeQ X t num den) (h2 : LeQ Y t num den) : X ≤ Y :=
  Nat.le_of_mul_le_mul_right (Nat.le_trans h1 h2) (Nat.mul_pos hd (Nat.pow_pos (by omega)))

theorem GeQ_not_lt {X Y : Nat} {t : Int} {num den : Nat}
    (h1 : GeQ X t num den) (h2 : ¬ GeQ Y t num den) : X < Y := by
  unfold GeQ at *
  apply Nat.lt_of_not_ge
  intro h
  exact h2 (Nat.le_trans (Nat.mul_le_mul_right _ h) h1)

theorem LeQ_not_lt {X Y : Nat} {t : Int} {num den : Nat}
    (h1 : LeQ Y t num den) (h2 : ¬ LeQ X t num den) : X < Y := by
  unfold LeQ at *
  apply Nat.lt_of_not_ge
  intro h
  exact h2 (Nat.le_trans h1 (Nat.mul_le_mul_right _ h))

theorem GeQ_anti {t t' : Int} {num den : Nat} (h : GeQ 1 t num den) (hle : t' ≤ t) : GeQ 1 t' num den := by
  obtain ⟨j, rfl⟩ : ∃ j : Nat, t = t' + j := ⟨(t - t').toNat, by omega⟩
  rw [GeQ_shift] at h
  exact GeQ_mono h (by have := Nat.pow_pos (n := j) (show 0 < 2 by omega); omega)

/-- `ilog2` is the binary exponent: `2^s ≤ num/den < 2^(s+1)` -/
theorem ilog2_spec (num den : Nat) (hn : 0 < num) (hd : 0 < den) :
    GeQ 1 (ilog2 num den) num den ∧ ¬ GeQ 1 (ilog2 num den + 1) num den := by
  have hn0 : num ≠ 0 := by omega
  have hd0 : den ≠ 0 := by omega
  have n1 := Nat.log2_self_le hn0
  have n2 : num < 2 ^ (num.log2 + 1) := Nat.lt_log2_self
  have d1 := Nat.log2_self_le hd0
  have d2 : den < 2 ^ (den.log2 + 1) := Nat.lt_log2_self
  generalize hs : ((Nat.log2 num : Int) - (Nat.log2 den : Int)) = s
  have A : GeQ 1 (s - 1) num den := by
    unfold GeQ
    rw [Nat.one_mul]
    calc den * 2 ^ (s - 1).toNat ≤ 2 ^ (den.log2 + 1) * 2 ^ (s - 1).toNat := Nat.mul_le_mul_right _ (Nat.le_of_lt d2)
      _ = 2 ^ num.log2 * 2 ^ (-(s - 1)).toNat := by
          rw [← Nat.pow_add, ← Nat.pow_add]; congr 1; omega
      _ ≤ num * 2 ^ (-(s - 1)).toNat := Nat.mul_le_mul_right _ n1
  have B : ¬ GeQ 1 (s + 1) num den := by
    unfold GeQ
    rw [Nat.one_mul]
    apply Nat.not_le_of_gt
    calc num * 2 ^ (-(s + 1)).toNat < 2 ^ (num.log2 + 1) * 2 ^ (-(s + 1)).toNat :=
          Nat.mul_lt_mul_of_pos_right n2 (Nat.pow_pos (by omega))
      _ = 2 ^ den.log2 * 2 ^ (s + 1).toNat := by
          rw [← Nat.pow_add, ← Nat.pow_add]; congr 1; omega
      _ ≤ den * 2 ^ (s + 1).toNat := Nat.mul_le_mul_right _ d1
  have hge : ilog2 num den = if GeQ 1 s num den then s else s - 1 := by
    unfold ilog2 GeQ
    simp only [hs]
    by_cases h0 : s ≥ 0
    · have : (-s).toNat = 0 := by omega
      simp only [h0, if_true, this, Nat.pow_zero, Nat.mul_one, Nat.one_mul, ge_iff_le, decide_eq_true_eq]
    · have : s.toNat = 0 := by omega
      simp only [h0, if_false, this, Nat.pow_zero, Nat.mul_one, Nat.one_mul, ge_iff_le, decide_eq_true_eq]
  rw [hge]
  split
  · rename_i h; exact ⟨h, B⟩
  · rename_i h
    refine ⟨A, ?_⟩
    rw [show s - 1 + 1 = s by omega]; exact h

theorem ilog2_unique (num den : Nat) (hn : 0 < num) (hd : 0 < den) (t : Int)
    (h1 : GeQ 1 t num den) (h2 : ¬ GeQ 1 (t + 1) num den) : ilog2 num den = t := by
  obtain ⟨s1, s2⟩ := ilog2_spec num den hn hd
  generalize ilog2 num den = s at *
  by_cases h : t < s
  · exact absurd (GeQ_anti s1 (show t + 1 ≤ s by omega)) h2
  · by_cases h' : s < t
    · exact absurd (GeQ_anti h1 (show s + 1 ≤ t by omega)) s2
    · omega


/-! ### `roundHalfEven` from two-sided bounds -/

theorem roundHalfEven_eq (n d M : Nat) (hd : 0 < d)
    (h1 : (2 * M + 1) * d ≤ 2 * n) (h2 : 2 * n ≤ (2 * M + 3) * d)
    (ht : (M + 1) % 2 = 0 ∨ ((2 * M + 1) * d < 2 * n ∧ 2 * n < (2 * M + 3) * d)) :
    roundHalfEven n d = M + 1 := by
  have e1 : (2 * M + 1) * d = 2 * (M * d) + d := by rw [Nat.add_mul, Nat.mul_assoc, Nat.one_mul]
  have e2 : (2 * M + 3) * d = 2 * (M * d) + 3 * d := by rw [Nat.add_mul, Nat.mul_assoc]
  rw [e1, e2] at ht
  rw [e1] at h1
  rw [e2] at h2
  have q1 : M ≤ n / d := (Nat.le_div_iff_mul_le hd).2 (by omega)
  have q2 : n / d < M + 2 := (Nat.div_lt_iff_lt_mul hd).2 (by rw [Nat.add_mul]; omega)
  have h3 := Nat.div_add_mod n d
  have h4 := Nat.mod_lt n hd
  unfold roundHalfEven
  simp only
  have hc : n / d = M ∨ n / d = M + 1 := by omega
  rcases hc with hc | hc
  · rw [hc] at h3 ⊢
    rw [Nat.mul_comm d M] at h3
    split <;> omega
  · rw [hc] at h3 ⊢
    rw [Nat.mul_comm d (M + 1), Nat.add_mul, Nat.one_mul] at h3
    split <;> omega

theorem GeQ_shift' {X : Nat} {t t' : Int} (j : Nat) {num den : Nat} (h : t' = t + j) :
    GeQ X t' num den ↔ GeQ (X * 2 ^ j) t num den := by rw [h]; exact GeQ_shift _ _ _ _ _
theorem LeQ_shift' {X : Nat} {t t' : Int} (j : Nat) {num den : Nat} (h : t' = t + j) :
    LeQ X t' num den ↔ LeQ (X * 2 ^ j) t num den := by rw [h]; exact LeQ_shift _ _ _ _ _

theorem LeQ_of_not_GeQ {X : Nat} {t : Int} {num den : Nat} (h : ¬ GeQ X t num den) : LeQ X t num den := by
  unfold GeQ at h; unfold LeQ; omega

/-- rounding at exponent `e`: `(M+½)·2^e ≤ num/den ≤ (M+1+½)·2^e` gives `M+1` (ties to even) -/
theorem round_of_GeQ (num den M : Nat) (e : Int) (hd : 0 < den)
    (h1 : GeQ (2 * M + 1) (e - 1) num den) (h2 : LeQ (2 * M + 3) (e - 1) num den)
    (ht : (M + 1) % 2 = 0 ∨ (¬ LeQ (2 * M + 1) (e - 1) num den ∧ ¬ GeQ (2 * M + 3) (e - 1) num den)) :
    roundHalfEven (num * 2 ^ (-e).toNat) (den * 2 ^ e.toNat) = M + 1 := by
  have k1 : ∀ X : Nat, GeQ X (e - 1) num den ↔ X * (den * 2 ^ e.toNat) ≤ 2 * (num * 2 ^ (-e).toNat) := by
    intro X
    unfold GeQ
    rw [show X * (den * 2 ^ (e - 1).toNat) = (X * den) * 2 ^ (e - 1).toNat by ac_rfl,
      show X * (den * 2 ^ e.toNat) = (X * den) * 2 ^ e.toNat by ac_rfl,
      show 2 * (num * 2 ^ (-e).toNat) = num * 2 ^ (1 + (-e).toNat) by rw [Nat.pow_add, Nat.pow_one]; ac_rfl]
    exact le_rescale2 _ _ _ _ _ _ (by omega)
  have k2 : ∀ X : Nat, LeQ X (e - 1) num den ↔ 2 * (num * 2 ^ (-e).toNat) ≤ X * (den * 2 ^ e.toNat) := by
    intro X
    unfold LeQ
    rw [show X * (den * 2 ^ (e - 1).toNat) = (X * den) * 2 ^ (e - 1).toNat by ac_rfl,
      show X * (den * 2 ^ e.toNat) = (X * den) * 2 ^ e.toNat by ac_rfl,
      show 2 * (num * 2 ^ (-e).toNat) = num * 2 ^ (1 + (-e).toNat) by rw [Nat.pow_add, Nat.pow_one]; ac_rfl]
    exact le_rescale2 _ _ _ _ _ _ (by omega)
  rw [k1] at h1
  rw [k2] at h2
  rw [k1, k2] at ht
  apply roundHalfEven_eq _ _ _ (Nat.mul_pos hd (Nat.pow_pos (by omega))) h1 h2
  rcases ht with ht | ht
  · exact Or.inl ht
  · exact Or.inr (by omega)


/-! ### (ii) `ofRat` is correctly rounded: every fraction in the rounding interval gives the double -/

/-- the exponent `ofRat` selects for a fraction in the rounding interval of `m·2^eb` -/
theorem ofRat_exponent (num den m : Nat) (eb : Int) (lo : Nat) (hd : 0 < den) (hn : 0 < num)
    (hm53 : m < 2 ^ 53) (he1 : -1074 ≤ eb)
    (hcanon : 2 ^ 52 ≤ m ∨ eb = -1074)
    (hlo : 4 * m - 2 ≤ lo) (hlo' : 2 ^ 52 ≤ m → 2 ^ 53 ≤ lo)
    (h1 : GeQ lo (eb - 2) num den) (h2 : LeQ (4 * m + 2) (eb - 2) num den) :
    (if ilog2 num den - 52 < -1074 then (-1074 : Int) else ilog2 num den - 52) = eb ∨
    ((if ilog2 num den - 52 < -1074 then (-1074 : Int) else ilog2 num den - 52) = eb - 1 ∧
      m = 2 ^ 52 ∧ -1074 < eb ∧ ¬ GeQ (2 ^ 54) (eb - 2) num den) := by
  obtain ⟨s1, s2⟩ := ilog2_spec num den hn hd
  generalize ilog2 num den = s at *
  by_cases c1 : GeQ 1 (eb + 52) num den
  · left
    have c1' : GeQ (1 * 2 ^ 54) (eb - 2) num den := (GeQ_shift' 54 (by omega)).1 c1
    have hm52 : 2 ^ 52 ≤ m := by have := GeQ_LeQ_le hd c1' h2; omega
    have c2 : ¬ GeQ 1 (eb + 53) num den := by
      intro h
      have h' : GeQ (1 * 2 ^ 55) (eb - 2) num den := (GeQ_shift' 55 (by omega)).1 h
      have := GeQ_LeQ_le hd h' h2; omega
    have hs : s = eb + 52 := by
      by_cases ha : s < eb + 52
      · exact absurd (GeQ_anti c1 (show s + 1 ≤ eb + 52 by omega)) s2
      · by_cases hb : eb + 52 < s
        · exact absurd (GeQ_anti s1 (show eb + 53 ≤ s by omega)) c2
        · omega
    split <;> omega
  · have c1' : ¬ GeQ (1 * 2 ^ 54) (eb - 2) num den := fun h => c1 ((GeQ_shift' 54 (by omega)).2 h)
    have hlt := GeQ_not_lt h1 c1'
    have hs : s < eb + 52 := by
      by_cases h : s < eb + 52
      · exact h
      · exact absurd (GeQ_anti s1 (show eb + 52 ≤ s by omega)) c1
    by_cases hsub : m < 2 ^ 52
    · left
      have : eb = -1074 := by omega
      split <;> omega
    · have hm52 : m = 2 ^ 52 := by omega
      have c3 : GeQ 1 (eb + 51) num den :=
        (GeQ_shift' 53 (by omega)).2 (GeQ_mono h1 (by have := hlo' (by omega); omega))
      have hs' : s = eb + 51 := by
        by_cases ha : s < eb + 51
        · exact absurd (GeQ_anti c3 (show s + 1 ≤ eb + 51 by omega)) s2
        · omega
      by_cases hb : -1074 < eb
      · right
        refine ⟨by split <;> omega, hm52, hb, ?_⟩
        rw [Nat.one_mul] at c1'; exact c1'
      · left; split <;> omega

theorem ofRat_of_mem (neg : Bool) (num den m : Nat) (eb : Int) (lo : Nat) (hd : 0 < den)
    (hm : 0 < m) (hm53 : m < 2 ^ 53) (he1 : -1074 ≤ eb) (he2 : eb ≤ 971)
    (hcanon : 2 ^ 52 ≤ m ∨ eb = -1074)
    (hlo : lo = if m = 2 ^ 52 ∧ -1074 < eb then 4 * m - 1 else 4 * m - 2)
    (h1 : GeQ lo (eb - 2) num den) (h2 : LeQ (4 * m + 2) (eb - 2) num den)
    (ht : m % 2 = 0 ∨ (¬ LeQ lo (eb - 2) num den ∧ ¬ GeQ (4 * m + 2) (eb - 2) num den)) :
    ofRat neg num den = (if neg then 2 ^ 63 else 0) +
      (if m < 2 ^ 52 then m else (eb + 1075).toNat * 2 ^ 52 + (m - 2 ^ 52)) := by
  have hlo2 : 4 * m - 2 ≤ lo ∧ lo ≤ 4 * m - 1 := by rw [hlo]; split <;> omega
  have hn : 0 < num := by
    unfold GeQ at h1
    rcases Nat.eq_zero_or_pos num with h0 | h0
    · subst h0
      have : 0 < lo * (den * 2 ^ (eb - 2).toNat) :=
        Nat.mul_pos (by omega) (Nat.mul_pos hd (Nat.pow_pos (by omega)))
      rw [Nat.zero_mul] at h1; omega
    · exact h0
  have hsel := ofRat_exponent num den m eb lo hd hn hm53 he1 hcanon hlo2.1 (by omega) h1 h2
  have hn0 : ¬ (num = 0) := by omega
  unfold ofRat
  simp only [beq_iff_eq, hn0, if_false]
  generalize (if ilog2 num den - 52 < -1074 then (-1074 : Int) else ilog2 num den - 52) = e at *
  rw [scale2_eq]
  simp only [Int.neg_neg]
  rcases hsel with rfl | ⟨rfl, hm52, hb, c⟩
  · obtain ⟨M, rfl⟩ : ∃ M, m = M + 1 := ⟨m - 1, by omega⟩
    have hr := round_of_GeQ num den M e hd
      ((GeQ_shift' 1 (show e - 1 = e - 2 + ((1 : Nat) : Int) by omega)).2 (GeQ_mono h1 (by omega)))
      ((LeQ_shift' 1 (show e - 1 = e - 2 + ((1 : Nat) : Int) by omega)).2 (LeQ_mono h2 (by omega)))
      (by
        rcases ht with ht | ⟨t1, t2⟩
        · exact Or.inl ht
        · right
          constructor
          · intro h
            exact t1 (LeQ_mono ((LeQ_shift' 1 (show e - 1 = e - 2 + ((1 : Nat) : Int) by omega)).1 h) (by omega))
          · intro h
            exact t2 (GeQ_mono ((GeQ_shift' 1 (show e - 1 = e - 2 + ((1 : Nat) : Int) by omega)).1 h) (by omega)))
    rw [hr]
    have a1 : ¬ (M + 1 ≥ 2 ^ 53) := by omega
    simp only [a1, if_false]
    by_cases hsub : M + 1 < 2 ^ 52
    · simp only [hsub, if_true]
    · have a2 : ¬ ((e + 1075).toNat ≥ 2047) := by omega
      simp only [hsub, a2, if_false]
      generalize (if neg = true then 2 ^ 63 else 0) = sg
      omega
  · have hlo3 : lo = 2 ^ 54 - 1 := by rw [hlo, hm52]; simp [hb]
    have hr : roundHalfEven (num * 2 ^ (-(eb - 1)).toNat) (den * 2 ^ (eb - 1).toNat) = 2 ^ 53 :=
      round_of_GeQ num den (2 ^ 53 - 1) (eb - 1) hd
        (by rw [show eb - 1 - 1 = eb - 2 by omega]; exact GeQ_mono h1 (by omega))
        (by rw [show eb - 1 - 1 = eb - 2 by omega]; exact LeQ_mono (LeQ_of_not_GeQ c) (by omega))
        (Or.inl (by decide))
    rw [hr]
    have a1 : (2 : Nat) ^ 53 ≥ 2 ^ 53 := Nat.le_refl _
    simp only [a1, if_true]
    have a2 : ¬ ((2 : Nat) ^ 53 / 2 < 2 ^ 52) := by decide
    have a3 : ¬ ((eb - 1 + 1 + 1075).toNat ≥ 2047) := by omega
    have a4 : ¬ (m < 2 ^ 52) := by omega
    simp only [a2, a3, a4, if_false]
    rw [hm52, show eb - 1 + 1 = eb by omega]
    generalize (if neg = true then 2 ^ 63 else 0) = sg
    omega


-- 1/3 lies in the rounding interval of 0x3FD5555555555555 = 6004799503160661·2^-54 (odd mantissa: open interval)
example : ofRat false 1 3 = 0x3FD5555555555555 :=
  (ofRat_of_mem false 1 3 6004799503160661 (-54) (4 * 6004799503160661 - 2) (by decide) (by decide) (by decide)
    (by decide) (by decide) (by decide) (by decide) (by decide +kernel) (by decide +kernel)
    (Or.inr (by decide +kernel))).trans (by decide +kernel)
example : ilog2 1 3 = -2 := ilog2_unique 1 3 (by decide) (by decide) (-2) (by decide) (by decide)
example : GeQ 1 (ilog2 1 3) 1 3 ∧ ¬ GeQ 1 (ilog2 1 3 + 1) 1 3 := ilog2_spec 1 3 (by decide) (by decide)
-- 5/2 is a tie between 2 and 3: the even one
example : roundHalfEven 5 2 = 2 := roundHalfEven_eq 5 2 1 (by decide) (by decide) (by decide) (Or.inl (by decide))

/-! ### from the interval (`Inside`) to `ofDecimal` -/

theorem inside_iff (lo hi : Nat) (incl : Bool) (g k : Int) (D : Nat) :
    Inside lo hi incl g k D ↔
      if incl then GeQ lo g (D * 10 ^ k.toNat) (1 * 10 ^ (-k).toNat) ∧ LeQ hi g (D * 10 ^ k.toNat) (1 * 10 ^ (-k).toNat)
      else ¬ LeQ lo g (D * 10 ^ k.toNat) (1 * 10 ^ (-k).toNat) ∧ ¬ GeQ hi g (D * 10 ^ k.toNat) (1 * 10 ^ (-k).toNat) := by
  unfold Inside GeQ LeQ
  have e1 : ∀ X : Nat, X * (1 * 10 ^ (-k).toNat * 2 ^ g.toNat) = X * (2 ^ g.toNat * 10 ^ (-k).toNat) := by
    intro X; rw [Nat.one_mul, Nat.mul_comm (10 ^ (-k).toNat)]
  have e2 : D * 10 ^ k.toNat * 2 ^ (-g).toNat = D * (10 ^ k.toNat * 2 ^ (-g).toNat) := Nat.mul_assoc _ _ _
  simp only [e1, e2, Nat.not_le]

/-- what `decompose` yields for a finite non-zero double -/
theorem decompose_facts (bits : Nat) (hb : bits < 2 ^ 64) (hf : isFinite bits = true) :
    -1074 ≤ (decompose bits).2.2 ∧ (decompose bits).2.2 ≤ 971 ∧
    (2 ^ 52 ≤ (decompose bits).2.1 ∨ (decompose bits).2.2 = -1074) ∧
    ((fracField bits == 0 && decide (expField bits > 1)) = true ↔
      ((decompose bits).2.1 = 2 ^ 52 ∧ -1074 < (decompose bits).2.2)) ∧
    bits = (if isNeg bits then 2 ^ 63 else 0) +
      (if (decompose bits).2.1 < 2 ^ 52 then (decompose bits).2.1
       else ((decompose bits).2.2 + 1075).toNat * 2 ^ 52 + ((decompose bits).2.1 - 2 ^ 52)) := by
  have hfr := PV.C17.fracField_lt bits
  have hexp : expField bits < 2048 := Nat.mod_lt _ (by omega)
  have hfin : expField bits ≠ 2047 := by simpa [isFinite] using hf
  have hbf := PV.C17.bits_fields bits hb
  generalize (if isNeg bits = true then 2 ^ 63 else 0) = sg at *
  unfold decompose
  by_cases h0 : expField bits = 0
  · simp only [h0, beq_self_eq_true, if_true]
    refine ⟨by omega, by omega, Or.inr trivial, ?_, ?_⟩
    · simp
    · simp only [hfr, if_true]; rw [h0] at hbf; omega
  · have : (expField bits == 0) = false := by simpa using h0
    simp only [this, Bool.false_eq_true, if_false]
    refine ⟨by omega, by omega, Or.inl (by omega), ?_, ?_⟩
    · simp; omega
    · have a : ¬ (fracField bits + 2 ^ 52 < 2 ^ 52) := by omega
      simp only [a, if_false]
      have e2 : ((expField bits : Int) - 1075 + 1075).toNat = expField bits := by omega
      rw [e2]; omega

theorem big1 : (2 : Nat) ^ 1024 < 10 ^ 311 := by decide +kernel
theorem big2 : (2 : Nat) ^ 1076 < 10 ^ 331 := by decide +kernel

set_option exponentiation.threshold 1100 in
/-- (ii) correctly rounded parsing: a decimal `D·10^k` inside the rounding interval of a finite
    non-zero double parses to that double -/
theorem ofDecimal_of_mem (bits : Nat) (hb : bits < 2 ^ 64) (hf : isFinite bits = true)
    (hz : isZero bits = false) (ds : List Nat) (k : Int) (h : InIvl bits (ofDigits ds) k) :
    ofDecimal (isNeg bits) ds k = bits := by
  obtain ⟨he1, he2, hcanon, hbd, hbits⟩ := decompose_facts bits hb hf
  have hm := mant_pos bits hz
  have hm53 := mant_lt bits
  have hlopos := ivLo_pos bits hz
  unfold InIvl at h
  have hD := inside_pos _ _ _ _ _ _ hlopos h
  have hI := (inside_iff _ _ _ _ _ _).1 h
  unfold ivLo ivHi ivV ivG ivIncl at *
  generalize (decompose bits).2.1 = m at *
  generalize (decompose bits).2.2 = eb at *
  generalize hlo : (if (fracField bits == 0 && decide (expField bits > 1)) = true then 4 * m - 1 else 4 * m - 2) = lo at *
  have hlo' : lo = if m = 2 ^ 52 ∧ -1074 < eb then 4 * m - 1 else 4 * m - 2 := by
    rw [← hlo]
    by_cases hc : (fracField bits == 0 && decide (expField bits > 1)) = true
    · simp only [hc, if_true, hbd.1 hc, and_self]
    · have : ¬ (m = 2 ^ 52 ∧ -1074 < eb) := fun hh => hc (hbd.2 hh)
      simp only [hc, this, if_false, Bool.false_eq_true]
  unfold ofDecimal
  generalize ofDigits ds = D at *
  -- closed bounds, whatever `incl` is
  have hcl : GeQ lo (eb - 2) (D * 10 ^ k.toNat) (1 * 10 ^ (-k).toNat) ∧
      LeQ (4 * m + 2) (eb - 2) (D * 10 ^ k.toNat) (1 * 10 ^ (-k).toNat) := by
    split at hI
    · exact hI
    · exact ⟨by have := hI.1; unfold LeQ at this; unfold GeQ; omega,
             by have := hI.2; unfold GeQ at this; unfold LeQ; omega⟩
  have hden : 0 < 1 * 10 ^ (-k).toNat := by rw [Nat.one_mul]; exact Nat.pow_pos (by omega)
  have hlo2 : 2 ≤ lo := by rw [hlo']; split <;> omega
  have hD0 : ¬ (D = 0) := by omega
  simp only [beq_iff_eq, hD0, if_false]
  have g1 : ¬ (k > 310) := by
    intro hk
    have := hcl.2
    unfold LeQ at this
    have e1 : (-k).toNat = 0 := by omega
    rw [e1] at this
    simp only [Nat.pow_zero, Nat.mul_one, Nat.one_mul] at this
    -- D * 10^k * 2^(-(eb-2)) ≤ (4m+2) * 2^(eb-2)
    have p1 : 10 ^ 311 ≤ D * 10 ^ k.toNat * 2 ^ (-(eb - 2)).toNat := by
      have q1 : 10 ^ 311 ≤ 10 ^ k.toNat := Nat.pow_le_pow_right (by omega) (by omega)
      have q2 : 10 ^ k.toNat ≤ D * 10 ^ k.toNat := Nat.le_mul_of_pos_left _ (by omega)
      have q3 : D * 10 ^ k.toNat ≤ D * 10 ^ k.toNat * 2 ^ (-(eb - 2)).toNat :=
        Nat.le_mul_of_pos_right _ (Nat.pow_pos (by omega))
      omega
    have p2 : (4 * m + 2) * 2 ^ (eb - 2).toNat ≤ 2 ^ 55 * 2 ^ 969 :=
      Nat.mul_le_mul (by omega) (Nat.pow_le_pow_right (by omega) (by omega))
    have p3 : (2 : Nat) ^ 55 * 2 ^ 969 = 2 ^ 1024 := by rw [← Nat.pow_add]
    have := big1
    omega
  have g2 : ¬ (((natDigits D).length : Int) + k < -330) := by
    intro hk
    obtain ⟨_, _, hlen⟩ := natDigits_length_spec D (by omega)
    generalize (natDigits D).length = nd at *
    have := hcl.1
    unfold GeQ at this
    have e1 : k.toNat = 0 := by omega
    rw [e1] at this
    simp only [Nat.pow_zero, Nat.mul_one, Nat.one_mul] at this
    -- lo * (10^(-k) * 2^(eb-2)) ≤ D * 2^(-(eb-2))
    have q1 : 10 ^ (331 + nd) ≤ 10 ^ (-k).toNat := Nat.pow_le_pow_right (by omega) (by omega)
    have q2 : 10 ^ (-k).toNat ≤ 10 ^ (-k).toNat * 2 ^ (eb - 2).toNat :=
      Nat.le_mul_of_pos_right _ (Nat.pow_pos (by omega))
    have q3 : 10 ^ (-k).toNat * 2 ^ (eb - 2).toNat ≤ lo * (10 ^ (-k).toNat * 2 ^ (eb - 2).toNat) :=
      Nat.le_mul_of_pos_left _ (by omega)
    have q4 : D * 2 ^ (-(eb - 2)).toNat < 10 ^ nd * 2 ^ 1076 :=
      Nat.mul_lt_mul_of_lt_of_le hlen (Nat.pow_le_pow_right (by omega) (by omega)) (Nat.pow_pos (by omega))
    have q5 : 10 ^ 331 * 10 ^ nd < 2 ^ 1076 * 10 ^ nd := by
      rw [← Nat.pow_add, Nat.mul_comm (2 ^ 1076)]; omega
    have := Nat.lt_of_mul_lt_mul_right q5
    have := big2
    omega
  simp only [g1, g2, if_false]
  rw [scale10_eq]
  simp only
  rw [ofRat_of_mem (isNeg bits) _ _ m eb lo hden hm hm53 he1 he2 hcanon hlo' hcl.1 hcl.2
    (by
      split at hI
      · rename_i hi; left; simpa using hi
      · right; exact hI)]
  exact hbits.symm


-- the tie `2^53 + 1` (midpoint of `2^53` and `2^53 + 2`) belongs to the even neighbour `2^53` only
example : InIvl 0x4340000000000000 9007199254740993 0 := by decide +kernel
example : ¬ InIvl 0x4340000000000001 9007199254740993 0 := by decide +kernel
example : ofDecimal (isNeg 0x4340000000000000) [9,0,0,7,1,9,9,2,5,4,7,4,0,9,9,3] 0 = 0x4340000000000000 :=
  ofDecimal_of_mem 0x4340000000000000 (by decide) (by decide +kernel) (by decide +kernel) _ 0 (by decide +kernel)
-- just below a power of two the lower half interval is half as wide: `2^53 - 0.5` is its end point
example : ofDecimal (isNeg 0x4340000000000000) [9,0,0,7,1,9,9,2,5,4,7,4,0,9,9,1,5] (-1) = 0x4340000000000000 :=
  ofDecimal_of_mem 0x4340000000000000 (by decide) (by decide +kernel) (by decide +kernel) _ (-1) (by decide +kernel)
-- smallest subnormal (5e-324), largest finite double (negative)
example : ofDecimal (isNeg 1) [5] (-324) = 1 :=
  ofDecimal_of_mem 1 (by decide) (by decide +kernel) (by decide +kernel) [5] (-324) (by decide +kernel)
example : ofDecimal (isNeg 0xFFEFFFFFFFFFFFFF) [1,7,9,7,6,9,3,1,3,4,8,6,2,3,1,5,7] 292 = 0xFFEFFFFFFFFFFFFF :=
  ofDecimal_of_mem 0xFFEFFFFFFFFFFFFF (by decide) (by decide +kernel) (by decide +kernel) _ 292 (by decide +kernel)

end PV.Dec
