import PV.C17.Lemmas
/-
  C17 — the digit clamp of `literal/src/float.rs` is invisible.

  Since the fix of the `format!` precision panic, `format_fixed` / `format_exponent` / `format_general`
  ask Rust's `{:.N}` / `{:.Ne}` for at most `MAX_FLOAT_DIGITS = 1100` digits and append the remaining
  `precision - 1100` digits as `'0'` characters.  This file proves, on the exact decimal arithmetic
  `PV.Dec`, that this is what an unbounded precision would print, for EVERY double and EVERY precision:

    * a double is `m · 2^e` with `e ≥ -1074`, so `value · 10^L` is an integer for `L ≥ 1074`: no
      rounding happens in `toFixedL` from there on and each further digit is a zero (`toFixedL_clamp`);
    * scaled into `[1, 10)` by its decimal exponent (`≤ 308`, and `≤ 15` when `e < 0`) it needs at most
      `1074 + 15` further digits, so `toExpL` is exact from `L ≥ 1100` on (`expDigits_clamp`, `toExpL_clamp`).

  Consequently the model's renderers equal their unclamped readings (`formatFixed_unclamped`, …), which is
  what the printf theorems of `Thm.lean` (and C18/C19) are stated about.
-/
namespace PV.C17
open PV.Dec

/-! ## arithmetic -/

theorem natDigits_mul_pow10 (n j : Nat) (h : 0 < n) :
    natDigits (n * 10 ^ j) = natDigits n ++ List.replicate j 0 := by
  induction j with
  | zero => simp
  | succ j ih =>
    rw [Nat.pow_succ, ← Nat.mul_assoc, natDigits_mul10 _ (Nat.mul_pos h (Nat.pow_pos (by omega))), ih,
      List.replicate_succ', List.append_assoc]

/-- binary exponent and mantissa of `decompose`: `-1074 ≤ e ≤ 972`, `m < 2^53` (every bit pattern) -/
theorem decompose_exp_bounds (bits : Nat) :
    -1074 ≤ (decompose bits).2.2 ∧ (decompose bits).2.2 ≤ 972 ∧ (decompose bits).2.1 < 2 ^ 53 := by
  have hef : expField bits < 2048 := Nat.mod_lt _ (by omega)
  have hff : fracField bits < 2 ^ 52 := Nat.mod_lt _ (by omega)
  unfold decompose
  by_cases h0 : expField bits = 0
  · simp only [h0, beq_self_eq_true, if_true]; omega
  · have : (expField bits == 0) = false := by simpa using h0
    simp only [this, Bool.false_eq_true, if_false]; omega

/-- `2^a · 10^b` divides `10^L` when `a + b ≤ L` -/
theorem pow10_split (L a b : Nat) (h : a + b ≤ L) : ∃ c, 10 ^ L = c * (2 ^ a * 10 ^ b) := by
  obtain ⟨x, rfl⟩ : ∃ x, L = x + a + b := ⟨L - a - b, by omega⟩
  refine ⟨5 ^ (x + a) * 2 ^ x, ?_⟩
  have h10 : ∀ n, (10 : Nat) ^ n = 5 ^ n * 2 ^ n := fun n => by rw [← Nat.mul_pow]
  rw [h10 (x + a + b), h10 b, Nat.pow_add 5 (x + a) b, Nat.pow_add 2 (x + a) b, Nat.pow_add 2 x a]
  ac_rfl

/-- the denominator of a double's exact value divides `10^L` for every `L ≥ 1074` -/
theorem ratOf_den_dvd (bits L : Nat) (hL : 1074 ≤ L) :
    ∃ c, 10 ^ L = c * (ratOf (decompose bits).2.1 (decompose bits).2.2).2 := by
  obtain ⟨he, _, _⟩ := decompose_exp_bounds bits
  generalize (decompose bits).2.2 = e at *
  unfold ratOf
  split
  · exact ⟨10 ^ L, by simp⟩
  · obtain ⟨c, hc⟩ := pow10_split L (-e).toNat 0 (by omega)
    exact ⟨c, by simpa using hc⟩

/-! ## fixed notation -/

/-- from 1074 decimals on, `value · 10^p` is an integer: no rounding, one more zero per decimal -/
theorem fixedInt_clamp (bits L p : Nat) (hL : 1074 ≤ L) (hp : L ≤ p) :
    fixedInt bits p = fixedInt bits L * 10 ^ (p - L) := by
  obtain ⟨c, hc⟩ := ratOf_den_dvd bits L hL
  unfold fixedInt
  simp only
  generalize (ratOf (decompose bits).2.1 (decompose bits).2.2) = r at *
  obtain ⟨num, den⟩ := r
  simp only at hc ⊢
  have hd : 0 < den := by
    rcases Nat.eq_zero_or_pos den with h | h
    · subst h; simp at hc
    · exact h
  have e1 : num * 10 ^ L = (num * c) * den := by rw [hc, Nat.mul_assoc]
  have e2 : num * 10 ^ p = (num * c * 10 ^ (p - L)) * den := by
    have : p = L + (p - L) := by omega
    rw [this, Nat.pow_add, ← Nat.mul_assoc, e1]
    simp only [Nat.add_sub_cancel_left]
    rw [Nat.mul_assoc, Nat.mul_comm den, ← Nat.mul_assoc]
  rw [e1, e2, roundHalfEven_exact _ _ hd, roundHalfEven_exact _ _ hd]

/-- the zero-padded digit list of `toFixedL` -/
def fixedPadded (bits prec : Nat) : List Nat :=
  List.replicate (prec + 1 - (natDigits (fixedInt bits prec)).length) 0 ++ natDigits (fixedInt bits prec)

theorem fixedPadded_length (bits prec : Nat) : prec + 1 ≤ (fixedPadded bits prec).length := by
  unfold fixedPadded; simp; omega

theorem fixedPadded_clamp (bits L p : Nat) (hL : 1074 ≤ L) (hp : L ≤ p) :
    fixedPadded bits p = fixedPadded bits L ++ List.replicate (p - L) 0 := by
  unfold fixedPadded
  rw [fixedInt_clamp bits L p hL hp]
  generalize fixedInt bits L = N
  obtain ⟨j, rfl⟩ : ∃ j, p = L + j := ⟨p - L, by omega⟩
  simp only [Nat.add_sub_cancel_left]
  rcases Nat.eq_zero_or_pos N with h | h
  · subst h
    have e : natDigits 0 = [0] := by decide
    simp only [Nat.zero_mul, e, List.length_singleton]
    rw [show L + j + 1 - 1 = L + j by omega, show L + 1 - 1 = L by omega]
    rw [List.append_assoc]
    have : ([0] : List Nat) = List.replicate 1 0 := rfl
    rw [this]
    simp only [List.replicate_append_replicate]
    congr 1; omega
  · rw [natDigits_mul_pow10 _ _ h]
    simp only [List.length_append, List.length_replicate, List.append_assoc]
    congr 2; omega

/-- Rust's `{:.p$}` for `p ≥ L ≥ 1074` is `{:.L$}` followed by `p - L` zeros (finite doubles). -/
theorem toFixedL_clamp (bits L p : Nat) (hf : isFinite bits = true) (hL : 1074 ≤ L) (hp : L ≤ p) :
    toFixedL bits p = toFixedL bits L ++ List.replicate (p - L) 48 := by
  have h1 := finite_not_nan hf
  have h2 := finite_not_inf hf
  unfold toFixedL
  simp only [h1, h2, Bool.false_eq_true, if_false]
  have hp0 : (p == 0) = false := by simp; omega
  have hL0 : (L == 0) = false := by simp; omega
  simp only [hp0, hL0, Bool.false_eq_true, if_false]
  have key := fixedPadded_clamp bits L p hL hp
  have hlen := fixedPadded_length bits L
  unfold fixedPadded at key hlen
  rw [key]
  generalize List.replicate (L + 1 - (natDigits (fixedInt bits L)).length) 0 ++ natDigits (fixedInt bits L) = ds at *
  have e1 : (ds ++ List.replicate (p - L) 0).length - p = ds.length - L := by simp; omega
  rw [e1, List.take_append_of_le_length (by omega), List.drop_append_of_le_length (by omega)]
  simp [showDigits, List.map_replicate]

/-! ## exponent notation -/

theorem pow_bound_a : (2 : Nat) ^ 53 * 2 ^ 972 ≤ 10 ^ 309 := by decide +kernel
theorem pow_bound_b : (2 : Nat) ^ 53 ≤ 10 ^ 16 := by decide

/-- the scaled denominator `d1` of `expDigits` (`value / 10^ilog10 = n1 / d1 ∈ [1, 10)`) divides `10^L`
    for `L ≥ 1100`: the decimal exponent is at most 308, and at most 15 when the value has a binary
    fraction (`e < 0`, at most 1074 fraction bits). -/
theorem exp_den_dvd (bits L : Nat) (hm : (decompose bits).2.1 ≠ 0) (hL : 1100 ≤ L) :
    let r := ratOf (decompose bits).2.1 (decompose bits).2.2
    ∃ c, 10 ^ L = c * (scale10 r.1 r.2 (-(ilog10 r.1 r.2))).2 := by
  intro r
  obtain ⟨he1, he2, hm53⟩ := decompose_exp_bounds bits
  obtain ⟨hn, hd⟩ := ratOf_pos (decompose bits).2.1 (decompose bits).2.2 (by omega)
  obtain ⟨s1, s2⟩ := ilog10_spec r.1 r.2 hn hd
  generalize ilog10 r.1 r.2 = e10 at *
  have hr : r = ratOf (decompose bits).2.1 (decompose bits).2.2 := rfl
  generalize (decompose bits).2.1 = m at *
  generalize (decompose bits).2.2 = e at *
  unfold scale10 at s1 s2 ⊢
  unfold ratOf at hr
  by_cases h10 : -e10 ≥ 0
  · simp only [h10, if_true] at s1 s2 ⊢
    by_cases hge : e ≥ 0
    · simp only [hge, if_true] at hr
      rw [hr]; exact ⟨10 ^ L, by simp⟩
    · simp only [hge, if_false] at hr
      rw [hr]
      obtain ⟨c, hc⟩ := pow10_split L (-e).toNat 0 (by omega)
      exact ⟨c, by simpa using hc⟩
  · simp only [h10, if_false] at s1 s2 ⊢
    generalize hE : (- -e10).toNat = E at *
    by_cases hge : e ≥ 0
    · simp only [hge, if_true] at hr
      rw [hr] at s1 ⊢
      simp only [Nat.one_mul] at s1 ⊢
      -- 10^E ≤ m · 2^e < 2^53 · 2^972 ≤ 10^309
      have h2 : m * 2 ^ e.toNat < 2 ^ 53 * 2 ^ 972 := by
        have hle : e.toNat ≤ 972 := by omega
        have : 2 ^ e.toNat ≤ 2 ^ 972 := Nat.pow_le_pow_right (Nat.succ_pos 1) hle
        exact Nat.lt_of_le_of_lt (Nat.mul_le_mul_left _ this)
          (Nat.mul_lt_mul_of_pos_right hm53 (Nat.pow_pos (Nat.succ_pos 1)))
      have h3 : 10 ^ E < 10 ^ 309 := Nat.lt_of_le_of_lt s1 (Nat.lt_of_lt_of_le h2 pow_bound_a)
      have hE' : E < 309 := (Nat.pow_lt_pow_iff_right (a := 10) (by omega)).1 h3
      obtain ⟨c, hc⟩ := pow10_split L 0 E (by omega)
      exact ⟨c, by simpa using hc⟩
    · simp only [hge, if_false] at hr
      rw [hr] at s1 ⊢
      simp only at s1 ⊢
      have hp : 0 < 2 ^ (-e).toNat := Nat.pow_pos (by omega)
      have h3 : 10 ^ E < 10 ^ 16 :=
        Nat.lt_of_le_of_lt (Nat.le_trans (Nat.le_mul_of_pos_left _ hp) s1) (Nat.lt_of_lt_of_le hm53 pow_bound_b)
      have hE' : E < 16 := (Nat.pow_lt_pow_iff_right (a := 10) (by omega)).1 h3
      exact pow10_split L (-e).toNat E (by omega)

/-- Significant digits beyond the 1100th are zeros (and the exponent does not move): with `L ≥ 1100`
    digits after the leading one the scaled value is an integer, nothing is rounded. -/
theorem expDigits_clamp (bits L p : Nat) (hL : 1100 ≤ L) (hp : L ≤ p) :
    expDigits bits p = ((expDigits bits L).1 ++ List.replicate (p - L) 0, (expDigits bits L).2) := by
  obtain ⟨j, rfl⟩ : ∃ j, p = L + j := ⟨p - L, by omega⟩
  simp only [Nat.add_sub_cancel_left]
  rw [expDigits_eq, expDigits_eq]
  by_cases hm : (decompose bits).2.1 = 0
  · simp only [hm, if_true, List.replicate_append_replicate]
    congr 2; omega
  · simp only [hm, if_false]
    obtain ⟨c, hc⟩ := exp_den_dvd bits L hm hL
    obtain ⟨hn, hd⟩ := ratOf_pos (decompose bits).2.1 (decompose bits).2.2 (by omega)
    obtain ⟨s1, s2⟩ := ilog10_spec _ _ hn hd
    have hd1 := scale10_den_pos (ratOf (decompose bits).2.1 (decompose bits).2.2).1 _
      (-(ilog10 (ratOf (decompose bits).2.1 (decompose bits).2.2).1
      (ratOf (decompose bits).2.1 (decompose bits).2.2).2)) hd
    unfold expRound
    generalize ilog10 _ _ = e10 at *
    generalize (scale10 _ _ (-e10)).1 = n1 at *
    generalize (scale10 _ _ (-e10)).2 = d1 at *
    have eL : n1 * 10 ^ L = (n1 * c) * d1 := by rw [hc, Nat.mul_assoc]
    have eP : n1 * 10 ^ (L + j) = (n1 * c * 10 ^ j) * d1 := by
      rw [Nat.pow_add, ← Nat.mul_assoc, eL, Nat.mul_assoc, Nat.mul_comm d1, ← Nat.mul_assoc]
    rw [eL, eP, roundHalfEven_exact _ _ hd1, roundHalfEven_exact _ _ hd1]
    -- R := n1 · c  with  0 < R < 10^(L+1)
    have hR2 : n1 * c < 10 ^ (L + 1) := by
      have : n1 * c * d1 < 10 ^ (L + 1) * d1 := by
        rw [← eL, Nat.pow_succ, Nat.mul_comm (10 ^ L) 10, Nat.mul_assoc, Nat.mul_comm (10 ^ L) d1, ← Nat.mul_assoc]
        exact Nat.mul_lt_mul_of_pos_right s2 (Nat.pow_pos (by omega))
      exact Nat.lt_of_mul_lt_mul_right this
    have hR1 : 0 < n1 * c := by
      rcases Nat.eq_zero_or_pos (n1 * c) with h | h
      · rw [h, Nat.zero_mul] at eL
        have : 0 < n1 * 10 ^ L := Nat.mul_pos (by omega) (Nat.pow_pos (by omega))
        omega
      · exact h
    generalize n1 * c = R at *
    have hP2 : R * 10 ^ j < 10 ^ (L + j + 1) := by
      rw [show L + j + 1 = (L + 1) + j by omega, Nat.pow_add]
      exact Nat.mul_lt_mul_of_pos_right hR2 (Nat.pow_pos (by omega))
    have c1 : ¬ (R ≥ 10 ^ (L + 1)) := by omega
    have c2 : ¬ (R * 10 ^ j ≥ 10 ^ (L + j + 1)) := by omega
    simp only [c1, c2, if_false]
    rw [natDigits_mul_pow10 _ _ hR1]

/-- Rust's `{:.p$e}` for `p ≥ L ≥ 1100` is `{:.L$e}` with `p - L` zeros appended to the mantissa. -/
theorem toExpL_clamp' (bits L p : Nat) (hL : 1100 ≤ L) (hp : L ≤ p) :
    toExpL bits p = ((toExpL bits L).1 ++ List.replicate (p - L) 48, (toExpL bits L).2) := by
  unfold toExpL
  rw [expDigits_clamp bits L p hL hp]
  have hl := expDigits_length bits L
  generalize expDigits bits L = ed at *
  obtain ⟨ds, x⟩ := ed
  have hp0 : (p == 0) = false := by simp; omega
  have hL0 : (L == 0) = false := by simp; omega
  match ds, hl with
  | d :: rest, _ =>
    simp [hp0, hL0, showDigits, List.map_replicate]

/-! ## the model's clamped renderers equal their unclamped readings -/

theorem maxFloatDigits_ge : 1100 ≤ maxFloatDigits := Nat.le_refl _

/-- `format_fixed`'s `{:.digits$}{zeros}` is `{:.precision$}` -/
theorem fixedClamped_eq (bits p : Nat) (hf : isFinite bits = true) : fixedClamped bits p = toFixedL bits p := by
  unfold fixedClamped
  simp only
  by_cases h : p ≤ maxFloatDigits
  · rw [Nat.min_eq_left h]; simp
  · rw [Nat.min_eq_right (by omega)]
    exact (toFixedL_clamp bits maxFloatDigits p hf (by have := maxFloatDigits_ge; omega) (by omega)).symm

/-- `{:.digits$e}` with the `zeros` appended to the mantissa is `{:.precision$e}` -/
theorem toExpL_clamp (bits p : Nat) :
    toExpL bits p = ((toExpL bits (min p maxFloatDigits)).1 ++
      List.replicate (p - min p maxFloatDigits) 48, (toExpL bits (min p maxFloatDigits)).2) := by
  by_cases h : p ≤ maxFloatDigits
  · rw [Nat.min_eq_left h]; simp
  · rw [Nat.min_eq_right (by omega)]
    exact toExpL_clamp' bits maxFloatDigits p maxFloatDigits_ge (by omega)

/-- `format_fixed`, read without the clamp -/
theorem formatFixed_unclamped (precision bits : Nat) (upper alt : Bool) :
    formatFixed precision bits upper alt =
      if isFinite bits then toFixedL bits precision ++ decimalPointOrEmpty precision alt
      else if isNan bits then formatNan upper
      else formatInf upper := by
  unfold formatFixed
  by_cases hf : isFinite bits = true
  · simp only [hf, if_true, fixedClamped_eq bits precision hf]
  · simp only [hf, Bool.false_eq_true, if_false]

/-- `format_exponent`, read without the clamp -/
theorem formatExponent_unclamped (precision bits : Nat) (upper alt : Bool) :
    formatExponent precision bits upper alt =
      if isFinite bits then
        (toExpL bits precision).1 ++ decimalPointOrEmpty precision alt ++ [eChar upper] ++
          expSuffix (toExpL bits precision).2
      else if isNan bits then formatNan upper
      else formatInf upper := by
  unfold formatExponent
  by_cases hf : isFinite bits = true
  · simp only [hf, if_true]
    rw [toExpL_clamp bits precision]
  · simp only [hf, Bool.false_eq_true, if_false]

/-- the mantissa text of `{:.d$e}` on a non-negative double: one digit, and for `d > 0` a point and
    `d` digits -/
theorem toExpL_length (bits d : Nat) (hs : isNeg bits = false) :
    (toExpL bits d).1.length = if d = 0 then 1 else d + 2 := by
  unfold toExpL
  have hl := expDigits_length bits d
  generalize expDigits bits d = ed at *
  obtain ⟨ds, x⟩ := ed
  match ds, hl with
  | a :: rest, hl =>
    simp only [List.length_cons] at hl
    by_cases h0 : d = 0
    · subst h0; simp [hs]
    · have : (d == 0) = false := by simpa using h0
      simp [hs, this, h0, showDigits]; omega

/-- the body of `format_general`, read without the clamp (non-negative doubles, as both callers pass):
    the `{:.*}` truncation of the mantissa to `precision + 1` characters is kept as the old code had it. -/
theorem formatGeneralCore_unclamped (precision bits : Nat) (upper alt asf : Bool) (hs : isNeg bits = false) :
    formatGeneralCore precision bits upper alt asf =
      if isFinite bits then
        if (toExpL bits (precision - 1)).2 < -4 ∨
            (toExpL bits (precision - 1)).2 + (if asf then 1 else 0) ≥ (precision : Int) then
          maybeRemoveTrailingRedundantChars ((toExpL bits (precision - 1)).1.take (precision + 1)) alt ++
            decimalPointOrEmpty (precision - 1) alt ++ [eChar upper] ++ expSuffix (toExpL bits (precision - 1)).2
        else
          maybeRemoveTrailingRedundantChars
            (toFixedL bits ((precision : Int) - 1 - (toExpL bits (precision - 1)).2).toNat) alt ++
            decimalPointOrEmpty ((precision : Int) - 1 - (toExpL bits (precision - 1)).2).toNat alt ++
            (if asf ∧ !(maybeRemoveTrailingRedundantChars
                (toFixedL bits ((precision : Int) - 1 - (toExpL bits (precision - 1)).2).toNat) alt).contains 46
              then [46, 48] else [])
      else if isNan bits then formatNan upper
      else formatInf upper := by
  unfold formatGeneralCore
  by_cases hf : isFinite bits = true
  · simp only [hf, if_true]
    have hc := toExpL_clamp bits (precision - 1)
    have hlen := toExpL_length bits (min (precision - 1) maxFloatDigits) hs
    generalize toExpL bits (min (precision - 1) maxFloatDigits) = r at *
    obtain ⟨base, x⟩ := r
    rw [hc]
    simp only at hlen ⊢
    have e1 : base.take (min (precision - 1) maxFloatDigits + 2) = base :=
      List.take_of_length_le (by rw [hlen]; split <;> omega)
    have e2 : (base ++ List.replicate (precision - 1 - min (precision - 1) maxFloatDigits) 48).take (precision + 1) =
        base ++ List.replicate (precision - 1 - min (precision - 1) maxFloatDigits) 48 := by
      apply List.take_of_length_le
      simp only [List.length_append, List.length_replicate, hlen]
      split <;> omega
    rw [e1, e2]
    simp only [formatFixed_unclamped, hf, if_true, decimalPointOrEmpty, Bool.false_eq_true, and_false, if_false,
      List.append_nil]
  · simp only [hf, Bool.false_eq_true, if_false]

end PV.C17
